// Package ori wraps the exported in-process API of origami for the checks that need a Go
// level view (registries, TempVM, HTTP handler, Go boundary, lexer/parser, codecs).
// data.WriteOutput is process-global, so RunString calls must not overlap in one process.
package ori

import (
	"fmt"
	"runtime/debug"
	"strings"

	"github.com/php-any/origami/data"
	"github.com/php-any/origami/parser"
	"github.com/php-any/origami/runtime"
	"github.com/php-any/origami/std"
	"github.com/php-any/origami/std/net/http"
	"github.com/php-any/origami/std/php"
	"github.com/php-any/origami/std/system"
)

// NewVM creates a parser + VM with the standard libraries the CLI loads (minus
// websocket/annotation).
func NewVM() (*runtime.VM, *parser.Parser) {
	p := parser.NewParser()
	vm := runtime.NewVM(p)
	std.Load(vm)
	php.Load(vm)
	http.Load(vm)
	system.Load(vm)
	return vm.(*runtime.VM), p
}

type Result struct {
	Out        string       // everything the script wrote through data.WriteOutput
	ParseErr   data.Control // non-nil when the source was rejected
	Ctl        data.Control // control returned by / thrown out of the program
	Uncaught   data.Control // control handed to the VM's uncaught handler
	Panic      any          // recovered Go panic, if any
	PanicStack string
}

// Run parses and runs src on the given VM, capturing output and the uncaught path.
func Run(vm *runtime.VM, p *parser.Parser, src, path string) (res Result) {
	var sb strings.Builder
	old := data.WriteOutput
	data.WriteOutput = func(s string) { sb.WriteString(s) }
	defer func() {
		data.WriteOutput = old
		res.Out = sb.String()
		if r := recover(); r != nil {
			res.Panic = r
			res.PanicStack = string(debug.Stack())
		}
	}()
	vm.SetThrowControl(func(acl data.Control) { res.Uncaught = acl })
	prog, acl := p.ParseString(src, path)
	if acl != nil {
		res.ParseErr = acl
		return
	}
	ctx := vm.CreateContext(p.GetVariables())
	_, ctl := prog.GetValue(ctx)
	res.Ctl = ctl
	if data.FlushAllBuffersFn != nil {
		data.FlushAllBuffersFn()
	}
	return
}

// RunString runs src on a fresh VM.
func RunString(src string) Result {
	vm, p := NewVM()
	return Run(vm, p, src, "/verif-inproc/main.php")
}

func CtlString(c data.Control) string {
	if c == nil {
		return ""
	}
	return fmt.Sprintf("%T:%s", c, c.AsString())
}
