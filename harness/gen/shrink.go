package gen

// holders returns pointers to every statement list of the program.
func holders(p *Program) []*[]Stmt {
	var hs []*[]Stmt
	var walk func(b *[]Stmt)
	walk = func(b *[]Stmt) {
		hs = append(hs, b)
		for _, s := range *b {
			switch s := s.(type) {
			case *If:
				walk(&s.Then)
				for i := range s.Elifs {
					walk(&s.Elifs[i].Body)
				}
				if s.HasElse {
					walk(&s.Else)
				}
			case *While:
				walk(&s.Body)
			case *DoWhile:
				walk(&s.Body)
			case *For:
				walk(&s.Body)
			case *Foreach:
				walk(&s.Body)
			case *Switch:
				for i := range s.Cases {
					walk(&s.Cases[i].Body)
				}
			case *Try:
				walk(&s.Body)
				for i := range s.Catches {
					walk(&s.Catches[i].Body)
				}
				if s.HasFinally {
					walk(&s.Finally)
				}
			}
		}
	}
	for _, f := range p.Funcs {
		walk(&f.Body)
	}
	walk(&p.Main)
	return hs
}

// Shrink greedily deletes statements (and hoists bodies of compound statements) while
// fails(p) keeps returning true. It mutates and returns p. fails must tolerate programs
// that became invalid (return false for them).
func Shrink(p *Program, fails func(*Program) bool, maxTries int) *Program {
	tries := 0
	// drop functions nothing needs any more (tried last-to-first, repeated below)
	dropFuncs := func() {
		for i := len(p.Funcs) - 1; i >= 0 && tries < maxTries; i-- {
			old := p.Funcs
			p.Funcs = append(append([]*Func{}, old[:i]...), old[i+1:]...)
			tries++
			if !fails(p) {
				p.Funcs = old
			}
		}
	}
	defer dropFuncs()
	for changed := true; changed && tries < maxTries; {
		changed = false
		for _, h := range holders(p) {
			for i := len(*h) - 1; i >= 0 && tries < maxTries; i-- {
				if i >= len(*h) {
					continue
				}
				old := *h
				// 1. delete the statement
				nw := append(append([]Stmt{}, old[:i]...), old[i+1:]...)
				*h = nw
				tries++
				if fails(p) {
					changed = true
					continue
				}
				*h = old
				// 2. replace a compound statement by its (first) body
				var body []Stmt
				switch s := old[i].(type) {
				case *If:
					body = s.Then
				case *Try:
					body = s.Body
				}
				if body != nil {
					nw = append(append(append([]Stmt{}, old[:i]...), body...), old[i+1:]...)
					*h = nw
					tries++
					if fails(p) {
						changed = true
						continue
					}
					*h = old
				}
			}
		}
	}
	return p
}
