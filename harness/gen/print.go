package gen

import (
	"fmt"
	"strconv"
	"strings"
)

type printer struct {
	sb  strings.Builder
	ind int
}

func (p *printer) line(format string, a ...any) {
	p.sb.WriteString(strings.Repeat("  ", p.ind))
	fmt.Fprintf(&p.sb, format, a...)
	p.sb.WriteByte('\n')
}

// Source renders the program as origami/PHP source text.
func Source(pr *Program) string {
	p := &printer{}
	p.sb.WriteString("<?php\n")
	for _, c := range pr.Classes {
		if c.Interface {
			ext := ""
			if len(c.Implements) > 0 {
				ext = " extends " + strings.Join(c.Implements, ", ")
			}
			p.line("interface %s%s {}", c.Name, ext)
		} else {
			s := "class " + c.Name
			if c.Extends != "" {
				s += " extends " + c.Extends
			}
			if len(c.Implements) > 0 {
				s += " implements " + strings.Join(c.Implements, ", ")
			}
			p.line("%s {}", s)
		}
	}
	for _, f := range pr.Funcs {
		var ps []string
		for _, pa := range f.Params {
			s := "$" + pa.V.Name
			if pa.Default != nil {
				d := ExprSrc(pa.Default)
				if il, ok := pa.Default.(*IntLit); ok && il.V < 0 {
					d = strconv.FormatInt(il.V, 10)
				}
				s += " = " + d
			}
			ps = append(ps, s)
		}
		p.line("function %s(%s) {", f.Name, strings.Join(ps, ", "))
		p.ind++
		// static declarations come first (they are in Body), then local initialisation
		for _, v := range f.Locals {
			p.line("$%s = %s;", v.Name, zeroSrc(v.T))
		}
		p.stmts(f.Body)
		p.ind--
		p.line("}")
	}
	for _, v := range pr.Globals {
		p.line("$%s = %s;", v.Name, zeroSrc(v.T))
	}
	p.stmts(pr.Main)
	return p.sb.String()
}

func zeroSrc(t Type) string {
	switch t {
	case TInt:
		return "0"
	case TStr:
		return "''"
	case TBool:
		return "false"
	case TArr:
		return "[]"
	}
	return "null"
}

func (p *printer) block(ss []Stmt) {
	p.ind++
	p.stmts(ss)
	p.ind--
}

func (p *printer) stmts(ss []Stmt) {
	for _, s := range ss {
		p.stmt(s)
	}
}

func lvl(n int) string {
	if n <= 1 {
		return ""
	}
	return " " + strconv.Itoa(n)
}

func (p *printer) stmt(s Stmt) {
	switch s := s.(type) {
	case *Assign:
		p.line("$%s %s %s;", s.V.Name, s.Op, ExprSrc(s.E))
	case *Append:
		p.line("$%s[] = %s;", s.V.Name, ExprSrc(s.E))
	case *IncDec:
		op := "--"
		if s.Inc {
			op = "++"
		}
		if s.Prefix {
			p.line("%s$%s;", op, s.V.Name)
		} else {
			p.line("$%s%s;", s.V.Name, op)
		}
	case *Echo:
		var a []string
		for _, e := range s.Args {
			a = append(a, ExprSrc(e))
		}
		p.line("echo %s;", strings.Join(a, ", "))
	case *If:
		p.line("if (%s) {", ExprSrc(s.Cond))
		p.block(s.Then)
		for _, e := range s.Elifs {
			p.line("} elseif (%s) {", ExprSrc(e.Cond))
			p.block(e.Body)
		}
		if s.HasElse {
			p.line("} else {")
			p.block(s.Else)
		}
		p.line("}")
	case *While:
		p.line("$%s = 0;", s.Guard)
		p.line("while ($%s < %d && %s) {", s.Guard, s.Limit, ExprSrc(s.Cond))
		p.ind++
		p.line("$%s++;", s.Guard)
		p.stmts(s.Body)
		p.ind--
		p.line("}")
	case *DoWhile:
		p.line("$%s = 0;", s.Guard)
		p.line("do {")
		p.ind++
		p.line("$%s++;", s.Guard)
		p.stmts(s.Body)
		p.ind--
		p.line("} while ($%s < %d && %s);", s.Guard, s.Limit, ExprSrc(s.Cond))
	case *For:
		cmp, inc := "<", ""
		if s.Down {
			cmp = ">"
		}
		switch s.Style {
		case 0:
			inc = "$" + s.V + "++"
			if s.Down {
				inc = "$" + s.V + "--"
			}
		case 1:
			inc = "++$" + s.V
			if s.Down {
				inc = "--$" + s.V
			}
		case 2:
			inc = "$" + s.V + " += 1"
			if s.Down {
				inc = "$" + s.V + " -= 1"
			}
		default:
			inc = "$" + s.V + " = $" + s.V + " + 1"
			if s.Down {
				inc = "$" + s.V + " = $" + s.V + " - 1"
			}
		}
		p.line("for ($%s = %d; $%s %s %d; %s) {", s.V, s.From, s.V, cmp, s.To, inc)
		p.block(s.Body)
		p.line("}")
	case *Foreach:
		if s.KeyVar != "" {
			p.line("foreach (%s as $%s => $%s) {", ExprSrc(s.Src), s.KeyVar, s.ValVar)
		} else {
			p.line("foreach (%s as $%s) {", ExprSrc(s.Src), s.ValVar)
		}
		p.block(s.Body)
		p.line("}")
	case *Switch:
		p.line("switch (%s) {", ExprSrc(s.Subj))
		p.ind++
		for _, c := range s.Cases {
			if c.Default {
				p.line("default:")
			}
			for _, v := range c.Vals {
				p.line("case %s:", labelSrc(v))
			}
			p.block(c.Body)
		}
		p.ind--
		p.line("}")
	case *Break:
		p.line("break%s;", lvl(s.Level))
	case *Continue:
		p.line("continue%s;", lvl(s.Level))
	case *Return:
		if s.E == nil {
			p.line("return;")
		} else {
			p.line("return %s;", ExprSrc(s.E))
		}
	case *ExprStmt:
		p.line("%s;", ExprSrc(s.E))
	case *StaticDecl:
		if s.IsStr {
			p.line("static $%s = '%s';", s.V.Name, s.StrInit)
		} else {
			p.line("static $%s = %d;", s.V.Name, s.Init)
		}
	case *Try:
		p.line("try {")
		p.block(s.Body)
		for _, c := range s.Catches {
			p.line("} catch (%s $%s) {", strings.Join(c.Types, " | "), c.Var)
			p.block(c.Body)
		}
		if s.HasFinally {
			p.line("} finally {")
			p.block(s.Finally)
		}
		p.line("}")
	case *Throw:
		p.line("throw new %s(%s);", s.Class, ExprSrc(s.Msg))
	case *Rethrow:
		p.line("throw $%s;", s.Var)
	case *RuntimeErr:
		switch s.Kind {
		case "mod0":
			p.line("$rz = 0;")
			p.line("$rz = 1 %% $rz;")
		default:
			p.line("verif_undefined_function_xyz();")
		}
	default:
		panic(fmt.Sprintf("print: unknown stmt %T", s))
	}
}

// ExprSrc renders an expression fully parenthesised.
func ExprSrc(e Expr) string {
	switch e := e.(type) {
	case *IntLit:
		if e.V < 0 {
			return "(" + strconv.FormatInt(e.V, 10) + ")"
		}
		return strconv.FormatInt(e.V, 10)
	case *StrLit:
		return "'" + e.S + "'"
	case *BoolLit:
		if e.B {
			return "true"
		}
		return "false"
	case *ArrLit:
		var a []string
		for _, x := range e.Elems {
			a = append(a, ExprSrc(x))
		}
		return "[" + strings.Join(a, ", ") + "]"
	case *MapLit:
		var a []string
		for i, k := range e.Keys {
			a = append(a, "'"+k+"' => "+ExprSrc(e.Vals[i]))
		}
		return "[" + strings.Join(a, ", ") + "]"
	case *Var:
		return "$" + e.Name
	case *Bin:
		return "(" + ExprSrc(e.L) + " " + e.Op + " " + ExprSrc(e.R) + ")"
	case *Not:
		return "(!" + ExprSrc(e.E) + ")"
	case *Neg:
		return "(-" + ExprSrc(e.E) + ")"
	case *Tern:
		return "(" + ExprSrc(e.C) + " ? " + ExprSrc(e.A) + " : " + ExprSrc(e.B) + ")"
	case *Call:
		var a []string
		for _, x := range e.Args {
			a = append(a, ExprSrc(x))
		}
		return e.Fn + "(" + strings.Join(a, ", ") + ")"
	case *Count:
		return "count(" + ExprSrc(e.Arr) + ")"
	case *Match:
		var arms []string
		for _, a := range e.Arms {
			var vs []string
			for _, v := range a.Vals {
				vs = append(vs, labelSrc(v))
			}
			arms = append(arms, strings.Join(vs, ", ")+" => "+ExprSrc(a.Res))
		}
		if e.Default != nil {
			arms = append(arms, "default => "+ExprSrc(e.Default))
		}
		// never parenthesised: origami rejects "(match (...) {...})"; the generator places match
		// only where it can stand bare
		return "match (" + stripParens(ExprSrc(e.Subj)) + ") { " + strings.Join(arms, ", ") + " }"
	case *BoolStr:
		return "(" + ExprSrc(e.E) + " ? 'T' : 'F')"
	case *Interp:
		var sb strings.Builder
		sb.WriteByte('"')
		for _, p := range e.Parts {
			if p.V == nil {
				sb.WriteString(strings.ReplaceAll(p.Lit, "\n", "\\n"))
			} else if p.Brace {
				sb.WriteString("{$" + p.V.Name + "}")
			} else {
				sb.WriteString("$" + p.V.Name)
			}
		}
		sb.WriteByte('"')
		return sb.String()
	case *GetMessage:
		return "$" + e.V + "->getMessage()"
	case *GetClass:
		return "get_class($" + e.V + ")"
	}
	panic(fmt.Sprintf("print: unknown expr %T", e))
}

// stripParens removes one pair of parentheses that encloses the whole text.
func stripParens(s string) string {
	if len(s) < 2 || s[0] != '(' || s[len(s)-1] != ')' {
		return s
	}
	depth := 0
	inStr := byte(0)
	for i := 0; i < len(s); i++ {
		c := s[i]
		if inStr != 0 {
			if c == inStr {
				inStr = 0
			}
			continue
		}
		switch c {
		case '\'', '"':
			inStr = c
		case '(':
			depth++
		case ')':
			depth--
			if depth == 0 && i != len(s)-1 {
				return s
			}
		}
	}
	return s[1 : len(s)-1]
}

// labelSrc renders a case label / match arm value: negative literals stay bare, because
// "(-3) => x" reads as an arrow function.
func labelSrc(e Expr) string {
	if il, ok := e.(*IntLit); ok {
		return strconv.FormatInt(il.V, 10)
	}
	return ExprSrc(e)
}
