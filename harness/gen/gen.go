package gen

import (
	"fmt"
	"math/rand"
)

// Config steers the generator.
type Config struct {
	MaxDepth   int  // nesting depth of compound statements (property bound: 5)
	Budget     int  // approximate number of statements
	Exceptions bool // C05: exception classes, try/catch/finally/throw
	ThrowBias  int  // 0..10: how eagerly throw sources are placed (C05)
	// Disabled switches a generator feature off (quarantined by an open finding).
	Disabled func(feature string) bool
}

type loopKind int

const (
	lkLoop loopKind = iota
	lkSwitch
)

type scope struct {
	fn        *Func
	assign    map[Type][]*Var // assignable variables
	read      map[Type][]*Var // readable (superset)
	loops     []loopKind      // enclosing breakable structures inside the current function, innermost last
	inFinally int
	catchVars []string
	iterating map[string]bool
	depth     int
	noAssign  map[string]bool
	// static locals of the function: never handed out by pickVar/pickAssignable, so that
	// no generated expression mixes a static with a call (PHP leaves the evaluation order
	// of `$st -= f()` / `$st + f()` unspecified when f changes $st through recursion);
	// they are written by call-free update statements and shown by dump().
	statics []*Var
}

type generator struct {
	r       *rand.Rand
	cfg     Config
	p       *Program
	budget  int
	counter int // per-function counter for loop / guard / catch variable names
	classes []string
	ifaces  []string
	label   int
}

func (g *generator) off(f string) bool {
	if g.cfg.Disabled != nil && g.cfg.Disabled(f) {
		return true
	}
	return false
}

func (g *generator) use(f string) { g.p.Features[f] = true }

// Generate builds one program from the PRNG.
func Generate(r *rand.Rand, cfg Config) *Program {
	if cfg.MaxDepth == 0 {
		cfg.MaxDepth = 5
	}
	if cfg.Budget == 0 {
		cfg.Budget = 40
	}
	g := &generator{r: r, cfg: cfg, p: &Program{Features: map[string]bool{}}, budget: cfg.Budget}
	if cfg.Exceptions {
		g.genClasses()
	}
	nf := r.Intn(4)
	for i := 0; i < nf; i++ {
		g.genFunc(i)
	}
	g.counter = 0
	sc := g.newScope(nil)
	g.p.Globals = scopeVars(sc)
	n := 3 + r.Intn(6)
	g.p.Main = g.block(sc, n)
	// always end with a dump of every global so that silent state divergence becomes output
	g.p.Main = append(g.p.Main, g.dump(sc))
	return g.p
}

func scopeVars(sc *scope) []*Var {
	var vs []*Var
	for _, t := range []Type{TInt, TStr, TBool, TArr} {
		vs = append(vs, sc.assign[t]...)
	}
	return vs
}

func (g *generator) newScope(fn *Func) *scope {
	sc := &scope{fn: fn, assign: map[Type][]*Var{}, read: map[Type][]*Var{}, iterating: map[string]bool{}, noAssign: map[string]bool{}}
	add := func(t Type, names ...string) {
		for _, n := range names {
			v := &Var{Name: n, T: t}
			sc.assign[t] = append(sc.assign[t], v)
			sc.read[t] = append(sc.read[t], v)
		}
	}
	// the same names in every frame: a leak between frames changes output
	add(TInt, "i0", "i1", "i2")
	add(TStr, "s0", "s1")
	add(TBool, "b0")
	add(TArr, "a0")
	return sc
}

func (g *generator) genClasses() {
	nc := 1 + g.r.Intn(5)
	ni := g.r.Intn(3)
	for i := 0; i < ni; i++ {
		name := fmt.Sprintf("I%d", i)
		if i%2 == 1 {
			// a user type whose name merely ends in "Throwable" is an ordinary type
			name += "Throwable"
		}
		d := ClassDecl{Name: name, Interface: true}
		if i > 0 && g.r.Intn(2) == 0 {
			d.Implements = []string{g.ifaces[g.r.Intn(i)]}
		}
		g.p.Classes = append(g.p.Classes, d)
		g.ifaces = append(g.ifaces, d.Name)
	}
	for i := 0; i < nc; i++ {
		cname := fmt.Sprintf("E%d", i)
		if i == 3 {
			cname = "E3Throwable"
		}
		d := ClassDecl{Name: cname, Extends: "Exception"}
		if i > 0 && g.r.Intn(4) != 0 {
			d.Extends = g.classes[g.r.Intn(i)]
		}
		for _, in := range g.ifaces {
			if g.r.Intn(3) == 0 {
				d.Implements = append(d.Implements, in)
			}
		}
		g.p.Classes = append(g.p.Classes, d)
		g.classes = append(g.classes, d.Name)
	}
}

func (g *generator) genFunc(idx int) {
	f := &Func{Name: fmt.Sprintf("f%d", idx)}
	g.counter = 0
	f.Ret = []Type{TInt, TInt, TStr, TBool, TVoid}[g.r.Intn(5)]
	f.Recursive = !g.off("recursion") && g.r.Intn(3) == 0
	sc := g.newScope(f)
	np := g.r.Intn(3)
	if f.Recursive {
		v := &Var{Name: "n", T: TInt}
		f.Params = append(f.Params, Param{V: v})
		sc.read[TInt] = append(sc.read[TInt], v)
		g.use("recursion")
	}
	names := map[Type][]string{TInt: {"p0", "p1"}, TStr: {"q0", "q1"}, TBool: {"r0", "r1"}}
	cnt := map[Type]int{}
	defaults := false
	for i := 0; i < np; i++ {
		t := []Type{TInt, TInt, TStr, TBool}[g.r.Intn(4)]
		if cnt[t] >= 2 {
			continue
		}
		v := &Var{Name: names[t][cnt[t]], T: t}
		cnt[t]++
		pa := Param{V: v}
		if defaults || g.r.Intn(3) == 0 {
			defaults = true
			pa.Default = g.lit(t)
		}
		f.Params = append(f.Params, pa)
		sc.read[t] = append(sc.read[t], v)
		sc.assign[t] = append(sc.assign[t], v)
	}
	f.Locals = nil
	for _, t := range []Type{TInt, TStr, TBool, TArr} {
		for _, v := range sc.assign[t] {
			isParam := false
			for _, pa := range f.Params {
				if pa.V == v {
					isParam = true
				}
			}
			if !isParam {
				f.Locals = append(f.Locals, v)
			}
		}
	}
	var body []Stmt
	if !g.off("static") && g.r.Intn(3) == 0 {
		v := &Var{Name: "st", T: TInt}
		body = append(body, &StaticDecl{V: v, Init: int64(g.r.Intn(5))})
		sc.statics = append(sc.statics, v)
		// make sure it is modified and visible; every write form the interpreter may route
		// through a different assignment path (++, fused add, compound, general expression)
		k := &IntLit{int64(1 + g.r.Intn(3))}
		switch g.r.Intn(9) {
		case 0:
			body = append(body, &IncDec{V: v, Inc: true})
		case 1:
			body = append(body, &Assign{V: v, Op: "=", E: &Bin{Op: "+", L: v, R: k, T: TInt}})
		case 2:
			body = append(body, &Assign{V: v, Op: "+=", E: k})
		case 3:
			body = append(body, &IncDec{V: v, Inc: true, Prefix: true})
		case 4:
			body = append(body, &Assign{V: v, Op: "=", E: &Bin{Op: "-", L: v, R: k, T: TInt}})
		case 5:
			body = append(body, &Assign{V: v, Op: "-=", E: k})
		case 6:
			body = append(body, &Assign{V: v, Op: "=", E: &Bin{Op: "-", L: &Bin{Op: "*", L: v, R: &IntLit{2}, T: TInt}, R: k, T: TInt}})
		case 7:
			body = append(body, &IncDec{V: v, Inc: false})
		case 8:
			body = append(body, &Assign{V: v, Op: "=", E: &Tern{C: &Bin{Op: ">", L: v, R: &IntLit{6}, T: TBool}, A: &IntLit{0}, B: &Bin{Op: "+", L: v, R: &IntLit{2}, T: TInt}, T: TInt}})
		}
		if g.r.Intn(2) == 0 {
			// a string-typed static as well
			sv := &Var{Name: "ss", T: TStr}
			body = append(body, &StaticDecl{V: sv, Init: 0, StrInit: g.word(), IsStr: true})
			sc.statics = append(sc.statics, sv)
			if g.r.Intn(2) == 0 {
				body = append(body, &Assign{V: sv, Op: ".=", E: &StrLit{g.word()}})
			} else {
				body = append(body, &Assign{V: sv, Op: "=", E: &Bin{Op: ".", L: sv, R: &StrLit{g.word()}, T: TStr}})
			}
		}
		g.use("static")
	}
	// register before generating the body so that the body can recurse
	g.p.Funcs = append(g.p.Funcs, f)
	if f.Recursive {
		n := f.Params[0].V
		var base []Stmt
		base = append(base, g.echoLine(sc, "base"))
		if f.Ret != TVoid {
			base = append(base, &Return{E: g.expr(sc, f.Ret, 1)})
		} else {
			base = append(base, &Return{})
		}
		body = append(body, &If{Cond: &Bin{Op: "<=", L: n, R: &IntLit{0}, T: TBool}, Then: base})
	}
	saved := g.budget
	if g.budget > 12 {
		g.budget = 12
	}
	body = append(body, g.block(sc, 1+g.r.Intn(5))...)
	g.budget = saved - 4
	if f.Recursive {
		// at least one recursive call
		c := g.selfCall(sc, f)
		if f.Ret == TVoid {
			body = append(body, &ExprStmt{E: c})
		} else {
			body = append(body, &Echo{Args: []Expr{&StrLit{"r:"}, g.render(c, f.Ret), nl()}})
		}
	}
	body = append(body, g.dump(sc))
	if f.Ret != TVoid {
		body = append(body, &Return{E: g.expr(sc, f.Ret, 2)})
	}
	f.Body = body
}

func nl() Expr { return &Interp{Parts: []InterpPart{{Lit: "\n"}}} }

func (g *generator) render(e Expr, t Type) Expr {
	if t == TBool {
		return &BoolStr{E: e}
	}
	return e
}

func (g *generator) selfCall(sc *scope, f *Func) Expr {
	args := []Expr{&Bin{Op: "-", L: f.Params[0].V, R: &IntLit{1}, T: TInt}}
	for _, pa := range f.Params[1:] {
		if pa.Default != nil && g.r.Intn(2) == 0 {
			break
		}
		args = append(args, g.expr(sc, pa.V.T, 1))
	}
	return &Call{Fn: f.Name, Args: args, T: f.Ret}
}

func (g *generator) callTo(sc *scope, f *Func) Expr {
	var args []Expr
	for i, pa := range f.Params {
		if i == 0 && f.Recursive {
			if sc.fn == f {
				args = append(args, &Bin{Op: "-", L: f.Params[0].V, R: &IntLit{1}, T: TInt})
			} else {
				args = append(args, &IntLit{int64(g.r.Intn(4))})
			}
			continue
		}
		if pa.Default != nil && g.r.Intn(2) == 0 {
			break
		}
		args = append(args, g.expr(sc, pa.V.T, 1))
	}
	return &Call{Fn: f.Name, Args: args, T: f.Ret}
}

// callable functions of a given return type: earlier functions, and the function itself
// when it is recursive.
func (g *generator) callable(sc *scope, t Type) []*Func {
	var fs []*Func
	for _, f := range g.p.Funcs {
		if f.Ret != t {
			continue
		}
		if sc.fn == f {
			if f.Recursive {
				fs = append(fs, f)
			}
			break
		}
		fs = append(fs, f)
	}
	return fs
}

func (g *generator) lit(t Type) Expr {
	switch t {
	case TInt:
		return &IntLit{int64(g.r.Intn(13) - 3)}
	case TStr:
		return &StrLit{g.word()}
	case TBool:
		return &BoolLit{g.r.Intn(2) == 0}
	case TArr:
		n := g.r.Intn(4)
		a := &ArrLit{}
		for i := 0; i < n; i++ {
			a.Elems = append(a.Elems, &IntLit{int64(g.r.Intn(9))})
		}
		return a
	}
	panic("lit")
}

var mapKeys = []string{"a", "b", "k", "xy", "id", "n-1"}

var words = []string{"a", "b", "ab", "ba", "x", "yz", "foo", "bar", "A", "zz top", "k-v", "q", ""}

func (g *generator) word() string { return words[g.r.Intn(len(words))] }

func (g *generator) pickVar(sc *scope, t Type) *Var {
	vs := sc.read[t]
	if len(vs) == 0 {
		return nil
	}
	return vs[g.r.Intn(len(vs))]
}

func (g *generator) pickAssignable(sc *scope, t Type) *Var {
	var vs []*Var
	for _, v := range sc.assign[t] {
		if !sc.noAssign[v.Name] {
			vs = append(vs, v)
		}
	}
	if len(vs) == 0 {
		return nil
	}
	return vs[g.r.Intn(len(vs))]
}

func (g *generator) expr(sc *scope, t Type, depth int) Expr {
	if depth <= 0 || g.r.Intn(4) == 0 {
		if g.r.Intn(3) != 0 {
			if v := g.pickVar(sc, t); v != nil {
				return v
			}
		}
		return g.lit(t)
	}
	switch t {
	case TInt:
		switch g.r.Intn(12) {
		case 0, 1, 2:
			return &Bin{Op: []string{"+", "-", "*"}[g.r.Intn(3)], L: g.expr(sc, TInt, depth-1), R: g.expr(sc, TInt, depth-1), T: TInt}
		case 3:
			return &Bin{Op: "%", L: g.expr(sc, TInt, depth-1), R: &IntLit{int64(2 + g.r.Intn(5))}, T: TInt}
		case 4:
			return &Tern{C: g.expr(sc, TBool, depth-1), A: g.expr(sc, TInt, depth-1), B: g.expr(sc, TInt, depth-1), T: TInt}
		case 5:
			if fs := g.callable(sc, TInt); len(fs) > 0 {
				return g.callTo(sc, fs[g.r.Intn(len(fs))])
			}
		case 6:
			if v := g.pickVar(sc, TArr); v != nil {
				return &Count{Arr: v}
			}
		case 7:
			return &Neg{E: g.expr(sc, TInt, depth-1)}
		case 9:
			return &Bin{Op: "<=>", L: g.expr(sc, TInt, depth-1), R: g.expr(sc, TInt, depth-1), T: TInt}
		}
		return g.expr(sc, TInt, 0)
	case TBool:
		switch g.r.Intn(9) {
		case 0, 1, 2:
			return &Bin{Op: []string{"<", "<=", ">", ">=", "==", "!=", "===", "!=="}[g.r.Intn(8)], L: g.expr(sc, TInt, depth-1), R: g.expr(sc, TInt, depth-1), T: TBool}
		case 3:
			// loose ==/!= only against a non-numeric literal: two numeric strings would compare
			// numerically in PHP ("3" == "03"); strict operators compare bytes
			op := []string{"==", "!=", "===", "!=="}[g.r.Intn(4)]
			var r Expr = &StrLit{g.word()}
			if op == "===" || op == "!==" {
				r = g.expr(sc, TStr, depth-1)
			}
			return &Bin{Op: op, L: g.expr(sc, TStr, depth-1), R: r, T: TBool}
		case 4:
			return &Bin{Op: []string{"&&", "||"}[g.r.Intn(2)], L: g.expr(sc, TBool, depth-1), R: g.expr(sc, TBool, depth-1), T: TBool}
		case 5:
			return &Not{E: g.expr(sc, TBool, depth-1)}
		case 6:
			if fs := g.callable(sc, TBool); len(fs) > 0 {
				return g.callTo(sc, fs[g.r.Intn(len(fs))])
			}
		case 7:
			return &Tern{C: g.expr(sc, TBool, depth-1), A: g.expr(sc, TBool, depth-1), B: g.expr(sc, TBool, depth-1), T: TBool}
		}
		return g.expr(sc, TBool, 0)
	case TStr:
		switch g.r.Intn(8) {
		case 0, 1:
			l, r := g.expr(sc, TStr, depth-1), g.expr(sc, TStr, depth-1)
			if g.r.Intn(3) == 0 {
				r = g.intOperandForConcat(sc, depth)
			} else if g.r.Intn(4) == 0 {
				l = g.intOperandForConcat(sc, depth)
			}
			return &Bin{Op: ".", L: l, R: r, T: TStr}
		case 2:
			if !g.off("interp") {
				return g.interp(sc)
			}
		case 3:
			return &Tern{C: g.expr(sc, TBool, depth-1), A: g.expr(sc, TStr, depth-1), B: g.expr(sc, TStr, depth-1), T: TStr}
		case 4:
			if fs := g.callable(sc, TStr); len(fs) > 0 {
				return g.callTo(sc, fs[g.r.Intn(len(fs))])
			}
		case 6:
			return &BoolStr{E: g.expr(sc, TBool, depth-1)}
		}
		return g.expr(sc, TStr, 0)
	case TArr:
		if v := g.pickVar(sc, TArr); v != nil && g.r.Intn(2) == 0 {
			return v
		}
		return g.lit(TArr)
	}
	panic("expr type")
}

// topExpr is an expression in a position where a match expression can stand without
// parentheses (assignment right-hand side, echo argument, return value).
func (g *generator) topExpr(sc *scope, t Type, depth int) Expr {
	if (t == TInt || t == TStr) && !g.off("match") && g.r.Intn(6) == 0 {
		return g.match(sc, t, depth)
	}
	return g.expr(sc, t, depth)
}

func (g *generator) intOperandForConcat(sc *scope, depth int) Expr {
	// an int in a concatenation: a variable, or a parenthesised arithmetic expression
	if v := g.pickVar(sc, TInt); v != nil && g.r.Intn(2) == 0 {
		return v
	}
	return &Bin{Op: "+", L: g.expr(sc, TInt, depth-1), R: &IntLit{int64(g.r.Intn(5))}, T: TInt}
}

func (g *generator) interp(sc *scope) Expr {
	g.use("interp")
	it := &Interp{}
	n := 1 + g.r.Intn(3)
	for i := 0; i < n; i++ {
		it.Parts = append(it.Parts, InterpPart{Lit: []string{"", "v=", "x ", ":", "[", "a b "}[g.r.Intn(6)]})
		t := TInt
		if g.r.Intn(2) == 0 {
			t = TStr
		}
		if v := g.pickVar(sc, t); v != nil {
			brace := g.r.Intn(2) == 0
			it.Parts = append(it.Parts, InterpPart{V: v, Brace: brace})
			// a bare $name must be followed by a character that cannot extend the name or
			// start an index/property access
			it.Parts = append(it.Parts, InterpPart{Lit: []string{" ", ", ", "; ", "!"}[g.r.Intn(4)]})
		}
	}
	return it
}

func (g *generator) match(sc *scope, t Type, depth int) Expr {
	g.use("match")
	m := &Match{T: t}
	st := TInt
	if g.r.Intn(3) == 0 {
		st = TStr
	}
	m.Subj = g.expr(sc, st, depth-1)
	seen := map[string]bool{}
	n := 1 + g.r.Intn(3)
	for i := 0; i < n; i++ {
		arm := MatchArm{Res: g.expr(sc, t, depth-1)}
		k := 1 + g.r.Intn(2)
		for j := 0; j < k; j++ {
			l := g.lit(st)
			key := ExprSrc(l)
			// a value listed again in a later arm is legal: the first arm listing it wins
			if seen[key] && (g.off("match.dup") || g.r.Intn(3) != 0) {
				continue
			}
			if seen[key] {
				g.use("match.dup")
			}
			seen[key] = true
			arm.Vals = append(arm.Vals, l)
		}
		if len(arm.Vals) > 0 {
			m.Arms = append(m.Arms, arm)
		}
	}
	if len(m.Arms) == 0 {
		m.Arms = append(m.Arms, MatchArm{Vals: []Expr{g.lit(st)}, Res: g.expr(sc, t, 0)})
	}
	// A match without default whose subject matches no arm is never generated: PHP throws
	// UnhandledMatchError, origami's own script tests (tests/basic/match.php) pin "yields
	// null", and the property statement does not say — so it is kept out of the compared domain.
	m.Default = g.expr(sc, t, depth-1)
	return m
}

// echoLine prints a labelled line showing some state.
func (g *generator) echoLine(sc *scope, tag string) Stmt {
	g.label++
	args := []Expr{&StrLit{fmt.Sprintf("%s%d:", tag, g.label)}}
	n := 1 + g.r.Intn(3)
	for i := 0; i < n; i++ {
		t := []Type{TInt, TInt, TStr, TBool}[g.r.Intn(4)]
		e := g.topExpr(sc, t, 2)
		args = append(args, g.render(e, t), &StrLit{","})
	}
	args = append(args, nl())
	return &Echo{Args: args}
}

// dump prints every assignable variable of the scope.
func (g *generator) dump(sc *scope) Stmt {
	g.label++
	args := []Expr{&StrLit{fmt.Sprintf("D%d:", g.label)}}
	for _, t := range []Type{TInt, TStr, TBool} {
		for _, v := range sc.assign[t] {
			args = append(args, g.render(v, t), &StrLit{"|"})
		}
	}
	for _, v := range sc.assign[TArr] {
		args = append(args, &Count{Arr: v}, &StrLit{"#"})
	}
	for _, v := range sc.statics {
		args = append(args, &StrLit{"~"}, v)
	}
	args = append(args, nl())
	return &Echo{Args: args}
}

// staticUpdate is a call-free write to one of the function's static locals.
func (g *generator) staticUpdate(sc *scope) Stmt {
	v := sc.statics[g.r.Intn(len(sc.statics))]
	if v.T == TStr {
		if g.r.Intn(2) == 0 {
			return &Assign{V: v, Op: ".=", E: &StrLit{g.word()}}
		}
		return &Assign{V: v, Op: "=", E: &Bin{Op: ".", L: v, R: &StrLit{g.word()}, T: TStr}}
	}
	k := &IntLit{int64(1 + g.r.Intn(3))}
	var loc Expr = k
	if lv := g.pickVar(sc, TInt); lv != nil && g.r.Intn(2) == 0 {
		loc = lv
	}
	switch g.r.Intn(7) {
	case 0:
		return &IncDec{V: v, Inc: g.r.Intn(2) == 0, Prefix: g.r.Intn(2) == 0}
	case 1:
		return &Assign{V: v, Op: []string{"+=", "-=", "*="}[g.r.Intn(3)], E: k}
	case 2:
		return &Assign{V: v, Op: "=", E: &Bin{Op: "-", L: v, R: loc, T: TInt}}
	case 3:
		return &Assign{V: v, Op: "=", E: &Bin{Op: "+", L: loc, R: v, T: TInt}}
	case 4:
		return &Assign{V: v, Op: "=", E: &Tern{C: &Bin{Op: ">", L: v, R: &IntLit{6}, T: TBool}, A: &IntLit{0}, B: &Bin{Op: "+", L: v, R: k, T: TInt}, T: TInt}}
	case 5:
		return &Assign{V: v, Op: "+=", E: loc}
	default:
		return &Echo{Args: []Expr{&StrLit{"S:"}, v, nl()}}
	}
}

func (g *generator) block(sc *scope, n int) []Stmt {
	var out []Stmt
	for i := 0; i < n; i++ {
		if g.budget <= 0 && i > 0 {
			break
		}
		s, term := g.stmt(sc)
		if s == nil {
			continue
		}
		out = append(out, s...)
		if term {
			break
		}
	}
	if len(out) == 0 {
		out = append(out, g.echoLine(sc, "e"))
	}
	return out
}

// stmt returns the statements and whether the last one unconditionally leaves the block.
func (g *generator) stmt(sc *scope) ([]Stmt, bool) {
	g.budget--
	canNest := sc.depth < g.cfg.MaxDepth && g.budget > 0
	if len(sc.statics) > 0 && g.r.Intn(8) == 0 {
		return []Stmt{g.staticUpdate(sc)}, false
	}
	for tries := 0; tries < 8; tries++ {
		k := g.r.Intn(34)
		switch {
		case k < 5:
			return []Stmt{g.echoLine(sc, "L")}, false
		case k < 9:
			return []Stmt{g.assign(sc)}, false
		case k < 10:
			if v := g.pickAssignable(sc, TInt); v != nil {
				pre := !g.off("incdec.prefix") && g.r.Intn(3) == 0
				return []Stmt{&IncDec{V: v, Inc: g.r.Intn(2) == 0, Prefix: pre}}, false
			}
		case k < 11:
			if v := g.pickAssignable(sc, TArr); v != nil && !sc.iterating[v.Name] {
				return []Stmt{&Append{V: v, E: g.expr(sc, TInt, 2)}}, false
			}
		case k < 14:
			if canNest {
				return []Stmt{g.ifStmt(sc)}, false
			}
		case k < 16:
			if canNest && !g.off("for") {
				f := g.forStmt(sc)
				if g.r.Intn(2) == 0 {
					// the counter's final value is observable: an exit by break/continue N must
					// not run the increment clause once more
					g.label++
					return []Stmt{f, &Echo{Args: []Expr{&StrLit{fmt.Sprintf("K%d:", g.label)}, &Var{Name: f.(*For).V, T: TInt}, nl()}}}, false
				}
				return []Stmt{f}, false
			}
		case k < 18:
			if canNest && !g.off("while") {
				return []Stmt{g.whileStmt(sc, false)}, false
			}
		case k < 19:
			if canNest && !g.off("dowhile") {
				return []Stmt{g.whileStmt(sc, true)}, false
			}
		case k < 21:
			if canNest && !g.off("foreach") {
				return g.foreachStmt(sc), false
			}
		case k < 23:
			if canNest && !g.off("switch") {
				return []Stmt{g.switchStmt(sc)}, false
			}
		case k < 26:
			if s := g.loopExit(sc); s != nil {
				return []Stmt{s}, true
			}
		case k < 27:
			if sc.fn != nil && sc.inFinally == 0 {
				if sc.fn.Ret == TVoid {
					return []Stmt{&Return{}}, true
				}
				return []Stmt{&Return{E: g.topExpr(sc, sc.fn.Ret, 2)}}, true
			}
		case k < 29:
			// call as a statement
			var fs []*Func
			for _, t := range []Type{TVoid, TInt, TStr, TBool} {
				fs = append(fs, g.callable(sc, t)...)
			}
			if len(fs) > 0 {
				f := fs[g.r.Intn(len(fs))]
				c := g.callTo(sc, f)
				if f.Ret == TVoid {
					return []Stmt{&ExprStmt{E: c}}, false
				}
				return []Stmt{&Echo{Args: []Expr{&StrLit{"c:"}, g.render(c, f.Ret), nl()}}}, false
			}
		default:
			if g.cfg.Exceptions {
				if s, term := g.excStmt(sc, canNest); s != nil {
					return s, term
				}
			} else if canNest {
				return []Stmt{g.ifStmt(sc)}, false
			}
		}
	}
	return []Stmt{g.echoLine(sc, "L")}, false
}

func (g *generator) assign(sc *scope) Stmt {
	t := []Type{TInt, TInt, TStr, TBool, TArr}[g.r.Intn(5)]
	v := g.pickAssignable(sc, t)
	if v == nil || (t == TArr && sc.iterating[v.Name]) {
		t = TInt
		v = g.pickAssignable(sc, TInt)
	}
	op := "="
	if !g.off("compound") && g.r.Intn(3) == 0 {
		switch t {
		case TInt:
			op = []string{"+=", "-=", "*="}[g.r.Intn(3)]
		case TStr:
			op = ".="
		}
		if op != "=" {
			g.use("compound")
		}
	}
	var e Expr
	if op == ".=" && g.r.Intn(3) == 0 {
		e = g.intOperandForConcat(sc, 2)
	} else if op == "*=" {
		e = &IntLit{int64(g.r.Intn(4) - 1)}
	} else if op == "=" {
		e = g.topExpr(sc, t, 3)
	} else {
		e = g.expr(sc, t, 3)
	}
	return &Assign{V: v, Op: op, E: e}
}

func (g *generator) nested(sc *scope, f func()) {
	sc.depth++
	f()
	sc.depth--
}

func (g *generator) ifStmt(sc *scope) Stmt {
	s := &If{Cond: g.expr(sc, TBool, 3)}
	g.nested(sc, func() {
		s.Then = g.block(sc, 1+g.r.Intn(3))
		for g.r.Intn(4) == 0 && len(s.Elifs) < 2 {
			s.Elifs = append(s.Elifs, Elif{Cond: g.expr(sc, TBool, 2), Body: g.block(sc, 1+g.r.Intn(2))})
		}
		if g.r.Intn(2) == 0 {
			s.HasElse = true
			s.Else = g.block(sc, 1+g.r.Intn(3))
		}
	})
	return s
}

func (g *generator) fresh(prefix string) string {
	g.counter++
	return fmt.Sprintf("%s%d", prefix, g.counter)
}

func (g *generator) withLoop(sc *scope, kind loopKind, ro []*Var, f func()) {
	sc.loops = append(sc.loops, kind)
	for _, v := range ro {
		sc.read[v.T] = append(sc.read[v.T], v)
	}
	g.nested(sc, f)
	for _, v := range ro {
		sc.read[v.T] = sc.read[v.T][:len(sc.read[v.T])-1]
	}
	sc.loops = sc.loops[:len(sc.loops)-1]
}

func (g *generator) forStmt(sc *scope) Stmt {
	s := &For{V: g.fresh("k")}
	n := g.r.Intn(5)
	s.From = g.r.Intn(3)
	s.To = s.From + n
	if g.r.Intn(4) == 0 {
		s.Down = true
		s.From, s.To = s.To, s.From
	}
	s.Style = g.r.Intn(4)
	if g.off(fmt.Sprintf("for.style%d", s.Style)) {
		s.Style = 0
	}
	g.use("for")
	g.withLoop(sc, lkLoop, []*Var{{Name: s.V, T: TInt}}, func() { s.Body = g.block(sc, 1+g.r.Intn(4)) })
	return s
}

func (g *generator) whileStmt(sc *scope, do bool) Stmt {
	guard := g.fresh("g")
	limit := 1 + g.r.Intn(4)
	gv := &Var{Name: guard, T: TInt}
	var body []Stmt
	var cond Expr
	g.withLoop(sc, lkLoop, []*Var{gv}, func() {
		cond = g.expr(sc, TBool, 2)
		if g.r.Intn(2) == 0 {
			cond = &BoolLit{true}
		}
		body = g.block(sc, 1+g.r.Intn(4))
	})
	if do {
		g.use("dowhile")
		return &DoWhile{Guard: guard, Limit: limit, Cond: cond, Body: body}
	}
	g.use("while")
	return &While{Guard: guard, Limit: limit, Cond: cond, Body: body}
}

func (g *generator) foreachStmt(sc *scope) []Stmt {
	s := &Foreach{ValVar: g.fresh("v")}
	ro := []*Var{{Name: s.ValVar, T: TInt}}
	if !g.off("foreach.key") && g.r.Intn(2) == 0 {
		s.KeyVar = g.fresh("q")
		ro = append(ro, &Var{Name: s.KeyVar, T: TInt})
		g.use("foreach.key")
	}
	var itv string
	if !g.off("foreach.keyed") && g.r.Intn(3) == 0 {
		// string-keyed source: a different iteration path in the interpreter
		g.use("foreach.keyed")
		ml := &MapLit{}
		perm := g.r.Perm(len(mapKeys))
		n := g.r.Intn(5)
		for i := 0; i < n; i++ {
			ml.Keys = append(ml.Keys, mapKeys[perm[i]])
			ml.Vals = append(ml.Vals, &IntLit{int64(g.r.Intn(9))})
		}
		s.Src = ml
		if s.KeyVar == "" {
			s.KeyVar = g.fresh("q")
		}
		ro = []*Var{{Name: s.ValVar, T: TInt}, {Name: s.KeyVar, T: TStr}}
	} else if v := g.pickVar(sc, TArr); v != nil && g.r.Intn(2) == 0 {
		s.Src = v
		itv = v.Name
	} else {
		s.Src = g.lit(TArr)
	}
	g.use("foreach")
	was := sc.iterating[itv]
	if itv != "" {
		sc.iterating[itv] = true
	}
	g.withLoop(sc, lkLoop, ro, func() { s.Body = g.block(sc, 1+g.r.Intn(4)) })
	if itv != "" {
		sc.iterating[itv] = was
	}
	return []Stmt{s}
}

func (g *generator) switchStmt(sc *scope) Stmt {
	g.use("switch")
	st := TInt
	if g.r.Intn(3) == 0 {
		st = TStr
	}
	s := &Switch{Subj: g.expr(sc, st, 2)}
	n := 1 + g.r.Intn(4)
	seen := map[string]bool{}
	defPos := -1
	if g.r.Intn(3) != 0 {
		defPos = n // last
		if !g.off("switch.default.notlast") && g.r.Intn(3) == 0 {
			defPos = g.r.Intn(n + 1)
		}
	}
	g.withLoop(sc, lkSwitch, nil, func() {
		for i := 0; i <= n; i++ {
			var c Case
			if i == defPos {
				c.Default = true
				if defPos != n {
					g.use("switch.default.notlast")
				}
			} else if i == n {
				break
			} else {
				k := 1
				if g.r.Intn(4) == 0 {
					k = 2
				}
				for j := 0; j < k; j++ {
					l := g.lit(st)
					key := ExprSrc(l)
					// a label repeated in a later case is legal: the first case listing it is the entry
					if seen[key] && (g.off("switch.dup") || g.r.Intn(3) != 0) {
						continue
					}
					if seen[key] {
						g.use("switch.dup")
					}
					seen[key] = true
					c.Vals = append(c.Vals, l)
				}
				if len(c.Vals) == 0 {
					continue
				}
			}
			// body: empty (stacked), terminated by break, or falling through
			switch r := g.r.Intn(10); {
			case r == 0 && !g.off("switch.stacked"):
				g.use("switch.stacked")
			case r <= 2 && !g.off("switch.fallthrough"):
				c.Body = g.block(sc, 1+g.r.Intn(2))
				if !endsWithExit(c.Body) {
					g.use("switch.fallthrough")
				}
			default:
				c.Body = g.block(sc, 1+g.r.Intn(2))
				if !endsWithExit(c.Body) {
					c.Body = append(c.Body, &Break{Level: 1})
				}
			}
			s.Cases = append(s.Cases, c)
		}
	})
	if len(s.Cases) == 0 {
		s.Cases = append(s.Cases, Case{Default: true, Body: []Stmt{g.echoLine(sc, "d"), &Break{Level: 1}}})
	}
	// the last case needs no break; keep whatever was generated
	return s
}

func endsWithExit(b []Stmt) bool {
	if len(b) == 0 {
		return false
	}
	switch b[len(b)-1].(type) {
	case *Break, *Continue, *Return, *Throw, *Rethrow, *RuntimeErr:
		return true
	}
	return false
}

// loopExit produces a break/continue valid at this point, or nil.
func (g *generator) loopExit(sc *scope) Stmt {
	if len(sc.loops) == 0 || sc.inFinally > 0 {
		return nil
	}
	maxLevel := len(sc.loops)
	level := 1
	if maxLevel > 1 && !g.off("loopctl.level>1") && g.r.Intn(3) == 0 {
		level = 2 + g.r.Intn(maxLevel-1)
		if level > 3 {
			level = 3
		}
	}
	target := sc.loops[len(sc.loops)-level]
	inSwitch := false
	for _, k := range sc.loops[len(sc.loops)-level:] {
		if k == lkSwitch {
			inSwitch = true
		}
	}
	if g.r.Intn(2) == 0 {
		// continue: the targeted structure must be a loop (continue aimed at a switch is
		// deprecated/ambiguous and never generated)
		if target != lkLoop {
			return nil
		}
		if inSwitch {
			if g.off("switch.continue") {
				return nil
			}
			g.use("switch.continue")
		}
		if level > 1 {
			g.use("loopctl.level>1")
		}
		return &Continue{Level: level}
	}
	if level > 1 {
		g.use("loopctl.level>1")
		if inSwitch && g.off("switch.break.level>1") {
			return nil
		}
	}
	return &Break{Level: level}
}

// ---- exceptions (C05) ----

func (g *generator) excStmt(sc *scope, canNest bool) ([]Stmt, bool) {
	switch k := g.r.Intn(10); {
	case k < 5 && canNest && !g.off("try"):
		return []Stmt{g.tryStmt(sc)}, false
	case k < 8:
		if len(g.classes) > 0 && g.r.Intn(10) < 3+g.cfg.ThrowBias {
			return []Stmt{g.throwStmt(sc)}, true
		}
	case k < 9:
		if len(sc.catchVars) > 0 && !g.off("rethrow") && g.r.Intn(2) == 0 {
			g.use("rethrow")
			return []Stmt{&Rethrow{Var: sc.catchVars[len(sc.catchVars)-1]}}, true
		}
	default:
		if !g.off("runtimeerr") && g.r.Intn(3) == 0 {
			g.use("runtimeerr")
			kind := "mod0"
			if g.r.Intn(2) == 0 && !g.off("runtimeerr.undef") {
				kind = "undef"
			}
			return []Stmt{&RuntimeErr{Kind: kind}}, true
		}
	}
	return nil, false
}

func (g *generator) throwStmt(sc *scope) Stmt {
	g.use("throw")
	g.label++
	msg := Expr(&StrLit{fmt.Sprintf("m%d", g.label)})
	if g.r.Intn(3) == 0 {
		msg = &Bin{Op: ".", L: msg, R: g.intOperandForConcat(sc, 1), T: TStr}
	}
	return &Throw{Class: g.classes[g.r.Intn(len(g.classes))], Msg: msg}
}

func (g *generator) catchType() string {
	n := g.r.Intn(10)
	switch {
	case n < 5 && len(g.classes) > 0:
		return g.classes[g.r.Intn(len(g.classes))]
	case n < 7 && len(g.ifaces) > 0:
		return g.ifaces[g.r.Intn(len(g.ifaces))]
	case n < 8:
		return "Exception"
	default:
		return "\\Throwable"
	}
}

func (g *generator) tryStmt(sc *scope) Stmt {
	g.use("try")
	t := &Try{}
	g.nested(sc, func() {
		t.Body = g.block(sc, 1+g.r.Intn(3))
		// make throwing likely
		if len(g.classes) > 0 && !endsWithExit(t.Body) && g.r.Intn(10) < 4+g.cfg.ThrowBias/2 {
			t.Body = append(t.Body, g.throwStmt(sc))
		}
		nc := g.r.Intn(3)
		for i := 0; i < nc; i++ {
			c := Catch{Var: g.fresh("e")}
			c.Types = []string{g.catchType()}
			if !g.off("catch.union") && g.r.Intn(4) == 0 {
				c.Types = append(c.Types, g.catchType())
				g.use("catch.union")
			}
			if !g.off("catch.empty") && g.r.Intn(6) == 0 {
				// a catch clause that swallows the exception with an empty body
				g.use("catch.empty")
				t.Catches = append(t.Catches, c)
				continue
			}
			sc.catchVars = append(sc.catchVars, c.Var)
			g.label++
			c.Body = append(c.Body, &Echo{Args: []Expr{&StrLit{fmt.Sprintf("C%d:", g.label)}, nl()}})
			// identify the caught object (skipped by the reference when it is an interpreter error)
			onlyUser := true
			for _, ty := range c.Types {
				if ty == "\\Throwable" || ty == "Exception" {
					onlyUser = false
				}
			}
			if onlyUser {
				c.Body = append(c.Body, &Echo{Args: []Expr{&GetClass{V: c.Var}, &StrLit{":"}, &GetMessage{V: c.Var}, nl()}})
			}
			c.Body = append(c.Body, g.block(sc, 1+g.r.Intn(2))...)
			sc.catchVars = sc.catchVars[:len(sc.catchVars)-1]
			t.Catches = append(t.Catches, c)
		}
		if nc == 0 || (!g.off("finally") && g.r.Intn(2) == 0) {
			t.HasFinally = true
			g.use("finally")
			sc.inFinally++
			g.label++
			t.Finally = append(t.Finally, &Echo{Args: []Expr{&StrLit{fmt.Sprintf("F%d", g.label)}, nl()}})
			t.Finally = append(t.Finally, g.block(sc, 1+g.r.Intn(2))...)
			sc.inFinally--
			if sc.fn != nil && !g.off("finally.return") && g.r.Intn(6) == 0 && !endsWithExit(t.Finally) {
				g.use("finally.return")
				if sc.fn.Ret == TVoid {
					t.Finally = append(t.Finally, &Return{})
				} else {
					t.Finally = append(t.Finally, &Return{E: g.expr(sc, sc.fn.Ret, 1)})
				}
			}
		}
	})
	return t
}
