// Package gen owns the AST of generated programs (control-flow core + exceptions), the
// seeded typed generator and the printer to origami/PHP source. It shares no code with
// origami. The reference interpreter in verif/ref runs over this AST.
package gen

type Type int

const (
	TInt Type = iota
	TStr
	TBool
	TArr // list of ints
	TVoid
)

// ---- expressions ----

type Expr interface{}

type IntLit struct{ V int64 }
type StrLit struct{ S string } // letters, spaces and a few safe punctuation marks; never numeric
type BoolLit struct{ B bool }
type ArrLit struct{ Elems []Expr }

// MapLit is a string-keyed array literal ['a' => 1, ...] (keys distinct, non-numeric);
// it only occurs as the source of a foreach.
type MapLit struct {
	Keys []string
	Vals []Expr
}
type Var struct {
	Name string
	T    Type
}

// Bin: arithmetic + - * % (int), comparisons (int,int)->bool, == != === !== on (str,str),
// && || on bools, "." concatenation (operands str or int; result str), <=> on ints.
type Bin struct {
	Op   string
	L, R Expr
	T    Type
}
type Not struct{ E Expr }
type Neg struct{ E Expr }
type Tern struct {
	C, A, B Expr
	T       Type
}
type Call struct {
	Fn   string
	Args []Expr
	T    Type
}
type Count struct{ Arr Expr }
type MatchArm struct {
	Vals []Expr
	Res  Expr
}
type Match struct {
	Subj    Expr
	Arms    []MatchArm
	Default Expr // nil: no default arm
	T       Type
}

// BoolStr renders a bool as "T"/"F" through the ternary operator.
type BoolStr struct{ E Expr }

// Interp is a double-quoted string with interpolated simple variables.
type InterpPart struct {
	Lit   string
	V     *Var
	Brace bool // {$v} form
}
type Interp struct{ Parts []InterpPart }

// GetMessage is $e->getMessage(), GetClass is get_class($e) on a caught exception variable.
type GetMessage struct{ V string }
type GetClass struct{ V string }

// ---- statements ----

type Stmt interface{}

type Assign struct {
	V  *Var
	Op string // = += -= *= .=
	E  Expr
}
type Append struct { // $a[] = e
	V *Var
	E Expr
}
type IncDec struct {
	V      *Var
	Inc    bool
	Prefix bool
}
type Echo struct{ Args []Expr }
type Elif struct {
	Cond Expr
	Body []Stmt
}
type If struct {
	Cond    Expr
	Then    []Stmt
	Elifs   []Elif
	Else    []Stmt
	HasElse bool
}

// While / DoWhile: the guard variable bounds the number of iterations by construction:
//   $g = 0; while ($g < Limit && Cond) { $g++; Body }
type While struct {
	Guard string
	Limit int
	Cond  Expr
	Body  []Stmt
}
type DoWhile struct {
	Guard string
	Limit int
	Cond  Expr
	Body  []Stmt
}

// For: for ($k = From; $k < To; $k++)  or  for ($k = From; $k > To; $k--)
type For struct {
	V        string
	From, To int
	Down     bool
	Style    int // 0: $k++   1: ++$k   2: $k += 1 / $k -= 1   3: $k = $k + 1
	Body     []Stmt
}
type Foreach struct {
	Src    Expr // ArrLit, array Var, or MapLit (then KeyVar holds string keys)
	KeyVar string
	ValVar string
	Body   []Stmt
}
type Case struct {
	Vals    []Expr // stacked labels; empty = default
	Default bool
	Body    []Stmt
}
type Switch struct {
	Subj  Expr
	Cases []Case
}
type Break struct{ Level int }
type Continue struct{ Level int }
type Return struct{ E Expr }
type ExprStmt struct{ E Expr }
type StaticDecl struct {
	V       *Var
	Init    int64
	IsStr   bool
	StrInit string
}
type Catch struct {
	Types []string
	Var   string
	Body  []Stmt
}
type Try struct {
	Body       []Stmt
	Catches    []Catch
	Finally    []Stmt
	HasFinally bool
}
type Throw struct { // throw new Class(msg)
	Class string
	Msg   Expr
}
type Rethrow struct{ Var string } // throw $e  (inside the catch that bound $e)

// RuntimeErr is a statement that raises an interpreter-level error:
// kind "mod0": $rz = 1 % $zero;   kind "undef": undefined_function_<n>();
type RuntimeErr struct{ Kind string }

// ---- declarations ----

type Param struct {
	V       *Var
	Default Expr // literal or nil
}
type Func struct {
	Name      string
	Params    []Param
	Ret       Type
	Locals    []*Var // initialised at the top of the body
	Body      []Stmt
	Recursive bool // first parameter is the decreasing recursion depth
}
type ClassDecl struct {
	Name       string
	Interface  bool
	Extends    string   // class: parent; "" = none
	Implements []string // class: interfaces; interface: extended interfaces
}
type Program struct {
	Classes  []ClassDecl
	Funcs    []*Func
	Globals  []*Var
	Main     []Stmt
	Features map[string]bool
}
