// Package ref is the reference interpreter for the programs of verif/gen: PHP semantics
// for the control-flow core (C02) and try/catch/finally/throw (C05). It works on the
// generator's own AST and shares no code with origami.
package ref

import (
	"fmt"
	"strconv"
	"strings"

	"verif/gen"
)

// Obj is a thrown object.
type Obj struct {
	Class   string
	Msg     string
	Runtime bool // raised by the interpreter (division by zero, undefined function, unhandled match)
}

// Result of running a program on the reference semantics.
type Result struct {
	Out      string
	Uncaught *Obj           // the program ended with this throwable uncaught
	Abort    string         // "", or why the program is outside the compared domain: budget | domain | ambiguous
	Cov      map[string]int // executed-feature counters (measured non-triviality)
}

type ctlKind int

const (
	cNone ctlKind = iota
	cBreak
	cContinue
	cReturn
	cThrow
)

type ctl struct {
	k     ctlKind
	level int
	val   any
	obj   *Obj
}

type abort struct{ why string }

type frame struct {
	vars map[string]any
	fn   *gen.Func
	// names bound by a `static` declaration executed in this call: they alias the
	// function's persistent slot (PHP binds static locals by reference), so a write by a
	// recursive call is visible in the caller's frame too
	static map[string]bool
}

func (in *interp) get(fr *frame, name string) (any, bool) {
	if fr.static[name] {
		v, ok := in.statics[fr.fn.Name][name]
		return v, ok
	}
	v, ok := fr.vars[name]
	return v, ok
}

func (in *interp) set(fr *frame, name string, v any) {
	if fr.static[name] {
		in.statics[fr.fn.Name][name] = v
		return
	}
	fr.vars[name] = v
}

type interp struct {
	p       *gen.Program
	out     strings.Builder
	steps   int
	budget  int
	statics map[string]map[string]any // func name -> static var -> value
	funcs   map[string]*gen.Func
	classes map[string]gen.ClassDecl
	cov     map[string]int
	depth   int
}

// Run executes the program with the given step budget.
func Run(p *gen.Program, budget int) (res Result) {
	in := &interp{p: p, budget: budget, statics: map[string]map[string]any{}, funcs: map[string]*gen.Func{}, classes: map[string]gen.ClassDecl{}, cov: map[string]int{}}
	for _, f := range p.Funcs {
		in.funcs[f.Name] = f
	}
	for _, c := range p.Classes {
		in.classes[c.Name] = c
	}
	defer func() {
		res.Out = in.out.String()
		res.Cov = in.cov
		if r := recover(); r != nil {
			if a, ok := r.(abort); ok {
				res.Abort = a.why
				return
			}
			panic(r)
		}
	}()
	fr := &frame{vars: map[string]any{}}
	for _, v := range p.Globals {
		fr.vars[v.Name] = zero(v.T)
	}
	c := in.block(fr, p.Main)
	switch c.k {
	case cThrow:
		res.Uncaught = c.obj
	case cBreak, cContinue:
		panic(abort{"ambiguous"}) // generator never produces a break/continue that escapes every loop
	}
	return
}

func zero(t gen.Type) any {
	switch t {
	case gen.TInt:
		return int64(0)
	case gen.TStr:
		return ""
	case gen.TBool:
		return false
	case gen.TArr:
		return []int64{}
	}
	return nil
}

func (in *interp) step() {
	in.steps++
	if in.steps > in.budget {
		panic(abort{"budget"})
	}
}

func chkInt(v int64) int64 {
	if v > 1<<31 || v < -(1<<31) {
		panic(abort{"domain"})
	}
	return v
}

func chkStr(s string) string {
	if len(s) > 4096 {
		panic(abort{"domain"})
	}
	return s
}

func (in *interp) block(fr *frame, ss []gen.Stmt) ctl {
	for _, s := range ss {
		if c := in.stmt(fr, s); c.k != cNone {
			return c
		}
	}
	return ctl{}
}

// loopCtl interprets a control coming out of a loop body. It returns (exitLoop, nextIter, propagate).
func (in *interp) loopCtl(c ctl) (bool, bool, ctl) {
	switch c.k {
	case cBreak:
		in.cov["break"]++
		if c.level > 1 {
			in.cov["break.level>1"]++
			return true, false, ctl{k: cBreak, level: c.level - 1}
		}
		return true, false, ctl{}
	case cContinue:
		in.cov["continue"]++
		if c.level > 1 {
			in.cov["continue.level>1"]++
			return true, false, ctl{k: cContinue, level: c.level - 1}
		}
		return false, true, ctl{}
	case cReturn:
		in.cov["return.in.loop"]++
		return true, false, c
	case cThrow:
		return true, false, c
	}
	return false, false, ctl{}
}

func (in *interp) stmt(fr *frame, s gen.Stmt) ctl {
	in.step()
	switch s := s.(type) {
	case *gen.Assign:
		v, c := in.expr(fr, s.E)
		if c.k != cNone {
			return c
		}
		cur, _ := in.get(fr, s.V.Name)
		switch s.Op {
		case "=":
			in.set(fr, s.V.Name, v)
		case "+=":
			in.set(fr, s.V.Name, chkInt(cur.(int64)+v.(int64)))
		case "-=":
			in.set(fr, s.V.Name, chkInt(cur.(int64)-v.(int64)))
		case "*=":
			in.set(fr, s.V.Name, chkInt(cur.(int64)*v.(int64)))
		case ".=":
			in.set(fr, s.V.Name, chkStr(cur.(string)+toStr(v)))
		default:
			panic("ref: assign op " + s.Op)
		}
	case *gen.Append:
		v, c := in.expr(fr, s.E)
		if c.k != cNone {
			return c
		}
		a := fr.vars[s.V.Name].([]int64)
		if len(a) > 256 {
			panic(abort{"domain"})
		}
		na := make([]int64, len(a), len(a)+1)
		copy(na, a)
		fr.vars[s.V.Name] = append(na, v.(int64))
	case *gen.IncDec:
		cv, _ := in.get(fr, s.V.Name)
		cur := cv.(int64)
		if s.Inc {
			cur++
		} else {
			cur--
		}
		in.set(fr, s.V.Name, chkInt(cur))
	case *gen.Echo:
		for _, e := range s.Args {
			v, c := in.expr(fr, e)
			if c.k != cNone {
				return c
			}
			in.out.WriteString(toStr(v))
			if in.out.Len() > 1<<20 {
				panic(abort{"domain"})
			}
		}
	case *gen.If:
		v, c := in.expr(fr, s.Cond)
		if c.k != cNone {
			return c
		}
		if v.(bool) {
			return in.block(fr, s.Then)
		}
		for _, e := range s.Elifs {
			v, c := in.expr(fr, e.Cond)
			if c.k != cNone {
				return c
			}
			if v.(bool) {
				return in.block(fr, e.Body)
			}
		}
		if s.HasElse {
			return in.block(fr, s.Else)
		}
	case *gen.While:
		fr.vars[s.Guard] = int64(0)
		for {
			in.step()
			if fr.vars[s.Guard].(int64) >= int64(s.Limit) {
				break
			}
			v, c := in.expr(fr, s.Cond)
			if c.k != cNone {
				return c
			}
			if !v.(bool) {
				break
			}
			fr.vars[s.Guard] = fr.vars[s.Guard].(int64) + 1
			exit, _, prop := in.loopCtl(in.block(fr, s.Body))
			if exit {
				return prop
			}
		}
	case *gen.DoWhile:
		fr.vars[s.Guard] = int64(0)
		for {
			in.step()
			fr.vars[s.Guard] = fr.vars[s.Guard].(int64) + 1
			exit, _, prop := in.loopCtl(in.block(fr, s.Body))
			if exit {
				return prop
			}
			if fr.vars[s.Guard].(int64) >= int64(s.Limit) {
				break
			}
			v, c := in.expr(fr, s.Cond)
			if c.k != cNone {
				return c
			}
			if !v.(bool) {
				break
			}
		}
	case *gen.For:
		fr.vars[s.V] = int64(s.From)
		for {
			in.step()
			k := fr.vars[s.V].(int64)
			if (!s.Down && k >= int64(s.To)) || (s.Down && k <= int64(s.To)) {
				break
			}
			exit, _, prop := in.loopCtl(in.block(fr, s.Body))
			if exit {
				return prop
			}
			if s.Down {
				fr.vars[s.V] = fr.vars[s.V].(int64) - 1
			} else {
				fr.vars[s.V] = fr.vars[s.V].(int64) + 1
			}
		}
	case *gen.Foreach:
		if ml, ok := s.Src.(*gen.MapLit); ok {
			vals := make([]int64, len(ml.Vals))
			for i, ve := range ml.Vals {
				v, c := in.expr(fr, ve)
				if c.k != cNone {
					return c
				}
				vals[i] = v.(int64)
			}
			for i, x := range vals {
				in.step()
				fr.vars[s.KeyVar] = ml.Keys[i]
				fr.vars[s.ValVar] = x
				in.cov["foreach.keyed.iter"]++
				exit, _, prop := in.loopCtl(in.block(fr, s.Body))
				if exit {
					return prop
				}
			}
			return ctl{}
		}
		v, c := in.expr(fr, s.Src)
		if c.k != cNone {
			return c
		}
		arr := v.([]int64)
		for i, x := range arr {
			in.step()
			if s.KeyVar != "" {
				fr.vars[s.KeyVar] = int64(i)
			}
			fr.vars[s.ValVar] = x
			exit, _, prop := in.loopCtl(in.block(fr, s.Body))
			if exit {
				return prop
			}
		}
	case *gen.Switch:
		v, c := in.expr(fr, s.Subj)
		if c.k != cNone {
			return c
		}
		start := -1
		for i, cs := range s.Cases {
			for _, lv := range cs.Vals {
				x, c := in.expr(fr, lv)
				if c.k != cNone {
					return c
				}
				if looseEq(v, x) {
					start = i
					break
				}
			}
			if start >= 0 {
				break
			}
		}
		if start < 0 {
			for i, cs := range s.Cases {
				if cs.Default {
					start = i
					in.cov["switch.default"]++
				}
			}
		}
		if start < 0 {
			return ctl{}
		}
		for i := start; i < len(s.Cases); i++ {
			if i > start && len(s.Cases[i-1].Body) > 0 {
				in.cov["switch.fallthrough"]++
			}
			c := in.block(fr, s.Cases[i].Body)
			switch c.k {
			case cNone:
				continue
			case cBreak:
				in.cov["switch.break"]++
				if c.level > 1 {
					in.cov["break.level>1"]++
					return ctl{k: cBreak, level: c.level - 1}
				}
				return ctl{}
			case cContinue:
				// PHP: continue targeting a switch behaves like break
				if c.level > 1 {
					in.cov["switch.continue.outer"]++
					return ctl{k: cContinue, level: c.level - 1}
				}
				panic(abort{"ambiguous"})
			default:
				return c
			}
		}
	case *gen.Break:
		return ctl{k: cBreak, level: s.Level}
	case *gen.Continue:
		return ctl{k: cContinue, level: s.Level}
	case *gen.Return:
		if s.E == nil {
			return ctl{k: cReturn}
		}
		v, c := in.expr(fr, s.E)
		if c.k != cNone {
			return c
		}
		return ctl{k: cReturn, val: v}
	case *gen.ExprStmt:
		_, c := in.expr(fr, s.E)
		return c
	case *gen.StaticDecl:
		st := in.statics[fr.fn.Name]
		if st == nil {
			st = map[string]any{}
			in.statics[fr.fn.Name] = st
		}
		if _, ok := st[s.V.Name]; !ok {
			if s.IsStr {
				st[s.V.Name] = s.StrInit
			} else {
				st[s.V.Name] = s.Init
			}
		} else {
			in.cov["static.persist"]++
		}
		if fr.static == nil {
			fr.static = map[string]bool{}
		}
		fr.static[s.V.Name] = true
	case *gen.Try:
		return in.try(fr, s)
	case *gen.Throw:
		v, c := in.expr(fr, s.Msg)
		if c.k != cNone {
			return c
		}
		in.cov["throw.user"]++
		return ctl{k: cThrow, obj: &Obj{Class: s.Class, Msg: toStr(v)}}
	case *gen.Rethrow:
		o := fr.vars[s.Var].(*Obj)
		in.cov["rethrow"]++
		return ctl{k: cThrow, obj: o}
	case *gen.RuntimeErr:
		in.cov["throw.runtime"]++
		fr.vars["rz"] = int64(0)
		return ctl{k: cThrow, obj: &Obj{Class: "\x00runtime", Runtime: true, Msg: s.Kind}}
	default:
		panic(fmt.Sprintf("ref: unknown stmt %T", s))
	}
	return ctl{}
}

func (in *interp) try(fr *frame, s *gen.Try) ctl {
	in.cov["try"]++
	c := in.block(fr, s.Body)
	if c.k == cThrow {
		for _, cb := range s.Catches {
			if in.catches(cb.Types, c.obj) {
				in.cov["catch"]++
				if cb.Types[0] != c.obj.Class {
					in.cov["catch.by.ancestor.or.interface"]++
				}
				fr.vars[cb.Var] = c.obj
				c = in.block(fr, cb.Body)
				break
			}
		}
	}
	if s.HasFinally {
		in.cov["finally"]++
		if c.k != cNone {
			in.cov["finally.with.pending."+[...]string{"none", "break", "continue", "return", "throw"}[c.k]]++
		}
		fc := in.block(fr, s.Finally)
		if fc.k != cNone {
			in.cov["finally.overrides"]++
			return fc
		}
	}
	return c
}

func (in *interp) catches(types []string, o *Obj) bool {
	for _, t := range types {
		if in.isA(o, t) {
			return true
		}
	}
	return false
}

func (in *interp) isA(o *Obj, t string) bool {
	t = strings.TrimPrefix(t, "\\")
	if t == "Throwable" {
		return true
	}
	if o.Runtime {
		if t == "Exception" || t == "Error" {
			panic(abort{"ambiguous"}) // the class of interpreter-raised errors is not fixed by the property
		}
		return false
	}
	if t == "Exception" {
		return true // every generated exception class is rooted at Exception
	}
	return in.classIs(o.Class, t, 0)
}

func (in *interp) classIs(c, t string, d int) bool {
	if c == t {
		return true
	}
	if d > 32 {
		return false
	}
	cd, ok := in.classes[c]
	if !ok {
		return false
	}
	if cd.Extends != "" && in.classIs(cd.Extends, t, d+1) {
		return true
	}
	for _, i := range cd.Implements {
		if in.classIs(i, t, d+1) {
			return true
		}
	}
	return false
}

func looseEq(a, b any) bool {
	switch x := a.(type) {
	case int64:
		y, ok := b.(int64)
		return ok && x == y
	case string:
		y, ok := b.(string)
		return ok && x == y
	case bool:
		y, ok := b.(bool)
		return ok && x == y
	}
	return false
}

func toStr(v any) string {
	switch x := v.(type) {
	case int64:
		return strconv.FormatInt(x, 10)
	case string:
		return x
	case bool:
		panic("ref: bool rendered directly")
	}
	panic(fmt.Sprintf("ref: toStr %T", v))
}

func (in *interp) expr(fr *frame, e gen.Expr) (any, ctl) {
	in.step()
	switch e := e.(type) {
	case *gen.IntLit:
		return e.V, ctl{}
	case *gen.StrLit:
		return e.S, ctl{}
	case *gen.BoolLit:
		return e.B, ctl{}
	case *gen.ArrLit:
		a := make([]int64, 0, len(e.Elems))
		for _, x := range e.Elems {
			v, c := in.expr(fr, x)
			if c.k != cNone {
				return nil, c
			}
			a = append(a, v.(int64))
		}
		return a, ctl{}
	case *gen.Var:
		v, ok := in.get(fr, e.Name)
		if !ok {
			panic("ref: undefined variable " + e.Name)
		}
		return v, ctl{}
	case *gen.Bin:
		// short-circuit operators first
		if e.Op == "&&" || e.Op == "||" {
			l, c := in.expr(fr, e.L)
			if c.k != cNone {
				return nil, c
			}
			if e.Op == "&&" && !l.(bool) {
				return false, ctl{}
			}
			if e.Op == "||" && l.(bool) {
				return true, ctl{}
			}
			r, c := in.expr(fr, e.R)
			if c.k != cNone {
				return nil, c
			}
			return r.(bool), ctl{}
		}
		l, c := in.expr(fr, e.L)
		if c.k != cNone {
			return nil, c
		}
		r, c := in.expr(fr, e.R)
		if c.k != cNone {
			return nil, c
		}
		switch e.Op {
		case ".":
			return chkStr(toStr(l) + toStr(r)), ctl{}
		case "==", "===":
			return looseEq(l, r), ctl{}
		case "!=", "!==":
			return !looseEq(l, r), ctl{}
		}
		a, b := l.(int64), r.(int64)
		switch e.Op {
		case "+":
			return chkInt(a + b), ctl{}
		case "-":
			return chkInt(a - b), ctl{}
		case "*":
			return chkInt(a * b), ctl{}
		case "%":
			if b == 0 {
				panic("ref: % by zero generated")
			}
			return a % b, ctl{}
		case "<":
			return a < b, ctl{}
		case "<=":
			return a <= b, ctl{}
		case ">":
			return a > b, ctl{}
		case ">=":
			return a >= b, ctl{}
		case "<=>":
			switch {
			case a < b:
				return int64(-1), ctl{}
			case a > b:
				return int64(1), ctl{}
			}
			return int64(0), ctl{}
		}
		panic("ref: bin op " + e.Op)
	case *gen.Not:
		v, c := in.expr(fr, e.E)
		if c.k != cNone {
			return nil, c
		}
		return !v.(bool), ctl{}
	case *gen.Neg:
		v, c := in.expr(fr, e.E)
		if c.k != cNone {
			return nil, c
		}
		return chkInt(-v.(int64)), ctl{}
	case *gen.Tern:
		v, c := in.expr(fr, e.C)
		if c.k != cNone {
			return nil, c
		}
		if v.(bool) {
			return in.expr(fr, e.A)
		}
		return in.expr(fr, e.B)
	case *gen.BoolStr:
		v, c := in.expr(fr, e.E)
		if c.k != cNone {
			return nil, c
		}
		if v.(bool) {
			return "T", ctl{}
		}
		return "F", ctl{}
	case *gen.Count:
		v, c := in.expr(fr, e.Arr)
		if c.k != cNone {
			return nil, c
		}
		return int64(len(v.([]int64))), ctl{}
	case *gen.Interp:
		var sb strings.Builder
		for _, p := range e.Parts {
			if p.V == nil {
				sb.WriteString(p.Lit)
			} else {
				pv, _ := in.get(fr, p.V.Name)
				sb.WriteString(toStr(pv))
			}
		}
		return chkStr(sb.String()), ctl{}
	case *gen.GetMessage:
		o := fr.vars[e.V].(*Obj)
		if o.Runtime {
			panic(abort{"ambiguous"}) // message text of interpreter errors is not specified
		}
		return o.Msg, ctl{}
	case *gen.GetClass:
		o := fr.vars[e.V].(*Obj)
		if o.Runtime {
			panic(abort{"ambiguous"})
		}
		return o.Class, ctl{}
	case *gen.Match:
		v, c := in.expr(fr, e.Subj)
		if c.k != cNone {
			return nil, c
		}
		for _, arm := range e.Arms {
			for _, av := range arm.Vals {
				x, c := in.expr(fr, av)
				if c.k != cNone {
					return nil, c
				}
				if looseEq(v, x) { // operands are same-typed scalars, so == and === coincide
					in.cov["match.arm"]++
					return in.expr(fr, arm.Res)
				}
			}
		}
		if e.Default != nil {
			in.cov["match.default"]++
			return in.expr(fr, e.Default)
		}
		in.cov["match.unhandled"]++
		return nil, ctl{k: cThrow, obj: &Obj{Class: "\x00runtime", Runtime: true, Msg: "unhandled match"}}
	case *gen.Call:
		return in.call(fr, e)
	}
	panic(fmt.Sprintf("ref: unknown expr %T", e))
}

func (in *interp) call(fr *frame, e *gen.Call) (any, ctl) {
	f := in.funcs[e.Fn]
	if f == nil {
		panic("ref: undefined function " + e.Fn)
	}
	nf := &frame{vars: map[string]any{}, fn: f}
	for i, p := range f.Params {
		if i < len(e.Args) {
			v, c := in.expr(fr, e.Args[i])
			if c.k != cNone {
				return nil, c
			}
			nf.vars[p.V.Name] = v
		} else {
			if p.Default == nil {
				panic("ref: missing argument without default")
			}
			v, _ := in.expr(nf, p.Default)
			nf.vars[p.V.Name] = v
			in.cov["default.param"]++
		}
	}
	for _, v := range f.Locals {
		nf.vars[v.Name] = zero(v.T)
	}
	in.depth++
	if in.depth > 1 && fr.fn == f {
		in.cov["recursion"]++
	}
	if in.depth > 64 {
		panic(abort{"budget"})
	}
	in.cov["call"]++
	c := in.block(nf, f.Body)
	in.depth--
	switch c.k {
	case cReturn:
		if c.val == nil && f.Ret != gen.TVoid {
			panic("ref: typed function returned nothing")
		}
		return c.val, ctl{}
	case cThrow:
		in.cov["throw.through.frame"]++
		return nil, c
	case cNone:
		if f.Ret != gen.TVoid {
			panic("ref: typed function fell off its end: " + f.Name)
		}
		return nil, ctl{}
	}
	panic(abort{"ambiguous"}) // break/continue escaping a function body is never generated
}
