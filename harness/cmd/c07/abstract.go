package main

import (
	"fmt"
	"strings"
)

// abstract / interface instantiation and inherited abstract-method completeness.
// Every negative shape has a positive twin (the same declarations made complete) that
// is its control: the negative is judged only when the twin can be instantiated.

type absShape struct {
	name   string
	decls  func(n absNames, complete bool) string
	target func(n absNames) string // class to instantiate
	// posOnly: the shape is a complete class (instantiable); there is no negative form
	posOnly bool
	// factory: the abstract class has a static factory using new static / new self
	factory bool
}

type absNames struct{ I, J, A, B, M, N, P string }

func absShapes() []absShape {
	return []absShape{
		{name: "abstract-class", factory: true,
			decls: func(n absNames, complete bool) string {
				if complete {
					return fmt.Sprintf("class %s { public function f() { return 1; } public static function mk() { return new static(); } public static function mks() { return new self(); } }\n", n.A)
				}
				return fmt.Sprintf("abstract class %s { abstract public function f(); public static function mk() { return new static(); } public static function mks() { return new self(); } }\n", n.A)
			},
			target: func(n absNames) string { return n.A }},
		{name: "abstract-class-without-abstract-methods", factory: true,
			decls: func(n absNames, complete bool) string {
				kw := "abstract "
				if complete {
					kw = ""
				}
				return fmt.Sprintf("%sclass %s { public function f() { return 1; } public static function mk() { return new static(); } public static function mks() { return new self(); } }\n", kw, n.A)
			},
			target: func(n absNames) string { return n.A }},
		{name: "interface",
			decls: func(n absNames, complete bool) string {
				if complete {
					return fmt.Sprintf("class %s { public function f() { return 1; } }\n", n.I)
				}
				return fmt.Sprintf("interface %s { public function f(); }\n", n.I)
			},
			target: func(n absNames) string { return n.I }},
		{name: "abstract-child-of-abstract",
			decls: func(n absNames, complete bool) string {
				s := fmt.Sprintf("abstract class %s { abstract public function f(); }\n", n.A)
				if complete {
					return s + fmt.Sprintf("class %s extends %s { public function f() { return 1; } }\n", n.B, n.A)
				}
				return s + fmt.Sprintf("abstract class %s extends %s { }\n", n.B, n.A)
			},
			target: func(n absNames) string { return n.B }},
		{name: "missing-from-abstract-parent",
			decls: func(n absNames, complete bool) string {
				s := fmt.Sprintf("abstract class %s { abstract public function f(); public function g() { return 2; } }\n", n.A)
				body := ""
				if complete {
					body = "public function f() { return 1; }"
				}
				return s + fmt.Sprintf("class %s extends %s { %s }\n", n.M, n.A, body)
			},
			target: func(n absNames) string { return n.M }},
		{name: "missing-protected-abstract",
			decls: func(n absNames, complete bool) string {
				s := fmt.Sprintf("abstract class %s { abstract protected function f(); }\n", n.A)
				body := ""
				if complete {
					body = "protected function f() { return 1; }"
				}
				return s + fmt.Sprintf("class %s extends %s { %s }\n", n.M, n.A, body)
			},
			target: func(n absNames) string { return n.M }},
		{name: "missing-from-abstract-grandparent",
			decls: func(n absNames, complete bool) string {
				s := fmt.Sprintf("abstract class %s { abstract public function f(); }\nabstract class %s extends %s { public function g() { return 2; } }\n", n.A, n.B, n.A)
				body := ""
				if complete {
					body = "public function f() { return 1; }"
				}
				return s + fmt.Sprintf("class %s extends %s { %s }\n", n.M, n.B, body)
			},
			target: func(n absNames) string { return n.M }},
		{name: "missing-one-of-two",
			decls: func(n absNames, complete bool) string {
				s := fmt.Sprintf("abstract class %s { abstract public function f(); abstract public function g(); }\n", n.A)
				body := "public function f() { return 1; }"
				if complete {
					body += " public function g() { return 2; }"
				}
				return s + fmt.Sprintf("class %s extends %s { %s }\n", n.M, n.A, body)
			},
			target: func(n absNames) string { return n.M }},
		{name: "missing-from-interface",
			decls: func(n absNames, complete bool) string {
				s := fmt.Sprintf("interface %s { public function f(); }\n", n.I)
				body := ""
				if complete {
					body = "public function f() { return 1; }"
				}
				return s + fmt.Sprintf("class %s implements %s { %s }\n", n.M, n.I, body)
			},
			target: func(n absNames) string { return n.M }},
		{name: "missing-from-parents-interface",
			decls: func(n absNames, complete bool) string {
				s := fmt.Sprintf("interface %s { public function f(); }\nabstract class %s implements %s { }\n", n.I, n.A, n.I)
				body := ""
				if complete {
					body = "public function f() { return 1; }"
				}
				return s + fmt.Sprintf("class %s extends %s { %s }\n", n.M, n.A, body)
			},
			target: func(n absNames) string { return n.M }},
		{name: "missing-from-extended-interface",
			decls: func(n absNames, complete bool) string {
				s := fmt.Sprintf("interface %s { public function f(); }\ninterface %s extends %s { public function g(); }\n", n.I, n.J, n.I)
				body := "public function g() { return 2; }"
				if complete {
					body += " public function f() { return 1; }"
				}
				return s + fmt.Sprintf("class %s implements %s { %s }\n", n.M, n.J, body)
			},
			target: func(n absNames) string { return n.M }},
		{name: "missing-in-grandchild-of-concrete-gap",
			// A abstract f; abstract B extends A; M extends B lacks f; N extends M lacks f too
			decls: func(n absNames, complete bool) string {
				s := fmt.Sprintf("abstract class %s { abstract public function f(); }\nabstract class %s extends %s { }\nabstract class %s extends %s { }\n", n.A, n.B, n.A, n.M, n.B)
				body := ""
				if complete {
					body = "public function f() { return 1; }"
				}
				return s + fmt.Sprintf("class %s extends %s { %s }\n", n.N, n.M, body)
			},
			target: func(n absNames) string { return n.N }},
		{name: "satisfied-by-inherited-concrete-method", posOnly: true,
			decls: func(n absNames, _ bool) string {
				return fmt.Sprintf("interface %s { public function f(); }\nclass %s { public function f() { return 1; } }\nclass %s extends %s implements %s { }\n", n.I, n.P, n.M, n.P, n.I)
			},
			target: func(n absNames) string { return n.M }},
		{name: "satisfied-by-intermediate-abstract-class", posOnly: true,
			decls: func(n absNames, _ bool) string {
				return fmt.Sprintf("abstract class %s { abstract public function f(); }\nabstract class %s extends %s { public function f() { return 1; } }\nclass %s extends %s { }\n", n.A, n.B, n.A, n.M, n.B)
			},
			target: func(n absNames) string { return n.M }},
		{name: "child-of-complete-class", posOnly: true,
			decls: func(n absNames, _ bool) string {
				return fmt.Sprintf("abstract class %s { abstract public function f(); }\nclass %s extends %s { public function f() { return 1; } }\nclass %s extends %s { }\n", n.A, n.M, n.A, n.N, n.M)
			},
			target: func(n absNames) string { return n.N }},
	}
}

var newPaths = []string{"new", "new-in-function", "new-dynamic-name", "new-in-method", "new-static-factory", "new-self-factory", "new-subclass"}

// subclassRoute: shapes whose target, extended by an empty concrete subclass, is still
// not instantiable (the subclass inherits the missing abstract method)
func subclassRoute(sh absShape) bool {
	return strings.HasPrefix(sh.name, "missing-") || sh.name == "abstract-class" || sh.name == "abstract-child-of-abstract" || sh.posOnly
}

func genAbstractCases(tf *TypeFixture) []*Case {
	n := absNames{I: tf.I, J: tf.I + "x", A: tf.C, B: tf.K, M: tf.U, N: tf.T, P: tf.U + "p"}
	var out []*Case
	for _, sh := range absShapes() {
		for _, np := range newPaths {
			if (np == "new-static-factory" || np == "new-self-factory") && !sh.factory {
				continue
			}
			if np == "new-subclass" && !subclassRoute(sh) {
				continue
			}
			for _, complete := range []bool{false, true} {
				if sh.posOnly && !complete {
					continue
				}
				out = append(out, tf.buildAbstractCase(n, sh, np, complete))
			}
		}
	}
	return out
}

// Every instantiation is attempted repeatedly in one process: the case's own route twice by
// one site inside a loop and once by a copy of it, then `new $name` and a plain `new`, then
// the own route once more. A negative shape must never yield an object, a positive one must
// yield one every time.
func (tf *TypeFixture) buildAbstractCase(n absNames, sh absShape, np string, complete bool) *Case {
	var b strings.Builder
	b.WriteString("<?php\n")
	b.WriteString(sh.decls(n, complete))
	tgt := sh.target(n)
	newExpr := "new " + tgt + "()"
	pre := "$cn0 = \"" + tgt + "\";\n"
	switch np {
	case "new-in-function":
		fmt.Fprintf(&b, "function mkobj() { return new %s(); }\n", tgt)
		newExpr = "mkobj()"
	case "new-dynamic-name":
		pre += "$cn = \"" + tgt + "\";\n"
		newExpr = "new $cn()"
	case "new-in-method":
		fmt.Fprintf(&b, "class Factory%d { public function mk() { return new %s(); } }\n", tf.Idx, tgt)
		pre += fmt.Sprintf("$fa = new Factory%d();\n", tf.Idx)
		newExpr = "$fa->mk()"
	case "new-static-factory":
		newExpr = tgt + "::mk()"
	case "new-self-factory":
		newExpr = tgt + "::mks()"
	case "new-subclass":
		fmt.Fprintf(&b, "class Sub%d%s extends %s { }\n", tf.Idx, tgt, tgt)
		newExpr = fmt.Sprintf("new Sub%d%s()", tf.Idx, tgt)
	}
	attempt := func(expr string) string {
		return "$st = \"denied\"; $x = null;\ntry { $x = " + expr + "; $st = \"ok\"; } catch (\\Throwable $e) { $st = \"denied\"; }\n" +
			"echo \"R|\", $st, \"|\", (is_object($x) ? \"object\" : \"noobject\"), \"\\n\";\n"
	}
	b.WriteString("echo \"START\\n\";\n" + pre)
	b.WriteString(repeatBlock(attempt(newExpr)))
	b.WriteString(attempt("new $cn0()"))
	b.WriteString(attempt("new " + tgt + "()"))
	b.WriteString(attempt(newExpr))
	b.WriteString("echo \"END\\n\";\n")
	const nAttempts = attempts + 3

	idOf := func(complete bool) string {
		return fmt.Sprintf("abstract/f%d/%s/%s/complete=%v", tf.Idx, sh.name, np, complete)
	}
	judge := func(o *Obs) (string, string) {
		if complete {
			if !o.End || len(o.RAll) != nAttempts {
				return "block", fmt.Sprintf("a complete concrete class could not be instantiated %d times: exit=%d stderr=%.200s", nAttempts, o.Raw.Exit, o.Raw.Stderr)
			}
			for i, r := range o.RAll {
				if len(r) < 2 || r[0] != "ok" || r[1] != "object" {
					return "block", fmt.Sprintf("a complete concrete class could not be instantiated (attempt %d): %v", i+1, r)
				}
			}
			return "", ""
		}
		for i, r := range o.RAll {
			if (len(r) > 0 && r[0] == "ok") || (len(r) > 1 && r[1] == "object") {
				if i == 0 {
					return "instantiated", "an object was created"
				}
				return "instantiated-on-retry", fmt.Sprintf("attempt %d created an object after attempt 1 had been refused and the error caught", i+1)
			}
		}
		return "", ""
	}
	c := &Case{
		Part:    "abstract",
		ID:      idOf(complete),
		KeyBase: fmt.Sprintf("case=%s/path=%s", sh.name, np),
		Src:     b.String(),
		Judge:   judge,
	}
	if complete && !sh.posOnly {
		c.IsCtl = true
	} else if !complete {
		c.Control = idOf(true)
		c.NonTrivial = true
	} else {
		c.NonTrivial = true
	}
	return c
}
