package main

import (
	"fmt"
	"strings"

	"verif/lib"
)

// "call chain" family: a plain global function or a closure defined at top level attempts
// the access; it is reached through a chain of 1..3 hops, each hop being
//
//	Vi / Vs / Vc   instance method / static method / closure created in a method of V
//	               (the declaring class)
//	Fi / Fs / Fc   the same of a foreign class F
//	G              a plain global relay function
//	Cl             a relay closure defined at top level
//
// in every order. The code that performs the access is written outside any class, so the
// rule table denies every non-public member whatever called it.
type chainFixture struct {
	Idx       int
	V, F, Pfx string
}

func newChainFixture(e *lib.Env, idx int) *chainFixture {
	r := e.Rand(fmt.Sprintf("chainfixture/%d", idx))
	used := map[string]bool{}
	return &chainFixture{Idx: idx, V: genName(r, used, true), F: genName(r, used, true), Pfx: strings.ToLower(genName(r, used, false))}
}

var chainHops = []string{"Vi", "Vs", "Vc", "Fi", "Fs", "Fc", "G", "Cl"}

var chainForms = []sharedForm{
	{"iprop", "read", "arrow"}, {"iprop", "write", "arrow"}, {"iprop", "read", "dyn"},
	{"imeth", "call", "arrow"}, {"imeth", "call", "dyn"},
	{"sprop", "read", "classname"}, {"smeth", "call", "classname"}, {"const", "read", "classname"},
}

func allChains(maxLen int) [][]string {
	var out [][]string
	var rec func(cur []string)
	rec = func(cur []string) {
		if len(cur) > 0 {
			out = append(out, append([]string{}, cur...))
		}
		if len(cur) == maxLen {
			return
		}
		for _, h := range chainHops {
			// at most one relay closure (it is passed along as one parameter)
			if h == "Cl" {
				dup := false
				for _, c := range cur {
					if c == "Cl" {
						dup = true
					}
				}
				if dup {
					continue
				}
			}
			rec(append(cur, h))
		}
	}
	rec(nil)
	return out
}

func (cf *chainFixture) name(kind, mod string) string {
	n := cf.Pfx + []string{"i", "m", "s", "t", "c"}[kindIdx(kind)] + []string{"u", "o", "v"}[modIdx(mod)]
	if kind == "const" {
		return strings.ToUpper(n)
	}
	return n
}

// genChainCases: quick = every chain of length 1..2, a seeded sample of the chains of length
// 3, two seeded access forms each; thorough = every chain of length 1..3 with every form.
func genChainCases(e *lib.Env, cf *chainFixture) []*Case {
	r := e.Rand(fmt.Sprintf("chain-select/%d", cf.Idx))
	var out []*Case
	for _, ch := range allChains(3) {
		if e.Quick() && len(ch) == 3 && r.Intn(8) != 0 {
			continue
		}
		for _, final := range []string{"func", "closure"} {
			forms := chainForms
			if e.Quick() {
				idx := r.Perm(len(chainForms))[:2]
				forms = []sharedForm{chainForms[idx[0]], chainForms[idx[1]]}
			}
			for _, f := range forms {
				for _, mod := range mods {
					out = append(out, cf.build(ch, final, f, mod))
				}
			}
		}
	}
	return out
}

func (cf *chainFixture) build(chain []string, final string, f sharedForm, mod string) *Case {
	name := cf.name(f.kind, mod)
	pre, expr := accessExpr(pathDef{name: f.path}, member{f.kind, mod, 0}, name, cf.V)
	expr = strings.ReplaceAll(expr, "$o", "$t")
	body := pre + " return " + expr + ";"
	if f.op == "write" {
		body = pre + " " + expr + " = $w; return \"w\";"
	}
	const args = "($t, $w, $fin, $rel)"
	// call expression that enters hop k (1-based); k == len(chain)+1 is the final
	enter := func(k int) (pre, call string) {
		if k == len(chain)+1 {
			if final == "func" {
				return "", "finalsite" + args
			}
			return "", "$fin" + args
		}
		switch chain[k-1] {
		case "Vi", "Vc":
			return "", fmt.Sprintf("$t->h%d%s", k, args)
		case "Vs":
			return "", fmt.Sprintf("%s::h%d%s", cf.V, k, args)
		case "Fi", "Fc":
			return fmt.Sprintf("$fo = new %s();", cf.F), fmt.Sprintf("$fo->h%d%s", k, args)
		case "Fs":
			return "", fmt.Sprintf("%s::h%d%s", cf.F, k, args)
		case "G":
			return "", fmt.Sprintf("h%d%s", k, args)
		default: // Cl
			return "", "$rel" + args
		}
	}
	var vMethods, fMethods, funcs strings.Builder
	relDef := ""
	for k, h := range chain {
		p, call := enter(k + 2)
		stmts := p + " return " + call + ";"
		switch h {
		case "Vi":
			fmt.Fprintf(&vMethods, "  public function h%d%s { %s }\n", k+1, args, stmts)
		case "Vs":
			fmt.Fprintf(&vMethods, "  public static function h%d%s { %s }\n", k+1, args, stmts)
		case "Vc":
			fmt.Fprintf(&vMethods, "  public function h%d%s { $c = function() use ($t, $w, $fin, $rel) { %s }; return $c(); }\n", k+1, args, stmts)
		case "Fi":
			fmt.Fprintf(&fMethods, "  public function h%d%s { %s }\n", k+1, args, stmts)
		case "Fs":
			fmt.Fprintf(&fMethods, "  public static function h%d%s { %s }\n", k+1, args, stmts)
		case "Fc":
			fmt.Fprintf(&fMethods, "  public function h%d%s { $c = function() use ($t, $w, $fin, $rel) { %s }; return $c(); }\n", k+1, args, stmts)
		case "G":
			fmt.Fprintf(&funcs, "function h%d%s { %s }\n", k+1, args, stmts)
		case "Cl":
			relDef = fmt.Sprintf("$rel = function%s { %s };\n", args, stmts)
		}
	}

	var b strings.Builder
	b.WriteString("<?php\n")
	fmt.Fprintf(&b, "class %s {\n", cf.V)
	for _, k := range kinds {
		for _, m := range mods {
			n, v := cf.name(k, m), sharedValue(k, m)
			switch k {
			case "iprop":
				fmt.Fprintf(&b, "  %s $%s = %d;\n", m, n, v)
			case "sprop":
				fmt.Fprintf(&b, "  %s static $%s = %d;\n", m, n, v)
			case "const":
				fmt.Fprintf(&b, "  %s const %s = %d;\n", m, n, v)
			case "imeth":
				fmt.Fprintf(&b, "  %s function %s() { echo \"CALLED|%s\\n\"; return %d; }\n", m, n, n, v)
			case "smeth":
				fmt.Fprintf(&b, "  %s static function %s() { echo \"CALLED|%s\\n\"; return %d; }\n", m, n, n, v)
			}
		}
	}
	ip := func(m string) string { return cf.name("iprop", m) }
	sp := func(m string) string { return cf.name("sprop", m) }
	fmt.Fprintf(&b, "  public function obs() { return $this->%s . \",\" . $this->%s . \",\" . $this->%s; }\n", ip("public"), ip("protected"), ip("private"))
	fmt.Fprintf(&b, "  public static function sobs() { return self::$%s . \",\" . self::$%s . \",\" . self::$%s; }\n", sp("public"), sp("protected"), sp("private"))
	b.WriteString(vMethods.String())
	b.WriteString("}\n")
	fmt.Fprintf(&b, "class %s {\n%s}\n", cf.F, fMethods.String())
	b.WriteString(funcs.String())
	if final == "func" {
		fmt.Fprintf(&b, "function finalsite%s { %s }\n", args, body)
		b.WriteString("$fin = 0;\n")
	} else {
		fmt.Fprintf(&b, "$fin = function%s { %s };\n", args, body)
	}
	if relDef != "" {
		b.WriteString(relDef)
	} else {
		b.WriteString("$rel = 0;\n")
	}
	fmt.Fprintf(&b, "$t = new %s(); $w = 7777;\n", cf.V)
	fmt.Fprintf(&b, "echo \"B|\", $t->obs(), \"|\", %s::sobs(), \"\\n\";\n", cf.V)
	p0, call0 := enter(1)
	block := "$st = \"denied\"; $v = \"-\";\ntry { $v = " + call0 + "; $st = \"ok\"; } catch (\\Throwable $e) { $st = \"denied\"; }\n" +
		"echo \"R|\", $st, \"|\"; echo $v; echo \"\\n\";\n"
	if mod != "public" {
		block = repeatBlock(block)
	}
	b.WriteString(p0 + "\n" + block)
	fmt.Fprintf(&b, "echo \"A|\", $t->obs(), \"|\", %s::sobs(), \"\\n\";\necho \"END\\n\";\n", cf.V)

	allowed := mod == "public"
	wantV := fmt.Sprint(sharedValue(f.kind, mod))
	if f.op == "write" {
		wantV = "w"
	}
	chainLbl := strings.Join(chain, ".")
	judge := func(o *Obs) (string, string) {
		if !o.End || len(o.R) < 2 {
			return "fatal", fmt.Sprintf("the script ended without reaching its end marker: exit=%d stderr=%.200s", o.Raw.Exit, o.Raw.Stderr)
		}
		if allowed {
			if o.R[0] != "ok" || o.R[1] != wantV {
				return "block", fmt.Sprintf("public control through chain %s: %v", chainLbl, o.R)
			}
			return "", ""
		}
		if cls, why := o.retryVerdict(attempts); cls != "" {
			return cls, fmt.Sprintf("a %s defined outside any class, reached through the call chain %s, could %s the %s %s member of V: %s", final, chainLbl, f.op, mod, f.kind, why)
		}
		if len(o.Called) > 0 || o.Lines["B"] != o.Lines["A"] {
			return "effect", fmt.Sprintf("denied through chain %s but had an effect: called=%v before=%s after=%s", chainLbl, o.Called, o.Lines["B"], o.Lines["A"])
		}
		return "", ""
	}
	idOf := func(m string) string {
		return fmt.Sprintf("vis/chain%d/%s/%s/%s-%s-%s/%s", cf.Idx, chainLbl, final, f.kind, f.op, f.path, m)
	}
	c := &Case{
		Part:    "vis",
		ID:      idOf(mod),
		KeyBase: fmt.Sprintf("kind=%s/op=%s/path=%s/relc=outside-through-call-chain/mod=%s/rel=none/site=chain-%s/tgt=decl/chain=%s", f.kind, f.op, f.path, mod, final, chainLbl),
		Src:     b.String(),
		Judge:   judge,
	}
	if mod == "public" {
		c.IsCtl = true
	} else {
		c.Control = idOf("public")
		c.NonTrivial = true
	}
	return c
}
