package main

import (
	"fmt"
	"math/rand"
	"strings"

	"verif/lib"
)

// ---------------------------------------------------------------------------------
// class fixture: a linear chain L0 <- L1 <- ... , a sibling branch S extends L[SibAt], an
// unrelated class U.  Every chain class declares the full member set (5 kinds x 3
// modifiers) under names that are unique per level, so nothing is overridden or shadowed.

const (
	clsNone = -1
	clsS    = 100
	clsU    = 101
)

type Fixture struct {
	Idx     int
	Depth   int
	Chain   []string
	Sib     string
	SibAt   int
	Unrel   string
	Iface   string
	IfaceAt int // chain level that implements Iface, -1 = none
	Typed   bool
	CtorAt  int // chain level with an explicit empty constructor, -1 = none
	Pfx     string
	order   []int // declaration order of the member kinds
}

var syll = []string{"ka", "mo", "ri", "tu", "ve", "zo", "la", "ne", "pi", "xu", "da", "fe", "go", "hi", "ju", "wo", "ba", "ce", "qi", "yo"}

func genName(r *rand.Rand, used map[string]bool, upperFirst bool) string {
	for {
		n := 2 + r.Intn(2)
		s := ""
		for i := 0; i < n; i++ {
			s += syll[r.Intn(len(syll))]
		}
		if upperFirst {
			s = strings.ToUpper(s[:1]) + s[1:]
		}
		s += fmt.Sprint(r.Intn(90) + 10)
		l := strings.ToLower(s)
		if used[l] {
			continue
		}
		used[l] = true
		return s
	}
}

func newFixture(e *lib.Env, idx int) *Fixture {
	r := e.Rand(fmt.Sprintf("fixture/%d", idx))
	fx := &Fixture{Idx: idx}
	// the first three shapes cover depths 2,3,4 in a seeded order; later ones are random
	depths := []int{2, 3, 4}
	r.Shuffle(3, func(i, j int) { depths[i], depths[j] = depths[j], depths[i] })
	if idx < 3 {
		fx.Depth = depths[idx]
	} else {
		fx.Depth = 2 + r.Intn(3)
	}
	used := map[string]bool{}
	for i := 0; i < fx.Depth; i++ {
		fx.Chain = append(fx.Chain, genName(r, used, true))
	}
	fx.Sib = genName(r, used, true)
	fx.Unrel = genName(r, used, true)
	fx.Iface = genName(r, used, true)
	fx.SibAt = r.Intn(fx.Depth - 1) // the sibling's parent always has a chain child
	fx.IfaceAt = r.Intn(fx.Depth+1) - 1
	fx.Typed = r.Intn(2) == 0
	fx.CtorAt = r.Intn(fx.Depth+1) - 1
	fx.Pfx = strings.ToLower(genName(r, used, false))
	fx.order = r.Perm(5)
	return fx
}

func (fx *Fixture) className(c int) string {
	switch c {
	case clsS:
		return fx.Sib
	case clsU:
		return fx.Unrel
	}
	return fx.Chain[c]
}

// topLevel is the deepest chain level whose members class c has (‑1 = none).
func (fx *Fixture) topLevel(c int) int {
	switch c {
	case clsS:
		return fx.SibAt
	case clsU, clsNone:
		return -1
	}
	return c
}

// descOrSelf: class c is d or a descendant of chain level d.
func (fx *Fixture) descOrSelf(c, d int) bool { return fx.topLevel(c) >= d }

func (fx *Fixture) strictAnc(c, d int) bool { return c >= 0 && c < fx.Depth && c < d }

// inLine: classes a and b are equal or one is an ancestor of the other.
func (fx *Fixture) inLine(a, b int) bool {
	if a == b {
		return true
	}
	if a == clsU || b == clsU {
		return false
	}
	if a == clsS {
		return b <= fx.SibAt
	}
	if b == clsS {
		return a <= fx.SibAt
	}
	return true
}

func (fx *Fixture) deepest(c int) int {
	if c >= 0 && c < fx.Depth {
		return fx.Depth - 1
	}
	return c
}

func (fx *Fixture) rel(caller, d int) string {
	switch {
	case caller == clsNone:
		return "none"
	case caller == clsU:
		return "unrelated"
	case caller == d:
		return "same"
	case caller == clsS:
		if fx.SibAt == d {
			return "child"
		}
		if fx.SibAt > d {
			return "desc"
		}
		return "sibling"
	case caller == d+1:
		return "child"
	case caller > d:
		return "desc"
	case caller == d-1:
		return "parent"
	default:
		return "anc"
	}
}

type member struct {
	kind  string // iprop imeth sprop smeth const
	mod   string // public protected private
	level int
}

var kinds = []string{"iprop", "imeth", "sprop", "smeth", "const"}
var mods = []string{"public", "protected", "private"}

func kindIdx(k string) int {
	for i, x := range kinds {
		if x == k {
			return i
		}
	}
	return -1
}
func modIdx(m string) int {
	for i, x := range mods {
		if x == m {
			return i
		}
	}
	return -1
}

func (fx *Fixture) name(m member) string {
	kc := []string{"i", "m", "s", "t", "c"}[kindIdx(m.kind)]
	mc := []string{"u", "o", "v"}[modIdx(m.mod)]
	n := fmt.Sprintf("%s%s%s%d", fx.Pfx, kc, mc, m.level)
	if m.kind == "const" {
		return strings.ToUpper(n)
	}
	return n
}

func value(m member) int { return 1000 + m.level*100 + kindIdx(m.kind)*10 + modIdx(m.mod) }

const written = 7777

// classSource renders one class; extra is injected verbatim (the probe method).
func (fx *Fixture) classSource(c int, extra string) string {
	var b strings.Builder
	switch {
	case c == clsU:
		fmt.Fprintf(&b, "class %s {\n", fx.Unrel)
	case c == clsS:
		fmt.Fprintf(&b, "class %s extends %s {\n", fx.Sib, fx.Chain[fx.SibAt])
	default:
		fmt.Fprintf(&b, "class %s", fx.Chain[c])
		if c > 0 {
			fmt.Fprintf(&b, " extends %s", fx.Chain[c-1])
		}
		if fx.IfaceAt == c {
			fmt.Fprintf(&b, " implements %s", fx.Iface)
		}
		b.WriteString(" {\n")
		ty := ""
		if fx.Typed {
			ty = "int "
		}
		for _, k := range fx.order {
			for _, mod := range mods {
				m := member{kinds[k], mod, c}
				n, v := fx.name(m), value(m)
				switch m.kind {
				case "iprop":
					fmt.Fprintf(&b, "  %s %s$%s = %d;\n", mod, ty, n, v)
				case "sprop":
					fmt.Fprintf(&b, "  %s static %s$%s = %d;\n", mod, ty, n, v)
				case "const":
					fmt.Fprintf(&b, "  %s const %s = %d;\n", mod, n, v)
				case "imeth":
					fmt.Fprintf(&b, "  %s function %s() { echo \"CALLED|%s\\n\"; return %d; }\n", mod, n, n, v)
				case "smeth":
					fmt.Fprintf(&b, "  %s static function %s() { echo \"CALLED|%s\\n\"; return %d; }\n", mod, n, n, v)
				}
			}
		}
		ip := func(mod string) string { return fx.name(member{"iprop", mod, c}) }
		sp := func(mod string) string { return fx.name(member{"sprop", mod, c}) }
		fmt.Fprintf(&b, "  public function obs%d() { return $this->%s . \",\" . $this->%s . \",\" . $this->%s; }\n", c, ip("public"), ip("protected"), ip("private"))
		fmt.Fprintf(&b, "  public static function sobs%d() { return self::$%s . \",\" . self::$%s . \",\" . self::$%s; }\n", c, sp("public"), sp("protected"), sp("private"))
		if fx.IfaceAt == c {
			b.WriteString("  public function ifm() { return 0; }\n")
		}
		if fx.CtorAt == c {
			b.WriteString("  public function __construct() { }\n")
		}
		if c == 0 {
			b.WriteString("  public function callit($f) { return $f(); }\n")
		}
	}
	b.WriteString(extra)
	b.WriteString("}\n")
	return b.String()
}

func (fx *Fixture) program(probeClass int, probe, funcs, mainCode string) string {
	var b strings.Builder
	b.WriteString("<?php\n")
	fmt.Fprintf(&b, "interface %s { public function ifm(); }\n", fx.Iface)
	for c := 0; c < fx.Depth; c++ {
		ex := ""
		if c == probeClass {
			ex = probe
		}
		b.WriteString(fx.classSource(c, ex))
	}
	for _, c := range []int{clsS, clsU} {
		ex := ""
		if c == probeClass {
			ex = probe
		}
		b.WriteString(fx.classSource(c, ex))
	}
	b.WriteString(funcs)
	b.WriteString(mainCode)
	return b.String()
}

// expected observer lines for object class oc, with an optional overwritten member
func (fx *Fixture) obsInst(oc int, w *member) string {
	var parts []string
	for l := 0; l <= fx.topLevel(oc); l++ {
		var vs []string
		for _, mod := range mods {
			m := member{"iprop", mod, l}
			v := value(m)
			if w != nil && *w == m {
				v = written
			}
			vs = append(vs, fmt.Sprint(v))
		}
		parts = append(parts, strings.Join(vs, ","))
	}
	return strings.Join(parts, "|")
}

func (fx *Fixture) obsStatic(w *member) string {
	var parts []string
	for l := 0; l < fx.Depth; l++ {
		var vs []string
		for _, mod := range mods {
			m := member{"sprop", mod, l}
			v := value(m)
			if w != nil && *w == m {
				v = written
			}
			vs = append(vs, fmt.Sprint(v))
		}
		parts = append(parts, strings.Join(vs, ","))
	}
	return strings.Join(parts, "|")
}

// ---------------------------------------------------------------------------------
// access paths

type pathDef struct {
	name   string
	kinds  string // space separated member kinds
	target string // obj this named dynclass objclass self static parent
}

var paths = []pathDef{
	{"arrow", "iprop imeth smeth", "obj"},
	{"dyn", "iprop imeth", "obj"},
	{"index", "iprop", "obj"},
	{"this", "iprop imeth", "this"},
	{"thisdyn", "iprop imeth", "this"},
	{"parent", "imeth sprop smeth const", "parent"},
	{"classname", "sprop smeth const", "named"},
	{"dynclass", "sprop smeth const", "dynclass"},
	{"objclass", "sprop smeth const", "objclass"},
	{"self", "sprop smeth const", "self"},
	{"static", "sprop smeth const", "static"},
}

// accessExpr returns (pre statements, expression / lvalue).
func accessExpr(p pathDef, m member, name, named string) (string, string) {
	switch m.kind {
	case "iprop":
		switch p.name {
		case "arrow":
			return "", "$o->" + name
		case "dyn":
			return "$n = \"" + name + "\";", "$o->$n"
		case "index":
			return "", "$o[\"" + name + "\"]"
		case "this":
			return "", "$this->" + name
		case "thisdyn":
			return "$n = \"" + name + "\";", "$this->$n"
		}
	case "imeth":
		switch p.name {
		case "arrow":
			return "", "$o->" + name + "()"
		case "dyn":
			return "$n = \"" + name + "\";", "$o->$n()"
		case "this":
			return "", "$this->" + name + "()"
		case "thisdyn":
			return "$n = \"" + name + "\";", "$this->$n()"
		case "parent":
			return "", "parent::" + name + "()"
		}
	case "sprop", "smeth", "const":
		suffix := name
		if m.kind == "sprop" {
			suffix = "$" + name
		} else if m.kind == "smeth" {
			suffix = name + "()"
		}
		switch p.name {
		case "arrow": // static method through an instance
			return "", "$o->" + suffix
		case "classname":
			return "", named + "::" + suffix
		case "dynclass":
			return "$c = \"" + named + "\";", "$c::" + suffix
		case "objclass":
			return "", "$o::" + suffix
		case "self", "static", "parent":
			return "", p.name + "::" + suffix
		}
	}
	panic("no access expression for " + p.name + "/" + m.kind)
}

type siteDef struct {
	name     string
	hasClass bool // code is lexically inside a class
	hasThis  bool // instance context
}

var sites = []siteDef{
	{"top", false, false},
	{"func", false, false},
	{"closure-out", false, false},
	{"arrow-out", false, false},
	{"closure-out-in", false, false}, // defined outside, invoked by a method of the declaring class
	{"func-in", false, false},        // global function invoked by a method of the declaring class
	{"imethod", true, true},
	{"smethod", true, false},
	{"closure-in", true, true},
	{"closure-ret", true, true}, // defined in a method, returned and invoked at top level
	{"sclosure-in", true, false},
	{"arrow-in", true, true},
}

func opsOf(kind string) []string {
	switch kind {
	case "iprop", "sprop":
		return []string{"read", "write"}
	case "const":
		return []string{"read"}
	}
	return []string{"call"}
}

const tryTail = "echo \"R|\", $st, \"|\"; echo $v; echo \"\\n\";\n"

// visRepeat: the cell being rendered is expected to be denied, so its attempt is repeated
// (set by buildVisCase; generation is sequential)
var visRepeat bool

func maybeRepeat(block string) string {
	if visRepeat {
		return repeatBlock(block)
	}
	return block
}

func tryDirect(pre, expr, op string) string {
	body := "$v = " + expr + ";"
	if op == "write" {
		body = expr + " = " + fmt.Sprint(written) + "; $v = \"w\";"
	}
	return pre + "\n" + maybeRepeat("$st = \"denied\"; $v = \"-\";\ntry { "+body+" $st = \"ok\"; } catch (\\Throwable $e) { $st = \"denied\"; }\n"+tryTail)
}

func closureDef(pre, expr, op string) string {
	if op == "write" {
		return "function() use ($o) { " + pre + " " + expr + " = " + fmt.Sprint(written) + "; return \"w\"; }"
	}
	return "function() use ($o) { " + pre + " return " + expr + "; }"
}

func tryCall(callExpr string) string {
	return maybeRepeat("$st = \"denied\"; $v = \"-\";\ntry { $v = " + callExpr + "; $st = \"ok\"; } catch (\\Throwable $e) { $st = \"denied\"; }\n" + tryTail)
}

// ---------------------------------------------------------------------------------

type visCell struct {
	site              siteDef
	caller            int
	m                 member
	op                string
	path              pathDef
	objClass          int // class of $o (and of $this when the path goes through $this)
	named             int // class named in classname/dynclass paths, static class for static::
	viaThis           bool
	invokeThroughDesc bool
}

func uniqInts(xs ...int) []int {
	var out []int
	seen := map[int]bool{}
	for _, x := range xs {
		if !seen[x] {
			seen[x] = true
			out = append(out, x)
		}
	}
	return out
}

func genVisCases(fx *Fixture) []*Case {
	var out []*Case
	callersOf := func(s siteDef) []int {
		if !s.hasClass {
			return []int{clsNone}
		}
		cs := []int{}
		for c := 0; c < fx.Depth; c++ {
			cs = append(cs, c)
		}
		return append(cs, clsS, clsU)
	}
	for _, site := range sites {
		for _, caller := range callersOf(site) {
			for d := 0; d < fx.Depth; d++ {
				for _, kind := range kinds {
					for _, op := range opsOf(kind) {
						if op == "write" && (site.name == "arrow-in" || site.name == "arrow-out") {
							continue
						}
						for _, p := range paths {
							if !strings.Contains(" "+p.kinds+" ", " "+kind+" ") {
								continue
							}
							// target class options
							var targets []int
							switch p.target {
							case "obj", "objclass", "named", "dynclass":
								targets = uniqInts(d, fx.Depth-1)
								if fx.SibAt >= d {
									targets = append(targets, clsS)
								}
							case "this":
								if !site.hasThis {
									continue
								}
								targets = uniqInts(caller, fx.deepest(caller))
							case "static":
								if !site.hasClass {
									continue
								}
								targets = uniqInts(caller, fx.deepest(caller))
							case "self":
								if !site.hasClass {
									continue
								}
								targets = []int{caller}
							case "parent":
								if !site.hasClass || (kind == "imeth" && !site.hasThis) {
									continue
								}
								targets = []int{caller}
							}
							for _, t := range targets {
								// the member must be reachable through the path
								switch p.target {
								case "parent":
									// looked up from the caller's parent upwards
									if !(fx.descOrSelf(caller, d) && caller != d) {
										continue
									}
								default:
									if !fx.descOrSelf(t, d) {
										continue
									}
								}
								for _, mod := range mods {
									vc := visCell{site: site, caller: caller, m: member{kind, mod, d}, op: op, path: p, objClass: t, named: t}
									out = append(out, fx.buildVisCase(vc))
								}
							}
						}
					}
				}
			}
		}
	}
	return out
}

func (fx *Fixture) allowed(caller int, m member) (allowed, open bool) {
	switch m.mod {
	case "public":
		return true, false
	case "protected":
		if caller == clsNone {
			return false, false
		}
		if fx.descOrSelf(caller, m.level) {
			return true, false
		}
		if fx.strictAnc(caller, m.level) {
			return false, true // PHP allows, the statement's wording does not: not judged
		}
		return false, false
	default:
		return caller == m.level, false
	}
}

func (fx *Fixture) buildVisCase(vc visCell) *Case {
	m, p, site := vc.m, vc.path, vc.site
	name := fx.name(m)
	t := vc.objClass
	{
		a, o := fx.allowed(vc.caller, m)
		visRepeat = !a && !o
		defer func() { visRepeat = false }()
	}
	// classes of the objects involved
	oClass := m.level // class of $o
	thisClass := vc.caller
	staticInvoke := vc.caller
	switch p.target {
	case "obj", "objclass":
		oClass = t
	case "this":
		oClass, thisClass = t, t
	case "static":
		thisClass, staticInvoke = t, t
		oClass = t
		if fx.topLevel(t) < 0 {
			oClass = m.level
		}
	}
	namedName := ""
	if p.target == "named" || p.target == "dynclass" {
		namedName = fx.className(t)
	}
	pre, expr := accessExpr(p, m, name, namedName)

	// does the probe run with $this === $o ?
	sameObj := p.target == "this" || (p.target == "static" && site.hasThis && oClass == thisClass)

	var probe, funcs, mainCode strings.Builder
	probeClass := vc.caller
	fmt.Fprintf(&mainCode, "$o = new %s();\n", fx.className(oClass))
	invokeInst := func(method string) string {
		if sameObj {
			return "$o->" + method + "($o)"
		}
		fmt.Fprintf(&mainCode, "$p = new %s();\n", fx.className(thisClass))
		return "$p->" + method + "($o)"
	}
	switch site.name {
	case "top":
		mainCode.WriteString(tryDirect(pre, expr, vc.op))
	case "func":
		funcs.WriteString("function gprobe($o) {\n" + tryDirect(pre, expr, vc.op) + "}\n")
		mainCode.WriteString("gprobe($o);\n")
	case "func-in":
		funcs.WriteString("function gprobe($o) {\n" + tryDirect(pre, expr, vc.op) + "}\n")
		probe.WriteString("  public function viaprobe($o) { gprobe($o); }\n")
		probeClass = m.level
		fmt.Fprintf(&mainCode, "$h = new %s();\n$h->viaprobe($o);\n", fx.Chain[m.level])
	case "closure-out":
		mainCode.WriteString("$f = " + closureDef(pre, expr, vc.op) + ";\n" + tryCall("$f()"))
	case "arrow-out":
		mainCode.WriteString(pre + "\n$f = fn() => " + expr + ";\n" + tryCall("$f()"))
	case "closure-out-in":
		mainCode.WriteString("$f = " + closureDef(pre, expr, vc.op) + ";\n")
		fmt.Fprintf(&mainCode, "$h = new %s();\n", fx.Chain[m.level])
		mainCode.WriteString(tryCall("$h->callit($f)"))
	case "imethod":
		probe.WriteString("  public function probe($o) {\n" + tryDirect(pre, expr, vc.op) + "  }\n")
		mainCode.WriteString(invokeInst("probe") + ";\n")
	case "smethod":
		probe.WriteString("  public static function probe($o) {\n" + tryDirect(pre, expr, vc.op) + "  }\n")
		fmt.Fprintf(&mainCode, "%s::probe($o);\n", fx.className(staticInvoke))
	case "closure-in":
		probe.WriteString("  public function probe($o) {\n$f = " + closureDef(pre, expr, vc.op) + ";\n" + tryCall("$f()") + "  }\n")
		mainCode.WriteString(invokeInst("probe") + ";\n")
	case "closure-ret":
		probe.WriteString("  public function probe($o) {\nreturn " + closureDef(pre, expr, vc.op) + ";\n  }\n")
		call := invokeInst("probe")
		mainCode.WriteString("$f = " + call + ";\n" + tryCall("$f()"))
	case "sclosure-in":
		probe.WriteString("  public static function probe($o) {\n$f = " + closureDef(pre, expr, vc.op) + ";\n" + tryCall("$f()") + "  }\n")
		fmt.Fprintf(&mainCode, "%s::probe($o);\n", fx.className(staticInvoke))
	case "arrow-in":
		probe.WriteString("  public function probe($o) {\n" + pre + "\n$f = fn() => " + expr + ";\n" + tryCall("$f()") + "  }\n")
		mainCode.WriteString(invokeInst("probe") + ";\n")
	}
	// observers
	mainCode.WriteString("echo \"A|\"")
	for l := 0; l <= fx.topLevel(oClass); l++ {
		if l > 0 {
			mainCode.WriteString(", \"|\"")
		}
		fmt.Fprintf(&mainCode, ", $o->obs%d()", l)
	}
	mainCode.WriteString(", \"\\n\";\necho \"S|\"")
	for l := 0; l < fx.Depth; l++ {
		if l > 0 {
			mainCode.WriteString(", \"|\"")
		}
		fmt.Fprintf(&mainCode, ", %s::sobs%d()", fx.Chain[l], l)
	}
	mainCode.WriteString(", \"\\n\";\necho \"END\\n\";\n")

	src := fx.program(probeClass, probe.String(), funcs.String(), mainCode.String())

	allowed, open := fx.allowed(vc.caller, m)
	// relation of the target class to the declaring class and to the caller
	tgt := "decl"
	switch {
	case t == m.level:
		tgt = "decl"
	case t == vc.caller:
		tgt = "caller"
	case vc.caller == clsNone || vc.caller == clsU || fx.inLine(vc.caller, t):
		tgt = "sub"
	default:
		tgt = "offline"
	}
	if p.target == "parent" || p.target == "self" {
		tgt = "caller"
		if vc.caller == m.level {
			tgt = "decl"
		}
	}
	rel := fx.rel(vc.caller, m.level)
	relc := "outside"
	switch rel {
	case "same":
		relc = "same"
	case "child", "desc", "parent", "anc":
		relc = "hier"
		if tgt == "offline" {
			relc = "hier-offline"
		}
	}
	if rel == "none" && (site.name == "closure-out-in" || site.name == "func-in") {
		relc = "outside-called-from-class"
	}
	coord := func(mod string) string {
		return fmt.Sprintf("kind=%s/op=%s/path=%s/relc=%s/mod=%s/rel=%s/site=%s/tgt=%s", m.kind, vc.op, p.name, relc, mod, rel, site.name, tgt)
	}
	idOf := func(mod string) string {
		return fmt.Sprintf("vis/f%d/%s@%s/%s-%s-%s/L%d/%s/t=%s", fx.Idx, site.name, clsLabel(vc.caller), m.kind, vc.op, p.name, m.level, mod, clsLabel(t))
	}
	// expectations
	origA, origS := fx.obsInst(oClass, nil), fx.obsStatic(nil)
	wantA, wantS := origA, origS
	wantV := fmt.Sprint(value(m))
	wantCalled := ""
	if allowed {
		switch vc.op {
		case "write":
			wantV = "w"
			mm := m
			if m.kind == "iprop" {
				wantA = fx.obsInst(oClass, &mm)
			} else {
				wantS = fx.obsStatic(&mm)
			}
		case "call":
			wantCalled = name
		}
	}
	judge := func(o *Obs) (string, string) {
		if !o.End || len(o.R) < 2 {
			return "fatal", fmt.Sprintf("the script ended without reaching its end marker (uncatchable error?): exit=%d stderr=%.200s", o.Raw.Exit, o.Raw.Stderr)
		}
		st, v := o.R[0], o.R[1]
		called := strings.Join(o.Called, ",")
		a, s := o.Lines["A"], o.Lines["S"]
		if allowed {
			if st == "denied" {
				return "block", "an access the rule table allows was denied"
			}
			if st != "ok" || v != wantV || called != wantCalled || a != wantA || s != wantS {
				return "wrong", fmt.Sprintf("allowed access gave the wrong result: want R|ok|%s called=%q A=%s S=%s", wantV, wantCalled, wantA, wantS)
			}
			return "", ""
		}
		if cls, why := o.retryVerdict(attempts); cls != "" {
			return cls, fmt.Sprintf("%s %s member of the declaring class was %s from %s code (relation %s) through %s: %s", m.mod, m.kind, vc.op, site.name, fx.rel(vc.caller, m.level), p.name, why)
		}
		if called != "" || a != origA || s != origS {
			return "effect", fmt.Sprintf("the access was denied but had an effect: called=%q A=%s (want %s) S=%s (want %s)", called, a, origA, s, origS)
		}
		return "", ""
	}
	c := &Case{
		Part:    "vis",
		ID:      idOf(m.mod),
		KeyBase: coord(m.mod),
		Src:     src,
		Judge:   judge,
	}
	c.Group = coord("*")
	c.Inst = idOf("*")
	if m.mod == "public" {
		c.IsCtl = true
	} else {
		c.Control = idOf("public")
		// `[]` on an object is not a member access path of PHP: where the rule table would
		// allow a non-public access the statement says nothing about this path
		c.Open = open || (allowed && p.name == "index")
		c.NonTrivial = !c.Open
	}
	return c
}

func clsLabel(c int) string {
	switch c {
	case clsNone:
		return "none"
	case clsS:
		return "S"
	case clsU:
		return "U"
	}
	return fmt.Sprintf("L%d", c)
}

// selectVisCases builds the visibility case list of the tier.
//
// quick: 3 fixture shapes (depths 2,3,4); every cell coordinate (kind, op, path, relation,
// site, target relation) that exists in any of them is executed once, with all three
// modifiers, in a seeded choice among the concrete instances (fixture, caller class,
// declaring level, target class) that realise it.
//
// thorough: 40 seeded shapes; the first four are executed exhaustively (every instance of
// every coordinate); in each of the others every coordinate is kept with probability 1/6
// and executed in one seeded instance.
func selectVisCases(e *lib.Env, nfix int) []*Case {
	var out []*Case
	pick := func(cs []*Case, r *rand.Rand, keep func() bool) []*Case {
		byGroup := map[string][]string{} // group -> distinct instances, in generation order
		seenInst := map[string]bool{}
		var groups []string
		for _, c := range cs {
			if !seenInst[c.Inst] {
				seenInst[c.Inst] = true
				if _, ok := byGroup[c.Group]; !ok {
					groups = append(groups, c.Group)
				}
				byGroup[c.Group] = append(byGroup[c.Group], c.Inst)
			}
		}
		chosen := map[string]bool{}
		for _, g := range groups {
			insts := byGroup[g]
			i := r.Intn(len(insts))
			if keep() {
				chosen[insts[i]] = true
			}
		}
		var sel []*Case
		for _, c := range cs {
			if chosen[c.Inst] {
				sel = append(sel, c)
			}
		}
		return sel
	}
	if e.Quick() {
		var all []*Case
		for i := 0; i < nfix; i++ {
			all = append(all, genVisCases(newFixture(e, i))...)
		}
		return pick(all, e.Rand("vis-select"), func() bool { return true })
	}
	for i := 0; i < nfix; i++ {
		cs := genVisCases(newFixture(e, i))
		if i < 4 {
			out = append(out, cs...)
			continue
		}
		r := e.Rand(fmt.Sprintf("vis-select/%d", i))
		out = append(out, pick(cs, r, func() bool { return r.Intn(6) == 0 })...)
	}
	return out
}
