package main

import (
	"fmt"
	"sort"
	"strings"

	"verif/lib"
)

// Interface hierarchies for the type matrix.
//
//	I1 <- I2 <- I3            chain of length 3 (interface I2 extends I1, I3 extends I2)
//	I1 <- IA, I1 <- IB, ID extends IA, IB     diamond
//
// For every interface J there are three classes: dirJ implements J itself, subJ extends dirJ
// (gets `implements` from its parent only), subsubJ extends subJ (from its grand-parent).
// Z is an unrelated class used as the other member of class unions; U is unrelated to all.
// Expectation = reachability: class -> ancestors -> their implements -> interface extends,
// transitively.
type hierFixture struct {
	names map[string]string // logical name -> seeded PHP name
}

var hierIfaces = []string{"I1", "I2", "I3", "IA", "IB", "ID"}

var hierExtends = map[string][]string{
	"I2": {"I1"}, "I3": {"I2"}, "IA": {"I1"}, "IB": {"I1"}, "ID": {"IA", "IB"},
}

// supers returns J and every interface J extends, transitively.
func hierSupers(j string) map[string]bool {
	out := map[string]bool{j: true}
	for _, p := range hierExtends[j] {
		for k := range hierSupers(p) {
			out[k] = true
		}
	}
	return out
}

func newHierTypeFixture(e *lib.Env, idx int) *TypeFixture {
	tf := newTypeFixture(e, 500+idx)
	r := e.Rand(fmt.Sprintf("hierfixture/%d", idx))
	used := map[string]bool{}
	for _, n := range []string{tf.I, tf.C, tf.K, tf.U, tf.T} {
		used[strings.ToLower(n)] = true
	}
	h := &hierFixture{names: map[string]string{}}
	for _, j := range hierIfaces {
		h.names[j] = genName(r, used, true)
		for _, d := range []string{"dir", "sub", "subsub"} {
			h.names[d+j] = genName(r, used, true)
		}
	}
	h.names["Z"] = genName(r, used, true)
	tf.Hier = h
	return tf
}

// witness: a class whose instances are values of interface j (used for initial/default values)
func (h *hierFixture) witness(j string) string { return "dir" + j }

func (h *hierFixture) decls() string {
	var b strings.Builder
	for _, j := range hierIfaces {
		fmt.Fprintf(&b, "interface %s", h.names[j])
		if ps := hierExtends[j]; len(ps) > 0 {
			var ns []string
			for _, p := range ps {
				ns = append(ns, h.names[p])
			}
			fmt.Fprintf(&b, " extends %s", strings.Join(ns, ", "))
		}
		b.WriteString(" { }\n")
	}
	for _, j := range hierIfaces {
		fmt.Fprintf(&b, "class %s implements %s { public $tag = \"init\"; }\n", h.names["dir"+j], h.names[j])
		fmt.Fprintf(&b, "class %s extends %s { }\n", h.names["sub"+j], h.names["dir"+j])
		fmt.Fprintf(&b, "class %s extends %s { }\n", h.names["subsub"+j], h.names["sub"+j])
	}
	fmt.Fprintf(&b, "class %s { public $tag = \"init\"; }\n", h.names["Z"])
	return b.String()
}

func hierDeclTypes() []declType {
	var out []declType
	for _, j := range hierIfaces {
		a := "@" + j
		out = append(out,
			declType{label: j, atoms: []string{a}},
			declType{label: "?" + j, atoms: []string{a, "null"}, nullQ: true},
			declType{label: j + "|int", atoms: []string{a, "int"}},
			declType{label: "int|" + j, atoms: []string{"int", a}},
			declType{label: j + "|Z", atoms: []string{a, "@Z"}},
		)
	}
	return out
}

func (tf *TypeFixture) hierValKinds() []valKind {
	h := tf.Hier
	obj := func(label, cls string, isa map[string]bool) valKind {
		n := h.names[cls]
		return valKind{label: label, isa: isa,
			setup: func(*TypeFixture) string { return "$val = new " + n + "(); $val->tag = \"v\";\n" },
			repr:  func(*TypeFixture) string { return "obj:" + n + ":v" }}
	}
	var out []valKind
	for _, j := range hierIfaces {
		isa := map[string]bool{}
		for k := range hierSupers(j) {
			isa["@"+k] = true
		}
		for _, d := range []string{"dir", "sub", "subsub"} {
			out = append(out, obj(d+"-"+j, d+j, isa))
		}
	}
	out = append(out, obj("objZ", "Z", map[string]bool{"@Z": true}))
	out = append(out,
		valKind{label: "objU", setup: func(tf *TypeFixture) string { return "$val = new " + tf.U + "(); $val->tag = \"v\";\n" },
			repr: func(tf *TypeFixture) string { return "obj:" + tf.U + ":v" }},
		valKind{label: "int", atom: "int", expr: lit("5"), repr: lit("int:5")},
		valKind{label: "null", atom: "null", expr: lit("null"), repr: lit("null")},
		valKind{label: "str", atom: "string", expr: lit("\"a\""), repr: lit("str:a")},
	)
	return out
}

// genHierTypeCases: thorough = every (boundary, type, value); quick = every (type, value)
// pair on a seeded choice of `perPair` boundary forms.
func genHierTypeCases(e *lib.Env, tf *TypeFixture, perPair int) []*Case {
	var out []*Case
	r := e.Rand(fmt.Sprintf("hier-select/%d", tf.Idx))
	types := hierDeclTypes()
	vals := tf.hierValKinds()
	for _, t := range types {
		for _, v := range vals {
			idx := r.Perm(len(boundaries))
			if perPair > 0 && perPair < len(idx) {
				idx = idx[:perPair]
			}
			sort.Ints(idx)
			for _, i := range idx {
				out = append(out, tf.buildTypeCase(boundaries[i], t, v))
			}
		}
	}
	return out
}
