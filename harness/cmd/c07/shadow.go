package main

import (
	"fmt"
	"strings"

	"verif/lib"
)

// "shadowed member" family: the SAME member name (instance property, instance method, static
// property, static method, constant) is declared at two or three levels of a chain
// A <- B <- C, with every combination of modifiers that PHP accepts for a redeclaration
// (a redeclaration may not be stricter unless the parent's declaration is private). Code of
// A, B, C, of an unrelated class U and top-level code accesses the name on A, B and C objects
// (or through the class names A, B, C for static members).
//
// Which declaration an access refers to (PHP):
//   - instance members: if the class the code is written in declares the name as private and
//     the object is an instance of that class, it is that private member;
//   - otherwise the nearest declaration from the object's class (the named class) upwards.
//
// The verdict is the rule table applied to that declaration. Only the verdict (and "a denied
// access has no effect") is compared: origami keeps one slot per property name, so which
// VALUE a shadowed name shows is outside the statement. Not judged: protected reached from a
// strict ancestor of the declaring class (as in the matrix), and static members where the
// calling class has its own private declaration of the name but the nearest declaration
// from the named class is someone else's non-accessible one.
type shadowFixture struct {
	Idx int
	Cls [3]string // A, B, C
	U   string
	Pfx string
}

func newShadowFixture(e *lib.Env, idx int) *shadowFixture {
	r := e.Rand(fmt.Sprintf("shadowfixture/%d", idx))
	used := map[string]bool{}
	sf := &shadowFixture{Idx: idx}
	for i := range sf.Cls {
		sf.Cls[i] = genName(r, used, true)
	}
	sf.U = genName(r, used, true)
	sf.Pfx = strings.ToLower(genName(r, used, false))
	return sf
}

type shadowPattern [3]string // modifier per level, "" = not declared

func (p shadowPattern) String() string {
	var ps []string
	for i, m := range p {
		if m == "" {
			m = "-"
		}
		ps = append(ps, string(rune('A'+i))+"="+m)
	}
	return strings.Join(ps, ".")
}

func openness(m string) int { return modIdx(m) } // public 0 < protected 1 < private 2 (strictness)

// validRedecl: child modifier c after nearest ancestor declaration a
func validRedecl(a, c string) bool {
	if a == "private" {
		return true
	}
	return openness(c) <= openness(a)
}

func shadowPatterns() []shadowPattern {
	var out []shadowPattern
	opts := []string{"", "public", "protected", "private"}
	for _, a := range opts {
		for _, b := range opts {
			for _, c := range opts {
				p := shadowPattern{a, b, c}
				n := 0
				last := ""
				ok := true
				for _, m := range p {
					if m == "" {
						continue
					}
					n++
					if last != "" && !validRedecl(last, m) {
						ok = false
					}
					last = m
				}
				if n >= 2 && ok {
					out = append(out, p)
				}
			}
		}
	}
	return out
}

type shadowForm struct{ kind, op, path string }

var shadowForms = []shadowForm{
	{"iprop", "read", "arrow"}, {"iprop", "write", "arrow"}, {"iprop", "incr", "arrow"},
	{"iprop", "read", "dyn"}, {"iprop", "write", "dyn"},
	{"iprop", "read", "this"}, {"iprop", "write", "this"},
	{"imeth", "call", "arrow"}, {"imeth", "call", "dyn"}, {"imeth", "call", "this"},
	{"sprop", "read", "classname"}, {"sprop", "write", "classname"},
	{"smeth", "call", "classname"}, {"const", "read", "classname"},
}

const (
	shCallerNone = 3
	shCallerU    = 4
)

func (sf *shadowFixture) mname(kind string) string {
	n := sf.Pfx + []string{"i", "m", "s", "t", "c"}[kindIdx(kind)]
	if kind == "const" {
		return strings.ToUpper(n)
	}
	return n
}

// resolve returns the level of the declaration the access refers to, the verdict, and
// whether the cell is left open.
func shadowResolve(p shadowPattern, kind string, caller, obj int) (decl int, allowed, open, ok bool) {
	nearest := -1
	for l := obj; l >= 0; l-- {
		if p[l] != "" {
			nearest = l
			break
		}
	}
	if nearest < 0 {
		return 0, false, false, false // the name does not exist on this object / class
	}
	ownPrivate := caller >= 0 && caller <= 2 && p[caller] == "private" && obj >= caller
	verdict := func(d int) (bool, bool) {
		switch p[d] {
		case "public":
			return true, false
		case "protected":
			if caller < 0 || caller > 2 {
				return false, false
			}
			if caller >= d {
				return true, false
			}
			return false, true // strict ancestor of the declaring class: open
		default:
			return caller == d, false
		}
	}
	if kind == "iprop" || kind == "imeth" {
		if ownPrivate {
			return caller, true, false, true
		}
		a, o := verdict(nearest)
		return nearest, a, o, true
	}
	a, o := verdict(nearest)
	if ownPrivate && !a {
		o = true // static member: own private of the name vs someone else's nearest declaration
	}
	return nearest, a, o, true
}

type shadowCombo struct{ caller, obj int }

func genShadowCases(e *lib.Env, sf *shadowFixture, perCell int) []*Case {
	var out []*Case
	r := e.Rand(fmt.Sprintf("shadow-select/%d", sf.Idx))
	have := map[string]bool{}
	add := func(c *Case) {
		if c != nil && !have[c.ID] {
			have[c.ID] = true
			out = append(out, c)
		}
	}
	for _, p := range shadowPatterns() {
		for _, f := range shadowForms {
			var combos []shadowCombo
			for caller := 0; caller <= 4; caller++ {
				for obj := 0; obj <= 2; obj++ {
					if f.path == "this" && (caller > 2 || obj < caller) {
						continue
					}
					if _, _, _, ok := shadowResolve(p, f.kind, callerCode(caller), obj); !ok {
						continue
					}
					combos = append(combos, shadowCombo{caller, obj})
				}
			}
			r.Shuffle(len(combos), func(i, j int) { combos[i], combos[j] = combos[j], combos[i] })
			if perCell > 0 {
				// one combination per stratum: descendant code on an ancestor's object, code of
				// the object's own class, ancestor code on a descendant's object, code outside
				seen := map[int]bool{}
				var sel []shadowCombo
				for _, cb := range combos {
					st := 3
					switch {
					case cb.caller > 2:
					case cb.caller > cb.obj:
						st = 0
					case cb.caller == cb.obj:
						st = 1
					default:
						st = 2
					}
					if !seen[st] {
						seen[st] = true
						sel = append(sel, cb)
					}
				}
				combos = sel
			}
			for _, cb := range combos {
				// control: the same levels declared public
				var ctl shadowPattern
				for i, m := range p {
					if m != "" {
						ctl[i] = "public"
					}
				}
				add(sf.build(ctl, f, cb, true))
				add(sf.build(p, f, cb, false))
			}
		}
	}
	return out
}

func callerCode(c int) int {
	if c == shCallerNone || c == shCallerU {
		return -1
	}
	return c
}

func (sf *shadowFixture) build(p shadowPattern, f shadowForm, cb shadowCombo, isCtl bool) *Case {
	name := sf.mname(f.kind)
	var b strings.Builder
	b.WriteString("<?php\n")
	// the probe
	named := sf.Cls[cb.obj]
	pathName := f.path
	pre, expr := accessExpr(pathDef{name: pathName}, member{f.kind, "public", 0}, name, named)
	var stmt string
	switch f.op {
	case "write":
		stmt = expr + " = 7777; $v = \"w\";"
	case "incr":
		stmt = expr + "++; $v = \"w\";"
	default:
		stmt = "$v = " + expr + ";"
	}
	_, allowed0, open0, _ := shadowResolve(p, f.kind, callerCode(cb.caller), cb.obj)
	repeated := !allowed0 && !open0
	block := "$st = \"denied\"; $v = \"-\";\ntry { " + stmt + " $st = \"ok\"; } catch (\\Throwable $e) { $st = \"denied\"; }\necho \"R|\", $st, \"|\"; echo $v; echo \"\\n\";\n"
	if repeated {
		block = repeatBlock(block)
	}
	probeBody := pre + "\n" + block

	for l := 0; l < 3; l++ {
		fmt.Fprintf(&b, "class %s", sf.Cls[l])
		if l > 0 {
			fmt.Fprintf(&b, " extends %s", sf.Cls[l-1])
		}
		b.WriteString(" {\n")
		if m := p[l]; m != "" {
			v := 3000 + 100*l + kindIdx(f.kind)
			switch f.kind {
			case "iprop":
				fmt.Fprintf(&b, "  %s $%s = %d;\n", m, name, v)
				fmt.Fprintf(&b, "  public function obs%d() { return $this->%s; }\n", l, name)
			case "sprop":
				fmt.Fprintf(&b, "  %s static $%s = %d;\n", m, name, v)
				fmt.Fprintf(&b, "  public static function sobs%d() { return self::$%s; }\n", l, name)
			case "const":
				fmt.Fprintf(&b, "  %s const %s = %d;\n", m, name, v)
			case "imeth":
				fmt.Fprintf(&b, "  %s function %s() { echo \"CALLED|%d\\n\"; return %d; }\n", m, name, l, v)
			case "smeth":
				fmt.Fprintf(&b, "  %s static function %s() { echo \"CALLED|%d\\n\"; return %d; }\n", m, name, l, v)
			}
		}
		if cb.caller == l {
			b.WriteString("  public function probe($o) {\n" + probeBody + "  }\n")
		}
		b.WriteString("}\n")
	}
	fmt.Fprintf(&b, "class %s {\n", sf.U)
	if cb.caller == shCallerU {
		b.WriteString("  public function probe($o) {\n" + probeBody + "  }\n")
	}
	b.WriteString("}\n")
	// state snapshot through the observers of the declaring levels the object has
	b.WriteString("function snap($o) {\n  $s = \"\";\n")
	for l := 0; l <= cb.obj; l++ {
		if p[l] == "" {
			continue
		}
		switch f.kind {
		case "iprop":
			fmt.Fprintf(&b, "  try { $s = $s . \"%d=\" . $o->obs%d() . \";\"; } catch (\\Throwable $e) { $s = $s . \"%d=err;\"; }\n", l, l, l)
		}
	}
	for l := 0; l < 3; l++ {
		if p[l] != "" && f.kind == "sprop" {
			fmt.Fprintf(&b, "  try { $s = $s . \"%d=\" . %s::sobs%d() . \";\"; } catch (\\Throwable $e) { $s = $s . \"%d=err;\"; }\n", l, sf.Cls[l], l, l)
		}
	}
	b.WriteString("  return $s;\n}\n")
	fmt.Fprintf(&b, "$o = new %s();\n", sf.Cls[cb.obj])
	b.WriteString("echo \"B|\", snap($o), \"\\n\";\n")
	switch {
	case cb.caller == shCallerNone:
		b.WriteString(probeBody)
	case f.path == "this":
		b.WriteString("$o->probe($o);\n")
	case cb.caller == shCallerU:
		fmt.Fprintf(&b, "$p = new %s();\n$p->probe($o);\n", sf.U)
	default:
		fmt.Fprintf(&b, "$p = new %s();\n$p->probe($o);\n", sf.Cls[cb.caller])
	}
	b.WriteString("echo \"A|\", snap($o), \"\\n\";\necho \"END\\n\";\n")

	decl, allowed, open, _ := shadowResolve(p, f.kind, callerCode(cb.caller), cb.obj)
	callerLbl := []string{"A", "B", "C", "none", "U"}[cb.caller]
	objLbl := []string{"A", "B", "C"}[cb.obj]
	judge := func(o *Obs) (string, string) {
		if !o.End || len(o.R) < 2 {
			return "fatal", fmt.Sprintf("the script ended without reaching its end marker: exit=%d stderr=%.200s", o.Raw.Exit, o.Raw.Stderr)
		}
		st := o.R[0]
		if allowed {
			if st != "ok" {
				return "block", fmt.Sprintf("pattern %s: code of %s on a %s object refers to the %s declaration of level %c, which it may use; denied", p, callerLbl, objLbl, p[decl], 'A'+decl)
			}
			return "", ""
		}
		if repeated {
			if cls, why := o.retryVerdict(attempts); cls != "" {
				return cls, fmt.Sprintf("pattern %s: code of %s on a %s object refers to the %s declaration of level %c: %s", p, callerLbl, objLbl, p[decl], 'A'+decl, why)
			}
		} else if st == "ok" {
			return "leak", fmt.Sprintf("pattern %s: code of %s on a %s object refers to the %s declaration of level %c; the access succeeded (value %s)", p, callerLbl, objLbl, p[decl], 'A'+decl, o.R[1])
		}
		if len(o.Called) > 0 || o.Lines["B"] != o.Lines["A"] {
			return "effect", fmt.Sprintf("pattern %s: denied but had an effect: called=%v before=%s after=%s", p, o.Called, o.Lines["B"], o.Lines["A"])
		}
		return "", ""
	}
	idOf := func(pp shadowPattern) string {
		return fmt.Sprintf("vis/shadow%d/%s/%s-%s-%s/code=%s/obj=%s", sf.Idx, pp, f.kind, f.op, f.path, callerLbl, objLbl)
	}
	var ctl shadowPattern
	allPublic := true
	for i, m := range p {
		if m != "" {
			ctl[i] = "public"
			if m != "public" {
				allPublic = false
			}
		}
	}
	if !isCtl && allPublic {
		return nil // identical to its control
	}
	c := &Case{
		Part:    "vis",
		ID:      idOf(p),
		KeyBase: fmt.Sprintf("kind=%s/op=%s/path=%s/relc=shadowed/mod=%s/rel=code-%s/site=shadow/tgt=obj-%s", f.kind, f.op, f.path, p, callerLbl, objLbl),
		Src:     b.String(),
		Judge:   judge,
	}
	if isCtl {
		c.IsCtl = true
	} else {
		c.Control = idOf(ctl)
		c.Open = open
		c.NonTrivial = !open
	}
	return c
}
