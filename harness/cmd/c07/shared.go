package main

import (
	"fmt"
	"strings"

	"verif/lib"
)

// "shared access site" family: ONE syntactic access site is executed several times in one
// process from different calling scopes, in several orders (allowed -> forbidden,
// forbidden -> allowed, a-f-a, f-a-f, a second target object of the same class), so that
// anything remembered per site (an inline cache of the verdict) is exposed.
//
// Arrangements
//
//	inherit  the site sits in a method of base class T0 that declares nothing; V extends T0
//	         declares the members, W extends T0 is V's sibling. Steps run the inherited
//	         method on a V object ("V") or on a W object ("W"); the target is always a V.
//	func     the site sits in a global function; steps call it from a method of V ("in") or
//	         from top level ("out").
//	closure  same with a closure defined at top level and passed to V's method.
//	own      the site sits in a method of V, inherited by K extends V; steps run it on a V or
//	         on a K object (both are allowed for every modifier).
//
//	targets  the site sits in a method of V; steps pass it a V, a K (extends V) or an X object,
//	         X being an unrelated class that declares members of the same names: the same
//	         site is allowed on V/K targets and forbidden on X targets.
//
// The verdict of every step is the rule table's: the scope is the class the code is written
// in (T0, none, V). Only the "protected member reached from a strict ancestor of the
// declaring class" steps (inherit arrangement, protected) stay open, as in the matrix.

type sharedForm struct {
	kind, op, path string
}

var sharedForms = []sharedForm{
	{"imeth", "call", "arrow"}, {"imeth", "call", "dyn"},
	{"iprop", "read", "arrow"}, {"iprop", "write", "arrow"},
	{"iprop", "read", "dyn"}, {"iprop", "write", "dyn"},
	{"smeth", "call", "arrow"}, {"smeth", "call", "objclass"},
	{"sprop", "read", "objclass"}, {"const", "read", "objclass"},
	{"smeth", "call", "classname"}, {"sprop", "read", "classname"}, {"sprop", "write", "classname"}, {"const", "read", "classname"},
}

type sharedArr struct {
	name string
	seqs []string // scope letters per step; a trailing '2' on a letter = second target object
	relc string   // key field for the judged steps
	rel  string   // lexical relation of the site's class to the declaring class
}

var sharedArrs = []sharedArr{
	{"inherit", []string{"V-W", "W-V", "V-W-V", "W-V-W", "V-W2", "V-W-W"}, "inherited-by-sibling", "parent"},
	{"func", []string{"in-out", "out-in", "in-out-in", "out-in-out", "in-out2"}, "outside", "none"},
	{"closure", []string{"in-out", "out-in", "in-out-in", "out-in-out"}, "outside", "none"},
	{"own", []string{"V-K", "K-V", "V-K-V"}, "same", "same"},
	{"targets", []string{"V-X", "X-V", "V-X-V", "X-V-X", "K-X", "V-X-X"}, "same-site-other-class-target", "same"},
}

type sharedFixture struct {
	Idx                 int
	T0, V, W, K, X, Pfx string
}

func newSharedFixture(e *lib.Env, idx int) *sharedFixture {
	r := e.Rand(fmt.Sprintf("sharedfixture/%d", idx))
	used := map[string]bool{}
	return &sharedFixture{Idx: idx, T0: genName(r, used, true), V: genName(r, used, true), W: genName(r, used, true), K: genName(r, used, true), X: genName(r, used, true),
		Pfx: strings.ToLower(genName(r, used, false))}
}

func (sf *sharedFixture) name(kind, mod string) string {
	kc := []string{"i", "m", "s", "t", "c"}[kindIdx(kind)]
	mc := []string{"u", "o", "v"}[modIdx(mod)]
	n := sf.Pfx + kc + mc
	if kind == "const" {
		return strings.ToUpper(n)
	}
	return n
}

func sharedValue(kind, mod string) int { return 2000 + kindIdx(kind)*10 + modIdx(mod) }

func genSharedCases(sf *sharedFixture) []*Case {
	var out []*Case
	for _, arr := range sharedArrs {
		for _, f := range sharedForms {
			if arr.name == "targets" && f.path == "classname" {
				continue // the form does not depend on the target object
			}
			for _, seq := range arr.seqs {
				for _, mod := range mods {
					out = append(out, sf.build(arr, f, seq, mod))
				}
			}
		}
	}
	return out
}

func (sf *sharedFixture) build(arr sharedArr, f sharedForm, seq, mod string) *Case {
	name := sf.name(f.kind, mod)
	// the site: statements using $t (target) and $w (value to write)
	pre, expr := accessExpr(pathDef{name: f.path}, member{f.kind, mod, 0}, name, sf.V)
	expr = strings.ReplaceAll(expr, "$o", "$t")
	body := pre + " return " + expr + ";"
	if f.op == "write" {
		body = pre + " " + expr + " = $w; return \"w\";"
	}

	members := func(b *strings.Builder, off int) {
		for _, k := range kinds {
			for _, m := range mods {
				n, v := sf.name(k, m), sharedValue(k, m)+off
				switch k {
				case "iprop":
					fmt.Fprintf(b, "  %s $%s = %d;\n", m, n, v)
				case "sprop":
					fmt.Fprintf(b, "  %s static $%s = %d;\n", m, n, v)
				case "const":
					fmt.Fprintf(b, "  %s const %s = %d;\n", m, n, v)
				case "imeth":
					fmt.Fprintf(b, "  %s function %s() { echo \"CALLED|%s\\n\"; return %d; }\n", m, n, n, v)
				case "smeth":
					fmt.Fprintf(b, "  %s static function %s() { echo \"CALLED|%s\\n\"; return %d; }\n", m, n, n, v)
				}
			}
		}
		ip := func(m string) string { return sf.name("iprop", m) }
		sp := func(m string) string { return sf.name("sprop", m) }
		fmt.Fprintf(b, "  public function obs() { return $this->%s . \",\" . $this->%s . \",\" . $this->%s; }\n", ip("public"), ip("protected"), ip("private"))
		fmt.Fprintf(b, "  public static function sobs() { return self::$%s . \",\" . self::$%s . \",\" . self::$%s; }\n", sp("public"), sp("protected"), sp("private"))
	}

	var b strings.Builder
	b.WriteString("<?php\n")
	fmt.Fprintf(&b, "class %s {\n", sf.T0)
	if arr.name == "inherit" {
		fmt.Fprintf(&b, "  public function site($t, $w) { %s }\n", body)
	}
	b.WriteString("}\n")
	fmt.Fprintf(&b, "class %s extends %s {\n", sf.V, sf.T0)
	members(&b, 0)
	switch arr.name {
	case "func":
		b.WriteString("  public function inside($t, $w) { return sharedsite($t, $w); }\n")
	case "closure":
		b.WriteString("  public function inside($f, $t, $w) { return $f($t, $w); }\n")
	case "own", "targets":
		fmt.Fprintf(&b, "  public function site($t, $w) { %s }\n", body)
	}
	b.WriteString("}\n")
	fmt.Fprintf(&b, "class %s extends %s { }\n", sf.W, sf.T0)
	fmt.Fprintf(&b, "class %s extends %s { }\n", sf.K, sf.V)
	fmt.Fprintf(&b, "class %s {\n", sf.X)
	members(&b, 1000)
	b.WriteString("}\n")
	if arr.name == "func" {
		fmt.Fprintf(&b, "function sharedsite($t, $w) { %s }\n", body)
	}
	fmt.Fprintf(&b, "$v = new %s(); $v2 = new %s(); $w0 = new %s(); $k = new %s(); $x = new %s();\n", sf.V, sf.V, sf.W, sf.K, sf.X)
	if arr.name == "closure" {
		fmt.Fprintf(&b, "$f = function($t, $w) { %s };\n", body)
	}

	type step struct {
		scope    string
		tgt      string // variable holding the target object
		tgtClass string // class whose static observer shows the target's static state
		open     bool
		allowed  bool
		wantV    string
		writeVal int
	}
	var steps []step
	for i, tok := range strings.Split(seq, "-") {
		st := step{scope: strings.TrimSuffix(tok, "2"), tgt: "$v", tgtClass: sf.V, writeVal: 7771 + i, wantV: fmt.Sprint(sharedValue(f.kind, mod))}
		if strings.HasSuffix(tok, "2") {
			st.tgt = "$v2"
		}
		// rule table: the scope is the class the site is written in
		switch arr.name {
		case "inherit": // code of T0, a strict ancestor of the declaring class V
			st.allowed = mod == "public"
			st.open = mod == "protected"
		case "func", "closure": // code outside any class
			st.allowed = mod == "public"
		case "own": // code of V itself, member declared in V
			st.allowed = true
		case "targets": // code of V; the member is V's (targets V, K) or X's (target X)
			st.allowed = true
			switch st.scope {
			case "K":
				st.tgt = "$k"
			case "X":
				st.tgt, st.tgtClass = "$x", sf.X
				st.allowed = mod == "public"
				st.wantV = fmt.Sprint(sharedValue(f.kind, mod) + 1000)
			}
		}
		if f.op == "write" {
			st.wantV = "w"
		}
		steps = append(steps, st)
	}
	for i, st := range steps {
		var call string
		switch arr.name {
		case "inherit":
			recv := "$v"
			if st.scope == "W" {
				recv = "$w0"
			}
			call = fmt.Sprintf("%s->site(%s, %d)", recv, st.tgt, st.writeVal)
		case "own":
			recv := "$v"
			if st.scope == "K" {
				recv = "$k"
			}
			call = fmt.Sprintf("%s->site(%s, %d)", recv, st.tgt, st.writeVal)
		case "targets":
			call = fmt.Sprintf("$v2->site(%s, %d)", st.tgt, st.writeVal)
		case "func":
			if st.scope == "in" {
				call = fmt.Sprintf("$v->inside(%s, %d)", st.tgt, st.writeVal)
			} else {
				call = fmt.Sprintf("sharedsite(%s, %d)", st.tgt, st.writeVal)
			}
		case "closure":
			if st.scope == "in" {
				call = fmt.Sprintf("$v->inside($f, %s, %d)", st.tgt, st.writeVal)
			} else {
				call = fmt.Sprintf("$f(%s, %d)", st.tgt, st.writeVal)
			}
		}
		fmt.Fprintf(&b, "echo \"STEP|%d\\n\";\necho \"B|\", %s->obs(), \"|\", %s::sobs(), \"\\n\";\n", i+1, st.tgt, st.tgtClass)
		fmt.Fprintf(&b, "$st = \"denied\"; $r = \"-\";\ntry { $r = %s; $st = \"ok\"; } catch (\\Throwable $e) { $st = \"denied\"; }\n", call)
		b.WriteString("echo \"R|\", $st, \"|\"; echo $r; echo \"\\n\";\n")
		fmt.Fprintf(&b, "echo \"A|\", %s->obs(), \"|\", %s::sobs(), \"\\n\";\n", st.tgt, st.tgtClass)
	}
	b.WriteString("echo \"END\\n\";\n")

	anyJudged := false
	for _, st := range steps {
		if !st.open {
			anyJudged = true
		}
	}
	isCtl := mod == "public"
	judge := func(o *Obs) (string, string) {
		type stepObs struct {
			r      []string
			called []string
			before string
			after  string
		}
		var got []stepObs
		end := false
		for _, ln := range strings.Split(o.Raw.Stdout, "\n") {
			tag, rest, _ := strings.Cut(ln, "|")
			switch tag {
			case "STEP":
				got = append(got, stepObs{})
			case "END":
				end = true
			default:
				if len(got) == 0 {
					continue
				}
				s := &got[len(got)-1]
				switch tag {
				case "R":
					s.r = strings.Split(rest, "|")
				case "CALLED":
					s.called = append(s.called, rest)
				case "B":
					s.before = rest
				case "A":
					s.after = rest
				}
			}
		}
		if !end || len(got) != len(steps) {
			return "fatal", fmt.Sprintf("the script ended without reaching its end marker: exit=%d stderr=%.200s", o.Raw.Exit, o.Raw.Stderr)
		}
		for i, st := range steps {
			g := got[i]
			if len(g.r) < 2 {
				return "fatal", fmt.Sprintf("step %d printed no result", i+1)
			}
			if isCtl { // control: every step must work
				if g.r[0] != "ok" || g.r[1] != st.wantV {
					return "block", fmt.Sprintf("public control, step %d (%s): %v", i+1, st.scope, g.r)
				}
				continue
			}
			if st.open {
				continue
			}
			if st.allowed {
				if g.r[0] == "denied" {
					return "block", fmt.Sprintf("step %d (%s) of sequence %s: an access the rule table allows was denied", i+1, st.scope, seq)
				}
				if g.r[1] != st.wantV {
					return "wrong", fmt.Sprintf("step %d (%s) of sequence %s: got %v want %s", i+1, st.scope, seq, g.r, st.wantV)
				}
				continue
			}
			if g.r[0] == "ok" {
				return "leak", fmt.Sprintf("step %d (%s) of sequence %s: the access site let forbidden code %s the %s %s member (value %s); other steps of the sequence run the same site", i+1, st.scope, seq, f.op, mod, f.kind, g.r[1])
			}
			if len(g.called) > 0 || g.before != g.after {
				return "effect", fmt.Sprintf("step %d (%s) of sequence %s was denied but had an effect: called=%v before=%s after=%s", i+1, st.scope, seq, g.called, g.before, g.after)
			}
		}
		return "", ""
	}
	idOf := func(m string) string {
		return fmt.Sprintf("vis/shared%d/%s/%s-%s-%s/%s/%s", sf.Idx, arr.name, f.kind, f.op, f.path, seq, m)
	}
	c := &Case{
		Part:    "vis",
		ID:      idOf(mod),
		KeyBase: fmt.Sprintf("kind=%s/op=%s/path=%s/relc=%s/mod=%s/rel=%s/site=shared-%s/tgt=decl/seq=%s", f.kind, f.op, f.path, arr.relc, mod, arr.rel, arr.name, seq),
		Src:     b.String(),
		Judge:   judge,
	}
	if isCtl {
		c.IsCtl = true
	} else {
		c.Control = idOf("public")
		c.Open = !anyJudged
		c.NonTrivial = anyJudged
	}
	return c
}
