package main

import (
	"fmt"
	"strings"

	"verif/lib"
)

// TypeFixture: interface I, class C implements I, class K extends C, unrelated class U.
type TypeFixture struct {
	Idx        int
	I, C, K, U string
	T          string // class that carries the typed members
	Fn         string // function / method name stem
	Short      bool   // one-letter class names
	Hier       *hierFixture
	Quick      bool // quick tier: the "-default" parameter forms use a reduced value set
}

// newShortTypeFixture uses one-letter class names (seeded choice of letters).
func newShortTypeFixture(e *lib.Env, idx int) *TypeFixture {
	r := e.Rand(fmt.Sprintf("shorttypefixture/%d", idx))
	letters := []string{"A", "B", "D", "E", "F", "G", "H", "J", "K", "M", "N", "P", "Q", "R", "W", "X", "Y", "Z"}
	r.Shuffle(len(letters), func(i, j int) { letters[i], letters[j] = letters[j], letters[i] })
	return &TypeFixture{Idx: 1000 + idx, I: letters[0], C: letters[1], K: letters[2], U: letters[3], T: letters[4],
		Fn: "f" + strings.ToLower(letters[5]) + fmt.Sprint(r.Intn(90)+10), Short: true}
}

func newTypeFixture(e *lib.Env, idx int) *TypeFixture {
	r := e.Rand(fmt.Sprintf("typefixture/%d", idx))
	used := map[string]bool{}
	return &TypeFixture{
		Idx: idx,
		I:   genName(r, used, true), C: genName(r, used, true), K: genName(r, used, true), U: genName(r, used, true),
		T: genName(r, used, true), Fn: strings.ToLower(genName(r, used, false)),
	}
}

// a declared type is a set of atoms: int string array C I null
type declType struct {
	label string   // seed independent, e.g. "?C", "int|I"
	atoms []string // int string array C I null
	nullQ bool     // rendered as ?T
}

func (tf *TypeFixture) render(t declType) string {
	atom := func(a string) string {
		switch a {
		case "C":
			return tf.C
		case "I":
			return tf.I
		}
		if strings.HasPrefix(a, "@") {
			return tf.Hier.names[a[1:]]
		}
		return a
	}
	if t.nullQ {
		return "?" + atom(t.atoms[0])
	}
	var ps []string
	for _, a := range t.atoms {
		ps = append(ps, atom(a))
	}
	return strings.Join(ps, "|")
}

func declTypes() []declType {
	bases := []string{"int", "string", "array", "C", "I"}
	var out []declType
	for _, b := range bases {
		out = append(out, declType{label: b, atoms: []string{b}})
	}
	for _, b := range bases {
		out = append(out, declType{label: "?" + b, atoms: []string{b, "null"}, nullQ: true})
	}
	for i := 0; i < len(bases); i++ {
		for j := i + 1; j < len(bases); j++ {
			out = append(out, declType{label: bases[i] + "|" + bases[j], atoms: []string{bases[i], bases[j]}})
		}
	}
	for _, u := range [][]string{{"C", "int"}, {"I", "string"}, {"C", "array"}, {"null", "int"}, {"int", "null"}, {"C", "null"}, {"int", "string", "array"}, {"int", "string", "null"}, {"array", "C", "null"}, {"string", "I", "null"}} {
		out = append(out, declType{label: strings.Join(u, "|"), atoms: u})
	}
	return out
}

type valKind struct {
	label string
	atom  string // which atom it is a value of ("" = none of the statement's types)
	expr  func(tf *TypeFixture) string
	repr  func(tf *TypeFixture) string
	setup func(tf *TypeFixture) string // statements that build $val (objects)
	isa   map[string]bool              // hierarchy fixture: the "@Name" atoms the value is an instance of
}

func lit(s string) func(*TypeFixture) string { return func(*TypeFixture) string { return s } }

func valKinds() []valKind {
	obj := func(which string) valKind {
		cls := func(tf *TypeFixture) string {
			switch which {
			case "C":
				return tf.C
			case "K":
				return tf.K
			}
			return tf.U
		}
		atom := "C" // C and K are values of both C and I
		if which == "U" {
			atom = ""
		}
		return valKind{label: "obj" + which, atom: atom,
			setup: func(tf *TypeFixture) string {
				return "$val = new " + cls(tf) + "(); $val->tag = \"v\";\n"
			},
			repr: func(tf *TypeFixture) string { return "obj:" + cls(tf) + ":v" }}
	}
	return []valKind{
		{label: "int", atom: "int", expr: lit("5"), repr: lit("int:5")},
		{label: "int0", atom: "int", expr: lit("0"), repr: lit("int:0")},
		{label: "str", atom: "string", expr: lit("\"a\""), repr: lit("str:a")},
		{label: "numstr", atom: "string", expr: lit("\"5\""), repr: lit("str:5")},
		{label: "emptystr", atom: "string", expr: lit("\"\""), repr: lit("str:")},
		{label: "float", atom: "", expr: lit("1.5"), repr: lit("float:1.5")},
		{label: "true", atom: "", expr: lit("true"), repr: lit("bool:1")},
		{label: "false", atom: "", expr: lit("false"), repr: lit("bool:0")},
		{label: "null", atom: "null", expr: lit("null"), repr: lit("null")},
		{label: "list", atom: "array", expr: lit("[1, 2]"), repr: lit("arr:2")},
		{label: "emptyarr", atom: "array", expr: lit("[]"), repr: lit("arr:0")},
		{label: "assoc", atom: "array", expr: lit("[\"k\" => 1]"), repr: lit("arr:1")},
		obj("C"), obj("K"), obj("U"),
	}
}

func accepts(t declType, v valKind) bool {
	for _, a := range t.atoms {
		if v.isa != nil && v.isa[a] {
			return true
		}
	}
	if v.atom == "" {
		return false
	}
	for _, a := range t.atoms {
		if a == v.atom {
			return true
		}
		if v.atom == "C" && a == "I" {
			return true
		}
	}
	return false
}

// defaultOf is a constant expression of the declared type (never null) used as the default
// value of the "-default" parameter forms.
func (tf *TypeFixture) defaultOf(t declType) string {
	for _, a := range t.atoms {
		switch a {
		case "int":
			return "41"
		case "string":
			return "\"s0\""
		case "array":
			return "[9, 9, 9]"
		case "C", "I":
			return "new " + tf.K + "()"
		}
		if strings.HasPrefix(a, "@") {
			return "new " + tf.Hier.names[tf.Hier.witness(a[1:])] + "()"
		}
	}
	return "41"
}

// initial valid value of a typed property (differs from every tested value)
func (tf *TypeFixture) initOf(t declType) (setup, repr string) {
	if a := t.atoms[0]; strings.HasPrefix(a, "@") {
		n := tf.Hier.names[tf.Hier.witness(a[1:])]
		return "$init = new " + n + "(); $init->tag = \"i\";\n", "obj:" + n + ":i"
	}
	switch t.atoms[0] {
	case "int":
		return "$init = 41;\n", "int:41"
	case "string":
		return "$init = \"s0\";\n", "str:s0"
	case "array":
		return "$init = [9, 9, 9];\n", "arr:3"
	default:
		return "$init = new " + tf.K + "(); $init->tag = \"i\";\n", "obj:" + tf.K + ":i"
	}
}

type boundary struct {
	name  string
	group string // prop | param | return
}

var boundaries = []boundary{
	{"prop-arrow", "prop"}, {"prop-this", "prop"}, {"prop-dyn", "prop"}, {"prop-static", "prop"}, {"prop-self", "prop"}, {"prop-promoted", "prop"},
	{"func-param", "param"}, {"method-param", "param"}, {"static-param", "param"}, {"ctor-param", "param"}, {"closure-param", "param"}, {"dynmethod-param", "param"},
	{"func-param-default", "param"}, {"func-param2-default", "param"}, {"method-param-default", "param"}, {"static-param-default", "param"},
	{"ctor-param-default", "param"}, {"closure-param-default", "param"}, {"prop-promoted-default", "prop"},
	{"func-return", "return"}, {"method-return", "return"}, {"static-return", "return"}, {"closure-return", "return"},
}

const reprFunc = `function repr($v) {
  if (is_null($v)) { return "null"; }
  if (is_bool($v)) { return $v ? "bool:1" : "bool:0"; }
  if (is_int($v)) { return "int:" . $v; }
  if (is_float($v)) { return "float:" . $v; }
  if (is_string($v)) { return "str:" . $v; }
  if (is_array($v)) { return "arr:" . count($v); }
  if (is_object($v)) { return "obj:" . get_class($v) . ":" . $v->tag; }
  return "other";
}
`

func (tf *TypeFixture) prelude() string {
	var b strings.Builder
	b.WriteString("<?php\n")
	fmt.Fprintf(&b, "interface %s { public function ifm(); }\n", tf.I)
	fmt.Fprintf(&b, "class %s implements %s { public $tag = \"init\"; public function ifm() { return 1; } }\n", tf.C, tf.I)
	fmt.Fprintf(&b, "class %s extends %s { }\n", tf.K, tf.C)
	fmt.Fprintf(&b, "class %s { public $tag = \"init\"; }\n", tf.U)
	if tf.Hier != nil {
		b.WriteString(tf.Hier.decls())
	}
	b.WriteString(reprFunc)
	return b.String()
}

const tryHead = "$st = \"denied\";\ntry { "
const tryEnd = " $st = \"ok\"; } catch (\\Throwable $e) { $st = \"denied\"; }\n"

// quickDeclType: the declared types of the quick tier (thorough runs all 31)
var quickDeclType = map[string]bool{
	"int": true, "string": true, "array": true, "C": true, "I": true,
	"?int": true, "?string": true, "?array": true, "?C": true, "?I": true,
	"int|string": true, "int|C": true, "array|I": true, "string|array": true, "C|I": true, "C|int": true, "I|string": true,
	"int|null": true, "C|null": true, "null|int": true, "int|string|array": true, "array|C|null": true,
}

func (tf *TypeFixture) shape(t declType) string {
	if len(t.atoms) > 1 && !t.nullQ && (t.atoms[0] == "C" || t.atoms[0] == "I") {
		n := tf.C
		if t.atoms[0] == "I" {
			n = tf.I
		}
		if len(n) == 1 {
			return "union-leading-1char-class"
		}
	}
	return "plain"
}

func genTypeCases(tf *TypeFixture) []*Case {
	var out []*Case
	for _, bd := range boundaries {
		if tf.Short {
			switch bd.name {
			case "func-param", "prop-arrow", "func-return", "method-return", "ctor-param":
				if tf.Quick && bd.name != "func-param" && bd.name != "func-return" {
					continue
				}
			default:
				continue
			}
		}
		for _, t := range declTypes() {
			if tf.Quick && !quickDeclType[t.label] {
				continue
			}
			if tf.Short {
				hasClass := false
				for _, a := range t.atoms {
					if a == "C" || a == "I" {
						hasClass = true
					}
				}
				if !hasClass {
					continue
				}
			}
			for _, v := range valKinds() {
				if tf.Quick && strings.HasSuffix(bd.name, "-default") {
					switch v.label {
					case "null", "int", "str", "list", "objC", "objU":
					default:
						continue
					}
				}
				out = append(out, tf.buildTypeCase(bd, t, v))
			}
		}
	}
	return out
}

func (tf *TypeFixture) buildTypeCase(bd boundary, t declType, v valKind) *Case {
	ty := tf.render(t)
	var b strings.Builder
	b.WriteString(tf.prelude())
	valSetup := ""
	if v.setup != nil {
		valSetup = v.setup(tf)
	} else {
		valSetup = "$val = " + v.expr(tf) + ";\n"
	}
	initSetup, initRepr := tf.initOf(t)
	T, fn := tf.T, tf.Fn
	hasInit := false
	want := accepts(t, v)
	// a value the declared type must reject is offered three times (twice by one site in a
	// loop, once by a copy): it has to be rejected every time
	rep := func(block string) string {
		if want {
			return block
		}
		return repeatBlock(block)
	}
	// "-default" forms: the parameter also declares a (non-null) default value of its type;
	// that does not make it nullable
	base := strings.TrimSuffix(bd.name, "-default")
	dx := ""
	if base != bd.name {
		dx = " = " + tf.defaultOf(t)
	}
	switch base {
	case "prop-arrow", "prop-dyn", "prop-this":
		hasInit = true
		fmt.Fprintf(&b, "class %s { public %s $p; public function set($x) { $this->p = $x; } }\n", T, ty)
		b.WriteString(valSetup + initSetup)
		fmt.Fprintf(&b, "$t = new %s();\n", T)
		store := func(rhs string) string {
			switch bd.name {
			case "prop-arrow":
				return "$t->p = " + rhs + ";"
			case "prop-dyn":
				return "$t->$n = " + rhs + ";"
			}
			return "$t->set(" + rhs + ");"
		}
		b.WriteString("$n = \"p\";\n")
		b.WriteString(tryHead + store("$init") + tryEnd + "echo \"INIT|\", $st, \"\\n\";\n")
		b.WriteString(rep(tryHead + store("$val") + tryEnd + "echo \"R|\", $st, \"\\n\";\n"))
		b.WriteString("echo \"G|\", repr($t->p), \"\\n\";\n")
	case "prop-static", "prop-self":
		hasInit = true
		fmt.Fprintf(&b, "class %s { public static %s $sp; public static function set($x) { self::$sp = $x; } }\n", T, ty)
		b.WriteString(valSetup + initSetup)
		store := func(rhs string) string {
			if bd.name == "prop-static" {
				return T + "::$sp = " + rhs + ";"
			}
			return T + "::set(" + rhs + ");"
		}
		b.WriteString(tryHead + store("$init") + tryEnd + "echo \"INIT|\", $st, \"\\n\";\n")
		b.WriteString(rep(tryHead + store("$val") + tryEnd + "echo \"R|\", $st, \"\\n\";\n"))
		fmt.Fprintf(&b, "echo \"G|\", repr(%s::$sp), \"\\n\";\n", T)
	case "prop-promoted":
		fmt.Fprintf(&b, "class %s { public function __construct(public %s $p%s) { echo \"IN|\", repr($p), \"\\n\"; } }\n", T, ty, dx)
		b.WriteString(valSetup)
		b.WriteString("$t = \"none\";\n")
		b.WriteString(rep(tryHead + "$t = new " + T + "($val);" + tryEnd + "echo \"R|\", $st, \"\\n\";\n"))
		b.WriteString("if (is_object($t)) { echo \"G|\", repr($t->p), \"\\n\"; } else { echo \"G|noobject\\n\"; }\n")
	case "func-param":
		fmt.Fprintf(&b, "function %s(%s $x%s) { echo \"IN|\", repr($x), \"\\n\"; return 1; }\n", fn, ty, dx)
		b.WriteString(valSetup)
		b.WriteString(rep(tryHead + fn + "($val);" + tryEnd + "echo \"R|\", $st, \"\\n\";\n"))
	case "func-param2":
		fmt.Fprintf(&b, "function %s(int $a = 1, %s $x%s) { echo \"IN|\", repr($x), \"\\n\"; return 1; }\n", fn, ty, dx)
		b.WriteString(valSetup)
		b.WriteString(rep(tryHead + fn + "(3, $val);" + tryEnd + "echo \"R|\", $st, \"\\n\";\n"))
	case "method-param", "dynmethod-param":
		fmt.Fprintf(&b, "class %s { public function %s(%s $x%s) { echo \"IN|\", repr($x), \"\\n\"; return 1; } }\n", T, fn, ty, dx)
		b.WriteString(valSetup)
		fmt.Fprintf(&b, "$t = new %s();\n", T)
		call := "$t->" + fn + "($val);"
		if bd.name == "dynmethod-param" {
			b.WriteString("$mn = \"" + fn + "\";\n")
			call = "$t->$mn($val);"
		}
		b.WriteString(rep(tryHead + call + tryEnd + "echo \"R|\", $st, \"\\n\";\n"))
	case "static-param":
		fmt.Fprintf(&b, "class %s { public static function %s(%s $x%s) { echo \"IN|\", repr($x), \"\\n\"; return 1; } }\n", T, fn, ty, dx)
		b.WriteString(valSetup)
		b.WriteString(rep(tryHead + T + "::" + fn + "($val);" + tryEnd + "echo \"R|\", $st, \"\\n\";\n"))
	case "ctor-param":
		fmt.Fprintf(&b, "class %s { public function __construct(%s $x%s) { echo \"IN|\", repr($x), \"\\n\"; } }\n", T, ty, dx)
		b.WriteString(valSetup)
		b.WriteString(rep(tryHead + "$t = new " + T + "($val);" + tryEnd + "echo \"R|\", $st, \"\\n\";\n"))
	case "closure-param":
		b.WriteString(valSetup)
		fmt.Fprintf(&b, "$f = function(%s $x%s) { echo \"IN|\", repr($x), \"\\n\"; return 1; };\n", ty, dx)
		b.WriteString(rep(tryHead + "$f($val);" + tryEnd + "echo \"R|\", $st, \"\\n\";\n"))
	case "func-return":
		fmt.Fprintf(&b, "function %s($x): %s { return $x; }\n", fn, ty)
		b.WriteString(valSetup + "$got = \"unset\";\n")
		b.WriteString(rep(tryHead + "$got = " + fn + "($val);" + tryEnd + "echo \"R|\", $st, \"\\n\";\n"))
		b.WriteString("echo \"G|\", repr($got), \"\\n\";\n")
	case "method-return":
		fmt.Fprintf(&b, "class %s { public function %s($x): %s { return $x; } }\n", T, fn, ty)
		b.WriteString(valSetup + "$got = \"unset\";\n")
		fmt.Fprintf(&b, "$t = new %s();\n", T)
		b.WriteString(rep(tryHead + "$got = $t->" + fn + "($val);" + tryEnd + "echo \"R|\", $st, \"\\n\";\n"))
		b.WriteString("echo \"G|\", repr($got), \"\\n\";\n")
	case "static-return":
		fmt.Fprintf(&b, "class %s { public static function %s($x): %s { return $x; } }\n", T, fn, ty)
		b.WriteString(valSetup + "$got = \"unset\";\n")
		b.WriteString(rep(tryHead + "$got = " + T + "::" + fn + "($val);" + tryEnd + "echo \"R|\", $st, \"\\n\";\n"))
		b.WriteString("echo \"G|\", repr($got), \"\\n\";\n")
	case "closure-return":
		b.WriteString(valSetup + "$got = \"unset\";\n")
		fmt.Fprintf(&b, "$f = function($x): %s { return $x; };\n", ty)
		b.WriteString(rep(tryHead + "$got = $f($val);" + tryEnd + "echo \"R|\", $st, \"\\n\";\n"))
		b.WriteString("echo \"G|\", repr($got), \"\\n\";\n")
	default:
		panic(bd.name)
	}
	b.WriteString("echo \"END\\n\";\n")

	vrepr := v.repr(tf)
	judge := func(o *Obs) (string, string) {
		if !o.End || len(o.R) < 1 {
			return "fatal", fmt.Sprintf("the script ended without reaching its end marker: exit=%d stderr=%.200s", o.Raw.Exit, o.Raw.Stderr)
		}
		if hasInit && o.Lines["INIT"] != "ok" {
			return "skip", "the valid initial value could not be stored (judged by the cell of that value)"
		}
		st := o.R[0]
		in := strings.Join(o.InLines, ",")
		g, hasG := o.Lines["G"]
		if want {
			if st != "ok" {
				cls := "rejects-right"
				if tf.shape(t) != "plain" {
					cls = "rejects-right@" + tf.shape(t)
				}
				return cls, fmt.Sprintf("declared type %s rejected a value of that type (%s)", t.label, v.label)
			}
			switch bd.group {
			case "param":
				if in != vrepr {
					return "mangled", fmt.Sprintf("accepted value arrived as %q, want %q", in, vrepr)
				}
			case "prop", "return":
				if base == "prop-promoted" && in != vrepr {
					return "mangled", fmt.Sprintf("accepted value arrived as %q, want %q", in, vrepr)
				}
				if !hasG || g != vrepr {
					return "mangled", fmt.Sprintf("accepted value observed as %q, want %q", g, vrepr)
				}
			}
			return "", ""
		}
		if cls, why := o.retryVerdict(attempts); cls != "" {
			switch cls {
			case "leak":
				cls = "accepts-wrong"
			case "leak-on-retry":
				cls = "accepts-wrong-on-retry"
			}
			return cls, fmt.Sprintf("declared type %s accepted %s (%s; observed afterwards: %q, inside: %q)", t.label, v.label, why, g, in)
		}
		// denied: no effect
		switch bd.group {
		case "param":
			if in != "" {
				return "effect", "the call was rejected but the body ran: " + in
			}
		case "prop":
			if base == "prop-promoted" {
				if in != "" || g != "noobject" {
					return "effect", fmt.Sprintf("the construction was rejected but had effects: IN=%q G=%q", in, g)
				}
			} else if g != initRepr {
				return "effect", fmt.Sprintf("the store was rejected but the property changed: %q, want %q", g, initRepr)
			}
		case "return":
			if g != "str:unset" {
				return "effect", fmt.Sprintf("the return was rejected but a value was delivered: %q", g)
			}
		}
		return "", ""
	}
	id := fmt.Sprintf("type/f%d/%s/%s/%s", tf.Idx, bd.name, t.label, v.label)
	c := &Case{
		Part:       "type",
		ID:         id,
		KeyBase:    fmt.Sprintf("boundary=%s/value=%s/decl=%s", bd.name, v.label, t.label),
		Src:        b.String(),
		Judge:      judge,
		NonTrivial: true,
	}
	return c
}
