// Check C07: visibility and declared types are enforced at every access path and boundary.
//
// Three enumerated parts, every cell executed as its own CLI process:
//
//	vis       (member kind x modifier x static-ness x op) x access path x access site x
//	          (caller class relation to the declaring class) over generated class fixtures
//	type      declared type x runtime value kind x boundary (property store, parameter bind,
//	          return) and the concrete syntactic forms of each boundary
//	abstract  `new` on abstract classes / interfaces, concrete classes with a missing
//	          inherited abstract method, each with a positive twin
//
// The oracle is a rule table in Go (model.go); nothing of origami is imported.
package main

import (
	"fmt"
	"os"
	"sort"
	"strings"
	"sync"
	"time"

	"verif/lib"
)

// Case is one executed cell.
type Case struct {
	Part    string // vis | type | abstract
	ID      string // unique inside the run (fixture index + cell coordinates)
	KeyBase string // seed-independent coordinates used in violation keys
	Src     string
	Group   string // vis: the cell coordinates without the modifier (sampling unit)
	Inst    string // vis: the concrete instance (fixture, classes) without the modifier
	Control string // ID of the control cell that must pass for this cell to be judged ("" = none)
	IsCtl   bool   // the cell is only a control (never a violation by itself, except a Go crash)
	Open    bool   // behaviour left open by the statement: executed, reported, never judged
	// Judge classifies the observed output: "" = as the rule table says.
	Judge func(o *Obs) (class, detail string)
	// NonTrivial: the cell exercises a restriction (counted only when its control passed)
	NonTrivial bool
}

// Obs is the parsed output of one cell.
type Obs struct {
	R       []string   // fields of the first R| line
	RAll    [][]string // every R| line: a rejected attempt is repeated in the same process
	Called  []string
	Lines   map[string]string // first field -> rest, for single-occurrence lines (A, S, G, INIT, IN)
	InLines []string
	End     bool
	Raw     lib.ProcResult
}

func parseObs(r lib.ProcResult) *Obs {
	o := &Obs{Lines: map[string]string{}, Raw: r}
	for _, ln := range strings.Split(r.Stdout, "\n") {
		ln = strings.TrimRight(ln, "\r")
		if ln == "END" {
			o.End = true
			continue
		}
		tag, rest, ok := strings.Cut(ln, "|")
		if !ok {
			continue
		}
		switch tag {
		case "R":
			if o.R == nil {
				o.R = strings.Split(rest, "|")
			}
			o.RAll = append(o.RAll, strings.Split(rest, "|"))
		case "CALLED":
			o.Called = append(o.Called, rest)
		case "IN":
			o.InLines = append(o.InLines, rest)
		default:
			if _, dup := o.Lines[tag]; dup {
				o.Lines[tag] += "\x00DUP\x00" + rest
			} else {
				o.Lines[tag] = rest
			}
		}
	}
	return o
}

// attempts is the number of times a rejected access / store / call / instantiation is
// attempted in one process: twice by one syntactic site inside a loop, once more by a copy.
const attempts = 3

// repeatBlock renders the retry discipline around one attempt block.
func repeatBlock(block string) string {
	return "for ($ri = 0; $ri < 2; $ri++) {\n" + block + "}\n" + block
}

// retryVerdict inspects the status field of every attempt of a cell whose rule-table entry
// is "denied": "" = all attempts denied.
func (o *Obs) retryVerdict(want int) (class, detail string) {
	if len(o.RAll) != want {
		return "fatal", fmt.Sprintf("expected %d attempts, saw %d result lines", want, len(o.RAll))
	}
	for i, r := range o.RAll {
		if len(r) > 0 && r[0] == "ok" {
			if i == 0 {
				return "leak", "attempt 1 succeeded"
			}
			return "leak-on-retry", fmt.Sprintf("attempt %d of the same rejected operation succeeded after attempt 1 had been refused and the error caught", i+1)
		}
		if len(r) == 0 || r[0] != "denied" {
			return "fatal", "malformed result line"
		}
	}
	return "", ""
}

func (o *Obs) status() string {
	if len(o.R) == 0 {
		return ""
	}
	return o.R[0]
}

type outcome struct {
	class, detail string
	crash         bool
	crashSite     string
	timedOut      bool
	passed        bool
	stdout        string
}

func main() {
	e := lib.Init("C07", "exploration")
	e.RunScriptWitnesses()
	e.Assume(
		"every matrix cell runs in a fresh CLI process; repeated execution of one access site from different scopes is explored by the 'shared site' family only",
		"protected members accessed from a strict ancestor of the declaring class are executed but not judged (PHP allows it, the statement's wording excludes it)",
		"a cell is judged only when its public / accepted control on the same path and site works, so unsupported syntax is not reported as a visibility or type defect",
	)

	var cases []*Case
	nfix := e.Pick(3, 40)
	cases = append(cases, selectVisCases(e, nfix)...)
	ntype := e.Pick(1, 4)
	for i := 0; i < ntype; i++ {
		tf := newTypeFixture(e, i)
		tf.Quick = e.Quick()
		cases = append(cases, genTypeCases(tf)...)
	}
	for i := 0; i < e.Pick(1, 3); i++ {
		stf := newShortTypeFixture(e, i)
		stf.Quick = e.Quick()
		cases = append(cases, genTypeCases(stf)...)
	}
	// interface hierarchies: quick = every (type, value) pair on 2 seeded boundary forms,
	// thorough = 2 fixtures on every boundary form
	for i := 0; i < e.Pick(1, 2); i++ {
		cases = append(cases, genHierTypeCases(e, newHierTypeFixture(e, i), e.Pick(2, 0))...)
	}
	for i := 0; i < e.Pick(1, 3); i++ {
		cases = append(cases, genSharedCases(newSharedFixture(e, i))...)
	}
	// shadowed member names: quick = one seeded (code class, object class) combination per stratum and
	// (modifier pattern, access form), thorough = all of them in 2 fixtures
	for i := 0; i < e.Pick(1, 2); i++ {
		cases = append(cases, genShadowCases(e, newShadowFixture(e, i), e.Pick(1, 0))...)
	}
	// call chains ending in a function / closure written outside any class
	for i := 0; i < e.Pick(1, 2); i++ {
		cases = append(cases, genChainCases(e, newChainFixture(e, i))...)
	}
	nabs := e.Pick(1, 4)
	for i := 0; i < nabs; i++ {
		cases = append(cases, genAbstractCases(newTypeFixture(e, 100+i))...)
	}

	if os.Getenv("C07_DUMP") != "" { // development aid: print one case and exit
		for _, c := range cases {
			if strings.Contains(c.ID, os.Getenv("C07_DUMP")) {
				fmt.Printf("=== %s\n--- key: %s\n%s\n", c.ID, c.KeyBase, c.Src)
			}
		}
		_ = os.RemoveAll(e.Scratch)
		os.Exit(0)
	}

	outs := make([]outcome, len(cases))
	lib.ParallelMap(len(cases), 0, func(i int) {
		c := cases[i]
		r := e.RunScript(c.Src, 120*time.Second)
		var oc outcome
		oc.stdout = r.Stdout
		if r.TimedOut {
			oc.timedOut = true
			outs[i] = oc
			return
		}
		if crashed, what := lib.GoCrash(r); crashed {
			oc.crash = true
			oc.crashSite = lib.PanicSite(r.Stderr)
			oc.detail = what
			outs[i] = oc
			return
		}
		o := parseObs(r)
		oc.class, oc.detail = c.Judge(o)
		oc.passed = oc.class == ""
		outs[i] = oc
	})

	byID := map[string]int{}
	for i, c := range cases {
		if _, dup := byID[c.ID]; dup {
			fmt.Fprintln(os.Stderr, "internal error: duplicate case id", c.ID)
			os.Exit(2)
		}
		byID[c.ID] = i
	}

	var distinct lib.DistinctCounter
	var mu sync.Mutex
	stats := map[string]int{}
	classCount := map[string]int{}
	var samples []any
	perPart := map[string]int{}
	vioCells := map[string]int{} // key -> number of cells
	unsupported := map[string]int{}
	openObserved := map[string]int{}

	for i, c := range cases {
		oc := outs[i]
		perPart[c.Part]++
		if oc.timedOut {
			e.Inconclusive("watchdog fired on " + c.ID)
			continue
		}
		if oc.crash {
			key := c.Part + "/crash@" + strings.ReplaceAll(oc.crashSite, " ", "_")
			vioCells[key]++
			e.Violation(key, "Go-level crash instead of a script-level outcome in cell "+c.ID+" ["+c.KeyBase+"]: "+oc.detail, "php", []byte(c.Src))
			continue
		}
		if c.Open {
			k := c.KeyBase + "/observed=" + firstField(oc.stdout)
			openObserved[k]++
			stats["open_cells"]++
			continue
		}
		if c.IsCtl {
			stats["control_cells"]++
			if !oc.passed {
				unsupported[c.KeyBase+" ("+oc.class+")"]++
			}
			continue
		}
		if c.Control != "" {
			j, ok := byID[c.Control]
			if !ok {
				fmt.Fprintln(os.Stderr, "internal error: missing control", c.Control, "of", c.ID)
				os.Exit(2)
			}
			if !outs[j].passed {
				stats["skipped_control_failed"]++
				continue
			}
		}
		if oc.class == "skip" {
			stats["skipped_precondition_failed"]++
			continue
		}
		stats["judged_cells"]++
		if c.NonTrivial {
			distinct.Add(c.ID)
		}
		if oc.passed {
			if len(samples) < 4 && c.NonTrivial && (i%997 == 0 || len(samples) == 0) {
				samples = append(samples, map[string]any{"cell": c.ID, "key": c.KeyBase, "stdout": oc.stdout})
			}
			continue
		}
		key := c.Part + "/" + oc.class + "/" + c.KeyBase
		mu.Lock()
		vioCells[key]++
		classCount[c.Part+"/"+oc.class]++
		mu.Unlock()
		e.Violation(key, "cell "+c.ID+": "+oc.detail+" | stdout: "+oc.stdout, "php", []byte(c.Src))
	}

	if os.Getenv("C07_SUMMARY") != "" { // development aid
		keys := make([]string, 0, len(vioCells))
		for k := range vioCells {
			keys = append(keys, k)
		}
		sort.Strings(keys)
		for _, k := range keys {
			fmt.Printf("MISMATCH %5d  %s\n", vioCells[k], k)
		}
		uk := make([]string, 0, len(unsupported))
		for k := range unsupported {
			uk = append(uk, k)
		}
		sort.Strings(uk)
		for _, k := range uk {
			fmt.Printf("UNSUPPORTED %5d  %s\n", unsupported[k], k)
		}
		ok := make([]string, 0, len(openObserved))
		for k := range openObserved {
			ok = append(ok, k)
		}
		sort.Strings(ok)
		for _, k := range ok {
			fmt.Printf("OPEN %5d  %s\n", openObserved[k], k)
		}
	}

	e.Extra("cells_per_part", perPart)
	e.Extra("cell_stats", stats)
	e.Extra("mismatching_cells_by_class", classCount)
	e.Extra("mismatching_keys", len(vioCells))
	e.Extra("unsupported_control_shapes", len(unsupported))
	e.Extra("fixtures", nfix)
	if len(samples) == 0 && len(cases) > 0 {
		samples = append(samples, map[string]any{"cell": cases[0].ID, "key": cases[0].KeyBase})
	}
	e.Finish(lib.Coverage{
		Evaluations:        len(cases),
		DistinctNontrivial: distinct.N(),
		Rule:               "cell whose rule-table entry is a restriction (non-public member, typed boundary, abstract/interface instantiation) and whose public/accepting control on the same path and site behaved as expected, so the cell really reached the enforcement point",
		Samples:            samples,
		Exhaustive:         true,
	})
}

func firstField(stdout string) string {
	for _, ln := range strings.Split(stdout, "\n") {
		if strings.HasPrefix(ln, "R|") {
			f := strings.Split(ln, "|")
			if len(f) > 1 {
				return f[1]
			}
		}
	}
	return "none"
}
