// Check of property C01: any byte string lexes and parses — script mode and <?php template
// mode — to a program or a positioned diagnostic, within a step bound, without a Go panic,
// stack overflow or runaway loop; and what is accepted runs without an internal crash caused
// by a missing operand or clause. See NOTES.md.
package main

import (
	"bufio"
	"bytes"
	"encoding/json"
	"fmt"
	"os"
	"os/exec"
	"path/filepath"
	"sort"
	"strconv"
	"strings"
	"sync"
	"sync/atomic"
	"syscall"
	"time"

	"verif/lib"
)

func main() {
	if len(os.Args) > 1 {
		switch os.Args[1] {
		case "worker":
			workerMain(os.Args[2:])
			return
		case "bounds":
			boundsMain(os.Args[2:])
			return
		case "case": // development aid: print the input of a case id of the current seed/tier
			e := lib.Init("C01", "exploration")
			d := &driver{e: e, self: os.Args[0]}
			self, _ := os.Executable()
			d.self = self
			bases := d.phase0(d.collectBases())
			for _, c := range buildCases(e, bases) {
				if c.ID == os.Args[2] {
					os.Stdout.Write(materialise(bases, c))
				}
			}
			os.RemoveAll(e.Scratch)
			return
		case "one": // development / replay aid: run the four entry points on one file and print what came back
			oneMain(os.Args[2:])
			return
		}
	}
	e := lib.Init("C01", "exploration")
	self, _ := os.Executable()
	d := &driver{e: e, self: self}
	d.run()
}

type failure struct {
	key   string
	what  string
	ext   string
	text  []byte
	id    string
	order int
}

type driver struct {
	e    *lib.Env
	self string

	mu          sync.Mutex
	failures    []failure
	sum         wsummary
	nontriv     lib.DistinctCounter
	deaths      int
	runStats    map[string]int
	watchdogIDs []string
	others      map[string]int
}

func (d *driver) fail(f failure) {
	d.mu.Lock()
	f.order = len(d.failures)
	d.failures = append(d.failures, f)
	d.mu.Unlock()
}

// ---------------------------------------------------------------------------------------

func (d *driver) run() {
	e := d.e
	d.runStats = map[string]int{}
	d.others = map[string]int{}
	d.sum.Outcomes = map[string]int{}
	d.sum.ErrFrom = map[string]int{}
	d.sum.Fam = map[string][]int{}
	d.sum.FamCPUms = map[string]float64{}
	d.sum.FamMaxQuad = map[string]float64{}
	d.sum.FamMaxBack = map[string]float64{}

	t0 := time.Now()
	phase := func(name string) {
		if os.Getenv("C01_DEV_DUMP") != "" {
			fmt.Fprintf(os.Stderr, "phase %s done at %.1fs\n", name, time.Since(t0).Seconds())
		}
	}
	bases := d.collectBases()
	bases = d.phase0(bases)
	phase("bounds")
	cases := buildCases(e, bases)
	jobs := shard(bases, cases, e.Pick(400, 1500))
	phase("cases")

	type jobOut struct{ accepted []string }
	accepted := make([][]string, len(jobs))
	lib.ParallelMap(len(jobs), 0, func(i int) {
		accepted[i] = d.runJob(i, jobs[i])
	})

	phase("lexparse")
	// run-after-accept on the real CLI
	byID := map[string]cspec{}
	for _, c := range cases {
		if c.Run {
			byID[c.ID] = c
		}
	}
	var runList []cspec
	for _, a := range accepted {
		for _, id := range a {
			if c, ok := byID[id]; ok {
				runList = append(runList, c)
			}
		}
	}
	sort.Slice(runList, func(i, j int) bool { return runList[i].ID < runList[j].ID })
	lib.ParallelMap(len(runList), 0, func(i int) {
		d.runAccepted(bases, runList[i])
	})

	phase("run")
	// one violation per key, with the smallest input that shows it
	sort.Slice(d.failures, func(i, j int) bool {
		a, b := d.failures[i], d.failures[j]
		if a.key != b.key {
			return a.key < b.key
		}
		if len(a.text) != len(b.text) {
			return len(a.text) < len(b.text)
		}
		return a.id < b.id
	})
	perKey := map[string]int{}
	for _, f := range d.failures {
		perKey[f.key]++
	}
	seen := map[string]bool{}
	for _, f := range d.failures {
		if seen[f.key] {
			continue
		}
		seen[f.key] = true
		e.Violation(f.key, fmt.Sprintf("%s [case %s; %d failing inputs share this key] input (%d bytes): %s",
			f.what, f.id, perKey[f.key], len(f.text), quoteBytes(f.text, 160)), f.ext, f.text)
	}

	e.Extra("bound", fmt.Sprintf("per entry-point call on n bytes: at most %d*(n+16)^2 lexer+parser steps; never %d*(n+16) consecutive steps with the top-level parser position confined to %d values, nor %d consecutive steps with it past the end of the token list, nor more than %d*(n+16) rewinds of it; CPU net %d s and heap net %d MiB per case", budgetC, stallC, stallSpread, pastEndRun, backC, cpuNetSeconds, heapNetBytes>>20))
	e.Extra("max_ratio_quadratic_by_family", d.sum.FamMaxQuad)
	e.Extra("max_backtrack_ratio_by_family", d.sum.FamMaxBack)
	e.Extra("max_backtrack_ratio", map[string]any{"rewinds_over_n16": d.sum.MaxBack, "case": d.sum.MaxBackID})
	e.Extra("max_stall_ratio", map[string]any{"longest_confined_run_over_n16": d.sum.MaxStall, "case": d.sum.MaxStallID})
	e.Extra("max_case_cpu_ms", map[string]any{"ms": d.sum.MaxCPUms, "case": d.sum.MaxCPUID})
	e.Extra("entry_point_calls", d.sum.Calls)
	e.Extra("outcomes_by_entry", d.sum.Outcomes)
	e.Extra("max_ratio_quadratic", map[string]any{"steps_over_n16_squared": d.sum.MaxQuad, "case": d.sum.MaxQuadID})
	e.Extra("max_ratio_linear", map[string]any{"steps_over_n16": d.sum.MaxLin, "case": d.sum.MaxLinID})
	e.Extra("max_ratio_linear_inputs_ge_256B", map[string]any{"steps_over_n16": d.sum.MaxLinBig, "case": d.sum.BigID})
	e.Extra("diagnostic_position_carriers", d.sum.ErrFrom)
	e.Extra("families_cases_rejected_accepted", d.sum.Fam)
	sort.Strings(d.sum.WholeRej)
	e.Extra("unmodified_texts_not_accepted", d.sum.WholeRej)
	for k, v := range d.sum.FamCPUms {
		d.sum.FamCPUms[k] = float64(int(v))
	}
	e.Extra("cpu_ms_by_family", d.sum.FamCPUms)
	e.Extra("worker_deaths", d.deaths)
	e.Extra("run_after_accept", d.runStats)
	e.Extra("run_after_accept_watchdog_cases", d.watchdogIDs)
	e.Extra("run_crashes_not_judged_by_site", d.others)
	e.Extra("bases", len(bases))
	e.Assume("Step hooks sit in parser.current() and the lexer main loops; a loop that bypasses both is seen only by the CPU/heap net (CPU time and live heap per case)",
		"inputs above 64 KiB are not explored",
		"run-after-accept judges only nil-dereference / nil-interface Go panics of accepted mutants of generated side-effect-free programs")

	if dump := os.Getenv("C01_DEV_DUMP"); dump != "" {
		// development aid: the monitor observations, in case evidence/ is rewritten by someone else
		b, _ := json.MarshalIndent(map[string]any{"summary": d.sum, "run": d.runStats, "others": d.others, "watchdog": d.watchdogIDs, "deaths": d.deaths, "nontriv": d.nontriv.N()}, "", " ")
		_ = os.WriteFile(dump, b, 0o644)
	}
	var samples []any
	for i := 0; i < len(cases) && len(samples) < 6; i += 1 + len(cases)/6 {
		samples = append(samples, map[string]any{"id": cases[i].ID, "input": quoteBytes(materialiseSafe(bases, cases[i]), 120)})
	}
	e.Finish(lib.Coverage{
		Evaluations:        d.sum.Cases,
		DistinctNontrivial: d.nontriv.N(),
		Rule:               "distinct input texts (by content hash) that a parser entry point (ParseString or ParseFile) rejected with a positioned diagnostic, i.e. malformed inputs that actually took an error path; all four entry points were called on each",
		Samples:            samples,
		Exhaustive:         false,
	})
}

func materialiseSafe(bs []base, c cspec) []byte {
	defer func() { _ = recover() }()
	return materialise(bs, c)
}

func quoteBytes(b []byte, n int) string {
	if len(b) > n {
		return strconv.QuoteToASCII(string(b[:n/2])) + " … " + strconv.QuoteToASCII(string(b[len(b)-n/2:]))
	}
	return strconv.QuoteToASCII(string(b))
}

// ---------------------------------------------------------------------------------------
// bases

func (d *driver) collectBases() []base {
	var bs []base
	for _, root := range []string{"tests", "examples"} {
		var paths []string
		_ = filepath.Walk(filepath.Join(d.e.Repo, root), func(p string, info os.FileInfo, err error) error {
			if err != nil || info.IsDir() {
				return nil
			}
			if strings.HasSuffix(p, ".php") || strings.HasSuffix(p, ".zy") || strings.HasSuffix(p, ".html") {
				paths = append(paths, p)
			}
			return nil
		})
		sort.Strings(paths)
		for _, p := range paths {
			b, err := os.ReadFile(p)
			if err != nil || len(b) == 0 || len(b) > maxInput {
				continue
			}
			rel, _ := filepath.Rel(d.e.Repo, p)
			bs = append(bs, base{Name: "corpus:" + rel, Src: b})
		}
	}
	for _, t := range templates {
		bs = append(bs, base{Name: "tmpl:" + t.name, Src: []byte(t.src)})
	}
	for i, src := range genPrograms(d.e) {
		bs = append(bs, base{Name: fmt.Sprintf("gen:%d", i), Src: []byte(src)})
	}
	return bs
}

// phase0 asks a child process for the token boundaries of every base.
func (d *driver) phase0(bs []base) []base {
	e := d.e
	in := filepath.Join(e.Scratch, "bases.json")
	out := filepath.Join(e.Scratch, "bounds.jsonl")
	logp := filepath.Join(e.Scratch, "bounds.log")
	jb, _ := json.Marshal(bs)
	_ = os.WriteFile(in, jb, 0o644)
	start := 0
	for tries := 0; tries < 40 && start < len(bs); tries++ {
		r := lib.RunProc(lib.ProcSpec{Argv: []string{d.self, "bounds", in, out, logp, strconv.Itoa(start)}, Dir: e.Scratch, Timeout: 10 * time.Minute})
		done, begun, _ := readLog(logp)
		if done {
			break
		}
		if r.TimedOut {
			e.Inconclusive("phase 0 (token boundaries) hit the wall-clock watchdog")
			break
		}
		if begun < 0 {
			e.Inconclusive("phase 0 worker died before its first base: " + oneLine(r.Stderr, 200))
			break
		}
		// the base that began and did not end killed the worker: the whole file is a failing input
		cls, site := classifyDeath(r)
		site = strings.TrimPrefix(site, strings.TrimSuffix(e.Repo, "/")+"/")
		d.deaths++
		d.fail(failure{key: "death@" + cls + ":" + site, what: "lexing the unmodified text kills the process (" + cls + ")", ext: "php", text: bs[begun].Src, id: bs[begun].Name})
		start = begun + 1
		_ = os.Remove(logp)
	}
	f, err := os.Open(out)
	if err == nil {
		sc := bufio.NewScanner(f)
		sc.Buffer(make([]byte, 1<<20), 64<<20)
		for sc.Scan() {
			var rec struct {
				I int  `json:"i"`
				B base `json:"b"`
			}
			if json.Unmarshal(sc.Bytes(), &rec) == nil && rec.I < len(bs) {
				bs[rec.I].Bounds = rec.B.Bounds
				bs[rec.I].Err = rec.B.Err
			}
		}
		f.Close()
	}
	return bs
}

// readLog returns whether the worker finished, and the index of the case that began and did
// not end (-1 if none).
func readLog(path string) (done bool, open int, openID string) {
	open = -1
	f, err := os.Open(path)
	if err != nil {
		return
	}
	defer f.Close()
	sc := bufio.NewScanner(f)
	sc.Buffer(make([]byte, 1<<20), 1<<20)
	for sc.Scan() {
		l := sc.Text()
		switch {
		case strings.HasPrefix(l, "BEGIN "):
			parts := strings.SplitN(l, " ", 3)
			open, _ = strconv.Atoi(parts[1])
			if len(parts) > 2 {
				openID = parts[2]
			}
		case strings.HasPrefix(l, "END "):
			open, openID = -1, ""
		case l == "DONE":
			done = true
		}
	}
	return
}

// classifyDeath names the way a worker process died from its stderr / status.
func classifyDeath(r lib.ProcResult) (class, site string) {
	se := r.Stderr
	site = "unknown"
	switch {
	case strings.Contains(se, "goroutine stack exceeds") || strings.Contains(se, "fatal error: stack overflow"):
		class = "stack-overflow"
		site = cycleSite(se)
	case strings.Contains(se, "out of memory") || strings.Contains(se, "cannot allocate memory"):
		class = "out-of-memory"
		site = lib.PanicSite(se)
	case strings.Contains(se, "fatal error: "):
		class = "fatal-error"
		site = lib.PanicSite(se)
	case strings.Contains(se, "panic: "):
		class = "panic-in-goroutine"
		site = lib.PanicSite(se)
	case r.Signal != "":
		class = "signal-" + r.Signal
	default:
		class = "exit-" + strconv.Itoa(r.Exit)
	}
	return
}

// cycleSite names a stack overflow by the lexicographically smallest repository function
// among the innermost frames (the members of the recursion cycle), so that the key does not
// depend on which member happened to be on top.
func cycleSite(trace string) string {
	lines := strings.Split(trace, "\n")
	var sites []string
	for i := 0; i+1 < len(lines) && len(sites) < 40; i++ {
		fn := strings.TrimSpace(lines[i])
		if !strings.Contains(fn, "github.com/php-any/origami") || strings.Contains(fn, "verifhook") {
			continue
		}
		s := lib.PanicSite(fn + "\n" + lines[i+1] + "\n")
		if s != "unknown" {
			sites = append(sites, s)
		}
	}
	if len(sites) == 0 {
		return "unknown"
	}
	sort.Strings(sites)
	return sites[0]
}

// ---------------------------------------------------------------------------------------
// jobs

// shard cuts the case list into jobs of about per cases; each job carries only the bases it
// refers to.
func shard(bs []base, cases []cspec, per int) []job {
	var jobs []job
	for lo := 0; lo < len(cases); lo += per {
		hi := lo + per
		if hi > len(cases) {
			hi = len(cases)
		}
		var j job
		remap := map[int]int{}
		for _, c := range cases[lo:hi] {
			if c.Base >= 0 {
				k, ok := remap[c.Base]
				if !ok {
					k = len(j.Bases)
					remap[c.Base] = k
					j.Bases = append(j.Bases, bs[c.Base])
				}
				c.Base = k
			}
			j.Cases = append(j.Cases, c)
		}
		jobs = append(jobs, j)
	}
	return jobs
}

// runJob runs one job in child processes, resuming after every case that killed its worker.
func (d *driver) runJob(idx int, j job) (accepted []string) {
	e := d.e
	dir := filepath.Join(e.Scratch, fmt.Sprintf("job%d", idx))
	_ = os.MkdirAll(dir, 0o755)
	jp := filepath.Join(dir, "job.json")
	outp := filepath.Join(dir, "out.jsonl")
	logp := filepath.Join(dir, "log")
	jb, _ := json.Marshal(j)
	_ = os.WriteFile(jp, jb, 0o644)
	start := 0
	for tries := 0; start < len(j.Cases); tries++ {
		if tries > 60 {
			e.Inconclusive(fmt.Sprintf("job %d: more than 60 worker deaths, %d cases not executed", idx, len(j.Cases)-start))
			break
		}
		_ = os.Remove(logp)
		r := lib.RunProc(lib.ProcSpec{Argv: []string{d.self, "worker", jp, outp, logp, strconv.Itoa(start)}, Dir: dir, Timeout: 45 * time.Minute,
			Env: []string{"GOMAXPROCS=2", "GOGC=400"}}) // one case at a time per worker: no use for 16 GC threads each
		done, open, _ := readLog(logp)
		if done {
			break
		}
		if r.TimedOut {
			e.Inconclusive(fmt.Sprintf("job %d: wall-clock watchdog; cases from %d on not executed", idx, max(open, start)))
			break
		}
		if open < 0 {
			e.Inconclusive(fmt.Sprintf("job %d: worker ended outside a case (exit %d %s): %s", idx, r.Exit, r.Signal, oneLine(r.Stderr, 200)))
			break
		}
		d.mu.Lock()
		d.deaths++
		d.mu.Unlock()
		c := j.Cases[open]
		text := materialise(j.Bases, c)
		if r.Exit == 7 {
			// the worker's own CPU/heap net ended it and wrote a record
		} else {
			cls, site := classifyDeath(r)
			site = strings.TrimPrefix(site, strings.TrimSuffix(e.Repo, "/")+"/")
			d.fail(failure{key: "death@" + cls + ":" + site, what: "lexing/parsing this input kills the host process: " + cls + " (" + oneLine(tailOf(r.Stderr, 400), 400) + ")", ext: extFor(text), text: text, id: c.ID})
		}
		start = open + 1
	}
	// results
	f, err := os.Open(outp)
	if err != nil {
		return
	}
	defer f.Close()
	byID := map[string]cspec{}
	for _, c := range j.Cases {
		byID[c.ID] = c
	}
	sc := bufio.NewScanner(f)
	sc.Buffer(make([]byte, 1<<20), 64<<20)
	for sc.Scan() {
		line := sc.Bytes()
		if bytes.HasPrefix(line, []byte(`{"summary":true`)) {
			var s wsummary
			if json.Unmarshal(line, &s) == nil {
				d.mergeSummary(s)
			}
			continue
		}
		var cr cres
		if json.Unmarshal(line, &cr) != nil {
			continue
		}
		c, ok := byID[cr.ID]
		if !ok {
			continue
		}
		text := materialise(j.Bases, c)
		if cr.Net != "" {
			what := fmt.Sprintf("more than %d s of CPU time on one input of at most 64 KiB", cpuNetSeconds)
			if cr.Net == "heap" {
				what = "more than 2 GiB of live heap on one input of at most 64 KiB"
			}
			d.fail(failure{key: cr.Net + "@" + cr.Site, what: what + " (spinning in " + cr.Site + ")", ext: extFor(text), text: text, id: c.ID})
			continue
		}
		for _, f := range cr.Fail {
			in := text
			ext := "zy"
			if f.Entry == "lext" || f.Entry == "parsef" {
				in, ext = templateText(text), "php"
			}
			switch f.Out {
			case "panic":
				d.fail(failure{key: "panic@" + f.Site + "#" + f.Kind, what: entryTitle(f.Entry) + " panics: " + f.Msg + " at " + f.Site, ext: ext, text: in, id: c.ID})
			case "steps":
				d.fail(failure{key: "steps@" + f.Site + "#" + f.Kind, what: entryTitle(f.Entry) + " does not terminate within the step bound (" + f.Msg + "); the loop that does not advance is in " + f.Site, ext: ext, text: in, id: c.ID})
			case "badresult":
				d.fail(failure{key: "result@" + f.Kind, what: entryTitle(f.Entry) + ": " + f.Msg, ext: ext, text: in, id: c.ID})
			}
		}
		if cr.Accepted && c.Run {
			accepted = append(accepted, c.ID)
		}
	}
	if hf, err := os.Open(outp + ".nontriv"); err == nil {
		hs := bufio.NewScanner(hf)
		for hs.Scan() {
			d.nontriv.Add(hs.Text())
		}
		hf.Close()
	}
	_ = os.RemoveAll(dir)
	return
}

func tailOf(s string, n int) string {
	// the head of a Go crash report names the cause
	if len(s) > n {
		return s[:n]
	}
	return s
}

func entryTitle(en string) string {
	switch en {
	case "lex":
		return "lexer.Tokenize (script mode)"
	case "lext":
		return "lexer.TokenizeTemplate (template mode)"
	case "parse":
		return "parser.ParseString (script mode)"
	}
	return "parser.ParseFile on a .php file (template mode)"
}

func extFor(text []byte) string {
	if bytes.Contains(text, []byte("<?php")) {
		return "php"
	}
	return "zy"
}

func (d *driver) mergeSummary(s wsummary) {
	d.mu.Lock()
	defer d.mu.Unlock()
	d.sum.Cases += s.Cases
	d.sum.Calls += s.Calls
	for k, v := range s.Outcomes {
		d.sum.Outcomes[k] += v
	}
	for k, v := range s.ErrFrom {
		d.sum.ErrFrom[k] += v
	}
	for k, v := range s.Fam {
		f := d.sum.Fam[k]
		if f == nil {
			f = make([]int, 3)
		}
		for i := range v {
			f[i] += v[i]
		}
		d.sum.Fam[k] = f
	}
	if s.MaxQuad > d.sum.MaxQuad {
		d.sum.MaxQuad, d.sum.MaxQuadID = s.MaxQuad, s.MaxQuadID
	}
	if s.MaxLin > d.sum.MaxLin {
		d.sum.MaxLin, d.sum.MaxLinID = s.MaxLin, s.MaxLinID
	}
	d.sum.WholeRej = append(d.sum.WholeRej, s.WholeRej...)
	for k, v := range s.FamCPUms {
		d.sum.FamCPUms[k] += v
	}
	for k, v := range s.FamMaxQuad {
		if v > d.sum.FamMaxQuad[k] {
			d.sum.FamMaxQuad[k] = v
		}
	}
	for k, v := range s.FamMaxBack {
		if v > d.sum.FamMaxBack[k] {
			d.sum.FamMaxBack[k] = v
		}
	}
	if s.MaxBack > d.sum.MaxBack {
		d.sum.MaxBack, d.sum.MaxBackID = s.MaxBack, s.MaxBackID
	}
	if s.MaxStall > d.sum.MaxStall {
		d.sum.MaxStall, d.sum.MaxStallID = s.MaxStall, s.MaxStallID
	}
	if s.MaxCPUms > d.sum.MaxCPUms {
		d.sum.MaxCPUms, d.sum.MaxCPUID = s.MaxCPUms, s.MaxCPUID
	}
	if s.MaxLinBig > d.sum.MaxLinBig {
		d.sum.MaxLinBig, d.sum.BigID = s.MaxLinBig, s.BigID
	}
}

// ---------------------------------------------------------------------------------------
// run-after-accept

func (d *driver) count(k string) {
	d.mu.Lock()
	d.runStats[k]++
	d.mu.Unlock()
}

// runAccepted runs an accepted mutant of a generated side-effect-free program on the real
// CLI. Deciding quantities: exit status and the Go crash report on stderr. CPU and address
// space are limited with ulimit (a deleted `$i++` is a legitimate endless loop): such runs
// are counted, not judged.
func (d *driver) runAccepted(bs []base, c cspec) {
	e := d.e
	text := templateText(materialise(bs, c))
	dir := filepath.Join(e.Scratch, "run", lib.Hash(c.ID)[:2])
	_ = os.MkdirAll(dir, 0o755)
	p := filepath.Join(dir, lib.Hash(c.ID)+".php")
	_ = os.WriteFile(p, text, 0o644)
	defer os.Remove(p)
	r, cpuKilled := runCLI([]string{"/bin/sh", "-c", `ulimit -v 8388608; ulimit -t 2; exec "$0" "$1"`, e.Origami(), p}, dir, mutantCPU)
	d.count("executed")
	switch {
	case r.TimedOut:
		d.count("skipped_watchdog")
		d.mu.Lock()
		if len(d.watchdogIDs) < 8 {
			d.watchdogIDs = append(d.watchdogIDs, c.ID)
		}
		d.mu.Unlock()
		return
	case cpuKilled || r.Signal == "killed" || r.Signal == "cpu time limit exceeded" || strings.Contains(r.Signal, "CPU"):
		d.count("skipped_nonterminating")
		return
	case strings.Contains(r.Stderr, "out of memory") || strings.Contains(r.Stderr, "cannot allocate memory"):
		d.count("skipped_memory")
		return
	}
	if crash, _ := lib.GoCrash(r); crash {
		se := r.Stderr
		site := strings.TrimPrefix(crashSite(se), strings.TrimSuffix(e.Repo, "/")+"/")
		nilDeref := strings.Contains(se, "nil pointer dereference") || strings.Contains(se, "interface conversion: interface is nil") ||
			strings.Contains(se, "is nil, not")
		if strings.Contains(se, "goroutine stack exceeds") {
			d.count("script_recursion_overflow")
			return
		}
		if nilDeref {
			d.count("nil_crash")
			kind := "nil-deref"
			if !strings.Contains(se, "nil pointer dereference") {
				kind = "nil-interface"
			}
			d.fail(failure{key: "run-nil@" + site + "#" + kind, what: "the source is accepted by the parser and running it ends in an internal crash (Go nil dereference at " + site + "): " + oneLine(tailOf(se, 160), 160), ext: "php", text: text, id: c.ID})
			return
		}
		d.count("other_go_crash")
		d.mu.Lock()
		d.others[site]++
		d.mu.Unlock()
		return
	}
	switch r.Exit {
	case 0:
		d.count("exit0")
	case 1:
		d.count("exit1_diagnostic")
	default:
		d.count("exit_other")
	}
}

// crashSite names the innermost repository frame of the panicking code in a Go trace. When the
// trace was printed by a recover() handler (try/finally turns a recovered internal panic into
// a fatal diagnostic with the stack), the frames above the last panic( frame belong to the
// handler: the search starts below it.
func crashSite(trace string) string {
	lines := strings.Split(trace, "\n")
	last := -1
	for i, l := range lines {
		t := strings.TrimSpace(l)
		if strings.HasPrefix(t, "panic(") || strings.HasPrefix(t, "runtime.sigpanic(") {
			last = i
		}
	}
	if last >= 0 {
		if s := lib.PanicSite(strings.Join(lines[last+1:], "\n")); s != "unknown" {
			return s
		}
	}
	return lib.PanicSite(trace)
}

// mutantCPU is the CPU time an accepted mutant of a generated program may use before it is
// counted as non-terminating (a run normally takes about 10 ms of CPU).
const mutantCPU = 300 * time.Millisecond

// runCLI runs one CLI process to completion. The process is ended when its CPU time (read from
// /proc, never wall clock) passes cpuLimit; the wall-clock watchdog only marks the result.
func runCLI(argv []string, dir string, cpuLimit time.Duration) (r lib.ProcResult, cpuKilled bool) {
	cmd := exec.Command(argv[0], argv[1:]...)
	cmd.Dir = dir
	cmd.Env = append(os.Environ(), "GOMAXPROCS=2")
	var so, se capBuf
	so.max, se.max = 64<<10, 1<<20
	cmd.Stdout, cmd.Stderr = &so, &se
	cmd.SysProcAttr = &syscall.SysProcAttr{Setpgid: true}
	if err := cmd.Start(); err != nil {
		r.Err, r.Exit = err, -2
		return
	}
	pid := cmd.Process.Pid
	done := make(chan struct{})
	var killedCPU, killedWall atomic.Bool
	go func() {
		start := time.Now()
		stat := fmt.Sprintf("/proc/%d/stat", pid)
		for {
			select {
			case <-done:
				return
			case <-time.After(20 * time.Millisecond):
			}
			if b, err := os.ReadFile(stat); err == nil {
				if i := bytes.LastIndexByte(b, ')'); i >= 0 {
					f := strings.Fields(string(b[i+1:]))
					if len(f) > 12 {
						ut, _ := strconv.ParseInt(f[11], 10, 64)
						st, _ := strconv.ParseInt(f[12], 10, 64)
						if time.Duration(ut+st)*10*time.Millisecond > cpuLimit {
							killedCPU.Store(true)
							_ = syscall.Kill(-pid, syscall.SIGKILL)
							return
						}
					}
				}
			}
			if time.Since(start) > 120*time.Second {
				killedWall.Store(true)
				_ = syscall.Kill(-pid, syscall.SIGKILL)
				return
			}
		}
	}()
	_ = cmd.Wait()
	close(done)
	r.Stdout, r.Stderr = so.buf.String(), se.buf.String()
	r.TimedOut = killedWall.Load()
	if ws, ok := cmd.ProcessState.Sys().(syscall.WaitStatus); ok {
		if ws.Signaled() {
			r.Exit, r.Signal = -1, ws.Signal().String()
		} else {
			r.Exit = ws.ExitStatus()
		}
	}
	return r, killedCPU.Load()
}

type capBuf struct {
	buf bytes.Buffer
	max int
}

func (w *capBuf) Write(p []byte) (int, error) {
	if room := w.max - w.buf.Len(); room > 0 {
		if len(p) > room {
			w.buf.Write(p[:room])
		} else {
			w.buf.Write(p)
		}
	}
	return len(p), nil
}
