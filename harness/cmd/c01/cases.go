package main

// Case descriptions shared by the driver and the worker. A case is (base text, edit); the
// worker materialises it, so that job files stay small even when every token-boundary prefix
// of a file is a case of its own.

import (
	"bytes"
	"fmt"
	"sort"
)

// base is one source text together with the cut points the lexer itself reported for it.
type base struct {
	Name   string   `json:"name"`
	Src    []byte   `json:"src"`
	Bounds [][2]int `json:"bounds,omitempty"` // sanitised [start,end) of the top-level tokens
	Err    string   `json:"err,omitempty"`    // phase 0 could not lex it (panic / step budget)
}

// cspec is one input: an edit of a base, or raw bytes.
type cspec struct {
	ID   string `json:"id"`
	Fam  string `json:"fam"`            // corpus | gen | tmpl | bytes | enum | nest | htmlattr | interp | strtail | tagpos | regress
	Base int    `json:"base"`           // index into job.Bases, -1 for raw
	Op   string `json:"op"`             // raw | whole | prefix | del | dup | sub | cutsub | cut | ins | insend | flip | rep
	I    int    `json:"i,omitempty"`    // token index / byte offset
	J    int    `json:"j,omitempty"`    // second parameter (end token, bit, repeat count)
	Raw  []byte `json:"raw,omitempty"`  // raw input, or the inserted bytes
	Run  bool   `json:"run,omitempty"`  // run-after-accept clause applies (side-effect-free family)
	Deep bool   `json:"deep,omitempty"` // nesting stressor: no run, counted separately
}

type job struct {
	Bases []base  `json:"bases"`
	Cases []cspec `json:"cases"`
}

// materialise builds the input bytes of a case.
func materialise(bs []base, c cspec) []byte {
	if c.Base < 0 || c.Op == "raw" {
		return c.Raw
	}
	b := bs[c.Base]
	src := b.Src
	tok := func(i int) (int, int) {
		if i < 0 || i >= len(b.Bounds) {
			return len(src), len(src)
		}
		return b.Bounds[i][0], b.Bounds[i][1]
	}
	switch c.Op {
	case "whole":
		return src
	case "prefix": // everything in front of token I (I == len(bounds): up to the end of the last token)
		if c.I >= len(b.Bounds) {
			if len(b.Bounds) == 0 {
				return src
			}
			return src[:b.Bounds[len(b.Bounds)-1][1]]
		}
		s, _ := tok(c.I)
		return src[:s]
	case "del":
		s, e := tok(c.I)
		return cat(src[:s], src[e:])
	case "dup":
		s, e := tok(c.I)
		return cat(src[:e], []byte(" "), src[s:e], src[e:])
	case "sub": // replace token I by Raw
		s, e := tok(c.I)
		return cat(src[:s], c.Raw, src[e:])
	case "cutsub": // everything in front of token I, then Raw, then the end of the text
		s, _ := tok(c.I)
		return cat(src[:s], c.Raw)
	case "cut": // byte-level truncation
		if c.I > len(src) {
			return src
		}
		return src[:c.I]
	case "ins":
		i := c.I
		if i > len(src) {
			i = len(src)
		}
		return cat(src[:i], c.Raw, src[i:])
	case "insend": // truncate at byte I and append Raw
		i := c.I
		if i > len(src) {
			i = len(src)
		}
		return cat(src[:i], c.Raw)
	case "flip":
		out := append([]byte(nil), src...)
		if c.I < len(out) {
			out[c.I] ^= 1 << uint(c.J&7)
		}
		return out
	case "rep": // repeat the tokens [I, I+span) J times, span in Raw[0]
		span := 1
		if len(c.Raw) > 0 {
			span = int(c.Raw[0])
		}
		s, _ := tok(c.I)
		_, e := tok(c.I + span - 1)
		if e < s {
			e = s
		}
		var bb bytes.Buffer
		bb.Write(src[:s])
		for k := 0; k < c.J; k++ {
			bb.Write(src[s:e])
			bb.WriteByte(' ')
		}
		bb.Write(src[e:])
		return bb.Bytes()
	}
	panic(fmt.Sprintf("unknown op %q", c.Op))
}

func cat(parts ...[]byte) []byte {
	n := 0
	for _, p := range parts {
		n += len(p)
	}
	out := make([]byte, 0, n)
	for _, p := range parts {
		out = append(out, p...)
	}
	return out
}

// sanitiseBounds turns whatever Start()/End() the lexer reported into ordered, in-range,
// non-empty, non-overlapping cut ranges (span correctness itself is C18's subject).
func sanitiseBounds(raw [][2]int, n int) [][2]int {
	var out [][2]int
	for _, r := range raw {
		s, e := r[0], r[1]
		if s < 0 || e > n || s >= e {
			continue
		}
		out = append(out, [2]int{s, e})
	}
	sort.Slice(out, func(i, j int) bool {
		if out[i][0] != out[j][0] {
			return out[i][0] < out[j][0]
		}
		return out[i][1] < out[j][1]
	})
	var res [][2]int
	last := 0
	for _, r := range out {
		if r[0] < last {
			continue
		}
		res = append(res, r)
		last = r[1]
	}
	return res
}

// templateText is what the template-mode entry points get for an input: the input itself
// when it carries an opening tag, else the input behind "<?php " (without a tag the whole
// text is inline HTML and template mode would be vacuous).
func templateText(src []byte) []byte {
	if bytes.Contains(src, []byte("<?php")) {
		return src
	}
	return cat([]byte("<?php "), src)
}
