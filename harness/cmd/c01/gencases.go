package main

// The case list: a pure function of VERIF_SEED and the tier.

import (
	"bytes"
	"fmt"
	"math/rand"
	"os"
	"path/filepath"
	"sort"
	"strings"
	"unicode/utf8"

	"verif/gen"
	"verif/lib"
)

// genPrograms renders side-effect-free programs: gen's control flow / expressions / classes /
// exceptions / interpolated strings, plus heredoc, nowdoc and inline-HTML tails.
func genPrograms(e *lib.Env) []string {
	r := e.Rand("gen")
	n := e.Pick(6, 60)
	var out []string
	for i := 0; i < n; i++ {
		cfg := gen.Config{MaxDepth: 2 + r.Intn(3), Budget: 8 + r.Intn(22), Exceptions: r.Intn(2) == 0, ThrowBias: r.Intn(6)}
		src := gen.Source(gen.Generate(r, cfg))
		var sb strings.Builder
		sb.WriteString(src)
		tails := []string{
			"$hd = <<<EOT\nrow $s0 and {$a0[0]} and ${i0}\n  second \\$x {$i1}\nEOT;\necho $hd, \"\\n\";\n",
			"$nd = <<<'RAW'\nraw $s0 {$i0}\nRAW;\necho $nd, \"\\n\";\n",
			"?>\n<p class=\"x\">inline <?php echo $i0; ?> html &amp; <b>b</b></p>\n<?php\necho \"tail\\n\";\n",
			"$m = [\"k\" => $i0, 'q' => [1, 2, $s0], 3 => fn($x) => $x + 1];\necho $m[\"q\"][1], \"\\n\";\n",
			"$f = function($x) use ($i0) { return $x + $i0; };\necho $f(2), \"\\n\";\n",
			"echo $i0 > 0 ? \"pos\" : ($i0 < 0 ? \"neg\" : \"zero\"), \"\\n\";\n",
			"echo \"v={$a0[0]} s=$s0 {$i0}th\", 'single $s0', \"\\n\";\n",
			"?>\n<ul>\n<?php foreach ([1, 2] as $k => $v) { ?><li><?php echo $k, '=', $v; ?></li>\n<?php } ?>\n</ul>\n",
		}
		k := 1 + r.Intn(4)
		for _, j := range r.Perm(len(tails))[:k] {
			if strings.HasSuffix(strings.TrimSpace(sb.String()), "</ul>") {
				sb.WriteString("<?php\n")
			}
			sb.WriteString(tails[j])
		}
		out = append(out, sb.String())
	}
	return out
}

var snippets = [][]byte{
	[]byte("$"), []byte("\""), []byte("'"), []byte("{"), []byte("("), []byte("["), []byte("<<<"), []byte("\\"),
	{0xe3}, {0xe3, 0x80}, []byte("<?php"), []byte("?>"), []byte("<<<EOT\n"), []byte("=>"), []byte("#["), []byte("/*"),
	[]byte("b'"), []byte("${"), []byte("{$"), []byte("->"), []byte("::"), []byte("..."), []byte("<"), []byte("`"),
}

var delimiters = []string{";", ",", ")", "]", "}", "(", "[", "{"}

// runnable: texts of the side-effect-free families may be executed when they are accepted.
func runnable(base string) bool {
	return strings.HasPrefix(base, "gen:") || strings.HasPrefix(base, "tmpl:")
}

var alphabet = []byte("$\"'{}()[]<>?\\/*#=-+.,;:&|!@%~^ab0_ \n\xe3\x80\xff")

func buildCases(e *lib.Env, bs []base) []cspec {
	var cs []cspec
	add := func(c cspec) { cs = append(cs, c) }

	// always-run list: every input that ever failed (witnesses of findings and of repaired defects)
	dir := filepath.Join(e.Verif, "findings", "C01", "inputs")
	if ents, err := os.ReadDir(dir); err == nil {
		var names []string
		for _, en := range ents {
			if !en.IsDir() {
				names = append(names, en.Name())
			}
		}
		sort.Strings(names)
		for _, n := range names {
			if b, err := os.ReadFile(filepath.Join(dir, n)); err == nil {
				add(cspec{ID: "regress:" + n, Fam: "regress", Base: -1, Op: "raw", Raw: b, Run: strings.HasPrefix(n, "run-")})
			}
		}
	}

	// (a) corpus and (b) generated programs: whole text, every token-boundary prefix, every
	// single-token deletion and duplication (complete in the thorough tier; in the quick tier a
	// seeded 10 % stratified sample per corpus file, everything for the generated programs)
	stride := e.Pick(10, 1)
	rs := e.Rand("stratify")
	for bi, b := range bs {
		if strings.HasPrefix(b.Name, "tmpl:") {
			continue
		}
		isGen := strings.HasPrefix(b.Name, "gen:")
		fam := "corpus"
		if isGen {
			fam = "gen"
		}
		add(cspec{ID: b.Name + ":whole", Fam: fam, Base: bi, Op: "whole", Run: isGen})
		st := stride
		if isGen {
			st = 1
		}
		for _, op := range []string{"prefix", "del", "dup"} {
			off := 0
			if st > 1 {
				off = rs.Intn(st)
			}
			n := len(b.Bounds)
			if op == "prefix" {
				n++ // the cut after the last token
			}
			for i := off; i < n; i += st {
				add(cspec{ID: fmt.Sprintf("%s:%s:%d", b.Name, op, i), Fam: fam, Base: bi, Op: op, I: i, Run: isGen})
			}
		}
	}

	// (a') construct templates (one per parser file / branch): whole text, every token-boundary
	// prefix, every single-token deletion and duplication, and every replacement of a token by
	// each delimiter — in place, and as the last token of the text. Complete in the thorough
	// tier; in the quick tier every prefix and deletion, a third of the duplications and one
	// seeded delimiter per token.
	rt := e.Rand("templates")
	for bi, b := range bs {
		if !strings.HasPrefix(b.Name, "tmpl:") {
			continue
		}
		add(cspec{ID: b.Name + ":whole", Fam: "tmpl", Base: bi, Op: "whole", Run: true})
		n := len(b.Bounds)
		for i := 0; i <= n; i++ {
			add(cspec{ID: fmt.Sprintf("%s:prefix:%d", b.Name, i), Fam: "tmpl", Base: bi, Op: "prefix", I: i, Run: true})
		}
		dupOff := rt.Intn(3)
		for i := 0; i < n; i++ {
			add(cspec{ID: fmt.Sprintf("%s:del:%d", b.Name, i), Fam: "tmpl", Base: bi, Op: "del", I: i, Run: true})
			if !e.Quick() || i%3 == dupOff {
				add(cspec{ID: fmt.Sprintf("%s:dup:%d", b.Name, i), Fam: "tmpl", Base: bi, Op: "dup", I: i, Run: true})
			}
			one, cutOne := rt.Intn(len(delimiters)), rt.Intn(2*len(delimiters))
			for di, dl := range delimiters {
				if !e.Quick() || di == one {
					add(cspec{ID: fmt.Sprintf("%s:sub:%d:%s", b.Name, i, dl), Fam: "tmpl", Base: bi, Op: "sub", I: i, Raw: []byte(dl), Run: true})
				}
				if !e.Quick() || di == cutOne {
					add(cspec{ID: fmt.Sprintf("%s:cutsub:%d:%s", b.Name, i, dl), Fam: "tmpl", Base: bi, Op: "cutsub", I: i, Raw: []byte(dl), Run: true})
				}
			}
		}
	}

	// (c) byte-level mutations of (a) and (b)
	rb := e.Rand("bytes")
	pick := func() int { return rb.Intn(len(bs)) }
	// truncation inside multi-byte characters
	type mb struct{ b, off int }
	var mbs []mb
	for bi, b := range bs {
		for i := 0; i < len(b.Src); {
			r, sz := utf8.DecodeRune(b.Src[i:])
			if r != utf8.RuneError && sz > 1 {
				for k := 1; k < sz; k++ {
					mbs = append(mbs, mb{bi, i + k})
				}
			}
			i += sz
		}
	}
	nmb := e.Pick(1200, 30000)
	if nmb >= len(mbs) {
		for _, m := range mbs {
			add(cspec{ID: fmt.Sprintf("%s:cut:%d", bs[m.b].Name, m.off), Fam: "bytes", Base: m.b, Op: "cut", I: m.off, Run: runnable(bs[m.b].Name)})
		}
	} else {
		for _, k := range rb.Perm(len(mbs))[:nmb] {
			m := mbs[k]
			add(cspec{ID: fmt.Sprintf("%s:cut:%d", bs[m.b].Name, m.off), Fam: "bytes", Base: m.b, Op: "cut", I: m.off, Run: runnable(bs[m.b].Name)})
		}
	}
	// insertion of a lexically dangerous snippet (in place, or as the last bytes of a truncation)
	for k := 0; k < e.Pick(3000, 50000); k++ {
		bi := pick()
		b := bs[bi]
		off := rb.Intn(len(b.Src) + 1)
		if len(b.Bounds) > 0 && rb.Intn(2) == 0 {
			t := b.Bounds[rb.Intn(len(b.Bounds))]
			off = t[rb.Intn(2)]
		}
		sn := snippets[rb.Intn(len(snippets))]
		op := "ins"
		if rb.Intn(2) == 0 {
			op = "insend"
		}
		add(cspec{ID: fmt.Sprintf("%s:%s:%d:%x", b.Name, op, off, sn), Fam: "bytes", Base: bi, Op: op, I: off, Raw: sn, Run: runnable(b.Name)})
	}
	// bit flips
	for k := 0; k < e.Pick(1200, 20000); k++ {
		bi := pick()
		b := bs[bi]
		off := rb.Intn(len(b.Src))
		bit := rb.Intn(8)
		add(cspec{ID: fmt.Sprintf("%s:flip:%d.%d", b.Name, off, bit), Fam: "bytes", Base: bi, Op: "flip", I: off, J: bit, Run: runnable(b.Name)})
	}
	// block repeats of token ranges
	for k := 0; k < e.Pick(300, 4000); k++ {
		bi := pick()
		b := bs[bi]
		if len(b.Bounds) < 4 {
			continue
		}
		span := 1 + rb.Intn(6)
		i := rb.Intn(len(b.Bounds) - span + 1)
		reps := []int{2, 3, 8, 40, 200}[rb.Intn(5)]
		s, en := b.Bounds[i][0], b.Bounds[i+span-1][1]
		if len(b.Src)+(en-s+1)*reps > maxInput {
			reps = 3
		}
		add(cspec{ID: fmt.Sprintf("%s:rep:%d+%dx%d", b.Name, i, span, reps), Fam: "bytes", Base: bi, Op: "rep", I: i, J: reps, Raw: []byte{byte(span)}, Run: runnable(b.Name)})
	}

	// nesting stressors (stack depth / rescans), depth up to 10^4
	for _, c := range nestCases(e) {
		add(c)
	}
	// enumerated families: HTML directive attributes, interpolation bodies, open-tag positions
	for _, c := range enumFamilies() {
		add(c)
	}

	// enumerations: all 1- and 2-byte strings, all 3-byte strings over a 40-byte alphabet
	re := e.Rand("enum")
	for a := 0; a < 256; a++ {
		add(cspec{ID: fmt.Sprintf("enum1:%02x", a), Fam: "enum", Base: -1, Op: "raw", Raw: []byte{byte(a)}})
	}
	if e.Quick() {
		for _, a := range alphabet {
			for _, b := range alphabet {
				add(cspec{ID: fmt.Sprintf("enum2:%02x%02x", a, b), Fam: "enum", Base: -1, Op: "raw", Raw: []byte{a, b}})
			}
		}
		for k := 0; k < 1500; k++ {
			a, b := byte(re.Intn(256)), byte(re.Intn(256))
			add(cspec{ID: fmt.Sprintf("enum2r:%d:%02x%02x", k, a, b), Fam: "enum", Base: -1, Op: "raw", Raw: []byte{a, b}})
		}
		for k := 0; k < 3000; k++ {
			s := []byte{alphabet[re.Intn(len(alphabet))], alphabet[re.Intn(len(alphabet))], alphabet[re.Intn(len(alphabet))]}
			add(cspec{ID: fmt.Sprintf("enum3r:%d:%x", k, s), Fam: "enum", Base: -1, Op: "raw", Raw: s})
		}
	} else {
		for a := 0; a < 256; a++ {
			for b := 0; b < 256; b++ {
				add(cspec{ID: fmt.Sprintf("enum2:%02x%02x", a, b), Fam: "enum", Base: -1, Op: "raw", Raw: []byte{byte(a), byte(b)}})
			}
		}
		for _, a := range alphabet {
			for _, b := range alphabet {
				for _, c := range alphabet {
					add(cspec{ID: fmt.Sprintf("enum3:%02x%02x%02x", a, b, c), Fam: "enum", Base: -1, Op: "raw", Raw: []byte{a, b, c}})
				}
			}
		}
	}
	// the same short strings in operand position of a few statement contexts
	ctxs := [][2]string{{"$a = ", ";"}, {"f(", ");"}, {"$a = [", "];"}, {"if (", ") { }"}, {"echo \"", "\";"}, {"class A { ", " }"}, {"$a = 1;\n", ""}}
	for ci, cx := range ctxs {
		for _, a := range alphabet {
			add(cspec{ID: fmt.Sprintf("ctx%d:%02x", ci, a), Fam: "enum", Base: -1, Op: "raw", Raw: []byte(cx[0] + string([]byte{a}) + cx[1])})
			if e.Quick() && re.Intn(4) != 0 {
				continue
			}
			for _, b := range alphabet {
				add(cspec{ID: fmt.Sprintf("ctx%d:%02x%02x", ci, a, b), Fam: "enum", Base: -1, Op: "raw", Raw: []byte(cx[0] + string([]byte{a, b}) + cx[1])})
			}
		}
	}

	// sort by base so that jobs carry few bases; ids are unique by construction, drop repeats
	seen := map[string]bool{}
	out := cs[:0]
	for _, c := range cs {
		if seen[c.ID] {
			continue
		}
		seen[c.ID] = true
		out = append(out, c)
	}
	sort.SliceStable(out, func(i, j int) bool { return out[i].Base < out[j].Base })
	return out
}

// nestCases builds open^d core close^d texts.
func nestCases(e *lib.Env) []cspec {
	type unit struct{ name, open, core, close string }
	units := []unit{
		{"paren", "(", "1", ")"},
		{"bracket", "[", "1", "]"},
		{"brace", "{", "", "}"},
		{"if", "if(1){", "echo 1;", "}"},
		{"call", "f(", "1", ")"},
		{"neg", "-", "1", ""},
		{"not", "!", "$a", ""},
		{"ternary", "1?", "1", ":0"},
		{"arrow", "fn($x)=>", "1", ""},
		{"closure", "function(){return ", "1", ";}"},
		{"index", "$a[", "0", "]"},
		{"interp", "\"{$a[", "0", "]}\""},
		{"concat", "$a.", "$a", ""},
		{"assign", "$a=", "1", ""},
		{"new", "new A(", "", ")"},
		{"arr-kv", "['k'=>", "1", "]"},
		{"arr-var-first", "[$a, ", "1", "]"},
		{"arr-2vars", "[$a, $b, ", "1", "]"},
		{"arr-3vars", "[$a, $b, $c, ", "1", "]"},
		{"arr-old-2vars", "array($a, $b, ", "1", ")"},
		{"list-2vars", "list($a, $b, ", "$c", ")"},
		{"call-2vars", "f($a, $b, ", "1", ")"},
		{"echo-2vars", "echo $a, $b, ", "2", ""},
		{"kv-var-first", "[$a => $b, $c => ", "1", "]"},
		{"obj-literal", "{a: ", "1", "}"},
		{"html-tag", "<div>", "x", "</div>"},
		{"html-if-tag", "<p if=\"$a\">", "x", "</p>"},
		{"namespace-block", "namespace A { ", "echo 1;", " }"},
		{"interp-nest", "\"{$a[\"", "k", "\"]}\""},
		{"echo-list", "echo 1, $a, ", "2", ""},
		{"call-var-first", "f($a, ", "1", ")"},
		{"openonly-paren", "(", "", ""},
		{"openonly-bracket", "[", "", ""},
		{"openonly-brace", "{", "", ""},
		{"closeonly", "", "", ")"},
		{"heredoc-open", "<<<A\n", "", ""},
		{"comment-open", "/*", "", ""},
		{"dollar", "$", "", ""},
		{"backslash", "\\", "", ""},
		{"lt", "<", "a", ">"},
		{"static-call", "A::b(", "", ")"},
		{"arrow-chain", "$a->b", "", ""},
		{"match", "match(1){1=>", "1", "}"},
		{"while", "while(0)", ";", ""},
		{"try", "try{", "", "}catch(E $e){}"},
		{"class", "class A{function f(){", "", "}}"},
	}
	depths := []int{10, 100, 1000, 10000}
	if e.Quick() {
		depths = []int{10, 100, 1000}
	}
	var cs []cspec
	for _, u := range units {
		for _, d := range depths {
			for _, pre := range []string{"<?php\n$x = ", "<?php\n"} {
				var bb bytes.Buffer
				bb.WriteString(pre)
				bb.WriteString(strings.Repeat(u.open, d))
				bb.WriteString(u.core)
				bb.WriteString(strings.Repeat(u.close, d))
				bb.WriteString(";\n")
				if bb.Len() > maxInput {
					continue
				}
				tag := "expr"
				if pre == "<?php\n" {
					tag = "stmt"
				}
				cs = append(cs, cspec{ID: fmt.Sprintf("nest:%s:%s:%d", u.name, tag, d), Fam: "nest", Base: -1, Op: "raw", Raw: append([]byte(nil), bb.Bytes()...), Deep: true})
			}
		}
	}
	// the quick tier still probes depth 10^4 for the plain bracket kinds
	if e.Quick() {
		for _, u := range units[:3] {
			s := "<?php\n$x = " + strings.Repeat(u.open, 10000) + u.core + strings.Repeat(u.close, 10000) + ";\n"
			cs = append(cs, cspec{ID: fmt.Sprintf("nest:%s:expr:10000", u.name), Fam: "nest", Base: -1, Op: "raw", Raw: []byte(s), Deep: true})
		}
	}
	_ = rand.Int
	return cs
}

// enumFamilies builds small enumerated input classes that token-level mutation of whole
// programs reaches only by luck:
//   - htmlattr: HTML elements whose directive attributes (if / else-if / else / for) are
//     missing a value, malformed, duplicated or misplaced, as a script-mode HTML statement, as
//     an HTML expression in PHP code and inside a <!DOCTYPE document (HTML lexer);
//   - interp: bodies of the three interpolation forms {$..} ${..} @{..} and of $var suffixes
//     inside double-quoted strings and heredocs, including empty and unterminated ones;
//   - strtail: literal / heredoc / HTML-text bodies that end exactly in an interpolation opener
//     or in a proper prefix of an interpolation form, LF and CRLF;
//   - tagpos: inline HTML made of invalid UTF-8 / case-changing runes in front of an opening
//     tag that sits in the last bytes of the text (offset arithmetic of the tag search).
func enumFamilies() []cspec {
	var cs []cspec
	add := func(fam, id, text string, run bool) {
		cs = append(cs, cspec{ID: fam + ":" + id, Fam: fam, Base: -1, Op: "raw", Raw: []byte(text), Run: run})
	}
	attrs := []string{
		`if`, `if=""`, `if="$a"`, `if=$a`, `if="$a >"`, `if="("`, `if='$a'`, `if="$a" if="$b"`, `if={$a}`, `if="`,
		`else`, `else=""`, `else="$a"`, `else-if`, `else-if=""`, `else-if="$a"`, `else-if="$a" else`,
		`for`, `for=""`, `for="$x"`, `for="$x in"`, `for="in $xs"`, `for="$x in $xs"`, `for="$i, $x in $xs"`, `for="$x of $xs"`, `for=$x`,
		`if="$a" for="$x in $xs"`, `for="$x in $xs" else`, `if else`, `class="c" if`, `if class="c"`, `:if="$a"`, `@click="f()"`, `{$a}`, `if="{$a}"`,
	}
	skeletons := []struct{ name, pre, post string }{
		{"first", `<div><p `, `>a</p><p>b</p></div>`},
		{"second", `<div><p if="$a">a</p><p `, `>b</p></div>`},
		{"third", `<div><p if="$a">a</p><p else-if="$b">b</p><p `, `>c</p><p>d</p></div>`},
		{"alone", `<p `, `>a</p>`},
		{"item", `<ul><li `, `>{$x}</li></ul>`},
		{"void", `<div><br `, `><input ` + "`" + `type="text"></div>`},
		{"selfclose", `<div><img src="a" `, `/><p>b</p></div>`},
	}
	wraps := []struct{ name, pre, post string }{
		{"script", "", "\n"},
		{"expr", "<?php\n$a = 1; $b = 0; $xs = [1, 2];\n$h = ", ";\necho 1;\n"},
		{"doctype", "<!DOCTYPE html>\n<html><body>\n", "\n</body></html>\n"},
	}
	for _, w := range wraps {
		for _, sk := range skeletons {
			post := strings.ReplaceAll(sk.post, "`", "")
			for ai, a := range attrs {
				add("htmlattr", fmt.Sprintf("%s:%s:%d", w.name, sk.name, ai), w.pre+sk.pre+a+post+w.post, true)
			}
		}
	}
	bodies := []string{
		`@{}`, `@{`, `@{ }`, `@{$a}`, `@{$a + }`, `@{1 +}`, `@{{}}`, `@{}}`, `@{;}`, `@{$a;}`, `@{@{$a}}`,
		`{$}`, `{$a`, `{$a[}`, `{$a[0}`, `{$a->}`, `{$a->b(}`, `{$a + }`, `{$a;}`, `{$ a}`, `{$$a}`, `{$a[}]}`, `{$a["k"]["q"}`,
		`${}`, `${a`, `${a[}`, `${a[0]}`, `${ }`, `${1}`, `${a + 1}`,
		`$a[`, `$a[0`, `$a[]`, `$a[k`, `$a->`, `$a->b->`, `$a[$b]`, `$a[-1]`, `$a->b[0]`, `$`, `$$`, `$1`, `\\{$a}`, `{\\$a}`, `$.SERVER(`, `$.SERVER($a)`,
	}
	for bi, b := range bodies {
		add("interp", fmt.Sprintf("dq:%d", bi), "<?php\n$a = [\"k\" => [\"q\" => 1], 1]; $b = 0;\necho \"a"+b+"b\";\n", true)
		add("interp", fmt.Sprintf("dq-assign:%d", bi), "<?php\n$a = 1;\n$s = \"x "+b+"\" . 'y';\necho 1;\n", true)
		add("interp", fmt.Sprintf("heredoc:%d", bi), "<?php\n$a = [1];\n$s = <<<EOT\nl "+b+" r\nEOT;\necho 1;\n", true)
		add("interp", fmt.Sprintf("html:%d", bi), "<div class=\"c\">t "+b+"</div>\n", true)
	}
	// strtail: string / heredoc / nowdoc / backtick / HTML-text bodies that END exactly in an
	// interpolation opener or in a proper prefix of a well-formed interpolation form (and bodies
	// that consist only of it): the look-ahead of the string splitter at the last runes of a body.
	forms := []string{
		`{$x}`, `{$x->y}`, `{$x["k"]}`, `{$x[0][1]}`, `{$x->m(1)}`, `{$x}{$y}`, `{$$x}`, `${x}`, `${x[0]}`, `@{$x + 1}`, `@{f()}`,
		`$x[0]`, `$x[k]`, `$x['k']`, `$x->y`, `$x->y->z`, `$$x`, `$.SERVER($x)`, `\\{$x}`, `\\$x`, `\\\\`, "{$\u53d8\u91cf}", "$\u53d8",
	}
	tailSet := map[string]bool{}
	var tails []string
	addTail := func(t string) {
		if !tailSet[t] {
			tailSet[t] = true
			tails = append(tails, t)
		}
	}
	for _, o := range []string{"$", "{", "{$", "${", "@", "@{", "$x", "$x[", "$x->", "{$x", "{$x->", "\\", "\\{", "\\$", "$.", "$.SERVER", "$.SERVER(", "{{", "{$$", "$$", "@{$", "}", "{}", "{$}"} {
		addTail(o)
	}
	for _, f := range forms {
		for i := 1; i <= len(f); i++ { // byte-level proper prefixes (and the whole form)
			addTail(f[:i])
		}
	}
	type wrap struct{ name, open, close string }
	for _, eol := range []struct{ name, nl string }{{"lf", "\n"}, {"crlf", "\r\n"}} {
		nl := eol.nl
		wrapsT := []wrap{
			{"sq", "$s = '", "';" + nl + "echo 1;" + nl},
			{"dq", "$s = \"", "\";" + nl + "echo 1;" + nl},
			{"dq-echo", "echo \"", "\", 1;" + nl},
			{"bt", "$s = `", "`;" + nl + "echo 1;" + nl},
			{"heredoc", "$s = <<<EOT" + nl, nl + "EOT;" + nl + "echo 1;" + nl},
			{"heredoc-q", "$s = <<<\"EOT\"" + nl, nl + "EOT;" + nl + "echo 1;" + nl},
			{"nowdoc", "$s = <<<'EOT'" + nl, nl + "EOT;" + nl + "echo 1;" + nl},
			{"bytes", "$s = b'", "';" + nl + "echo 1;" + nl},
		}
		for _, w := range wrapsT {
			for pi, pre := range []string{"", "Hello ", "a" + nl + "b "} {
				for ti, t := range tails {
					run := eol.name == "lf" && pi == 1
					add("strtail", fmt.Sprintf("%s:%s:%d:%d", eol.name, w.name, pi, ti), "<?php"+nl+"$x = [[1, 2], \"k\" => 1];"+nl+w.open+pre+t+w.close, run)
				}
			}
		}
		// HTML text and attribute values ending in the tail
		for ti, t := range tails {
			add("strtail", fmt.Sprintf("%s:html-text:%d", eol.name, ti), "<div class=\"c\">Hello "+t+"</div>"+nl, eol.name == "lf")
			add("strtail", fmt.Sprintf("%s:html-attr:%d", eol.name, ti), "<div title=\"Hello "+t+"\">x</div>"+nl, false)
			add("strtail", fmt.Sprintf("%s:doctype-text:%d", eol.name, ti), "<!DOCTYPE html>"+nl+"<html><body><p>"+t+"</p></body></html>"+nl, false)
		}
	}
	junk := []string{"\xff", "\xe3\x80", "\xc4\xb0", "\xe2\x84\xaa", "\xc3", "\xf0\x9f", "A\xff", "<\xff?", "<?\xff"}
	tagTails := []string{"<?php", "<?php ", "<?php 1;", "<?php echo 1;", "<?php echo 1; ?>x", "<?PHP echo 1;", "<?Php 1;", "<?php\n", "<?php ?>", "<?php echo 1; ?>\xff<?php 2;"}
	for ji, j := range junk {
		for _, k := range []int{1, 2, 3, 8, 40} {
			for ti, t := range tagTails {
				add("tagpos", fmt.Sprintf("%d:%d:%d", ji, k, ti), strings.Repeat(j, k)+t, false)
			}
		}
	}
	return cs
}
