package main

// In-process worker (child process of the driver). For every case of its job it calls the
// four entry points — lexer.Tokenize, lexer.TokenizeTemplate, parser.ParseString,
// parser.ParseFile(*.php) — under a logical step budget (verifhook.Step) and with recover(),
// and reports what came back. It logs BEGIN/END per case so that the driver can attribute a
// death of the process (stack overflow, fatal error, os.Exit, out of memory) to a case.

import (
	"bufio"
	"encoding/json"
	"fmt"
	"os"
	"path/filepath"
	"reflect"
	"runtime"
	"runtime/debug"
	"strconv"
	"strings"
	"sync/atomic"
	"syscall"
	"time"

	"github.com/php-any/origami/data"
	"github.com/php-any/origami/lexer"
	"github.com/php-any/origami/node"
	"github.com/php-any/origami/parser"
	oruntime "github.com/php-any/origami/runtime"
	"github.com/php-any/origami/std"
	"github.com/php-any/origami/std/php"
	"github.com/php-any/origami/verifhook"

	"verif/lib"
)

// ---------------------------------------------------------------------------------------
// the bound

// The bound on one entry-point call on n bytes, in logical steps (lexer main-loop iterations +
// parser current() calls, counted by the verifhook.Step hook):
//
//   - hard bound: at most B(n) = 40·(n+16)² steps. Quadratic because the parser legitimately
//     rescans (a `$a, $b, …` list is looked ahead for a multi-assignment at every element:
//     about 0.1·n² steps on a list of n bytes; the largest ratio steps/(n+16)² observed over
//     the complete corpus enumeration, the generated programs, all short strings and the
//     nesting stressors is below 0.4 and is recorded in the evidence);
//   - stall bound (parser entry points): never S(n) = 2000·(n+16) consecutive steps during
//     which the position of the top-level parser (exported Parser.StartPosition()) takes at
//     most 8 distinct values, nor 10 000 consecutive steps with that position more than 16
//     past the largest possible token index (n). "The parser position must strictly advance or
//     the parse must fail" is the property's own anchor; the longest such run observed on a
//     terminating parse is recorded in the evidence (max_stall_ratio, in units of n+16) and is
//     more than 100 times smaller;
//   - backtracking bound (parser entry points): the position of the top-level parser moves
//     backwards at most K(n) = 10·(n+16) times. The parser backtracks legitimately (a
//     `$a, …` list is parsed ahead and rewound once per element), about once per token at
//     most (at most 0.33 per byte for a flat `$a,$a,…` list; at most 0.1 per byte observed
//     over the corpus, generated and byte-mutated inputs, see max_backtrack_ratio_by_family
//     in the evidence; the nest family there includes terminating instances of the
//     exponential defect itself). Speculative parsing that nests (each level
//     parsing the rest twice) rewinds exponentially often and is caught here long before the
//     hard bound.
const (
	budgetC     = 40
	stallC      = 2000
	stallSpread = 8
	pastEndRun  = 10000
	backC       = 10
)

func budget(n int) int64 {
	m := float64(n + 16)
	return int64(budgetC * m * m)
}

func stallBudget(n int) int64 { return stallC * int64(n+16) }

const (
	cpuNetSeconds = 20      // CPU seconds (rusage) one case may use: net for loops that bypass both counters
	heapNetBytes  = 2 << 30 // live heap one case may reach (an input is at most 64 KiB)
	maxInput      = 64 << 10
)

// ---------------------------------------------------------------------------------------
// results

type eres struct {
	Entry string `json:"entry"`           // lex | lext | parse | parsef
	Out   string `json:"out"`             // ok | err | panic | steps | badresult
	Steps int64  `json:"steps"`           // lexer+parser steps of this call
	Back  int64  `json:"back,omitempty"`  // backward moves of the parser position
	Stall int64  `json:"stall,omitempty"` // longest run of steps with the parser position confined to <= 8 values
	Site  string `json:"site,omitempty"`  // panic site / non-advancing loop
	Kind  string `json:"kind,omitempty"`  // class of the panic value
	Msg   string `json:"msg,omitempty"`
}

// cres is written for every case that failed somewhere or that must be run afterwards.
type cres struct {
	ID       string `json:"id"`
	N        int    `json:"n"`
	Fail     []eres `json:"fail,omitempty"`
	Accepted bool   `json:"accepted,omitempty"` // ParseFile returned a program
	Net      string `json:"net,omitempty"`      // cpu | heap: the watchdog ended the process in this case
	Site     string `json:"site,omitempty"`
}

type wsummary struct {
	Summary    bool               `json:"summary"`
	Cases      int                `json:"cases"`
	Calls      int                `json:"calls"`
	Outcomes   map[string]int     `json:"outcomes"` // entry/out -> count
	Steps      [2]int64           `json:"steps"`    // lexer, parser
	MaxQuad    float64            `json:"max_quad"` // max steps/(n+16)²
	MaxQuadID  string             `json:"max_quad_id"`
	MaxLin     float64            `json:"max_lin"` // max steps/(n+16)
	MaxLinID   string             `json:"max_lin_id"`
	MaxLinBig  float64            `json:"max_lin_big"` // same, inputs of at least 256 bytes
	BigID      string             `json:"max_lin_big_id"`
	MaxStall   float64            `json:"max_stall"` // longest stall run / (n+16) of a terminating parse
	MaxStallID string             `json:"max_stall_id"`
	MaxBack    float64            `json:"max_back"` // backward moves / (n+16) of a terminating parse
	MaxBackID  string             `json:"max_back_id"`
	MaxCPUms   float64            `json:"max_cpu_ms"` // largest CPU time (rusage) of one case
	MaxCPUID   string             `json:"max_cpu_id"`
	ErrFrom    map[string]int     `json:"err_from"` // how diagnostics carried their position
	Fam        map[string][]int   `json:"fam"`      // family -> [cases, rejected-by-a-parser, accepted-by-both]
	FamCPUms   map[string]float64 `json:"fam_cpu_ms"`
	FamMaxQuad map[string]float64 `json:"fam_max_quad"`
	FamMaxBack map[string]float64 `json:"fam_max_back"`
	WholeRej   []string           `json:"whole_rej"` // unmodified corpus / generated texts that a parser entry point did not accept
}

type stepAbort struct {
	site   string
	chain  string // the callers of the site, innermost first (diagnosis only, not part of the key)
	steps  int64
	why    string
	reason string // bound | stalled | past-end | backtracking
}

// ---------------------------------------------------------------------------------------
// call sites

const modPrefix = "github.com/php-any/origami/"

// siteOf formats a runtime frame like lib.PanicSite does: "<pkgdir>/<file>.go:<pkg>.<func>".
func siteOf(fn, file string) string {
	rest := strings.TrimPrefix(fn, modPrefix)
	dir := rest
	if i := strings.LastIndex(rest, "/"); i >= 0 {
		// pkg path may have several elements: std/php.Foo
		j := strings.Index(rest[i:], ".")
		if j < 0 {
			j = len(rest) - i
		}
		dir = rest[:i+j]
	} else if j := strings.Index(rest, "."); j >= 0 {
		dir = rest[:j]
	}
	name := fn
	if i := strings.LastIndex(name, "/"); i >= 0 {
		name = name[i+1:]
	}
	return dir + "/" + filepath.Base(file) + ":" + name
}

func repoFrame(fn string) bool {
	return strings.HasPrefix(fn, modPrefix) && !strings.HasPrefix(fn, modPrefix+"verifhook")
}

// callerNames returns the function names of the calling goroutine, outermost first, with the
// file of each frame.
func callerFrames(skip int) (names, files []string) {
	pcs := make([]uintptr, 1<<15)
	k := runtime.Callers(skip+1, pcs)
	fr := runtime.CallersFrames(pcs[:k])
	for {
		f, more := fr.Next()
		names = append(names, f.Function)
		files = append(files, f.File)
		if !more {
			break
		}
	}
	for i, j := 0, len(names)-1; i < j; i, j = i+1, j-1 {
		names[i], names[j] = names[j], names[i]
		files[i], files[j] = files[j], files[i]
	}
	return
}

// pcBuf receives the sampled call stacks (innermost first): deep enough for the 10^4-level
// nesting stressors (about 15 frames per level).
var pcBuf = make([]uintptr, 1<<18)

func funcEntry(pc uintptr) uintptr {
	if f := runtime.FuncForPC(pc - 1); f != nil {
		return f.Entry()
	}
	return 0
}

func reversed(pcs []uintptr) []uintptr {
	out := make([]uintptr, len(pcs))
	for i, pc := range pcs {
		out[len(pcs)-1-i] = pc
	}
	return out
}

// symbolise turns return addresses (outermost first) into function names and files
// (outermost first, inlined frames expanded).
func symbolise(outer []uintptr) (names, files []string) {
	if len(outer) == 0 {
		return nil, nil
	}
	inner := make([]uintptr, len(outer))
	for i, pc := range outer {
		inner[len(outer)-1-i] = pc
	}
	fr := runtime.CallersFrames(inner)
	for {
		f, more := fr.Next()
		names = append(names, f.Function)
		files = append(files, f.File)
		if !more {
			break
		}
	}
	for i, j := 0, len(names)-1; i < j; i, j = i+1, j-1 {
		names[i], names[j] = names[j], names[i]
		files[i], files[j] = files[j], files[i]
	}
	return
}

// panicSite: innermost repository frame of the panicking goroutine (called from a deferred
// function while the panic unwinds, so the panicking frames are still on the stack).
func panicSite() string {
	names, files := callerFrames(1)
	for i := len(names) - 1; i >= 0; i-- {
		if repoFrame(names[i]) {
			return siteOf(names[i], files[i])
		}
	}
	return "unknown"
}

// loopSite picks, from the frames common to every sampled stack (outermost first), the
// innermost repository function: frames below it come and go while it spins, so it holds
// the loop that does not advance. current() itself is never the loop.
func loopSite(names, files []string) string {
	for i := len(names) - 1; i >= 0; i-- {
		if !repoFrame(names[i]) || strings.HasSuffix(names[i], ".(*Parser).current") {
			continue
		}
		return siteOf(names[i], files[i])
	}
	return "unknown"
}

// loopChain lists the innermost repository frames common to all samples, innermost first.
func loopChain(names []string) string {
	var out []string
	for i := len(names) - 1; i >= 0 && len(out) < 5; i-- {
		if !repoFrame(names[i]) || strings.HasSuffix(names[i], ".(*Parser).current") {
			continue
		}
		n := names[i]
		if j := strings.LastIndex(n, "/"); j >= 0 {
			n = n[j+1:]
		}
		out = append(out, n)
	}
	return strings.Join(out, " < ")
}

func lcp(a, b []string) int {
	n := 0
	for n < len(a) && n < len(b) && a[n] == b[n] {
		n++
	}
	return n
}

const abortSamples = 600

// stepState is the per-call state of the step handler.
type stepState struct {
	total   int64
	run     int64 // steps since the position last left the current set of <= stallSpread values
	maxRun  int64
	beyond  int64 // consecutive steps with the position past any possible token index
	back    int64 // number of times the position moved backwards
	rewound bool  // the position moved backwards between the previous step and this one
	set     [stallSpread]int
	nset    int
	lastPos int
}

var curStep *stepState

// installBudget arms the step handler for one entry-point call on n bytes; pos (may be nil)
// reads the top-level parser position. Once a bound is passed the handler samples the call
// stack at each further step; after abortSamples samples it panics with a sentinel naming
// the spinning function.
func installBudget(n int, pos func() int) {
	verifhook.ResetSteps()
	hard, stall, backMax := budget(n), stallBudget(n), int64(backC)*int64(n+16)
	st := &stepState{lastPos: -1 << 30}
	curStep = st
	var ref []uintptr // call stack of the first sample, outermost first
	m, loopSame, truncated, need := 0, false, false, abortSamples
	samples := 0
	rewindSites := map[string]int{}
	rewinds, sinceTrip := 0, 0
	why, reason := "", ""
	verifhook.SetStep(func(kind int, _ int64) {
		st.total++
		if pos != nil {
			p := pos()
			st.rewound = false
			if p != st.lastPos {
				if p < st.lastPos {
					st.back++
					st.rewound = true
				}
				st.lastPos = p
				found := false
				for i := 0; i < st.nset; i++ {
					if st.set[i] == p {
						found = true
						break
					}
				}
				if !found {
					if st.nset < stallSpread {
						st.set[st.nset] = p
						st.nset++
					} else {
						if st.run > st.maxRun {
							st.maxRun = st.run
						}
						st.run, st.nset = 0, 1
						st.set[0] = p
					}
				}
			}
			st.run++
			if p > n+16 {
				st.beyond++
			} else {
				st.beyond = 0
			}
		}
		if why == "" {
			switch {
			case st.total > hard:
				// name the symptom that goes with it, so that different defects at one site keep different keys
				why, reason = fmt.Sprintf("more than B(n)=%d steps", hard), "bound"
				switch {
				case st.beyond > 100:
					reason = "past-end"
					why += fmt.Sprintf(", the parser position (%d) is past the end of the token list", st.lastPos)
				case st.run > hard/4:
					reason = "stalled"
					why += fmt.Sprintf(", the last %d of them with the parser position confined to %d values", st.run, st.nset)
				case st.back > int64(n+16):
					reason = "backtracking"
					why += fmt.Sprintf(", the parser position was rewound %d times", st.back)
				}
			case st.run > stall:
				why, reason = fmt.Sprintf("%d consecutive steps (more than S(n)=%d) with the parser position confined to %d values", st.run, stall, st.nset), "stalled"
			case st.beyond > pastEndRun:
				why, reason = fmt.Sprintf("%d consecutive steps with the parser position (%d) past the end of the token list", st.beyond, st.lastPos), "past-end"
			case st.back > backMax:
				why, reason = fmt.Sprintf("the parser position was rewound %d times (more than K(n)=%d) within %d steps: nested speculative parsing", st.back, backMax, st.total), "backtracking"
			default:
				return
			}
		}
		if reason == "backtracking" {
			// The frames common to consecutive samples land on an arbitrary level of the nested
			// speculation. What identifies the defect is where parsing resumes after a rewind:
			// the function that calls current() first after the position moved backwards is the
			// construct whose list was parsed ahead (LbracketParser.Parse, EchoParser.Parse, …).
			if st.rewound {
				var small [24]uintptr
				k := runtime.Callers(2, small[:])
				nm, fl := symbolise(reversed(small[:k]))
				rewindSites[loopSite(nm, fl)]++
				rewinds++
			}
			sinceTrip++
			if rewinds >= 300 || sinceTrip > 20_000_000 {
				best, bn := "unknown", 0
				for site, c := range rewindSites {
					if c > bn || (c == bn && site < best) {
						best, bn = site, c
					}
				}
				panic(stepAbort{site: best, chain: fmt.Sprintf("(most frequent resumption point after %d rewinds)", rewinds), steps: st.total, why: why, reason: reason})
			}
			return
		}
		k := runtime.Callers(2, pcBuf)
		if samples == 0 {
			// reference sample, outermost first
			ref = make([]uintptr, k)
			for x := 0; x < k; x++ {
				ref[x] = pcBuf[k-1-x]
			}
			m, loopSame = len(ref), false
			truncated = k == len(pcBuf)
			if k > 2000 {
				// unwinding a very deep stack hundreds of times would itself take seconds
				if need = abortSamples * 2000 / k; need < 20 {
					need = 20
				}
			}
		} else if !truncated {
			// number of outer frames this sample shares with the reference (same call sites);
			// the first frame that differs still counts when it is the same function (that
			// function is on the stack throughout and merely stands at another of its lines)
			d := 0
			for d < len(ref) && d < k && ref[d] == pcBuf[k-1-d] {
				d++
			}
			same := d < len(ref) && d < k && funcEntry(ref[d]) == funcEntry(pcBuf[k-1-d])
			if d < m {
				m, loopSame = d, same
			} else if d == m {
				loopSame = loopSame && same
			}
		}
		samples++
		if samples >= need {
			keep := m
			if loopSame && keep < len(ref) {
				keep++
			}
			if truncated {
				keep = len(ref) // deeper than the buffer: name the innermost frame of the first sample
			}
			names, files := symbolise(ref[:keep])
			chain := loopChain(names)
			if truncated {
				chain = "(call stack deeper than the sampling buffer) " + chain
			}
			panic(stepAbort{site: loopSite(names, files), chain: chain, steps: st.total, why: why, reason: reason})
		}
	})
}

func panicKind(r any) (kind, msg string) {
	msg = fmt.Sprint(r)
	if e, ok := r.(error); ok {
		msg = e.Error()
	}
	switch {
	case strings.Contains(msg, "index out of range"):
		kind = "index-out-of-range"
	case strings.Contains(msg, "slice bounds out of range"):
		kind = "slice-bounds"
	case strings.Contains(msg, "nil pointer dereference"):
		kind = "nil-deref"
	case strings.Contains(msg, "interface conversion"):
		kind = "interface-conversion"
	case strings.Contains(msg, "nil map"):
		kind = "nil-map"
	case strings.Contains(msg, "divide by zero"):
		kind = "divide-by-zero"
	default:
		if _, ok := r.(runtime.Error); ok {
			kind = "runtime-error"
		} else {
			kind = "explicit-panic"
		}
	}
	if len(msg) > 200 {
		msg = msg[:200]
	}
	return
}

// ---------------------------------------------------------------------------------------
// the four entry points

func newVM() (*oruntime.VM, *parser.Parser) {
	p := parser.NewParser()
	vm := oruntime.NewVM(p)
	std.Load(vm)
	php.Load(vm)
	v := vm.(*oruntime.VM)
	v.SetThrowControl(func(acl data.Control) {})
	return v, p
}

func isNilIface(x any) bool {
	if x == nil {
		return true
	}
	v := reflect.ValueOf(x)
	switch v.Kind() {
	case reflect.Ptr, reflect.Map, reflect.Slice, reflect.Func, reflect.Interface, reflect.Chan:
		return v.IsNil()
	}
	return false
}

// positioned reports whether a rejected parse carries a position, and how.
func positioned(ctl data.Control, lines int, path string) (string, bool) {
	var from data.From
	how := ""
	if tv, ok := ctl.(*data.ThrowValue); ok && tv != nil {
		how = "throw"
		if tv.Error != nil {
			from = tv.Error.From
		}
	} else if gf, ok := ctl.(node.GetFrom); ok && !isNilIface(gf) {
		how = "getfrom"
		from = gf.GetFrom()
	} else {
		return fmt.Sprintf("control %T carries no position", ctl), false
	}
	if isNilIface(from) {
		return fmt.Sprintf("%s: control %T has a nil position", how, ctl), false
	}
	if from.GetSource() != path {
		// raised inside the interpreter (e.g. by the Go implementation of an annotation) and
		// positioned there: whether the location is the right one is C18's subject, not C01's
		return how + "-elsewhere", true
	}
	line, col := from.GetStartPosition()
	if line < 0 || col < 0 || line > lines+1 {
		return fmt.Sprintf("%s: position line=%d col=%d outside the text (%d lines)", how, line, col, lines), false
	}
	return how, true
}

var entryNames = []string{"lex", "lext", "parse", "parsef"}

// runEntry performs one entry-point call.
func runEntry(entry string, text []byte, dir string) (res eres, accepted bool, how string) {
	res.Entry = entry
	var p *parser.Parser
	var pos func() int
	if entry == "parse" || entry == "parsef" {
		_, p = newVM()
		pos = p.StartPosition
	}
	installBudget(len(text), pos)
	defer func() {
		r := recover()
		res.Steps = verifhook.Steps(verifhook.StepLexer) + verifhook.Steps(verifhook.StepParser)
		verifhook.SetStep(nil)
		if st := curStep; st != nil {
			res.Stall = st.maxRun
			if st.run > res.Stall {
				res.Stall = st.run
			}
			res.Back = st.back
		}
		if r == nil {
			return
		}
		if sa, ok := r.(stepAbort); ok {
			res.Out, res.Site, res.Steps, res.Kind = "steps", sa.site, sa.steps, sa.reason
			res.Msg = fmt.Sprintf("%s for n=%d bytes; frames common to all samples: %s", sa.why, len(text), sa.chain)
			return
		}
		res.Out = "panic"
		res.Site = panicSite()
		res.Kind, res.Msg = panicKind(r)
	}()
	switch entry {
	case "lex":
		toks := lexer.NewLexer().Tokenize(string(text))
		_ = toks
		res.Out = "ok"
	case "lext":
		toks := lexer.NewLexer().TokenizeTemplate(string(text))
		_ = toks
		res.Out = "ok"
	case "parse", "parsef":
		var prog *node.Program
		var ctl data.Control
		path := filepath.Join(dir, "in.zy")
		if entry == "parse" {
			prog, ctl = p.ParseString(string(text), path)
		} else {
			path = filepath.Join(dir, "in.php")
			if err := os.WriteFile(path, text, 0o644); err != nil {
				res.Out, res.Msg = "skip", err.Error()
				return
			}
			prog, ctl = p.ParseFile(path)
		}
		switch {
		case prog != nil && isNilIface(ctl):
			res.Out = "ok"
			accepted = true
		case prog == nil && !isNilIface(ctl):
			h, ok := positioned(ctl, strings.Count(string(text), "\n")+1, path)
			if ok {
				res.Out = "err"
				how = h
			} else {
				res.Out = "badresult"
				res.Kind = "unpositioned:" + msgSlug(ctl.AsString())
				res.Msg = h + ": " + oneLine(ctl.AsString(), 120)
			}
		case prog == nil:
			res.Out, res.Kind, res.Msg = "badresult", "neither", "neither a program nor a diagnostic was returned"
		default:
			res.Out, res.Kind, res.Msg = "badresult", "both", "a program and a diagnostic were returned: "+oneLine(ctl.AsString(), 120)
		}
	}
	return
}

func oneLine(s string, n int) string {
	s = strings.ReplaceAll(s, "\n", " | ")
	if len(s) > n {
		s = s[:n]
	}
	return s
}

// ---------------------------------------------------------------------------------------
// watchdog (CPU time and heap of the current case — never wall clock)

var (
	curCase   atomic.Value // string
	caseCPU0  atomic.Int64 // process CPU (ns) when the current case began
	netOut    *os.File
	netLogger *os.File
)

// procCPU is the CPU time (ns) consumed so far by the OS thread that runs the cases (the
// worker locks its case loop to one thread): read from /proc so that the watchdog goroutine
// can see it, and so that GC worker threads and a loaded machine do not inflate it.
var caseTid atomic.Int64

func procCPU() int64 {
	tid := caseTid.Load()
	if tid != 0 {
		if b, err := os.ReadFile(fmt.Sprintf("/proc/self/task/%d/stat", tid)); err == nil {
			// fields after the ")" that closes comm: state is field 3; utime, stime are 14, 15
			if i := strings.LastIndexByte(string(b), ')'); i >= 0 {
				f := strings.Fields(string(b[i+1:]))
				if len(f) > 12 {
					ut, _ := strconv.ParseInt(f[11], 10, 64)
					st, _ := strconv.ParseInt(f[12], 10, 64)
					return (ut + st) * int64(time.Second) / 100 // USER_HZ = 100
				}
			}
		}
	}
	var ru syscall.Rusage
	if syscall.Getrusage(syscall.RUSAGE_SELF, &ru) != nil {
		return 0
	}
	return ru.Utime.Nano() + ru.Stime.Nano()
}

func lockCaseThread() {
	runtime.LockOSThread()
	caseTid.Store(int64(syscall.Gettid()))
}

// mainStack extracts the function list (outermost first) of the goroutine that runs the
// cases from a full goroutine dump.
func mainStack() []string {
	buf := make([]byte, 8<<20)
	buf = buf[:runtime.Stack(buf, true)]
	for _, blk := range strings.Split(string(buf), "\n\n") {
		if !strings.Contains(blk, "main.runCase") {
			continue
		}
		var fns []string
		lines := strings.Split(blk, "\n")
		for i := 1; i+1 < len(lines); i++ {
			// a frame is a function line followed by a tab-indented location line; deep stacks
			// carry an "...N frames elided..." line in the middle
			if strings.HasPrefix(lines[i], "\t") || strings.HasPrefix(lines[i], "...") || !strings.HasPrefix(lines[i+1], "\t") {
				continue
			}
			fn := strings.TrimSpace(lines[i])
			loc := strings.TrimSpace(lines[i+1])
			if j := strings.LastIndex(fn, "("); j > 0 {
				fn = fn[:j]
			}
			if j := strings.Index(loc, " "); j > 0 {
				loc = loc[:j]
			}
			if j := strings.LastIndex(loc, ":"); j > 0 {
				loc = loc[:j]
			}
			fns = append(fns, fn+"\x00"+loc)
		}
		for i, j := 0, len(fns)-1; i < j; i, j = i+1, j-1 {
			fns[i], fns[j] = fns[j], fns[i]
		}
		return fns
	}
	return nil
}

func netSite() string {
	var common []string
	for s := 0; s < 15; s++ {
		st := mainStack()
		if st == nil {
			continue
		}
		if common == nil {
			common = st
		} else {
			common = common[:lcp(common, st)]
		}
		time.Sleep(3 * time.Millisecond)
	}
	for i := len(common) - 1; i >= 0; i-- {
		fn, file, _ := strings.Cut(common[i], "\x00")
		if repoFrame(fn) {
			return siteOf(fn, file)
		}
	}
	return "unknown"
}

func watchdog() {
	var ms runtime.MemStats
	for {
		time.Sleep(250 * time.Millisecond)
		id, _ := curCase.Load().(string)
		if id == "" {
			continue
		}
		net := ""
		if procCPU()-caseCPU0.Load() > int64(cpuNetSeconds)*int64(time.Second) {
			net = "cpu"
		} else {
			runtime.ReadMemStats(&ms)
			if ms.HeapAlloc > heapNetBytes {
				net = "heap"
			}
		}
		if net == "" {
			continue
		}
		if id2, _ := curCase.Load().(string); id2 != id {
			continue
		}
		site := netSite()
		b, _ := json.Marshal(cres{ID: id, Net: net, Site: site})
		netOut.Write(append(b, '\n'))
		fmt.Fprintf(netLogger, "NET %s %s %s\n", net, site, id)
		os.Exit(7)
	}
}

// ---------------------------------------------------------------------------------------

type caseOut struct {
	res      cres
	outcomes [4]string
	steps    [4]int64
	stalls   [4]int64
	backs    [4]int64
	hows     []string
}

func runCase(c cspec, text []byte, dir string) (o caseOut) {
	o.res.ID = c.ID
	o.res.N = len(text)
	tt := templateText(text)
	for i, en := range entryNames {
		in := text
		if en == "lext" || en == "parsef" {
			in = tt
		}
		if en == "parsef" && o.outcomes[2] == "steps" {
			// the script-mode parse of this input already ran away; the template-mode parse of the
			// same text would only burn the same budget again
			o.outcomes[i] = "skip"
			continue
		}
		r, acc, how := runEntry(en, in, dir)
		o.outcomes[i] = r.Out
		o.steps[i] = r.Steps
		o.stalls[i] = r.Stall
		o.backs[i] = r.Back
		if how != "" {
			o.hows = append(o.hows, how)
		}
		if r.Out != "ok" && r.Out != "err" && r.Out != "skip" {
			o.res.Fail = append(o.res.Fail, r)
		}
		if en == "parsef" && acc {
			o.res.Accepted = true
		}
	}
	return
}

func workerMain(args []string) {
	if len(args) < 4 {
		fmt.Fprintln(os.Stderr, "usage: worker <job> <out> <log> <start>")
		os.Exit(2)
	}
	jb, err := os.ReadFile(args[0])
	if err != nil {
		fmt.Fprintln(os.Stderr, err)
		os.Exit(2)
	}
	var j job
	if err := json.Unmarshal(jb, &j); err != nil {
		fmt.Fprintln(os.Stderr, err)
		os.Exit(2)
	}
	start, _ := strconv.Atoi(args[3])
	out, _ := os.OpenFile(args[1], os.O_CREATE|os.O_WRONLY|os.O_APPEND, 0o644)
	logf, _ := os.OpenFile(args[2], os.O_CREATE|os.O_WRONLY|os.O_APPEND, 0o644)
	hashes, _ := os.OpenFile(args[1]+".nontriv", os.O_CREATE|os.O_WRONLY|os.O_APPEND, 0o644)
	hw := bufio.NewWriter(hashes)
	netOut, netLogger = out, logf
	dir, _ := os.Getwd()

	// backstop only: a runaway allocation must not take the machine down
	_ = syscall.Setrlimit(syscall.RLIMIT_AS, &syscall.Rlimit{Cur: 6 << 30, Max: 6 << 30})
	debug.SetMemoryLimit(3 << 30)
	data.CompileMode = true
	data.WriteOutput = func(string) {}
	lockCaseThread()
	go watchdog()

	sum := wsummary{Summary: true, Outcomes: map[string]int{}, ErrFrom: map[string]int{}, Fam: map[string][]int{}, FamCPUms: map[string]float64{}, FamMaxQuad: map[string]float64{}, FamMaxBack: map[string]float64{}}
	for i := start; i < len(j.Cases); i++ {
		c := j.Cases[i]
		text := materialise(j.Bases, c)
		if len(text) > maxInput {
			fmt.Fprintf(logf, "SKIP %d %s\n", i, c.ID)
			continue
		}
		fmt.Fprintf(logf, "BEGIN %d %s\n", i, c.ID)
		caseCPU0.Store(procCPU())
		curCase.Store(c.ID)
		o := runCase(c, text, dir)
		curCase.Store("")
		fmt.Fprintf(logf, "END %d\n", i)
		ms := float64(procCPU()-caseCPU0.Load()) / 1e6
		if ms > sum.MaxCPUms {
			sum.MaxCPUms, sum.MaxCPUID = ms, c.ID
		}
		sum.FamCPUms[c.Fam] += ms

		sum.Cases++
		f := sum.Fam[c.Fam]
		if f == nil {
			f = make([]int, 3)
		}
		f[0]++
		rejected := o.outcomes[2] == "err" || o.outcomes[3] == "err"
		if rejected {
			f[1]++
			hw.WriteString(lib.Hash(string(text)) + "\n")
		}
		if o.outcomes[2] == "ok" && o.outcomes[3] == "ok" {
			f[2]++
		} else if c.Op == "whole" {
			sum.WholeRej = append(sum.WholeRej, c.ID+"="+o.outcomes[2]+"/"+o.outcomes[3])
		}
		sum.Fam[c.Fam] = f
		for _, h := range o.hows {
			sum.ErrFrom[h]++
		}
		for k, en := range entryNames {
			sum.Calls++
			sum.Outcomes[en+"/"+o.outcomes[k]]++
			if o.outcomes[k] == "steps" {
				continue
			}
			n := float64(len(text) + 16)
			if k == 1 || k == 3 {
				n = float64(len(templateText(text)) + 16)
			}
			if br := float64(o.backs[k]) / n; br > sum.FamMaxBack[c.Fam] {
				sum.FamMaxBack[c.Fam] = br
			}
			if q := float64(o.steps[k]) / (n * n); q > sum.FamMaxQuad[c.Fam] {
				sum.FamMaxQuad[c.Fam] = q
			}
			if br := float64(o.backs[k]) / n; br > sum.MaxBack {
				sum.MaxBack, sum.MaxBackID = br, c.ID+"#"+en
			}
			if sr := float64(o.stalls[k]) / n; sr > sum.MaxStall {
				sum.MaxStall, sum.MaxStallID = sr, c.ID+"#"+en
			}
			st := float64(o.steps[k])
			if q := st / (n * n); q > sum.MaxQuad {
				sum.MaxQuad, sum.MaxQuadID = q, c.ID+"#"+en
			}
			if l := st / n; l > sum.MaxLin {
				sum.MaxLin, sum.MaxLinID = l, c.ID+"#"+en
			}
			if l := st / n; n >= 256 && l > sum.MaxLinBig {
				sum.MaxLinBig, sum.BigID = l, c.ID+"#"+en
			}
		}
		sum.Steps[0] += 0
		if len(o.res.Fail) > 0 || (c.Run && o.res.Accepted) {
			b, _ := json.Marshal(o.res)
			out.Write(append(b, '\n'))
		}
	}
	hw.Flush()
	b, _ := json.Marshal(sum)
	out.Write(append(b, '\n'))
	fmt.Fprintf(logf, "DONE\n")
}

// ---------------------------------------------------------------------------------------
// phase 0: token boundaries of the bases

func boundsMain(args []string) {
	if len(args) < 3 {
		os.Exit(2)
	}
	jb, err := os.ReadFile(args[0])
	if err != nil {
		os.Exit(2)
	}
	var bs []base
	if err := json.Unmarshal(jb, &bs); err != nil {
		os.Exit(2)
	}
	logf, _ := os.OpenFile(args[2], os.O_CREATE|os.O_WRONLY|os.O_APPEND, 0o644)
	start := 0
	if len(args) > 3 {
		start, _ = strconv.Atoi(args[3])
	}
	// results are appended one line per base so that a death loses nothing
	out, _ := os.OpenFile(args[1], os.O_CREATE|os.O_WRONLY|os.O_APPEND, 0o644)
	for i := start; i < len(bs); i++ {
		fmt.Fprintf(logf, "BEGIN %d %s\n", i, bs[i].Name)
		b := base{Name: bs[i].Name}
		func() {
			installBudget(len(bs[i].Src), nil)
			defer func() {
				verifhook.SetStep(nil)
				if r := recover(); r != nil {
					b.Err = fmt.Sprint(r)
					if sa, ok := r.(stepAbort); ok {
						b.Err = "step budget at " + sa.site
					}
				}
			}()
			var toks []lexer.Token
			if strings.Contains(string(bs[i].Src), "<?php") {
				toks = lexer.NewLexer().TokenizeTemplate(string(bs[i].Src))
			} else {
				toks = lexer.NewLexer().Tokenize(string(bs[i].Src))
			}
			var raw [][2]int
			for _, t := range toks {
				raw = append(raw, [2]int{t.Start(), t.End()})
			}
			b.Bounds = sanitiseBounds(raw, len(bs[i].Src))
		}()
		jb, _ := json.Marshal(struct {
			I int  `json:"i"`
			B base `json:"b"`
		}{i, b})
		out.Write(append(jb, '\n'))
		fmt.Fprintf(logf, "END %d\n", i)
	}
	fmt.Fprintf(logf, "DONE\n")
}

// oneMain runs the four entry points on the bytes of one file (replay aid).
func oneMain(args []string) {
	if len(args) < 1 {
		os.Exit(2)
	}
	text, err := os.ReadFile(args[0])
	if err != nil {
		fmt.Fprintln(os.Stderr, err)
		os.Exit(2)
	}
	dir, _ := os.MkdirTemp("", "c01one")
	defer os.RemoveAll(dir)
	data.CompileMode = true
	data.WriteOutput = func(string) {}
	netOut, netLogger = os.Stdout, os.Stderr
	lockCaseThread()
	go watchdog()
	caseCPU0.Store(procCPU())
	curCase.Store(args[0])
	tt := templateText(text)
	for _, en := range entryNames {
		in := text
		if en == "lext" || en == "parsef" {
			in = tt
		}
		r, acc, how := runEntry(en, in, dir)
		fmt.Printf("%-6s out=%-9s steps=%-8d accepted=%v %s %s %s %s\n", en, r.Out, r.Steps, acc, how, r.Site, r.Kind, r.Msg)
		if len(args) > 1 && r.Out == "panic" {
			// second argument: print the stack of the panic
			func() {
				defer func() {
					if recover() != nil {
						fmt.Println(string(debug.Stack()))
					}
				}()
				installBudget(1<<20, nil)
				switch en {
				case "lex":
					lexer.NewLexer().Tokenize(string(in))
				case "lext":
					lexer.NewLexer().TokenizeTemplate(string(in))
				default:
					_, p := newVM()
					p.ParseString(string(in), "x.zy")
				}
			}()
		}
	}
}

// msgSlug reduces a diagnostic text to a short stable identifier (letters only; quoted or
// numeric detail varies with the input).
func msgSlug(m string) string {
	var sb strings.Builder
	for _, r := range m {
		switch {
		case r == ' ' || r == ':' || r == '(' || r == ',':
			if sb.Len() > 0 && !strings.HasSuffix(sb.String(), "-") {
				sb.WriteByte('-')
			}
		case r >= '0' && r <= '9' || r == '\'' || r == '"':
		case r > ' ':
			sb.WriteRune(r)
		}
		if sb.Len() >= 48 {
			break
		}
	}
	return strings.Trim(sb.String(), "-")
}
