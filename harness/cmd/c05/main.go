// C05 — first matching catch, finally exactly once, uncaught errors fail the process.
// Differential monitor over generated try/catch/finally/throw programs (reference:
// verif/ref), an enumerated exit-path x handler-position family, and the exit-status
// clause observed on real CLI processes (uncaught throwables; sources the parser rejects).
package main

import (
	"fmt"
	"os"
	"path/filepath"
	"sort"
	"strings"
	"sync"
	"time"

	"verif/diffprog"
	"verif/gen"
	"verif/lib"
	"verif/ori"
)

type tcase struct {
	name string
	p    *gen.Program
}

func main() {
	if len(os.Args) == 3 && os.Args[1] == "parsecheck" {
		// child mode: does the repository's own parser reject this file? (the parser may
		// crash or never return on garbage — that is C01's business — so the premise is
		// established in a child process under a watchdog)
		if parseRejects(os.Args[2]) {
			fmt.Println("REJECTED")
		} else {
			fmt.Println("ACCEPTED")
		}
		return
	}
	e := lib.Init("C05", "exploration")
	e.RunScriptWitnesses()
	e.Extra("regression_inputs_of_repaired_defects", e.RunRegressionScripts())
	off := func(f string) bool { return e.Quarantined(f) }

	var cases []tcase
	skippedQ := 0
	add := func(name string, p *gen.Program) {
		for f := range p.Features {
			if off(f) {
				skippedQ++
				return
			}
		}
		cases = append(cases, tcase{name, p})
	}
	for _, c := range exitPathFamily() {
		add(c.name, c.p)
	}
	for _, c := range recursionFamily() {
		add(c.name, c.p)
	}
	for _, nc := range diffprog.LoopExitFamily(true) {
		add("nest:"+nc.Name, nc.Prog)
	}
	nEnum := len(cases)
	nRand := e.Pick(400, 20000)
	r := e.Rand("programs")
	for i := 0; i < nRand; i++ {
		cfg := gen.Config{MaxDepth: 2 + r.Intn(4), Budget: 15 + r.Intn(45), Exceptions: true, ThrowBias: r.Intn(8), Disabled: off}
		cases = append(cases, tcase{fmt.Sprintf("rand:%d", i), gen.Generate(r, cfg)})
	}

	var mu sync.Mutex
	var distinct lib.DistinctCounter
	skips := map[string]int{}
	covSum := map[string]int{}
	executed, uncaughtRuns, minimized := 0, 0, 0
	var samples []any
	var okSources []string // sources of programs that ran fine: bases for the planted-syntax-error clause
	lib.ParallelMap(len(cases), 0, func(i int) {
		c := cases[i]
		v := diffprog.Compare(e, e.Origami(), c.p)
		mu.Lock()
		defer mu.Unlock()
		if v.Skip != "" {
			skips[v.Skip]++
			return
		}
		if v.Incon != "" {
			e.Inconclusive(c.name + ": " + v.Incon)
			return
		}
		executed++
		src := gen.Source(c.p)
		nontrivial := false
		for k, n := range v.Exp.Cov {
			covSum[k] += n
			if k == "catch" || k == "finally" || strings.HasPrefix(k, "finally.with.pending") || k == "rethrow" {
				nontrivial = true
			}
		}
		if v.Exp.Uncaught != nil {
			uncaughtRuns++
			nontrivial = true
		}
		if nontrivial {
			distinct.Add(lib.Hash(src))
		}
		if v.Bad == "" && i >= nEnum && len(okSources) < 40 {
			okSources = append(okSources, src)
		}
		if len(samples) < 3 && nontrivial && i >= nEnum {
			samples = append(samples, map[string]any{"case": c.name, "source": src, "stdout": v.Exp.Out, "uncaught": v.Exp.Uncaught != nil})
		}
		if v.Bad != "" {
			p := c.p
			if minimized < 6 {
				minimized++
				mu.Unlock()
				p = diffprog.Minimize(e, e.Origami(), p, v.Bad)
				v2 := diffprog.Compare(e, e.Origami(), p)
				mu.Lock()
				if v2.Bad == v.Bad {
					v = v2
				}
			}
			e.Violation("C05:"+v.Bad+":"+lib.Hash(gen.Source(p)), c.name+": "+v.Bad+": "+v.Detail, "php", diffprog.Replay(p, v))
		}
	})

	// ---- exit-status clause for sources that do not parse ----
	rejected, planted := syntaxClause(e, okSources)

	if len(samples) == 0 && len(cases) > 0 {
		samples = append(samples, map[string]any{"case": cases[0].name, "source": gen.Source(cases[0].p)})
	}
	e.Extra("enumerated_family", nEnum)
	e.Extra("enumerated_skipped_by_quarantine", skippedQ)
	e.Extra("random_programs", nRand)
	e.Extra("outside_domain_skipped", skips)
	e.Extra("reference_coverage_counters", covSum)
	e.Extra("runs_ending_in_uncaught_throwable", uncaughtRuns)
	e.Extra("planted_syntax_errors", planted)
	e.Extra("planted_rejected_by_parser_and_checked_for_exit_status", rejected)
	e.Assume("reference interpreter verif/ref implements PHP try/catch/finally semantics",
		"the class of interpreter-raised errors (division by zero, undefined function) is not fixed by the statement: only catch(\\Throwable) is asserted for them; programs that would test them against Exception/Error are skipped",
		"a source counts as 'does not parse' when the repository's own ParseFile rejects it in-process")
	e.Finish(lib.Coverage{
		Evaluations:        executed + planted,
		DistinctNontrivial: distinct.N(),
		Rule:               "enumerated (exit path x handler position x finally form x enclosing construct) family + loop-exit-through-try family + seeded random programs with exception hierarchies (<=5 classes, <=2 interfaces), nested to depth 5; distinct = source hash; non-trivial = the reference run matched a catch, ran a finally, rethrew, or ended uncaught",
		Samples:            samples,
	})
}

// ---------------------------------------------------------------------------------

func echo(s string) gen.Stmt { return diffprog.EchoS(s) }

// exitPathFamily enumerates exit path x handler position x finally form x construct.
func exitPathFamily() []tcase {
	var out []tcase
	paths := []string{"fall", "return", "break", "continue", "throw", "runtime", "rethrow"}
	handlers := []string{"same", "outer", "caller", "none"}
	finals := []string{"none", "plain", "return"}
	constructs := []string{"plain", "foreach", "for", "function", "function+for"}
	classes := []gen.ClassDecl{{Name: "I0", Interface: true}, {Name: "E0", Extends: "Exception"}, {Name: "E1", Extends: "E0", Implements: []string{"I0"}}, {Name: "E2", Extends: "Exception"}}
	for _, path := range paths {
		for _, h := range handlers {
			for _, fin := range finals {
				for _, con := range constructs {
					inFunc := strings.HasPrefix(con, "function")
					inLoop := con == "foreach" || con == "for" || con == "function+for"
					if (path == "break" || path == "continue") && !inLoop {
						continue
					}
					if path == "return" && !inFunc {
						continue
					}
					if fin == "return" && !inFunc {
						continue
					}
					if h == "caller" && !inFunc {
						continue
					}
					throws := path == "throw" || path == "runtime" || path == "rethrow"
					if !throws && h != "same" {
						continue // handler position only matters for throwing paths
					}
					p := &gen.Program{Features: map[string]bool{"try": true}, Classes: classes}
					// innermost try
					var body []gen.Stmt
					body = append(body, echo("t1"))
					switch path {
					case "return":
						body = append(body, &gen.Return{E: &gen.IntLit{V: 5}})
					case "break":
						body = append(body, &gen.Break{Level: 1})
					case "continue":
						body = append(body, &gen.Continue{Level: 1})
					case "throw", "rethrow":
						body = append(body, &gen.Throw{Class: "E1", Msg: &gen.StrLit{S: "boom"}})
					case "runtime":
						p.Features["runtimeerr"] = true
						body = append(body, &gen.RuntimeErr{Kind: "mod0"})
					}
					if path == "fall" {
						body = append(body, echo("t2"))
					}
					inner := &gen.Try{Body: body}
					catchT := "I0" // matches E1 through an interface of the class itself
					if path == "runtime" {
						catchT = "\\Throwable"
					}
					switch {
					case path == "rethrow":
						p.Features["rethrow"] = true
						inner.Catches = append(inner.Catches,
							gen.Catch{Types: []string{"E2"}, Var: "e8", Body: []gen.Stmt{echo("wrong")}},
							gen.Catch{Types: []string{"E0"}, Var: "e1", Body: []gen.Stmt{echo("c-rethrow"), &gen.Rethrow{Var: "e1"}}})
					case h == "same" && throws:
						inner.Catches = append(inner.Catches,
							gen.Catch{Types: []string{"E2"}, Var: "e8", Body: []gen.Stmt{echo("wrong")}},
							gen.Catch{Types: []string{catchT}, Var: "e1", Body: []gen.Stmt{echo("c-same")}},
							gen.Catch{Types: []string{"\\Throwable"}, Var: "e9", Body: []gen.Stmt{echo("too-late")}})
					case throws:
						// a non-matching catch only
						inner.Catches = append(inner.Catches, gen.Catch{Types: []string{"E2"}, Var: "e8", Body: []gen.Stmt{echo("wrong")}})
					}
					switch fin {
					case "plain":
						p.Features["finally"] = true
						inner.HasFinally = true
						inner.Finally = []gen.Stmt{echo("f")}
					case "return":
						p.Features["finally"] = true
						p.Features["finally.return"] = true
						inner.HasFinally = true
						inner.Finally = []gen.Stmt{echo("f"), &gen.Return{E: &gen.IntLit{V: 9}}}
					}
					if len(inner.Catches) == 0 && !inner.HasFinally {
						inner.HasFinally = true
						inner.Finally = []gen.Stmt{echo("f0")}
						p.Features["finally"] = true
					}
					var mid []gen.Stmt
					if h == "outer" || path == "rethrow" && h == "same" {
						outerT := "E0"
						if path == "runtime" {
							outerT = "\\Throwable"
						}
						mid = []gen.Stmt{&gen.Try{Body: []gen.Stmt{inner, echo("after-inner")}, Catches: []gen.Catch{{Types: []string{outerT}, Var: "e2", Body: []gen.Stmt{echo("c-outer")}}}, HasFinally: true, Finally: []gen.Stmt{echo("f-outer")}}}
						p.Features["finally"] = true
					} else {
						mid = []gen.Stmt{inner, echo("after-inner")}
					}
					mid = append([]gen.Stmt{echo("in")}, mid...)
					mid = append(mid, echo("tail"))
					var blk []gen.Stmt
					if inLoop {
						kind := "for"
						if con == "foreach" {
							kind = "foreach"
						}
						l, _ := diffprog.MkLoop(kind, "1", 2, mid)
						p.Features[kind] = true
						blk = []gen.Stmt{l, echo("end")}
					} else {
						blk = append(mid, echo("end"))
					}
					if inFunc {
						blk = append(blk, &gen.Return{E: &gen.IntLit{V: 1}})
						f := &gen.Func{Name: "fx", Ret: gen.TInt, Body: blk}
						p.Funcs = []*gen.Func{f}
						call := &gen.Echo{Args: []gen.Expr{&gen.StrLit{S: "ret="}, &gen.Call{Fn: "fx", T: gen.TInt}, diffprog.Nl()}}
						if h == "caller" {
							p.Main = []gen.Stmt{&gen.Try{Body: []gen.Stmt{call}, Catches: []gen.Catch{{Types: []string{"\\Throwable"}, Var: "e3", Body: []gen.Stmt{echo("c-caller")}}}}, echo("done")}
						} else {
							p.Main = []gen.Stmt{call, echo("done")}
						}
					} else {
						p.Main = append(blk, echo("done"))
					}
					out = append(out, tcase{fmt.Sprintf("path:%s/%s/fin=%s/%s", path, h, fin, con), p})
					if h == "same" && throws && path != "rethrow" {
						// the same program with the matching catch clause's body emptied: the
						// exception is still handled (swallowed), later clauses are not tried
						q := &gen.Program{Features: map[string]bool{"try": true, "catch.empty": true}, Classes: classes, Funcs: p.Funcs, Main: p.Main}
						for f := range p.Features {
							q.Features[f] = true
						}
						emptied := *inner
						emptied.Catches = append([]gen.Catch{}, inner.Catches...)
						emptied.Catches[1].Body = nil
						swapTry(q, inner, &emptied)
						out = append(out, tcase{fmt.Sprintf("path:%s/%s/fin=%s/%s/emptycatch", path, h, fin, con), q})
					}
				}
			}
		}
	}
	return out
}

// ---------------------------------------------------------------------------------

var faults = []string{
	"$x = ;",
	"echo 1);",
	"if ($a > 1 {",
	"function (",
	"$x = [1, 2;",
	"}",
	"class {",
	"foreach ($a as) { }",
}

// syntaxClause plants one syntax error into sources that are known to run fine. When the
// repository's own parser rejects the result, the CLI must print a diagnostic and exit
// non-zero. Returns (#rejected and checked, #planted).
func syntaxClause(e *lib.Env, bases []string) (int, int) {
	if len(bases) == 0 {
		return 0, 0
	}
	r := e.Rand("syntax")
	n := e.Pick(60, 600)
	type pc struct {
		src, fault string
		line       int
	}
	var pcs []pc
	for i := 0; i < n; i++ {
		base := bases[r.Intn(len(bases))]
		lines := strings.Split(base, "\n")
		at := 1 + r.Intn(len(lines)-1)
		f := faults[r.Intn(len(faults))]
		nl := append(append(append([]string{}, lines[:at]...), f), lines[at:]...)
		pcs = append(pcs, pc{strings.Join(nl, "\n"), f, at + 1})
	}
	dir := filepath.Join(e.Scratch, "syntax")
	_ = os.MkdirAll(dir, 0o755)
	rejected := 0
	var toRun []int
	var mu sync.Mutex
	self, _ := os.Executable()
	lib.ParallelMap(len(pcs), 0, func(i int) {
		path := filepath.Join(dir, fmt.Sprintf("s%d.php", i))
		_ = os.WriteFile(path, []byte(pcs[i].src), 0o644)
		res := lib.RunProc(lib.ProcSpec{Argv: []string{self, "parsecheck", path}, Dir: dir, Timeout: 30 * time.Second})
		if strings.Contains(res.Stdout, "REJECTED") {
			mu.Lock()
			toRun = append(toRun, i)
			mu.Unlock()
		}
	})
	sort.Ints(toRun)
	lib.ParallelMap(len(toRun), 0, func(k int) {
		i := toRun[k]
		path := filepath.Join(dir, fmt.Sprintf("s%d.php", i))
		res := lib.RunProc(lib.ProcSpec{Argv: []string{e.Origami(), path}, Dir: dir, Timeout: 60 * time.Second})
		mu.Lock()
		defer mu.Unlock()
		if res.TimedOut || res.Err != nil {
			e.Inconclusive("syntax clause: watchdog")
			return
		}
		rejected++
		what := ""
		if crash, w := lib.GoCrash(res); crash {
			what = "crash: " + w
		} else if res.Exit == 0 {
			what = "exit status 0 for a source the parser rejects"
		} else if strings.TrimSpace(res.Stderr) == "" {
			what = "no diagnostic on stderr for a source the parser rejects"
		}
		if what != "" {
			e.Violation("C05:syntax:"+pcs[i].fault, fmt.Sprintf("planted %q at line %d: %s", pcs[i].fault, pcs[i].line, what), "php", []byte(pcs[i].src))
		}
	})
	return rejected, len(pcs)
}

func parseRejects(path string) (rej bool) {
	defer func() {
		if r := recover(); r != nil {
			rej = false // a parser crash is C01's business
		}
	}()
	// same construction as the CLI: parser + VM with the standard libraries loaded
	_, p := ori.NewVM()
	_, acl := p.ParseFile(path)
	return acl != nil
}

// swapTry returns (in q) a deep-enough copy of the program in which the try statement
// `old` is replaced by `nw`; every statement list on the path is copied, so the original
// program is left untouched.
func swapTry(q *gen.Program, old, nw *gen.Try) {
	var rw func(ss []gen.Stmt) []gen.Stmt
	rw = func(ss []gen.Stmt) []gen.Stmt {
		out := make([]gen.Stmt, len(ss))
		for i, s := range ss {
			switch s := s.(type) {
			case *gen.Try:
				if s == old {
					out[i] = nw
					continue
				}
				c := *s
				c.Body = rw(s.Body)
				out[i] = &c
			case *gen.For:
				c := *s
				c.Body = rw(s.Body)
				out[i] = &c
			case *gen.Foreach:
				c := *s
				c.Body = rw(s.Body)
				out[i] = &c
			default:
				out[i] = s
			}
		}
		return out
	}
	q.Main = rw(q.Main)
	var fs []*gen.Func
	for _, f := range q.Funcs {
		c := *f
		c.Body = rw(f.Body)
		fs = append(fs, &c)
	}
	q.Funcs = fs
}

// recursionFamily: a control (return / throw / continue) is pending in one activation of
// a try statement while its finally or catch block re-enters the same function and runs
// the same statements again — per-activation state kept on an AST node would be clobbered.
func recursionFamily() []tcase {
	var out []tcase
	classes := []gen.ClassDecl{{Name: "E0", Extends: "Exception"}, {Name: "E1", Extends: "E0"}}
	n := &gen.Var{Name: "n", T: gen.TInt}
	str := func(s string) gen.Expr { return &gen.StrLit{S: s} }
	cat := func(a, b gen.Expr) gen.Expr { return &gen.Bin{Op: ".", L: a, R: b, T: gen.TStr} }
	odd := &gen.Bin{Op: "==", L: &gen.Bin{Op: "%", L: n, R: &gen.IntLit{V: 2}, T: gen.TInt}, R: &gen.IntLit{V: 1}, T: gen.TBool}
	pos := &gen.Bin{Op: ">", L: n, R: &gen.IntLit{V: 0}, T: gen.TBool}
	self := func() gen.Expr {
		return &gen.Call{Fn: "w", Args: []gen.Expr{&gen.Bin{Op: "-", L: n, R: &gen.IntLit{V: 1}, T: gen.TInt}}, T: gen.TStr}
	}
	child := func(tag string) gen.Stmt {
		return &gen.If{Cond: pos, Then: []gen.Stmt{&gen.Echo{Args: []gen.Expr{str(tag), n, str("->"), self(), diffprog.Nl()}}}}
	}
	mk := func(name string, body []gen.Stmt) {
		body = append(body, &gen.Return{E: cat(str("end"), n)})
		f := &gen.Func{Name: "w", Params: []gen.Param{{V: n}}, Ret: gen.TStr, Body: body, Recursive: true}
		p := &gen.Program{Features: map[string]bool{"try": true, "finally": true, "recursion": true}, Classes: classes, Funcs: []*gen.Func{f}}
		for _, d := range []int64{0, 1, 2, 3} {
			p.Main = append(p.Main, &gen.Echo{Args: []gen.Expr{str("top:"), &gen.Call{Fn: "w", Args: []gen.Expr{&gen.IntLit{V: d}}, T: gen.TStr}, diffprog.Nl()}})
		}
		out = append(out, tcase{"recursion:" + name, p})
	}
	throwOdd := &gen.If{Cond: odd, Then: []gen.Stmt{&gen.Throw{Class: "E1", Msg: cat(str("odd"), n)}}}
	// A: return pending from try or from catch; finally recurses
	mk("return-pending/finally-recurses", []gen.Stmt{&gen.Try{
		Body:       []gen.Stmt{throwOdd, &gen.Return{E: cat(str("try"), n)}},
		Catches:    []gen.Catch{{Types: []string{"E0"}, Var: "e1", Body: []gen.Stmt{&gen.Return{E: cat(cat(str("catch"), n), &gen.GetMessage{V: "e1"})}}}},
		HasFinally: true, Finally: []gen.Stmt{diffprog.EchoS("F", n), child("child")}}})
	// B: catch body recurses before it returns (the caught object must survive the inner activations)
	mk("catch-recurses", []gen.Stmt{&gen.Try{
		Body:       []gen.Stmt{&gen.Throw{Class: "E1", Msg: cat(str("m"), n)}},
		Catches:    []gen.Catch{{Types: []string{"E1"}, Var: "e1", Body: []gen.Stmt{child("in-catch"), &gen.Return{E: cat(str("caught:"), &gen.GetMessage{V: "e1"})}}}},
		HasFinally: true, Finally: []gen.Stmt{diffprog.EchoS("F", n)}}})
	// C: throw pending (no catch here); finally recurses; caller catches
	mk("throw-pending/finally-recurses", []gen.Stmt{&gen.Try{
		Body: []gen.Stmt{&gen.Try{
			Body:       []gen.Stmt{throwOdd, diffprog.EchoS("even", n)},
			HasFinally: true, Finally: []gen.Stmt{diffprog.EchoS("F", n), child("child")}}},
		Catches: []gen.Catch{{Types: []string{"E0"}, Var: "e2", Body: []gen.Stmt{&gen.Return{E: cat(str("outer:"), &gen.GetMessage{V: "e2"})}}}}}})
	// D: inside a loop: continue / return pending, finally recurses, finally overrides at depth 0
	loopBody := []gen.Stmt{&gen.Try{
		Body: []gen.Stmt{
			&gen.If{Cond: &gen.Bin{Op: "==", L: &gen.Var{Name: "v1", T: gen.TInt}, R: &gen.IntLit{V: 1}, T: gen.TBool}, Then: []gen.Stmt{&gen.Return{E: cat(str("k1@"), n)}}},
			&gen.Continue{Level: 1}},
		HasFinally: true, Finally: []gen.Stmt{
			&gen.If{Cond: &gen.Bin{Op: "&&", L: pos, R: &gen.Bin{Op: "==", L: &gen.Var{Name: "v1", T: gen.TInt}, R: &gen.IntLit{V: 1}, T: gen.TBool}, T: gen.TBool}, Then: []gen.Stmt{&gen.Echo{Args: []gen.Expr{str("nested:"), self(), diffprog.Nl()}}}},
			&gen.If{Cond: &gen.Bin{Op: "&&", L: &gen.Bin{Op: "==", L: n, R: &gen.IntLit{V: 0}, T: gen.TBool}, R: &gen.Bin{Op: "==", L: &gen.Var{Name: "v1", T: gen.TInt}, R: &gen.IntLit{V: 1}, T: gen.TBool}, T: gen.TBool}, Then: []gen.Stmt{&gen.Return{E: str("override@0")}}},
		}}}
	mk("loop/continue-and-return-pending", []gen.Stmt{&gen.Foreach{Src: &gen.ArrLit{Elems: []gen.Expr{&gen.IntLit{V: 0}, &gen.IntLit{V: 1}}}, ValVar: "v1", Body: loopBody}})
	return out
}
