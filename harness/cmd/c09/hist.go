package main

// Offline checkers over a recorded client-boundary history of one channel.

import (
	"fmt"
	"regexp"
	"sort"
	"strings"
	"time"

	"github.com/anishathalye/porcupine"
)

type viol struct {
	Key  string `json:"key"`
	What string `json:"what"`
}

var nonKey = regexp.MustCompile(`[^a-z0-9]+`)

func panicClass(msg string) string {
	m := strings.ToLower(msg)
	for _, known := range []string{"send on closed channel", "close of closed channel", "close of nil channel", "all goroutines are asleep", "nil pointer dereference", "index out of range"} {
		if strings.Contains(m, known) {
			return strings.ReplaceAll(known, " ", "-")
		}
	}
	m = nonKey.ReplaceAllString(m, "-")
	if len(m) > 40 {
		m = m[:40]
	}
	return strings.Trim(m, "-")
}

func panicKey(site, msg string) string {
	return "panic@" + site + "/" + panicClass(msg)
}

type histResult struct {
	Viol         []viol
	Linearizable string // "", "ok", "illegal", "unknown", "skipped"
}

func sender(v int64) int64 { return v / 1_000_000 }

// checkHistory applies the direct checkers and, for short complete histories, the
// linearizability check. finalDone: the harness's final client closed the channel and
// drained it until a receive reported closed-and-empty. stuck: goroutines that are blocked
// inside the channel code although the process is quiescent after that final phase.
func checkHistory(cfg config, h []opRec, stuck string, withPorcupine bool) histResult {
	var res histResult
	add := func(key, format string, a ...any) {
		for _, v := range res.Viol {
			if v.Key == key {
				return
			}
		}
		res.Viol = append(res.Viol, viol{key, fmt.Sprintf(format, a...)})
	}
	// 1. crashes. In the interpreter the first panic kills the process: what the clients
	// had observed up to that instant is still checked, everything later is dropped.
	crashAt := int64(0)
	for _, o := range h {
		if o.Panic != "" {
			// how the crashed operation relates to close: a panic in an operation that
			// overlaps a close is a different defect from one in an operation called after
			// close had returned (or with no close at all)
			rel := "no-close"
			for _, c := range h {
				if c.Op != opClose || c.Call == o.Call {
					continue
				}
				if c.Ret != 0 && c.Ret < o.Call {
					rel = "after-close-returned"
					break
				}
				if c.Call < o.PanicAt {
					rel = "overlapping-close"
				}
			}
			add(panicKey(o.Site, o.Panic)+"/"+rel, "Go panic %q in %s %s (call@%d, %s): in the interpreter this kills the process", o.Panic, cfg.name(o.G), o.Op, o.Call, rel)
			if crashAt == 0 || o.PanicAt < crashAt {
				crashAt = o.PanicAt
			}
		}
	}
	if crashAt != 0 {
		var cut []opRec
		for _, o := range h {
			if o.Call > crashAt {
				continue
			}
			if o.Ret > crashAt || o.Panic != "" {
				o.Ret, o.OK, o.Val = 0, false, 0
			}
			o.Panic = ""
			cut = append(cut, o)
		}
		h = cut
		withPorcupine = false
		stuck = ""
	}
	sent := map[int64]opRec{}
	for _, o := range h {
		if o.Op == opSend {
			sent[o.Arg] = o
		}
	}
	var recvs, closes []opRec
	got := map[int64][]opRec{}
	for _, o := range h {
		if o.Bad != "" {
			add("malformed-result/"+o.Op, "%s: %s", o.String(cfg), o.Bad)
		}
		switch o.Op {
		case opRecv:
			if o.Ret != 0 {
				recvs = append(recvs, o)
				if o.OK {
					got[o.Val] = append(got[o.Val], o)
				}
			}
		case opClose:
			closes = append(closes, o)
		}
	}
	// 2. nothing is received that was not sent; a send that reported failure delivers nothing
	for v, rs := range got {
		s, ok := sent[v]
		if !ok {
			add("phantom-value", "%s delivers %d, which nobody sent", rs[0].String(cfg), v)
			continue
		}
		if s.Ret != 0 && !s.OK {
			add("delivered-failed-send", "%s reported failure, yet %s delivers the value", s.String(cfg), rs[0].String(cfg))
		}
		if len(rs) > 1 {
			add("duplicate-delivery", "value %d is delivered %d times: %s and %s", v, len(rs), rs[0].String(cfg), rs[1].String(cfg))
		}
	}
	// 3. every value whose send reported success is received (decided only once the final
	// client has drained the closed channel)
	finalDone := false
	for _, o := range h {
		if o.G == -1 && o.Op == opRecv && o.Ret != 0 && !o.OK {
			finalDone = true
		}
	}
	if finalDone && stuck == "" && crashAt == 0 {
		var vals []int64
		for v := range sent {
			vals = append(vals, v)
		}
		sort.Slice(vals, func(i, j int) bool { return vals[i] < vals[j] })
		for _, v := range vals {
			s := sent[v]
			if s.Ret != 0 && s.OK && len(got[v]) == 0 {
				add("lost-value", "%s reported success but the value is never received, although the channel was closed and drained to null afterwards", s.String(cfg))
			}
		}
	}
	// 4. per-sender order
	byG := map[int][]opRec{}
	for _, r := range recvs {
		if r.OK {
			byG[r.G] = append(byG[r.G], r)
		}
	}
	for _, rs := range byG {
		lastOf := map[int64]opRec{}
		for _, r := range rs { // in program order of that receiver
			if p, ok := lastOf[sender(r.Val)]; ok && p.Val > r.Val {
				add("order/per-receiver", "%s then %s: one receiver sees two values of one sender in the wrong order", p.String(cfg), r.String(cfg))
			}
			lastOf[sender(r.Val)] = r
		}
	}
	for a, ra := range got {
		for b, rb := range got {
			if sender(a) == sender(b) && a < b && rb[0].Ret < ra[0].Call {
				add("order/global", "%s returned before %s was called, but %d was sent before %d by the same sender", rb[0].String(cfg), ra[0].String(cfg), a, b)
			}
		}
	}
	// 5. after close. The channel is known to be closed once a close has returned, a send
	// has reported failure or a receive has reported closed-and-empty: a send called after
	// that instant must not report success.
	for _, s := range sent {
		if s.Ret == 0 || !s.OK {
			continue
		}
		for _, c := range closes {
			if c.Ret != 0 && s.Call > c.Ret {
				add("after-close/send-succeeded", "%s was called after %s had returned and reported success", s.String(cfg), c.String(cfg))
			}
		}
		for _, f := range sent {
			if f.Ret != 0 && !f.OK && s.Call > f.Ret {
				add("after-close/send-succeeded", "%s was called after %s had reported failure (closed) and reported success", s.String(cfg), f.String(cfg))
			}
		}
		for _, r := range recvs {
			if !r.OK && s.Call > r.Ret {
				add("after-close/send-succeeded", "%s was called after %s had reported closed-and-empty and reported success", s.String(cfg), r.String(cfg))
			}
		}
	}
	for _, r := range recvs {
		if r.OK {
			continue
		}
		started := false
		for _, c := range closes {
			if c.Call < r.Ret {
				started = true
			}
		}
		if !started {
			add("null-without-close", "%s reports closed-and-empty although no close had been called", r.String(cfg))
		}
		for _, r2 := range recvs {
			if r2.OK && r2.Call > r.Ret {
				add("null-then-value", "%s reported closed-and-empty, yet the later %s still delivers a value", r.String(cfg), r2.String(cfg))
			}
		}
	}
	// 6. quiescent but blocked after the final close
	if stuck != "" {
		var kinds []string
		for _, o := range h {
			if o.Ret == 0 && o.Panic == "" {
				kinds = append(kinds, o.Op)
			}
		}
		sort.Strings(kinds)
		kinds = uniq(kinds)
		add("stuck-after-close/"+strings.Join(kinds, "+"), "after the final client's close (and drain) the process is quiescent with %s still blocked inside the channel code; open operations: %s", stuck, openOps(cfg, h))
	}
	// 7. linearizability against per-sender unbounded FIFO queues with close
	if crashAt != 0 {
		res.Linearizable = "skipped-crash"
	} else if withPorcupine && len(res.Viol) == 0 && stuck == "" {
		switch checkLinearizable(h) {
		case porcupine.Ok:
			res.Linearizable = "ok"
		case porcupine.Illegal:
			res.Linearizable = "illegal"
			add("not-linearizable/fifo-with-close", "the history has no sequential witness against one unbounded FIFO queue per sender with close (send ok => not closed, append; send fail => closed; recv v => v is the head of its sender's queue; recv null => closed and all queues empty)")
		default:
			res.Linearizable = "unknown"
		}
	} else {
		res.Linearizable = "skipped"
	}
	return res
}

func uniq(s []string) []string {
	var out []string
	for i, x := range s {
		if i == 0 || x != s[i-1] {
			out = append(out, x)
		}
	}
	return out
}

func openOps(cfg config, h []opRec) string {
	var s []string
	for _, o := range h {
		if o.Ret == 0 && o.Panic == "" {
			s = append(s, o.String(cfg))
		}
	}
	return strings.Join(s, "; ")
}

// ---------------------------------------------------------------------------------
// porcupine model

// The sequential specification is exactly what the statement demands: one FIFO queue per
// sender (values of one sender in the order sent; no order is demanded between senders)
// with close. It is weaker than a Go channel (which is also FIFO across senders and
// bounded), so every history of a correct channel of any capacity has a witness.
type qState struct {
	q      [4]string // per sender: one byte per queued value (index into the history's value table)
	closed bool
}

type qIn struct {
	op string
	s  int  // sender slot
	v  byte // value index
}

type qOut struct {
	ok bool
	s  int
	v  byte
}

var fifoModel = porcupine.Model{
	Init: func() any { return qState{} },
	Step: func(st, in, out any) (bool, any) {
		s, i, o := st.(qState), in.(qIn), out.(qOut)
		switch i.op {
		case opSend:
			if o.ok {
				if s.closed {
					return false, s
				}
				s.q[i.s] += string([]byte{i.v})
				return true, s
			}
			return s.closed, s
		case opRecv:
			if o.ok {
				q := s.q[o.s]
				if len(q) == 0 || q[0] != o.v {
					return false, s
				}
				s.q[o.s] = q[1:]
				return true, s
			}
			return s.closed && s.q == [4]string{}, s
		default: // close
			s.closed = true
			return true, s
		}
	},
	Equal: func(a, b any) bool { return a.(qState) == b.(qState) },
	DescribeOperation: func(in, out any) string {
		return fmt.Sprintf("%v -> %v", in, out)
	},
}

var linCache = map[string]porcupine.CheckResult{}

func checkLinearizable(h []opRec) porcupine.CheckResult {
	idx := map[int64]byte{}
	id := func(v int64) byte {
		if b, ok := idx[v]; ok {
			return b
		}
		b := byte(len(idx) + 1)
		idx[v] = b
		return b
	}
	slot := func(v int64) int { return int(sender(v)) & 3 }
	var sb strings.Builder
	ops := make([]porcupine.Operation, 0, len(h))
	for _, o := range h {
		if o.Ret == 0 {
			return porcupine.Unknown
		}
		var in qIn
		var out qOut
		switch o.Op {
		case opSend:
			in, out = qIn{opSend, slot(o.Arg), id(o.Arg)}, qOut{ok: o.OK}
		case opRecv:
			in = qIn{op: opRecv}
			out = qOut{ok: o.OK}
			if o.OK {
				out.s, out.v = slot(o.Val), id(o.Val)
			}
		default:
			in = qIn{op: opClose}
		}
		fmt.Fprintf(&sb, "%d%s%d,%d,%d,%v,%d;", o.G, o.Op[:1], in.v, o.Call, o.Ret, out.ok, out.v)
		ops = append(ops, porcupine.Operation{ClientId: o.G + 1, Input: in, Call: o.Call, Output: out, Return: o.Ret})
	}
	key := sb.String()
	if r, ok := linCache[key]; ok {
		return r
	}
	r := porcupine.CheckOperationsTimeout(fifoModel, ops, 20*time.Second)
	if len(linCache) < 200000 {
		linCache[key] = r
	}
	return r
}

const (
	porcupineOk      = porcupine.Ok
	porcupineIllegal = porcupine.Illegal
)
