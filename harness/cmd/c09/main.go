// Command c09 decides property C09 (a Channel delivers each value exactly once, in sender
// order, under any schedule; close is safe against concurrent send/receive).
//
//	c09                  driver (run by check.sh)
//	c09 worker <job>     layer 1: explores the schedules of one configuration (JSON job, JSON result on stdout)
//	c09 replay <file>    re-executes a recorded layer-1 schedule verbosely
//
// Layer 1 drives std/channel.(*Channel) through its Go API under a controlled scheduler
// (sched.go, explore.go) and checks every recorded history (hist.go). Layer 2 runs
// generated producer/consumer/closer scripts on the race-detector build of the CLI with
// seeded rescheduling at the repository's yield points (script.go).
package main

import (
	"encoding/json"
	"fmt"
	"os"
	"runtime"
	"sort"
	"strings"
	"sync"
	"time"

	"verif/lib"
)

func main() {
	if len(os.Args) > 1 {
		switch os.Args[1] {
		case "worker":
			workerMain(os.Args[2:])
			return
		case "replay":
			replayMain(os.Args[2:])
			return
		}
	}
	driver()
}

func workerMain(args []string) {
	if len(args) != 1 {
		fmt.Fprintln(os.Stderr, "usage: c09 worker <job json>")
		os.Exit(3)
	}
	var j job
	if err := json.Unmarshal([]byte(args[0]), &j); err != nil {
		fmt.Fprintln(os.Stderr, err)
		os.Exit(3)
	}
	// the scheduler releases one goroutine at a time; one P makes the hand-over cheap
	runtime.GOMAXPROCS(1)
	res := runJob(j)
	b, _ := json.Marshal(res)
	fmt.Println(string(b))
}

func replayMain(args []string) {
	if len(args) != 1 {
		fmt.Fprintln(os.Stderr, "usage: c09 replay <file>")
		os.Exit(3)
	}
	b, err := os.ReadFile(args[0])
	if err != nil {
		fmt.Fprintln(os.Stderr, err)
		os.Exit(3)
	}
	for _, line := range strings.Split(string(b), "\n") {
		if !strings.HasPrefix(line, "case ") {
			continue
		}
		var c struct {
			Cfg     config `json:"cfg"`
			Choices []int  `json:"choices"`
		}
		if err := json.Unmarshal([]byte(strings.TrimPrefix(line, "case ")), &c); err != nil {
			fmt.Fprintln(os.Stderr, err)
			os.Exit(3)
		}
		runtime.GOMAXPROCS(1)
		x, exact := replayChoices(c.Cfg, c.Choices)
		fmt.Println("configuration:", c.Cfg)
		fmt.Println("schedule realised:", strings.Join(x.trace, " "), "(exact replay:", exact, ")")
		h := x.history()
		for _, o := range h {
			fmt.Println("  ", o.String(c.Cfg))
		}
		if x.abandon != "" {
			fmt.Println("abandoned:", x.abandon)
		}
		if x.stuck != "" {
			fmt.Println("blocked at quiescence after the final close:", x.stuck)
		}
		hr := checkHistory(c.Cfg, h, x.stuck, len(h) <= 24)
		for _, v := range hr.Viol {
			fmt.Println("VIOLATION", v.Key, "::", v.What)
		}
		if len(hr.Viol) == 0 {
			fmt.Println("no violation on this execution (linearizability:", hr.Linearizable+")")
		}
		return
	}
	for _, line := range strings.Split(string(b), "\n") {
		if !strings.HasPrefix(line, "par ") {
			continue
		}
		var c struct {
			Cfg  config `json:"cfg"`
			Reps int    `json:"reps"`
		}
		if err := json.Unmarshal([]byte(strings.TrimPrefix(line, "par ")), &c); err != nil {
			fmt.Fprintln(os.Stderr, err)
			os.Exit(3)
		}
		res := runJob(job{ID: "replay", Cfg: c.Cfg, Mode: "par", Max: c.Reps})
		fmt.Printf("configuration: %s, %d real-parallel repetitions (GOMAXPROCS 2,4,8,16)\n", c.Cfg, res.Executions)
		for _, v := range res.Viol {
			fmt.Printf("VIOLATION %s (%d repetitions) :: %s\n%s\n", v.Key, v.Count, v.What, v.Replay)
		}
		if len(res.Viol) == 0 {
			fmt.Println("no violation in these repetitions")
		}
		return
	}
	fmt.Fprintln(os.Stderr, "no 'case' line in", args[0], "(layer-2 replays are scripts: run them with origami-race, see the header of the file)")
	os.Exit(3)
}

// ---------------------------------------------------------------------------------
// layer 1 job list

func multinomial(parts []int, limit float64) float64 {
	// (sum parts)! / prod parts!  (capped)
	r := 1.0
	n := 0
	for _, p := range parts {
		for i := 1; i <= p; i++ {
			n++
			r = r * float64(n) / float64(i)
			if r > limit {
				return limit
			}
		}
	}
	return r
}

func (c config) interleavingBound() float64 {
	var parts []int
	for _, r := range c.roles() {
		parts = append(parts, c.steps(r))
	}
	return multinomial(parts, 1e18)
}

type tierPlan struct {
	maxP, maxC, maxOps int
	fullBelow          float64 // complete DFS when the a-priori interleaving bound is below this
	fullCap            int     // safety cap on executions of one complete DFS
	pbBound            int     // preemption bound for the larger configurations
	pbCap              int
	randWalks          int
	parReps            int     // real-parallel repetitions per configuration
	apiBelow           float64 // configurations below this bound are also enumerated through the Go API directly
}

// dfsCap bounds one complete enumeration: on a tree whose Send is nondeterministic under a
// fixed schedule (Go's select) diverged replays make the DFS revisit subtrees, which without
// a cap multiplied the cost of the large configurations; a capped job is not reported complete.
func dfsCap(c config, plan tierPlan) int {
	n := int(c.interleavingBound()*1.2) + 1000
	if n > plan.fullCap {
		n = plan.fullCap
	}
	return n
}

func layer1Jobs(e *lib.Env) []job {
	plan := tierPlan{maxP: 2, maxC: 2, maxOps: 2, fullBelow: 60000, fullCap: 120000, pbBound: 2, pbCap: 3000, randWalks: 200, parReps: 1000, apiBelow: 4000}
	if !e.Quick() {
		plan = tierPlan{maxP: 3, maxC: 3, maxOps: 3, fullBelow: 1000000, fullCap: 4000000, pbBound: 2, pbCap: 5000, randWalks: 500, parReps: 4000, apiBelow: 60000}
	}
	var jobs []job
	seedRng := e.Rand("layer1")
	for p := 1; p <= plan.maxP; p++ {
		for c := 0; c <= plan.maxC; c++ {
			for k := 0; k <= 1; k++ {
				for ns := 1; ns <= plan.maxOps; ns++ {
					for nr := 1; nr <= plan.maxOps; nr++ {
						if c == 0 && nr > 1 {
							continue
						}
						for capa := 0; capa <= 4; capa++ {
							if capa > p*ns+1 {
								continue // a capacity above the number of sends behaves like capacity = number of sends
							}
							cfg := config{P: p, C: c, K: k, Cap: capa, NSend: ns, NRecv: nr, NClos: 1}
							if c == 0 {
								cfg.NRecv = 0
							}
							id := cfg.String()
							reps := plan.parReps
							if p >= 2 && capa >= 1 {
								reps *= 2 // producers racing for the last free slot
								if c == 0 {
									reps *= 3 // ... and nobody receives: whatever goes wrong stays visible at the end
								}
							}
							jobs = append(jobs, job{ID: id + " par", Cfg: cfg, Mode: "par", Max: reps})
							if cfg.interleavingBound() <= plan.apiBelow {
								api := cfg
								api.Via = "api"
								jobs = append(jobs, job{ID: api.String() + " dfs", Cfg: api, Mode: "dfs", Max: dfsCap(api, plan)})
							}
							if cfg.interleavingBound() <= plan.fullBelow {
								jobs = append(jobs, job{ID: id + " dfs", Cfg: cfg, Mode: "dfs", Max: dfsCap(cfg, plan)})
							} else {
								jobs = append(jobs, job{ID: id + " pb", Cfg: cfg, Mode: "pb", Bound: plan.pbBound, Max: plan.pbCap})
								jobs = append(jobs, job{ID: id + " rand", Cfg: cfg, Mode: "rand", Max: plan.randWalks, Seed: seedRng.Int63(), Sticky: 60})
							}
						}
					}
				}
			}
		}
	}
	// a closer that closes twice (sequential double close) on the small shapes
	for _, capa := range []int{0, 1} {
		cfg := config{P: 1, C: 1, K: 1, Cap: capa, NSend: 1, NRecv: 1, NClos: 2}
		jobs = append(jobs, job{ID: cfg.String() + " dfs", Cfg: cfg, Mode: "dfs", Max: plan.fullCap})
	}
	return jobs
}

// ---------------------------------------------------------------------------------
// driver

type l1Totals struct {
	mu          sync.Mutex
	jobs        int
	executions  int
	distinct    int
	nontrivial  int
	complete    int
	completeCfg []string
	capped      int
	diverged    int
	abandoned   int
	snapshots   int
	blockedRuns int
	crashed     int
	stuck       int
	parallel    int
	overlap     int
	lin         map[string]int
	byMode      map[string]int
	samples     []any
	stopped     []string
}

func driver() {
	e := lib.Init("C09", "exploration")
	e.RunScriptWitnesses()
	regress := e.RunRegressionScripts() // witnesses of repaired defects (findings/C09/*.php + .expected)
	start := time.Now()

	// ---- layer 1
	jobs := layer1Jobs(e)
	if os.Getenv("C09_SKIP_L1") != "" { // development aid: layer 2 alone (the run is then inconclusive by construction of the counts)
		jobs = nil
	}
	// longest first, so that the tail of the parallel map is short
	sort.SliceStable(jobs, func(i, j int) bool { return jobCost(jobs[i]) > jobCost(jobs[j]) })
	tot := &l1Totals{lin: map[string]int{}, byMode: map[string]int{}}
	self, _ := os.Executable()
	lib.ParallelMap(len(jobs), 0, func(i int) {
		j := jobs[i]
		jb, _ := json.Marshal(j)
		r := lib.RunProc(lib.ProcSpec{Argv: []string{self, "worker", string(jb)}, Dir: e.Scratch, Timeout: 45 * time.Minute})
		var res jobResult
		if r.TimedOut {
			e.Inconclusive("layer 1 " + j.ID + ": watchdog")
			return
		}
		if err := json.Unmarshal([]byte(strings.TrimSpace(r.Stdout)), &res); err != nil {
			// the worker died: a failure the in-process recover could not contain
			// only a Go-level crash with a trace is a finding; a worker killed from outside
			// (signal without a trace: OOM killer, operator) decides nothing
			if crash, what := lib.GoCrash(r); crash && hasGoTrace(r.Stderr) {
				site := lib.PanicSite(r.Stderr)
				e.Violation("worker-death@"+site, "layer 1 worker for "+j.ID+" died: "+what, "txt", []byte("# c09 worker "+string(jb)+"\n"+tail(r.Stderr, 6000)))
			} else {
				e.Inconclusive(fmt.Sprintf("layer 1 %s: worker exit %d %s without a result: %s", j.ID, r.Exit, r.Signal, tail(r.Stderr, 300)))
			}
			return
		}
		tot.add(j, res)
		for _, v := range res.Viol {
			e.Violation(v.Key, fmt.Sprintf("%s (seen in %d of %d executions of this job)", v.What, v.Count, res.Executions), "txt", []byte(v.Replay))
		}
		if res.Abandoned > 0 {
			e.Inconclusive(fmt.Sprintf("layer 1 %s: %d schedules abandoned (%s)", j.ID, res.Abandoned, res.AbandonNote))
		}
	})
	l1wall := time.Since(start).Seconds()

	// ---- layer 2
	t2 := time.Now()
	l2 := runLayer2(e)
	l2wall := time.Since(t2).Seconds()

	e.Extra("regression_scripts_run", regress)
	e.Extra("layer1_jobs", tot.jobs)
	e.Extra("layer1_executions", tot.executions)
	e.Extra("layer1_distinct_schedules", tot.distinct)
	e.Extra("layer1_schedules_holding_a_goroutine_inside_an_operation", tot.nontrivial)
	e.Extra("layer1_enumerations_complete", tot.complete)
	e.Extra("layer1_enumerations_capped_or_sampled", tot.capped)
	e.Extra("layer1_complete_configurations", sampleStrings(tot.completeCfg, 400))
	e.Extra("layer1_executions_by_mode", tot.byMode)
	e.Extra("layer1_parallel_runs", tot.parallel)
	e.Extra("layer1_parallel_runs_with_overlapping_operations", tot.overlap)
	e.Extra("layer1_diverged_replays", tot.diverged)
	e.Extra("layer1_abandoned_schedules", tot.abandoned)
	e.Extra("layer1_stack_snapshots", tot.snapshots)
	e.Extra("layer1_executions_with_a_blocked_goroutine", tot.blockedRuns)
	e.Extra("layer1_executions_ending_in_a_recovered_panic", tot.crashed)
	e.Extra("layer1_executions_stuck_after_final_close", tot.stuck)
	e.Extra("layer1_linearizability_verdicts", tot.lin)
	if len(tot.stopped) > 0 {
		e.Extra("layer1_jobs_stopped_early", sampleStrings(tot.stopped, 20))
	}
	e.Extra("layer1_wall_s", round1(l1wall))
	e.Extra("layer2_wall_s", round1(l2wall))
	l2.extras(e)
	e.Assume(
		"layer 1 controls interleavings only at the three verifhook.Yield points of std/channel/channel.go and between operations; the Go memory model (the unsynchronised `closed` flag) is invisible to it and is layer 2's job",
		"a goroutine is taken to be blocked only when a stop-the-world stack snapshot shows it waiting below a std/channel frame while no other worker is runnable; wall-clock time decides nothing",
		"race reports are attributed to the property only when one of the two accesses has its innermost repository frame in std/channel/; all others are listed as unattributed",
	)
	samples := append([]any{}, tot.samples...)
	samples = append(samples, l2.samples...)
	e.Finish(lib.Coverage{
		Evaluations:        tot.executions + l2.runs + regress,
		DistinctNontrivial: tot.nontrivial + l2.nontrivial,
		Rule:               "layer 1: distinct realised schedules (sequence of goroutine@point releases) in which a goroutine was held at a yield point inside send/receive/close while another goroutine was released; layer 2: script runs that completed and in which at least two coroutines' operations on the channel succeeded (values of >= 1 producer were received by >= 1 consumer)",
		Samples:            samples,
		Exhaustive:         false,
	})
}

func jobCost(j job) float64 {
	switch j.Mode {
	case "dfs":
		return j.Cfg.interleavingBound()
	case "pb":
		return float64(j.Max) * 2
	case "par":
		return float64(j.Max) * 4
	default:
		return float64(j.Max)
	}
}

func (t *l1Totals) add(j job, r jobResult) {
	t.mu.Lock()
	defer t.mu.Unlock()
	t.jobs++
	t.executions += r.Executions
	t.distinct += r.Distinct
	t.nontrivial += r.Nontrivial
	t.byMode[j.Mode] += r.Executions
	if j.Mode == "par" {
		// repetitions, not an enumeration
	} else if r.Complete && j.Mode != "rand" {
		t.complete++
		what := j.Cfg.String()
		if j.Mode == "pb" {
			what += fmt.Sprintf(" (<=%d preemptions)", j.Bound)
		}
		t.completeCfg = append(t.completeCfg, fmt.Sprintf("%s: %d", what, r.Executions))
	} else {
		t.capped++
	}
	t.diverged += r.Diverged
	t.abandoned += r.Abandoned
	t.snapshots += r.Snapshots
	t.blockedRuns += r.Blocked
	t.crashed += r.Crashed
	t.parallel += r.Parallel
	t.overlap += r.Overlap
	t.stuck += r.Stuck
	for k, v := range r.Lin {
		t.lin[k] += v
	}
	if r.Sample != "" && len(t.samples) < 4 {
		t.samples = append(t.samples, r.Sample)
	}
	if r.Stopped != "" {
		t.stopped = append(t.stopped, j.ID+": "+r.Stopped)
	}
}

func sampleStrings(s []string, n int) []string {
	sort.Strings(s)
	if len(s) > n {
		s = s[:n]
	}
	return s
}

func round1(f float64) float64 { return float64(int(f*10)) / 10 }

func tail(s string, n int) string {
	if len(s) > n {
		return s[len(s)-n:]
	}
	return s
}

func hasGoTrace(stderr string) bool {
	return strings.Contains(stderr, "goroutine ") && (strings.Contains(stderr, "panic: ") || strings.Contains(stderr, "fatal error: ") || strings.Contains(stderr, "[signal "))
}
