package main

// Enumeration of schedules for one configuration: depth-first over the scheduler's
// decisions by stateless re-execution (complete, or complete up to a preemption bound),
// or a seeded random walk.

import (
	"encoding/json"
	"fmt"
	"hash/fnv"
	"math/rand"
	"runtime"
	"strings"
)

type job struct {
	ID     string `json:"id"`
	Cfg    config `json:"cfg"`
	Mode   string `json:"mode"`  // dfs | pb | rand
	Bound  int    `json:"bound"` // preemption bound (pb)
	Max    int    `json:"max"`   // cap on executions (dfs, pb) / number of walks (rand)
	Seed   int64  `json:"seed"`
	Sticky int    `json:"sticky"` // rand: percent probability of continuing the last goroutine
}

type jobResult struct {
	ID          string         `json:"id"`
	Executions  int            `json:"executions"`
	Distinct    int            `json:"distinct"`
	Nontrivial  int            `json:"nontrivial"` // distinct schedules that held a goroutine inside an operation while another moved
	Complete    bool           `json:"complete"`   // the enumeration ran to its end without divergence or cap
	Diverged    int            `json:"diverged"`
	Abandoned   int            `json:"abandoned"`
	AbandonNote string         `json:"abandon_note,omitempty"`
	Snapshots   int            `json:"snapshots"`
	Blocked     int            `json:"blocked_steps"` // executions in which some goroutine was observed blocked
	Parallel    int            `json:"parallel"`
	Overlap     int            `json:"overlap"` // parallel runs in which operations of two worker goroutines overlapped in time
	Crashed     int            `json:"crashed"`
	Stuck       int            `json:"stuck"`
	MaxDepth    int            `json:"max_depth"`
	Lin         map[string]int `json:"lin"`
	Viol        []foundViol    `json:"viol,omitempty"`
	Sample      string         `json:"sample,omitempty"`
	Leaked      int            `json:"leaked"`
	Stopped     string         `json:"stopped,omitempty"`
}

type foundViol struct {
	Key    string `json:"key"`
	What   string `json:"what"`
	Count  int    `json:"count"`
	Replay string `json:"replay"`
}

type frame struct {
	enabled []int
	alts    []int // indices into enabled, in the order they are tried
	idx     int
	pre     int // preemptions used before this decision
}

func sameInts(a, b []int) bool {
	if len(a) != len(b) {
		return false
	}
	for i := range a {
		if a[i] != b[i] {
			return false
		}
	}
	return true
}

func indexOf(s []int, v int) int {
	for i, x := range s {
		if x == v {
			return i
		}
	}
	return -1
}

type explorer struct {
	j       job
	res     jobResult
	seen    map[uint64]struct{}
	byKey   map[string]*foundViol
	leaked  int
	badRuns int
}

func (e *explorer) after(x *execution) {
	r := &e.res
	r.Executions++
	r.Snapshots += x.snapshots
	if len(x.decisions) > r.MaxDepth {
		r.MaxDepth = len(x.decisions)
	}
	e.leaked += x.leaked()
	if x.abandon != "" {
		r.Abandoned++
		r.AbandonNote = x.abandon
		e.badRuns++
		return
	}
	if x.par {
		r.Parallel++
	}
	h := fnv.New64a()
	for _, t := range x.trace {
		h.Write([]byte(t))
		h.Write([]byte{0})
	}
	sig := h.Sum64()
	if _, dup := e.seen[sig]; !dup && !x.par {
		e.seen[sig] = struct{}{}
		r.Distinct++
		if x.inside {
			r.Nontrivial++
		}
	}
	if x.everBlocked {
		r.Blocked++
	}
	if x.crashed {
		r.Crashed++
	}
	if x.stuck != "" {
		r.Stuck++
		e.badRuns++
	}
	hist := x.history()
	if x.par && overlapping(hist) {
		r.Overlap++
	}
	hr := checkHistory(e.j.Cfg, hist, x.stuck, len(hist) <= 24)
	r.Lin[hr.Linearizable]++
	if r.Sample == "" && x.inside && len(hr.Viol) == 0 {
		r.Sample = e.j.Cfg.String() + " schedule " + strings.Join(x.trace, " ") + " => " + histText(e.j.Cfg, hist)
	}
	for _, v := range hr.Viol {
		fv := e.byKey[v.Key]
		if fv == nil {
			fv = &foundViol{Key: v.Key, What: e.j.Cfg.String() + ": " + v.What, Replay: replayText(e.j, x, hist, v)}
			e.byKey[v.Key] = fv
		}
		fv.Count++
	}
}

func histText(c config, h []opRec) string {
	var s []string
	for _, o := range h {
		s = append(s, o.String(c))
	}
	return strings.Join(s, "; ")
}

func replayText(j job, x *execution, h []opRec, v viol) string {
	var sb strings.Builder
	fmt.Fprintf(&sb, "# C09 layer 1 (controlled scheduler over the Go API of std/channel.Channel)\n")
	fmt.Fprintf(&sb, "# violation: %s\n# %s\n", v.Key, v.What)
	fmt.Fprintf(&sb, "# configuration: %s  (producers x sends, consumers x receives, closers x closes, capacity); producer Pi sends (i+1)*1000000+n\n", j.Cfg)
	if x.par {
		fmt.Fprintf(&sb, "# real-parallel run (not deterministic): all goroutines released at once behind a barrier, GOMAXPROCS=%d;\n# when everybody has finished or is blocked in the channel code (stack snapshot), the harness client Z closes the channel and receives until null\n", x.procs)
	} else {
		fmt.Fprintf(&sb, "# schedule (goroutine released @ the point it was parked at; 'op' = before its next operation):\n")
		for _, t := range x.trace {
			fmt.Fprintf(&sb, "release %s\n", t)
		}
		fmt.Fprintf(&sb, "# then: all goroutines run freely, the harness client Z closes the channel and receives until null\n")
	}
	fmt.Fprintf(&sb, "# recorded history (call@/ret@ = global sequence numbers):\n")
	for _, o := range h {
		fmt.Fprintf(&sb, "#   %s\n", o.String(j.Cfg))
	}
	var ch []int
	for _, d := range x.decisions {
		ch = append(ch, d.Enabled[d.Chosen])
	}
	if x.par {
		b, _ := json.Marshal(map[string]any{"cfg": j.Cfg, "reps": j.Max})
		fmt.Fprintf(&sb, "# re-execute (repeats until it shows again): .build/c09 replay <this file>\npar %s\n", b)
		return sb.String()
	}
	b, _ := json.Marshal(map[string]any{"cfg": j.Cfg, "choices": ch})
	fmt.Fprintf(&sb, "# re-execute: .build/c09 replay <this file>\ncase %s\n", b)
	return sb.String()
}

// tooBroken stops a configuration early on a tree on which nearly every schedule hangs
// (every such schedule leaks goroutines and costs a watchdog period).
func (e *explorer) tooBroken() bool {
	if e.res.Abandoned >= 3 || e.badRuns >= 40 {
		e.res.Stopped = fmt.Sprintf("stopped after %d executions: %d abandoned, %d stuck", e.res.Executions, e.res.Abandoned, e.res.Stuck)
		return true
	}
	return false
}

func runJob(j job) jobResult {
	e := &explorer{j: j, seen: map[uint64]struct{}{}, byKey: map[string]*foundViol{}}
	e.res = jobResult{ID: j.ID, Lin: map[string]int{}}
	switch j.Mode {
	case "rand":
		e.random()
	case "par":
		e.parallel()
	default:
		e.dfs()
	}
	for _, fv := range e.byKey {
		e.res.Viol = append(e.res.Viol, *fv)
	}
	e.res.Leaked = e.leaked
	return e.res
}

func (e *explorer) dfs() {
	j := e.j
	bounded := j.Mode == "pb"
	var stack []frame
	diverged := false
	for {
		used := 0
		choose := func(step int, enabled []int, last int) int {
			if step < len(stack) {
				f := &stack[step]
				if sameInts(f.enabled, enabled) {
					k := f.alts[f.idx]
					if last >= 0 && indexOf(enabled, last) >= 0 && enabled[k] != last {
						used++
					}
					return k
				}
				// the same prefix of choices led to a different state: the code under test is
				// not deterministic under this scheduler (e.g. Go's select picked another ready
				// case). Continue with the subtree actually reached.
				diverged = true
				e.res.Diverged++
				stack = stack[:step]
			}
			f := frame{enabled: append([]int(nil), enabled...), pre: used}
			li := -1
			if last >= 0 {
				li = indexOf(enabled, last)
			}
			if li >= 0 {
				f.alts = append(f.alts, li)
			}
			if li < 0 || !bounded || used < j.Bound {
				for i := range enabled {
					if i != li {
						f.alts = append(f.alts, i)
					}
				}
			}
			stack = append(stack, f)
			return f.alts[0]
		}
		x := execute(j.Cfg, choose)
		if len(x.decisions) < len(stack) {
			// the execution ended earlier than the recorded prefix: divergence as well
			diverged = true
			e.res.Diverged++
			stack = stack[:len(x.decisions)]
		}
		e.after(x)
		if e.tooBroken() {
			return
		}
		// backtrack
		for len(stack) > 0 && stack[len(stack)-1].idx+1 >= len(stack[len(stack)-1].alts) {
			stack = stack[:len(stack)-1]
		}
		if len(stack) == 0 {
			e.res.Complete = !diverged
			return
		}
		stack[len(stack)-1].idx++
		if j.Max > 0 && e.res.Executions >= j.Max {
			e.res.Stopped = fmt.Sprintf("cap of %d executions reached", j.Max)
			return
		}
	}
}

func (e *explorer) random() {
	j := e.j
	rng := rand.New(rand.NewSource(j.Seed))
	for n := 0; n < j.Max; n++ {
		choose := func(step int, enabled []int, last int) int {
			if li := indexOf(enabled, last); li >= 0 && rng.Intn(100) < j.Sticky {
				return li
			}
			return rng.Intn(len(enabled))
		}
		e.after(execute(j.Cfg, choose))
		if e.tooBroken() {
			return
		}
	}
}

// parallel repeats the configuration with real parallelism (all goroutines released at
// once), a quarter of the repetitions at each of GOMAXPROCS 2, 4, 8, 16.
func (e *explorer) parallel() {
	j := e.j
	procs := []int{2, 4, 8, 16}
	defer runtime.GOMAXPROCS(runtime.GOMAXPROCS(0))
	for pi, p := range procs {
		runtime.GOMAXPROCS(p)
		for n := pi * j.Max / len(procs); n < (pi+1)*j.Max/len(procs); n++ {
			e.after(parExecute(j.Cfg, p))
			if e.tooBroken() {
				return
			}
		}
	}
}

// replayChoices re-executes a recorded choice sequence.
func replayChoices(cfg config, choices []int) (*execution, bool) {
	exact := true
	x := execute(cfg, func(step int, enabled []int, last int) int {
		if step < len(choices) {
			if k := indexOf(enabled, choices[step]); k >= 0 {
				return k
			}
		}
		exact = false
		return 0
	})
	return x, exact
}

// overlapping reports whether operations of two different worker goroutines overlapped.
func overlapping(h []opRec) bool {
	for i, a := range h {
		if a.G < 0 {
			continue
		}
		for _, b := range h[i+1:] {
			if b.G < 0 || b.G == a.G {
				continue
			}
			if a.Ret == 0 || b.Call < a.Ret {
				return true
			}
		}
	}
	return false
}
