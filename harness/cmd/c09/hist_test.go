package main

import "testing"

// Synthetic histories: every checker must fire on the defect it is named after and stay
// silent on correct histories (go test -tags verif ./cmd/c09).

func keys(r histResult) map[string]bool {
	m := map[string]bool{}
	for _, v := range r.Viol {
		m[v.Key] = true
	}
	return m
}

var tcfg = config{P: 2, C: 2, K: 1, Cap: 2, NSend: 2, NRecv: 2, NClos: 1}

const a0, a1, b0 = 1_000_000, 1_000_001, 2_000_000

func zTail(from int64) []opRec {
	return []opRec{{G: -1, Op: opClose, Call: from, Ret: from + 1}, {G: -1, Op: opRecv, Call: from + 2, Ret: from + 3}}
}

func TestCheckers(t *testing.T) {
	cases := []struct {
		name string
		h    []opRec
		want string // "" = must be clean
	}{
		{"clean", append([]opRec{
			{G: 0, Op: opSend, Arg: a0, Call: 1, Ret: 2, OK: true},
			{G: 0, Op: opSend, Arg: a1, Call: 3, Ret: 4, OK: true},
			{G: 2, Op: opRecv, Call: 5, Ret: 6, OK: true, Val: a0},
			{G: 3, Op: opRecv, Call: 7, Ret: 8, OK: true, Val: a1},
		}, zTail(9)...), ""},
		{"rendezvous overlap", append([]opRec{
			{G: 0, Op: opSend, Arg: a0, Call: 1, Ret: 4, OK: true},
			{G: 2, Op: opRecv, Call: 2, Ret: 3, OK: true, Val: a0},
		}, zTail(5)...), ""},
		{"concurrent close: send may fail while a receiver still drains", append([]opRec{
			{G: 0, Op: opSend, Arg: a0, Call: 1, Ret: 2, OK: true},
			{G: 4, Op: opClose, Call: 3, Ret: 8},
			{G: 1, Op: opSend, Arg: b0, Call: 4, Ret: 5, OK: false},
			{G: 2, Op: opRecv, Call: 6, Ret: 7, OK: true, Val: a0},
			{G: 2, Op: opRecv, Call: 9, Ret: 10},
		}, zTail(11)...), ""},
		{"reorder seen by one receiver", append([]opRec{
			{G: 0, Op: opSend, Arg: a0, Call: 1, Ret: 2, OK: true},
			{G: 0, Op: opSend, Arg: a1, Call: 3, Ret: 4, OK: true},
			{G: 2, Op: opRecv, Call: 5, Ret: 6, OK: true, Val: a1},
			{G: 2, Op: opRecv, Call: 7, Ret: 8, OK: true, Val: a0},
		}, zTail(9)...), "order/per-receiver"},
		{"reorder across receivers", append([]opRec{
			{G: 0, Op: opSend, Arg: a0, Call: 1, Ret: 2, OK: true},
			{G: 0, Op: opSend, Arg: a1, Call: 3, Ret: 4, OK: true},
			{G: 2, Op: opRecv, Call: 5, Ret: 6, OK: true, Val: a1},
			{G: 3, Op: opRecv, Call: 7, Ret: 8, OK: true, Val: a0},
		}, zTail(9)...), "order/global"},
		{"duplicate", append([]opRec{
			{G: 0, Op: opSend, Arg: a0, Call: 1, Ret: 2, OK: true},
			{G: 2, Op: opRecv, Call: 3, Ret: 4, OK: true, Val: a0},
			{G: 3, Op: opRecv, Call: 5, Ret: 6, OK: true, Val: a0},
		}, zTail(7)...), "duplicate-delivery"},
		{"phantom", append([]opRec{
			{G: 2, Op: opRecv, Call: 3, Ret: 4, OK: true, Val: b0},
		}, zTail(7)...), "phantom-value"},
		{"lost", append([]opRec{
			{G: 0, Op: opSend, Arg: a0, Call: 1, Ret: 2, OK: true},
		}, zTail(7)...), "lost-value"},
		{"failed send delivered", append([]opRec{
			{G: 4, Op: opClose, Call: 1, Ret: 4},
			{G: 0, Op: opSend, Arg: a0, Call: 2, Ret: 3, OK: false},
			{G: 2, Op: opRecv, Call: 5, Ret: 6, OK: true, Val: a0},
		}, zTail(7)...), "delivered-failed-send"},
		{"send succeeds after close returned", append([]opRec{
			{G: 4, Op: opClose, Call: 1, Ret: 2},
			{G: 0, Op: opSend, Arg: a0, Call: 3, Ret: 4, OK: true},
			{G: 2, Op: opRecv, Call: 5, Ret: 6, OK: true, Val: a0},
		}, zTail(7)...), "after-close/send-succeeded"},
		{"null without close", append([]opRec{
			{G: 2, Op: opRecv, Call: 1, Ret: 2},
		}, zTail(7)...), "null-without-close"},
		{"null then value", append([]opRec{
			{G: 0, Op: opSend, Arg: a0, Call: 1, Ret: 2, OK: true},
			{G: 4, Op: opClose, Call: 3, Ret: 4},
			{G: 2, Op: opRecv, Call: 5, Ret: 6},
			{G: 3, Op: opRecv, Call: 7, Ret: 8, OK: true, Val: a0},
		}, zTail(9)...), "null-then-value"},
		{"send succeeds after another send reported closed", append([]opRec{
			{G: 0, Op: opSend, Arg: a0, Call: 1, Ret: 2, OK: false},
			{G: 0, Op: opSend, Arg: a1, Call: 3, Ret: 4, OK: true},
			{G: 4, Op: opClose, Call: 0, Ret: 5},
			{G: 2, Op: opRecv, Call: 6, Ret: 7, OK: true, Val: a1},
		}, zTail(9)...), "after-close/send-succeeded"},
		{"no order is demanded between senders", append([]opRec{
			{G: 0, Op: opSend, Arg: a0, Call: 1, Ret: 2, OK: true},
			{G: 1, Op: opSend, Arg: b0, Call: 3, Ret: 4, OK: true},
			{G: 2, Op: opRecv, Call: 5, Ret: 6, OK: true, Val: b0},
			{G: 2, Op: opRecv, Call: 7, Ret: 8, OK: true, Val: a0},
		}, zTail(9)...), ""},
		{"only the sequential witness is missing: a null overlapping the close, then a send that started before it succeeds, and its value is taken by a receive that overlaps the null", append([]opRec{
			{G: 4, Op: opClose, Call: 1, Ret: 20},
			{G: 0, Op: opSend, Arg: a0, Call: 2, Ret: 3, OK: true},
			{G: 0, Op: opSend, Arg: a1, Call: 4, Ret: 12, OK: true},
			{G: 2, Op: opRecv, Call: 5, Ret: 6, OK: true, Val: a0},
			{G: 2, Op: opRecv, Call: 7, Ret: 8},
			{G: 3, Op: opRecv, Call: 9, Ret: 13, OK: true, Val: a1},
		}, zTail(21)...), "null-then-value"},
	}
	for _, c := range cases {
		r := checkHistory(tcfg, c.h, "", true)
		k := keys(r)
		if c.want == "" {
			if len(k) != 0 {
				t.Errorf("%s: expected a clean history, got %v", c.name, r.Viol)
			}
			if r.Linearizable != "ok" {
				t.Errorf("%s: linearizability verdict %q", c.name, r.Linearizable)
			}
			continue
		}
		if !k[c.want] {
			t.Errorf("%s: expected %s, got %v", c.name, c.want, r.Viol)
		}
	}
	// blocked after the final close
	h := []opRec{{G: -1, Op: opClose, Call: 1, Ret: 2}, {G: -1, Op: opRecv, Call: 3}}
	if k := keys(checkHistory(tcfg, h, "Z", true)); !k["stuck-after-close/recv"] {
		t.Errorf("stuck: got %v", k)
	}
	// crash classification
	h = []opRec{{G: 4, Op: opClose, Call: 1, Ret: 2}, {G: 0, Op: opSend, Arg: a0, Call: 3, Panic: "send on closed channel", PanicAt: 4, Site: "std/channel.(*Channel).Send"}}
	if k := keys(checkHistory(tcfg, h, "", true)); !k["panic@std/channel.(*Channel).Send/send-on-closed-channel/after-close-returned"] {
		t.Errorf("crash: got %v", k)
	}
	h = []opRec{{G: 0, Op: opSend, Arg: a0, Call: 1, Panic: "send on closed channel", PanicAt: 4, Site: "std/channel.(*Channel).Send"}, {G: 4, Op: opClose, Call: 2, Ret: 5}}
	if k := keys(checkHistory(tcfg, h, "", true)); !k["panic@std/channel.(*Channel).Send/send-on-closed-channel/overlapping-close"] {
		t.Errorf("crash: got %v", k)
	}
}

func TestModel(t *testing.T) {
	bad := [][]opRec{
		{ // per-sender order
			{G: 0, Op: opSend, Arg: a0, Call: 1, Ret: 2, OK: true},
			{G: 0, Op: opSend, Arg: a1, Call: 3, Ret: 4, OK: true},
			{G: 2, Op: opRecv, Call: 5, Ret: 6, OK: true, Val: a1},
			{G: 3, Op: opRecv, Call: 7, Ret: 8, OK: true, Val: a0},
		},
		{ // null while a value is queued
			{G: 0, Op: opSend, Arg: a0, Call: 1, Ret: 2, OK: true},
			{G: 4, Op: opClose, Call: 3, Ret: 4},
			{G: 2, Op: opRecv, Call: 5, Ret: 6},
		},
		{ // success after close
			{G: 4, Op: opClose, Call: 3, Ret: 4},
			{G: 0, Op: opSend, Arg: a0, Call: 5, Ret: 6, OK: true},
		},
		{ // failure without close
			{G: 0, Op: opSend, Arg: a0, Call: 5, Ret: 6, OK: false},
		},
		{ // duplicate
			{G: 0, Op: opSend, Arg: a0, Call: 1, Ret: 2, OK: true},
			{G: 2, Op: opRecv, Call: 5, Ret: 6, OK: true, Val: a0},
			{G: 2, Op: opRecv, Call: 7, Ret: 8, OK: true, Val: a0},
		},
	}
	for i, h := range bad {
		if r := checkLinearizable(h); r != porcupineIllegal {
			t.Errorf("bad history %d: verdict %v", i, r)
		}
	}
	good := []opRec{
		{G: 0, Op: opSend, Arg: a0, Call: 1, Ret: 9, OK: true},
		{G: 1, Op: opSend, Arg: b0, Call: 2, Ret: 3, OK: true},
		{G: 2, Op: opRecv, Call: 4, Ret: 5, OK: true, Val: a0},
		{G: 4, Op: opClose, Call: 6, Ret: 7},
		{G: 2, Op: opRecv, Call: 8, Ret: 10, OK: true, Val: b0},
		{G: 2, Op: opRecv, Call: 11, Ret: 12},
		{G: 1, Op: opSend, Arg: b0 + 1, Call: 13, Ret: 14},
	}
	if r := checkLinearizable(good); r != porcupineOk {
		t.Errorf("good history: verdict %v", r)
	}
}
