package main

// Layer 1: a controlled scheduler over the Go API of std/channel.(*Channel).
//
// Every worker goroutine executes a fixed list of operations on one Channel. It parks at a
// harness-level point before every operation ("op") and at every verifhook.Yield point the
// operation passes. The scheduler releases exactly one parked goroutine at a time and then
// waits until the process is quiescent again: every worker is parked, finished, or blocked
// inside the repository's code. Blocking is *observed*, not predicted: a goroutine counts
// as blocked only when an all-goroutine stack snapshot (runtime.Stack stops the world, so
// the snapshot is one consistent instant) shows it in a waiting state (chan send, chan
// receive, select, mutex …) below a frame of std/channel and not inside the harness's own
// park function, while no other worker is runnable. No wall-clock value takes part in
// any decision; the only clock is a watchdog that abandons a schedule as inconclusive.

import (
	"bytes"
	"fmt"
	"math/rand/v2"
	"runtime"
	"runtime/debug"
	"sort"
	"strconv"
	"strings"
	"sync"
	"sync/atomic"
	"time"

	"github.com/php-any/origami/data"
	"github.com/php-any/origami/parser"
	oruntime "github.com/php-any/origami/runtime"
	"github.com/php-any/origami/std/channel"
	"github.com/php-any/origami/verifhook"
)

// ---------------------------------------------------------------------------------
// configuration of one channel workload

type config struct {
	P     int `json:"p"`      // producers
	C     int `json:"c"`      // consumers
	K     int `json:"k"`      // closers (0 or 1)
	Cap   int `json:"cap"`    // channel capacity
	NSend int `json:"nsend"`  // sends per producer
	NRecv int `json:"nrecv"`  // receives per consumer
	NClos int `json:"nclose"` // closes per closer (1 or 2)
	// Via selects the client boundary: "" = the script-facing method objects of the Channel
	// class (GetConstruct/GetMethod("send"|"receive"|"close").Call with a call context, what
	// `$ch->send($v)` executes); "api" = the Go API of channel.Channel directly.
	Via string `json:"via,omitempty"`
}

func (c config) String() string {
	s := fmt.Sprintf("P%dx%d C%dx%d K%dx%d cap%d", c.P, c.NSend, c.C, c.NRecv, c.K, c.NClos, c.Cap)
	if c.Via != "" {
		s += " via=" + c.Via
	}
	return s
}

type role int

const (
	roleProducer role = iota
	roleConsumer
	roleCloser
	roleFinal // the harness's own closing client "Z"
)

func (c config) roles() []role {
	var r []role
	for i := 0; i < c.P; i++ {
		r = append(r, roleProducer)
	}
	for i := 0; i < c.C; i++ {
		r = append(r, roleConsumer)
	}
	for i := 0; i < c.K; i++ {
		r = append(r, roleCloser)
	}
	return r
}

func (c config) name(g int) string {
	switch {
	case g < 0:
		return "Z"
	case g < c.P:
		return fmt.Sprintf("P%d", g)
	case g < c.P+c.C:
		return fmt.Sprintf("C%d", g-c.P)
	default:
		return fmt.Sprintf("K%d", g-c.P-c.C)
	}
}

// steps is an upper bound on the number of scheduling points of goroutine role r.
func (c config) steps(r role) int {
	switch r {
	case roleProducer:
		return 2 * c.NSend
	case roleConsumer:
		return 2 * c.NRecv
	default:
		return 2 * c.NClos
	}
}

// ---------------------------------------------------------------------------------
// history

const (
	opSend  = "send"
	opRecv  = "recv"
	opClose = "close"
)

type opRec struct {
	G       int    `json:"g"` // goroutine index; -1 = the harness's final client Z
	Op      string `json:"op"`
	Arg     int64  `json:"arg,omitempty"` // value sent
	Call    int64  `json:"call"`
	Ret     int64  `json:"ret"` // 0 = never returned
	OK      bool   `json:"ok"`  // send: reported success; recv: a value was delivered
	Val     int64  `json:"val,omitempty"`
	Panic   string `json:"panic,omitempty"`
	PanicAt int64  `json:"panic_at,omitempty"`
	Site    string `json:"site,omitempty"`
	Bad     string `json:"bad,omitempty"` // malformed result (e.g. a value together with ok=false)
}

func (o opRec) String(c config) string {
	s := fmt.Sprintf("%s %s", c.name(o.G), o.Op)
	if o.Op == opSend {
		s += fmt.Sprintf("(%d)", o.Arg)
	}
	s += fmt.Sprintf(" call@%d", o.Call)
	switch {
	case o.Panic != "":
		s += " PANIC " + o.Panic
	case o.Ret == 0:
		s += " never returned"
	case o.Op == opSend:
		s += fmt.Sprintf(" -> %v ret@%d", o.OK, o.Ret)
	case o.Op == opRecv && o.OK:
		s += fmt.Sprintf(" -> %d ret@%d", o.Val, o.Ret)
	case o.Op == opRecv:
		s += fmt.Sprintf(" -> null ret@%d", o.Ret)
	default:
		s += fmt.Sprintf(" ret@%d", o.Ret)
	}
	if o.Bad != "" {
		s += " [" + o.Bad + "]"
	}
	return s
}

// ---------------------------------------------------------------------------------
// one controlled execution

type wstate int

const (
	wRunning wstate = iota
	wParked
	wBlocked
	wDone
)

type worker struct {
	id      int
	role    role
	goid    atomic.Int64
	release chan struct{}
	state   wstate // owned by the scheduler goroutine
	point   string // where it is parked
	mu      sync.Mutex
	recs    []*opRec // this goroutine's operations (appended by itself; never contended)
	passed  bool     // real-parallel runs: went through the start barrier
}

type evKind int

const (
	evPark evKind = iota
	evDone
)

type event struct {
	w     int
	kind  evKind
	point string
}

type decision struct {
	Enabled []int
	Chosen  int // index into Enabled
	Last    int // goroutine released by the previous decision (-1 at the start)
}

type execution struct {
	cfg     config
	ch      *channel.Channel // via=api
	cls     data.ClassStmt   // via method objects
	workers []*worker
	final   *worker // Z
	events  chan event
	over    atomic.Bool
	seq     atomic.Int64
	par     bool // real-parallel run: no parking, all goroutines released at once
	procs   int
	ready   atomic.Int32
	armed   atomic.Bool
	started atomic.Bool
	spin    int

	decisions   []decision
	trace       []string // realised schedule: "<goroutine>@<point>"
	snapshots   int
	inside      bool   // some decision moved a goroutine while another one was held inside an operation
	everBlocked bool   // some goroutine was observed blocked inside the channel code
	abandon     string // non-empty: the schedule could not be driven to the end (inconclusive)
	stuck       string // non-empty: quiescent with the final client blocked after its close
	crashed     bool
}

var (
	registry   sync.Map // goid -> *regEntry
	hookOnce   sync.Once
	stackBuf   = make([]byte, 1<<20)
	watchdog   = 30 * time.Second
	spinBefore = 3
	parMode    atomic.Bool
	baseCtx    data.Context
	baseOnce   sync.Once
)

// argCtx is the call context handed to the method objects: a real context of a fresh VM
// whose positional argument 0 is the value of the call.
type argCtx struct {
	data.Context
	v data.Value
}

func (a argCtx) GetIndexValue(i int) (data.Value, bool) {
	if i == 0 && a.v != nil {
		return a.v, true
	}
	return nil, false
}

func callCtx(v data.Value) data.Context {
	baseOnce.Do(func() {
		vm := oruntime.NewVM(parser.NewParser())
		baseCtx = vm.CreateContext(nil)
	})
	return argCtx{baseCtx, v}
}

type regEntry struct {
	x *execution
	w *worker
}

func goid() int64 {
	var b [48]byte
	n := runtime.Stack(b[:], false)
	s := b[:n]
	s = bytes.TrimPrefix(s, []byte("goroutine "))
	i := bytes.IndexByte(s, ' ')
	if i < 0 {
		return -1
	}
	id, _ := strconv.ParseInt(string(s[:i]), 10, 64)
	return id
}

func installHook() {
	hookOnce.Do(func() {
		verifhook.SetYield(func(point string) {
			if parMode.Load() {
				// real-parallel runs: never park, only perturb the timing now and then
				if rand.Uint32()&15 == 0 {
					runtime.Gosched()
				}
				return
			}
			v, ok := registry.Load(goid())
			if !ok {
				return
			}
			re := v.(*regEntry)
			if re.w.role == roleFinal {
				return
			}
			re.x.park(re.w, point)
		})
	})
}

// park is the only place where a worker waits for the scheduler. Its name is what the
// stack snapshots look for.
//
//go:noinline
func (x *execution) park(w *worker, point string) {
	if x.over.Load() {
		return
	}
	x.events <- event{w.id, evPark, point}
	<-w.release
}

func (x *execution) begin(w *worker, op string, arg int64) *opRec {
	r := &opRec{G: w.id, Op: op, Arg: arg}
	w.mu.Lock()
	r.Call = x.seq.Add(1)
	w.recs = append(w.recs, r)
	w.mu.Unlock()
	return r
}

func (x *execution) end(w *worker, r *opRec, fill func()) {
	w.mu.Lock()
	if fill != nil {
		fill()
	}
	r.Ret = x.seq.Add(1)
	w.mu.Unlock()
}

// barrier (real-parallel runs only) holds every goroutine immediately before the call of
// its first operation until all of them are there, so that the first operations start
// within nanoseconds of each other: check-then-act slips that sit on one side of a yield
// point need two goroutines inside the same few instructions at once.
func (x *execution) barrier(w *worker) {
	if !x.par || w.passed {
		return
	}
	w.passed = true
	defer func() {
		// the operation starts now, not when the goroutine arrived at the barrier
		w.mu.Lock()
		w.recs[len(w.recs)-1].Call = x.seq.Add(1)
		w.mu.Unlock()
	}()
	x.ready.Add(1)
	// (yielding waits only: busy waiting was measured to be far slower on a loaded machine
	// and no better at producing collisions)
	for !x.armed.Load() {
		runtime.Gosched()
	}
	for !x.started.Load() {
		runtime.Gosched()
	}
}

// call invokes a script-facing method object of the Channel class the way a script call
// does: a fresh method object from GetMethod, Call with the argument at position 0.
func (x *execution) call(name string, arg data.Value) (data.GetValue, string) {
	m, ok := x.cls.GetMethod(name)
	if !ok {
		return nil, "the Channel class has no method " + name
	}
	v, ctl := m.Call(callCtx(arg))
	if ctl != nil {
		return v, "the method raised: " + ctl.AsString()
	}
	return v, ""
}

func (x *execution) doSend(w *worker, v int64) {
	r := x.begin(w, opSend, v)
	x.barrier(w)
	var ok bool
	bad := ""
	if x.cls != nil {
		var res data.GetValue
		res, bad = x.call("send", data.NewIntValue(int(v)))
		if bad == "" {
			if b, isBool := res.(*data.BoolValue); isBool {
				ok, _ = b.AsBool()
			} else {
				bad = fmt.Sprintf("send returned a %T, not a bool", res)
			}
		}
	} else {
		ok = x.ch.Send(data.NewIntValue(int(v)))
	}
	x.end(w, r, func() { r.OK, r.Bad = ok, bad })
}

func (x *execution) doRecv(w *worker) bool {
	r := x.begin(w, opRecv, 0)
	x.barrier(w)
	var v data.GetValue
	var ok bool
	bad := ""
	if x.cls != nil {
		v, bad = x.call("receive", nil)
		if _, isNull := v.(*data.NullValue); bad == "" && v != nil && !isNull {
			ok = true
		}
	} else {
		var val data.Value
		val, ok = x.ch.Receive()
		if val != nil {
			v = val
		}
		if !ok && v != nil {
			if _, isNull := v.(*data.NullValue); !isNull {
				bad = fmt.Sprintf("ok=false together with a value of type %T", v)
			}
		}
	}
	var n int64
	if ok {
		if iv, isInt := v.(*data.IntValue); isInt {
			k, _ := iv.AsInt()
			n = int64(k)
		} else {
			bad = fmt.Sprintf("received a %T", v)
		}
	}
	x.end(w, r, func() { r.OK, r.Val, r.Bad = ok, n, bad })
	return ok
}

func (x *execution) doClose(w *worker) {
	r := x.begin(w, opClose, 0)
	x.barrier(w)
	bad := ""
	if x.cls != nil {
		_, bad = x.call("close", nil)
	} else {
		x.ch.Close()
	}
	x.end(w, r, func() { r.Bad = bad })
}

// guard runs f and converts a Go panic into a crash record of the operation in flight (in
// the real interpreter the panic kills the process).
func (x *execution) guard(w *worker, f func()) {
	defer func() {
		if p := recover(); p != nil {
			st := string(debug.Stack())
			w.mu.Lock()
			var open *opRec
			for i := len(w.recs) - 1; i >= 0; i-- {
				if w.recs[i].Ret == 0 && w.recs[i].Panic == "" {
					open = w.recs[i]
					break
				}
			}
			if open == nil {
				open = &opRec{G: w.id, Op: "?", Call: x.seq.Add(1)}
				w.recs = append(w.recs, open)
			}
			open.Panic = fmt.Sprint(p)
			open.PanicAt = x.seq.Add(1)
			open.Site = siteOf(st)
			w.mu.Unlock()
		}
	}()
	f()
}

func (x *execution) runWorker(w *worker) {
	id := goid()
	registry.Store(id, &regEntry{x, w})
	w.goid.Store(id)
	defer func() {
		registry.Delete(id)
		x.events <- event{w.id, evDone, ""}
	}()
	x.guard(w, func() {
		c := x.cfg
		switch w.role {
		case roleProducer:
			for i := 0; i < c.NSend; i++ {
				x.park(w, "op")
				x.doSend(w, int64(w.id+1)*1_000_000+int64(i))
			}
		case roleConsumer:
			for i := 0; i < c.NRecv; i++ {
				x.park(w, "op")
				x.doRecv(w)
			}
		case roleCloser:
			for i := 0; i < c.NClos; i++ {
				x.park(w, "op")
				x.doClose(w)
			}
		}
	})
}

// runFinal is the harness's own last client: it closes the channel (a second, sequential
// close when a closer already did) and drains it until a receive reports "closed and
// empty", so that "received 0 times" is decided on a quiescent, closed channel.
func (x *execution) runFinal(w *worker, maxRecv int) {
	id := goid()
	registry.Store(id, &regEntry{x, w})
	w.goid.Store(id)
	defer func() {
		registry.Delete(id)
		x.events <- event{w.id, evDone, ""}
	}()
	x.guard(w, func() {
		x.doClose(w)
		for i := 0; i < maxRecv; i++ {
			if !x.doRecv(w) {
				return
			}
		}
	})
}

// snapshot classifies every goroutine id found in an all-goroutine stack dump.
type gstatus int

const (
	gAbsent  gstatus = iota
	gBusy            // running, runnable, or waiting for something that ends by itself
	gInPark          // waiting in the harness's park function
	gBlocked         // waiting inside the repository's channel code
)

var blockedReasons = map[string]bool{
	"chan send": true, "chan receive": true, "select": true,
	"chan send (nil chan)": true, "chan receive (nil chan)": true, "select (no cases)": true,
	"sync.Mutex.Lock": true, "sync.RWMutex.RLock": true, "sync.RWMutex.Lock": true,
	"semacquire": true, "sync.Cond.Wait": true, "sync.WaitGroup.Wait": true,
}

func (x *execution) snapshot() map[int64]gstatus {
	x.snapshots++
	for {
		n := runtime.Stack(stackBuf, true)
		if n < len(stackBuf) {
			return parseSnapshot(stackBuf[:n])
		}
		stackBuf = make([]byte, 2*len(stackBuf))
	}
}

func parseSnapshot(b []byte) map[int64]gstatus {
	out := map[int64]gstatus{}
	for _, blk := range bytes.Split(b, []byte("\n\n")) {
		blk = bytes.TrimLeft(blk, "\n")
		if !bytes.HasPrefix(blk, []byte("goroutine ")) {
			continue
		}
		nl := bytes.IndexByte(blk, '\n')
		if nl < 0 {
			nl = len(blk)
		}
		head := string(blk[len("goroutine "):nl])
		sp := strings.IndexByte(head, ' ')
		if sp < 0 {
			continue
		}
		id, err := strconv.ParseInt(head[:sp], 10, 64)
		if err != nil {
			continue
		}
		reason := ""
		if i, j := strings.IndexByte(head, '['), strings.LastIndexByte(head, ']'); i >= 0 && j > i {
			reason = head[i+1 : j]
			if k := strings.IndexByte(reason, ','); k >= 0 {
				reason = reason[:k]
			}
		}
		body := blk[nl:]
		st := gBusy
		if blockedReasons[reason] {
			switch {
			case bytes.Contains(body, []byte("(*execution).park(")):
				st = gInPark
			case bytes.Contains(body, []byte("/std/channel.")):
				st = gBlocked
			}
		}
		out[id] = st
	}
	return out
}

// settle waits until the process is quiescent: no worker in state running, and every
// worker in state blocked confirmed by one snapshot in which nobody else is runnable.
func (x *execution) settle(all []*worker) bool {
	deadline := time.Now().Add(watchdog)
	spins := 0
	for {
		progressed := false
	drain:
		for {
			select {
			case ev := <-x.events:
				w := x.byID(ev.w)
				if ev.kind == evDone {
					w.state = wDone
				} else {
					w.state = wParked
					w.point = ev.point
				}
				progressed = true
			default:
				break drain
			}
		}
		if progressed {
			spins = 0
		}
		running, blocked := 0, 0
		for _, w := range all {
			switch w.state {
			case wRunning:
				running++
			case wBlocked:
				blocked++
			}
		}
		if running == 0 && blocked == 0 {
			return true
		}
		if spins < x.spin {
			spins++
			runtime.Gosched()
			continue
		}
		// nothing reported for a few rounds: look
		snap := x.snapshot()
		quiet := true
		for _, w := range all {
			if w.state != wRunning && w.state != wBlocked {
				continue
			}
			id := w.goid.Load()
			if id == 0 {
				quiet = false // not yet started
				continue
			}
			switch snap[id] {
			case gBlocked:
				w.state = wBlocked
			case gInPark, gAbsent:
				// its event is in the queue (sent before it began to wait / before it exited)
				w.state = wRunning
				quiet = false
			default:
				w.state = wRunning
				quiet = false
			}
		}
		if quiet && len(x.events) == 0 {
			return true
		}
		if time.Now().After(deadline) {
			return false
		}
		runtime.Gosched()
		if x.snapshots%64 == 0 {
			time.Sleep(50 * time.Microsecond) // a goroutine is in a state that ends by itself (sleep, GC)
		}
	}
}

func (x *execution) byID(id int) *worker {
	if id < 0 {
		return x.final
	}
	return x.workers[id]
}

// chooser decides which enabled goroutine runs next. It returns an index into enabled.
type chooser func(step int, enabled []int, last int) int

func newExecution(cfg config) *execution {
	installHook()
	x := &execution{cfg: cfg, events: make(chan event, 64), spin: spinBefore}
	if cfg.Via == "api" {
		x.ch = channel.NewChannel()
		x.ch.Construct(nil, data.NewIntValue(cfg.Cap))
	} else {
		x.cls = channel.NewChannelClass()
		x.cls.GetConstruct().Call(callCtx(data.NewIntValue(cfg.Cap)))
	}
	for i, r := range cfg.roles() {
		x.workers = append(x.workers, &worker{id: i, role: r, release: make(chan struct{}, 1), state: wRunning})
	}
	return x
}

// parExecute runs the same fixed operation lists with real parallelism: no parking, all
// goroutines released at once behind a barrier. Quiescence (everybody finished or blocked
// in the channel code) is still decided by stack snapshots, then the final client closes
// and drains as in the controlled runs.
func parExecute(cfg config, procs int) *execution {
	x := newExecution(cfg)
	x.par, x.procs, x.spin = true, procs, 400
	x.over.Store(true)
	parMode.Store(true)
	for _, w := range x.workers {
		go x.runWorker(w)
	}
	deadline := time.Now().Add(watchdog)
	for int(x.ready.Load()) < len(x.workers) {
		runtime.Gosched()
		if time.Now().After(deadline) {
			x.abandon = "workers did not reach the start barrier"
			x.armed.Store(true)
			x.started.Store(true)
			return x
		}
	}
	x.armed.Store(true)
	for i := 0; i < 4000; i++ {
		_ = x.ready.Load() // about a microsecond: whoever runs now enters the busy wait
	}
	x.started.Store(true)
	if !x.settle(x.workers) {
		x.abandon = "watchdog: the parallel run did not become quiescent"
	}
	for _, w := range x.workers {
		if w.state == wBlocked {
			x.everBlocked = true
		}
	}
	x.finish()
	return x
}

func (x *execution) anyPanic() bool {
	for _, w := range x.workers {
		w.mu.Lock()
		for _, r := range w.recs {
			if r.Panic != "" {
				w.mu.Unlock()
				return true
			}
		}
		w.mu.Unlock()
	}
	return false
}

func execute(cfg config, choose chooser) *execution {
	parMode.Store(false)
	x := newExecution(cfg)
	for _, w := range x.workers {
		go x.runWorker(w)
	}
	if !x.settle(x.workers) {
		x.abandon = "workers did not reach their first scheduling point"
	}
	last := -1
	for step := 0; x.abandon == ""; step++ {
		var enabled []int
		for _, w := range x.workers {
			if w.state == wParked {
				enabled = append(enabled, w.id)
			}
		}
		if len(enabled) == 0 {
			break
		}
		if x.anyPanic() {
			x.crashed = true
			break
		}
		k := choose(step, enabled, last)
		if k < 0 || k >= len(enabled) {
			k = 0
		}
		for _, id := range enabled {
			if id != enabled[k] && x.workers[id].point != "op" {
				x.inside = true
			}
		}
		for _, w := range x.workers {
			if w.state == wBlocked {
				x.everBlocked = true
			}
		}
		x.decisions = append(x.decisions, decision{Enabled: enabled, Chosen: k, Last: last})
		w := x.workers[enabled[k]]
		x.trace = append(x.trace, fmt.Sprintf("%s@%s", cfg.name(w.id), w.point))
		last = w.id
		w.state = wRunning
		w.release <- struct{}{}
		if !x.settle(x.workers) {
			x.abandon = "watchdog: the process did not become quiescent after releasing " + cfg.name(w.id) + " at " + w.point
		}
	}
	x.finish()
	return x
}

// finish ends the controlled phase: remaining parked workers run freely, the final client
// closes and drains, and everybody is awaited.
func (x *execution) finish() {
	if x.anyPanic() {
		x.crashed = true
	}
	x.over.Store(true)
	for _, w := range x.workers {
		if w.state == wParked {
			w.state = wRunning
			w.release <- struct{}{}
		}
	}
	if x.abandon != "" {
		x.cleanup()
		return
	}
	x.final = &worker{id: -1, role: roleFinal, release: make(chan struct{}, 1), state: wRunning}
	all := append(append([]*worker{}, x.workers...), x.final)
	maxRecv := x.cfg.P*x.cfg.NSend + 2
	go x.runFinal(x.final, maxRecv)
	if !x.settle(all) {
		x.abandon = "watchdog: the final close+drain phase did not become quiescent"
		x.cleanup()
		return
	}
	var left []string
	for _, w := range all {
		if w.state == wBlocked {
			left = append(left, x.cfg.name(w.id))
		}
	}
	if len(left) > 0 {
		sort.Strings(left)
		x.stuck = strings.Join(left, ",")
	}
}

// cleanup tries to get rid of goroutines of an abandoned execution (best effort).
func (x *execution) cleanup() {
	func() {
		defer func() { _ = recover() }()
		if x.cls != nil {
			x.call("close", nil)
		} else {
			x.ch.Close()
		}
	}()
}

// leaked reports how many goroutines of this execution are still alive.
func (x *execution) leaked() int {
	n := 0
	for _, w := range x.workers {
		if w.state != wDone {
			n++
		}
	}
	if x.final != nil && x.final.state != wDone {
		n++
	}
	return n
}

func (x *execution) history() []opRec {
	var out []opRec
	all := x.workers
	if x.final != nil {
		all = append(append([]*worker{}, x.workers...), x.final)
	}
	for _, w := range all {
		w.mu.Lock()
		for _, r := range w.recs {
			out = append(out, *r)
		}
		w.mu.Unlock()
	}
	sort.SliceStable(out, func(i, j int) bool { return out[i].Call < out[j].Call })
	return out
}
