package main

// Layer 2: generated producer/consumer/closer scripts on the race-detector build of the
// CLI (real spawn + Channel class), GOMAXPROCS in {1,2,4,16}, seeded rescheduling at the
// repository's yield points (VERIF_YIELD).

import (
	"fmt"
	"math/rand"
	"os"
	"path/filepath"
	"sort"
	"strconv"
	"strings"
	"sync"
	"time"

	"verif/lib"
)

type l2case struct {
	N      int
	P, C   int
	NSend  []int
	Cap    int
	Closer int // 0 none (the main coroutine closes after the producers finished); 1 closes on a signal from a producer; 2 closes after a busy loop
	SigP   int // producer that signals
	SigAt  int // ... before its SigAt-th send (== NSend: after its last send)
	Busy   int
	Probe  bool // consumers also call isClosed()/len() (results unused)
	Trials int  // > 1: a burst, the same workload repeated in one process on fresh channels
	Procs  int
	YSeed  int64
	YProb  float64
}

func (c l2case) String() string {
	cl := "main closes after the producers"
	switch c.Closer {
	case 1:
		cl = fmt.Sprintf("closer closes when P%d reaches send #%d", c.SigP, c.SigAt)
	case 2:
		cl = fmt.Sprintf("closer closes after %d loop iterations", c.Busy)
	}
	burst := ""
	if c.Trials > 1 {
		burst = fmt.Sprintf("burst of %d trials, ", c.Trials)
	}
	return fmt.Sprintf("case %d: %s%d producers x %v sends, %d consumers, capacity %d, %s, probe=%v, GOMAXPROCS=%d, VERIF_YIELD=%d:%.2f",
		c.N, burst, c.P, c.NSend, c.C, c.Cap, cl, c.Probe, c.Procs, c.YSeed, c.YProb)
}

func genL2(r *rand.Rand, n int, thorough bool) l2case {
	c := l2case{N: n, P: 1 + r.Intn(3), C: 1 + r.Intn(3), Cap: r.Intn(5)}
	maxSend := 6
	if thorough {
		maxSend = 12
	}
	for i := 0; i < c.P; i++ {
		c.NSend = append(c.NSend, 1+r.Intn(maxSend))
	}
	switch r.Intn(5) {
	case 0:
		c.Closer = 0
	case 1:
		c.Closer = 2
		c.Busy = []int{0, 10, 100, 300, 1000}[r.Intn(5)]
	default:
		c.Closer = 1
		c.SigP = r.Intn(c.P)
		c.SigAt = r.Intn(c.NSend[c.SigP] + 1)
	}
	c.Probe = r.Intn(4) == 0
	c.YSeed = int64(r.Intn(1 << 30))
	c.YProb = []float64{0.2, 0.5, 0.8, 1.0}[r.Intn(4)]
	return c
}

// genBurst: short workloads in which the close overlaps the sends (an immediate or
// signalled closer, mostly buffered channels), repeated many times in one process.
func genBurst(r *rand.Rand, n, trials int) l2case {
	c := l2case{N: n, P: 1 + r.Intn(3), C: 1 + r.Intn(2), Cap: r.Intn(5), Trials: trials}
	if r.Intn(4) != 0 && c.Cap == 0 {
		c.Cap = 1 + r.Intn(2)
	}
	for i := 0; i < c.P; i++ {
		c.NSend = append(c.NSend, 1+r.Intn(3))
	}
	switch k := r.Intn(10); {
	case k == 0:
		c.Closer = 0
	case k < 6:
		c.Closer = 2
		c.Busy = []int{0, 0, 10, 100}[r.Intn(4)]
	default:
		c.Closer = 1
		c.SigP = r.Intn(c.P)
		c.SigAt = r.Intn(c.NSend[c.SigP] + 1)
	}
	c.Probe = r.Intn(6) == 0
	c.YSeed = int64(r.Intn(1 << 30))
	c.YProb = []float64{0.5, 0.7, 0.9}[r.Intn(3)]
	return c
}

func (c l2case) script(bin string) string {
	var sb strings.Builder
	sb.WriteString("<?php\n// C09 layer 2. " + c.String() + "\n")
	fmt.Fprintf(&sb, "// run: GOMAXPROCS=%d VERIF_YIELD=%d:%.2f GORACE=\"halt_on_error=0\" %s <this file>   (race-detector build of the CLI, -tags verif)\n", c.Procs, c.YSeed, c.YProb, bin)
	sb.WriteString(`// producer $id sends $id*1000000+i and reports "P<id> <1|0 per send>"; a consumer receives until null and
// reports "C<id> <values>"; the closer reports "K"; the main coroutine closes (again), waits for every consumer's
// report (each consumer has seen null by then) and only then drains: "Z <values>" (must be empty).
function prod($ch, $res, $sig, $id, $n, $sigAt) { spawn(function() use ($ch, $res, $sig, $id, $n, $sigAt) {
  $r = "P" . $id; $i = 0;
  while ($i < $n) {
    if ($i == $sigAt) { $sig->send(1); }
    $ok = $ch->send($id * 1000000 + $i);
    if ($ok) { $r = $r . " 1"; } else { $r = $r . " 0"; }
    $i = $i + 1;
  }
  if ($sigAt == $n) { $sig->send(1); }
  $res->send($r);
}); }
function cons($ch, $res, $id, $probe) { spawn(function() use ($ch, $res, $id, $probe) {
  $r = "C" . $id;
  while (true) {
    if ($probe) { $x = $ch->isClosed(); $y = $ch->len(); }
    $v = $ch->receive();
    if ($v === null) { break; }
    $r = $r . " " . $v;
  }
  $res->send($r);
}); }
function closer($ch, $res, $sig, $busy) { spawn(function() use ($ch, $res, $sig, $busy) {
  if ($busy < 0) { $sig->receive(); } else { $k = 0; while ($k < $busy) { $k = $k + 1; } }
  $ch->close();
  $res->send("K");
}); }
`)
	fmt.Fprintf(&sb, "function trial($t) {\necho \"T \", $t, \"\\n\";\n$ch = new Channel(%d);\n$res = new Channel(%d);\n$sig = new Channel(4);\n", c.Cap, c.P+c.C+4)
	for i := 0; i < c.P; i++ {
		sigAt := -1
		if c.Closer == 1 && c.SigP == i {
			sigAt = c.SigAt
		}
		fmt.Fprintf(&sb, "prod($ch, $res, $sig, %d, %d, %d);\n", i+1, c.NSend[i], sigAt)
	}
	for i := 0; i < c.C; i++ {
		fmt.Fprintf(&sb, "cons($ch, $res, %d, %v);\n", i+1, c.Probe)
	}
	need := c.P
	switch c.Closer {
	case 1:
		sb.WriteString("closer($ch, $res, $sig, -1);\n")
		need++
	case 2:
		fmt.Fprintf(&sb, "closer($ch, $res, $sig, %d);\n", c.Busy)
		need++
	}
	total := need + c.C
	fmt.Fprintf(&sb, `$got = 0; $all = 0;
while ($got < %d) {
  $l = $res->receive(); echo $l, "\n"; $all = $all + 1;
  if (!str_starts_with($l, "C")) { $got = $got + 1; }
}
$ch->close();
while ($all < %d) { $l = $res->receive(); echo $l, "\n"; $all = $all + 1; }
$z = "Z";
while (true) { $v = $ch->receive(); if ($v === null) { break; } $z = $z . " " . $v; }
echo $z, "\n";
echo "DONE\n";
}
$t = 0;
while ($t < %d) { trial($t); $t = $t + 1; }
`, need, total, max(c.Trials, 1))
	return sb.String()
}

// evalL2 checks the printed reports of one completed run.
func evalL2(c l2case, stdout string) (viols []viol, nontrivial bool, moved int, malformed string) {
	add := func(key, format string, a ...any) {
		for _, v := range viols {
			if v.Key == key {
				return
			}
		}
		viols = append(viols, viol{key, fmt.Sprintf(format, a...)})
	}
	results := map[int][]bool{} // producer -> per-send success
	recv := map[string][]int64{}
	done := false
	closerSeen := false
	for _, line := range strings.Split(stdout, "\n") {
		f := strings.Fields(line)
		if len(f) == 0 {
			continue
		}
		switch {
		case f[0] == "T":
			// trial header
		case f[0] == "DONE":
			done = true
		case f[0] == "K":
			closerSeen = true
		case f[0] == "Z" || strings.HasPrefix(f[0], "C"):
			if _, dup := recv[f[0]]; dup {
				return nil, false, 0, "two reports of " + f[0]
			}
			recv[f[0]] = []int64{}
			for _, s := range f[1:] {
				v, err := strconv.ParseInt(s, 10, 64)
				if err != nil {
					return nil, false, 0, "unparsable report line " + strconv.Quote(line)
				}
				recv[f[0]] = append(recv[f[0]], v)
			}
		case strings.HasPrefix(f[0], "P"):
			id, err := strconv.Atoi(f[0][1:])
			if err != nil || id < 1 || id > c.P {
				return nil, false, 0, "unparsable report line " + strconv.Quote(line)
			}
			if _, dup := results[id]; dup {
				return nil, false, 0, "two reports of " + f[0]
			}
			results[id] = []bool{}
			for _, s := range f[1:] {
				results[id] = append(results[id], s == "1")
			}
		default:
			return nil, false, 0, "unexpected output line " + strconv.Quote(line)
		}
	}
	if !done {
		return nil, false, 0, "no DONE line"
	}
	if len(results) != c.P || len(recv) != c.C+1 || (c.Closer != 0) != closerSeen {
		return nil, false, 0, fmt.Sprintf("reports missing: %d producer, %d receiver reports", len(results), len(recv))
	}
	for id, rs := range results {
		if len(rs) != c.NSend[id-1] {
			return nil, false, 0, fmt.Sprintf("P%d reported %d sends instead of %d", id, len(rs), c.NSend[id-1])
		}
		failed := false
		for i, ok := range rs {
			if ok && failed {
				add("after-close/send-succeeded", "producer P%d: send #%d reported success after an earlier send of the same producer had reported failure (close is permanent): %v", id, i, rs)
			}
			if !ok {
				failed = true
			}
		}
	}
	count := map[int64]int{}
	var names []string
	for n := range recv {
		names = append(names, n)
	}
	sort.Strings(names)
	for _, n := range names {
		last := map[int64]int64{}
		for _, v := range recv[n] {
			count[v]++
			moved++
			s, i := v/1_000_000, v%1_000_000
			rs, known := results[int(s)]
			switch {
			case !known || int(i) >= len(rs):
				add("phantom-value", "%s received %d, which nobody sent", n, v)
			case !rs[i]:
				add("delivered-failed-send", "%s received %d although P%d's send #%d reported failure", n, v, s, i)
			}
			if p, ok := last[s]; ok && p > v {
				add("order/per-receiver", "%s received %d before %d (same sender)", n, p, v)
			}
			last[s] = v
			if n != "Z" {
				nontrivial = true
			}
		}
	}
	if z := recv["Z"]; len(z) > 0 {
		// every consumer had reported (after a null) before the main coroutine drained
		add("null-then-value", "every consumer had already received null (closed and empty), yet the main coroutine's later receives still deliver %v", z)
	}
	for v, k := range count {
		if k > 1 {
			add("duplicate-delivery", "value %d was received %d times", v, k)
		}
	}
	for id, rs := range results {
		for i, ok := range rs {
			v := int64(id)*1_000_000 + int64(i)
			if ok && count[v] == 0 {
				add("lost-value", "P%d's send #%d (%d) reported success but the value was never received, although the channel was closed and drained to null", id, i, v)
			}
		}
	}
	return viols, nontrivial, moved, ""
}

// ---------------------------------------------------------------------------------
// race reports

const origamiPkg = "github.com/php-any/origami/"

type raceFrame struct{ fn, file string }

func parseRaceLog(text string) [][2][]raceFrame {
	var out [][2][]raceFrame
	for _, block := range strings.Split(text, "==================") {
		if !strings.Contains(block, "WARNING: DATA RACE") {
			continue
		}
		var acc [][]raceFrame
		for _, sec := range strings.Split(block, "\n\n") {
			lines := strings.Split(strings.Trim(sec, "\n"), "\n")
			for len(lines) > 0 && (strings.HasPrefix(lines[0], "WARNING") || strings.TrimSpace(lines[0]) == "") {
				lines = lines[1:]
			}
			if len(lines) == 0 {
				continue
			}
			h := lines[0]
			if !(strings.HasPrefix(h, "Read at") || strings.HasPrefix(h, "Write at") || strings.HasPrefix(h, "Previous read at") ||
				strings.HasPrefix(h, "Previous write at") || strings.HasPrefix(h, "Atomic") || strings.HasPrefix(h, "Previous atomic")) {
				continue
			}
			var fr []raceFrame
			for i := 1; i+1 < len(lines); i += 2 {
				fn := strings.TrimSuffix(strings.TrimSpace(lines[i]), "()")
				file := strings.TrimSpace(lines[i+1])
				if j := strings.Index(file, " "); j >= 0 {
					file = file[:j]
				}
				fr = append(fr, raceFrame{fn: fn, file: file})
			}
			acc = append(acc, fr)
		}
		if len(acc) >= 2 {
			out = append(out, [2][]raceFrame{acc[0], acc[1]})
		}
	}
	return out
}

// innermostRepo is the innermost frame of an access that belongs to the repository
// (verifhook excluded).
func innermostRepo(fr []raceFrame) string {
	for _, f := range fr {
		if strings.HasPrefix(f.fn, origamiPkg) && !strings.Contains(f.fn, "/verifhook.") {
			return strings.TrimPrefix(f.fn, origamiPkg)
		}
	}
	return ""
}

// classifyRace returns the violation key of a report attributed to the property ("" when
// neither access is made by std/channel) and a signature for the unattributed list.
func classifyRace(rep [2][]raceFrame) (key, sig string) {
	a, b := innermostRepo(rep[0]), innermostRepo(rep[1])
	pair := []string{a, b}
	sort.Strings(pair)
	sig = pair[0] + " <-> " + pair[1]
	if strings.HasPrefix(a, "std/channel.") || strings.HasPrefix(b, "std/channel.") {
		return "race@" + pair[0] + "+" + pair[1], sig
	}
	return "", sig
}

// siteOf names the innermost repository function of a Go panic trace.
func siteOf(trace string) string {
	for _, line := range strings.Split(trace, "\n") {
		fn := strings.TrimSpace(line)
		if !strings.HasPrefix(fn, origamiPkg) || strings.Contains(fn, "/verifhook.") {
			continue
		}
		if j := strings.LastIndex(fn, "("); j > 0 {
			fn = fn[:j]
		}
		return strings.TrimPrefix(fn, origamiPkg)
	}
	return "unknown"
}

// ---------------------------------------------------------------------------------

type l2Totals struct {
	mu          sync.Mutex
	runs        int
	completed   int
	nontrivial  int
	crashed     int
	timeouts    int
	raceSeen    int
	raceAttr    map[string]int
	raceOther   map[string]int
	valuesMoved int
	trials      int
	samples     []any
	byProcs     map[int]int
}

func (t *l2Totals) extras(e *lib.Env) {
	e.Extra("layer2_script_runs", t.runs)
	e.Extra("layer2_runs_completed", t.completed)
	e.Extra("layer2_trials_evaluated", t.trials)
	e.Extra("layer2_runs_ending_in_a_go_crash", t.crashed)
	e.Extra("layer2_runs_by_gomaxprocs", t.byProcs)
	e.Extra("layer2_values_received", t.valuesMoved)
	e.Extra("layer2_race_reports_seen", t.raceSeen)
	e.Extra("layer2_race_reports_attributed", t.raceAttr)
	e.Extra("unattributed_races", topN(t.raceOther, 12))
}

func topN(m map[string]int, n int) map[string]int {
	type kv struct {
		k string
		v int
	}
	var s []kv
	for k, v := range m {
		s = append(s, kv{k, v})
	}
	sort.Slice(s, func(i, j int) bool { return s[i].v > s[j].v || (s[i].v == s[j].v && s[i].k < s[j].k) })
	out := map[string]int{}
	for i, x := range s {
		if i >= n {
			break
		}
		out[x.k] = x.v
	}
	return out
}

func runLayer2(e *lib.Env) *l2Totals {
	t := &l2Totals{raceAttr: map[string]int{}, raceOther: map[string]int{}, byProcs: map[int]int{}}
	if _, err := os.Stat(e.OrigamiRace()); err != nil {
		e.Inconclusive("origami-race binary missing: layer 2 skipped")
		return t
	}
	r := e.Rand("layer2")
	nCfg := e.Pick(200, 4000)
	var cases []l2case
	for i := 0; i < nCfg; i++ {
		base := genL2(r, i, !e.Quick())
		for _, procs := range []int{1, 2, 4, 16} {
			c := base
			c.Procs = procs
			c.YSeed = base.YSeed + int64(procs)
			cases = append(cases, c)
		}
	}
	rb := e.Rand("layer2-burst")
	for i := 0; i < e.Pick(16, 300); i++ {
		base := genBurst(rb, nCfg+i, e.Pick(100, 200))
		for _, procs := range []int{1, 2, 4, 16} {
			c := base
			c.Procs = procs
			c.YSeed = base.YSeed + int64(procs)
			cases = append(cases, c)
		}
	}
	lib.ParallelMap(len(cases), 0, func(i int) {
		c := cases[i]
		src := c.script("origami-race")
		dir := filepath.Join(e.Scratch, fmt.Sprintf("l2-%d", i))
		_ = os.MkdirAll(dir, 0o755)
		defer os.RemoveAll(dir)
		res := e.RunScriptWith(e.OrigamiRace(), src, 3*time.Minute,
			fmt.Sprintf("GOMAXPROCS=%d", c.Procs),
			fmt.Sprintf("VERIF_YIELD=%d:%.2f", c.YSeed, c.YProb),
			"GORACE=halt_on_error=0 exitcode=0 atexit_sleep_ms=0 log_path="+filepath.Join(dir, "r"))
		t.mu.Lock()
		t.runs++
		t.byProcs[c.Procs]++
		t.mu.Unlock()
		// race reports (whatever the outcome of the run)
		logs, _ := filepath.Glob(filepath.Join(dir, "r.*"))
		for _, lf := range logs {
			b, err := os.ReadFile(lf)
			if err != nil {
				continue
			}
			for _, rep := range parseRaceLog(string(b)) {
				key, sig := classifyRace(rep)
				t.mu.Lock()
				t.raceSeen++
				if key == "" {
					t.raceOther[sig]++
				} else {
					t.raceAttr[key]++
				}
				t.mu.Unlock()
				if key != "" {
					e.Violation(key, "the race detector reports conflicting unsynchronised accesses ("+sig+") while coroutines use one Channel: "+c.String(), "php", []byte(src))
				}
			}
		}
		if res.TimedOut {
			t.mu.Lock()
			t.timeouts++
			t.mu.Unlock()
			e.Inconclusive("layer 2 watchdog: " + c.String())
			return
		}
		if crash, what := lib.GoCrash(res); crash && !hasGoTrace(res.Stderr) {
			e.Inconclusive("layer 2: the process was killed from outside (" + what + "): " + c.String())
			return
		} else if crash {
			t.mu.Lock()
			t.crashed++
			t.mu.Unlock()
			msg := what
			if i := strings.Index(res.Stderr, "panic: "); i >= 0 {
				msg = strings.SplitN(res.Stderr[i+7:], "\n", 2)[0]
			} else if i := strings.Index(res.Stderr, "fatal error: "); i >= 0 {
				msg = strings.SplitN(res.Stderr[i+13:], "\n", 2)[0]
			}
			e.Violation(panicKey(siteOf(res.Stderr), msg)+"/script", "the interpreter process died ("+msg+") while coroutines send/receive/close one Channel: "+c.String()+" | "+tail(what, 200), "php", []byte(src))
			return
		}
		var viols []viol
		nontrivial, moved, malformed, trials := false, 0, "", 0
		witness := res.Stdout
		for _, chunk := range splitTrials(res.Stdout) {
			v, nt, mv, mal := evalL2(c, chunk)
			trials++
			if mal != "" && malformed == "" {
				malformed = fmt.Sprintf("trial %d: %s", trials-1, mal)
			}
			for _, one := range v {
				dup := false
				for _, have := range viols {
					dup = dup || have.Key == one.Key
				}
				if !dup {
					viols = append(viols, one)
					witness = chunk
				}
			}
			nontrivial = nontrivial || nt
			moved += mv
		}
		if trials != max(c.Trials, 1) && malformed == "" {
			malformed = fmt.Sprintf("%d of %d trials reported", trials, max(c.Trials, 1))
		}
		t.mu.Lock()
		t.trials += trials
		t.mu.Unlock()
		if malformed != "" || res.Exit != 0 {
			first := strings.SplitN(strings.TrimSpace(res.Stderr), "\n", 2)[0]
			if malformed == "" {
				malformed = "exit status " + strconv.Itoa(res.Exit)
			}
			e.Violation("script-failed/"+panicClass(first), "the workload script did not run to its end ("+malformed+"; stderr: "+first+"): "+c.String(), "php", []byte(src))
			return
		}
		t.mu.Lock()
		t.completed++
		if nontrivial {
			t.nontrivial++
		}
		t.valuesMoved += moved
		if len(t.samples) < 3 && nontrivial && len(viols) == 0 {
			t.samples = append(t.samples, c.String()+" => "+tail(strings.ReplaceAll(strings.TrimSpace(res.Stdout), "\n", " | "), 400))
		}
		t.mu.Unlock()
		for _, v := range viols {
			e.Violation(v.Key, v.What+" — "+c.String()+" — output: "+strings.ReplaceAll(strings.TrimSpace(witness), "\n", " | "), "php", []byte(src))
		}
	})
	return t
}

// splitTrials cuts the output of a run into one chunk per "T <n>" header.
func splitTrials(out string) []string {
	var chunks []string
	cur := ""
	for _, line := range strings.SplitAfter(out, "\n") {
		if strings.HasPrefix(line, "T ") && cur != "" {
			chunks = append(chunks, cur)
			cur = ""
		}
		cur += line
	}
	if strings.TrimSpace(cur) != "" {
		chunks = append(chunks, cur)
	}
	return chunks
}
