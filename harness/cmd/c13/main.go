// Command c13 decides property C13 (HTTP response commits once; middleware order) on the
// real std/net/http code: script handlers registered on a script-created Net\Http\Server
// are driven in-process through the server's ServeMux against a recording "wire", and
// every observation is compared with a commit-once reference model (model.go) / the
// ascending-priority onion order (mw.go).
package main

import (
	"encoding/json"
	"fmt"
	"math/rand"
	"os"
	"path/filepath"
	"sort"
	"strings"
	"sync"
	"time"

	"verif/lib"
)

func main() {
	if len(os.Args) > 1 && os.Args[1] == "probe" {
		probe(os.Args[2:])
		return
	}
	if len(os.Args) > 4 && os.Args[1] == "script" {
		probeScript(os.Args[2:])
		return
	}
	if len(os.Args) > 3 && os.Args[1] == "worker" {
		workerMain(os.Args[2], os.Args[3])
		return
	}
	drive()
}

func pow(a, n int) int64 {
	r := int64(1)
	for i := 0; i < n; i++ {
		r *= int64(a)
	}
	return r
}

const chunk = 5000

func enumJobs(route string, alpha, maxLen int, onlyExt bool) []job {
	var out []job
	for l := 0; l <= maxLen; l++ {
		total := pow(alpha, l)
		for lo := int64(0); lo < total; lo += chunk {
			hi := lo + chunk
			if hi > total {
				hi = total
			}
			out = append(out, job{Kind: "enum", Route: route, Alpha: alpha, L: l, Lo: lo, Hi: hi, OnlyExt: onlyExt})
		}
	}
	return out
}

func seededSeqJobs(e *lib.Env, n int) []job {
	r := e.Rand("long-sequences")
	seen := map[string]bool{}
	per := map[string][]string{}
	for len(seen) < n {
		l := 7 + r.Intn(6)
		seq := make([]uint8, l)
		// bias: half of the sequences delay the first committing op so that long pre-commit
		// prefixes (many pending status/header edits) are explored as well
		late := r.Intn(2) == 0
		for i := range seq {
			o := uint8(r.Intn(extOps))
			if late && i < l/2 {
				o = []uint8{0, 1, 2, 3, 4, 12}[r.Intn(6)] // S1 S4 H1 H2 C H3: non-committing
			}
			seq[i] = o
		}
		route := "/ops"
		if r.Intn(4) == 0 {
			route = "/mops"
		}
		s := seqString(seq)
		if seen[route+s] {
			continue
		}
		seen[route+s] = true
		per[route] = append(per[route], s)
	}
	var out []job
	for _, route := range []string{"/ops", "/mops"} {
		l := per[route]
		for i := 0; i < len(l); i += chunk {
			j := i + chunk
			if j > len(l) {
				j = len(l)
			}
			out = append(out, job{Kind: "list", Route: route, Seqs: l[i:j]})
		}
	}
	return out
}

// wrapJobs: operations spread over the five slots of route /wops. Every distribution of
// up to maxTotal base operations over the slots is enumerated; beyond that, seeded cases
// with 0..2 operations per middleware slot and 0..3 in the handler.
func wrapJobs(e *lib.Env, maxTotal, maxTotalExt, seeded int) []job {
	var cases []string
	seen := map[string]bool{}
	add := func(slots [][]uint8) {
		s := slotsString(slots)
		if !seen[s] {
			seen[s] = true
			cases = append(cases, s)
		}
	}
	var rec func(slots [][]uint8, minSlot, left, alpha int)
	rec = func(slots [][]uint8, minSlot, left, alpha int) {
		add(slots)
		if left == 0 {
			return
		}
		for sl := minSlot; sl < 5; sl++ {
			for o := 0; o < alpha; o++ {
				c := cloneSlots(slots)
				c[sl] = append(c[sl], uint8(o))
				rec(c, sl, left-1, alpha)
			}
		}
	}
	rec(make([][]uint8, 5), 0, maxTotal, baseOps)
	rec(make([][]uint8, 5), 0, maxTotalExt, extOps)
	r := e.Rand("wrap")
	for n := 0; n < seeded; n++ {
		slots := make([][]uint8, 5)
		for sl := range slots {
			k := r.Intn(3)
			if sl == 2 {
				k = r.Intn(4)
			}
			for i := 0; i < k; i++ {
				slots[sl] = append(slots[sl], uint8(r.Intn(extOps)))
			}
		}
		add(slots)
	}
	var out []job
	for i := 0; i < len(cases); i += chunk {
		j := i + chunk
		if j > len(cases) {
			j = len(cases)
		}
		out = append(out, job{Kind: "list", Route: "/wops", Seqs: cases[i:j]})
	}
	return out
}

func randEntry(r *rand.Rand, prio int) mwEntry {
	en := mwEntry{Prio: prio, Kind: 'c'}
	if r.Intn(2) == 0 {
		en.Kind = 'k'
	}
	en.Ret = r.Intn(2) == 0
	en.Omit = prio == 0 && r.Intn(3) == 0
	return en
}

func mwJobs(e *lib.Env) (jobs []job, exhaustiveOrders int) {
	r := e.Rand("middleware")
	var stacks []mwStack
	seen := map[string]bool{}
	add := func(s mwStack) {
		if k := s.key(); !seen[k] {
			seen[k] = true
			stacks = append(stacks, s)
		}
	}
	orders := enumerateStacks()
	for _, prios := range orders {
		n := len(prios)
		uniform := func(kind byte) mwStack {
			s := mwStack{Short: -1, Split: -1}
			for _, p := range prios {
				s.Entries = append(s.Entries, mwEntry{Prio: p, Kind: kind})
			}
			return s
		}
		seeded := func() mwStack {
			s := mwStack{Short: -1, Split: -1}
			for _, p := range prios {
				s.Entries = append(s.Entries, randEntry(r, p))
			}
			return s
		}
		add(uniform('c'))
		add(uniform('k'))
		if e.Quick() {
			add(seeded())
			add(seeded())
			if n > 0 {
				s := seeded()
				s.Short = r.Intn(n)
				add(s)
			}
			g := seeded()
			g.Split = r.Intn(n + 1)
			add(g)
		} else {
			for sp := 0; sp <= n; sp++ {
				g := uniform('c')
				g.Split = sp
				add(g)
				g = seeded()
				g.Split = sp
				add(g)
			}
			for mask := 0; mask < 1<<n; mask++ {
				s := mwStack{Short: -1, Split: -1}
				for i, p := range prios {
					en := randEntry(r, p)
					en.Kind = 'c'
					if mask&(1<<i) != 0 {
						en.Kind = 'k'
					}
					s.Entries = append(s.Entries, en)
				}
				add(s)
			}
			for sh := 0; sh < n; sh++ {
				for k := 0; k < 2; k++ {
					s := seeded()
					s.Short = sh
					add(s)
				}
			}
		}
	}
	// stacks longer than anything a small-n sort special-case would hide (package sort uses
	// insertion sort — stable — up to 12 elements): 13..40 registrations, many ties
	pool := []int{-1, 0, 0, 1, 5}
	for i, n := 0, e.Pick(80, 800); i < n; i++ {
		l := 13 + r.Intn(28)
		s := mwStack{Short: -1, Split: -1}
		allClosure := r.Intn(2) == 0
		for k := 0; k < l; k++ {
			en := randEntry(r, pool[r.Intn(len(pool))])
			if allClosure {
				en.Kind = 'c'
			}
			s.Entries = append(s.Entries, en)
		}
		if r.Intn(5) == 0 {
			s.Short = r.Intn(l)
		}
		if r.Intn(4) == 0 {
			s.Split = r.Intn(l + 1)
		}
		add(s)
	}
	const per = 60
	for i := 0; i < len(stacks); i += per {
		j := i + per
		if j > len(stacks) {
			j = len(stacks)
		}
		jobs = append(jobs, job{Kind: "mw", Stacks: stacks[i:j]})
	}
	return jobs, len(orders)
}

// linearExtensions lists every order of evs that respects "a group exists before it is
// used" (gProg.valid).
func linearExtensions(evs []gEvent) [][]gEvent {
	var out [][]gEvent
	used := make([]bool, len(evs))
	cur := make([]gEvent, 0, len(evs))
	var rec func()
	rec = func() {
		if len(cur) == len(evs) {
			out = append(out, append([]gEvent{}, cur...))
			return
		}
		for i, e := range evs {
			if used[i] {
				continue
			}
			// identical events are interchangeable: take only the first unused copy
			dup := false
			for k := 0; k < i; k++ {
				if !used[k] && evs[k] == e {
					dup = true
				}
			}
			if dup {
				continue
			}
			cur = append(cur, e)
			if (gProg{Ev: cur}).valid() {
				used[i] = true
				rec()
				used[i] = false
			}
			cur = cur[:len(cur)-1]
		}
	}
	rec()
	return out
}

// grpJobs: parent server with k = 0..9 global middlewares of mixed priorities, then every
// valid interleaving of: create group 1, create group 2 (sibling or nested in 1), one own
// middleware per group, one route per group and one on the parent (thorough: also a late
// parent middleware, for k in 0..9 again); seeded programs with 2..3 groups, 0..2 own
// middlewares each, 0..2 late parent middlewares and routes everywhere, in a random valid
// order.
func grpJobs(e *lib.Env) []job {
	r := e.Rand("groups")
	pool := []int{-1, 0, 0, 1, 5}
	var progs []gProg
	seen := map[string]bool{}
	add := func(p gProg) {
		if k := p.key(); p.valid() && !seen[k] {
			seen[k] = true
			progs = append(progs, p)
		}
	}
	prefix := func(k int) []gEvent {
		var ev []gEvent
		for i := 0; i < k; i++ {
			ev = append(ev, gEvent{Op: 'M', T: 0, P: pool[r.Intn(len(pool))]})
		}
		return ev
	}
	for k := 0; k <= 9; k++ {
		for nested := 0; nested <= 1; nested++ {
			evs := []gEvent{
				{Op: 'G', T: 1, P: 0}, {Op: 'G', T: 2, P: nested},
				{Op: 'M', T: 1, P: pool[r.Intn(len(pool))]}, {Op: 'M', T: 2, P: pool[r.Intn(len(pool))]},
				{Op: 'R', T: 1}, {Op: 'R', T: 2}, {Op: 'R', T: 0},
			}
			if !e.Quick() {
				evs = append(evs, gEvent{Op: 'M', T: 0, P: pool[r.Intn(len(pool))]})
			}
			pre := prefix(k)
			for _, order := range linearExtensions(evs) {
				add(gProg{Ev: append(append([]gEvent{}, pre...), order...)})
			}
		}
	}
	for n := e.Pick(1500, 20000); n > 0; n-- {
		var evs []gEvent
		groups := 2 + r.Intn(2)
		for g := 1; g <= groups; g++ {
			evs = append(evs, gEvent{Op: 'G', T: g, P: r.Intn(g)}) // parent: server or an earlier group
			for m := r.Intn(3); m > 0; m-- {
				evs = append(evs, gEvent{Op: 'M', T: g, P: pool[r.Intn(len(pool))]})
			}
			for m := 1 + r.Intn(2); m > 0; m-- {
				evs = append(evs, gEvent{Op: 'R', T: g})
			}
		}
		for m := r.Intn(3); m > 0; m-- {
			evs = append(evs, gEvent{Op: 'M', T: 0, P: pool[r.Intn(len(pool))]})
		}
		evs = append(evs, gEvent{Op: 'R', T: 0})
		// random valid order: repeatedly pick a random event whose target exists
		p := gProg{Ev: prefix(r.Intn(10))}
		left := evs
		for len(left) > 0 {
			i := r.Intn(len(left))
			c := gProg{Ev: append(append([]gEvent{}, p.Ev...), left[i])}
			if !c.valid() {
				continue
			}
			p = c
			left = append(append([]gEvent{}, left[:i]...), left[i+1:]...)
		}
		add(p)
	}
	const per = 150
	var jobs []job
	for i := 0; i < len(progs); i += per {
		j := i + per
		if j > len(progs) {
			j = len(progs)
		}
		jobs = append(jobs, job{Kind: "grp", Progs: progs[i:j]})
	}
	return jobs
}

type jobOutcome struct {
	res     *result
	crashed string // description when the batch could not be completed
}

func runJob(e *lib.Env, bin string, idx int, j job, careful bool) (res *result, stderr string, timedOut bool) {
	dir := filepath.Join(e.Scratch, fmt.Sprintf("j%d", idx%64))
	_ = os.MkdirAll(dir, 0o755)
	tag := fmt.Sprintf("job%d", idx)
	if careful {
		tag += "c"
	}
	jp, op := filepath.Join(dir, tag+".json"), filepath.Join(dir, tag+".out")
	b, _ := json.Marshal(j)
	_ = os.WriteFile(jp, b, 0o644)
	spec := lib.ProcSpec{Argv: []string{bin, "worker", jp, op}, Dir: dir, Timeout: 30 * time.Minute}
	if careful {
		spec.Env = []string{"C13_CASELOG=" + filepath.Join(dir, tag+".log")}
	}
	pr := lib.RunProc(spec)
	defer func() { _ = os.Remove(jp); _ = os.Remove(op) }()
	ob, err := os.ReadFile(op)
	if err != nil {
		return nil, pr.Stderr, pr.TimedOut
	}
	var r result
	if json.Unmarshal(ob, &r) != nil || !r.Done {
		if r.Fatal != "" {
			return nil, "worker: " + r.Fatal + "\n" + pr.Stderr, pr.TimedOut
		}
		return nil, pr.Stderr, pr.TimedOut
	}
	return &r, pr.Stderr, pr.TimedOut
}

// unfinishedCase finds the case that began and did not end in a careful worker's log.
func unfinishedCase(logPath string) string {
	b, err := os.ReadFile(logPath)
	if err != nil {
		return ""
	}
	lines := strings.Split(strings.TrimSpace(string(b)), "\n")
	if len(lines) == 0 {
		return ""
	}
	last := lines[len(lines)-1]
	if strings.HasPrefix(last, "BEGIN ") {
		return strings.TrimPrefix(last, "BEGIN ")
	}
	return ""
}

func drive() {
	e := lib.Init("C13", "exploration")
	e.RunScriptWitnesses()
	self, err := os.Executable()
	if err != nil {
		self = e.Bin("c13")
	}

	maxBase := e.Pick(5, 6)
	maxExt := e.Pick(3, 4)
	maxMw := e.Pick(4, 5)
	maxExtMw := e.Pick(2, 3)
	var jobs []job
	jobs = append(jobs, enumJobs("/ops", baseOps, maxBase, false)...)
	jobs = append(jobs, enumJobs("/ops", extOps, maxExt, true)...)
	jobs = append(jobs, enumJobs("/mops", baseOps, maxMw, false)...)
	jobs = append(jobs, enumJobs("/eops", baseOps, maxMw, false)...)
	jobs = append(jobs, enumJobs("/mops", extOps, maxExtMw, true)...)
	jobs = append(jobs, enumJobs("/eops", extOps, maxExtMw, true)...)
	jobs = append(jobs, wrapJobs(e, e.Pick(2, 3), 2, e.Pick(15000, 300000))...)
	jobs = append(jobs, seededSeqJobs(e, e.Pick(20000, 1000000))...)
	mj, orders := mwJobs(e)
	jobs = append(jobs, mj...)
	jobs = append(jobs, grpJobs(e)...)
	// big batches first: better packing on the worker pool
	sort.SliceStable(jobs, func(a, b int) bool { return jobs[a].caseCount() > jobs[b].caseCount() })

	var mu sync.Mutex
	total := result{}
	agg := map[string]*mismatch{}
	var aggOrder []string
	perKind := map[string]int{}
	crashes := 0

	lib.ParallelMap(len(jobs), 0, func(i int) {
		j := jobs[i]
		res, stderr, timedOut := runJob(e, self, i, j, false)
		if res == nil && timedOut {
			e.Inconclusive(fmt.Sprintf("batch %d (%s, %d cases): watchdog fired", i, j.Kind, j.caseCount()))
			return
		}
		if res == nil {
			// the batch died: re-run it with a per-case BEGIN/END log to find the culprit
			res2, stderr2, timedOut2 := runJob(e, self, i, j, true)
			if res2 == nil {
				dir := filepath.Join(e.Scratch, fmt.Sprintf("j%d", i%64))
				culprit := unfinishedCase(filepath.Join(dir, fmt.Sprintf("job%dc.log", i)))
				switch {
				case timedOut2:
					e.Inconclusive(fmt.Sprintf("batch %d: watchdog fired in careful re-run", i))
				case culprit == "":
					e.Inconclusive(fmt.Sprintf("batch %d: worker failed before its first case: %s", i, firstLines(stderr2+stderr, 5)))
				default:
					mu.Lock()
					crashes++
					mu.Unlock()
					site := lib.PanicSite(stderr2)
					e.Violation("crash@"+site, "worker process died while serving case "+culprit+": "+firstLines(stderr2, 6), "txt",
						[]byte("property C13: the process died while serving this case\ncase: "+culprit+"\n\n"+stderr2))
				}
				return
			}
			e.Inconclusive(fmt.Sprintf("batch %d: worker died once (%s) but completed on the careful re-run", i, firstLines(stderr, 3)))
			res = res2
		}
		mu.Lock()
		defer mu.Unlock()
		total.N += res.N
		total.Nontrivial += res.Nontrivial
		total.Commits1 += res.Commits1
		total.Requests += res.Requests
		perKind[j.Kind+" "+j.Route] += res.N
		total.Notes = append(total.Notes, res.Notes...)
		if len(total.Samples) < 12 {
			total.Samples = append(total.Samples, res.Samples...)
		}
		for _, m := range res.Mism {
			if a, ok := agg[m.Key]; ok {
				a.Count += m.Count
			} else {
				mm := m
				agg[m.Key] = &mm
				aggOrder = append(aggOrder, m.Key)
			}
		}
	})

	sort.Strings(aggOrder)
	for _, k := range aggOrder {
		m := agg[k]
		e.Violation(m.Key, fmt.Sprintf("%s [%d executed cases reduce to this one]", m.What, m.Count), "txt", []byte(m.Replay))
	}
	for _, n := range total.Notes {
		e.Inconclusive("worker note: " + n)
	}

	e.Extra("requests_served", total.Requests)
	e.Extra("responses_with_exactly_one_header_commit", total.Commits1)
	e.Extra("cases_by_workload", perKind)
	e.Extra("middleware_registration_orders_enumerated", orders)
	e.Extra("mismatching_minimal_cases", len(aggOrder))
	e.Extra("worker_crashes", crashes)
	e.Extra("alphabet", func() []string {
		var a []string
		for i, o := range allOps {
			tag := "base"
			if i >= extOps {
				continue
			}
			if i >= baseOps {
				tag = "ext"
			}
			a = append(a, o.code+"="+o.desc+" ("+tag+")")
		}
		return a
	}())
	e.Extra("exhaustive_scope", fmt.Sprintf("all sequences of length <= %d over the %d-op base alphabet on a bare route; length <= %d over the %d-op extended alphabet; length <= %d (base) / <= %d (extended) behind two transparent middlewares and on the throwing route answered by onError; every distribution of <= %d base / <= 2 extended operations over the 5 slots (before/after $next in two middlewares, handler); all %d registration orders of sub-multisets of priorities {-1,0,0,1,5}; every valid interleaving of two groups (sibling or nested) x own middleware x routes on groups and parent, for 0..9 global middlewares; seeded beyond (length 7..12, stacks of 13..40 registrations, 2..3 groups with late parent middlewares)", maxBase, baseOps, maxExt, extOps, maxMw, maxExtMw, e.Pick(2, 3), orders))
	e.Assume(
		"a terminal call that carries its own status (redirect 302/arg, noContent 204/arg, writeHeader arg, html's optional status) counts as setting that status at the moment of the call",
		"write('') / html('') are body write calls and therefore the commit point although they add no byte (net/http: Write([]byte{}) sends the header; the repository's own tests use ->write('') as the commit idiom)",
		"the underlying writer accepts body bytes for every status (like httptest.ResponseRecorder); net/http's own 204/304 body rules are not part of the property",
		"the statement does not say whether the return of an inner layer (handler inside a middleware, throwing handler before onError) commits a pending status: every combination is accepted; one header commit, the concatenated body and no post-commit influence are demanded under each",
	)

	samples := make([]any, 0, len(total.Samples))
	for _, s := range total.Samples {
		samples = append(samples, s)
	}
	e.Finish(lib.Coverage{
		Evaluations:        total.N,
		DistinctNontrivial: total.Nontrivial,
		Rule:               nontrivialRule + "; for middleware stacks: the stack has a priority tie or is not registered in ascending priority order; for route-group histories: at least one group registers a middleware of its own. All executed cases are pairwise distinct (route, sequence) / stack descriptions.",
		Samples:            samples,
		Exhaustive:         true,
	})
}

func firstLines(s string, n int) string {
	l := strings.Split(strings.TrimSpace(s), "\n")
	if len(l) > n {
		l = l[:n]
	}
	return strings.Join(l, " | ")
}
