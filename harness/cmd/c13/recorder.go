package main

import (
	"net/http"
	"sort"
	"strings"
)

// wire is the "underlying connection": it behaves like net/http's own response (the first
// WriteHeader or Write commits status + a snapshot of the header map; later header edits
// are invisible to the client) and records everything it is asked to do.
type wire struct {
	hdr http.Header

	explicit   int   // WriteHeader calls received
	implicit   int   // Write calls that arrived before any WriteHeader (implicit 200 commit)
	codes      []int // every code passed to WriteHeader, in order
	committed  bool
	status     int         // committed status
	snap       http.Header // header map at the commit
	body       []byte
	writeCalls int
}

func newWire() *wire { return &wire{hdr: http.Header{}} }

func (w *wire) Header() http.Header { return w.hdr }

func (w *wire) commit(code int) {
	if w.committed {
		return
	}
	w.committed = true
	w.status = code
	w.snap = w.hdr.Clone()
}

func (w *wire) WriteHeader(code int) {
	w.explicit++
	w.codes = append(w.codes, code)
	w.commit(code)
}

func (w *wire) Write(p []byte) (int, error) {
	w.writeCalls++
	if !w.committed {
		w.implicit++
		w.commit(200)
	}
	w.body = append(w.body, p...)
	return len(p), nil
}

// finish is what net/http does when the outermost handler returns without a commit.
func (w *wire) finish() {
	if !w.committed {
		w.commit(200)
	}
}

// observation is what the client sees plus the commit count.
type observation struct {
	Status  int
	Headers string // canonical rendering of the tracked headers in the committed snapshot
	Body    string
	Commits int // header commits seen by the underlying writer (explicit + implicit)
}

// renderHeaders renders the complete header map of the committed snapshot (every name,
// every value, names sorted): the client-visible header set is compared as a whole.
func renderHeaders(h http.Header) string {
	keys := make([]string, 0, len(h))
	for k := range h {
		keys = append(keys, k)
	}
	sort.Strings(keys)
	parts := make([]string, 0, len(keys))
	for _, k := range keys {
		v := h[k]
		if k == "Set-Cookie" {
			// only name=value is compared: how cookie() renders its options array is not
			// part of this property
			v = append([]string{}, v...)
			for i := range v {
				v[i], _, _ = strings.Cut(v[i], ";")
			}
		}
		parts = append(parts, k+"="+strings.Join(v, "|"))
	}
	return strings.Join(parts, ";")
}

func (w *wire) observe() observation {
	w.finish()
	return observation{Status: w.status, Headers: renderHeaders(w.snap), Body: string(w.body), Commits: w.explicit + w.implicit}
}
