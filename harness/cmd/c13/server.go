package main

import (
	"fmt"
	"net/http"
	"strings"

	"github.com/php-any/origami/data"
	"github.com/php-any/origami/node"
	"github.com/php-any/origami/parser"
	"github.com/php-any/origami/runtime"

	"verif/ori"
)

// goFunc is a script-callable function implemented by the harness (only exported
// interfaces of origami are used: data.FuncStmt + vm.AddFunc).
type goFunc struct {
	name  string
	nargs int
	fn    func(args []data.Value) data.GetValue
}

func (g *goFunc) Call(ctx data.Context) (data.GetValue, data.Control) {
	args := make([]data.Value, 0, g.nargs)
	for i := 0; i < g.nargs; i++ {
		v, ok := ctx.GetIndexValue(i)
		if !ok {
			break
		}
		args = append(args, v)
	}
	return g.fn(args), nil
}
func (g *goFunc) GetName() string { return g.name }
func (g *goFunc) GetParams() []data.GetValue {
	ps := make([]data.GetValue, g.nargs)
	for i := range ps {
		ps[i] = node.NewParameter(nil, fmt.Sprintf("p%d", i), i, nil, nil)
	}
	return ps
}
func (g *goFunc) GetVariables() []data.Variable {
	vs := make([]data.Variable, g.nargs)
	for i := range vs {
		vs[i] = node.NewVariable(nil, fmt.Sprintf("p%d", i), i, nil)
	}
	return vs
}

// world is one VM with the script-side servers the harness drives.
type world struct {
	vm      *runtime.VM
	p       *parser.Parser
	servers map[string]http.Handler // name -> ServeMux captured through verif_server(name, $server)
	cur     map[string]string       // op list per request header, as sent (verif_ops(slot))
	notes   []string                // verif_note() calls (diagnostics from the script)
}

func newWorld() (*world, error) {
	w := &world{servers: map[string]http.Handler{}, cur: map[string]string{}}
	w.vm, w.p = ori.NewVM()
	if c := w.vm.AddFunc(&goFunc{name: "verif_server", nargs: 2, fn: func(a []data.Value) data.GetValue {
		if len(a) == 2 {
			if src, ok := a[1].(interface{ GetSource() any }); ok {
				if h, ok := src.GetSource().(http.Handler); ok {
					w.servers[a[0].AsString()] = h
				}
			}
		}
		return data.NewNullValue()
	}}); c != nil {
		return nil, fmt.Errorf("AddFunc: %s", c.AsString())
	}
	w.vm.AddFunc(&goFunc{name: "verif_ops", nargs: 1, fn: func(a []data.Value) data.GetValue {
		if len(a) != 1 {
			return data.NewStringValue("?")
		}
		return data.NewStringValue(w.cur[a[0].AsString()])
	}})
	w.vm.AddFunc(&goFunc{name: "verif_note", nargs: 1, fn: func(a []data.Value) data.GetValue {
		if len(a) == 1 {
			w.notes = append(w.notes, a[0].AsString())
		}
		return data.NewNullValue()
	}})
	return w, nil
}

// load runs a registration script on the world's VM.
func (w *world) load(src, path string) error {
	r := ori.Run(w.vm, w.p, src, path)
	var errs []string
	if r.ParseErr != nil {
		errs = append(errs, "parse: "+r.ParseErr.AsString())
	}
	if r.Ctl != nil {
		errs = append(errs, "ctl: "+ori.CtlString(r.Ctl))
	}
	if r.Uncaught != nil {
		errs = append(errs, "uncaught: "+ori.CtlString(r.Uncaught))
	}
	if r.Panic != nil {
		errs = append(errs, fmt.Sprintf("panic: %v\n%s", r.Panic, r.PanicStack))
	}
	if len(errs) > 0 {
		return fmt.Errorf("%s (out=%q)", strings.Join(errs, "; "), r.Out)
	}
	return nil
}
