package main

import (
	"fmt"
	"net/http"
	"net/http/httptest"
	"strings"
)

// Route-group family: a parent server, groups created from it (also nested), middlewares
// registered on the parent and on the groups, and routes registered on each of them, as
// one interleaved registration history. Every route must run exactly the middlewares of
// its own server/group — never a sibling's — in ascending priority, ties in registration
// order, each wrapping the later ones.

type gEvent struct {
	Op byte `json:"o"` // 'G' create group T from parent P, 'M' middleware on T with priority P, 'R' route on T
	T  int  `json:"t"` // 0 = the server, i > 0 = group i
	P  int  `json:"p"`
}

type gProg struct {
	Ev []gEvent `json:"e"`
}

func (p gProg) key() string {
	parts := make([]string, len(p.Ev))
	for i, e := range p.Ev {
		switch e.Op {
		case 'G':
			parts[i] = fmt.Sprintf("g%d<%d", e.T, e.P)
		case 'M':
			parts[i] = fmt.Sprintf("m%d:%d", e.T, e.P)
		default:
			parts[i] = fmt.Sprintf("r%d", e.T)
		}
	}
	return "grp:[" + strings.Join(parts, ",") + "]"
}

// valid: every target exists before it is used.
func (p gProg) valid() bool {
	have := map[int]bool{0: true}
	for _, e := range p.Ev {
		if e.Op == 'G' {
			if !have[e.P] || have[e.T] {
				return false
			}
			have[e.T] = true
		} else if !have[e.T] {
			return false
		}
	}
	return true
}

func (p gProg) parentOf() map[int]int {
	m := map[int]int{}
	for _, e := range p.Ev {
		if e.Op == 'G' {
			m[e.T] = e.P
		}
	}
	return m
}

func (p gProg) routes() []int {
	var r []int
	for i, e := range p.Ev {
		if e.Op == 'R' {
			r = append(r, i)
		}
	}
	return r
}

func onion(p gProg, ids []int, route int) string {
	// insertion sort: stable by construction
	for i := 1; i < len(ids); i++ {
		for j := i; j > 0 && p.Ev[ids[j]].P < p.Ev[ids[j-1]].P; j-- {
			ids[j], ids[j-1] = ids[j-1], ids[j]
		}
	}
	var b strings.Builder
	for _, i := range ids {
		fmt.Fprintf(&b, ">%d", i)
	}
	fmt.Fprintf(&b, "H%d", route)
	for k := len(ids) - 1; k >= 0; k-- {
		fmt.Fprintf(&b, "<%d", ids[k])
	}
	return b.String()
}

// expectedBodies returns the acceptable marker strings for the route registered by event
// `route`. The statement (and the docs: "group(prefix): sub-server with a path prefix")
// does not say whether a middleware registered on the parent *after* a group was created
// applies to the group's later routes; both readings are accepted:
//   - snapshot: a group starts with the middlewares its parent had when it was created;
//   - live: a route sees every middleware registered so far on its group or an ancestor.
//
// Under both, a group's own middlewares are present and a sibling's never are.
func (p gProg) expectedBodies(route int) []string {
	parent := p.parentOf()
	// snapshot reading: replay the history
	lists := map[int][]int{0: nil}
	var snap []int
	for i, e := range p.Ev[:route+1] {
		switch e.Op {
		case 'G':
			lists[e.T] = append([]int{}, lists[e.P]...)
		case 'M':
			lists[e.T] = append(lists[e.T], i)
		case 'R':
			if i == route {
				snap = append([]int{}, lists[e.T]...)
			}
		}
	}
	// live reading
	anc := map[int]bool{}
	for t := p.Ev[route].T; ; t = parent[t] {
		anc[t] = true
		if t == 0 {
			break
		}
	}
	var live []int
	for i, e := range p.Ev[:route] {
		if e.Op == 'M' && anc[e.T] {
			live = append(live, i)
		}
	}
	a, b := onion(p, snap, route), onion(p, live, route)
	if a == b {
		return []string{a}
	}
	return []string{a, b}
}

// orderMatters: the route's stack has at least two middlewares and a tie or a
// non-ascending registration, or the program has sibling/nested groups with own
// middlewares (isolation is what is being observed).
func (p gProg) nontrivial() bool {
	groupsWithOwn := map[int]bool{}
	for _, e := range p.Ev {
		if e.Op == 'M' && e.T != 0 {
			groupsWithOwn[e.T] = true
		}
	}
	return len(groupsWithOwn) >= 1
}

func (p gProg) script(name string) string {
	var b strings.Builder
	v := func(t int) string { return fmt.Sprintf("$%s_t%d", name, t) }
	b.WriteString("<?php\nuse Net\\Http\\Server;\n")
	fmt.Fprintf(&b, "%s = new Server('127.0.0.1', 0);\n", v(0))
	for i, e := range p.Ev {
		switch e.Op {
		case 'G':
			fmt.Fprintf(&b, "%s = %s->group('/g%d');\n", v(e.T), v(e.P), e.T)
		case 'M':
			fmt.Fprintf(&b, "%s->middleware(function ($request, $response, $next) { $response->write('>%d'); $next($request, $response); $response->write('<%d'); }, %d);\n", v(e.T), i, i, e.P)
		case 'R':
			fmt.Fprintf(&b, "%s->get('/r%d', function ($req, $res) { $res->write('H%d'); });\n", v(e.T), i, i)
		}
	}
	fmt.Fprintf(&b, "verif_server('%s', %s);\n", name, v(0))
	return b.String()
}

// candidatePaths: how nested prefixes compose is routing, not C13 — the harness asks the
// ServeMux which of the plausible paths the route was registered under.
func (p gProg) candidatePaths(route int) []string {
	parent := p.parentOf()
	t := p.Ev[route].T
	leaf := fmt.Sprintf("/r%d", route)
	if t == 0 {
		return []string{leaf}
	}
	full := ""
	for x := t; x != 0; x = parent[x] {
		full = fmt.Sprintf("/g%d", x) + full
	}
	short := fmt.Sprintf("/g%d", t)
	if full == short {
		return []string{full + leaf}
	}
	return []string{full + leaf, short + leaf}
}

type gOutcome struct {
	Body    string
	Status  int
	Commits int
	Panic   *panicInfo
	NoRoute bool
}

func serveRoute(h http.Handler, p gProg, route int) gOutcome {
	mux, _ := h.(*http.ServeMux)
	var path string
	for _, c := range p.candidatePaths(route) {
		if mux == nil {
			path = c
			break
		}
		if _, pat := mux.Handler(httptest.NewRequest("GET", c, nil)); pat != "" {
			path = c
			break
		}
	}
	if path == "" {
		return gOutcome{NoRoute: true}
	}
	rec := newWire()
	var out gOutcome
	func() {
		defer func() { out.Panic = describePanic(recover()) }()
		h.ServeHTTP(rec, httptest.NewRequest("GET", path, nil))
	}()
	o := rec.observe()
	out.Body, out.Status, out.Commits = o.Body, o.Status, o.Commits
	return out
}

func (p gProg) check(route int, o gOutcome) (field, detail string) {
	want := p.expectedBodies(route)
	switch {
	case o.NoRoute:
		return "", ""
	case o.Panic != nil:
		return o.Panic.Site, o.Panic.What
	case o.Commits > 1:
		return "commits", fmt.Sprintf("%d header commits on the underlying writer", o.Commits)
	}
	for _, w := range want {
		if o.Body == w {
			return "", ""
		}
	}
	return "order", fmt.Sprintf("markers %q, want %s", o.Body, strings.Join(quoteAll(want), " or "))
}

func quoteAll(l []string) []string {
	o := make([]string, len(l))
	for i, s := range l {
		o[i] = fmt.Sprintf("%q", s)
	}
	return o
}

// without removes event i (and, for a group creation, everything that uses the group or
// a group nested in it); it returns the new program and the new index of `route` (-1 when
// the route itself went away).
func (p gProg) without(i, route int) (gProg, int) {
	dead := map[int]bool{}
	if p.Ev[i].Op == 'G' {
		dead[p.Ev[i].T] = true
	}
	var q gProg
	nr := -1
	for k, e := range p.Ev {
		if e.Op == 'G' && dead[e.P] {
			dead[e.T] = true
		}
		if k == i || (e.Op == 'G' && dead[e.T]) || (e.Op != 'G' && dead[e.T]) {
			continue
		}
		if k == route {
			nr = len(q.Ev)
		}
		q.Ev = append(q.Ev, e)
	}
	return q, nr
}

type grpRunner struct {
	w   *world
	seq int
}

func (g *grpRunner) run(p gProg) (http.Handler, string) {
	g.seq++
	name := fmt.Sprintf("gp%d", g.seq)
	if err := g.w.load(p.script(name), "/verif-inproc/c13grp.php"); err != nil {
		return nil, err.Error()
	}
	h := g.w.servers[name]
	delete(g.w.servers, name)
	if h == nil {
		return nil, "script did not hand over its server"
	}
	return h, ""
}

// shrink deletes registrations while the same route still fails in the same field.
func (g *grpRunner) shrink(p gProg, route int, field string) (gProg, int, string) {
	detail := ""
	budget := 300
	for changed := true; changed && budget > 0; {
		changed = false
		for i := 0; i < len(p.Ev) && budget > 0; i++ {
			if i == route {
				continue
			}
			q, nr := p.without(i, route)
			if nr < 0 || !q.valid() {
				continue
			}
			budget--
			h, lerr := g.run(q)
			if lerr != "" {
				continue
			}
			if f, d := q.check(nr, serveRoute(h, q, nr)); f == field {
				p, route, detail = q, nr, d
				changed = true
				i--
			}
		}
	}
	// simplify priorities (0 wherever the failure does not depend on them) and number the
	// groups in creation order, so that one defect yields few keys
	for i := range p.Ev {
		if p.Ev[i].Op == 'M' && p.Ev[i].P != 0 && budget > 0 {
			q := gProg{Ev: append([]gEvent{}, p.Ev...)}
			q.Ev[i].P = 0
			budget--
			if h, lerr := g.run(q); lerr == "" {
				if f, d := q.check(route, serveRoute(h, q, route)); f == field {
					p, detail = q, d
				}
			}
		}
	}
	ren := map[int]int{0: 0}
	q := gProg{Ev: append([]gEvent{}, p.Ev...)}
	for _, e := range q.Ev {
		if e.Op == 'G' {
			ren[e.T] = len(ren)
		}
	}
	for i, e := range q.Ev {
		q.Ev[i].T = ren[e.T]
		if e.Op == 'G' {
			q.Ev[i].P = ren[e.P]
		}
	}
	if h, lerr := g.run(q); lerr == "" {
		if f, d := q.check(route, serveRoute(h, q, route)); f == field {
			p, detail = q, d
		}
	}
	return p, route, detail
}
