package main

import (
	"net/http"
	"strings"
)

// The reference model of commit-once semantics. It shares no code with origami: it is
// written from the property statement.
//
//   - status(c) records the pending status while nothing was committed, and is ignored
//     afterwards;
//   - header/cookie edit the header map; only the map as it was at the commit reaches
//     the client;
//   - the first body byte (write/json/html) or terminal call (redirect/noContent/
//     writeHeader) commits: pending status + current header map, exactly once;
//     a terminal call that carries its own status (302/204/202 or the explicit argument)
//     sets it only if nothing was committed before;
//   - at handler return a status chosen by the script is committed even without a body;
//     if the script chose nothing, net/http itself answers 200 with the header map as
//     it is then.
type model struct {
	status    int
	statusSet bool
	committed bool
	hdr       http.Header
	snap      http.Header
	body      strings.Builder

	// non-triviality counters (measured, reported in the evidence)
	ignoredStatus  int // status/terminal status arriving after the commit
	lateHeader     int // header edit after the commit
	overwrites     int // pending status or header replaced before the commit
	commitAttempts int // ops that would commit (first one wins)
}

func newModel() *model { return &model{status: 200, hdr: http.Header{}} }

func (m *model) setStatus(c int) {
	if m.committed {
		m.ignoredStatus++
		return
	}
	if m.statusSet {
		m.overwrites++
	}
	m.status, m.statusSet = c, true
}

func (m *model) setHeader(k, v string) {
	if m.committed {
		m.lateHeader++
	} else if _, ok := m.hdr[k]; ok {
		m.overwrites++
	}
	m.hdr.Set(k, v)
}

func (m *model) addHeader(k, v string) {
	if m.committed {
		m.lateHeader++
	}
	m.hdr.Add(k, v)
}

func (m *model) commit() {
	m.commitAttempts++
	if m.committed {
		return
	}
	m.committed = true
	m.snap = m.hdr.Clone()
}

func (m *model) write(s string) { m.commit(); m.body.WriteString(s) }

// terminal: a call that carries its own status and commits.
func (m *model) terminal(code int) {
	if m.committed {
		m.ignoredStatus++
	} else {
		if m.statusSet {
			m.overwrites++
		}
		m.status, m.statusSet = code, true
	}
	m.commit()
}

var longBody = strings.Repeat("x", 70000)

const (
	ctJSON = "application/json; charset=utf-8"
	ctHTML = "text/html; charset=utf-8"
)

// op is one response operation of the alphabet: the script side lives in script.go
// (verif_apply), the model side here.
type op struct {
	code string
	desc string
	step func(m *model)
}

var allOps = []op{
	// the property's alphabet (DESIGN.md C13): 11 operations + raw writeHeader
	{"S1", "status(201)", func(m *model) { m.setStatus(201) }},
	{"S4", "status(404)", func(m *model) { m.setStatus(404) }},
	{"H1", "header('X-A','1')", func(m *model) { m.setHeader("X-A", "1") }},
	{"H2", "header('X-A','2')", func(m *model) { m.setHeader("X-A", "2") }},
	{"C", "cookie('c','v',['path'=>'/'])", func(m *model) { m.addHeader("Set-Cookie", "c=v") }},
	{"Wa", "write('a')", func(m *model) { m.write("a") }},
	{"Wb", "write('b')", func(m *model) { m.write("b") }},
	{"J", "json(['k'=>1])", func(m *model) { m.setHeader("Content-Type", ctJSON); m.write(`{"k":1}`) }},
	{"T", "html('<p>')", func(m *model) { m.setHeader("Content-Type", ctHTML); m.write("<p>") }},
	{"R", "redirect('/r')", func(m *model) { m.setHeader("Location", "/r"); m.terminal(302) }},
	{"N", "noContent()", func(m *model) { m.terminal(204) }},
	{"X", "writeHeader(202)", func(m *model) { m.terminal(202) }},
	// extended alphabet: argument variants of the same operations and the fluent chain
	{"H3", "header('X-B','3')", func(m *model) { m.setHeader("X-B", "3") }},
	{"T3", "html('<q>',203)", func(m *model) { m.setStatus(203); m.setHeader("Content-Type", ctHTML); m.write("<q>") }},
	{"R1", "redirect('/m',301)", func(m *model) { m.setHeader("Location", "/m"); m.terminal(301) }},
	{"N5", "noContent(205)", func(m *model) { m.terminal(205) }},
	{"K", "status(201)->header('X-B','4')->write('k')", func(m *model) { m.setStatus(201); m.setHeader("X-B", "4"); m.write("k") }},
	// boundary arguments of the same operations. An empty write is still a body write call:
	// it is the commit point (net/http: Write([]byte{}) sends the header) although it adds
	// no byte.
	{"W0", "write('')", func(m *model) { m.write("") }},
	{"Wz", "write('0')", func(m *model) { m.write("0") }},
	{"Ws", "write(\" \\n\")", func(m *model) { m.write(" \n") }},
	{"Wu", "write('héllo✓')", func(m *model) { m.write("héllo✓") }},
	{"Wl", "write(str_repeat('x',70000))", func(m *model) { m.write(longBody) }},
	{"J0", "json([])", func(m *model) { m.setHeader("Content-Type", ctJSON); m.write("[]") }},
	{"T0", "html('')", func(m *model) { m.setHeader("Content-Type", ctHTML); m.write("") }},
	{"H0", "header('X-A','')", func(m *model) { m.setHeader("X-A", "") }},
	{"C0", "cookie('c','',['path'=>'/'])", func(m *model) { m.addHeader("Set-Cookie", "c=") }},
	// explicit header() calls on the names that json()/html()/redirect()/cookie() set
	// implicitly: per name the last value set before the commit reaches the client,
	// whoever set it
	{"HC", "header('Content-Type','text/plain')", func(m *model) { m.setHeader("Content-Type", "text/plain") }},
	{"HL", "header('Location','/x')", func(m *model) { m.setHeader("Location", "/x") }},
	{"HK", "header('Set-Cookie','z=1')", func(m *model) { m.setHeader("Set-Cookie", "z=1") }},
	// internal: what the onError closure of route /eops does; never enumerated
	{"S5", "status(500)", func(m *model) { m.setStatus(500) }},
	{"We", "write('E')", func(m *model) { m.write("E") }},
}

const (
	baseOps = 12 // allOps[:baseOps] is the property's alphabet
	extOps  = 29 // allOps[:extOps] adds the argument variants
	opS5    = 29
	opWe    = 30
	opRET   = 255 // pseudo step: a layer (handler / middleware) returns -> pending status is committed
)

var opIndex = func() map[string]int {
	m := map[string]int{}
	for i, o := range allOps {
		m[o.code] = i
	}
	return m
}()

type expectation struct {
	observation
	nontrivial bool
}

// expectSteps steps the model over operations and layer returns; the outermost return is
// implied at the end.
func expectSteps(steps []uint8) expectation {
	m := newModel()
	ret := func() {
		if !m.committed && m.statusSet {
			m.commit()
			m.commitAttempts-- // a return is not an operation competing for the commit
		}
	}
	for _, i := range steps {
		if i == opRET {
			ret()
			continue
		}
		allOps[i].step(m)
	}
	ret()
	commits := 0
	if m.committed {
		commits = 1
	} else {
		m.snap = m.hdr.Clone() // net/http's implicit 200
	}
	return expectation{
		observation: observation{Status: m.status, Headers: renderHeaders(m.snap), Body: m.body.String(), Commits: commits},
		nontrivial:  m.ignoredStatus+m.lateHeader+m.overwrites > 0 || m.commitAttempts > 1,
	}
}

// expect is the model's answer for a plain handler performing seq.
func expect(seq []uint8) expectation { return expectSteps(seq) }

// A route of the registration script: how many op slots a request carries and which
// model answers are acceptable for them.
type routeSpec struct {
	path   string
	server string
	slots  []string // request header carrying the op list of each slot, in execution order
	what   string
	accept func(slots [][]uint8) []expectation
}

func flat(slots [][]uint8, retAfter map[int]bool, tail ...uint8) []uint8 {
	var out []uint8
	for i, s := range slots {
		out = append(out, s...)
		if retAfter[i] {
			out = append(out, opRET)
		}
	}
	return append(out, tail...)
}

var routes = map[string]*routeSpec{
	"/ops": {path: "/ops", server: "ops", slots: []string{"X-Ops"}, what: "bare handler",
		accept: func(s [][]uint8) []expectation { return []expectation{expectSteps(s[0])} }},
	"/mops": {path: "/mops", server: "ops", slots: []string{"X-Ops"}, what: "handler behind two transparent middlewares",
		accept: func(s [][]uint8) []expectation { return []expectation{expectSteps(s[0])} }},
	// the handler throws after its operations; the server's onError closure then does
	// status(500)->write('E') on the same response. The statement does not say whether the
	// throwing handler's pending status is committed before onError runs: both readings are
	// accepted; one header commit and the concatenated body are demanded in both.
	"/eops": {path: "/eops", server: "err", slots: []string{"X-Ops"}, what: "handler that throws after its operations, answered by onError",
		accept: func(s [][]uint8) []expectation {
			return []expectation{
				expectSteps(flat(s, map[int]bool{0: true}, opS5, opWe)),
				expectSteps(flat(s, nil, opS5, opWe)),
			}
		}},
	// operations in the middlewares around the handler: outer-pre | inner-pre | handler |
	// inner-post | outer-post. Whether an inner layer's return commits a pending status is
	// not fixed by the statement: both readings are accepted.
	"/wops": {path: "/wops", server: "wrap", slots: []string{"X-Ops-0", "X-Ops-1", "X-Ops", "X-Ops-2", "X-Ops-3"}, what: "operations before/after $next in two middlewares (closure outside, handle()-class inside) and in the handler",
		accept: func(s [][]uint8) []expectation {
			return []expectation{
				expectSteps(flat(s, map[int]bool{2: true, 3: true})),
				expectSteps(flat(s, map[int]bool{2: true})),
				expectSteps(flat(s, map[int]bool{3: true})),
				expectSteps(flat(s, nil)),
			}
		}},
}

const nontrivialRule = "the commit-once model took an order-dependent branch on the case: a status or terminal status arrived after the commit, a header was edited after the commit, a pending status/header was overwritten before the commit, or more than one operation tried to commit"

func seqString(seq []uint8) string {
	parts := make([]string, len(seq))
	for i, o := range seq {
		parts[i] = allOps[o].code
	}
	return strings.Join(parts, ",")
}

func seqDescribe(seq []uint8) string {
	parts := make([]string, len(seq))
	for i, o := range seq {
		parts[i] = "$res->" + allOps[o].desc + ";"
	}
	return strings.Join(parts, " ")
}

func parseSeq(s string) ([]uint8, bool) {
	if s == "" {
		return nil, true
	}
	var out []uint8
	for _, c := range strings.Split(s, ",") {
		i, ok := opIndex[c]
		if !ok {
			return nil, false
		}
		out = append(out, uint8(i))
	}
	return out, true
}

// slots are written "a,b|c||d": one comma list per slot, slots separated by '|'.
func slotsString(slots [][]uint8) string {
	parts := make([]string, len(slots))
	for i, s := range slots {
		parts[i] = seqString(s)
	}
	return strings.Join(parts, "|")
}

func slotsDescribe(slots [][]uint8) string {
	if len(slots) == 1 {
		return seqDescribe(slots[0])
	}
	names := []string{"outer-pre", "inner-pre", "handler", "inner-post", "outer-post"}
	var parts []string
	for i, s := range slots {
		if len(s) > 0 {
			parts = append(parts, names[i%len(names)]+"{ "+seqDescribe(s)+" }")
		}
	}
	return strings.Join(parts, " ")
}

func parseSlots(s string, n int) ([][]uint8, bool) {
	parts := strings.Split(s, "|")
	if len(parts) != n {
		return nil, false
	}
	out := make([][]uint8, n)
	for i, p := range parts {
		q, ok := parseSeq(p)
		if !ok {
			return nil, false
		}
		out[i] = q
	}
	return out, true
}
