package main

import (
	"fmt"
	"net/http/httptest"
	"sort"
	"strings"
)

// mwEntry is one $server->middleware(...) registration.
type mwEntry struct {
	Prio int  `json:"p"`
	Kind byte `json:"k"` // 'c' closure, 'k' object with handle()
	Ret  bool `json:"r"` // middleware returns $next()'s result instead of just calling it
	Omit bool `json:"o"` // priority argument omitted (documented default 0); only when Prio==0
}

// mwStack is one enumerated/seeded case: the registrations in order, and optionally one
// entry (registration index) that answers itself without calling $next.
type mwStack struct {
	Entries []mwEntry `json:"e"`
	Short   int       `json:"s"` // -1: every middleware calls $next
	// Split >= 0: the first Split registrations are made on the server, then
	// $g = $server->group('/g') is created (it inherits them) and the remaining
	// registrations and the route are made on $g. -1: no group.
	Split int `json:"g"`
}

func (s mwStack) key() string {
	parts := make([]string, len(s.Entries))
	for i, e := range s.Entries {
		t := fmt.Sprintf("%d%c", e.Prio, e.Kind)
		if e.Ret {
			t += "r"
		}
		if e.Omit {
			t += "o"
		}
		parts[i] = t
	}
	g := ""
	if s.Split >= 0 {
		g = fmt.Sprintf(":group@%d", s.Split)
	}
	return fmt.Sprintf("mw:[%s]:short=%d%s", strings.Join(parts, ","), s.Short, g)
}

// expectedBody is the reference: ascending priority, ties in registration order, each
// wrapping all later ones. Middleware i writes ">i" before and "<i" after $next; the
// handler writes "H".
func (s mwStack) expectedBody() string {
	idx := make([]int, len(s.Entries))
	for i := range idx {
		idx[i] = i
	}
	// insertion sort written out: stable by construction, shares nothing with package sort's
	// implementation choice under test
	for i := 1; i < len(idx); i++ {
		for j := i; j > 0 && s.Entries[idx[j]].Prio < s.Entries[idx[j-1]].Prio; j-- {
			idx[j], idx[j-1] = idx[j-1], idx[j]
		}
	}
	var pre, post []string
	reached := true
	for _, i := range idx {
		pre = append(pre, fmt.Sprintf(">%d", i))
		post = append(post, fmt.Sprintf("<%d", i))
		if i == s.Short {
			reached = false
			break
		}
	}
	var b strings.Builder
	b.WriteString(strings.Join(pre, ""))
	if reached {
		b.WriteString("H")
	}
	for i := len(post) - 1; i >= 0; i-- {
		b.WriteString(post[i])
	}
	return b.String()
}

func (s mwStack) script() string {
	var b strings.Builder
	b.WriteString("<?php\nuse Net\\Http\\Server;\n")
	body := func(i int) string {
		pre := fmt.Sprintf("$response->write('>%d');", i)
		post := fmt.Sprintf("$response->write('<%d');", i)
		if i == s.Short {
			return pre + " " + post
		}
		if s.Entries[i].Ret {
			return pre + " $verifRet = $next($request, $response); " + post + " return $verifRet;"
		}
		return pre + " $next($request, $response); " + post
	}
	for i, e := range s.Entries {
		if e.Kind == 'k' {
			fmt.Fprintf(&b, "class VerifMw%d {\n    public function handle($request, $response, $next) { %s }\n}\n", i, body(i))
		}
	}
	b.WriteString("$server = new Server('127.0.0.1', 0);\n")
	target, path := "$server", "/h"
	for i, e := range s.Entries {
		if i == s.Split {
			b.WriteString("$g = $server->group('/g');\n")
			target, path = "$g", "/g/h"
		}
		arg := fmt.Sprintf("function ($request, $response, $next) { %s }", body(i))
		if e.Kind == 'k' {
			arg = fmt.Sprintf("new VerifMw%d()", i)
		}
		if e.Omit && e.Prio == 0 {
			fmt.Fprintf(&b, "%s->middleware(%s);\n", target, arg)
		} else {
			fmt.Fprintf(&b, "%s->middleware(%s, %d);\n", target, arg, e.Prio)
		}
	}
	if s.Split >= len(s.Entries) {
		b.WriteString("$g = $server->group('/g');\n")
		target, path = "$g", "/g/h"
	}
	fmt.Fprintf(&b, "%s->get('/h', function ($req, $res) { $res->write('H'); });\nverif_server('mw', $server);\n// request: GET %s\n", target, path)
	return b.String()
}

func (s mwStack) path() string {
	if s.Split >= 0 {
		return "/g/h"
	}
	return "/h"
}

type mwOutcome struct {
	Body    string
	Status  int
	Commits int
	Panic   *panicInfo
	LoadErr string
}

// runStack registers the stack on a fresh VM and sends one request through it.
func runStack(s mwStack) mwOutcome {
	w, err := newWorld()
	if err != nil {
		return mwOutcome{LoadErr: err.Error()}
	}
	if err := w.load(s.script(), "/verif-inproc/c13mw.php"); err != nil {
		return mwOutcome{LoadErr: err.Error()}
	}
	h := w.servers["mw"]
	if h == nil {
		return mwOutcome{LoadErr: "script did not hand over its server"}
	}
	rec := newWire()
	req := httptest.NewRequest("GET", s.path(), nil)
	var out mwOutcome
	func() {
		defer func() { out.Panic = describePanic(recover()) }()
		h.ServeHTTP(rec, req)
	}()
	o := rec.observe()
	out.Body, out.Status, out.Commits = o.Body, o.Status, o.Commits
	return out
}

// check returns "" when the stack behaved as the property says, else what differed.
func (s mwStack) check(o mwOutcome) (field, detail string) {
	want := s.expectedBody()
	switch {
	case o.LoadErr != "":
		return "", "" // decided by the caller: inconclusive, not a violation
	case o.Panic != nil:
		return o.Panic.Site, o.Panic.What
	case o.Body != want:
		return "order", fmt.Sprintf("markers %q, want %q", o.Body, want)
	case o.Status != 200:
		return "status", fmt.Sprintf("status %d, want 200", o.Status)
	case o.Commits > 1:
		return "commits", fmt.Sprintf("%d header commits on the underlying writer", o.Commits)
	}
	return "", ""
}

// shrinkStack removes registrations / simplifies kinds while the stack still fails.
func shrinkStack(s mwStack) (mwStack, string, string) {
	field, detail := s.check(runStack(s))
	if field == "" {
		return s, "", ""
	}
	budget := 400
	try := func(c mwStack) bool {
		if budget <= 0 {
			return false
		}
		budget--
		f, d := c.check(runStack(c))
		if f != "" {
			s, field, detail = c, f, d
			return true
		}
		return false
	}
	for changed := true; changed; {
		changed = false
		for i := 0; i < len(s.Entries); i++ {
			c := mwStack{Short: s.Short, Split: s.Split}
			if s.Split > i {
				c.Split--
			}
			c.Entries = append(append([]mwEntry{}, s.Entries[:i]...), s.Entries[i+1:]...)
			if s.Short == i {
				c.Short = -1
			} else if s.Short > i {
				c.Short--
			}
			if try(c) {
				changed = true
				i--
			}
		}
		if s.Short >= 0 {
			c := mwStack{Entries: s.Entries, Short: -1, Split: s.Split}
			if try(c) {
				changed = true
			}
		}
		if s.Split >= 0 {
			c := mwStack{Entries: s.Entries, Short: s.Short, Split: -1}
			if try(c) {
				changed = true
			}
		}
		for i := range s.Entries {
			e := s.Entries[i]
			if e.Kind == 'k' || e.Ret || e.Omit {
				c := mwStack{Short: s.Short, Split: s.Split, Entries: append([]mwEntry{}, s.Entries...)}
				c.Entries[i] = mwEntry{Prio: e.Prio, Kind: 'c'}
				if try(c) {
					changed = true
				}
			}
		}
	}
	return s, field, detail
}

// enumerateStacks lists every registration order of every sub-multiset of the priority
// multiset {-1,0,0,1,5} (the two zeros differ only by registration position).
func enumerateStacks() [][]int {
	pool := []int{-1, 0, 0, 1, 5}
	seen := map[string]bool{}
	var out [][]int
	var rec func(cur []int, used int)
	rec = func(cur []int, used int) {
		k := fmt.Sprint(cur)
		if !seen[k] {
			seen[k] = true
			out = append(out, append([]int{}, cur...))
		}
		for i, p := range pool {
			if used&(1<<i) == 0 {
				rec(append(cur, p), used|1<<i)
			}
		}
	}
	rec(nil, 0)
	sort.SliceStable(out, func(i, j int) bool { return len(out[i]) < len(out[j]) })
	return out
}
