package main

// handlerScript registers the servers the harness drives. Every handler / middleware
// interprets an op list taken from the request (headers X-Ops, X-Ops-<n>), so one
// registration serves all sequences; verif_ops() is the harness' own copy of the list and
// only cross-checks that the request carried it unchanged.
const handlerScript = `<?php
use Net\Http\Server;

function verif_apply($res, $op) {
    if ($op == 'S1') { $res->status(201); }
    elseif ($op == 'S4') { $res->status(404); }
    elseif ($op == 'H1') { $res->header('X-A', '1'); }
    elseif ($op == 'H2') { $res->header('X-A', '2'); }
    elseif ($op == 'H3') { $res->header('X-B', '3'); }
    elseif ($op == 'C') { $res->cookie('c', 'v', ['path' => '/']); }
    elseif ($op == 'Wa') { $res->write('a'); }
    elseif ($op == 'Wb') { $res->write('b'); }
    elseif ($op == 'J') { $res->json(['k' => 1]); }
    elseif ($op == 'T') { $res->html('<p>'); }
    elseif ($op == 'T3') { $res->html('<q>', 203); }
    elseif ($op == 'R') { $res->redirect('/r'); }
    elseif ($op == 'R1') { $res->redirect('/m', 301); }
    elseif ($op == 'N') { $res->noContent(); }
    elseif ($op == 'N5') { $res->noContent(205); }
    elseif ($op == 'X') { $res->writeHeader(202); }
    elseif ($op == 'K') { $res->status(201)->header('X-B', '4')->write('k'); }
    elseif ($op == 'W0') { $res->write(''); }
    elseif ($op == 'Wz') { $res->write('0'); }
    elseif ($op == 'Ws') { $res->write(" \n"); }
    elseif ($op == 'Wu') { $res->write('héllo✓'); }
    elseif ($op == 'Wl') { $res->write(str_repeat('x', 70000)); }
    elseif ($op == 'J0') { $res->json([]); }
    elseif ($op == 'T0') { $res->html(''); }
    elseif ($op == 'H0') { $res->header('X-A', ''); }
    elseif ($op == 'C0') { $res->cookie('c', '', ['path' => '/']); }
    elseif ($op == 'HC') { $res->header('Content-Type', 'text/plain'); }
    elseif ($op == 'HL') { $res->header('Location', '/x'); }
    elseif ($op == 'HK') { $res->header('Set-Cookie', 'z=1'); }
    else { verif_note('unknown op ' . $op); }
}

function verif_run($req, $res, $slot) {
    $ops = $req->header($slot);
    if ($ops !== verif_ops($slot)) { verif_note('ops mismatch in ' . $slot . ': ' . $ops); }
    if ($ops === '') { return; }
    foreach (explode(',', $ops) as $op) {
        verif_apply($res, $op);
    }
}

// bare handler
$server = new Server('127.0.0.1', 0);
$server->get('/ops', function ($req, $res) {
    verif_run($req, $res, 'X-Ops');
});

// the same handler behind two transparent middlewares (one closure, one handle()-class):
// wrapping must not change what the client receives
class VerifPassMw {
    public function handle($request, $response, $next) {
        return $next($request, $response);
    }
}
$server->middleware(function ($request, $response, $next) {
    $next($request, $response);
}, 1);
$server->middleware(new VerifPassMw(), 0);
$server->get('/mops', function ($req, $res) {
    verif_run($req, $res, 'X-Ops');
});
verif_server('ops', $server);

// a handler that throws after its operations; onError answers on the same response
$es = new Server('127.0.0.1', 0);
$es->onError(function ($request, $response, $error) {
    $response->status(500)->write('E');
});
$es->get('/eops', function ($req, $res) {
    verif_run($req, $res, 'X-Ops');
    throw new Exception('verif');
});
verif_server('err', $es);

// operations before and after $next in two middlewares around the handler
class VerifWrapInner {
    public function handle($request, $response, $next) {
        verif_run($request, $response, 'X-Ops-1');
        $next($request, $response);
        verif_run($request, $response, 'X-Ops-2');
    }
}
$ws = new Server('127.0.0.1', 0);
$ws->middleware(new VerifWrapInner(), 2);
$ws->middleware(function ($request, $response, $next) {
    verif_run($request, $response, 'X-Ops-0');
    $next($request, $response);
    verif_run($request, $response, 'X-Ops-3');
}, -1);
$ws->get('/wops', function ($req, $res) {
    verif_run($req, $res, 'X-Ops');
});
verif_server('wrap', $ws);
`
