package main

import (
	"fmt"
	"net/http/httptest"
	"os"
	"runtime/debug"
	"strings"

	"github.com/php-any/origami/data"

	"verif/lib"
)

// panicInfo describes something that escaped ServeHTTP: a script-level throw (the
// handler re-panics the control so that onError / net/http can deal with it) or a Go
// runtime panic.
type panicInfo struct {
	What string
	Site string // innermost repository frame for Go panics, "script-throw" for controls
}

func (p *panicInfo) String() string {
	if p == nil {
		return "<none>"
	}
	return p.Site + ": " + p.What
}

func describePanic(r any) *panicInfo {
	if r == nil {
		return nil
	}
	if c, ok := r.(data.Control); ok {
		s := c.AsString()
		if len(s) > 300 {
			s = s[:300]
		}
		return &panicInfo{What: s, Site: "script-throw"}
	}
	return &panicInfo{What: fmt.Sprint(r), Site: "panic@" + lib.PanicSite(string(debug.Stack()))}
}

// probeScript is a development aid: c13 script <file.php> <server-name> <path> [ops]
func probeScript(args []string) {
	w, err := newWorld()
	if err != nil {
		fmt.Println(err)
		os.Exit(2)
	}
	src, err := os.ReadFile(args[0])
	if err != nil {
		fmt.Println(err)
		os.Exit(2)
	}
	if err := w.load(string(src), args[0]); err != nil {
		fmt.Println("load:", err)
		os.Exit(2)
	}
	h := w.servers[args[1]]
	if h == nil {
		fmt.Println("no server named", args[1])
		os.Exit(2)
	}
	rec := newWire()
	req := httptest.NewRequest("GET", args[2], nil)
	if len(args) > 3 {
		req.Header.Set("X-Ops", args[3])
		w.cur["X-Ops"] = args[3]
	}
	var p *panicInfo
	func() {
		defer func() { p = describePanic(recover()) }()
		h.ServeHTTP(rec, req)
	}()
	fmt.Printf("%+v codes=%v panic=%v notes=%v\n", rec.observe(), rec.codes, p, w.notes)
}

// probe is a development aid: c13 probe [/route] 'S1,Wa' 'H1|N||Wa|' ...
func probe(args []string) {
	w, err := newOpsWorld()
	if err != nil {
		fmt.Println(err)
		os.Exit(2)
	}
	rs := routes["/ops"]
	for _, a := range args {
		if len(a) > 0 && a[0] == '/' {
			if routes[a] == nil {
				fmt.Println("unknown route", a)
				os.Exit(2)
			}
			rs = routes[a]
			continue
		}
		slots, ok := parseSlots(a, len(rs.slots))
		if !ok {
			fmt.Println("bad case", a)
			continue
		}
		o, perr := w.serve(rs, slots)
		var models []string
		for _, e := range rs.accept(slots) {
			models = append(models, fmt.Sprintf("%+v", e.observation))
		}
		f, _ := diffFields(o, perr, rs.accept(slots))
		fmt.Printf("%-6s %-24s -> %+v\n       model: %s\n       differs in: %v panic=%v notes=%v\n", rs.path, a, o, strings.Join(models, " or "), f, perr, w.notes)
		w.notes = nil
	}
}

func newOpsWorld() (*world, error) {
	w, err := newWorld()
	if err != nil {
		return nil, err
	}
	if err := w.load(handlerScript, "/verif-inproc/c13.php"); err != nil {
		return nil, fmt.Errorf("registration script: %v", err)
	}
	for _, rs := range routes {
		if w.servers[rs.server] == nil {
			return nil, fmt.Errorf("registration script did not hand over server %q", rs.server)
		}
	}
	return w, nil
}

// serve sends one request carrying the op lists through the script's ServeMux to the
// recording wire and returns what the client would see.
func (w *world) serve(rs *routeSpec, slots [][]uint8) (o observation, panicked *panicInfo) {
	h := w.servers[rs.server]
	rec := newWire()
	req := httptest.NewRequest("GET", rs.path, nil)
	for i, name := range rs.slots {
		v := seqString(slots[i])
		req.Header.Set(name, v)
		w.cur[name] = v
	}
	func() {
		defer func() { panicked = describePanic(recover()) }()
		h.ServeHTTP(rec, req)
	}()
	return rec.observe(), panicked
}
