package main

import (
	"encoding/json"
	"fmt"
	"os"
	"strings"
)

// A job is one batch of cases executed by a child process (in-process origami work never
// runs in the driver: a Go-level crash must not take the verdict with it).
type job struct {
	Kind    string    `json:"kind"` // enum | list | mw
	Route   string    `json:"route,omitempty"`
	Alpha   int       `json:"alpha,omitempty"` // enum: alphabet = allOps[:Alpha]
	L       int       `json:"l,omitempty"`     // enum: sequence length
	Lo      int64     `json:"lo,omitempty"`    // enum: index range [Lo,Hi) of the base-Alpha numbering
	Hi      int64     `json:"hi,omitempty"`
	OnlyExt bool      `json:"only_ext,omitempty"` // enum: skip sequences that use base operations only (covered elsewhere)
	Seqs    []string  `json:"seqs,omitempty"`
	Stacks  []mwStack `json:"stacks,omitempty"`
	Progs   []gProg   `json:"progs,omitempty"`
}

type mismatch struct {
	Key    string `json:"key"`
	What   string `json:"what"`
	Replay string `json:"replay"`
	Count  int    `json:"count"` // cases of this batch that shrank to this key
}

type sample struct {
	Case     string `json:"case"`
	Observed string `json:"observed"`
}

type result struct {
	Done       bool       `json:"done"`
	N          int        `json:"n"`
	Nontrivial int        `json:"nontrivial"`
	Commits1   int        `json:"commits1"` // cases in which the wire saw exactly one header commit
	Requests   int        `json:"requests"` // requests served, shrinking included
	Mism       []mismatch `json:"mism"`
	Notes      []string   `json:"notes"`
	Samples    []sample   `json:"samples"`
	Fatal      string     `json:"fatal,omitempty"`
}

func (j job) caseCount() int {
	switch j.Kind {
	case "enum":
		return int(j.Hi - j.Lo)
	case "list":
		return len(j.Seqs)
	case "grp":
		return 3 * len(j.Progs)
	}
	return len(j.Stacks)
}

func decodeIndex(idx int64, alpha, l int, buf []uint8) []uint8 {
	buf = buf[:l]
	for p := l - 1; p >= 0; p-- {
		buf[p] = uint8(idx % int64(alpha))
		idx /= int64(alpha)
	}
	return buf
}

type opsRunner struct {
	w        *world
	route    *routeSpec
	requests int
	memo     map[string]*mismatch
	res      *result
}

var allFields = []string{"status", "headers", "body", "commits"}

// diffFields lists the observable fields in which the observation disagrees with the
// closest acceptable model answer (nil: the property held on this case).
func diffFields(o observation, p *panicInfo, accepts []expectation) (fields []string, detail map[string]string) {
	detail = map[string]string{}
	if p != nil {
		return []string{p.Site}, map[string]string{p.Site: p.What}
	}
	best := -1
	for _, e := range accepts {
		var f []string
		d := map[string]string{}
		if o.Status != e.Status {
			f = append(f, "status")
			d["status"] = fmt.Sprintf("client status %d, model %d", o.Status, e.Status)
		}
		if o.Headers != e.Headers {
			f = append(f, "headers")
			d["headers"] = fmt.Sprintf("committed headers {%s}, model {%s}", o.Headers, e.Headers)
		}
		if o.Body != e.Body {
			f = append(f, "body")
			d["body"] = fmt.Sprintf("body %s, model %s", clip(o.Body), clip(e.Body))
		}
		if best < 0 || len(f) < best {
			best, fields, detail = len(f), f, d
		}
	}
	// "at most one header commit" needs no model. (0 vs 1 commits with identical status,
	// headers and body is not observable by a client and is not compared.)
	if o.Commits > 1 {
		fields = append(fields, "commits")
		detail["commits"] = fmt.Sprintf("%d header commits reached the underlying writer", o.Commits)
	}
	return fields, detail
}

func (r *opsRunner) run(slots [][]uint8) (observation, []expectation, []string, map[string]string) {
	r.requests++
	o, p := r.w.serve(r.route, slots)
	acc := r.route.accept(slots)
	if len(r.w.notes) > 0 {
		// the script could not interpret the request as sent (op list altered on its way
		// through the request object, unknown op): the case decides nothing about C13
		if len(r.res.Notes) < 20 {
			r.res.Notes = append(r.res.Notes, r.route.path+" "+slotsString(slots)+": "+strings.Join(r.w.notes, "; "))
		}
		r.w.notes = nil
		return o, acc, nil, nil
	}
	f, d := diffFields(o, p, acc)
	return o, acc, f, d
}

// clip quotes a body, abbreviating the 70 000-byte one.
func clip(s string) string {
	if len(s) > 120 {
		return fmt.Sprintf("%q…(%d bytes)", s[:60], len(s))
	}
	return fmt.Sprintf("%q", s)
}

func has(l []string, x string) bool {
	for _, y := range l {
		if y == x {
			return true
		}
	}
	return false
}

func cloneSlots(s [][]uint8) [][]uint8 {
	c := make([][]uint8, len(s))
	for i := range s {
		c[i] = append([]uint8{}, s[i]...)
	}
	return c
}

// shrink deletes operations while the case still disagrees with the model in the same
// field, so that one defect is reported under one stable key instead of under thousands
// of sequences.
func (r *opsRunner) shrink(slots [][]uint8, field string) ([][]uint8, string) {
	cur := cloneSlots(slots)
	_, _, _, d := r.run(cur)
	detail := d[field]
	for changed := true; changed; {
		changed = false
		for si := range cur {
			for i := 0; i < len(cur[si]); i++ {
				c := cloneSlots(cur)
				c[si] = append(c[si][:i], c[si][i+1:]...)
				if _, _, f, d := r.run(c); has(f, field) {
					cur, detail = c, d[field]
					changed = true
					i--
				}
			}
		}
	}
	return cur, detail
}

func (r *opsRunner) one(slots [][]uint8, log *os.File) {
	s := slotsString(slots)
	if log != nil {
		log.WriteString("BEGIN " + r.route.path + " " + s + "\n")
	}
	o, acc, fields, _ := r.run(slots)
	r.res.N++
	nt := false
	for _, e := range acc {
		nt = nt || e.nontrivial
	}
	if nt {
		r.res.Nontrivial++
		if len(r.res.Samples) < 2 && len(s) > 0 {
			so := o
			if len(so.Body) > 120 {
				so.Body = clip(so.Body)
			}
			r.res.Samples = append(r.res.Samples, sample{Case: r.route.path + " " + slotsDescribe(slots), Observed: fmt.Sprintf("%+v", so)})
		}
	}
	if o.Commits == 1 {
		r.res.Commits1++
	}
	for _, field := range fields {
		mk := field + "\x00" + s
		if m, ok := r.memo[mk]; ok {
			m.Count++
			continue
		}
		min, d := r.shrink(slots, field)
		ms := slotsString(min)
		// the key drops the slot positions: the same defect reached through different
		// layers is one finding (the replay keeps the exact case)
		key := fmt.Sprintf("seq:%s:%s:%s", r.route.path, field, seqString(flat(min, nil)))
		m := r.memo["key:"+key]
		if m == nil {
			var models []string
			for _, e := range r.route.accept(min) {
				models = append(models, fmt.Sprintf("%+v", e.observation))
			}
			m = &mismatch{Key: key,
				What: fmt.Sprintf("%s: %s → %s (minimal form of e.g. ops=%s)", r.route.what, slotsDescribe(min), d, s),
				Replay: fmt.Sprintf("property C13: response operation sequence on route %s (%s)\nops=%s\ncalls: %s\nacceptable (commit-once model): %s\nobserved difference: %s\nfirst seen as: ops=%s\nreproduce: cd /verif && ./check.sh C13 quick >/dev/null; .build/c13 probe %s '%s'\n",
					r.route.path, r.route.what, ms, slotsDescribe(min), strings.Join(models, " or "), d, s, r.route.path, ms)}
			r.memo["key:"+key] = m
		}
		m.Count++
		r.memo[mk] = m
	}
	if log != nil {
		log.WriteString("END " + r.route.path + " " + s + "\n")
	}
}

func workerMain(jobPath, outPath string) {
	var j job
	b, err := os.ReadFile(jobPath)
	if err == nil {
		err = json.Unmarshal(b, &j)
	}
	res := &result{}
	write := func() {
		ob, _ := json.Marshal(res)
		tmp := outPath + ".tmp"
		_ = os.WriteFile(tmp, ob, 0o644)
		_ = os.Rename(tmp, outPath)
	}
	if err != nil {
		res.Fatal = "cannot read job: " + err.Error()
		write()
		os.Exit(3)
	}
	var log *os.File
	if p := os.Getenv("C13_CASELOG"); p != "" {
		log, _ = os.OpenFile(p, os.O_CREATE|os.O_WRONLY|os.O_APPEND, 0o644)
	}
	switch j.Kind {
	case "enum", "list":
		w, err := newOpsWorld()
		if err != nil {
			res.Fatal = err.Error()
			write()
			os.Exit(3)
		}
		rs := routes[j.Route]
		if rs == nil {
			res.Fatal = "unknown route " + j.Route
			write()
			os.Exit(3)
		}
		r := &opsRunner{w: w, route: rs, memo: map[string]*mismatch{}, res: res}
		if j.Kind == "enum" {
			buf := make([]uint8, 16)
			for idx := j.Lo; idx < j.Hi; idx++ {
				seq := decodeIndex(idx, j.Alpha, j.L, buf)
				if j.OnlyExt && !usesExt(seq) {
					continue
				}
				r.one([][]uint8{seq}, log)
			}
		} else {
			for _, s := range j.Seqs {
				slots, ok := parseSlots(s, len(rs.slots))
				if !ok {
					res.Notes = append(res.Notes, "bad case "+s)
					continue
				}
				r.one(slots, log)
			}
		}
		for k, m := range r.memo {
			if strings.HasPrefix(k, "key:") {
				res.Mism = append(res.Mism, *m)
			}
		}
		res.Requests = r.requests
	case "mw":
		for _, s := range j.Stacks {
			if log != nil {
				log.WriteString("BEGIN " + s.key() + "\n")
			}
			o := runStack(s)
			if o.LoadErr != "" {
				// the registration script itself was rejected: nothing observed about C13
				if len(res.Notes) < 20 {
					res.Notes = append(res.Notes, s.key()+": registration failed: "+o.LoadErr)
				}
				if log != nil {
					log.WriteString("END " + s.key() + "\n")
				}
				continue
			}
			res.N++
			res.Requests++
			if o.Commits == 1 {
				res.Commits1++
			}
			// non-trivial: at least two registrations whose registration order differs from the
			// required execution order, or a priority tie
			if s.orderMatters() {
				res.Nontrivial++
				if len(res.Samples) < 2 {
					res.Samples = append(res.Samples, sample{Case: s.key(), Observed: fmt.Sprintf("body=%q status=%d", o.Body, o.Status)})
				}
			}
			if f, _ := s.check(o); f != "" {
				min, mf, md := shrinkStack(s)
				if mf == "" { // not reproducible on a second run: report the original
					min, mf, _ = s, f, ""
					_, md = s.check(o)
				}
				key := min.key() + ":" + mf
				found := false
				for i := range res.Mism {
					if res.Mism[i].Key == key {
						res.Mism[i].Count++
						found = true
					}
				}
				if !found {
					res.Mism = append(res.Mism, mismatch{Key: key, Count: 1,
						What:   fmt.Sprintf("middleware stack %s: %s (minimal form of %s)", min.key(), md, s.key()),
						Replay: "// property C13: middleware order; markers >i / <i are written before / after $next by registration i\n// expected body: " + min.expectedBody() + "\n// observed: " + md + "\n" + min.script()})
				}
			}
			if log != nil {
				log.WriteString("END " + s.key() + "\n")
			}
		}
	case "grp":
		w, err := newWorld()
		if err != nil {
			res.Fatal = err.Error()
			write()
			os.Exit(3)
		}
		g := &grpRunner{w: w}
		for _, p := range j.Progs {
			if log != nil {
				log.WriteString("BEGIN " + p.key() + "\n")
			}
			h, lerr := g.run(p)
			if lerr != "" {
				if len(res.Notes) < 20 {
					res.Notes = append(res.Notes, p.key()+": registration failed: "+lerr)
				}
			} else {
				for _, route := range p.routes() {
					o := serveRoute(h, p, route)
					res.Requests++
					if o.NoRoute {
						if len(res.Notes) < 20 {
							res.Notes = append(res.Notes, fmt.Sprintf("%s: route of event %d not found under %v", p.key(), route, p.candidatePaths(route)))
						}
						continue
					}
					res.N++
					if o.Commits == 1 {
						res.Commits1++
					}
					if p.nontrivial() {
						res.Nontrivial++
						if len(res.Samples) < 2 && p.Ev[route].T != 0 {
							res.Samples = append(res.Samples, sample{Case: fmt.Sprintf("%s route=r%d", p.key(), route), Observed: fmt.Sprintf("body=%q status=%d", o.Body, o.Status)})
						}
					}
					f, d := p.check(route, o)
					if f == "" {
						continue
					}
					min, mr, md := g.shrink(p, route, f)
					if md == "" {
						md = d
					}
					key := fmt.Sprintf("%s:route@%d:%s", min.key(), mr, f)
					found := false
					for i := range res.Mism {
						if res.Mism[i].Key == key {
							res.Mism[i].Count++
							found = true
						}
					}
					if !found {
						res.Mism = append(res.Mism, mismatch{Key: key, Count: 1,
							What:   fmt.Sprintf("route groups %s, route registered by event %d: %s (minimal form of %s)", min.key(), mr, md, p.key()),
							Replay: fmt.Sprintf("// property C13: middleware isolation/order across route groups; markers >i / <i are written before / after $next by the middleware registered by event i, H<i> by the route of event i\n// failing route: event %d (paths tried: %v)\n// observed: %s\n%s", mr, min.candidatePaths(mr), md, min.script("w"))})
					}
				}
			}
			if log != nil {
				log.WriteString("END " + p.key() + "\n")
			}
		}
	default:
		res.Fatal = "unknown job kind " + j.Kind
	}
	res.Done = true
	write()
}

func usesExt(seq []uint8) bool {
	for _, o := range seq {
		if int(o) >= baseOps {
			return true
		}
	}
	return false
}

// orderMatters: the stack has a priority tie or is not registered in ascending order.
func (s mwStack) orderMatters() bool {
	for i := 1; i < len(s.Entries); i++ {
		if s.Entries[i].Prio <= s.Entries[i-1].Prio {
			return true
		}
	}
	return false
}
