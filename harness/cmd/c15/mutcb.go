package main

// Callbacks that modify, in place, what they were handed: the element parameter (when it is
// a nested list), the array (third) parameter, or reduce's accumulator. Arrays are values
// and note 3/4 of docs/array_methods.md names the only methods that change their receiver,
// so none of this may reach the receiver, and every invocation must see the original
// elements again (the Go models below therefore work on clones). JavaScript shares arrays by
// reference, so these cases are not part of the node cross-check (NoJS).
//
// Only operations on lists are used (push, pop, shift, reverse, element assignment); objects
// are handles and are not part of the compared domain.

func withPushed(l Val, x Val) Val {
	c := l.Clone()
	c.L = append(c.L, x)
	return c
}

func withSet0(l Val, x Val) Val {
	c := l.Clone()
	if len(c.L) == 0 {
		c.L = append(c.L, x)
	} else {
		c.L[0] = x
	}
	return c
}

func init() {
	mutMappers := []*Callback{
		{Name: "mut:push-elem(e,i)", Mut: true,
			PHP: "function($e, $i) { if (is_array($e)) { $e->push($i); } return $e; }",
			M: func(e Val, i int, a []Val) Val {
				if e.K == KList {
					return withPushed(e, Int(i))
				}
				return e.Clone()
			}},
		{Name: "mut:assign-elem(e)", Mut: true,
			PHP: "function($e) { if (is_array($e)) { $e[0] = 'x'; } return $e; }",
			M: func(e Val, i int, a []Val) Val {
				if e.K == KList {
					return withSet0(e, Str("x"))
				}
				return e.Clone()
			}},
		{Name: "mut:reverse-pop-elem(e)", Mut: true,
			PHP: "function($e) { if (is_array($e)) { $e->reverse(); return [$e->pop(), $e]; } return $e; }",
			M: func(e Val, i int, a []Val) Val {
				if e.K != KList {
					return e.Clone()
				}
				rev := ArrReverse(e.L)
				if len(rev) == 0 {
					return List(Null(), List())
				}
				return List(rev[len(rev)-1], lst(rev[:len(rev)-1]))
			}},
		{Name: "mut:arr-row-push(e,i,arr)", Mut: true,
			PHP: "function($e, $i, $a) { if (is_array($a[0])) { $a[0]->push($i); return $a[0]; } return $i; }",
			M: func(e Val, i int, a []Val) Val {
				if a[0].K == KList {
					return withPushed(a[0], Int(i))
				}
				return Int(i)
			}},
		{Name: "mut:arr-assign-shift(e,i,arr)", Mut: true,
			PHP: "function($e, $i, $a) { $a[$i] = 'z'; $a->shift(); return $a; }",
			M: func(e Val, i int, a []Val) Val {
				c := cloneAll(a)
				c[i] = Str("z")
				return lst(c[1:])
			}},
		{Name: "mut:arr-reverse-pop(e,i,arr)", Mut: true,
			PHP: "function($e, $i, $a) { $a->reverse(); $a->pop(); return [$i, $a]; }",
			M: func(e Val, i int, a []Val) Val {
				rev := ArrReverse(a)
				return List(Int(i), lst(rev[:len(rev)-1]))
			}},
	}
	mappers = append(mappers, mutMappers...)
	flatMappers = append(flatMappers, mutMappers...)

	preds = append(preds,
		&Callback{Name: "mut:pop-elem(e)", Mut: true,
			PHP: "function($e) { if (is_array($e)) { $e->pop(); return count($e) >= 1; } return false; }",
			P:   func(e Val, i int, a []Val) bool { return e.K == KList && len(e.L) >= 2 }},
		&Callback{Name: "mut:arr-shift(e,i,arr)", Mut: true,
			PHP: "function($e, $i, $a) { $a->shift(); $a[0] = 'w'; return count($a) >= 2; }",
			P:   func(e Val, i int, a []Val) bool { return len(a) >= 3 }},
		&Callback{Name: "mut:arr-row-pop(e,i,arr)", Mut: true,
			PHP: "function($e, $i, $a) { if (is_array($a[0])) { $a[0]->pop(); return count($a[0]) >= 1; } return $i >= 1; }",
			P: func(e Val, i int, a []Val) bool {
				if a[0].K == KList {
					return len(a[0].L) >= 2
				}
				return i >= 1
			}},
		&Callback{Name: "mut:push-elem-odd(e,i)", Mut: true,
			PHP: "function($e, $i) { if (is_array($e)) { $e->push(1); $e[0] = 0; } return $i % 2 === 1; }",
			P:   func(e Val, i int, a []Val) bool { return i%2 == 1 }},
	)

	reducers = append(reducers,
		&Callback{Name: "mut:acc-push(acc,e)", Mut: true,
			PHP: "function($acc, $e) { if (is_array($acc)) { $acc->push($e); return $acc; } return [$acc, $e]; }",
			R: func(acc, e Val, i int, a []Val) Val {
				if acc.K == KList {
					return withPushed(acc, e.Clone())
				}
				return List(acc.Clone(), e.Clone())
			}},
		&Callback{Name: "mut:elem-arr-pop(acc,e,i,arr)", Mut: true,
			PHP: "function($acc, $e, $i, $a) { if (is_array($e)) { $e->pop(); $e[0] = 'y'; } $a->pop(); if (is_array($acc)) { $acc->reverse(); } return [$acc, $e, count($a)]; }",
			R: func(acc, e Val, i int, a []Val) Val {
				ev := e.Clone()
				if ev.K == KList {
					if n := len(ev.L); n > 0 {
						ev.L = ev.L[:n-1]
					}
					ev = withSet0(ev, Str("y"))
				}
				av := acc.Clone()
				if av.K == KList {
					av = lst(ArrReverse(av.L))
				}
				return List(av, ev, Int(len(a)-1))
			}},
	)

	loggers = append(loggers,
		&Callback{Name: "mut:log-push-elem(e,i,arr)", Mut: true,
			PHP: "function($e, $i, $a) use (&$l" + idTok + ") { if (is_array($e)) { $e->push($i); } $a->pop(); $a[0] = 'v'; $l" + idTok + "[] = [$e, count($a)]; }",
			M: func(e Val, i int, a []Val) Val {
				ev := e.Clone()
				if ev.K == KList {
					ev = withPushed(ev, Int(i))
				}
				return List(ev, Int(max(len(a)-1, 1)))
			}},
	)
}
