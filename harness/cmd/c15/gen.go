package main

import (
	"math/rand"
	"strconv"
	"strings"
)

// ---- callbacks -----------------------------------------------------------------------
// Every callback exists three times: origami source, JavaScript source (development-time
// cross-check) and Go. Predicates return genuine booleans (the documents only say the
// result is judged "with AsBool", whose truthiness table is not part of this property).

func isInt(v Val) bool  { return v.K == KInt }
func isList(v Val) bool { return v.K == KList }

var mappers = []*Callback{
	{Name: "pair(e)", PHP: "function($e) { return [$e, $e]; }", JS: "(e) => [e, e]",
		M: func(e Val, i int, a []Val) Val { return List(e.Clone(), e.Clone()) }},
	{Name: "index(e,i)", PHP: "function($e, $i) { return $i * 10; }", JS: "(e, i) => i * 10",
		M: func(e Val, i int, a []Val) Val { return Int(i * 10) }},
	{Name: "triple(e,i,arr)", PHP: "function($e, $i, $a) { return [$i, count($a), $e]; }", JS: "(e, i, a) => [i, a.length, e]",
		M: func(e Val, i int, a []Val) Val { return List(Int(i), Int(len(a)), e.Clone()) }},
	{Name: "arrow-index(e,i)", PHP: "fn($e, $i) => $i + 1", JS: "(e, i) => i + 1",
		M: func(e Val, i int, a []Val) Val { return Int(i + 1) }},
}

var flatMappers = []*Callback{
	{Name: "wrap(e)", PHP: "function($e) { return [$e, [$e]]; }", JS: "(e) => [e, [e]]",
		M: func(e Val, i int, a []Val) Val { return List(e.Clone(), List(e.Clone())) }},
	{Name: "identity(e)", PHP: "function($e) { return $e; }", JS: "(e) => e",
		M: func(e Val, i int, a []Val) Val { return e.Clone() }},
	{Name: "evenempty(e,i,arr)", PHP: "function($e, $i, $a) { if ($i % 2 === 0) { return []; } return [$i, count($a)]; }",
		JS: "(e, i, a) => i % 2 === 0 ? [] : [i, a.length]",
		M: func(e Val, i int, a []Val) Val {
			if i%2 == 0 {
				return List()
			}
			return List(Int(i), Int(len(a)))
		}},
}

var preds = []*Callback{
	{Name: "isint(e)", PHP: "function($e) { return is_int($e); }", JS: "(e) => Number.isInteger(e)",
		P: func(e Val, i int, a []Val) bool { return isInt(e) }},
	{Name: "isarray(e)", PHP: "function($e) { return is_array($e); }", JS: "(e) => Array.isArray(e)",
		P: func(e Val, i int, a []Val) bool { return isList(e) }},
	{Name: "eq2(e)", PHP: "function($e) { return $e === 2; }", JS: "(e) => e === 2",
		P: func(e Val, i int, a []Val) bool { return e.K == KInt && e.I == 2 }},
	{Name: "from1(e,i)", PHP: "function($e, $i) { return $i >= 1; }", JS: "(e, i) => i >= 1",
		P: func(e Val, i int, a []Val) bool { return i >= 1 }},
	{Name: "lasttwo(e,i,arr)", PHP: "function($e, $i, $a) { return $i + 2 >= count($a); }", JS: "(e, i, a) => i + 2 >= a.length",
		P: func(e Val, i int, a []Val) bool { return i+2 >= len(a) }},
	{Name: "never(e)", PHP: "function($e) { return false; }", JS: "(e) => false",
		P: func(e Val, i int, a []Val) bool { return false }},
	{Name: "always()", PHP: "function() { return true; }", JS: "() => true",
		P: func(e Val, i int, a []Val) bool { return true }},
	{Name: "arrow-isstring(e)", PHP: "fn($e) => is_string($e)", JS: "(e) => typeof e === 'string'",
		P: func(e Val, i int, a []Val) bool { return e.K == KStr }},
}

var reducers = []*Callback{
	{Name: "pair(acc,e)", PHP: "function($acc, $e) { return [$acc, $e]; }", JS: "(acc, e) => [acc, e]",
		R: func(acc, e Val, i int, a []Val) Val { return List(acc.Clone(), e.Clone()) }},
	{Name: "trace(acc,e,i,arr)", PHP: "function($acc, $e, $i, $a) { return [$acc, $i, count($a)]; }", JS: "(acc, e, i, a) => [acc, i, a.length]",
		R: func(acc, e Val, i int, a []Val) Val { return List(acc.Clone(), Int(i), Int(len(a))) }},
	{Name: "count(acc)", PHP: "function($acc) { return [$acc]; }", JS: "(acc) => [acc]",
		R: func(acc, e Val, i int, a []Val) Val { return List(acc.Clone()) }},
}

var loggers = []*Callback{
	{Name: "log(e,i,arr)", PHP: "function($e, $i, $a) use (&$l" + idTok + ") { $l" + idTok + "[] = [$e, $i, count($a)]; }",
		JS: "(e, i, a) => { l.push([e, i, a.length]); }",
		M:  func(e Val, i int, a []Val) Val { return List(e.Clone(), Int(i), Int(len(a))) }},
	{Name: "log(e)", PHP: "function($e) use (&$l" + idTok + ") { $l" + idTok + "[] = $e; }",
		JS: "(e) => { l.push(e); }",
		M:  func(e Val, i int, a []Val) Val { return e.Clone() }},
}

// ---- case construction ----------------------------------------------------------------

type gen struct {
	cases []*Case
}

func (g *gen) add(c *Case) { g.cases = append(g.cases, c) }

func (g *gen) arr(r Val, method, key string, args []Arg, res Val, after []Val) *Case {
	c := &Case{Kind: "array", Recv: r.Clone(), Method: method, Args: args, Key: key, ExpRes: res, ExpRecv: Val{K: KList, L: after}}
	for _, a := range args {
		if a.Cb != nil && a.Cb.Mut {
			c.NoJS = true
		}
	}
	g.add(c)
	return c
}

func lst(a []Val) Val { return Val{K: KList, L: a} }

func vals(items []Val) []Arg {
	out := make([]Arg, len(items))
	for i, it := range items {
		out[i] = aVal(it)
	}
	return out
}

func (g *gen) slice(r Val, s, e *int) {
	n := len(r.L)
	g.arr(r, "slice", "array.slice end="+ic(e, n)+" start="+ic(s, n), []Arg{aIntP(s), aIntP(e)}, lst(ArrSlice(r.L, s, e)), cloneAll(r.L))
}

func (g *gen) splice(r Val, s int, dc *int, items []Val) {
	n := len(r.L)
	removed, after := ArrSplice(r.L, s, dc, items)
	var key string
	args := []Arg{aInt(s)}
	if dc == nil {
		key = "array.splice dc=omit start=" + ic(&s, n)
	} else {
		key = "array.splice items=" + itemsClass(items, false) + " dc=" + ic(dc, n) + " start=" + ic(&s, n) + " kinds=" + kinds(items)
		args = append(args, aInt(*dc))
		args = append(args, vals(items)...)
	}
	g.arr(r, "splice", key, args, lst(removed), after)
}

func (g *gen) push(r Val, items []Val) {
	after := append(cloneAll(r.L), cloneAll(items)...)
	g.arr(r, "push", "array.push items="+itemsClass(items, true)+" kinds="+kinds(items), vals(items), Int(len(after)), after)
}

func (g *gen) unshift(r Val, items []Val) {
	after := append(cloneAll(items), cloneAll(r.L)...)
	g.arr(r, "unshift", "array.unshift items="+itemsClass(items, true)+" kinds="+kinds(items), vals(items), Int(len(after)), after)
}

func (g *gen) concat(r Val, items []Val) {
	g.arr(r, "concat", "array.concat items="+itemsClass(items, false)+" kinds="+kinds(items), vals(items), lst(ArrConcat(r.L, items)), cloneAll(r.L))
}

func (g *gen) pop(r Val) {
	n := len(r.L)
	if n == 0 {
		g.arr(r, "pop", "array.pop len=0", nil, Null(), []Val{})
		return
	}
	g.arr(r, "pop", "array.pop len="+lenClass(n), nil, r.L[n-1].Clone(), cloneAll(r.L[:n-1]))
}

func (g *gen) shift(r Val) {
	n := len(r.L)
	if n == 0 {
		g.arr(r, "shift", "array.shift len=0", nil, Null(), []Val{})
		return
	}
	g.arr(r, "shift", "array.shift len="+lenClass(n), nil, r.L[0].Clone(), cloneAll(r.L[1:]))
}

func (g *gen) reverse(r Val) {
	rev := ArrReverse(r.L)
	g.arr(r, "reverse", "array.reverse len="+lenClass(len(r.L)), nil, lst(rev), cloneAll(rev))
}

func (g *gen) length(r Val) {
	c := g.arr(r, "length", "array.length len="+lenClass(len(r.L)), nil, Int(len(r.L)), cloneAll(r.L))
	c.Prop = true
}

func scalarOnly(r Val) bool {
	for _, e := range r.L {
		if e.K == KList {
			return false
		}
	}
	return true
}

// sortable: scalar elements only (how a nested list is rendered for comparison is not
// documented). Elements with equal string forms (2 and "2") are in the domain: sort() is
// documented as Node.js-style string comparison and Array.prototype.sort is stable.
func sortable(r Val) bool { return scalarOnly(r) }

// tieClass: none | same (only identical duplicates) | cross (different values, same string form)
func tieClass(r Val) string {
	c := "none"
	for i := range r.L {
		for j := i + 1; j < len(r.L); j++ {
			if ToStr(r.L[i]) == ToStr(r.L[j]) {
				if !StrictEq(r.L[i], r.L[j]) {
					return "cross"
				}
				c = "same"
			}
		}
	}
	return c
}

func sizeClass(n int) string {
	// Go's sort.Slice is an insertion sort up to 12 elements; keep the two regimes apart
	if n > 12 {
		return "gt12"
	}
	return "le12"
}

func (g *gen) sort(r Val) {
	if !sortable(r) {
		return
	}
	s := ArrSort(r.L)
	g.arr(r, "sort", "array.sort size="+sizeClass(len(r.L))+" ties="+tieClass(r)+" len="+lenClass(len(r.L)), nil, lst(s), cloneAll(s))
}

func (g *gen) join(r Val, sep *string) {
	if !scalarOnly(r) {
		return
	}
	k := "str"
	arg := aOmit()
	if sep == nil {
		k = "omit"
	} else {
		arg = aVal(Str(*sep))
		if *sep == "" {
			k = "empty"
		}
	}
	g.arr(r, "join", "array.join sep="+k, []Arg{arg}, Str(ArrJoin(r.L, sep)), cloneAll(r.L))
}

func (g *gen) indexOf(r Val, x Val, from *int) {
	if x.K == KList {
		return
	}
	// an element that equals the needle only after string conversion (1 vs "1") is outside
	// the compared domain: the documents do not say which equality is used
	for _, e := range r.L {
		if e.K != KList && e.K != x.K && ToStr(e) == ToStr(x) {
			return
		}
	}
	n := len(r.L)
	sc := "absent"
	if ArrIndexOf(r.L, x, nil) >= 0 {
		sc = "present"
	}
	g.arr(r, "indexOf", "array.indexOf from="+ic(from, n)+" search="+sc, []Arg{aVal(x), aIntP(from)}, Int(ArrIndexOf(r.L, x, from)), cloneAll(r.L))
	g.arr(r, "includes", "array.includes from="+ic(from, n)+" search="+sc, []Arg{aVal(x), aIntP(from)}, Bool(ArrIncludes(r.L, x, from)), cloneAll(r.L))
}

func depthClass(d *int) string {
	if d == nil {
		return "omit"
	}
	switch {
	case *d < 0:
		return "neg"
	case *d >= 3:
		return "3+"
	}
	return string(rune('0' + *d))
}

func (g *gen) flat(r Val, d *int) {
	nc := nest(r) - 1
	if nc > 3 {
		nc = 3
	}
	g.arr(r, "flat", "array.flat depth="+depthClass(d)+" nest="+string(rune('0'+nc)), []Arg{aIntP(d)}, lst(ArrFlat(r.L, d)), cloneAll(r.L))
}

func initClass(init *Val) string {
	if init == nil {
		return "omit"
	}
	return kindOf(*init)
}

func (g *gen) callbacks(r Val) {
	for _, cb := range mappers {
		g.arr(r, "map", "array.map cb="+cb.Name, []Arg{aCb(cb)}, lst(ArrMap(r.L, cb.M)), cloneAll(r.L))
	}
	for _, cb := range flatMappers {
		g.arr(r, "flatMap", "array.flatMap cb="+cb.Name, []Arg{aCb(cb)}, lst(ArrFlatMap(r.L, cb.M)), cloneAll(r.L))
	}
	for _, cb := range preds {
		g.arr(r, "filter", "array.filter cb="+cb.Name, []Arg{aCb(cb)}, lst(ArrFilter(r.L, cb.P)), cloneAll(r.L))
		g.arr(r, "find", "array.find cb="+cb.Name, []Arg{aCb(cb)}, ArrFind(r.L, cb.P), cloneAll(r.L))
		g.arr(r, "findIndex", "array.findIndex cb="+cb.Name, []Arg{aCb(cb)}, Int(ArrFindIndex(r.L, cb.P)), cloneAll(r.L))
		g.arr(r, "every", "array.every cb="+cb.Name, []Arg{aCb(cb)}, Bool(ArrEvery(r.L, cb.P)), cloneAll(r.L))
		g.arr(r, "some", "array.some cb="+cb.Name, []Arg{aCb(cb)}, Bool(ArrSome(r.L, cb.P)), cloneAll(r.L))
	}
	for _, cb := range loggers {
		c := g.arr(r, "forEach", "array.forEach cb="+cb.Name, []Arg{aCb(cb)}, lst(ArrMap(r.L, cb.M)), cloneAll(r.L))
		c.UseLog = true // the document does not say what forEach returns: only the calls are compared
	}
	inits := []*Val{nil, {K: KInt, I: 0}, {K: KStr, S: "z"}, {K: KList, L: []Val{}}}
	for _, cb := range reducers {
		for _, init := range inits {
			if init == nil && len(r.L) == 0 {
				continue // JavaScript throws, the document is silent
			}
			args := []Arg{aCb(cb), aOmit()}
			if init != nil {
				args[1] = aVal(*init)
			}
			g.arr(r, "reduce", "array.reduce init="+initClass(init)+" cb="+cb.Name, args, ArrReduce(r.L, cb.R, init), cloneAll(r.L))
		}
	}
}

// ---- array workloads -------------------------------------------------------------------

func optInts(lo, hi int) []*int {
	out := []*int{nil}
	for i := lo; i <= hi; i++ {
		out = append(out, ip(i))
	}
	return out
}

var itemTuples = [][]Val{
	{},
	{Int(7)}, {Str("x")}, {List(Int(8), Int(9))}, {List()},
	{Int(7), Str("x")}, {List(Int(8)), Int(7)}, {Str("x"), List(Int(8), List(Int(9)))},
	{Int(7), Str("x"), List(Int(8))}, {List(Int(1)), List(Int(2)), List()},
}

func smallReceivers(full bool) []Val {
	rs := []Val{
		List(),
		List(Int(1)), List(Str("a")), List(List(Int(1), Int(2))),
		List(Int(1), Int(2)), List(Str("a"), Str("b")), List(Int(2), Str("a")), List(List(Int(1)), List(Int(2), List(Int(3)))),
		List(Int(1), Int(2), Int(3)), List(Int(3), Str("a"), List(Int(1))), List(Str("b"), Str("a"), Str("b")), List(Int(1), Int(1), Int(2)),
		List(Int(10), Int(9), Int(1)), List(Str("é"), Str("z"), Str("你")),
	}
	if full {
		alpha := []Val{Int(1), Int(2), Str("a"), List(Int(1))}
		var rec func(cur []Val, n int)
		rec = func(cur []Val, n int) {
			if len(cur) == n {
				rs = append(rs, List(cur...))
				return
			}
			for _, a := range alpha {
				rec(append(cur, a), n)
			}
		}
		for n := 1; n <= 3; n++ {
			rec(nil, n)
		}
	}
	return rs
}

var nestedReceivers = []Val{
	List(Int(1), List(Int(2), Int(3)), List(Int(4), List(Int(5), Int(6)))),
	List(List(List(List(Int(1))))),
	List(List(), List(List())),
	List(Str("a"), List(Str("b"), List(Str("c"), List(Str("d"), List(Str("e")))))),
	List(Int(1), Int(2)),
	List(),
}

var sortReceivers = []Val{
	List(Int(3), Int(1), Int(4), Int(1), Int(5)),
	List(Str("banana"), Str("apple"), Str("cherry")),
	List(Int(10), Int(9), Int(1), Int(100), Int(-1), Int(-10)),
	List(Str("b"), Int(10), Str("a"), Int(2), Str("B"), Str("")),
	List(Str("é"), Str("e"), Str("z"), Str("你"), Str("f")),
	List(Int(2), Int(2), Int(1), Int(1)),
	// equal string forms, distinguishable values: stability is observable through json_encode
	List(Int(2), Int(1), Str("1"), Str("2"), Int(1)),
	List(Str("10"), Int(10), Str("b"), Int(9), Str("9"), Str("a")),
	List(Int(1), Str("1")), List(Str("1"), Int(1)),
	List(Int(1), Str("1"), Int(1), Str("1")), List(Str("1"), Int(1), Str("1"), Int(1)),
	List(Str("2"), Int(2), Str("1"), Int(1), Int(1), Str("1")),
	List(Int(9), Str("0"), Int(5), Int(0), Str("9"), Str("5")),
	List(Str("a"), Int(5), Str("m"), Str("5"), Str("z"), Int(5)),
	List(Str("-1"), Int(-1), Int(0), Str("0"), Str("-1")),
	List(Int(3), Str("3"), Int(2), Str("2"), Int(1), Str("1"), Str("3"), Int(3), Str("2"), Int(2), Str("1"), Int(1)),
}

// tieList: n elements drawn from ints 0..k-1 and their decimal strings.
func tieList(rnd *rand.Rand, n, k int) Val {
	l := make([]Val, n)
	for i := range l {
		v := rnd.Intn(k)
		if rnd.Intn(2) == 0 {
			l[i] = Int(v)
		} else {
			l[i] = Str(strconv.Itoa(v))
		}
	}
	return List(l...)
}

// longTieReceivers: lengths beyond 12 (Go's sort.Slice changes algorithm there), fixed.
func longTieReceivers() []Val {
	rnd := rand.New(rand.NewSource(15))
	var out []Val
	for _, n := range []int{13, 14, 16, 20, 28, 40, 64} {
		out = append(out, tieList(rnd, n, 3), tieList(rnd, n, 6))
	}
	return out
}

var seps = []*string{nil, sp(""), sp(","), sp("-"), sp(", "), sp(" é ")}

func sp(s string) *string { return &s }

// needles for indexOf/includes on a receiver: every distinct scalar element, one absent int
// and one absent string.
func needles(r Val) []Val {
	var out []Val
	for _, e := range r.L {
		if e.K == KList {
			continue
		}
		dup := false
		for _, o := range out {
			if StrictEq(o, e) {
				dup = true
			}
		}
		if !dup {
			out = append(out, e)
		}
	}
	return append(out, Int(77), Str("nope"))
}

// enumerate: the complete argument matrix over -R..R for the small receivers.
func (g *gen) enumerateArrays(full bool) {
	R := 4
	if full {
		R = 5
	}
	idx := append(optInts(-R, R), ip(-100), ip(100)) // at, one past, several past and far past every length 0..3, both signs
	for _, r := range smallReceivers(full) {
		for _, s := range idx {
			for _, e := range idx {
				if s == nil && e != nil {
					continue
				}
				g.slice(r, s, e)
			}
		}
		for _, s := range idx[1:] {
			g.splice(r, *s, nil, nil)
			for _, dc := range idx[1:] {
				for _, items := range itemTuples {
					g.splice(r, *s, dc, items)
				}
			}
		}
		for _, items := range itemTuples {
			g.push(r, items)
			g.unshift(r, items)
			g.concat(r, items)
		}
		g.pop(r)
		g.shift(r)
		g.reverse(r)
		g.length(r)
		g.sort(r)
		for _, sep := range seps {
			g.join(r, sep)
		}
		for _, x := range needles(r) {
			for _, f := range idx {
				g.indexOf(r, x, f)
			}
		}
		for _, d := range append(optInts(-1, 4), ip(100), ip(-100)) {
			g.flat(r, d)
		}
		g.callbacks(r)
	}
	for _, r := range nestedReceivers {
		for _, d := range append(optInts(-1, 5), ip(100), ip(-100)) {
			g.flat(r, d)
		}
		g.callbacks(r)
	}
	for _, r := range longTieReceivers() {
		g.sort(r)
	}
	for _, r := range sortReceivers {
		g.sort(r)
		g.reverse(r)
		for _, sep := range seps {
			g.join(r, sep)
		}
	}
}

var words = []string{"a", "b", "ab", "x", "apple", "Zed", "", " ", "é", "你好", "b a"}

func randElem(rnd *rand.Rand, depth int) Val {
	switch k := rnd.Intn(10); {
	case k < 4:
		return Int(rnd.Intn(16) - 3)
	case k < 8 || depth >= 2:
		return Str(words[rnd.Intn(len(words))])
	}
	n := rnd.Intn(4)
	l := make([]Val, n)
	for i := range l {
		l[i] = randElem(rnd, depth+1)
	}
	return List(l...)
}

func randList(rnd *rand.Rand, maxLen int) Val {
	n := rnd.Intn(maxLen + 1)
	l := make([]Val, n)
	for i := range l {
		l[i] = randElem(rnd, 0)
	}
	return List(l...)
}

func randIdx(rnd *rand.Rand, n int, omit bool) *int {
	if omit && rnd.Intn(5) == 0 {
		return nil
	}
	if rnd.Intn(12) == 0 {
		return ip([]int{-1000, -50, 50, 1000}[rnd.Intn(4)]) // far outside
	}
	return ip(rnd.Intn(2*n+5) - (n + 2))
}

func randItems(rnd *rand.Rand) []Val {
	n := rnd.Intn(4)
	items := make([]Val, n)
	for i := range items {
		items[i] = randElem(rnd, 1)
	}
	return items
}

// seededArrays: receivers of length 0..6 beyond the enumerated ones, every method once or
// a few times per receiver with arguments drawn around the receiver's own length.
func (g *gen) seededArrays(rnd *rand.Rand, receivers int) {
	for k := 0; k < receivers; k++ {
		g.sort(tieList(rnd, rnd.Intn(13), 1+rnd.Intn(4)))
		if k%4 == 0 {
			g.sort(tieList(rnd, 13+rnd.Intn(30), 2+rnd.Intn(5)))
		}
	}
	for k := 0; k < receivers; k++ {
		r := randList(rnd, 6)
		n := len(r.L)
		for j := 0; j < 4; j++ {
			s := randIdx(rnd, n, true)
			e := randIdx(rnd, n, true)
			if s == nil {
				e = nil
			}
			g.slice(r, s, e)
			st := randIdx(rnd, n, false)
			dc := randIdx(rnd, n, true)
			var items []Val
			if dc != nil {
				items = randItems(rnd)
			}
			g.splice(r, *st, dc, items)
		}
		g.push(r, randItems(rnd))
		g.unshift(r, randItems(rnd))
		g.concat(r, randItems(rnd))
		g.pop(r)
		g.shift(r)
		g.reverse(r)
		g.length(r)
		g.sort(r)
		g.join(r, seps[rnd.Intn(len(seps))])
		nd := needles(r)
		for j := 0; j < 3; j++ {
			g.indexOf(r, nd[rnd.Intn(len(nd))], randIdx(rnd, n, true))
		}
		for _, d := range []*int{nil, ip(rnd.Intn(5) - 1)} {
			g.flat(r, d)
		}
		g.callbacks(r)
	}
}

// ---- strings ---------------------------------------------------------------------------

func (g *gen) str(kindPrefix string, r string, method, key string, args []Arg, res Val) *Case {
	c := &Case{Kind: "string", Recv: Str(r), Method: method, Args: args, Key: kindPrefix + method + key, ExpRes: res, ExpRecv: Str(r)}
	g.add(c)
	return c
}

func strs(a []string) Val {
	l := make([]Val, len(a))
	for i, s := range a {
		l[i] = Str(s)
	}
	return Val{K: KList, L: l}
}

func presence(s, t string) string {
	if t == "" {
		return "empty"
	}
	if strings.Contains(s, t) {
		return "present"
	}
	return "absent"
}

// pieces: "", every distinct substring (on character boundaries) of length 1..maxLen, two
// absent strings, the whole string and a string longer than the receiver.
func pieces(s string, maxLen int) []string {
	seen := map[string]bool{}
	out := []string{}
	put := func(t string) {
		if !seen[t] {
			seen[t] = true
			out = append(out, t)
		}
	}
	put("")
	r := []rune(s)
	for l := 1; l <= maxLen; l++ {
		for i := 0; i+l <= len(r); i++ {
			put(string(r[i : i+l]))
		}
	}
	put(s)
	put("Q")
	put("qq")
	put(s + "Q")
	return out
}

// fieldsLike: receivers on which "split on blanks" has only one reading (non-empty, words
// separated by single spaces, no other white space, no leading/trailing blank).
func fieldsLike(s string) bool {
	if s == "" || strings.HasPrefix(s, " ") || strings.HasSuffix(s, " ") || strings.Contains(s, "  ") {
		return false
	}
	return !strings.ContainsAny(s, "\t\n\r\v\f")
}

func isASCII(s string) bool {
	for i := 0; i < len(s); i++ {
		if s[i] >= 0x80 {
			return false
		}
	}
	return true
}

var repls = []string{"", "X", "ab", "é"}

// asciiString: exact JavaScript results (with the documents' overrides) on an ASCII receiver.
// full=false draws a sample of the argument matrix instead of all of it.
func (g *gen) asciiString(s string, rnd *rand.Rand) {
	const p = "string."
	n := len(s)
	pick := func(k int) bool { return rnd == nil || rnd.Intn(k) == 0 }
	g.str(p, s, "length", "", nil, Int(n)).NoJS = true // a method in docs/strings.md, a property in JavaScript
	g.str(p, s, "length", " prop", nil, Int(n)).Prop = true
	g.str(p, s, "trim", "", nil, Str(StrTrim(s)))
	g.str(p, s, "toUpperCase", "", nil, Str(StrUpper(s)))
	g.str(p, s, "toLowerCase", "", nil, Str(StrLower(s)))
	// start class for substring: =len and >len are one class (both clamp to the length)
	sc := func(st int) string {
		if st >= n {
			return ">=len"
		}
		return ic(&st, n)
	}
	// index domain for both positions: every value from 2 below zero to 2 past the length (so
	// 0, mid, length-1, length, one past, two past, negative and every start>end pair occur),
	// plus values far outside on both sides
	dom := []int{-100}
	for v := -2; v <= n+2; v++ {
		dom = append(dom, v)
	}
	dom = append(dom, n+7, 1000)
	for _, st := range dom {
		if pick(3) {
			g.str(p, s, "substring", " order=none start="+sc(st)+" end=omit", []Arg{aInt(st)}, Str(StrSubstring(s, st, nil)))
		}
		for _, en := range dom {
			// seeded receivers sample the matrix, but always keep some start>=length pairs
			if !pick(12) && !(rnd != nil && st >= n && en < n && rnd.Intn(3) == 0) {
				continue
			}
			en := en
			ord := "le"
			if st > en {
				ord = "gt"
			}
			g.str(p, s, "substring", " order="+ord+" start="+sc(st)+" end="+ic(&en, n), []Arg{aInt(st), aInt(en)}, Str(StrSubstring(s, st, &en)))
		}
	}
	for _, t := range pieces(s, 3) {
		if !pick(3) {
			continue
		}
		pr := presence(s, t)
		g.str(p, s, "indexOf", " search="+pr, []Arg{aVal(Str(t))}, Int(StrIndexOf(s, t)))
		g.str(p, s, "startsWith", " search="+pr, []Arg{aVal(Str(t))}, Bool(StrStartsWith(s, t)))
		g.str(p, s, "endsWith", " search="+pr, []Arg{aVal(Str(t))}, Bool(StrEndsWith(s, t)))
		g.str(p, s, "split", " sep="+pr, []Arg{aVal(Str(t))}, strs(StrSplit(s, t)))
		for _, rp := range append(repls, t+t) {
			rk := "str"
			if rp == "" {
				rk = "empty"
			}
			g.str(p, s, "replace", " search="+pr+" repl="+rk, []Arg{aVal(Str(t)), aVal(Str(rp))}, Str(StrReplaceAll(s, t, rp)))
		}
	}
	if fieldsLike(s) {
		// docs/strings.md: "默认分割（按空格）" — JavaScript would return [s] here
		g.str(p, s, "split", " sep=omit", nil, strs(StrSplit(s, " "))).NoJS = true
	}
}

func (g *gen) law(r, key, pre, expr string, want Val) {
	g.add(&Case{Kind: "law", Recv: Str(r), Key: "string.mb." + key, Pre: pre, Expr: expr, ExpRes: want, ExpRecv: Str(r), NoJS: true})
}

// multibyteString: the documents do not say whether length/indexOf/substring count bytes,
// code points or UTF-16 units, so only results that do not depend on the unit are asserted.
func (g *gen) multibyteString(s string, rnd *rand.Rand) {
	const p = "string.mb."
	pick := func(k int) bool { return rnd == nil || rnd.Intn(k) == 0 }
	g.str(p, s, "trim", "", nil, Str(StrTrim(s))).NoJS = true
	g.str(p, s, "toUpperCase", "", nil, Str(StrUpper(s))).NoJS = true
	g.str(p, s, "toLowerCase", "", nil, Str(StrLower(s))).NoJS = true
	g.law(s, "length()==length", "", "$r->length() === $r->length", Bool(true))
	g.law(s, "substring(0)", "", "$r->substring(0) === $r", Bool(true))
	g.law(s, "substring(0,length)", "", "$r->substring(0, $r->length()) === $r", Bool(true))
	g.law(s, "substring(length)", "", "$r->substring($r->length())", Str(""))
	// arguments beyond every possible length are unit independent too (clamp, then swap)
	g.law(s, "substring(far)", "", "$r->substring(1000)", Str(""))
	g.law(s, "substring(0,far)", "", "$r->substring(0, 1000)", Str(s))
	g.law(s, "substring(neg,far)", "", "$r->substring(-5, 1000)", Str(s))
	g.law(s, "substring(far,0)", "", "$r->substring(1000, 0)", Str(s))
	g.law(s, "substring(far,neg)", "", "$r->substring(1000, -3)", Str(s))
	g.law(s, "substring(far,far)", "", "$r->substring(1000, 2000)", Str(""))
	g.law(s, "substring(length,0)", "", "$r->substring($r->length(), 0)", Str(s))
	g.law(s, "substring(length+1,0)", "", "$r->substring($r->length() + 1, 0)", Str(s))
	g.law(s, "substring(length,neg)", "", "$r->substring($r->length(), -1)", Str(s))
	g.law(s, "substring(0,0)", "", "$r->substring(0, 0)", Str(""))
	for _, t := range pieces(s, 2) {
		if !pick(2) {
			continue
		}
		pr := presence(s, t)
		lit := phpStr(t)
		g.str(p, s, "startsWith", " search="+pr, []Arg{aVal(Str(t))}, Bool(StrStartsWith(s, t))).NoJS = true
		g.str(p, s, "endsWith", " search="+pr, []Arg{aVal(Str(t))}, Bool(StrEndsWith(s, t))).NoJS = true
		g.law(s, "split-join search="+pr, "", "$r->split("+lit+")->join("+lit+") === $r", Bool(true))
		if t != "" {
			g.str(p, s, "split", " sep="+pr, []Arg{aVal(Str(t))}, strs(StrSplit(s, t))).NoJS = true
			for _, rp := range repls {
				g.str(p, s, "replace", " search="+pr, []Arg{aVal(Str(t)), aVal(Str(rp))}, Str(StrReplaceAll(s, t, rp))).NoJS = true
			}
		}
		if strings.Contains(s, t) {
			i, tv := "$i"+idTok, "$t"+idTok
			g.law(s, "indexOf-substring search="+pr, tv+" = "+lit+"; "+i+" = $r->indexOf("+tv+");",
				"(("+i+" >= 0) && ($r->substring("+i+", "+i+" + "+tv+"->length()) === "+tv+"))", Bool(true))
			if strings.HasPrefix(s, t) {
				g.law(s, "indexOf-prefix", "", "$r->indexOf("+lit+")", Int(0))
			}
		} else {
			g.law(s, "indexOf search=absent", "", "$r->indexOf("+lit+")", Int(-1))
		}
	}
}

var asciiReceivers = []string{
	"", "a", "ab", "abc", "Hello World", " a b ", "aaa", "abab", "a,b,,c", "Mixed Case 12", "  \t x \n", "one two three",
}

var mbReceivers = []string{
	"é", "héllo", "你好世界", "aé你😀b", "😀😀", " é ", "ÉCOLE école", "яЖ я", "a,é,,你", "　x ",
}

func (g *gen) enumerateStrings() {
	for _, s := range asciiReceivers {
		g.asciiString(s, nil)
	}
	for _, s := range mbReceivers {
		g.multibyteString(s, nil)
	}
}

const asciiAlpha = "abAB xo,-1"

var mbAlpha = []rune("aé你😀 яЖb,")

func (g *gen) seededStrings(rnd *rand.Rand, receivers int) {
	for k := 0; k < receivers; k++ {
		n := rnd.Intn(13)
		if k%3 != 2 {
			b := make([]byte, n)
			for i := range b {
				b[i] = asciiAlpha[rnd.Intn(len(asciiAlpha))]
			}
			g.asciiString(string(b), rnd)
		} else {
			r := make([]rune, n)
			for i := range r {
				r[i] = mbAlpha[rnd.Intn(len(mbAlpha))]
			}
			s := string(r)
			if isASCII(s) {
				g.asciiString(s, rnd)
			} else {
				g.multibyteString(s, rnd)
			}
		}
	}
}
