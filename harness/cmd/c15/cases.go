package main

import (
	"bytes"
	"encoding/json"
	"fmt"
	"strconv"
	"strings"
)

// idTok is replaced by the case number when a case is rendered (variable names are unique
// per case so that cases of one script cannot see each other's variables).
const idTok = "\x00"

type Callback struct {
	Name string
	PHP  string // closure source; may contain idTok (forEach log variable)
	JS   string
	M    Mapper
	P    Pred
	R    Reducer
	Mut  bool // modifies its parameters in place (see mutcb.go)
}

type Arg struct {
	Omit bool
	V    Val
	Cb   *Callback
}

func aInt(i int) Arg      { return Arg{V: Int(i)} }
func aVal(v Val) Arg      { return Arg{V: v} }
func aCb(c *Callback) Arg { return Arg{Cb: c} }
func aOmit() Arg          { return Arg{Omit: true} }
func aIntP(p *int) Arg {
	if p == nil {
		return aOmit()
	}
	return aInt(*p)
}

// Case is one method call with the observable the documents prescribe for it.
type Case struct {
	Kind    string // array | string | law
	Recv    Val
	Method  string
	Prop    bool // property access ($r->length) instead of a call
	Args    []Arg
	Key     string
	ExpRes  Val
	ExpRecv Val
	UseLog  bool   // forEach: the first output field is the callback's log, not the result
	Pre     string // law: statements before the expression (idTok for the case number)
	Expr    string // law: expression whose value is compared with ExpRes
	NoJS    bool   // not expressible as plain JavaScript (document overrides JavaScript here)
	Steps   []Step // sequence case (seq.go): several calls on the same receiver
	Origin  string // sequence case: how the receiver is produced
}

func jsonUnmarshalStrings(text string, out *[]string) error { return json.Unmarshal([]byte(text), out) }

// ---- literals ------------------------------------------------------------------------

func phpStr(s string) string {
	var b strings.Builder
	b.WriteByte('\'')
	for i := 0; i < len(s); i++ {
		if s[i] == '\'' || s[i] == '\\' {
			b.WriteByte('\\')
		}
		b.WriteByte(s[i])
	}
	b.WriteByte('\'')
	return b.String()
}

func phpLit(v Val) string {
	switch v.K {
	case KNull:
		return "null"
	case KBool:
		if v.B {
			return "true"
		}
		return "false"
	case KInt:
		return strconv.Itoa(v.I)
	case KStr:
		return phpStr(v.S)
	}
	parts := make([]string, len(v.L))
	for i, e := range v.L {
		parts[i] = phpLit(e)
	}
	return "[" + strings.Join(parts, ", ") + "]"
}

func jsonStr(s string) string {
	var buf bytes.Buffer
	enc := json.NewEncoder(&buf)
	enc.SetEscapeHTML(false)
	_ = enc.Encode(s)
	return strings.TrimRight(buf.String(), "\n")
}

// canon renders a value in the canonical JSON form both sides are compared in.
func canon(v Val) string {
	switch v.K {
	case KNull:
		return "null"
	case KBool:
		if v.B {
			return "true"
		}
		return "false"
	case KInt:
		return strconv.Itoa(v.I)
	case KStr:
		return jsonStr(v.S)
	}
	parts := make([]string, len(v.L))
	for i, e := range v.L {
		parts[i] = canon(e)
	}
	return "[" + strings.Join(parts, ",") + "]"
}

// canonJSON re-renders JSON text produced by origami in the same canonical form; ok=false
// when it is not JSON of the compared domain (objects, floats and invalid text stay as
// they are and therefore never compare equal to an expectation).
func canonJSON(text string) (string, bool) {
	dec := json.NewDecoder(strings.NewReader(text))
	dec.UseNumber()
	var x any
	if err := dec.Decode(&x); err != nil {
		return text, false
	}
	if dec.More() {
		return text, false
	}
	var render func(x any) (string, bool)
	render = func(x any) (string, bool) {
		switch t := x.(type) {
		case nil:
			return "null", true
		case bool:
			if t {
				return "true", true
			}
			return "false", true
		case json.Number:
			if _, err := strconv.ParseInt(string(t), 10, 64); err != nil {
				return string(t), false
			}
			return string(t), true
		case string:
			return jsonStr(t), true
		case []any:
			parts := make([]string, len(t))
			for i, e := range t {
				s, ok := render(e)
				if !ok {
					return "", false
				}
				parts[i] = s
			}
			return "[" + strings.Join(parts, ",") + "]", true
		}
		return "", false
	}
	s, ok := render(x)
	if !ok {
		return text, false
	}
	return s, true
}

// ---- rendering -----------------------------------------------------------------------

func (c *Case) phpCall() string {
	if c.Kind == "law" {
		return c.Expr
	}
	if c.Prop {
		return "$r->" + c.Method
	}
	var args []string
	for _, a := range c.Args {
		switch {
		case a.Omit:
		case a.Cb != nil:
			args = append(args, a.Cb.PHP)
		default:
			args = append(args, phpLit(a.V))
		}
	}
	return "$r->" + c.Method + "(" + strings.Join(args, ", ") + ")"
}

// Desc is the human-readable form used in reports and samples.
func (c *Case) Desc() string {
	if len(c.Steps) > 0 {
		return c.seqDesc()
	}
	d := "$r = " + phpLit(c.Recv) + "; "
	if c.Pre != "" {
		d += strings.ReplaceAll(c.Pre, idTok, "") + " "
	}
	return strings.ReplaceAll(d+c.phpCall(), idTok, "")
}

// PHP renders the case as a block that prints one line "@<id>\t<result>\t<receiver>".
func (c *Case) PHP(id int) string {
	if len(c.Steps) > 0 {
		return c.seqPHP(id)
	}
	n := strconv.Itoa(id)
	var b strings.Builder
	b.WriteString("try {\n")
	fmt.Fprintf(&b, "$r%s = %s;\n", n, phpLit(c.Recv))
	out := "$v" + n
	if c.UseLog {
		fmt.Fprintf(&b, "$l%s = [];\n", n)
		out = "$l" + n
	}
	if c.Pre != "" {
		b.WriteString(strings.ReplaceAll(strings.ReplaceAll(c.Pre, "$r", "$r"+n), idTok, n) + "\n")
	}
	call := strings.ReplaceAll(c.phpCall(), "$r", "$r"+n)
	call = strings.ReplaceAll(call, idTok, n)
	fmt.Fprintf(&b, "$v%s = %s;\n", n, call)
	fmt.Fprintf(&b, "echo \"@%s\\t\", json_encode(%s), \"\\t\", json_encode($r%s), \"\\n\";\n", n, out, n)
	fmt.Fprintf(&b, "} catch (\\Throwable $x%s) { echo \"@%s\\tTHROW\\t\", json_encode($x%s->getMessage()), \"\\n\"; }\n", n, n, n)
	return b.String()
}

// Want is the expected output line without the "@id\t" prefix.
func (c *Case) Want() string { return canon(c.ExpRes) + "\t" + canon(c.ExpRecv) }

// JS renders the same call for node (development-time cross-check of jsref only).
func (c *Case) JS(id int) string {
	if c.NoJS || c.Kind == "law" {
		return ""
	}
	recv, _ := json.Marshal(jsVal(c.Recv))
	m := c.Method
	if c.Kind == "string" && m == "replace" {
		m = "replaceAll" // docs/strings.md: replace() replaces every occurrence
	}
	call := "r." + m
	if !c.Prop {
		var args []string
		for _, a := range c.Args {
			switch {
			case a.Omit:
			case a.Cb != nil:
				args = append(args, a.Cb.JS)
			default:
				j, _ := json.Marshal(jsVal(a.V))
				args = append(args, string(j))
			}
		}
		call += "(" + strings.Join(args, ", ") + ")"
	}
	out := "v"
	if c.UseLog {
		out = "l"
	}
	return fmt.Sprintf("chk(%d, () => { let r = %s; let l = []; let v = %s; return [%s, r]; }, %s, %s);\n",
		id, recv, call, out, jsonStr(c.Want()), jsonStr(c.Desc()))
}

func jsVal(v Val) any {
	switch v.K {
	case KNull:
		return nil
	case KBool:
		return v.B
	case KInt:
		return v.I
	case KStr:
		return v.S
	}
	out := make([]any, len(v.L))
	for i, e := range v.L {
		out[i] = jsVal(e)
	}
	return out
}

// Standalone renders a replay script for one case.
func (c *Case) Standalone() string {
	return "<?php\n// " + c.Key + "\n// expected line: @0\\t" + strings.ReplaceAll(c.Want(), "\t", "\\t") + "\necho \"" + startMark + "\\n\";\n" + c.PHP(0)
}

// Nontrivial: the prescribed observable is not what a do-nothing implementation (result
// null / false / -1 / 0 / "" / [], receiver unchanged) would produce.
func (c *Case) Nontrivial() bool {
	if !DeepEq(c.ExpRecv, c.Recv) {
		return true
	}
	r := c.ExpRes
	switch r.K {
	case KNull:
		return false
	case KBool:
		return r.B
	case KInt:
		return r.I != -1 && r.I != 0
	case KStr:
		return r.S != ""
	}
	return len(r.L) > 0
}

// ---- key helpers ---------------------------------------------------------------------

// ic classifies an index argument relative to the receiver length.
func ic(p *int, n int) string {
	if p == nil {
		return "omit"
	}
	x := *p
	switch {
	case x < -n:
		return "<-len"
	case x < 0:
		return "neg"
	case x == 0:
		return "0"
	case x < n:
		return "mid"
	case x == n:
		return "=len"
	}
	return ">len"
}

func kindOf(v Val) string {
	switch v.K {
	case KInt:
		return "int"
	case KStr:
		return "str"
	case KList:
		return "list"
	case KNull:
		return "null"
	}
	return "bool"
}

// itemsClass: "1" = exactly one item (the only shape that does not depend on variadic
// collection); "var:<n>" otherwise. listSensitive marks methods for which a single
// list-valued item must stay one element (push/unshift).
func itemsClass(items []Val, listSensitive bool) string {
	if len(items) == 1 {
		if listSensitive && items[0].K == KList {
			return "var:1list"
		}
		return "1"
	}
	return "var:" + strconv.Itoa(len(items))
}

func kinds(items []Val) string {
	s := ""
	for _, it := range items {
		s += kindOf(it)[:1]
	}
	if s == "" {
		return "-"
	}
	return s
}

func nest(v Val) int {
	if v.K != KList {
		return 0
	}
	m := 0
	for _, e := range v.L {
		if d := nest(e); d > m {
			m = d
		}
	}
	return m + 1
}

func lenClass(n int) string {
	switch n {
	case 0:
		return "0"
	case 1:
		return "1"
	}
	return "n"
}

func ip(i int) *int { return &i }
