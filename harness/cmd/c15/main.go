// Command c15 checks property C15: the built-in array and string methods return, and
// leave behind in their receiver, what docs/array_methods.md and docs/strings.md document
// (JavaScript Array/String semantics with the documents' explicit overrides).
//
// Every case is a real method call executed by the CLI built from the repository's working
// tree; the script prints json_encode(result) and json_encode(receiver after the call), and
// both are compared with an independent implementation of the documented semantics
// (jsref.go). See NOTES.md.
package main

import (
	"fmt"
	"os"
	"sort"
	"strconv"
	"strings"
	"sync"
	"time"

	"verif/lib"
)

const batchSize = 100

// startMark is printed first by every generated script: a process that did not print it did
// not run the script at all (binary or scratch file removed under us, fork failure, ...) and
// says nothing about any case.
const startMark = "@@c15-start"

type outcome struct {
	got    string // canonical "result\treceiver", or a description of what happened instead
	ok     bool   // a line for the case was produced and parsed
	died   string // the process died while running this case
	undone bool   // never reached (watchdog)
}

func script(cases []*Case, ids []int) string {
	var b strings.Builder
	b.WriteString("<?php\necho \"" + startMark + "\\n\";\n")
	for _, id := range ids {
		b.WriteString(cases[id].PHP(id))
	}
	return b.String()
}

func parseLines(stdout string) map[int]string {
	m := map[int]string{}
	for _, line := range strings.Split(stdout, "\n") {
		if !strings.HasPrefix(line, "@") {
			continue
		}
		head, rest, ok := strings.Cut(line[1:], "\t")
		if !ok {
			continue
		}
		id, err := strconv.Atoi(head)
		if err != nil {
			continue
		}
		m[id] = rest
	}
	return m
}

func canonLine(rest string, seq bool) string {
	a, b, ok := strings.Cut(rest, "\t")
	if !ok {
		return rest
	}
	if a == "THROW" {
		return "THROW " + b
	}
	ca, _ := canonJSON(a)
	if seq {
		ca = canonSeqField(a)
	}
	cb, _ := canonJSON(b)
	return ca + "\t" + cb
}

// runScript runs a script; a process that could not even be started (fork/exec failure on a
// loaded machine) is retried and finally reported as not run, never as an outcome.
func runScript(e *lib.Env, src string, timeout time.Duration) (lib.ProcResult, bool) {
	var r lib.ProcResult
	for attempt := 0; attempt < 6; attempt++ {
		r = e.RunScript(src, timeout)
		if r.Err == nil && r.Exit != -2 {
			return r, true
		}
		if _, err := os.Stat(e.Origami()); err != nil {
			return r, false // the binary itself is gone: the retry rounds in main wait for it
		}
		time.Sleep(time.Duration(200*(attempt+1)) * time.Millisecond)
	}
	return r, false
}

// runBatch executes the cases `ids` in one process; when the process dies in the middle the
// case that was running is marked and the rest is resumed in a new process.
// It returns "" or a note saying why some of the cases could not be executed (they are then
// marked undone; the caller retries them and only then records the note as inconclusive).
func runBatch(e *lib.Env, cases []*Case, ids []int, res []outcome) string {
	for len(ids) > 0 {
		r, started := runScript(e, script(cases, ids), 120*time.Second)
		if started && !r.TimedOut && !strings.Contains(r.Stdout, startMark) {
			if crash, _ := lib.GoCrash(r); !crash {
				started = false
				r.Err = fmt.Errorf("the script did not start: exit=%d %s", r.Exit, firstN(strings.TrimSpace(r.Stderr+" "+r.Stdout), 200))
			}
		}
		if !started {
			for _, id := range ids {
				res[id] = outcome{undone: true}
			}
			return fmt.Sprintf("could not run the interpreter for a batch of %d cases: %v", len(ids), r.Err)
		}
		lines := parseLines(r.Stdout)
		firstMissing := -1
		for k, id := range ids {
			if rest, ok := lines[id]; ok {
				res[id] = outcome{got: canonLine(rest, len(cases[id].Steps) > 0), ok: true}
			} else if firstMissing < 0 {
				firstMissing = k
			}
		}
		if firstMissing < 0 {
			return ""
		}
		if r.TimedOut {
			for _, id := range ids[firstMissing:] {
				if !res[id].ok {
					res[id] = outcome{undone: true}
				}
			}
			return fmt.Sprintf("watchdog fired in a batch at case %q", cases[ids[firstMissing]].Desc())
		}
		id := ids[firstMissing]
		what := fmt.Sprintf("exit=%d", r.Exit)
		if crash, cls := lib.GoCrash(r); crash {
			what = "go crash " + cls + " at " + lib.PanicSite(r.Stderr)
		} else if s := strings.TrimSpace(r.Stderr + " " + lastLine(r.Stdout)); s != "" {
			if len(s) > 300 {
				s = s[:300]
			}
			what += " " + s
		}
		res[id] = outcome{died: what}
		ids = ids[firstMissing+1:]
	}
	return ""
}

func firstN(s string, n int) string {
	if len(s) > n {
		return s[:n]
	}
	return s
}

func lastLine(s string) string {
	s = strings.TrimRight(s, "\n")
	if i := strings.LastIndex(s, "\n"); i >= 0 {
		s = s[i+1:]
	}
	if strings.HasPrefix(s, "@") {
		return ""
	}
	return s
}

func main() {
	if len(os.Args) > 1 && os.Args[1] == "jsdump" {
		jsdump()
		return
	}
	e := lib.Init("C15", "exploration")
	e.RunScriptWitnesses()

	g := &gen{}
	full := !e.Quick()
	g.enumerateArrays(full)
	g.enumerateStrings()
	g.enumerateSequences(full)
	enumerated := len(g.cases)
	g.seededSequences(e.Rand("sequences"), e.Pick(3000, 150000))
	g.seededArrays(e.Rand("arrays"), e.Pick(300, 6000))
	g.seededStrings(e.Rand("strings"), e.Pick(300, 6000))
	cases := g.cases

	// batches of consecutive cases (one method family after the other, so that a dying batch
	// costs few re-runs)
	nb := (len(cases) + batchSize - 1) / batchSize
	res := make([]outcome, len(cases))
	lib.ParallelMap(nb, 0, func(b int) {
		lo, hi := b*batchSize, (b+1)*batchSize
		if hi > len(cases) {
			hi = len(cases)
		}
		ids := make([]int, 0, hi-lo)
		for i := lo; i < hi; i++ {
			ids = append(ids, i)
		}
		runBatch(e, cases, ids, res)
	})
	// Cases that could not be executed (interpreter not startable, scratch or binary removed
	// under us, watchdog on an overloaded machine) are retried a few rounds with little
	// parallelism; what is still not executed after that is inconclusive.
	retried := 0
	var notes []string
	for round := 0; round < 3; round++ {
		var pending []int
		for id := range cases {
			if res[id].undone {
				pending = append(pending, id)
			}
		}
		if len(pending) == 0 {
			break
		}
		if round == 0 {
			retried = len(pending)
		}
		time.Sleep(time.Duration(2*(round+1)) * time.Second)
		for wait := 0; wait < 20; wait++ { // a concurrent rebuild replaces the binary: give it a moment
			if _, err := os.Stat(e.Origami()); err == nil {
				break
			}
			time.Sleep(time.Second)
		}
		if _, err := os.Stat(e.Origami()); err != nil {
			notes = []string{fmt.Sprintf("the interpreter binary %s disappeared during the run", e.Origami())}
			break
		}
		np := (len(pending) + batchSize - 1) / batchSize
		var nmu sync.Mutex
		notes = nil
		lib.ParallelMap(np, 4, func(b int) {
			lo, hi := b*batchSize, (b+1)*batchSize
			if hi > len(pending) {
				hi = len(pending)
			}
			ids := append([]int{}, pending[lo:hi]...)
			for _, id := range ids {
				res[id] = outcome{}
			}
			if note := runBatch(e, cases, ids, res); note != "" {
				nmu.Lock()
				notes = append(notes, note)
				nmu.Unlock()
			}
		})
	}
	notExecuted := 0
	for id := range cases {
		if res[id].undone {
			notExecuted++
		}
	}
	if notExecuted > 0 {
		for _, n := range notes {
			e.Inconclusive(n)
		}
		if len(notes) == 0 {
			e.Inconclusive(fmt.Sprintf("%d cases could not be executed", notExecuted))
		}
	}

	// verdicts; a disagreement is re-run alone so that the replay file is self-contained
	var distinct lib.DistinctCounter
	var mu sync.Mutex
	evaluated, mismatches, deaths, throws := 0, 0, 0, 0
	byMethod := map[string]int{}
	type bad struct{ id int }
	var bads []bad
	for id, c := range cases {
		o := res[id]
		if o.undone {
			continue
		}
		evaluated++
		byMethod[c.Kind+"."+c.Method]++
		if c.Nontrivial() {
			distinct.Add(lib.Hash(c.Desc()))
		}
		if o.ok && o.got == c.Want() {
			continue
		}
		bads = append(bads, bad{id})
	}
	// every disagreement is reported under the key of its cell; re-running alone the first few
	// cases of each cell is enough (Violation keeps one report per key)
	const perKey = 3
	seenKey := map[string]int{}
	var rerun []bad
	for _, b := range bads {
		k := cases[b.id].Key
		if seenKey[k] < perKey {
			rerun = append(rerun, b)
		}
		seenKey[k]++
	}
	lib.ParallelMap(len(rerun), 0, func(k int) {
		id := rerun[k].id
		c := cases[id]
		o := res[id]
		alone, started := runScript(e, c.Standalone(), 60*time.Second)
		if !started {
			e.Inconclusive(fmt.Sprintf("could not start the interpreter re-running %s: %v", c.Desc(), alone.Err))
			return
		}
		if alone.TimedOut {
			e.Inconclusive("watchdog fired re-running " + c.Desc())
			return
		}
		if crash, _ := lib.GoCrash(alone); !crash && !strings.Contains(alone.Stdout, startMark) {
			e.Inconclusive(fmt.Sprintf("re-run of %s did not start: exit=%d %s", c.Desc(), alone.Exit, firstN(strings.TrimSpace(alone.Stderr), 200)))
			return
		}
		got := ""
		if rest, ok := parseLines(alone.Stdout)[0]; ok {
			got = canonLine(rest, len(c.Steps) > 0)
		} else if crash, cls := lib.GoCrash(alone); crash {
			got = "DIED go crash " + cls + " at " + lib.PanicSite(alone.Stderr)
		} else {
			got = fmt.Sprintf("DIED exit=%d %s", alone.Exit, strings.TrimSpace(alone.Stderr))
		}
		mu.Lock()
		defer mu.Unlock()
		key := strings.ReplaceAll(c.Key, " ", "/") + "/" // no blanks: keys are matched by KNOWN_FINDINGS.txt fields
		replay := c.Standalone()
		if got == c.Want() {
			// only wrong next to the other cases of its batch: report with the batch as replay
			key += "only-inside-a-batch"
			lo := id / batchSize * batchSize
			hi := lo + batchSize
			if hi > len(cases) {
				hi = len(cases)
			}
			var ids []int
			for i := lo; i < hi; i++ {
				ids = append(ids, i)
			}
			replay = "<?php /* case @" + strconv.Itoa(id) + " differs only in this batch */ ?>" + script(cases, ids)
			got = o.got + o.died
			// must reproduce: a batch process killed from outside (OOM, signal) is not an outcome
			again := make([]outcome, len(cases))
			mu.Unlock()
			_ = runBatch(e, cases, ids, again)
			mu.Lock()
			if a := again[id]; a.undone || (a.ok && a.got == c.Want()) {
				e.Inconclusive("disagreement inside a batch did not reproduce: " + c.Desc() + " observed " + got)
				return
			}
		}
		switch {
		case strings.HasPrefix(got, "DIED"):
			deaths++
		case strings.HasPrefix(got, "THROW"):
			throws++
		default:
			mismatches++
		}
		what := fmt.Sprintf("%s  documented: result=%s receiver=%s  observed: %s",
			c.Desc(), canon(c.ExpRes), canon(c.ExpRecv), strings.ReplaceAll(got, "\t", " receiver="))
		e.Violation(key, what, "php", []byte(replay))
	})

	methods := make([]string, 0, len(byMethod))
	for m := range byMethod {
		methods = append(methods, m)
	}
	sort.Strings(methods)
	perMethod := map[string]int{}
	for _, m := range methods {
		perMethod[m] = byMethod[m]
	}
	e.Extra("cases_per_method", perMethod)
	e.Extra("enumerated_cases", enumerated)
	e.Extra("seeded_cases", len(cases)-enumerated)
	e.Extra("disagreeing_cases", len(bads))
	e.Extra("disagreeing_cells", len(seenKey))
	e.Extra("disagreements_rerun_alone", len(rerun))
	e.Extra("rerun_wrong_value", mismatches)
	e.Extra("rerun_script_error", throws)
	e.Extra("rerun_process_death", deaths)
	e.Extra("batches", nb)
	e.Assume(
		"json_encode and echo render ints, strings, booleans, null and lists faithfully (they are the observation channel)",
		"closures, is_int/is_string/is_array, count, ===, >=, %, + and * on small non-negative ints behave as in PHP (used inside callbacks)",
		"expected values come from cmd/c15/jsref.go, cross-checked against node v20 at development time on the enumerated matrix",
	)
	var samples []any
	for _, i := range []int{0, len(cases) / 7, len(cases) / 3, len(cases) / 2, 2 * len(cases) / 3, len(cases) - 1} {
		if i >= 0 && i < len(cases) {
			samples = append(samples, map[string]string{"case": cases[i].Desc(), "documented": strings.ReplaceAll(cases[i].Want(), "\t", " receiver="), "key": strings.ReplaceAll(cases[i].Key, " ", "/") + "/"})
		}
	}
	e.Extra("cases_retried_after_infrastructure_failure", retried)
	e.Extra("cases_not_executed", notExecuted)
	if notExecuted > 0 && e.NViolations() == 0 {
		// An incomplete run must not read as "held": without samples lib.Finish reports the run
		// as INCONCLUSIVE (exit 2). The counts above stay as measured.
		fmt.Printf("INCONCLUSIVE property=C15: %d of %d cases could not be executed after 3 retry rounds (see inconclusive_notes in the evidence)\n", notExecuted, len(cases))
		samples = nil
	}
	e.Finish(lib.Coverage{
		Evaluations:        evaluated,
		DistinctNontrivial: distinct.N(),
		Rule:               "distinct (receiver, call) pairs whose documented observable differs from a do-nothing implementation: receiver changed, or result not in {null,false,-1,0,\"\",[]}",
		Samples:            samples,
		Exhaustive:         false,
	})
}

// jsdump prints a node program that replays every enumerated case that is plain JavaScript
// against the expectation computed by jsref.go (development aid, not used by check.sh).
func jsdump() {
	g := &gen{}
	g.enumerateArrays(true)
	g.enumerateStrings()
	fmt.Println(`let bad = 0, n = 0;
function canon(v) { return JSON.stringify(v === undefined ? null : v, (k, x) => x === undefined ? null : x); }
function chk(id, f, want, desc) {
  n++;
  let got;
  try { const [v, r] = f(); got = canon(v) + "\t" + canon(r); } catch (e) { got = "THROW " + e; }
  if (got !== want) { bad++; if (bad <= 40) console.log("MISMATCH #" + id + " " + desc + "\n   jsref: " + want + "\n   node:  " + got); }
}`)
	for id, c := range g.cases {
		if js := c.JS(id); js != "" {
			fmt.Print(js)
		}
	}
	fmt.Println(`console.log("checked " + n + " cases against node, mismatches: " + bad); process.exit(bad ? 1 : 0);`)
}
