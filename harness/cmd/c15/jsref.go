package main

// Reference semantics of the documented array and string methods. This file shares no
// code with origami: it is written from the ECMAScript algorithms (Array.prototype.*,
// String.prototype.*) with the overrides that docs/array_methods.md and docs/strings.md
// state explicitly (pop/shift/find yield null, replace replaces every occurrence, split()
// with no separator splits on blanks, sort compares as strings). It was cross-checked at
// development time against node v20 on the complete enumerated matrix (see NOTES.md,
// `c15 jsdump`).

import (
	"sort"
	"strconv"
	"strings"
	"unicode/utf16"
)

type Kind int

const (
	KNull Kind = iota
	KBool
	KInt
	KStr
	KList
)

// Val is a value of the compared domain: null, bool, int, string, list.
type Val struct {
	K Kind
	B bool
	I int
	S string
	L []Val
}

func Null() Val            { return Val{K: KNull} }
func Bool(b bool) Val      { return Val{K: KBool, B: b} }
func Int(i int) Val        { return Val{K: KInt, I: i} }
func Str(s string) Val     { return Val{K: KStr, S: s} }
func List(l ...Val) Val    { return Val{K: KList, L: append([]Val{}, l...)} }
func (v Val) IsList() bool { return v.K == KList }

func (v Val) Clone() Val {
	if v.K != KList {
		return v
	}
	c := Val{K: KList, L: make([]Val, len(v.L))}
	for i, e := range v.L {
		c.L[i] = e.Clone()
	}
	return c
}

// StrictEq is JavaScript's === restricted to the domain; two list values written as
// separate literals are never identical, so lists compare unequal.
func StrictEq(a, b Val) bool {
	if a.K != b.K {
		return false
	}
	switch a.K {
	case KNull:
		return true
	case KBool:
		return a.B == b.B
	case KInt:
		return a.I == b.I
	case KStr:
		return a.S == b.S
	}
	return false
}

// DeepEq is structural equality (used by the harness, not by the semantics).
func DeepEq(a, b Val) bool {
	if a.K != b.K {
		return false
	}
	if a.K != KList {
		return StrictEq(a, b)
	}
	if len(a.L) != len(b.L) {
		return false
	}
	for i := range a.L {
		if !DeepEq(a.L[i], b.L[i]) {
			return false
		}
	}
	return true
}

// ToStr is the string conversion join/sort use; only defined for ints and strings (nested
// lists are kept out of join/sort receivers because the documents do not say how a nested
// array is rendered).
func ToStr(v Val) string {
	switch v.K {
	case KInt:
		return strconv.Itoa(v.I)
	case KStr:
		return v.S
	case KBool:
		if v.B {
			return "true"
		}
		return "false"
	}
	return ""
}

// relIndex: "If rel < 0 then max(len+rel, 0) else min(rel, len)".
func relIndex(rel, n int) int {
	if rel < 0 {
		if n+rel < 0 {
			return 0
		}
		return n + rel
	}
	if rel > n {
		return n
	}
	return rel
}

// ---- arrays -------------------------------------------------------------------------

func ArrSlice(a []Val, start, end *int) []Val {
	n := len(a)
	k := 0
	if start != nil {
		k = relIndex(*start, n)
	}
	fin := n
	if end != nil {
		fin = relIndex(*end, n)
	}
	out := []Val{}
	for ; k < fin; k++ {
		out = append(out, a[k].Clone())
	}
	return out
}

// ArrSplice returns (removed, receiver after). dc == nil means deleteCount omitted.
func ArrSplice(a []Val, start int, dc *int, items []Val) (removed, after []Val) {
	n := len(a)
	s := relIndex(start, n)
	del := n - s
	if dc != nil {
		del = *dc
		if del < 0 {
			del = 0
		}
		if del > n-s {
			del = n - s
		}
	}
	removed = []Val{}
	for i := s; i < s+del; i++ {
		removed = append(removed, a[i].Clone())
	}
	after = []Val{}
	after = append(after, cloneAll(a[:s])...)
	after = append(after, cloneAll(items)...)
	after = append(after, cloneAll(a[s+del:])...)
	return
}

func cloneAll(a []Val) []Val {
	out := make([]Val, len(a))
	for i, v := range a {
		out[i] = v.Clone()
	}
	return out
}

func ArrConcat(a []Val, items []Val) []Val {
	out := cloneAll(a)
	for _, it := range items {
		if it.K == KList {
			out = append(out, cloneAll(it.L)...)
		} else {
			out = append(out, it)
		}
	}
	return out
}

func ArrJoin(a []Val, sep *string) string {
	s := ","
	if sep != nil {
		s = *sep
	}
	parts := make([]string, len(a))
	for i, v := range a {
		parts[i] = ToStr(v)
	}
	return strings.Join(parts, s)
}

func ArrReverse(a []Val) []Val {
	out := make([]Val, len(a))
	for i, v := range a {
		out[len(a)-1-i] = v.Clone()
	}
	return out
}

func utf16Less(x, y string) bool {
	a, b := utf16.Encode([]rune(x)), utf16.Encode([]rune(y))
	for i := 0; i < len(a) && i < len(b); i++ {
		if a[i] != b[i] {
			return a[i] < b[i]
		}
	}
	return len(a) < len(b)
}

// ArrSort: default comparison as strings (code-unit order), stable.
func ArrSort(a []Val) []Val {
	out := cloneAll(a)
	sort.SliceStable(out, func(i, j int) bool { return utf16Less(ToStr(out[i]), ToStr(out[j])) })
	return out
}

func ArrIndexOf(a []Val, x Val, from *int) int {
	n := len(a)
	if n == 0 {
		return -1
	}
	f := 0
	if from != nil {
		f = *from
	}
	if f >= n {
		return -1
	}
	k := f
	if f < 0 {
		k = n + f
		if k < 0 {
			k = 0
		}
	}
	for ; k < n; k++ {
		if StrictEq(a[k], x) {
			return k
		}
	}
	return -1
}

func ArrIncludes(a []Val, x Val, from *int) bool { return ArrIndexOf(a, x, from) >= 0 }

func ArrFlat(a []Val, depth *int) []Val {
	d := 1
	if depth != nil {
		d = *depth
	}
	return flatten(a, d)
}

func flatten(a []Val, d int) []Val {
	out := []Val{}
	for _, v := range a {
		if v.K == KList && d > 0 {
			out = append(out, flatten(v.L, d-1)...)
		} else {
			out = append(out, v.Clone())
		}
	}
	return out
}

type Mapper func(e Val, i int, arr []Val) Val
type Pred func(e Val, i int, arr []Val) bool
type Reducer func(acc, e Val, i int, arr []Val) Val

func ArrMap(a []Val, f Mapper) []Val {
	out := []Val{}
	for i, v := range a {
		out = append(out, f(v, i, a))
	}
	return out
}

func ArrFlatMap(a []Val, f Mapper) []Val { return flatten(ArrMap(a, f), 1) }

func ArrFilter(a []Val, p Pred) []Val {
	out := []Val{}
	for i, v := range a {
		if p(v, i, a) {
			out = append(out, v.Clone())
		}
	}
	return out
}

func ArrFindIndex(a []Val, p Pred) int {
	for i, v := range a {
		if p(v, i, a) {
			return i
		}
	}
	return -1
}

func ArrFind(a []Val, p Pred) Val {
	if i := ArrFindIndex(a, p); i >= 0 {
		return a[i].Clone()
	}
	return Null()
}

func ArrEvery(a []Val, p Pred) bool {
	for i, v := range a {
		if !p(v, i, a) {
			return false
		}
	}
	return true
}

func ArrSome(a []Val, p Pred) bool { return ArrFindIndex(a, p) >= 0 }

// ArrReduce: init == nil means no initial value; the receiver must then be non-empty
// (JavaScript throws on an empty one, the document is silent: kept out of the domain).
func ArrReduce(a []Val, f Reducer, init *Val) Val {
	i := 0
	var acc Val
	if init != nil {
		acc = init.Clone()
	} else {
		acc = a[0].Clone()
		i = 1
	}
	for ; i < len(a); i++ {
		acc = f(acc, a[i], i, a)
	}
	return acc
}

// ---- strings ------------------------------------------------------------------------
// All index arithmetic below is in UTF-16 code units like JavaScript; the harness asserts
// exact results only on ASCII receivers, where code units, code points and bytes coincide.

func units(s string) []uint16     { return utf16.Encode([]rune(s)) }
func fromUnits(u []uint16) string { return string(utf16.Decode(u)) }

func StrLength(s string) int { return len(units(s)) }

func StrIndexOf(s, t string) int {
	a, b := units(s), units(t)
	for i := 0; i+len(b) <= len(a); i++ {
		ok := true
		for j := range b {
			if a[i+j] != b[j] {
				ok = false
				break
			}
		}
		if ok {
			return i
		}
	}
	return -1
}

func StrSubstring(s string, start int, end *int) string {
	u := units(s)
	n := len(u)
	clamp := func(x int) int {
		if x < 0 {
			return 0
		}
		if x > n {
			return n
		}
		return x
	}
	a := clamp(start)
	b := n
	if end != nil {
		b = clamp(*end)
	}
	if a > b {
		a, b = b, a
	}
	return fromUnits(u[a:b])
}

// StrReplaceAll is the documented replace(): every occurrence is replaced
// ("Hello World"->replace("o","0") is "Hell0 W0rld"). Same algorithm as
// String.prototype.replaceAll with a string pattern and a replacement without '$'.
func StrReplaceAll(s, search, repl string) string {
	a, b := units(s), units(search)
	var out []uint16
	r := units(repl)
	if len(b) == 0 {
		for i := 0; i <= len(a); i++ {
			out = append(out, r...)
			if i < len(a) {
				out = append(out, a[i])
			}
		}
		return fromUnits(out)
	}
	i := 0
	for i < len(a) {
		match := i+len(b) <= len(a)
		if match {
			for j := range b {
				if a[i+j] != b[j] {
					match = false
					break
				}
			}
		}
		if match {
			out = append(out, r...)
			i += len(b)
		} else {
			out = append(out, a[i])
			i++
		}
	}
	return fromUnits(out)
}

// StrSplit with an explicit separator.
func StrSplit(s, sep string) []string {
	if sep == "" {
		out := []string{}
		for _, c := range units(s) {
			out = append(out, fromUnits([]uint16{c}))
		}
		return out
	}
	if s == "" {
		return []string{""}
	}
	out := []string{}
	rest := s
	for {
		i := strings.Index(rest, sep)
		if i < 0 {
			out = append(out, rest)
			return out
		}
		out = append(out, rest[:i])
		rest = rest[i+len(sep):]
	}
}

// jsSpace: WhiteSpace + LineTerminator of ECMAScript.
func jsSpace(r rune) bool {
	switch r {
	case '\t', '\n', '\v', '\f', '\r', ' ', 0xA0, 0x1680, 0x2028, 0x2029, 0x202F, 0x205F, 0x3000, 0xFEFF:
		return true
	}
	return r >= 0x2000 && r <= 0x200A
}

func StrTrim(s string) string {
	r := []rune(s)
	i, j := 0, len(r)
	for i < j && jsSpace(r[i]) {
		i++
	}
	for j > i && jsSpace(r[j-1]) {
		j--
	}
	return string(r[i:j])
}

// Case mapping: ASCII plus the explicit pairs of the harness's multi-byte alphabet (all of
// them simple one-to-one mappings in Unicode, so every implementation agrees).
var casePairs = map[rune]rune{'é': 'É', 'ö': 'Ö', 'я': 'Я', 'ж': 'Ж'}

func StrUpper(s string) string {
	r := []rune(s)
	for i, c := range r {
		if c >= 'a' && c <= 'z' {
			r[i] = c - 32
		} else if u, ok := casePairs[c]; ok {
			r[i] = u
		}
	}
	return string(r)
}

func StrLower(s string) string {
	r := []rune(s)
	for i, c := range r {
		if c >= 'A' && c <= 'Z' {
			r[i] = c + 32
		} else {
			for lo, up := range casePairs {
				if c == up {
					r[i] = lo
				}
			}
		}
	}
	return string(r)
}

func StrStartsWith(s, t string) bool { return strings.HasPrefix(s, t) }
func StrEndsWith(s, t string) bool   { return strings.HasSuffix(s, t) }
