package main

// Method sequences: 2..4 calls on the same receiver, the reference applied step by step,
// result and receiver compared after every step. Single calls on fresh literals cannot see
// anything that depends on what an earlier operation left behind in the receiver (spare
// slice capacity after pop/push/`$a[] =`/a shrinking splice, shared backing arrays of values
// produced by slice/concat/filter/map): the receivers here are therefore also produced by
// earlier operations, not only written as literals.

import (
	"fmt"
	"math/rand"
	"strconv"
	"strings"
)

type Step struct {
	Method string
	Args   []Arg
	Prop   bool
	Append bool   // statement `$r[] = Args[0]`
	SetIdx bool   // statement `$r[Args[0]] = Args[1]` (existing index)
	Tag    string // shape of the step for the key, e.g. "splice(grow)"
}

func argIntP(args []Arg, i int) *int {
	if i >= len(args) || args[i].Omit {
		return nil
	}
	v := args[i].V.I
	return &v
}

func argVals(args []Arg) []Val {
	out := []Val{}
	for _, a := range args {
		if !a.Omit {
			out = append(out, a.V)
		}
	}
	return out
}

// applyStep is the documented effect of one step on a receiver: (result, receiver after).
func applyStep(r []Val, s Step) (Val, []Val) {
	same := cloneAll(r)
	switch {
	case s.Append:
		return Null(), append(same, s.Args[0].V.Clone())
	case s.SetIdx:
		same[s.Args[0].V.I] = s.Args[1].V.Clone()
		return Null(), same
	}
	switch s.Method {
	case "push":
		after := append(same, cloneAll(argVals(s.Args))...)
		return Int(len(after)), after
	case "unshift":
		after := append(cloneAll(argVals(s.Args)), same...)
		return Int(len(after)), after
	case "pop":
		if len(r) == 0 {
			return Null(), same
		}
		return r[len(r)-1].Clone(), same[:len(r)-1]
	case "shift":
		if len(r) == 0 {
			return Null(), same
		}
		return r[0].Clone(), same[1:]
	case "reverse":
		rev := ArrReverse(r)
		return lst(rev), cloneAll(rev)
	case "sort":
		so := ArrSort(r)
		return lst(so), cloneAll(so)
	case "splice":
		var items []Val
		if len(s.Args) > 2 {
			items = argVals(s.Args[2:])
		}
		removed, after := ArrSplice(r, s.Args[0].V.I, argIntP(s.Args, 1), items)
		return lst(removed), after
	case "slice":
		return lst(ArrSlice(r, argIntP(s.Args, 0), argIntP(s.Args, 1))), same
	case "concat":
		return lst(ArrConcat(r, argVals(s.Args))), same
	case "join":
		var sep *string
		if len(s.Args) > 0 && !s.Args[0].Omit {
			sep = &s.Args[0].V.S
		}
		return Str(ArrJoin(r, sep)), same
	case "indexOf":
		return Int(ArrIndexOf(r, s.Args[0].V, argIntP(s.Args, 1))), same
	case "includes":
		return Bool(ArrIncludes(r, s.Args[0].V, argIntP(s.Args, 1))), same
	case "flat":
		return lst(ArrFlat(r, argIntP(s.Args, 0))), same
	case "length":
		return Int(len(r)), same
	case "map":
		return lst(ArrMap(r, s.Args[0].Cb.M)), same
	case "filter":
		return lst(ArrFilter(r, s.Args[0].Cb.P)), same
	}
	panic("applyStep: " + s.Method)
}

func (s Step) php(recv string) string {
	render := func(a Arg) string {
		if a.Cb != nil {
			return a.Cb.PHP
		}
		return phpLit(a.V)
	}
	switch {
	case s.Append:
		return recv + "[] = " + render(s.Args[0])
	case s.SetIdx:
		return recv + "[" + render(s.Args[0]) + "] = " + render(s.Args[1])
	case s.Prop:
		return recv + "->" + s.Method
	}
	var args []string
	for _, a := range s.Args {
		if !a.Omit {
			args = append(args, render(a))
		}
	}
	return recv + "->" + s.Method + "(" + strings.Join(args, ", ") + ")"
}

func (s Step) tag() string {
	if s.Tag != "" {
		return s.Tag
	}
	switch {
	case s.Append:
		return "append[]"
	case s.SetIdx:
		return "assign[i]"
	}
	return s.Method
}

// origins: how the receiver value comes into being before the first step. All of them
// denote the same list; `lit` is the only one with a freshly allocated exact-size array.
var origins = []string{"lit", "slice", "concat", "filter", "map", "append", "poppush"}

func originPHP(origin string, v Val, n string) string {
	r, b := "$r"+n, "$b"+n
	switch origin {
	case "slice":
		padded := List(append(append([]Val{Int(0)}, v.L...), Int(0))...)
		return fmt.Sprintf("%s = %s;\n%s = %s->slice(1, %d);\n", b, phpLit(padded), r, b, len(v.L)+1)
	case "concat":
		h := len(v.L) / 2
		return fmt.Sprintf("%s = %s;\n%s = %s->concat(%s);\n", b, phpLit(lst(v.L[:h])), r, b, phpLit(lst(v.L[h:])))
	case "filter":
		return fmt.Sprintf("%s = %s;\n%s = %s->filter(function($e) { return true; });\n", b, phpLit(v), r, b)
	case "map":
		return fmt.Sprintf("%s = %s;\n%s = %s->map(function($e) { return $e; });\n", b, phpLit(v), r, b)
	case "append":
		var sb strings.Builder
		sb.WriteString(r + " = [];\n")
		for _, e := range v.L {
			sb.WriteString(r + "[] = " + phpLit(e) + ";\n")
		}
		return sb.String()
	case "poppush":
		// one element more, popped again: leaves spare capacity behind
		return fmt.Sprintf("%s = %s;\n%s->pop();\n", r, phpLit(lst(append(cloneAll(v.L), Int(99)))), r)
	}
	return fmt.Sprintf("%s = %s;\n", r, phpLit(v))
}

// seqCase builds a sequence case; the first output field is the list
// [json(result1), json(receiver1), json(result2), ...] (strings: snapshots that later steps
// cannot touch), the second the final receiver.
func (g *gen) seqCase(origin string, recv Val, steps []Step) {
	cur := cloneAll(recv.L)
	var trace []Val
	var tags []string
	for _, s := range steps {
		res, after := applyStep(cur, s)
		trace = append(trace, Str(canon(res)), Str(canon(lst(after))))
		cur = after
		tags = append(tags, s.tag())
	}
	g.add(&Case{Kind: "array", Recv: recv.Clone(), Method: "seq", Steps: steps, Origin: origin, NoJS: true,
		Key:    "array.seq " + strings.Join(tags, "+") + " origin=" + origin,
		ExpRes: lst(trace), ExpRecv: lst(cur)})
}

func (c *Case) seqPHP(id int) string {
	n := strconv.Itoa(id)
	var b strings.Builder
	b.WriteString("try {\n")
	b.WriteString(originPHP(c.Origin, c.Recv, n))
	fmt.Fprintf(&b, "$o%s = [];\n", n)
	for _, s := range c.Steps {
		call := strings.ReplaceAll(s.php("$r"+n), idTok, n)
		if s.Append || s.SetIdx {
			fmt.Fprintf(&b, "%s;\n$v%s = null;\n", call, n)
		} else {
			fmt.Fprintf(&b, "$v%s = %s;\n", n, call)
		}
		fmt.Fprintf(&b, "$o%s[] = json_encode($v%s);\n$o%s[] = json_encode($r%s);\n", n, n, n, n)
	}
	fmt.Fprintf(&b, "echo \"@%s\\t\", json_encode($o%s), \"\\t\", json_encode($r%s), \"\\n\";\n", n, n, n)
	fmt.Fprintf(&b, "} catch (\\Throwable $x%s) { echo \"@%s\\tTHROW\\t\", json_encode($x%s->getMessage()), \"\\n\"; }\n", n, n, n)
	return b.String()
}

func (c *Case) seqDesc() string {
	var parts []string
	for _, s := range c.Steps {
		parts = append(parts, s.php("$r"))
	}
	return strings.TrimSpace(strings.ReplaceAll(originPHP(c.Origin, c.Recv, ""), "\n", " ")) + " " + strings.Join(parts, "; ")
}

// canonSeqField canonicalises the first output field of a sequence case (a JSON list of
// JSON texts) element by element.
func canonSeqField(text string) string {
	outer, ok := canonJSON(text)
	if !ok {
		return text
	}
	// outer is a canonical list of strings; re-render every string's content canonically
	var items []string
	if err := jsonUnmarshalStrings(outer, &items); err != nil {
		return outer
	}
	l := make([]Val, len(items))
	for i, it := range items {
		ci, _ := canonJSON(it)
		l[i] = Str(ci)
	}
	return canon(lst(l))
}

// ---- workloads -------------------------------------------------------------------------

func st(method string, args ...Arg) Step { return Step{Method: method, Args: args} }

func tagged(tag string, s Step) Step { s.Tag = tag; return s }

// mutatingSteps: the small argument tuples of every documented mutating method (plus the two
// plain-PHP statements that grow or change an array in place).
func mutatingSteps() []Step {
	x, y, z := aVal(Str("x")), aVal(Str("y")), aVal(Str("z"))
	return []Step{
		st("pop"), st("shift"), st("reverse"), st("sort"),
		tagged("push(1)", st("push", aInt(7))), tagged("push(2)", st("push", aInt(7), x)),
		tagged("unshift(1)", st("unshift", aInt(7))), tagged("unshift(2)", st("unshift", aInt(7), x)),
		tagged("splice(grow1)", st("splice", aInt(1), aInt(0), x)),
		tagged("splice(grow2)", st("splice", aInt(1), aInt(1), x, y)),
		tagged("splice(grow-front)", st("splice", aInt(0), aInt(0), x, y)),
		tagged("splice(grow-neg)", st("splice", aInt(-2), aInt(1), aVal(List(Int(7), Int(8))), z)),
		tagged("splice(same)", st("splice", aInt(1), aInt(1), x)),
		tagged("splice(shrink)", st("splice", aInt(0), aInt(2))),
		tagged("splice(shrink1)", st("splice", aInt(1), aInt(2), x)),
		tagged("splice(tail)", st("splice", aInt(1))),
		{Append: true, Args: []Arg{aInt(5)}},
		{SetIdx: true, Args: []Arg{aInt(0), aVal(Str("q"))}},
	}
}

func observingSteps() []Step {
	return []Step{
		st("slice"), tagged("slice(1)", st("slice", aInt(1))), st("concat", aVal(List(Int(9)))),
		{Method: "length", Prop: true}, st("indexOf", aVal(Str("x"))), st("flat"),
		st("map", aCb(mappers[0])), st("filter", aCb(preds[3])),
	}
}

var seqReceivers = []Val{
	List(Int(1), Int(2), Int(3), Int(4)),
	List(Str("b"), Str("a")),
	List(Int(3), Str("c"), Int(1), Str("1"), Str("a"), Int(6)),
}

// stepOK: SetIdx needs an existing index 0.
func stepOK(cur []Val, s Step) bool { return !s.SetIdx || len(cur) > 0 }

// enumerateSequences: every ordered pair of mutating steps followed by one observation, on
// every receiver; origins rotate (quick) or are all used (full).
func (g *gen) enumerateSequences(full bool) {
	ms, obs := mutatingSteps(), observingSteps()
	k := 0
	for _, r := range seqReceivers {
		for i, a := range ms {
			for j, b := range ms {
				os := []string{origins[k%len(origins)]}
				if full {
					os = origins
				}
				k++
				for _, o := range os {
					cur := cloneAll(r.L)
					if !stepOK(cur, a) {
						continue
					}
					if a.Method == "sort" && !sortable(lst(cur)) {
						continue
					}
					_, cur = applyStep(cur, a)
					if !stepOK(cur, b) || (b.Method == "sort" && !sortable(lst(cur))) {
						continue
					}
					g.seqCase(o, r, []Step{a, b, obs[(i+j)%len(obs)]})
				}
			}
		}
	}
	// nested lists as receivers and as inserted items
	nr := List(List(Int(1), Int(2)), Int(5), List(), Str("s"), List(List(Int(3))))
	for i, a := range ms {
		if a.Method == "sort" {
			continue
		}
		for _, o := range origins {
			g.seqCase(o, nr, []Step{a, ms[(i+7)%len(ms)], st("flat")})
		}
	}
}

func randStep(rnd *rand.Rand, cur []Val, ms, obs []Step) Step {
	n := len(cur)
	switch rnd.Intn(10) {
	case 0, 1:
		return obs[rnd.Intn(len(obs))]
	case 2, 3, 4:
		s := ms[rnd.Intn(len(ms))]
		if !stepOK(cur, s) {
			return st("pop")
		}
		return s
	case 5, 6, 7:
		// random splice around the current length
		start := rnd.Intn(2*n+3) - (n + 1)
		dc := rnd.Intn(n + 2)
		items := randItems(rnd)
		args := []Arg{aInt(start), aInt(dc)}
		args = append(args, vals(items)...)
		tag := "splice(same)"
		del := dc
		if avail := n - relIndex(start, n); del > avail {
			del = avail
		}
		if len(items) > del {
			tag = "splice(grow)"
		} else if len(items) < del {
			tag = "splice(shrink)"
		}
		return tagged(tag, Step{Method: "splice", Args: args})
	case 8:
		items := randItems(rnd)
		return tagged("push("+strconv.Itoa(len(items))+")", Step{Method: "push", Args: vals(items)})
	}
	items := randItems(rnd)
	return tagged("unshift("+strconv.Itoa(len(items))+")", Step{Method: "unshift", Args: vals(items)})
}

// seededSequences: random receivers of length 0..6, random origin, 2..4 random steps.
func (g *gen) seededSequences(rnd *rand.Rand, count int) {
	ms, obs := mutatingSteps(), observingSteps()
	for k := 0; k < count; k++ {
		r := randList(rnd, 6)
		sortOK := sortable(r)
		cur := cloneAll(r.L)
		var steps []Step
		for n := 2 + rnd.Intn(3); len(steps) < n; {
			s := randStep(rnd, cur, ms, obs)
			if s.Method == "sort" && !(sortOK && sortable(lst(cur))) {
				continue
			}
			if s.Method == "indexOf" || s.Method == "join" {
				continue // needle/element kinds are constrained elsewhere; not needed here
			}
			_, cur = applyStep(cur, s)
			steps = append(steps, s)
		}
		g.seqCase(origins[rnd.Intn(len(origins))], r, steps)
	}
}
