package main

import (
	"fmt"
	"math/rand"
	"sort"
	"strings"
)

// genClassProgram builds one namespaced program around a random class hierarchy
// (properties with literal defaults of every scalar type, constants, static members,
// constructors incl. promotion, parent:: / self:: / static:: calls, interfaces, abstract
// bases, an exception subclass) and closures (by-value / by-reference captures, arrow
// functions, $this capture, closures as arguments). There is no reference model: the
// oracle is the interpreted run of the same file. Feature tags are syntactic.
func genClassProgram(r *rand.Rand, idx int, off func(string) bool) (string, []string) {
	g := &cgen{r: r, off: off, feats: map[string]bool{"class": true}, ns: fmt.Sprintf("K%d", idx)}
	g.build()
	var sb strings.Builder
	fmt.Fprintf(&sb, "<?php\nnamespace K%d;\n", idx)
	sb.WriteString(g.decls.String())
	sb.WriteString(g.main.String())
	var fs []string
	for f := range g.feats {
		fs = append(fs, f)
	}
	sort.Strings(fs)
	return sb.String(), fs
}

type cprop struct {
	name, vis string
	kind      int // 0 int 1 string 2 float 3 bool 4 array 5 null
	static    bool
}

type cclass struct {
	name     string
	parent   *cclass
	abstract bool
	ifaces   []string
	props    []cprop // own
	consts   []string
	ctorArgs int // number of int constructor arguments
	hasSCnt  bool
	methods  map[string]bool
}

type cgen struct {
	ns    string
	r     *rand.Rand
	off   func(string) bool
	feats map[string]bool
	decls strings.Builder
	main  strings.Builder
	cls   []*cclass
}

func (g *cgen) use(f string) bool {
	if g.off != nil && g.off(f) {
		return false
	}
	g.feats[f] = true
	return true
}

func (g *cgen) maybe(f string, oneIn int) bool {
	if g.r.Intn(oneIn) != 0 {
		return false
	}
	return g.use(f)
}

func (g *cgen) lit(kind int) string {
	r := g.r
	switch kind {
	case 0:
		return fmt.Sprint(r.Intn(40) - 10)
	case 1:
		return fmt.Sprintf("%q", []string{"alpha", "be ta", "", "G", "x-y", "it's"}[r.Intn(6)])
	case 2:
		return []string{"1.5", "0.25", "2.0", "-3.75", "1e3", "0.1"}[r.Intn(6)]
	case 3:
		return []string{"true", "false"}[r.Intn(2)]
	case 4:
		return []string{"[]", "[1, 2, 3]", "['k' => 1, 'm' => 'v']", "[[1], [2, 3]]", "[5 => 'a', 7 => 'b']"}[r.Intn(5)]
	}
	return "null"
}

// allProps lists the instance int properties visible inside class c (own + inherited non-private).
func (c *cclass) intProps() []string {
	var out []string
	for k := c; k != nil; k = k.parent {
		for _, p := range k.props {
			if p.kind == 0 && !p.static && (k == c || p.vis != "private") {
				out = append(out, p.name)
			}
		}
	}
	return out
}

func (c *cclass) has(m string) bool {
	for k := c; k != nil; k = k.parent {
		if k.methods[m] {
			return true
		}
	}
	return false
}

func (c *cclass) rootCtorArgs() int { return c.ctorArgs }

// intExpr: an int-valued expression inside a method of class c with int parameters ps.
func (g *cgen) intExpr(c *cclass, ps []string, depth int) string {
	r := g.r
	var atoms []string
	for _, p := range ps {
		atoms = append(atoms, "$"+p)
	}
	if c != nil {
		for _, p := range c.intProps() {
			atoms = append(atoms, "$this->"+p)
		}
		for k := c; k != nil; k = k.parent {
			for _, cn := range k.consts {
				atoms = append(atoms, []string{"self::", "static::"}[r.Intn(2)]+cn)
			}
		}
	}
	atoms = append(atoms, fmt.Sprint(r.Intn(9)+1))
	a := atoms[r.Intn(len(atoms))]
	if depth <= 0 || r.Intn(3) == 0 {
		return a
	}
	b := g.intExpr(c, ps, depth-1)
	switch r.Intn(6) {
	case 0:
		return "(" + a + " + " + b + ")"
	case 1:
		return "(" + a + " - " + b + ")"
	case 2:
		return "(" + a + " * " + b + ")"
	case 3:
		return "(" + a + " % " + fmt.Sprint(r.Intn(5)+2) + ")"
	case 4:
		return "(" + a + " > " + b + " ? " + a + " : " + b + ")"
	}
	return "max(" + a + ", " + b + ")"
}

func (g *cgen) build() {
	r := g.r
	nIface := 0
	if g.maybe("interface", 2) {
		nIface = 1 + r.Intn(2)
		for i := 0; i < nIface; i++ {
			ext := ""
			if i > 0 && r.Intn(2) == 0 {
				ext = " extends I0"
			}
			c := ""
			if g.maybe("static-member", 3) {
				c = fmt.Sprintf(" const IC%d = %d;", i, r.Intn(20))
			}
			fmt.Fprintf(&g.decls, "interface I%d%s {%s function describe(); }\n", i, ext, c)
		}
	}
	hasExc := r.Intn(2) == 0
	if hasExc {
		g.feats["exceptions"] = true
		body := ""
		if r.Intn(2) == 0 || !g.use("inherited-ctor") {
			body = " private $tag; function __construct($m, $tag = 'T') { parent::__construct($m); $this->tag = $tag; } function tag() { return $this->tag; } "
		}
		fmt.Fprintf(&g.decls, "class AppEx extends \\Exception {%s}\n", body)
		if r.Intn(2) == 0 && g.use("inherited-ctor") {
			g.decls.WriteString("class SubEx extends AppEx {}\n")
		}
	}
	n := 2 + r.Intn(4)
	for i := 0; i < n; i++ {
		c := &cclass{name: fmt.Sprintf("C%d", i), methods: map[string]bool{}}
		if i > 0 && r.Intn(4) != 0 {
			c.parent = g.cls[r.Intn(i)]
			g.feats["inherit"] = true
		}
		if i == 0 && r.Intn(3) == 0 {
			c.abstract = true
		}
		for k := 0; k < nIface; k++ {
			if r.Intn(3) == 0 {
				c.ifaces = append(c.ifaces, fmt.Sprintf("I%d", k))
			}
		}
		g.cls = append(g.cls, c)
		g.emitClass(c, hasExc)
	}
	g.emitMain(hasExc, nIface)
}

func (g *cgen) emitClass(c *cclass, hasExc bool) {
	r := g.r
	w := &g.decls
	head := "class " + c.name
	if c.abstract {
		head = "abstract " + head
	}
	if c.parent != nil {
		head += " extends " + c.parent.name
	}
	if len(c.ifaces) > 0 {
		head += " implements " + strings.Join(c.ifaces, ", ")
	}
	fmt.Fprintf(w, "%s {\n", head)
	// constants
	if g.maybe("static-member", 2) {
		for k := 0; k < 1+r.Intn(2); k++ {
			cn := fmt.Sprintf("K%s_%d", c.name, k)
			val := fmt.Sprint(r.Intn(30))
			if k > 0 && r.Intn(2) == 0 {
				val = fmt.Sprintf("self::K%s_0 + %d", c.name, r.Intn(5))
			}
			fmt.Fprintf(w, "  const %s = %s;\n", cn, val)
			c.consts = append(c.consts, cn)
		}
	}
	// properties
	np := 1 + r.Intn(4)
	for k := 0; k < np; k++ {
		p := cprop{name: fmt.Sprintf("p%s_%d", strings.ToLower(c.name), k), vis: []string{"public", "public", "protected", "private"}[r.Intn(4)], kind: r.Intn(6)}
		if k == 0 {
			p.kind = 0
		}
		typ := ""
		if r.Intn(3) == 0 && g.use("types") {
			typ = []string{"int ", "string ", "float ", "bool ", "array ", "?int "}[p.kind]
		}
		fmt.Fprintf(w, "  %s %s$%s = %s;\n", p.vis, typ, p.name, g.lit(p.kind))
		c.props = append(c.props, p)
	}
	if g.maybe("static-member", 2) {
		c.hasSCnt = true
		fmt.Fprintf(w, "  public static $cnt%s = %d;\n  protected static $names%s = [];\n", c.name, r.Intn(5), c.name)
	}
	// constructor
	ownCtor := c.parent == nil || r.Intn(2) == 0 || !g.use("inherited-ctor")
	if ownCtor {
		c.ctorArgs = r.Intn(3)
		var ps []string
		var names []string
		promoted := ""
		for k := 0; k < c.ctorArgs; k++ {
			names = append(names, fmt.Sprintf("a%d", k))
			d := ""
			if k > 0 && r.Intn(2) == 0 {
				d = fmt.Sprintf(" = %d", r.Intn(9))
			}
			ps = append(ps, fmt.Sprintf("$a%d%s", k, d))
		}
		if g.maybe("promotion", 3) {
			promoted = fmt.Sprintf("pr%s", strings.ToLower(c.name))
			ps = append(ps, fmt.Sprintf("public int $%s = %d", promoted, r.Intn(9)))
		}
		fmt.Fprintf(w, "  function __construct(%s) {\n", strings.Join(ps, ", "))
		if c.parent != nil {
			var args []string
			for k := 0; k < c.parent.ctorArgs; k++ {
				args = append(args, g.intExpr(nil, names, 1))
			}
			fmt.Fprintf(w, "    parent::__construct(%s);\n", strings.Join(args, ", "))
		}
		fmt.Fprintf(w, "    $this->%s = %s;\n", c.props[0].name, g.intExpr(c, names, 2))
		if c.hasSCnt {
			fmt.Fprintf(w, "    self::$cnt%s++;\n    static::$names%s[] = static::class;\n", c.name, c.name)
		}
		fmt.Fprintf(w, "  }\n")
		if promoted != "" {
			c.props = append(c.props, cprop{name: promoted, vis: "public", kind: 0})
		}
	} else {
		c.ctorArgs = c.parent.ctorArgs
	}
	// calc: int method, overriding calls parent
	if !c.has("calc") || r.Intn(2) == 0 {
		body := g.intExpr(c, []string{"x", "y"}, 3)
		if c.parent != nil && c.parent.has("calc") && r.Intn(2) == 0 {
			body = "parent::calc($y, $x) + " + body
		}
		fmt.Fprintf(w, "  function calc($x, $y = %d) { return %s; }\n", r.Intn(5), body)
		c.methods["calc"] = true
	}
	// describe
	if !c.has("describe") || r.Intn(2) == 0 {
		var parts []string
		parts = append(parts, `static::class`, `"/"`, `self::class`)
		for _, p := range c.props {
			switch p.kind {
			case 0, 1, 2:
				parts = append(parts, `":"`, "$this->"+p.name)
			case 3:
				parts = append(parts, `":"`, "($this->"+p.name+` ? "T" : "F")`)
			case 4:
				parts = append(parts, `":"`, "count($this->"+p.name+")")
			case 5:
				parts = append(parts, `":"`, "($this->"+p.name+` ?? "N")`)
			}
		}
		if c.parent != nil && c.parent.has("describe") && !c.parent.abstractDescribe() && r.Intn(2) == 0 {
			parts = append(parts, `"<"`, "parent::describe()")
		}
		fmt.Fprintf(w, "  function describe() { return %s; }\n", strings.Join(parts, " . "))
		c.methods["describe"] = true
	}
	// bump: fluent mutator
	if r.Intn(2) == 0 {
		fmt.Fprintf(w, "  function bump($by) { $this->%s += $by; $this->%s = $this->%s * 2 - 1; return $this; }\n", c.props[0].name, c.props[0].name, c.props[0].name)
		c.methods["bump"] = true
	}
	// static helpers
	if g.maybe("static-method", 2) {
		fmt.Fprintf(w, "  static function twice%s($v) { return self::half%s($v) * 4; }\n  private static function half%s($v) { return $v %% 7 + 1; }\n", c.name, c.name, c.name)
		c.methods["twice"+c.name] = true
		if !c.abstract {
			var args []string
			for k := 0; k < c.ctorArgs; k++ {
				args = append(args, fmt.Sprint(r.Intn(9)))
			}
			fmt.Fprintf(w, "  static function make%s() { return new static(%s); }\n", c.name, strings.Join(args, ", "))
			c.methods["make"+c.name] = true
		}
	}
	// closures over $this
	if g.maybe("closure", 2) {
		fmt.Fprintf(w, "  function adder%s($k) { return function ($v) use ($k) { return $v + $k + $this->%s; }; }\n", c.name, c.props[0].name)
		fmt.Fprintf(w, "  function mapped%s(array $xs) { return array_map(fn($v) => $v * $this->%s, $xs); }\n", c.name, c.props[0].name)
		c.methods["adder"+c.name] = true
	}
	if hasExc && r.Intn(2) == 0 {
		fmt.Fprintf(w, "  function risky%s($v) { if ($v %% 3 == 0) { throw new AppEx(\"bad $v in \" . static::class); } return $v; }\n", c.name)
		c.methods["risky"+c.name] = true
	}
	fmt.Fprintf(w, "}\n")
}

func (c *cclass) abstractDescribe() bool { return false }

func (g *cgen) emitMain(hasExc bool, nIface int) {
	r := g.r
	w := &g.main
	var inst []*cclass
	for _, c := range g.cls {
		if !c.abstract {
			inst = append(inst, c)
		}
	}
	if len(inst) == 0 {
		fmt.Fprintf(w, "echo \"no concrete class\\n\";\n")
		return
	}
	fmt.Fprintf(w, "$objs = [];\n")
	for k := 0; k < 2+r.Intn(3); k++ {
		c := inst[r.Intn(len(inst))]
		var args []string
		for a := 0; a < c.ctorArgs; a++ {
			args = append(args, fmt.Sprint(r.Intn(12)))
		}
		switch r.Intn(4) {
		case 0:
			fmt.Fprintf(w, "$objs[] = new %s(%s);\n", c.name, strings.Join(args, ", "))
		case 1:
			fmt.Fprintf(w, "$o%d = new %s(%s); $objs[] = $o%d;\n", k, c.name, strings.Join(args, ", "), k)
		case 2:
			if g.use("new-forms") {
				fmt.Fprintf(w, "$cn%d = '%s\\%s'; $objs[] = new $cn%d(%s);\n", k, g.ns, c.name, k, strings.Join(args, ", "))
			} else {
				fmt.Fprintf(w, "$objs[] = new %s(%s);\n", c.name, strings.Join(args, ", "))
			}
		default:
			if c.methods["make"+c.name] {
				fmt.Fprintf(w, "$objs[] = %s::make%s();\n", c.name, c.name)
			} else {
				fmt.Fprintf(w, "$objs['k%d'] = new %s(%s);\n", k, c.name, strings.Join(args, ", "))
			}
		}
	}
	fmt.Fprintf(w, "foreach ($objs as $i => $o) {\n  echo $i, \"=\", get_class($o), \"|\", $o->describe(), \"|\", $o->calc(%d), \"|\", $o->calc(%d, %d), \"\\n\";\n}\n", r.Intn(9), r.Intn(9), r.Intn(9))
	for _, c := range g.cls {
		fmt.Fprintf(w, "echo \"%s:\"; foreach ($objs as $o) { echo $o instanceof %s ? \"1\" : \"0\"; } echo \"\\n\";\n", c.name, c.name)
	}
	for k := 0; k < nIface; k++ {
		fmt.Fprintf(w, "echo \"I%d:\"; foreach ($objs as $o) { echo $o instanceof I%d ? \"1\" : \"0\"; } echo \"\\n\";\n", k, k)
	}
	for _, c := range g.cls {
		for _, cn := range c.consts {
			fmt.Fprintf(w, "echo %s::%s, \",\";\n", c.name, cn)
		}
		if c.hasSCnt {
			fmt.Fprintf(w, "echo %s::$cnt%s, \",\";\n", c.name, c.name)
		}
		if c.methods["twice"+c.name] {
			fmt.Fprintf(w, "echo %s::twice%s(%d), \",\";\n", c.name, c.name, r.Intn(30))
		}
	}
	fmt.Fprintf(w, "echo \"\\n\";\n")
	// fluent + closures
	for _, c := range inst {
		var args []string
		for a := 0; a < c.ctorArgs; a++ {
			args = append(args, fmt.Sprint(r.Intn(12)))
		}
		if c.has("bump") && r.Intn(2) == 0 {
			fmt.Fprintf(w, "echo (new %s(%s))->bump(%d)->bump(%d)->calc(1), \"\\n\";\n", c.name, strings.Join(args, ", "), r.Intn(5), r.Intn(5))
		}
		if c.methods["adder"+c.name] {
			fmt.Fprintf(w, "$x%s = new %s(%s); $ad = $x%s->adder%s(%d); echo $ad(%d), \",\", implode(\",\", $x%s->mapped%s([1, 2, 3])), \"\\n\";\n", c.name, c.name, strings.Join(args, ", "), c.name, c.name, r.Intn(9), r.Intn(9), c.name, c.name)
		}
		if c.methods["risky"+c.name] {
			fin := ""
			if r.Intn(2) == 0 {
				fin = " finally { echo \"f\"; }"
			}
			fmt.Fprintf(w, "$y%s = new %s(%s); foreach ([1, 2, 3, 4] as $v) { try { echo $y%s->risky%s($v), \",\"; } catch (AppEx $e) { echo get_class($e), \"(\", $e->getMessage(), \"),\"; }%s } echo \"\\n\";\n", c.name, c.name, strings.Join(args, ", "), c.name, c.name, fin)
		}
	}
	// free closures
	if g.use("closure") {
		fmt.Fprintf(w, "$base = %d; $acc = [];\n", r.Intn(20))
		fmt.Fprintf(w, "$byval = function ($v) use ($base) { $base = $base + $v; return $base; };\n")
		fmt.Fprintf(w, "echo $byval(1), $byval(2), \":\", $base, \"\\n\";\n")
		if g.use("closure-use-ref") {
			fmt.Fprintf(w, "$byref = function ($v) use (&$base, &$acc) { $base = $base + $v; $acc[] = $base; return $base; };\n")
			fmt.Fprintf(w, "echo $byref(1), \",\", $byref(2), \":\", $base, \":\", implode(\",\", $acc), \"\\n\";\n")
		}
		if g.use("arrow-fn") {
			fmt.Fprintf(w, "$arrow = fn($v) => $v * $base + count($objs); echo $arrow(%d), \"\\n\";\n", r.Intn(9))
		}
		fmt.Fprintf(w, "usort($objs, function ($a, $b) { return $a->calc(1) <=> $b->calc(1); }); foreach ($objs as $o) { echo $o->calc(1), \" \"; } echo \"\\n\";\n")
		fmt.Fprintf(w, "echo implode(\",\", array_map(function ($o) use ($base) { return $o->calc($base, 1); }, $objs)), \"\\n\";\n")
	}
	if hasExc && r.Intn(3) == 0 {
		// uncaught at the very end: exit status and diagnostic must agree too
		fmt.Fprintf(w, "echo \"end\\n\";\nthrow new AppEx(\"final %d\");\n", r.Intn(100))
	} else {
		fmt.Fprintf(w, "echo \"end\\n\";\n")
	}
}
