package main

import (
	"bytes"
	"fmt"
	"os"
	"path/filepath"
	"strings"
	"text/template"
	"time"

	"verif/lib"
)

// A project is a small source tree with ONE entry file, translated and built exactly the
// way `origami compile --build --entry=<file>` does it: the repository's built-in
// register.go/main.go templates, unchanged (the harness only supplies go.mod/go.sum with a
// replace directive, because `--build` runs `go mod tidy`, which needs the network). The
// built binary is run without arguments; the entry file is interpreted with `origami`.
type project struct {
	name    string
	witness bool // demonstrates a listed defect: runs in stage 0, never quarantined
	feats   []string
	files   map[string]string // path below the project root -> source
	entry   string
}

func projects() []project {
	return []project{
		{name: "entry-plain", files: map[string]string{"index.php": `<?php
namespace App;
function twice($x) { return $x * 2; }
$t = 0; for ($i = 0; $i < 5; $i++) { $t = $t + twice($i); }
echo "total=", $t, "\n";
$f = function ($v) use ($t) { return $v + $t; };
echo $f(1), "\n";
`}, entry: "index.php"},
		{name: "entry-class", witness: true, files: map[string]string{"index.php": `<?php
namespace App;
class Greeter { private $who; function __construct($who) { $this->who = $who; } function hi() { return "hi " . $this->who; } }
$g = new Greeter("there");
echo $g->hi(), "\n";
`}, entry: "index.php"},
		{name: "lib-class", feats: []string{"static-member"}, files: map[string]string{"index.php": `<?php
namespace App;
use App\Lib\Greeter;
$g = new Greeter("lib");
echo $g->hi(), " ", Greeter::count(), "\n";
`, "Lib/Greeter.php": `<?php
namespace App\Lib;
class Greeter { private $who; private static $n = 0; function __construct($who) { $this->who = $who; self::$n++; } function hi() { return "hi " . $this->who; } static function count() { return self::$n; } }
`}, entry: "index.php"},
		{name: "lib-inherit", feats: []string{"inherited-ctor"}, files: map[string]string{"index.php": `<?php
namespace App;
use App\Model\Dog;
$d = new Dog("rex");
echo $d->describe(), " ", $d instanceof \App\Model\Animal ? "Y" : "N", "\n";
`, "Model/Animal.php": `<?php
namespace App\Model;
class Animal { protected $name; function __construct($name) { $this->name = $name; } function describe() { return static::class . ":" . $this->name . ":" . $this->sound(); } function sound() { return "..."; } }
`, "Model/Dog.php": `<?php
namespace App\Model;
class Dog extends Animal { function sound() { return "woof"; } }
`}, entry: "index.php"},
		{name: "entry-class-hierarchy", feats: []string{"project-entry-class", "inherited-ctor", "static-member"}, files: map[string]string{"index.php": `<?php
namespace App;
class Base { protected $n; public static $made = 0; function __construct($n) { $this->n = $n; self::$made++; } function show() { return static::class . "#" . $this->n; } }
class Leaf extends Base { const TAG = "leaf"; function show() { return self::TAG . ":" . parent::show(); } }
$x = new Leaf(3); $y = new Base(4);
echo $x->show(), " ", $y->show(), " ", Base::$made, "\n";
`}, entry: "index.php"},
		{name: "entry-uncaught", files: map[string]string{"index.php": `<?php
namespace App;
echo "before\n";
function fail($n) { if ($n == 0) { throw new \RuntimeException("project failure"); } fail($n - 1); }
fail(2);
echo "after\n";
`}, entry: "index.php"},
	}
}

type tmplFile struct {
	FuncName, Path, Namespace string
	IsEntry                   bool
	Classes                   []string
}

type tmplData struct {
	Pkg       string
	HasEntry  bool
	EntryPath string
	Files     []tmplFile
}

// runProjects returns the number of projects evaluated.
func runProjects(e *lib.Env, witnesses bool, off func(string) bool, skipped map[string]int) (evaluated, disagreements int, samples []any) {
	var ps []project
	for _, p := range projects() {
		if p.witness == witnesses {
			ps = append(ps, p)
		}
	}
	type pres struct {
		incon, kind, detail string
		comp, interp        outcome
		ran                 bool
	}
	rs := make([]pres, len(ps))
	tdir := filepath.Join(e.Scratch, "tmpl")
	mainTmpl, err := os.ReadFile(filepath.Join(tdir, ".zy", "main.go.tmpl"))
	if err != nil {
		e.Inconclusive("projects: built-in main template not available")
		return 0, 0, nil
	}
	gosum, _ := os.ReadFile(filepath.Join(e.Repo, "go.sum"))
	env := []string{"GOFLAGS=-mod=mod", "GOPROXY=off"}
	lib.ParallelMap(len(ps), 4, func(i int) {
		p := ps[i]
		for _, f := range p.feats {
			if off(f) {
				return
			}
		}
		root := filepath.Join(e.Scratch, "proj", p.name)
		app := filepath.Join(root, "app")
		out := filepath.Join(root, "out")
		for rel, src := range p.files {
			fp := filepath.Join(app, rel)
			_ = os.MkdirAll(filepath.Dir(fp), 0o755)
			_ = os.WriteFile(fp, []byte(src), 0o644)
		}
		entry := filepath.Join(app, p.entry)
		cr := lib.RunProc(lib.ProcSpec{Argv: []string{e.Origami(), "compile", app, "-o", out, "--pkg", "main", "--entry=" + entry}, Dir: root, Timeout: 3 * time.Minute, Env: env})
		if cr.TimedOut {
			rs[i].incon = "compile watchdog"
			return
		}
		if cr.Exit != 0 {
			if crash, what := lib.GoCrash(cr); crash {
				rs[i].kind, rs[i].detail = "compile-crash", what
			} else if strings.Contains(cr.Stdout+cr.Stderr, "compile error:") {
				rs[i].incon = "" // a reported compile error is an acceptable outcome; nothing to compare
			} else {
				rs[i].incon = "compile failed: " + head(cr.Stdout+cr.Stderr, 300)
			}
			return
		}
		t, err := template.New("main").Parse(string(mainTmpl))
		if err != nil {
			rs[i].incon = "main template: " + err.Error()
			return
		}
		var buf bytes.Buffer
		if err := t.Execute(&buf, tmplData{Pkg: "main", HasEntry: true, EntryPath: entry}); err != nil {
			rs[i].incon = "main template: " + err.Error()
			return
		}
		_ = os.WriteFile(filepath.Join(out, "main.go"), buf.Bytes(), 0o644)
		_ = os.WriteFile(filepath.Join(out, "go.mod"), []byte(goMod(e.Repo)), 0o644)
		_ = os.WriteFile(filepath.Join(out, "go.sum"), gosum, 0o644)
		bin := filepath.Join(root, "appbin")
		br := lib.RunProc(lib.ProcSpec{Argv: []string{"go", "build", "-gcflags=-e", "-o", bin, "."}, Dir: out, Timeout: 20 * time.Minute, Env: env})
		if br.TimedOut {
			rs[i].incon = "go build watchdog"
			return
		}
		if br.Exit != 0 {
			rs[i].kind, rs[i].detail = "gobuild", head(br.Stderr, 400)
			return
		}
		b := &batch{e: e}
		rs[i].interp = b.exec([]string{e.Origami(), entry}, app)
		rs[i].comp = b.exec([]string{bin}, app)
		rs[i].ran = true
		if rs[i].interp.TimedOut || rs[i].comp.TimedOut {
			rs[i].incon = "watchdog"
			return
		}
		r := &result{Comp: rs[i].comp, Interp: rs[i].interp}
		rs[i].kind, rs[i].detail = compare(r)
	})
	for i, p := range ps {
		q := ""
		for _, f := range p.feats {
			if off(f) {
				q = f
			}
		}
		if q != "" {
			skipped[q]++
			continue
		}
		r := rs[i]
		if r.incon != "" {
			e.Inconclusive("project " + p.name + ": " + r.incon)
			continue
		}
		if !r.ran && r.kind == "" {
			continue
		}
		evaluated++
		var src strings.Builder
		for rel, s := range p.files {
			fmt.Fprintf(&src, "// ---- file %s\n%s\n", rel, s)
		}
		if len(samples) < 1 && r.ran {
			samples = append(samples, map[string]any{"case": "project/" + p.name, "files": p.files, "stdout_interpreted": r.interp.Stdout, "stdout_compiled": r.comp.Stdout})
		}
		if r.kind != "" {
			disagreements++
			what := fmt.Sprintf("project/%s (built-in templates, entry %s): compiled and interpreted runs differ (%s): %s", p.name, p.entry, r.kind, r.detail)
			rep := src.String() + fmt.Sprintf("\n/* verdict: %s :: %s\n---- interpreted exit=%d stdout:\n%s\nstderr:\n%s\n---- compiled exit=%d stdout:\n%s\nstderr:\n%s\n*/\n", r.kind, r.detail,
				r.interp.Exit, r.interp.Stdout, head(r.interp.Stderr, 1500), r.comp.Exit, r.comp.Stdout, head(r.comp.Stderr, 1500))
			e.Violation("project:"+p.name+":"+r.kind, what, "php", []byte(rep))
		}
	}
	return evaluated, disagreements, samples
}
