package main

import (
	"fmt"
	"math/rand"
	"strings"
)

// Name resolution: compiled code resolves every function call, `new`, static access and
// constant read by name while it runs (NewCallTodo / ...Later nodes), the interpreter binds
// what it already knows while it parses. The two must pick the same definition when a short
// name is declared more than once: in the current namespace and as a built-in, as a global
// user declaration, or in another namespace. Every unit declares colliding functions /
// classes / constants, reaches them unqualified, qualified, through imports and aliases,
// through callable strings and function_exists, from top-level code, functions, methods and
// closures, and prints which definition ran. Nothing is asserted about what PHP would do: only
// that the compiled run equals the interpreted run.
//
// "@N@" is replaced by a root namespace that is unique in the batch (all files of a batch are
// parsed by one VM).

// user versions of built-ins: each returns a marker that names the definition that ran
const nsShadowFuncs = `function count($a) { return "U:count"; }
function trim($s) { return "U:trim"; }
function strlen($s) { return "U:strlen"; }
function strtoupper($s) { return "U:strtoupper"; }
function implode($g, $a) { return "U:implode"; }
function max($a, $b) { return "U:max"; }
function in_array($n, $h) { return "U:in_array"; }
function json_encode($v) { return "U:json_encode"; }
function is_int($v) { return "U:is_int"; }
function helper($x) { return "U:helper(" . $x . ")"; }
`

// the same calls, written once; printed by every context
const nsCalls = `count([1, 2, 3]), "|", trim("  t  "), "|", strlen("four"), "|", strtoupper("up"), "|", implode("-", [1, 2]), "|", max(3, 9), "|", in_array(2, [1, 2]) ? "T" : "F", "|", json_encode([1]), "|", is_int(5) ? "T" : "F", "|", helper(1)`

const nsCallsGlobal = `\count([1, 2, 3]), "|", \trim("  t  "), "|", \strlen("four"), "|", \strtoupper("up"), "|", \implode("-", [1, 2]), "|", \max(3, 9), "|", \in_array(2, [1, 2]) ? "T" : "F", "|", \json_encode([1]), "|", \is_int(5) ? "T" : "F"`

const nsCallsQualified = `\@N@\App\count([1, 2, 3]), "|", \@N@\App\trim("  t  "), "|", \@N@\App\strlen("four"), "|", \@N@\App\strtoupper("up"), "|", \@N@\App\implode("-", [1, 2]), "|", \@N@\App\max(3, 9), "|", \@N@\App\json_encode([1]), "|", \@N@\App\helper(2)`

var nsUnits = []unit{
	{name: "nsres.fn.builtin.toplevel.after.decl", src: `namespace @N@\App;
` + nsShadowFuncs + `echo "unqualified:", ` + nsCalls + `, "\n";
echo "global:", ` + nsCallsGlobal + `, "\n";
echo "qualified:", ` + nsCallsQualified + `, "\n";
`},
	{name: "nsres.fn.builtin.toplevel.before.decl", src: `namespace @N@\App;
echo "unqualified:", count([1, 2, 3]), "|", trim("  t  "), "|", strlen("four"), "|", max(3, 9), "\n";
echo "global:", \count([1, 2, 3]), "|", \trim("  t  "), "\n";
` + nsShadowFuncs + `echo "after:", count([1, 2, 3]), "|", trim("  t  "), "|", strlen("four"), "|", max(3, 9), "\n";
`},
	{name: "nsres.fn.builtin.in.function", src: `namespace @N@\App;
` + nsShadowFuncs + `function viaFunction($rows) { return count($rows) . "|" . trim("  t  ") . "|" . strlen("four") . "|" . \count($rows) . "|" . \@N@\App\count($rows) . "|" . helper(3); }
function nested() { return viaFunction([1, 2]) . "/" . strtoupper("n") . "/" . implode(",", [1, 2]); }
echo viaFunction([1, 2, 3, 4]), "\n", nested(), "\n";
function declaredLater() { return laterFn(1) . "|" . max(1, 2); }
function laterFn($x) { return "U:laterFn"; }
echo declaredLater(), "\n";
`},
	{name: "nsres.fn.builtin.in.method", classy: true, src: `namespace @N@\App;
` + nsShadowFuncs + `class Report {
  private $rows = ["a", "", "b"];
  function summary() { return "rows=" . count($this->rows) . " first=" . trim("  " . $this->rows[0] . "  ") . " len=" . strlen("abc") . " g=" . \count($this->rows) . " q=" . \@N@\App\count($this->rows); }
  static function st($x) { return max($x, 2) . "|" . implode(",", [$x]) . "|" . helper($x) . "|" . \max($x, 2); }
  function __toString() { return strtoupper("str") . json_encode([1]); }
}
$r = new Report();
echo $r->summary(), "\n", Report::st(7), "\n", $r, "\n";
`},
	{name: "nsres.fn.builtin.in.closure", src: `namespace @N@\App;
` + nsShadowFuncs + `$c = function ($rows) { return count($rows) . "|" . trim(" x ") . "|" . \count($rows) . "|" . helper(4); };
$a = fn($rows) => count($rows) . "|" . strlen("abc") . "|" . \strlen("abc");
$k = 5;
$u = function () use ($k) { return max($k, 1) . "|" . is_int($k) . "|" . \max($k, 1); };
function maker() { return function ($s) { return strtoupper($s) . "|" . \strtoupper($s); }; }
echo $c([1, 2]), "\n", $a([1]), "\n", $u(), "\n", maker()("mk"), "\n";
echo implode(",", array_map(function ($s) { return trim($s); }, [" p ", " q "])), "\n";
`},
	{name: "nsres.fn.callable.strings", src: `namespace @N@\App;
` + nsShadowFuncs + `echo "exists:", function_exists("count") ? "Y" : "N", function_exists("@N@\App\count") ? "Y" : "N", function_exists("\@N@\App\count") ? "Y" : "N", function_exists("helper") ? "Y" : "N", function_exists("@N@\App\helper") ? "Y" : "N", function_exists("@N@\App\nothing") ? "Y" : "N", "\n";
echo "callable:", is_callable("trim") ? "Y" : "N", is_callable("@N@\App\trim") ? "Y" : "N", is_callable("helper") ? "Y" : "N", "\n";
echo "map-short:", implode(",", array_map("trim", [" a ", " b "])), "\n";
echo "map-upper:", implode(",", array_map("strtoupper", ["a", "b"])), "\n";
`},
	{name: "nsres.fn.callable.strings.qualified", src: `namespace @N@\App;
` + nsShadowFuncs + `echo "map-qualified:", implode(",", array_map("@N@\App\trim", [" a "])), "\n";
echo "cuf-qualified:", call_user_func("@N@\App\helper", 5), "\n";
echo "cuf-short:", call_user_func("strtoupper", "s"), "\n";
`},
	{name: "nsres.fn.callable.variable", src: `namespace @N@\App;
` + nsShadowFuncs + `$q = "@N@\App\trim"; echo "var-qualified:", $q(" v "), "\n";
$s = "trim"; echo "var-short:", $s(" v "), "\n";
`},
	{name: "nsres.fn.relative.qualified", src: `namespace @N@\App\Sub;
function count($a) { return "Sub:count"; }
function only() { return "Sub:only"; }
namespace @N@\App;
function count($a) { return "App:count"; }
echo count([1]), "|", Sub\count([1]), "|", Sub\only(), "|", \@N@\App\Sub\count([1]), "|", \@N@\App\count([1]), "|", \count([1]), "\n";
function inside() { return count([1, 2]) . "|" . Sub\count([1]) . "|" . \@N@\App\Sub\only(); }
echo inside(), "\n";
`},
	{name: "nsres.fn.two.namespaces", src: `namespace @N@\A;
function f() { return "A:f"; }
function strlen($s) { return "A:strlen"; }
function onlyA() { return "A:onlyA"; }
echo "in A:", f(), "|", strlen("abc"), "|", onlyA(), "\n";
namespace @N@\B;
function f() { return "B:f"; }
function trim($s) { return "B:trim"; }
echo "in B:", f(), "|", \@N@\A\f(), "|", strlen("abc"), "|", \@N@\A\strlen("x"), "|", trim(" t "), "|", \@N@\A\onlyA(), "\n";
function fromB() { return f() . "|" . strlen("abcd") . "|" . trim(" u ") . "|" . \@N@\A\f(); }
echo fromB(), "\n";
`},
	{name: "nsres.fn.global.user.collision", src: `function gdup() { return "global:gdup"; }
function gonly() { return "global:gonly"; }
echo "top:", gdup(), "|", gonly(), "\n";
namespace @N@\B;
function gdup() { return "B:gdup"; }
echo "in B:", gdup(), "|", \gdup(), "|", \@N@\B\gdup(), "|", gonly(), "|", \gonly(), "\n";
function fromB() { return gdup() . "|" . \gdup() . "|" . gonly(); }
$c = function () { return gdup() . "|" . gonly(); };
echo fromB(), "\n", $c(), "\n";
echo function_exists("gdup") ? "Y" : "N", function_exists("@N@\B\gdup") ? "Y" : "N", function_exists("@N@\B\gonly") ? "Y" : "N", "\n";
`},
	{name: "nsres.fn.use.function", src: `namespace @N@\App;
use function strlen as len;
use function strtoupper;
use function count as builtinCount;
function count($a) { return "U:count"; }
function len2($s) { return "U:len2"; }
echo len("abc"), "|", strtoupper("x"), "|", builtinCount([1, 2]), "|", count([1, 2]), "|", \@N@\App\count([1]), "|", len2("z"), "\n";
function viaImport() { return len("abcd") . "|" . builtinCount([1]) . "|" . count([1]) . "|" . strtoupper("y"); }
$c = function () { return len("ab") . "|" . builtinCount([1, 2, 3]); };
echo viaImport(), "\n", $c(), "\n";
`},
	{name: "nsres.fn.use.function.other.namespace", src: `namespace @N@\Lib;
function greet() { return "Lib:greet"; }
function trim($s) { return "Lib:trim"; }
namespace @N@\App;
use function @N@\Lib\greet;
use function @N@\Lib\trim;
echo greet(), "|", trim(" x "), "|", \trim(" x "), "\n";
`},
	{name: "nsres.class.shadow.builtin", classy: true, src: `namespace @N@\App;
class Exception extends \Exception { function tag() { return "App:Exception"; } }
class ArrayIterator { function tag() { return "App:ArrayIterator"; } }
class stdClass { public $who = "App:stdClass"; }
try { throw new Exception("m1"); } catch (Exception $e) { echo "c1:", get_class($e), "\n"; }
try { throw new \Exception("m2"); } catch (Exception $e) { echo "c2:App\n"; } catch (\Exception $e) { echo "c2:global:", get_class($e), "\n"; }
try { throw new Exception("m3"); } catch (\Exception $e) { echo "c3:", get_class($e), ":", $e->getMessage(), "\n"; }
$a = new ArrayIterator(); echo get_class($a), "|", $a instanceof ArrayIterator ? "Y" : "N", $a instanceof \ArrayIterator ? "Y" : "N", "|", get_class(new \ArrayIterator([1])), "\n";
$s = new stdClass(); $g = new \stdClass(); echo get_class($s), "|", get_class($g), "|", $s->who, "\n";
function mk() { return new Exception("in fn"); }
echo get_class(mk()), "|", mk() instanceof \Exception ? "Y" : "N", "\n";
`},
	{name: "nsres.class.shadow.builtin.uncaught", classy: true, src: `namespace @N@\App;
class RuntimeException extends \Exception {}
echo "before\n";
function fail() { throw new RuntimeException("shadowed runtime exception"); }
try { fail(); } catch (\RuntimeException $e) { echo "caught as global\n"; }
echo "after\n";
`},
	{name: "nsres.class.two.namespaces", classy: true, src: `namespace @N@\A;
class K { const NAME = "A:K"; static function id() { return "A:K::id"; } function who() { return "A:K"; } }
class OnlyA { function who() { return "A:OnlyA"; } }
namespace @N@\B;
class K { const NAME = "B:K"; static function id() { return "B:K::id"; } function who() { return "B:K"; } }
echo (new K)->who(), "|", (new \@N@\A\K)->who(), "|", K::id(), "|", \@N@\A\K::id(), "|", K::NAME, "|", \@N@\A\K::NAME, "|", K::class, "\n";
function mk() { return new K(); }
class User { function make() { return new K(); } static function st() { return K::id() . "/" . \@N@\A\K::id(); } function other() { return new \@N@\A\OnlyA(); } }
echo get_class(mk()), "|", get_class((new User)->make()), "|", User::st(), "|", (new User)->other()->who(), "\n";
$c = function () { return (new K)->who() . "/" . K::NAME; }; echo $c(), "\n";
$k = new K(); echo $k instanceof K ? "Y" : "N", $k instanceof \@N@\A\K ? "Y" : "N", "\n";
`},
	{name: "nsres.class.use.alias", classy: true, src: `namespace @N@\Lib;
class Tool { static function id() { return "Lib:Tool"; } function who() { return "Lib:Tool"; } }
class Exception extends \Exception {}
namespace @N@\App;
use @N@\Lib\Tool;
use @N@\Lib\Tool as T2;
use @N@\Lib\Exception as LibEx;
class Local extends Tool { function who() { return "App:Local>" . parent::who(); } }
echo Tool::id(), "|", T2::id(), "|", (new Tool)->who(), "|", (new T2)->who(), "|", (new Local)->who(), "|", get_class(new T2), "\n";
try { throw new LibEx("le"); } catch (LibEx $e) { echo "caught:", get_class($e), "\n"; }
function viaAlias() { return T2::id() . "/" . get_class(new Tool()); }
echo viaAlias(), "\n";
echo (new Local) instanceof Tool ? "Y" : "N", (new Local) instanceof T2 ? "Y" : "N", "\n";
`},
	{name: "nsres.class.dynamic.names", classy: true, src: `namespace @N@\App;
class Exception extends \Exception {}
class Widget { static function id() { return "App:Widget"; } }
$short = "Widget"; $full = "@N@\App\Widget"; $glob = "Exception"; $mine = "@N@\App\Exception";
echo class_exists($full) ? "Y" : "N", class_exists($short) ? "Y" : "N", class_exists("\@N@\App\Widget") ? "Y" : "N", "\n";
echo get_class(new $mine("m")), "|", get_class(new $glob("g")), "|", $full::id(), "\n";
`},
	{name: "nsres.const.shadow.builtin", src: `namespace @N@\App;
const PHP_EOL = "user-eol"; const M_PI = 3; const PHP_INT_MAX = 7; const MINE = "mine";
echo PHP_EOL, "|", \PHP_EOL === "\n" ? "global-eol" : "other-eol", "|", M_PI, "|", \M_PI > 3.1 ? "global-pi" : "other-pi", "|", PHP_INT_MAX, "|", \PHP_INT_MAX > 7 ? "global-max" : "other-max", "|", MINE, "\n";
function inFn() { return PHP_EOL . "|" . M_PI . "|" . MINE . "|" . PHP_INT_MAX; }
$c = function () { return M_PI . "|" . MINE; };
echo inFn(), "\n", $c(), "\n";
function dflt($x = M_PI, $y = PHP_INT_MAX, $z = MINE) { return $x . "|" . $y . "|" . $z; }
echo dflt(), "\n";
`},
	{name: "nsres.const.in.class", classy: true, src: `namespace @N@\App;
const MINE = "mine"; const M_PI = 3;
class C { function get() { return PHP_EOL === "\n" ? "global-eol" : "other"; } function mine() { return MINE . "|" . M_PI . "|" . \M_PI; } static function st() { return MINE; } }
echo (new C)->get(), "|", (new C)->mine(), "|", C::st(), "\n";
`},
	{name: "nsres.const.before.decl", src: `namespace @N@\App;
echo PHP_EOL === "\n" ? "global-eol" : "other-eol", "|", M_PI > 3.1 ? "global-pi" : "other-pi", "\n";
const PHP_EOL = "user-eol"; const M_PI = 3;
echo PHP_EOL === "\n" ? "global-eol" : "other-eol", "|", M_PI > 3.1 ? "global-pi" : "other-pi", "\n";
`},
	{name: "nsres.const.two.namespaces", src: `namespace @N@\A;
const C = "A:C"; const ONLY = "A:ONLY";
echo C, "|", ONLY, "\n";
namespace @N@\B;
const C = "B:C";
echo C, "|", \@N@\A\C, "|", \@N@\A\ONLY, "\n";
function f() { return C . "|" . \@N@\A\C; }
echo f(), "\n";
`},
	{name: "nsres.const.define.and.use", src: `namespace @N@\Lib;
const LIMIT = "Lib:LIMIT";
namespace @N@\App;
use const @N@\Lib\LIMIT;
echo LIMIT, "\n";
define("GLOBAL_DEFINED_@N@", "gd"); echo GLOBAL_DEFINED_@N@, "|", \GLOBAL_DEFINED_@N@, "|", defined("GLOBAL_DEFINED_@N@") ? "Y" : "N", "\n";
define("@N@\App\NSDEF", "nsdef"); echo defined("@N@\App\NSDEF") ? "Y" : "N", "\n";
`},
	{name: "nsres.mixed.report", classy: true, src: `namespace @N@\App\Report;
function count($rows) { $n = 0; foreach ($rows as $row) { if ($row !== '') { $n++; } } return $n; }
function trim($s) { return '<' . $s . '>'; }
const SEP = ";";
class Line { public $cells; function __construct($cells) { $this->cells = $cells; } function render() { return implode(SEP, $this->cells) . "#" . count($this->cells) . "#" . trim(" z "); } }
function summary(array $rows) { return 'rows=' . count($rows) . ' first=' . trim('  ' . $rows[0] . '  '); }
$rows = ['alpha', '', 'beta', ''];
echo summary($rows), "\n";
echo count($rows), ' ', \count($rows), "\n";
echo (new Line($rows))->render(), "\n";
`},
}

func nsResolutionUnits() []unit {
	out := make([]unit, 0, len(nsUnits))
	for _, u := range nsUnits {
		u.raw = true
		u.feats = "name-resolution"
		out = append(out, u)
	}
	return out
}

// ---------------------------------------------------------------------------------
// seeded programs

var nsBuiltins = []struct{ name, params, call string }{
	{"count", "$a", `count([1, 2, 3])`},
	{"trim", "$s", `trim("  t  ")`},
	{"strlen", "$s", `strlen("four")`},
	{"strtoupper", "$s", `strtoupper("up")`},
	{"strtolower", "$s", `strtolower("LOW")`},
	{"implode", "$g, $a", `implode("-", [1, 2])`},
	{"max", "$a, $b", `max(3, 9)`},
	{"min", "$a, $b", `min(3, 9)`},
	{"str_repeat", "$s, $n", `str_repeat("ab", 2)`},
	{"ucfirst", "$s", `ucfirst("word")`},
	{"substr", "$s, $o", `substr("substring", 3)`},
	{"json_encode", "$v", `json_encode([1, "k"])`},
	{"is_array", "$v", `is_array([1])`},
	{"is_string", "$v", `is_string("s")`},
	{"in_array", "$n, $h", `in_array(2, [1, 2])`},
	{"str_replace", "$a, $b, $c", `str_replace("a", "b", "banana")`},
	{"strpos", "$h, $n", `strpos("haystack", "st")`},
}

// genNameResolutionProgram: a namespaced file that shadows a random subset of built-ins with
// functions that say so, optionally a second namespace / a global prelude with further
// same-named functions, and calls every name unqualified / fully qualified / global-qualified
// from random contexts, before or after the declarations.
func genNameResolutionProgram(r *rand.Rand, idx int) string {
	root := fmt.Sprintf("Q%d", idx)
	var sb strings.Builder
	sb.WriteString("<?php\n")
	perm := r.Perm(len(nsBuiltins))
	shadow := perm[:2+r.Intn(5)]
	plain := perm[len(perm)-2:]
	globalPrelude := r.Intn(3) == 0
	if globalPrelude {
		fmt.Fprintf(&sb, "function shared_%s() { return \"global:shared\"; }\necho \"prelude:\", shared_%s(), \"\\n\";\n", root, root)
	}
	other := r.Intn(2) == 0
	if other {
		fmt.Fprintf(&sb, "namespace %s\\Other;\n", root)
		for _, i := range shadow[:1+r.Intn(len(shadow))] {
			b := nsBuiltins[i]
			fmt.Fprintf(&sb, "function %s(%s) { return \"Other:%s\"; }\n", b.name, b.params, b.name)
		}
		fmt.Fprintf(&sb, "function shared_%s() { return \"Other:shared\"; }\n", root)
	}
	fmt.Fprintf(&sb, "namespace %s\\App;\n", root)
	calls := func(qual string) string {
		var parts []string
		for _, i := range append(append([]int{}, shadow...), plain...) {
			b := nsBuiltins[i]
			parts = append(parts, `"`+b.name+`=", `+qual+b.call)
		}
		return strings.Join(parts, `, " ", `)
	}
	userCalls := func() string {
		var parts []string
		for _, i := range shadow {
			b := nsBuiltins[i]
			parts = append(parts, `"`+b.name+`=", \`+root+`\App\`+b.call)
		}
		return strings.Join(parts, `, " ", `)
	}
	decls := func() {
		for _, i := range shadow {
			b := nsBuiltins[i]
			fmt.Fprintf(&sb, "function %s(%s) { return \"U:%s\"; }\n", b.name, b.params, b.name)
		}
		if r.Intn(2) == 0 {
			fmt.Fprintf(&sb, "function shared_%s() { return \"App:shared\"; }\n", root)
		}
	}
	fix := func(s string) string { return s }
	before := r.Intn(3) == 0
	if before {
		fmt.Fprintf(&sb, "echo \"before-decl:\", %s, \"\\n\";\n", fix(calls("")))
	}
	decls()
	contexts := []string{"top", "fn", "method", "static", "closure", "arrow"}
	r.Shuffle(len(contexts), func(i, j int) { contexts[i], contexts[j] = contexts[j], contexts[i] })
	for _, c := range contexts[:2+r.Intn(4)] {
		u, g, q := fix(calls("")), fix(calls(`\`)), fix(userCalls())
		switch c {
		case "top":
			fmt.Fprintf(&sb, "echo \"top:\", %s, \"\\n\";\necho \"top-global:\", %s, \"\\n\";\necho \"top-qualified:\", %s, \"\\n\";\n", u, g, q)
		case "fn":
			fmt.Fprintf(&sb, "function ctxFn() { echo \"fn:\", %s, \"\\n\"; echo \"fn-global:\", %s, \"\\n\"; echo \"fn-qualified:\", %s, \"\\n\"; }\nctxFn();\n", u, g, q)
		case "method":
			fmt.Fprintf(&sb, "class CtxM { function run() { echo \"method:\", %s, \"\\n\"; echo \"method-qualified:\", %s, \"\\n\"; } }\n(new CtxM)->run();\n", u, q)
		case "static":
			fmt.Fprintf(&sb, "class CtxS { static function run() { echo \"static:\", %s, \"\\n\"; echo \"static-global:\", %s, \"\\n\"; } }\nCtxS::run();\n", u, g)
		case "closure":
			fmt.Fprintf(&sb, "$ctxC = function () { echo \"closure:\", %s, \"\\n\"; echo \"closure-qualified:\", %s, \"\\n\"; };\n$ctxC();\n", u, q)
		case "arrow":
			b := nsBuiltins[shadow[0]]
			fmt.Fprintf(&sb, "$ctxA = fn() => %s . \"/\" . \\%s . \"/\" . \\%s\\App\\%s;\necho \"arrow:\", $ctxA(), \"\\n\";\n", b.call, b.call, root, b.call)
		}
	}
	if other {
		b := nsBuiltins[shadow[0]]
		fmt.Fprintf(&sb, "echo \"other:\", \\%s\\Other\\%s, \" \", \\%s\\Other\\shared_%s(), \"\\n\";\n", root, b.call, root, root)
	}
	if globalPrelude {
		fmt.Fprintf(&sb, "echo \"shared:\", shared_%s(), \" \", \\shared_%s(), \"\\n\";\n", root, root)
	}
	b := nsBuiltins[shadow[0]]
	fmt.Fprintf(&sb, "echo \"exists:\", function_exists(\"%s\") ? \"Y\" : \"N\", function_exists(\"%s\\\\App\\\\%s\") ? \"Y\" : \"N\", \"\\n\";\n", b.name, root, b.name)
	return sb.String()
}
