// C16 — ahead-of-time compilation preserves behaviour: compiled = interpreted.
//
// Translation validation by execution. Batches of source files are translated with the
// repository's own `origami compile`, built once into a single Go binary (the
// repository's built-in templates with the two documented changes: one registration per
// file, path taken from argv), and every file is then run compiled (`app <file>`) and
// interpreted (`origami <file>`) in real processes. Output, exit status and the
// uncaught-error diagnostic (positions and stack lines removed: the generator does not
// carry them) must agree. A file the translator rejects with a compile error is counted,
// never flagged; generated Go that does not build is a violation.
package main

import (
	"fmt"
	"os"
	"path/filepath"
	"sort"
	"strings"

	"verif/lib"
)

type stats struct {
	status    map[string]int
	byFamily  map[string]int
	emitRej   map[string]int
	parseRej  int
	unstable  int
	watchdog  int
	nodeTypes map[string]int
	interpOK  int
	interpErr int
}

func main() {
	if len(os.Args) == 3 && os.Args[1] == "dump-units" {
		// development aid: write the catalogue to a directory, one file per unit form
		w, u := unitCases()
		for _, c := range append(w, u...) {
			p := filepath.Join(os.Args[2], strings.ReplaceAll(keyName(c), "/", "_")+".php")
			_ = os.MkdirAll(filepath.Dir(p), 0o755)
			_ = os.WriteFile(p, []byte(c.Src), 0o644)
		}
		return
	}
	if len(os.Args) == 3 && os.Args[1] == "dump-seeded" {
		e := lib.Init("C16", "translation_validation")
		for _, c := range randomCases(e, func(string) bool { return false }) {
			p := filepath.Join(os.Args[2], c.Rel)
			_ = os.MkdirAll(filepath.Dir(p), 0o755)
			_ = os.WriteFile(p, []byte(c.Src), 0o644)
		}
		_ = os.RemoveAll(e.Scratch)
		return
	}
	if len(os.Args) == 2 && os.Args[1] == "list-corpus" {
		e := lib.Init("C16", "translation_validation")
		for _, c := range corpusCases(e) {
			fmt.Println(c.Name, c.NoRun, c.Features)
		}
		fmt.Println("left out:", corpusDuplicateDecl)
		_ = os.RemoveAll(e.Scratch)
		return
	}
	e := lib.Init("C16", "translation_validation")
	e.RunScriptWitnesses()
	regTmpl, mainGo, err := templates(e)
	if err != nil {
		e.Inconclusive("templates: " + err.Error())
		e.Finish(lib.Coverage{Rule: "nothing ran: " + err.Error()})
	}

	st := &stats{status: map[string]int{}, byFamily: map[string]int{}, emitRej: map[string]int{}, nodeTypes: map[string]int{}}
	var distinct lib.DistinctCounter
	var samples []any
	executed, disagreements := 0, 0
	programs := 0
	var batchInfo []any
	unitRej := map[string]string{}

	process := func(bs []*batch, all [][]*result) {
		for bi, rs := range all {
			b := bs[bi]
			for k, n := range b.nodeTypes {
				st.nodeTypes[k] += n
			}
			batchInfo = append(batchInfo, map[string]any{"batch": b.name, "files": len(b.cases), "compile_passes": b.compilePasses, "build_passes": b.buildPasses,
				"compile_s": round1(b.compileWall.Seconds()), "go_build_s": round1(b.buildWall.Seconds()), "generated_go_bytes": b.goBytes})
			for _, r := range rs {
				if r.C.NoRun {
					continue
				}
				programs++
				st.status[r.Status]++
				key := r.C.Family + ":" + keyName(r.C)
				switch r.Status {
				case stParseRej:
					st.parseRej++
					if r.C.Family == "unit" {
						unitRej[r.C.Name] = "parser: " + r.Detail
					}
					continue
				case stEmitRej:
					st.emitRej[emitClass(r.Detail)]++
					if r.C.Family == "unit" {
						unitRej[r.C.Name] = "compile error: " + r.Detail
					}
					continue
				case stGoBuild:
					disagreements++
					e.Violation(key+":gobuild", fmt.Sprintf("%s: `origami compile` accepted the file but the generated Go does not build: %s", r.C.Name, r.Detail), "php", replay(r, "gobuild", r.Detail))
					continue
				case stCompileDie:
					disagreements++
					e.Violation(key+":compile-crash", fmt.Sprintf("%s: `origami compile` dies on the file: %s", r.C.Name, r.Detail), "php", replay(r, "compile-crash", r.Detail))
					continue
				case stNotRun:
					continue
				}
				if r.Comp.TimedOut || r.Interp.TimedOut {
					st.watchdog++
					e.Inconclusive(r.C.Name + ": watchdog fired")
					continue
				}
				if r.Unstable {
					st.unstable++
					continue
				}
				executed++
				st.byFamily[r.C.Family]++
				if r.Interp.Exit == 0 && r.Interp.Crash == "" {
					st.interpOK++
				} else {
					st.interpErr++
				}
				if r.Interp.Crash == "" && len(r.Interp.Stdout) > 0 {
					distinct.Add(lib.Hash(r.C.Src))
				}
				if len(samples) < 4 && (r.C.Family == "gen" || r.C.Family == "cls") && r.Interp.Exit == 0 && len(r.Interp.Stdout) > 20 {
					samples = append(samples, map[string]any{"case": r.C.Name, "source": r.C.Src, "stdout_both": r.Interp.Stdout})
				}
				if kind, detail := compare(r); kind != "" {
					disagreements++
					k := key + ":" + kind
					if r.C.Family == "gen" || r.C.Family == "cls" || r.C.Family == "lit" || r.C.Family == "nsr" {
						k += ":" + lib.Hash(r.C.Src)
					}
					e.Violation(k, fmt.Sprintf("%s: compiled and interpreted runs differ (%s): %s", r.C.Name, kind, detail), "php", replay(r, kind, detail))
				}
			}
		}
	}

	// ---- stage 0: the witness units of the catalogue: one small program per known defect
	// (stable keys). They decide which features the later stages must leave out.
	witnesses, units := unitCases()
	off := func(f string) bool { return e.Quarantined(f) }
	skippedQ := map[string]int{}
	b0 := newBatches(e, "witness", witnesses, 400)
	all0, inc0 := runBatches(b0, 4, regTmpl, mainGo)
	for _, s := range inc0 {
		e.Inconclusive(s)
	}
	process(b0, all0)
	pe0, pd0, psamples0 := runProjects(e, true, off, skippedQ)

	filter := func(cs []*pcase) []*pcase {
		var out []*pcase
		for _, c := range cs {
			q := ""
			for _, f := range c.Features {
				if off(f) {
					q = f
					break
				}
			}
			if q != "" {
				skippedQ[q]++
				continue
			}
			out = append(out, c)
		}
		return out
	}

	// ---- stage 1+2: the rest of the catalogue, seeded programs and corpus files, without the
	// features of the findings that are still active
	stage2 := filter(append(append(units, randomCases(e, off)...), corpusCases(e)...))
	// ---- projects: the repository's built-in templates, unchanged, one entry file
	pe, pd, psamples := runProjects(e, false, off, skippedQ)
	pe, pd, psamples = pe+pe0, pd+pd0, append(psamples0, psamples...)
	executed += pe
	programs += pe
	disagreements += pd
	st.byFamily["project"] = pe
	var b2 []*batch
	var rest []*pcase
	var corpus []*pcase
	var unitsLeft []*pcase
	for _, c := range stage2 {
		switch c.Family {
		case "corpus":
			corpus = append(corpus, c)
		case "unit":
			unitsLeft = append(unitsLeft, c)
		default:
			rest = append(rest, c)
		}
	}
	b2 = append(b2, newBatches(e, "units", unitsLeft, 170)...)
	b2 = append(b2, newBatches(e, "corpus", corpus, 1<<30)...)
	b2 = append(b2, newBatches(e, "seeded", rest, e.Pick(70, 250))...)
	all2, inc2 := runBatches(b2, e.Pick(12, 4), regTmpl, mainGo)
	for _, s := range inc2 {
		e.Inconclusive(s)
	}
	process(b2, all2)

	e.Extra("files_by_status", st.status)
	e.Extra("executed_by_family", st.byFamily)
	e.Extra("rejected_with_compile_error_by_node", st.emitRej)
	e.Extra("interpreted_run_ended_normally", st.interpOK)
	e.Extra("interpreted_run_ended_with_error", st.interpErr)
	e.Extra("cases_skipped_as_unstable", st.unstable)
	e.Extra("corpus_files_left_out_duplicate_class_names", corpusDuplicateDecl)
	e.Extra("skipped_by_quarantined_feature", skippedQ)
	e.Extra("batches", batchInfo)
	e.Extra("catalogue_units_not_accepted_by_compile", unitRej)
	e.Extra("node_constructors_in_generated_go", st.nodeTypes)
	e.Extra("distinct_node_constructors_in_generated_go", len(st.nodeTypes))
	e.Assume("positions (file:line:col, `on line N`), stack-trace lines, wall-clock stamps and Go addresses are removed from both sides before comparing: the translator does not carry positions",
		"the batch binary uses the repository's built-in register/main templates with two changes (one registration per file incl. registerClasses; path from argv)",
		"corpus files that use time/random/process/network/file-writing builtins, or whose two interpreted runs differ, are outside the compared domain")
	samples = append(samples, psamples...)
	if len(samples) == 0 {
		for _, rs := range all0 {
			for _, r := range rs {
				if r.Status == stRan && len(samples) < 2 {
					samples = append(samples, map[string]any{"case": r.C.Name, "source": r.C.Src, "stdout_interpreted": r.Interp.Stdout, "stdout_compiled": r.Comp.Stdout})
				}
			}
		}
	}
	e.Finish(lib.Coverage{
		Evaluations:          executed,
		DistinctNontrivial:   distinct.N(),
		Rule:                 "one evaluation = one source file accepted by `origami compile`, built into the batch binary and run both compiled and interpreted; distinct = source hash; non-trivial = the interpreted run wrote at least one byte to stdout and did not crash",
		Samples:              samples,
		Exhaustive:           false,
		Programs:             programs,
		DisagreementsChecked: disagreements,
	})
}

func round1(f float64) float64 { return float64(int(f*10)) / 10 }

func keyName(c *pcase) string {
	return strings.TrimPrefix(c.Name, c.Family+"/")
}

func emitClass(detail string) string {
	// "unsupported AST node *node.X at line .. :: reason"
	d := detail
	if i := strings.Index(d, " at line"); i > 0 {
		d = d[:i] + d[strings.Index(d, " ::"):]
	}
	return head(d, 160)
}

func newBatches(e *lib.Env, name string, cs []*pcase, size int) []*batch {
	var bs []*batch
	for i := 0; i < len(cs); i += size {
		j := i + size
		if j > len(cs) {
			j = len(cs)
		}
		n := fmt.Sprintf("%s%d", name, len(bs))
		bs = append(bs, &batch{e: e, name: n, dir: filepath.Join(e.Scratch, n), cases: cs[i:j]})
	}
	return bs
}

func replay(r *result, kind, detail string) []byte {
	var sb strings.Builder
	sb.WriteString(r.C.Src)
	if !strings.HasSuffix(r.C.Src, "\n") {
		sb.WriteString("\n")
	}
	esc := func(s string) string { return strings.ReplaceAll(s, "*/", "* /") }
	sb.WriteString("\n/* ---- verif C16: compiled vs interpreted ----\n")
	fmt.Fprintf(&sb, "case: %s (%s)\nfeatures: %s\nverdict: %s :: %s\n", r.C.Name, r.C.Family, strings.Join(r.C.Features, ","), kind, esc(detail))
	if r.Status == stRan {
		fmt.Fprintf(&sb, "---- interpreted: exit=%d %s\nstdout:\n%s\nstderr:\n%s\n", r.Interp.Exit, r.Interp.Crash, esc(head(r.Interp.Stdout, 3000)), esc(head(r.Interp.Stderr, 1500)))
		fmt.Fprintf(&sb, "---- compiled: exit=%d %s\nstdout:\n%s\nstderr:\n%s\n", r.Comp.Exit, r.Comp.Crash, esc(head(r.Comp.Stdout, 3000)), esc(head(r.Comp.Stderr, 1500)))
	}
	sb.WriteString("to reproduce: put the file alone into a directory <d>/src, run `origami compile <d>/src -o <d>/out --pkg main --entry=<d>/src`, add go.mod (replace => the repository), go.sum and a main.go that calls Register(vm) and vm.RunCompiledFile(path), go build, run\n*/\n")
	return []byte(sb.String())
}

func sortedCount(m map[string]int) []string {
	var out []string
	for k, v := range m {
		out = append(out, fmt.Sprintf("%s=%d", k, v))
	}
	sort.Strings(out)
	return out
}
