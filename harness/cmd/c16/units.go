package main

import (
	"fmt"
	"strings"
)

// unit is one entry of the enumerated construct catalogue: a small program around one
// language construct. Its violation key is unit:<name>.<form>:<kind>, stable across seeds.
type unit struct {
	name    string
	feats   string // comma separated feature tags, in addition to the ones computed from the source
	classy  bool   // declares classes/interfaces: namespaced form only (property quantifier)
	wrap    bool   // additionally run with the body inside a function (local frame)
	witness string // slug of the defect this unit demonstrates: always run, never quarantined
	toplvl  bool   // plain form only (the unit is about a file without namespace)
	raw     bool   // src is the whole file after "<?php": one form only, "@N@" = unique root namespace
	src     string
}

// unitCases returns the catalogue: the witness units (stage 0) and the rest (stage 1).
func unitCases() (witnesses, rest []*pcase) {
	seen := map[string]bool{}
	n := 0
	add := func(u unit, form, src string) {
		name := "unit/" + u.name + "." + form
		if seen[name] {
			panic("duplicate unit " + name)
		}
		seen[name] = true
		var fs []string
		if u.feats != "" {
			fs = strings.Split(u.feats, ",")
		}
		fs = append(fs, syntacticFeatures(src)...)
		c := &pcase{Name: name, Family: "unit", Rel: fmt.Sprintf("unit/u%04d.php", n), Src: src, Features: fs}
		n++
		if u.witness != "" {
			c.Features = nil
			witnesses = append(witnesses, c)
		} else {
			rest = append(rest, c)
		}
	}
	all := append(append(append([]unit{}, units...), literalUnits()...), nsResolutionUnits()...)
	all = append(append(all, byrefUnits()...), laterNodeUnits()...)
	for i, u := range all {
		body := strings.TrimLeft(u.src, "\n")
		if u.raw {
			add(u, "ns", "<?php\n"+strings.ReplaceAll(body, "@N@", fmt.Sprintf("R%d", i)))
			continue
		}
		in := func(ns string) string { return strings.ReplaceAll(body, "@NS@", ns) }
		if !u.toplvl {
			add(u, "ns", fmt.Sprintf("<?php\nnamespace U%d;\n%s", i, in(fmt.Sprintf("U%d\\", i))))
		}
		if !u.classy || u.toplvl {
			add(u, "plain", "<?php\n"+in(""))
		}
		if u.wrap {
			add(u, "fn", fmt.Sprintf("<?php\nnamespace W%d;\nfunction w() {\n%s}\nw();\necho \"done\\n\";\n", i, in(fmt.Sprintf("W%d\\", i))))
		}
	}
	return witnesses, rest
}

var units = []unit{
	// ---------------------------------------------------------------- scalars, operators
	{name: "lit.int", wrap: true, src: `
echo 0, " ", 7, " ", -3, " ", 9223372036854775807, " ", 0x1F, " ", 0b101, " ", 017, " ", 1_000, "\n";
`},
	{name: "lit.float", feats: "float-lit", wrap: true, src: `
echo 1.5, " ", 0.25, " ", 1e3, " ", 2.5e-3, " ", 1.0, " ", 100000000000000000000.0, " ", 0.1 + 0.2, "\n";
`},
	{name: "lit.float.negzero", witness: "float-literal-negative-zero", feats: "float-negzero", src: `
$z = -0.0; echo $z, " ", 1 / 4 * $z, "\n";
`},
	{name: "lit.float.inf", feats: "float-inf", src: `
$a = 1e999; $b = -1e999; echo $a > 1 ? "inf" : "no", " ", $b < -1 ? "-inf" : "no", "\n";
`},
	{name: "lit.string", wrap: true, src: `
echo 'single $x \n', "|", "double \t tab \\ \" \$ \x41 \101 \u{1F600}", "|", "", "|", 'it\'s', "\n";
`},
	{name: "lit.bool.null", wrap: true, src: `
$t = true; $f = false; $n = null;
echo $t ? "T" : "F", $f ? "T" : "F", $n === null ? "N" : "-", TRUE ? 1 : 0, NULL ?? "d", "\n";
`},
	{name: "op.arith", wrap: true, src: `
$a = 17; $b = 5;
echo $a + $b, " ", $a - $b, " ", $a * $b, " ", $a / $b, " ", $a % $b, " ", $a ** 2, " ", -$a, "\n";
echo 2 + 3 * 4 - 6 / 2, " ", (2 + 3) * 4, " ", 2 ** 3 ** 2, " ", 10 - 4 - 3, "\n";
`},
	{name: "op.compare", wrap: true, src: `
$a = 3; $b = 4; $s = "3";
$r = [$a < $b, $a <= $b, $a > $b, $a >= $b, $a == $s, $a === $s, $a != $b, $a !== $s];
foreach ($r as $x) { echo $x ? "1" : "0"; }
echo " ", $a <=> $b, " ", $b <=> $a, " ", $a <=> $a, "\n";
`},
	{name: "op.logic", wrap: true, src: `
function t($x) { echo "t$x "; return true; }
function f($x) { echo "f$x "; return false; }
$r = t(1) && f(2) || t(3);
echo $r ? "Y" : "N", "\n";
$r = f(4) && t(5);
echo $r ? "Y" : "N", "\n";
$r = t(6) || f(7);
echo $r ? "Y" : "N", " ", !$r ? "Y" : "N", "\n";
`},
	{name: "op.bit", wrap: true, src: `
$a = 12; $b = 10;
echo $a & $b, " ", $a | $b, " ", $a ^ $b, " ", ~$a, " ", $a << 2, " ", $a >> 1, "\n";
`},
	{name: "op.concat", wrap: true, src: `
$a = "x"; $b = 5; $c = 1.5;
echo $a . $b . $c . true . null . "end", "\n";
$s = "a"; $s .= "b"; $s .= 3; echo $s, "\n";
`},
	{name: "op.assign.compound", wrap: true, src: `
$a = 10; $a += 5; echo $a, " "; $a -= 3; echo $a, " "; $a *= 2; echo $a, " "; $a /= 4; echo $a, " ";
$b = 17; $b %= 5; echo $b, " "; $b **= 3; echo $b, " "; $b <<= 2; echo $b, " "; $b >>= 1; echo $b, " ";
$c = 6; $c &= 3; echo $c, " "; $c |= 8; echo $c, " "; $c ^= 1; echo $c, " ";
$d = null; $d ??= "dflt"; echo $d, " "; $d ??= "other"; echo $d, "\n";
`},
	{name: "op.incdec", wrap: true, src: `
$i = 5; $a = $i++; $b = ++$i; $c = $i--; $d = --$i;
echo $a, $b, $c, $d, $i, "\n";
$j = 0; $j++; $j++; ++$j; $j--; echo $j, "\n";
$f = 1.5; $f++; echo $f, "\n";
`},
	{name: "op.ternary", wrap: true, src: `
$a = 5;
echo $a > 3 ? "big" : "small", " ", $a > 9 ? "big" : ($a > 4 ? "mid" : "small"), " ", $a ?: "zero", " ", 0 ?: "zero", "\n";
$n = null; $arr = ['k' => 'v'];
echo $n ?? "dn", " ", $arr['k'] ?? "dk", " ", $arr['z'] ?? "dz", " ", $undef ?? $n ?? "chain", "\n";
`},
	{name: "op.cast", wrap: true, src: `
echo (int)"42abc", " ", (int)3.9, " ", (float)"1.5", " ", (string)12 . "x", " ", (bool)"0" ? "T" : "F", " ", (bool)"a" ? "T" : "F", " ", count((array)"s"), "\n";
`},
	{name: "op.string.funcs", wrap: true, src: `
$s = "Hello World";
echo strlen($s), " ", strtoupper($s), " ", strtolower($s), " ", substr($s, 6), " ", substr($s, 0, 5), " ", strpos($s, "World"), " ", str_replace("World", "PHP", $s), "\n";
echo implode(",", explode(" ", $s)), " ", trim("  x  "), "|", str_repeat("ab", 3), " ", ucfirst("abc"), " ", sprintf("%d|%s", 42, "s"), "\n";
`},
	// ---------------------------------------------------------------- variables, fast paths
	{name: "fast.assign.varvar", feats: "fastpath", wrap: true, src: `
$a = 3; $b = 4;
$c = $a + $b; echo $c, " ";
$c = $a - $b; echo $c, " ";
$c = $a * $b; echo $c, " ";
$d = $c + $a; echo $d, " ";
$a = $a + $b; echo $a, " ";
$a = $a - 1; echo $a, " ";
$b = $b * 2; echo $b, " ";
$b = 10 - $b; echo $b, " ";
$e = $a + 100; echo $e, " ";
$e = 100 + $a; echo $e, "\n";
`},
	{name: "fast.assign.mixedtypes", feats: "fastpath", wrap: true, src: `
$a = 1.5; $b = 2;
$c = $a + $b; echo $c, " ";
$c = $a * $b; echo $c, " ";
$s = "5"; $t = $s + $b; echo $t, " ";
$b = $b - $a; echo $b, " ";
$n = null; $m = $n + 1; echo $m, "\n";
`},
	{name: "fast.incr.loops", feats: "fastpath", wrap: true, src: `
$n = 0;
for ($i = 0; $i <= 5; $i++) { $n = $n + $i; }
echo $n, " ", $i, "\n";
$k = 0; while ($k <= 3) { $k++; } echo $k, "\n";
$m = 10; while ($m >= 7) { $m--; } echo $m, "\n";
for ($j = 10; $j > 0; $j -= 3) { echo $j, ","; } echo "\n";
for ($j = 0; $j < 3; ++$j) { echo $j; } echo "\n";
for ($j = 0; $j != 4; $j = $j + 2) { echo $j; } echo "\n";
$x = 0; $y = $x++; $z = $x++ + $x++; echo $x, $y, $z, "\n";
`},
	{name: "fast.intle.float", feats: "fastpath", wrap: true, src: `
$f = 0.5; $c = 0;
while ($f <= 3) { $f = $f + 1; $c++; }
echo $f, " ", $c, "\n";
$s = "2"; if ($s <= 2) { echo "le"; } else { echo "gt"; } echo "\n";
`},
	{name: "var.varvar", witness: "variable-slice-go-type", feats: "varvar", src: `
$name = "dyn"; $$name = 5; echo $dyn, " ", $$name, "\n";
$k = "name"; echo $$k, "\n";
`},
	{name: "var.global", feats: "global", src: `
$g = 10;
function readg() { global $g; return $g + 1; }
function writeg() { global $g; $g = 50; }
echo readg(), " "; writeg(); echo $g, " ", readg(), "\n";
function viaGlobals() { return $GLOBALS['g'] ?? "none"; }
echo viaGlobals(), "\n";
`},
	{name: "var.static.local", feats: "static-local", src: `
function counter() { static $n = 0; $n++; return $n; }
function acc($x) { static $sum = 10; static $calls = 0; $sum += $x; $calls++; return "$sum/$calls"; }
counter(); counter(); echo counter(), " ", acc(1), " ", acc(2), "\n";
`},
	{name: "var.unset.isset.empty", wrap: true, src: `
$a = 1; $b = null; $arr = ['k' => 0, 'n' => null];
echo isset($a) ? "1" : "0", isset($b) ? "1" : "0", isset($zz) ? "1" : "0", isset($arr['k']) ? "1" : "0", isset($arr['n']) ? "1" : "0", isset($arr['q']) ? "1" : "0", isset($a, $b) ? "1" : "0", " ";
echo empty($a) ? "1" : "0", empty($b) ? "1" : "0", empty($arr['k']) ? "1" : "0", empty($zz) ? "1" : "0", empty("") ? "1" : "0", empty([]) ? "1" : "0", " ";
unset($a); echo isset($a) ? "1" : "0"; unset($arr['k']); echo count($arr), "\n";
`},
	{name: "var.reference", feats: "reference", wrap: true, src: `
$a = 1; $b = &$a; $b = 5; echo $a, " "; $a = 7; echo $b, " ";
$arr = [1, 2, 3]; $r = &$arr[1]; $r = 20; echo implode(",", $arr), "\n";
`},
	{name: "var.compact.extract", feats: "compact", wrap: true, src: `
$x = 1; $y = "two";
$c = compact('x', 'y'); echo $c['x'], $c['y'], count($c), "\n";
`},
	{name: "var.list", wrap: true, src: `
[$a, $b] = [1, 2]; echo $a, $b, " ";
[$a, $b] = [$b, $a]; echo $a, $b, " ";
[, $second] = [10, 20]; echo $second, "\n";
foreach ([[1, 'a'], [2, 'b']] as [$n, $l]) { echo $n, $l; } echo "\n";
`},
	// ---------------------------------------------------------------- arrays
	{name: "arr.literal", wrap: true, src: `
$a = [1, 2, 3]; $b = ['x' => 1, 'y' => 2]; $c = ['x' => 'a', 'k' => 'c', 5 => 'd']; $d = [[1, 2], ['n' => [3]]]; $e = array(1, 2); $f = [];
echo count($a), count($b), count($c), count($d), count($e), count($f), " ";
foreach ($c as $k => $v) { echo "$k=$v,"; }
echo " ", $d[1]['n'][0], $d[0][1], "\n";
`},
	{name: "arr.exprkeys", wrap: true, src: `
$k = "key"; $n = 2;
$a = [$k => 1, $k . "2" => 2, $n + 1 => 3, "lit$n" => 4, true => 5, null => 6];
foreach ($a as $kk => $v) { echo "$kk=$v,"; } echo "\n";
`},
	{name: "arr.spread", feats: "spread", wrap: true, src: `
$a = [1, 2]; $b = [...$a, 3, ...[4, 5]]; echo implode(",", $b), " ";
echo "\n";
`},
	{name: "arr.write", wrap: true, src: `
$a = []; $a[] = 1; $a[] = 2; $a[5] = 3; $a[] = 4; $a['k'] = 5; $a['k'] .= "x"; $a[0] += 10; $a[1]++;
foreach ($a as $k => $v) { echo "$k=$v,"; } echo " ";
$m = []; $m['a']['b'] = 1; $m['a']['c'][] = 2; echo count($m['a']), $m['a']['c'][0], " ";
$copy = $a; $copy[0] = 99; echo $a[0], $copy[0], "\n";
`},
	{name: "arr.funcs", wrap: true, src: `
$a = [3, 1, 2];
sort($a); echo implode(",", $a), " ";
echo implode(",", array_map(fn($x) => $x * 2, $a)), " ", implode(",", array_filter($a, fn($x) => $x > 1)), " ", in_array(2, $a) ? "Y" : "N", " ";
echo implode(",", array_keys([7, 8])), " ", implode(",", array_merge([1], [2, 3])), " ", implode(",", array_slice([1, 2, 3, 4], 1, 2)), " ";
echo array_key_exists('a', ['a' => null]) ? "Y" : "N", " ", implode(",", array_reverse([1, 2, 3])), " ", array_pop($a), array_shift($a), count($a), "\n";
usort($a, function ($x, $y) { return $y <=> $x; });
echo json_encode(['a' => 1, 'b' => [1, 2], 'c' => null, 'd' => "s"]), "\n";
`},
	{name: "arr.string.index", wrap: true, src: `
$s = "hello"; echo $s[0], $s[4], $s[-1], " "; $a = [[1, 2], [3, 4]]; echo $a[1][0], "\n";
`},
	// ---------------------------------------------------------------- control flow
	{name: "ctl.if", wrap: true, src: `
function cls($x) { if ($x < 0) { return "neg"; } elseif ($x == 0) { return "zero"; } else if ($x < 10) { return "small"; } else { return "big"; } }
echo cls(-1), cls(0), cls(5), cls(50), " ";
$x = 3; if ($x) echo "truthy"; if (!$x) { echo "no"; } else { echo "-else"; }
if ($x > 1 && $x < 5): echo "-alt"; endif;
echo "\n";
`},
	{name: "ctl.while", wrap: true, src: `
$i = 0; $s = "";
while ($i < 10) { $i++; if ($i % 2 == 0) { continue; } if ($i > 7) { break; } $s .= $i; }
echo $s, " ", $i, " ";
$j = 3; while ($j--) { echo $j; } echo " ";
$k = 0; while (true) { if (++$k >= 3) break; } echo $k, "\n";
`},
	{name: "ctl.dowhile", wrap: true, src: `
$i = 0; do { echo $i; $i++; } while ($i < 3); echo " ";
$j = 10; do { echo $j; } while ($j < 5); echo " ";
$k = 0; do { $k++; if ($k == 2) continue; if ($k == 4) break; echo $k; } while ($k < 10); echo "\n";
`},
	{name: "ctl.for", wrap: true, src: `
for ($i = 0; $i < 4; $i++) { echo $i; } echo " ";
for ($i = 0, $j = 5; $i < $j; $i++, $j--) { echo $i, $j, ","; } echo " ";
for ($i = 3; $i > 0; $i--) echo $i; echo " ";
$n = 0; for (;;) { if (++$n > 3) break; } echo $n, " ";
for ($i = 0; $i < 6; $i++) { if ($i == 1) continue; if ($i == 4) break; echo $i; } echo "\n";
`},
	{name: "ctl.foreach", wrap: true, src: `
$a = ['x' => 1, 'y' => 2, 'z' => 3];
foreach ($a as $v) { echo $v; }
echo " ";
foreach ($a as $k => $v) { echo $k, "=", $v, ","; }
echo " ";
foreach ([1, 2, 3] as $i => $v) { if ($v == 2) { continue; } echo $i, $v; }
echo " ";
foreach ([] as $v) { echo "never"; }
echo "|";
foreach ([[1, 2], [3, 4]] as $row) { foreach ($row as $c) { echo $c; } }
echo " ";
$b = [1, 2, 3];
foreach ($b as &$ref) { $ref = $ref * 2; }
unset($ref);
echo implode(",", $b), "\n";
`},
	{name: "ctl.nested.levels", feats: "loop-level", wrap: true, src: `
for ($i = 0; $i < 3; $i++) { for ($j = 0; $j < 3; $j++) { if ($j == 1) continue 2; if ($i == 2) break 2; echo $i, $j, ","; } } echo " ";
foreach ([1, 2] as $a) { $k = 0; while ($k < 3) { $k++; if ($k == 2) { continue 2; } echo $a, $k, ","; } } echo "\n";
`},
	{name: "ctl.switch", wrap: true, src: `
function sw($x) { $r = ""; switch ($x) { case 1: $r .= "one"; break; case 2: $r .= "two"; case 3: $r .= "three"; break; case "s": $r .= "str"; break; default: $r .= "dflt"; } return $r; }
echo sw(1), ",", sw(2), ",", sw(3), ",", sw("s"), ",", sw(9), " ";
for ($i = 0; $i < 4; $i++) { switch ($i) { case 1: continue 2; case 2: break 2; } echo $i; } echo "\n";
`},
	{name: "ctl.match", feats: "match", wrap: true, src: `
function m($x) { return match($x) { 1, 2 => "low", 3 => "three", default => "other" }; }
echo m(1), m(2), m(3), m(9), " ";
$v = 15; echo match(true) { $v < 10 => "lt10", $v < 20 => "lt20", default => "big" }, " ";
try { echo match($v) { 1 => "x" }; } catch (\Throwable $e) { echo "unhandled"; } echo "\n";
`},
	{name: "ctl.goto", feats: "goto", src: `
$i = 0;
again:
$i++;
if ($i < 3) goto again;
echo $i, "\n";
`},
	{name: "ctl.block.return.top", src: `
echo "before\n";
return;
echo "after\n";
`},
	{name: "ctl.exit", feats: "exit", src: `
echo "a\n";
function stop() { echo "b\n"; exit(3); }
stop();
echo "never\n";
`},
	{name: "ctl.die.msg", feats: "exit", src: `
echo "a\n"; die("bye\n"); echo "never\n";
`},
	// ---------------------------------------------------------------- functions
	{name: "fn.basic", src: `
function add($a, $b) { return $a + $b; }
function noret() { echo "side "; }
function early($x) { if ($x) { return "early"; } return "late"; }
echo add(1, 2), " "; $r = noret(); echo $r === null ? "null" : "val", " ", early(1), early(0), "\n";
`},
	{name: "fn.defaults", src: `
function d($a, $b = 2, $c = "x", $d = [1, 2], $e = null, $f = 1.5, $g = true, $h = -1) { return $a . $b . $c . count($d) . ($e ?? "N") . $f . ($g ? "T" : "F") . $h; }
echo d(1), " ", d(1, 5), " ", d(1, 5, "y", [1], "e", 2.5, false, 7), "\n";
const DEF = 9;
function dc($a = DEF, $b = PHP_INT_MAX) { return $a . "," . $b; }
echo dc(), "\n";
`},
	{name: "fn.named.args", feats: "named-args", src: `
function n($a, $b = 2, $c = 3) { return "$a-$b-$c"; }
echo n(1, c: 9), " ", n(c: 7, a: 5), " ", n(b: 4, a: 0), "\n";
`},
	{name: "fn.variadic", feats: "variadic", src: `
function sum(...$xs) { $t = 0; foreach ($xs as $x) { $t += $x; } return $t . "/" . count($xs); }
function lead($first, ...$rest) { return $first . ":" . implode(",", $rest); }
echo sum(), " ", sum(1, 2, 3), " ", lead("a"), " ", lead("a", "b", "c"), " ";
$args = [4, 5, 6]; echo sum(...$args), " ", lead(...$args), " ", sum(1, ...$args), "\n";
function fa() { return func_num_args() . ":" . implode(",", func_get_args()); }
echo fa(1, 2, 3), "\n";
`},
	{name: "fn.byref", feats: "reference", src: `
function inc(&$x) { $x++; }
function push(array &$a, $v) { $a[] = $v; }
function swap(&$a, &$b) { $t = $a; $a = $b; $b = $t; }
$n = 1; inc($n); inc($n); echo $n, " ";
$arr = [1]; push($arr, 2); echo count($arr), " ";
$p = "p"; $q = "q"; swap($p, $q); echo $p, $q, "\n";
`},
	{name: "fn.types", feats: "types", src: `
function t1(int $a, string $b, float $c, bool $d, array $e, ?int $f, int|string $g, mixed $h = null, ?string $i = null): string { return $a . $b . $c . ($d ? "T" : "F") . count($e) . ($f ?? "N") . $g . ($h ?? "M") . ($i ?? "I"); }
echo t1(1, "s", 1.5, true, [1], null, "u"), " ", t1(2, "t", 2.0, false, [], 3, 4, "h", "i"), "\n";
function tv(): void { echo "void "; }
function tn(): ?int { return null; }
function ti(): int { return 5; }
function ta(): array { return [1]; }
function tcallable(callable $f): mixed { return $f(2); }
tv(); echo tn() ?? "null", ti(), count(ta()), tcallable(fn($x) => $x + 1), "\n";
`},
	{name: "fn.types.violation", feats: "types", src: `
function need(int $x): int { return $x; }
echo need(5), "\n";
echo need("abc"), "\n";
echo "after\n";
`},
	{name: "fn.return.type.violation", feats: "types", src: `
function r(): int { return "str"; }
echo "before\n";
echo r(), "\n";
`},
	{name: "fn.multi.return", witness: "multiple-return-type-mistranslated", feats: "zy-ext,types", src: `
function pair(): string, int { return "abc", 123; }
$s, $n = pair();
echo $s, $n, "\n";
`},
	{name: "fn.recursion", src: `
function fact($n) { return $n <= 1 ? 1 : $n * fact($n - 1); }
function fib($n) { if ($n < 2) { return $n; } return fib($n - 1) + fib($n - 2); }
function even($n) { return $n == 0 ? true : odd($n - 1); }
function odd($n) { return $n == 0 ? false : even($n - 1); }
echo fact(10), " ", fib(15), " ", even(10) ? "E" : "O", "\n";
`},
	{name: "fn.call.before.decl", src: `
echo later(3), "\n";
function later($x) { return $x * 2; }
`},
	{name: "fn.conditional.decl", src: `
if (true) { function cond1() { return "c1"; } }
if (!function_exists('U_missing')) { function cond2() { return "c2"; } }
echo cond1(), cond2(), "\n";
`},
	{name: "fn.nested.decl", src: `
function outer() { function inner() { return "inner"; } return "outer"; }
echo outer(), inner(), "\n";
`},
	{name: "fn.string.callable", feats: "callable-string", src: `
function target($x) { return "t$x"; }
echo call_user_func('strrev', "abc"), " ", implode(",", array_map('strtoupper', ["a", "b"])), " ", call_user_func_array('max', [1, 5, 3]), " ", is_callable('strlen') ? "Y" : "N", "\n";
`},
	{name: "fn.ns.callable", feats: "callable-string", src: `
function target($x) { return "t$x"; }
$g = '@NS@target'; echo function_exists($g) ? "exists" : "missing", " ", __NAMESPACE__ === "" ? "global" : "ns", " ", __FUNCTION__, "|\n";
`},
	{name: "fn.undefined", src: `
echo "before\n";
no_such_function_anywhere(1);
echo "after\n";
`},
	{name: "fn.builtin.fallback", src: `
echo strlen("abc"), \strlen("abcd"), count([1, 2]), \count([1]), max(1, 2), min(3, 4), "\n";
`},
	{name: "fn.first.class.callable", feats: "fcc", src: `
function dbl($x) { return $x * 2; }
$f = dbl(...); echo $f(4), " "; $g = strlen(...); echo $g("abc"), "\n";
`},
	{name: "fn.generator", feats: "generator", src: `
function gen($n) { for ($i = 1; $i <= $n; $i++) { yield $i; } return "done"; }
function kv() { yield 'a' => 1; yield 'b' => 2; }
function deleg() { yield 0; yield from gen(2); yield 9; }
foreach (gen(3) as $v) { echo $v; } echo " ";
foreach (kv() as $k => $v) { echo $k, $v; } echo " ";
foreach (deleg() as $v) { echo $v; } echo " ";
$g = gen(2); echo $g->current(); $g->next(); echo $g->current(); $g->next(); echo $g->valid() ? "V" : "E", $g->getReturn(), "\n";
`},
	// ---------------------------------------------------------------- closures
	{name: "clo.basic", feats: "closure", wrap: true, src: `
$f = function ($x) { return $x * 2; };
$g = function () { return "noargs"; };
echo $f(3), $g(), (function ($a, $b = 2) { return $a + $b; })(1), "\n";
`},
	{name: "clo.use.byvalue", feats: "closure", wrap: true, src: `
$y = 5; $z = "z";
$f = function ($x) use ($y, $z) { $y = $y + 1; return $x + $y . $z; };
echo $f(1), " "; $y = 100; echo $f(1), " ", $y, "\n";
`},
	{name: "clo.use.byref", witness: "closure-use-by-reference", feats: "closure,closure-use-ref", wrap: true, src: `
$count = 0; $log = [];
$inc = function ($by) use (&$count, &$log) { $count += $by; $log[] = $count; return $count; };
$inc(1); $inc(2); echo $count, " ", implode(",", $log), " ";
$count = 10; echo $inc(5), "\n";
`},
	{name: "clo.return.type", witness: "closure-return-type-dropped", src: `
$ok = function ($x): int { return $x + 1; };
echo $ok(1), "\n";
$bad = function ($x): int { return $x; };
echo "before\n";
echo $bad("a"), "\n";
echo "after\n";
`},
	{name: "clo.arrow", feats: "closure,arrow-fn", wrap: true, src: `
$y = 10; $f = fn($x) => $x + $y; $g = fn($x) => fn($z) => $x + $y + $z; $h = fn() => [1, $y];
echo $f(1), " ", $g(1)(2), " ", count($h()), " "; $y = 20; echo $f(1), "\n";
`},
	{name: "clo.factory", feats: "closure", src: `
function adder($n) { return function ($x) use ($n) { return $x + $n; }; }
function counter() { $c = 0; return function () use (&$c) { return ++$c; }; }
$a3 = adder(3); $a5 = adder(5); echo $a3(1), $a5(1), " ";
$c1 = counter(); $c2 = counter(); $c1(); $c1(); echo $c1(), $c2(), "\n";
`},
	{name: "clo.nested", feats: "closure", wrap: true, src: `
$a = 1;
$outer = function ($b) use ($a) { $inner = function ($c) use ($a, $b) { return $a + $b + $c; }; return $inner(100); };
echo $outer(10), "\n";
`},
	{name: "clo.as.arg", feats: "closure", wrap: true, src: `
$m = 3;
echo implode(",", array_map(function ($x) use ($m) { return $x * $m; }, [1, 2, 3])), " ";
$r = array_filter([1, 2, 3, 4, 5], function ($x) { return $x % 2 == 1; }); echo implode(",", $r), " ";
$arr = [3, 1, 2]; usort($arr, function ($a, $b) { return $a <=> $b; }); echo implode(",", $arr), " ";
echo array_reduce([1, 2, 3], function ($carry, $x) { return $carry + $x; }, 10), " ", call_user_func(function ($p) { return "cuf$p"; }, 1), "\n";
`},
	{name: "clo.static.recursive", feats: "closure", wrap: true, src: `
$fact = function ($n) use (&$fact) { return $n <= 1 ? 1 : $n * $fact($n - 1); };
echo $fact(5), " "; $s = static function ($x) { return $x + 1; }; echo $s(1), " ";
$typed = function (int $a, string ...$rest): string { return $a . implode("", $rest); }; echo $typed(1, "a", "b"), "\n";
`},
	{name: "clo.in.array.prop", feats: "closure", wrap: true, src: `
$ops = ['add' => function ($a, $b) { return $a + $b; }, 'mul' => fn($a, $b) => $a * $b];
echo $ops['add'](2, 3), $ops['mul'](2, 3), " "; foreach ($ops as $name => $op) { echo $name, $op(4, 5), ","; } echo "\n";
`},
	// ---------------------------------------------------------------- strings
	{name: "str.interp", feats: "interp", wrap: true, src: `
$s = "str"; $n = 5; $a = ['k' => 'v', 3 => 'three']; $f = 1.5;
echo "a $s b", "|", "{$s}x", "|", "${s}y", "|", "$n$s", "|", "$a[k]", "|", "{$a['k']}", "|", "$a[3]", "|", "\$s", "|", "{$f}", "|", "$s's", "\n";
`},
	{name: "str.interp.obj", feats: "interp", classy: true, src: `
class P { public $name = "nm"; public $in; function __construct() { $this->in = new Q(); } function get() { return "got"; } }
class Q { public $deep = "dp"; public $arr = ['k' => 'kv']; }
$p = new P();
echo "v=$p->name", "|", "{$p->name}", "|", "{$p->in->deep}", "|", "{$p->get()}", "|", "{$p->in->arr['k']}", "\n";
`},
	{name: "str.heredoc", feats: "heredoc", wrap: true, src: `
$s = "val"; $a = ['k' => 'kv'];
$h = <<<EOT
line1 $s
  line2 {$a['k']} "quoted" \$esc
EOT;
echo $h, "|\n";
$n = <<<'EOT'
raw $s {$a['k']} \n
EOT;
echo $n, "|\n";
`},
	// ---------------------------------------------------------------- exceptions
	{name: "exc.basic", feats: "exceptions", wrap: true, src: `
try { echo "a"; throw new \Exception("boom", 42); echo "never"; } catch (\Exception $e) { echo "caught:", $e->getMessage(), ":", $e->getCode(), ":", get_class($e); } finally { echo ":fin"; } echo "\n";
try { echo "no throw"; } catch (\Exception $e) { echo "never"; } finally { echo ":fin2"; } echo "\n";
`},
	{name: "exc.custom.class", feats: "exceptions", classy: true, src: `
class AppEx extends \Exception { private $extra; function __construct($msg, $extra = "x") { parent::__construct($msg); $this->extra = $extra; } function getExtra() { return $this->extra; } }
class SubEx extends AppEx {}
class PlainEx extends \Exception {}
function thrower($k) { if ($k == 1) throw new AppEx("app", "ex1"); if ($k == 2) throw new SubEx("sub"); if ($k == 3) throw new PlainEx("plain"); if ($k == 4) throw new \RuntimeException("rt"); return "ok"; }
for ($k = 0; $k <= 4; $k++) {
  try { echo thrower($k), ";"; }
  catch (SubEx $e) { echo "SubEx:", $e->getMessage(), ":", $e->getExtra(), ";"; }
  catch (AppEx $e) { echo "AppEx:", $e->getMessage(), ":", $e->getExtra(), ";"; }
  catch (PlainEx | \RuntimeException $e) { echo "union:", get_class($e), ":", $e->getMessage(), ";"; }
}
echo "\n";
`},
	{name: "exc.plain.subclass.message", witness: "inherited-constructor-not-resolved", feats: "exceptions", classy: true, src: `
class MyEx extends \Exception {}
try { throw new MyEx("the message", 7); } catch (MyEx $e) { echo get_class($e), "|", $e->getMessage(), "|", $e->getCode(), "\n"; }
try { throw new MyEx("second"); } catch (\Exception $e) { echo "as base|", $e->getMessage(), "\n"; }
`},
	{name: "exc.nested.finally", feats: "exceptions", wrap: true, src: `
function f() { try { try { throw new \Exception("inner"); } finally { echo "f1,"; } } catch (\Exception $e) { echo "c:", $e->getMessage(), ","; throw new \LogicException("outer", 0, $e); } finally { echo "f2,"; } }
try { f(); } catch (\LogicException $e) { echo get_class($e), ":", $e->getMessage(), ":", $e->getPrevious() ? $e->getPrevious()->getMessage() : "noprev"; } echo "\n";
function g() { try { return "try"; } finally { echo "gfin,"; } }
function h() { foreach ([1, 2, 3] as $i) { try { if ($i == 2) continue; if ($i == 3) break; echo "i$i,"; } finally { echo "hf$i,"; } } return "hend"; }
echo g(), " ", h(), "\n";
`},
	{name: "exc.rethrow.throwable", feats: "exceptions", wrap: true, src: `
try { try { throw new \InvalidArgumentException("ia"); } catch (\Exception $e) { echo "re,"; throw $e; } } catch (\Throwable $t) { echo get_class($t), ":", $t->getMessage(); } echo "\n";
try { $r = intdiv(1, 0); } catch (\Throwable $t) { echo "T:", get_class($t); } echo "\n";
try { null_fn_xyz(); } catch (\Throwable $t) { echo "undefined caught"; } echo "\n";
`},
	{name: "exc.throw.in.switch.in.try", witness: "untagged-embedded-node-nil", feats: "exceptions", src: `
function f($x) { try { switch ($x) { case 1: throw new \Exception("in switch"); default: echo "dflt,"; } } catch (\Exception $e) { echo "caught ", $e->getMessage(), ","; } finally { echo "fin;"; } }
f(0); f(1); echo "\n";
`},
	{name: "exc.uncaught.in.switch", feats: "exceptions", src: `
echo "a\n";
switch (1) { case 1: throw new \Exception("uncaught in switch"); }
`},
	{name: "exc.uncaught.in.strict.compare", feats: "exceptions", src: `
function boom() { throw new \Exception("operand threw"); }
echo "a\n";
try { $r = boom() === 1; } catch (\Exception $e) { echo "caught\n"; }
$r = 1 <=> boom();
`},
	{name: "exc.uncaught", feats: "exceptions", src: `
echo "before\n";
function deep($n) { if ($n == 0) { throw new \RuntimeException("deep failure"); } deep($n - 1); }
deep(3);
echo "after\n";
`},
	{name: "exc.uncaught.custom", feats: "exceptions", classy: true, src: `
class Fatal extends \Exception {}
echo "before\n";
try { throw new Fatal("custom uncaught"); } finally { echo "cleanup\n"; }
echo "after\n";
`},
	{name: "exc.runtime.errors", src: `
echo "a\n";
$x = 1 % 0;
echo "b\n";
`},
	{name: "exc.error.method.on.null", src: `
echo "a\n";
$o = null;
$o->method();
echo "b\n";
`},
	{name: "exc.throw.expr", feats: "exceptions", wrap: true, src: `
function need($v) { return $v ?? throw new \InvalidArgumentException("missing"); }
try { echo need(1); echo need(null); } catch (\InvalidArgumentException $e) { echo ":", $e->getMessage(); } echo "\n";
`},
	// ---------------------------------------------------------------- classes
	{name: "cls.basic", feats: "class", classy: true, src: `
class Pt { public $x = 1; public $y; protected $tag = "t"; private $secret = "s"; function __construct($y = 2) { $this->y = $y; } function sum() { return $this->x + $this->y; } function tag() { return $this->tag . $this->secret; } function set($x) { $this->x = $x; return $this; } }
$p = new Pt(); $q = new Pt(10);
echo $p->sum(), " ", $q->sum(), " ", $p->tag(), " ", $q->set(5)->set(6)->sum(), " ", $p->x, $q->y, " ", get_class($p), " ", $p instanceof Pt ? "Y" : "N", "\n";
`},
	{name: "cls.prop.defaults", feats: "class", classy: true, src: `
class D { public $i = 5; public $f = 1.5; public $s = "str"; public $b = true; public $n = null; public $a = [1, 'k' => 'v']; public $e = []; public $neg = -3; public $expr = 2 * 3 + 1; public $cat = "a" . "b"; public $un; public int $ti = 7; public ?string $ns = null; public array $ta = [9]; }
$d = new D();
echo $d->i, $d->f, $d->s, $d->b ? "T" : "F", $d->n ?? "N", count($d->a), $d->a['k'], count($d->e), $d->neg, $d->expr, $d->cat, $d->un ?? "U", $d->ti, $d->ns ?? "NS", $d->ta[0], "\n";
$d2 = new D(); $d2->a[] = 5; $d2->i++; echo count($d->a), $d->i, count($d2->a), $d2->i, "\n";
`},
	{name: "cls.const", feats: "class,class-const", classy: true, src: `
class C { const A = 5; const B = "bee"; const C = self::A * 2; public const ARR = [1, 2, 3]; private const P = "priv"; function viaSelf() { return self::A . static::B . self::P; } static function sv() { return self::C; } }
class C2 extends C { const B = "override"; const D = 6; }
echo C::A, C::B, C::C, count(C::ARR), C::ARR[1], " ", (new C)->viaSelf(), " ", C::sv(), " ", C2::A, C2::B, C2::D, (new C2)->viaSelf(), "\n";
$o = new C2(); echo $o::B, " ", C::class, " ", $o::class, "\n";
`},
	{name: "cls.static.props", witness: "class-static-members-dropped", feats: "class,static-prop", classy: true, src: `
class S { public static $count = 0; public static $list = []; protected static $name = "S"; static function inc() { self::$count++; static::$list[] = self::$count; return self::$count; } static function name() { return static::$name; } }
class S2 extends S { protected static $name = "S2"; }
S::inc(); S::inc(); S2::inc();
echo S::$count, " ", count(S::$list), " ", S::name(), S2::name(), " "; S::$count = 10; echo S2::$count, S::inc(), "\n";
`},
	{name: "cls.static.methods", feats: "class,static-method", classy: true, src: `
class M { static function make($v) { return new static($v); } public $v; function __construct($v = 0) { $this->v = $v; } static function twice($x) { return self::helper($x) * 2; } private static function helper($x) { return $x + 1; } function inst() { return static::twice($this->v) . self::twice(1); } function who() { return static::class; } }
class M2 extends M { function who2() { return parent::who() . "+" . self::class; } }
echo M::twice(3), " ", M::make(5)->v, " ", get_class(M2::make(1)), " ", (new M(2))->inst(), " ", (new M2)->who(), " ", (new M2)->who2(), "\n";
$cls = 'M'; $fq = '@NS@M'; echo $fq::twice(1), "\n";
`},
	{name: "cls.inherit", feats: "class,inherit", classy: true, src: `
class A { public $log = []; function __construct() { $this->log[] = "A"; } function hello() { return "A.hello"; } function tmpl() { return "tmpl:" . $this->hook(); } protected function hook() { return "A.hook"; } }
class B extends A { function __construct() { parent::__construct(); $this->log[] = "B"; } function hello() { return "B>" . parent::hello(); } protected function hook() { return "B.hook"; } }
class C extends B { function hook() { return "C>" . parent::hook(); } }
$c = new C(); echo implode(",", $c->log), " ", $c->hello(), " ", $c->tmpl(), " ", (new A)->tmpl(), " ";
echo $c instanceof A ? "Y" : "N", $c instanceof B ? "Y" : "N", (new A) instanceof B ? "Y" : "N", "\n";
`},
	{name: "cls.abstractmethod", witness: "abstract-method-go-type", feats: "class,abstract", classy: true, src: `
abstract class Shape { protected $n; function __construct($n) { $this->n = $n; } abstract function area(); abstract protected function unit(): string; function describe() { return $this->n . "=" . $this->area() . $this->unit(); } }
class Sq extends Shape { private $s; function __construct($s) { parent::__construct("sq"); $this->s = $s; } function area() { return $this->s * $this->s; } protected function unit(): string { return "u2"; } }
echo (new Sq(3))->describe(), "\n";
try { $x = new Shape("x"); echo "instantiated"; } catch (\Throwable $e) { echo "cannot instantiate"; } echo "\n";
`},
	{name: "cls.abstract.nomethods", feats: "class,abstract-class", classy: true, src: `
abstract class Base { public $v = "base"; function get() { return $this->v; } }
class Impl extends Base { public $v = "impl"; }
echo (new Impl)->get(), "\n";
`},
	{name: "cls.interface", feats: "class,interface", classy: true, src: `
interface HasArea { function area(); }
interface Named { const PREFIX = "n:"; function name(): string; }
interface Both extends HasArea, Named {}
class R implements HasArea, Named { function area() { return 6; } function name(): string { return self::PREFIX . "r"; } }
class T implements Both { function area() { return 1; } function name(): string { return "t"; } }
$r = new R(); $t = new T();
echo $r->area(), $r->name(), " ", $r instanceof HasArea ? "Y" : "N", $r instanceof Named ? "Y" : "N", $r instanceof Both ? "Y" : "N", $t instanceof HasArea ? "Y" : "N", $t instanceof Both ? "Y" : "N", " ", Named::PREFIX, "\n";
function useArea(HasArea $h) { return $h->area(); } echo useArea($r), useArea($t), "\n";
`},
	{name: "cls.interface.only.instanceof", witness: "interface-declarations-dropped", feats: "class,interface", classy: true, src: `
interface Marker {}
class WithMarker implements Marker {}
class Without {}
echo (new WithMarker) instanceof Marker ? "Y" : "N", (new Without) instanceof Marker ? "Y" : "N", "\n";
`},
	{name: "cls.promotion", feats: "class,promotion", classy: true, src: `
class Pr { function __construct(public int $a, protected string $b = "bb", private ?array $c = null, public readonly int $ro = 9) {} function show() { return $this->a . $this->b . count($this->c ?? []) . $this->ro; } }
$p = new Pr(1); $q = new Pr(2, "x", [1, 2], 3);
echo $p->show(), " ", $q->show(), " ", $p->a, $q->ro, "\n";
try { $q->ro = 5; echo "written"; } catch (\Throwable $e) { echo "readonly"; } echo "\n";
`},
	{name: "cls.readonly.typed", feats: "class,readonly", classy: true, src: `
class RO { public readonly string $id; public int $n = 0; function __construct($id) { $this->id = $id; } }
$r = new RO("abc"); echo $r->id, $r->n, " ";
try { $r->id = "x"; echo "written"; } catch (\Throwable $e) { echo "ro-blocked"; } echo " ";
try { $r->n = "notint"; echo "typed-accepted:", $r->n; } catch (\Throwable $e) { echo "type-blocked"; } echo "\n";
`},
	{name: "cls.visibility", feats: "class,visibility", classy: true, src: `
class V { public $pub = "pub"; protected $pro = "pro"; private $pri = "pri"; private function pm() { return "pm"; } protected function prm() { return "prm"; } function viaThis() { return $this->pri . $this->pm() . $this->prm(); } }
class V2 extends V { function child() { return $this->pro . $this->prm(); } }
$v = new V2(); echo $v->pub, $v->viaThis(), $v->child(), " ";
try { echo $v->pro; } catch (\Throwable $e) { echo "no-pro"; } echo " ";
try { echo $v->pm(); } catch (\Throwable $e) { echo "no-pm"; } echo "\n";
`},
	{name: "cls.visibility.uncaught", feats: "class,visibility", classy: true, src: `
class V { private $pri = "pri"; }
echo "before\n";
$v = new V(); echo $v->pri;
echo "after\n";
`},
	{name: "cls.magic", feats: "class,magic", classy: true, src: `
class Mg { private $d = []; function __get($k) { return $this->d[$k] ?? "unset:$k"; } function __set($k, $v) { $this->d[$k] = "set:" . $v; } function __isset($k) { return isset($this->d[$k]); } function __unset($k) { unset($this->d[$k]); } function __call($m, $a) { return "call:$m:" . count($a); } static function __callStatic($m, $a) { return "static:$m:" . count($a); } function __toString() { return "Mg!"; } function __invoke($x) { return "inv:$x"; } }
$m = new Mg(); $m->a = 1; echo $m->a, " ", $m->b, " ", isset($m->a) ? "Y" : "N", isset($m->b) ? "Y" : "N", " "; unset($m->a); echo isset($m->a) ? "Y" : "N", " ";
echo $m->foo(1, 2), " ", Mg::bar(1), " ", $m, " ", "s:" . $m, " ", $m(7), " ", strlen($m), "\n";
`},
	{name: "cls.clone", feats: "class,clone", classy: true, src: `
class In { public $v = 1; }
class Cl { public $n = 1; public $in; public $arr = [1]; function __construct() { $this->in = new In(); } function __clone() { $this->in = clone $this->in; $this->n = $this->n + 100; } }
$a = new Cl(); $b = clone $a; $b->in->v = 2; $b->arr[] = 2; $c = $a; $c->n = 50;
echo $a->n, $b->n, $a->in->v, $b->in->v, count($a->arr), count($b->arr), $a === $c ? "same" : "diff", $a == $b ? "eq" : "ne", "\n";
`},
	{name: "cls.dynamic", feats: "class,dynamic", classy: true, src: `
class Dy { public $p = "pv"; public $q = "qv"; function m1() { return "m1"; } function m2($a) { return "m2$a"; } static function sm() { return "sm"; } }
$o = new Dy(); $prop = "p"; $meth = "m1"; $cls = '@NS@Dy';
echo $o->$prop, $o->{"q"}, $o->$meth(), $o->{"m" . "2"}("x"), " ", (new $cls)->p, $cls::sm(), " ";
$o->newprop = "dyn"; echo $o->newprop, " ", property_exists($o, 'p') ? "Y" : "N", method_exists($o, 'm1') ? "Y" : "N", method_exists($o, 'zz') ? "Y" : "N", " ";
echo "\n";
`},
	{name: "cls.new.forms", feats: "class,new-forms", classy: true, src: `
class N { public $a; function __construct($a = "d") { $this->a = $a; } function self2() { return new self("self"); } function static2() { return new static("static"); } }
class N2 extends N {}
$n = new N; $m = new N("arg"); $c = 'N2'; $fq = '@NS@N2'; $d = new $fq("dyn");
echo $n->a, $m->a, $d->a, get_class($d), " ", (new N2)->self2()->a, get_class((new N2)->self2()), get_class((new N2)->static2()), " ", (new N("inline"))->a, "\n";
$objs = [new N(1), new N(2)]; echo $objs[1]->a, "\n";
`},
	{name: "cls.anonymous", witness: "anonymous-class-go-type", classy: true, src: `
$o = new class(5) { public $v; function __construct($v) { $this->v = $v; } function greet() { return "hi" . $this->v; } };
echo $o->greet(), "\n";
`},
	{name: "cls.anon.with.interface", feats: "class", classy: true, src: `
interface Greeter { function greet(); }
$o = new class(5) implements Greeter { public $v; function __construct($v) { $this->v = $v; } function greet() { return "hi" . $this->v; } };
echo $o->greet(), $o instanceof Greeter ? "Y" : "N", "\n";
`},
	{name: "cls.enum", feats: "class,enum", classy: true, src: `
enum Suit: string { case Hearts = 'H'; case Spades = 'S'; function color(): string { return match($this) { self::Hearts => 'Red', self::Spades => 'Black' }; } static function fromChar($c) { return self::from($c); } }
enum Plain { case A; case B; }
echo Suit::Hearts->value, Suit::Hearts->name, Suit::Spades->color(), Suit::from('H')->name, Suit::tryFrom('X') === null ? "null" : "some", count(Suit::cases()), " ";
echo Plain::A->name, Plain::A === Plain::A ? "same" : "diff", Plain::A === Plain::B ? "same" : "diff", Suit::Hearts instanceof Suit ? "Y" : "N", "\n";
`},
	{name: "cls.trait", feats: "class,trait", classy: true, src: `
trait Hello { public $greeting = "hi"; function hello() { return $this->greeting . " from " . static::class; } static function st() { return "st"; } }
trait Counter { private $c = 0; function inc() { return ++$this->c; } }
class UsesT { use Hello, Counter; }
$u = new UsesT(); $u->inc(); echo $u->hello(), " ", $u->inc(), " ", UsesT::st(), "\n";
`},
	{name: "cls.closure.this", feats: "class,closure", classy: true, src: `
class Cb { private $factor = 3; public $items = [1, 2, 3]; function scaled() { return array_map(function ($x) { return $x * $this->factor; }, $this->items); } function arrow() { return array_map(fn($x) => $x + $this->factor, $this->items); } function getter() { return function () { return $this->factor; }; } static function sfn() { return static function ($x) { return $x . self::class; }; } }
$c = new Cb(); echo implode(",", $c->scaled()), " ", implode(",", $c->arrow()), " ", $c->getter()(), " ", (Cb::sfn())("s:"), "\n";
`},
	{name: "cls.callable.array", feats: "class,callable-array", classy: true, src: `
class Ca { function im($x) { return "im$x"; } static function sm($x) { return "sm$x"; } function me() { return array_map([$this, 'im'], [1, 2]); } }
$o = new Ca(); $f = [$o, 'im']; echo $f(1), " ", implode(",", $o->me()), " ", implode(",", array_map([Ca::class, 'sm'], [3])), " ", is_callable([$o, 'im']) ? "Y" : "N", "\n";
`},
	{name: "cls.fcc.method", feats: "class,fcc", classy: true, src: `
class Fc { function im($x) { return "im$x"; } static function sm($x) { return "sm$x"; } }
$o = new Fc(); $f = $o->im(...); $g = Fc::sm(...); echo $f(1), $g(2), "\n";
`},
	{name: "cls.static.instance.mix", feats: "class,static-prop", classy: true, src: `
class Reg { private static $items = []; private static ?Reg $inst = null; public $id; private function __construct($id) { $this->id = $id; } static function get() { if (self::$inst === null) { self::$inst = new self(count(self::$items) + 1); } return self::$inst; } static function add($k, $v) { self::$items[$k] = $v; return count(self::$items); } static function all() { return self::$items; } }
Reg::add('a', 1); Reg::add('b', 2); echo Reg::get()->id, Reg::get() === Reg::get() ? "same" : "diff", count(Reg::all()), implode(",", array_keys(Reg::all())), "\n";
`},
	{name: "cls.method.types", feats: "class,types", classy: true, src: `
class Ty { function a(int $x, ?self $o = null): static { return $this; } function b(): ?Ty { return null; } function c(self|int $u): string { return is_int($u) ? "int" : "obj"; } function d(self ...$many): int { return count($many); } }
$t = new Ty(); echo get_class($t->a(1)), $t->b() ?? "null", $t->c(1), $t->c($t), $t->d($t, $t), "\n";
try { $t->a("x"); echo "accepted"; } catch (\Throwable $e) { echo "rejected"; } echo "\n";
`},
	{name: "cls.tostring.interp", feats: "class,magic", classy: true, src: `
class St { function __toString() { return "ST"; } }
$s = new St(); echo "v=$s", "|", "{$s}", "|", $s . "x", "|", str_repeat($s, 2), "\n";
`},
	{name: "cls.instanceof.forms", feats: "class", classy: true, src: `
class IA {} class IB extends IA {}
$o = new IB(); $n = '@NS@IA'; $other = new IA();
echo $o instanceof IA ? 1 : 0, $other instanceof IB ? 1 : 0, null instanceof IA ? 1 : 0, !($o instanceof IA) ? 1 : 0, "\n";
`},
	{name: "cls.iterate.object", feats: "class", classy: true, src: `
class It { public $a = 1; public $b = 2; protected $c = 3; }
$o = new \stdClass(); $o->x = 1; $o->y = [1, 2]; echo $o->x, count($o->y), " ", json_encode($o), "\n";
$obj = (object)['p' => 1]; echo $obj->p, "\n";
`},
	{name: "cls.nullsafe", feats: "class,nullsafe", classy: true, src: `
class Ns { public $next = null; public $v = "v"; function n() { return $this->next; } function val() { return $this->v; } }
$a = new Ns(); $a->next = new Ns(); $z = null;
echo $a?->v, $a->next?->v, $a->next->next?->v ?? "nil", $z?->v ?? "nil", $z?->val() ?? "nil", $a->n()?->val(), $a->n()->n()?->val() ?? "nil", "\n";
`},
	{name: "cls.constructor.uncaught", feats: "class,exceptions", classy: true, src: `
class Bad { function __construct($x) { if ($x < 0) { throw new \InvalidArgumentException("negative: $x"); } echo "ok$x\n"; } }
new Bad(1);
new Bad(-5);
echo "after\n";
`},
	{name: "cls.dynamic.static.call", witness: "dynamic-class-static-access", classy: true, src: `
class Dy { static function sm($x) { return "sm" . $x; } }
$cls = '@NS@Dy';
echo $cls::sm(1), "\n";
$o = new Dy();
echo $o::sm(2), "\n";
`},
	{name: "cls.var.class.const", witness: "var-class-constant-translator-panic", classy: true, src: `
class Vc {}
$o = new Vc();
echo $o::class, "\n";
`},
	{name: "cls.toplevel", witness: "toplevel-declarations-dropped", classy: true, toplvl: true, src: `
class TopLevelUnitClass { public $v = 5; function get() { return $this->v + 1; } }
$o = new TopLevelUnitClass();
echo $o->get(), "\n";
`},
	{name: "cls.unknown.class", feats: "class", src: `
echo "before\n";
$o = new NoSuchClassAnywhere();
echo "after\n";
`},
	{name: "cls.use.alias", feats: "class,use", classy: true, src: `
use \Exception as BaseEx;
use \InvalidArgumentException;
class Mine extends BaseEx {}
try { throw new InvalidArgumentException("ia"); } catch (BaseEx $e) { echo get_class($e), ":", $e->getMessage(); } echo " ";
try { throw new Mine("mine"); } catch (BaseEx $e) { echo get_class($e), ":", $e->getMessage(); } echo "\n";
`},
	{name: "cls.define.const.fn", feats: "const", src: `
const TOP = 12; const STR = "s" . "t"; const ARR = [1, 2];
define('DYN', TOP + 1);
echo TOP, STR, count(ARR), DYN, defined('DYN') ? "Y" : "N", defined('NOPE') ? "Y" : "N", " ", PHP_EOL === "\n" ? "eol" : "?", PHP_INT_SIZE, M_PI > 3 ? "pi" : "?", "\n";
function usesConst() { return TOP * 2; } echo usesConst(), "\n";
`},
	// ---------------------------------------------------------------- output
	{name: "out.echo.print", wrap: true, src: `
echo "a", "b", 1, 2.5, true, null, false, "\n"; print "printed\n";
echo 'multi
line', "\n";
`},
	{name: "out.print_r.var_export", wrap: true, src: `
var_export([1, 'a' => false]); echo "\n"; var_export("q'uote"); echo "\n"; echo json_encode([1.0, 0.5, "é", [], new \stdClass()]), "\n";
`},
	{name: "out.buffer", feats: "ob", wrap: true, src: `
ob_start(); echo "captured"; $c = ob_get_clean(); echo strtoupper($c), "\n"; ob_start(); echo "x"; echo ob_get_clean(), "\n";
`},
	{name: "out.inline.html", feats: "inline-html", src: `
echo "php1\n";
?>
inline html line
<?php echo "php2\n"; ?>
tail <?= 1 + 2 ?> end
<?php
echo "php3\n";
`},
	// ---------------------------------------------------------------- misc
	{name: "misc.magic.consts", feats: "magic-const", src: `
function mf() { return __FUNCTION__; }
echo __LINE__ > 0 ? "line" : "?", " ", basename(__FILE__) !== "" ? "file" : "?", " ", basename(__DIR__) !== "" ? "dir" : "?", " ", strlen(mf()) > 0 ? "fn" : "?", "\n";
`},
	{name: "misc.magic.class.consts", feats: "magic-const,class", classy: true, src: `
class Mc { function m() { return __CLASS__ . "|" . __METHOD__ . "|" . __FUNCTION__; } }
echo (new Mc)->m(), "|", __NAMESPACE__, "\n";
`},
	{name: "misc.include", feats: "include", src: `
$f = __DIR__ . '/no_such_include_file.php';
$r = @include $f; echo $r === false ? "include-false" : "included", "\n";
echo file_exists($f) ? "exists" : "missing", "\n";
`},
	{name: "misc.error.suppress", feats: "suppress", wrap: true, src: `
$a = []; $v = @$a['missing']; echo $v ?? "null", " "; $r = @intdiv(4, 2); echo $r, "\n";
`},
	{name: "misc.like.in", feats: "zy-ext", src: `
$s = "hello world";
echo $s like "hello%" ? "Y" : "N", $s like "%zzz%" ? "Y" : "N", "\n";
`},
	{name: "misc.typed.var.decl", feats: "zy-ext", src: `
int $n = 5; string $s = "str"; echo $n, $s, "\n";
`},
	{name: "misc.long.program", wrap: true, src: `
$total = 0; $words = []; $map = [];
for ($i = 1; $i <= 20; $i++) {
  if ($i % 15 == 0) { $w = "FizzBuzz"; } elseif ($i % 5 == 0) { $w = "Buzz"; } elseif ($i % 3 == 0) { $w = "Fizz"; } else { $w = (string)$i; }
  $words[] = $w; $map[$w] = ($map[$w] ?? 0) + 1; $total += strlen($w);
}
echo implode(" ", $words), "\n", $total, " ", $map["Fizz"], $map["Buzz"], $map["FizzBuzz"], "\n";
$primes = []; for ($n = 2; count($primes) < 10; $n++) { $isP = true; foreach ($primes as $p) { if ($p * $p > $n) break; if ($n % $p == 0) { $isP = false; break; } } if ($isP) $primes[] = $n; }
echo implode(",", $primes), "\n";
`},
}
