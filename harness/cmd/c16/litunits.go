package main

import (
	"fmt"
	"math"
	"math/rand"
	"strconv"
	"strings"
)

// Literal fidelity: the value a literal denotes must reach the compiled program unchanged in
// every position the translator handles separately — expression, parameter default (function,
// method, closure), match arm, switch label, array key and value, property default, static
// property default, class constant (the last two are evaluated by the parser and carried as
// run-time values). Values are printed with json_encode (shortest round-trip form of a float),
// sprintf("%.17g") and echo, and compared with a value parsed at run time from a string, so
// that a literal that was rounded, truncated or re-encoded by the emitter shows in the output.

type litval struct {
	tag  string // stable name
	kind string // float | int | string | array
	src  string // the literal as written in the source
}

// enumerated part of the family: seed independent, both tiers
var litTable = []litval{
	// ---- floats: more than 7 significant digits, extreme exponents, exponent forms
	{"f.16digits", "float", "0.1234567890123456"},
	{"f.pi", "float", "3.141592653589793"},
	{"f.e", "float", "2.718281828459045"},
	{"f.price", "float", "1234567.89"},
	{"f.third", "float", "0.333333333"},
	{"f.radius", "float", "6371.0088"},
	{"f.big17", "float", "123456789.12345678"},
	{"f.2p24plus1", "float", "16777217.0"},
	{"f.2p53plus1", "float", "9007199254740993.0"},
	{"f.sum0103", "float", "0.30000000000000004"},
	{"f.4_35", "float", "4.35"},
	{"f.tenth", "float", "0.1"},
	{"f.1e39", "float", "1e39"},
	{"f.1e308", "float", "1e308"},
	{"f.max", "float", "1.7976931348623157e308"},
	{"f.denormmin", "float", "5e-324"},
	{"f.1e-46", "float", "1e-46"},
	{"f.minnormal", "float", "2.2250738585072014e-308"},
	{"f.small", "float", "1.5e-10"},
	{"f.negexp", "float", "-1.25e-7"},
	{"f.upperE", "float", "1E5"},
	{"f.expplus", "float", "6.02214076e+23"},
	{"f.hundred", "float", "100.0"},
	{"f.negzero", "float", "-0.0"},
	{"f.neg17", "float", "-98765.432101234567"},
	// ---- ints at the 2^31 / 2^32 / 2^53 / 2^63 boundaries, other bases
	{"i.zero", "int", "0"},
	{"i.2p31m1", "int", "2147483647"},
	{"i.2p31", "int", "2147483648"},
	{"i.m2p31", "int", "-2147483648"},
	{"i.m2p31m1", "int", "-2147483649"},
	{"i.2p32m1", "int", "4294967295"},
	{"i.2p32", "int", "4294967296"},
	{"i.2p53m1", "int", "9007199254740991"},
	{"i.2p53", "int", "9007199254740992"},
	{"i.2p53p1", "int", "9007199254740993"},
	{"i.2p63m1", "int", "9223372036854775807"},
	{"i.m2p63p1", "int", "-9223372036854775807"},
	{"i.intmax", "int", "PHP_INT_MAX"},
	{"i.intmin", "int", "PHP_INT_MIN"},
	{"i.hexmax", "int", "0x7FFFFFFFFFFFFFFF"},
	{"i.hex32", "int", "0xFFFFFFFF"},
	{"i.bin", "int", "0b1111111111111111111111111111111"},
	{"i.oct", "int", "0777"},
	{"i.sep", "int", "1_000_000_007"},
	// ---- strings: escapes, NUL, multi-byte, quotes, format verbs, long
	{"s.escapes", "string", `"a\n\t\r\\\$\"\0\x41\101z"`},
	{"s.nul", "string", `"nul\0inside\0"`},
	{"s.multibyte", "string", `"héllo 世界 😀 ñ"`},
	{"s.single", "string", `'it\'s \\ \n $x {$y}'`},
	{"s.format", "string", `"100%d %s %% %q ` + "`" + `tick` + "`" + ` {braces}"`},
	{"s.empty", "string", `""`},
	{"s.numeric", "string", `"0.1234567890123456"`},
	{"s.long", "string", `"` + strings.Repeat("0123456789abcdefghijklmnopqrstuvwxyz-", 140) + `"`},
	// ---- nested arrays with mixed keys
	{"a.nested", "array", `[1, 2.5, "s", null, true, [10, [20, [30.125]]]]`},
	{"a.keyed", "array", `['a' => 1, 'b' => ['c' => 0.1234567890123456, 'd' => [1, 2]], 'e' => null]`},
	{"a.intkeys", "array", `[5 => 'five', 2147483648 => 'big', -3 => 0.30000000000000004]`},
	{"a.mixed", "array", `['k' => 9007199254740993, 7 => ['x' => "é\n", 'y' => [1e308, -0.0]], 'z' => []]`},
}

// litPrint: PHP expression text that prints the value of expression e unambiguously.
func litPrint(kind, e string) string {
	switch kind {
	case "float":
		return fmt.Sprintf(`json_encode(%s), "|", sprintf("%%.17g", %s), "|", %s`, e, e, e)
	case "int":
		return fmt.Sprintf(`json_encode(%s), "|", %s, "|", %s %% 1000`, e, e, e)
	case "string":
		return fmt.Sprintf(`strlen(%s), "|", bin2hex(%s), "|", json_encode(%s)`, e, e, e)
	}
	return fmt.Sprintf(`json_encode(%s)`, e)
}

// runtimeParsed: an expression that yields the literal's value without a literal of that type
// in the source (parsed from a string while the program runs), or "" when there is none.
func runtimeParsed(v litval) string {
	switch v.kind {
	case "float":
		if strings.HasPrefix(v.src, "-0") {
			return ""
		}
		return fmt.Sprintf(`(float)"%s"`, v.src)
	case "int":
		if _, err := strconv.ParseInt(v.src, 10, 64); err == nil {
			return fmt.Sprintf(`(int)"%s"`, v.src)
		}
	}
	return ""
}

// litExprProgram: the literal in expression positions.
func litExprProgram(v litval) string {
	L := v.src
	var sb strings.Builder
	w := func(f string, a ...any) { fmt.Fprintf(&sb, f+"\n", a...) }
	w(`$v = %s;`, L)
	w(`echo "expr:", %s, "\n";`, litPrint(v.kind, "$v"))
	w(`function pdef($x = %s) { return $x; }`, L)
	w(`echo "param:", %s, "\n";`, litPrint(v.kind, "pdef()"))
	w(`$clo = function ($x = %s) { return $x; };`, L)
	w(`echo "closure-param:", %s, "\n";`, litPrint(v.kind, "$clo()"))
	w(`$m = match(1) { 0 => null, 1 => %s, default => null };`, L)
	w(`echo "match-result:", %s, "\n";`, litPrint(v.kind, "$m"))
	w(`$arr = ['val' => %s, 'list' => [%s, [%s]]];`, L, L, L)
	w(`echo "array-value:", %s, "|", %s, "\n";`, litPrint(v.kind, "$arr['val']"), `json_encode($arr)`)
	w(`$t = true ? %s : null; $c = null ?? %s;`, L, L)
	w(`echo "ternary:", %s, " coalesce:", %s, "\n";`, litPrint(v.kind, "$t"), litPrint(v.kind, "$c"))
	switch v.kind {
	case "float", "int":
		w(`echo "arith:", json_encode(%s + 0), "|", json_encode(%s * 1), "|", json_encode(0 - %s), "|", json_encode(%s - %s), "\n";`, L, L, L, L, L)
		if rp := runtimeParsed(v); rp != "" {
			w(`$r = %s;`, rp)
			w(`echo "runtime:", json_encode($r), " identical:", $r === %s ? "Y" : "N", " equal:", $r == %s ? "Y" : "N", " cmp:", $r <=> %s, "\n";`, L, L, L)
			w(`echo "match-arm:", match(true) { $r === %s => "hit", default => "miss" }, "\n";`, L)
			w(`switch ($r) { case %s: echo "switch-label:hit\n"; break; default: echo "switch-label:miss\n"; }`, L)
		}
		if v.kind == "int" {
			w(`$keyed = [%s => 'at-key'];`, L)
			w(`echo "array-key:", json_encode($keyed), "|", json_encode(array_keys($keyed)), "\n";`)
		}
	case "string":
		w(`$keyed = [%s => 1];`, L)
		w(`foreach ($keyed as $k => $one) { echo "array-key:", strlen($k), "|", bin2hex($k), "\n"; }`)
		w(`echo "concat:", bin2hex(%s . "|" . %s), " eq:", $v === %s ? "Y" : "N", "\n";`, L, L, L)
		w(`switch ($v) { case %s: echo "switch-label:hit\n"; break; default: echo "switch-label:miss\n"; }`, L)
	case "array":
		w(`echo "count:", count(%s), " eq:", $v == %s ? "Y" : "N", "\n";`, L, L)
		w(`foreach (%s as $k => $e) { echo "elem:", json_encode($k), "=>", json_encode($e), ";"; }`, L)
		w(`echo "\n";`)
	}
	return sb.String()
}

// litDeclProgram: the literal in declaration positions (class members).
func litDeclProgram(v litval) string {
	L := v.src
	var sb strings.Builder
	w := func(f string, a ...any) { fmt.Fprintf(&sb, f+"\n", a...) }
	w(`class Holder {`)
	w(`  const C = %s;`, L)
	w(`  public $prop = %s;`, L)
	w(`  protected $inner = ['n' => %s];`, L)
	w(`  public static $stat = %s;`, L)
	w(`  function viaParam($x = %s) { return $x; }`, L)
	w(`  static function sParam($x = %s) { return $x; }`, L)
	w(`  function inner() { return $this->inner['n']; }`)
	w(`  function viaConst() { return self::C; }`)
	w(`}`)
	w(`class Child extends Holder { const D = [%s, 'k' => %s]; public $own = %s; }`, L, L, L)
	w(`$h = new Holder(); $c = new Child();`)
	w(`echo "const:", %s, "\n";`, litPrint(v.kind, "Holder::C"))
	w(`echo "const-self:", %s, "\n";`, litPrint(v.kind, "$h->viaConst()"))
	w(`echo "prop:", %s, "\n";`, litPrint(v.kind, "$h->prop"))
	w(`echo "prop-nested:", %s, "\n";`, litPrint(v.kind, "$h->inner()"))
	w(`echo "static:", %s, "\n";`, litPrint(v.kind, "Holder::$stat"))
	w(`echo "method-param:", %s, "\n";`, litPrint(v.kind, "$h->viaParam()"))
	w(`echo "static-param:", %s, "\n";`, litPrint(v.kind, "Holder::sParam()"))
	w(`echo "child:", %s, "|", json_encode(Child::D), "|", %s, "\n";`, litPrint(v.kind, "$c->own"), litPrint(v.kind, "Child::C"))
	if rp := runtimeParsed(v); rp != "" {
		w(`$r = %s;`, rp)
		w(`echo "identical:", $r === Holder::C ? "Y" : "N", $r === $h->prop ? "Y" : "N", $r === Holder::$stat ? "Y" : "N", $r === $h->viaParam() ? "Y" : "N", "\n";`)
	}
	return sb.String()
}

func literalUnits() []unit {
	var out []unit
	for _, v := range litTable {
		out = append(out, unit{name: "lit." + v.tag + ".expr", feats: "literal", src: litExprProgram(v)})
		out = append(out, unit{name: "lit." + v.tag + ".decl", feats: "literal", classy: true, src: litDeclProgram(v)})
	}
	return out
}

// ---------------------------------------------------------------------------------
// seeded values

func randFloatLit(r *rand.Rand) string {
	digits := 8 + r.Intn(10) // 8..17 significant digits
	var sb strings.Builder
	sb.WriteByte(byte('1' + r.Intn(9)))
	for i := 1; i < digits; i++ {
		sb.WriteByte(byte('0' + r.Intn(10)))
	}
	mant := sb.String()
	if mant[len(mant)-1] == '0' {
		mant = mant[:len(mant)-1] + "7"
	}
	sign := ""
	if r.Intn(4) == 0 {
		sign = "-"
	}
	switch r.Intn(5) {
	case 0: // plain decimal, point somewhere inside
		p := 1 + r.Intn(len(mant)-1)
		return sign + mant[:p] + "." + mant[p:]
	case 1: // small fraction
		return sign + "0." + strings.Repeat("0", r.Intn(4)) + mant
	case 2: // scientific, moderate exponent
		return fmt.Sprintf("%s%s.%se%d", sign, mant[:1], mant[1:], r.Intn(61)-30)
	case 3: // scientific, extreme exponent (beyond float32 range on both sides)
		e := 39 + r.Intn(268)
		if r.Intn(2) == 0 {
			e = -(46 + r.Intn(260))
		}
		return fmt.Sprintf("%s%s.%se%d", sign, mant[:1], mant[1:], e)
	}
	// upper-case E with explicit plus
	return fmt.Sprintf("%s%s.%sE+%d", sign, mant[:1], mant[1:], r.Intn(20))
}

func randIntLit(r *rand.Rand) string {
	bases := []int64{1 << 31, 1 << 32, 1 << 53, math.MaxInt64, 1 << 24, 1 << 62}
	b := bases[r.Intn(len(bases))]
	d := int64(r.Intn(5)) - 2
	var n int64
	if b == math.MaxInt64 {
		n = b - int64(r.Intn(3))
	} else {
		n = b + d
	}
	if r.Intn(3) == 0 && n != math.MinInt64 {
		n = -n
	}
	switch r.Intn(4) {
	case 0:
		if n >= 0 {
			return "0x" + strconv.FormatInt(n, 16)
		}
	case 1:
		if n >= 0 {
			return "0" + strconv.FormatInt(n, 8)
		}
	}
	return strconv.FormatInt(n, 10)
}

func randStringLit(r *rand.Rand) string {
	pieces := []string{`a`, `Z`, ` `, `\n`, `\t`, `\r`, `\\`, `\$`, `\"`, `\0`, `\x7f`, `\x41`, `\101`, `é`, `世`, `😀`, `%s`, `%`, "`", `{`, `}`, `'`, `0`, `-`, `/`, `#`, `;`}
	var sb strings.Builder
	sb.WriteByte('"')
	n := 1 + r.Intn(40)
	if r.Intn(8) == 0 {
		n = 300 + r.Intn(1500)
	}
	for i := 0; i < n; i++ {
		sb.WriteString(pieces[r.Intn(len(pieces))])
	}
	sb.WriteByte('"')
	return sb.String()
}

func randArrayLit(r *rand.Rand, depth int) string {
	n := 1 + r.Intn(4)
	keyed := r.Intn(2) == 0
	var parts []string
	for i := 0; i < n; i++ {
		var val string
		switch k := r.Intn(6); {
		case k == 0 && depth > 0:
			val = randArrayLit(r, depth-1)
		case k == 1:
			val = randIntLit(r)
		case k == 2:
			val = randStringLit(r)
		case k == 3:
			val = []string{"null", "true", "false"}[r.Intn(3)]
		default:
			val = randFloatLit(r)
		}
		if keyed {
			if r.Intn(2) == 0 {
				parts = append(parts, fmt.Sprintf("'k%d' => %s", i, val))
			} else {
				parts = append(parts, fmt.Sprintf("%d => %s", (i+1)*7+r.Intn(5), val))
			}
		} else {
			parts = append(parts, val)
		}
	}
	return "[" + strings.Join(parts, ", ") + "]"
}

// genLiteralProgram: one seeded program: a handful of random literals, each in the expression
// and the declaration positions (namespaced: it declares classes).
func genLiteralProgram(r *rand.Rand, idx int) string {
	var sb strings.Builder
	fmt.Fprintf(&sb, "<?php\nnamespace L%d;\n", idx)
	var v litval
	switch r.Intn(6) {
	case 0:
		v = litval{"", "int", randIntLit(r)}
	case 1:
		v = litval{"", "string", randStringLit(r)}
	case 2:
		v = litval{"", "array", randArrayLit(r, 2)}
	default:
		v = litval{"", "float", randFloatLit(r)}
	}
	sb.WriteString(litDeclProgram(v))
	sb.WriteString(litExprProgram(v))
	// a few more float literals in plain expression position
	for i := 0; i < 4; i++ {
		f := randFloatLit(r)
		fmt.Fprintf(&sb, "$x%d = %s; echo \"x%d:\", json_encode($x%d), \"|\", json_encode($x%d / 3), \"\\n\";\n", i, f, i, i, i)
	}
	return sb.String()
}
