package main

import (
	"fmt"
	"os"
	"path/filepath"
	"regexp"
	"sort"
	"strings"
	"sync"
	"time"

	"verif/lib"
)

// A pcase is one source file that is translated, built into the batch binary and run both
// compiled and interpreted.
type pcase struct {
	Name     string   // stable identification: unit/<name>, gen/<n>, cls/<n>, corpus/<rel>
	Family   string   // unit | gen | cls | corpus | project
	Rel      string   // path below the batch's src directory
	Src      string   // file content
	Features []string // syntactic feature tags (quarantine)
	NoRun    bool     // support file: translated and registered, never run as an entry
}

// status of a case after the batch pipeline
const (
	stRan        = "ran"
	stParseRej   = "rejected-by-parser"
	stEmitRej    = "rejected-with-compile-error"
	stGoBuild    = "generated-go-does-not-build"
	stCompileDie = "compile-crashed"
	stNotRun     = "not-run"
)

type outcome struct {
	Stdout, Stderr string // normalised
	Exit           int
	Crash          string // Go-level crash site, if any
	TimedOut       bool
	RawStderr      string
}

type result struct {
	C        *pcase
	Status   string
	Detail   string // reject reason / build error
	Comp     outcome
	Interp   outcome
	Unstable bool // the two interpreted runs differed
}

type batch struct {
	e     *lib.Env
	name  string
	dir   string // <scratch>/<name>
	cases []*pcase
	log   []string

	compilePasses int
	buildPasses   int
	compileWall   time.Duration
	buildWall     time.Duration
	nodeTypes     map[string]int
	goBytes       int64
}

func (b *batch) logf(f string, a ...any) { b.log = append(b.log, fmt.Sprintf(f, a...)) }

var (
	reParseFail = regexp.MustCompile(`(?m)^解析失败: 解析 (\S+?\.php) 失败: (.*)$`)
	reEmitFail  = regexp.MustCompile(`(?s)compile error: (\S+?\.php)\n\s*(.*?)\n\s*(.*?)(\n|$)`)
	reGoErr     = regexp.MustCompile(`(?m)^(?:\./)?([A-Za-z0-9_]+\.go):(\d+):(\d+): (.*)$`)
	reFilePath  = regexp.MustCompile(`(?m)^\s*filePath := ("(?:[^"\\]|\\.)*")`)
	reNodeLit   = regexp.MustCompile(`(?:&node\.([A-Z]\w*)\{|node\.New([A-Z]\w*)\()`)
)

// templates fetches the repository's built-in templates through `origami init` and applies
// the two documented changes (DESIGN.md C16). Returns register template and main.go text.
func templates(e *lib.Env) (register, mainGo string, err error) {
	d := filepath.Join(e.Scratch, "tmpl")
	_ = os.MkdirAll(d, 0o755)
	r := lib.RunProc(lib.ProcSpec{Argv: []string{e.Origami(), "init", d, "--template=default", "--force"}, Dir: d, Timeout: 60 * time.Second})
	if r.Exit != 0 {
		return "", "", fmt.Errorf("origami init failed (exit %d): %s", r.Exit, r.Stderr)
	}
	rb, err1 := os.ReadFile(filepath.Join(d, ".zy", "register.go.tmpl"))
	mb, err2 := os.ReadFile(filepath.Join(d, ".zy", "main.go.tmpl"))
	if err1 != nil || err2 != nil {
		return "", "", fmt.Errorf("built-in templates not written by origami init")
	}
	reg := string(rb)
	// change 1: no single EntryPath constant
	i := strings.Index(reg, "{{- if .HasEntry}}\nconst EntryPath")
	j := strings.Index(reg, "{{end}}")
	if i < 0 || j < i {
		return "", "", fmt.Errorf("built-in register template: EntryPath block not found")
	}
	reg = reg[:i] + reg[j+len("{{end}}"):]
	// change 2: every file registered under its own path; its classes registered (with the
	// repository's own registerClasses) when the file is run
	k := strings.Index(reg, "func Register(vm data.VM) {")
	if k < 0 || !strings.Contains(reg, "func registerClasses(vm data.VM, program data.GetValue)") {
		return "", "", fmt.Errorf("built-in register template: Register/registerClasses not found")
	}
	reg = reg[:k] + `func Register(vm data.VM) {
{{- range .Files}}
	vm.RegisterCompiledFile({{printf "%q" .Path}}, func() (data.GetValue, []data.Variable) {
		program, vars := {{.FuncName}}()
		registerClasses(vm, program)
		return program, vars
	})
{{- end}}
}
`
	m := string(mb)
	if !strings.Contains(m, "{{- if .HasEntry}}") || !strings.Contains(m, "RunCompiledFile(EntryPath)") || !strings.Contains(m, "{{- end}}") {
		return "", "", fmt.Errorf("built-in main template: entry block not found")
	}
	m = strings.Replace(m, "{{- if .HasEntry}}", "", 1)
	m = strings.Replace(m, "{{- end}}", "", 1)
	m = strings.Replace(m, "RunCompiledFile(EntryPath)", "RunCompiledFile(os.Args[1])", 1)
	if strings.Contains(m, "{{") {
		return "", "", fmt.Errorf("built-in main template: unexpected template actions left")
	}
	return reg, m, nil
}

func goMod(repo string) string {
	return "module main\n\ngo 1.25.0\n\nrequire github.com/php-any/origami v0.0.0\n\nreplace github.com/php-any/origami => " + repo + "\n"
}

func (b *batch) src() string { return filepath.Join(b.dir, "src") }
func (b *batch) out() string { return filepath.Join(b.dir, "out") }
func (b *batch) app() string { return filepath.Join(b.dir, "app") }

func (b *batch) abs(c *pcase) string { return filepath.Join(b.src(), c.Rel) }

// run executes the whole pipeline for the batch and returns one result per case.
func (b *batch) run(regTmpl, mainGo string) (res []*result, incon string) {
	e := b.e
	// sources, generated Go and the binary are needed only while the batch runs
	defer os.RemoveAll(b.dir)
	byPath := map[string]*result{}
	for _, c := range b.cases {
		r := &result{C: c, Status: stNotRun}
		res = append(res, r)
		p := b.abs(c)
		byPath[p] = r
		_ = os.MkdirAll(filepath.Dir(p), 0o755)
		if err := os.WriteFile(p, []byte(c.Src), 0o644); err != nil {
			return res, "cannot write " + p
		}
	}
	_ = os.MkdirAll(filepath.Join(b.src(), ".zy"), 0o755)
	_ = os.WriteFile(filepath.Join(b.src(), ".zy", "register.go.tmpl"), []byte(regTmpl), 0o644)
	gosum, err := os.ReadFile(filepath.Join(e.Repo, "go.sum"))
	if err != nil {
		return res, "cannot read go.sum of the repository"
	}
	live := func() int {
		n := 0
		for _, r := range res {
			if r.Status == stNotRun {
				n++
			}
		}
		return n
	}
	drop := func(r *result, st, detail string) {
		r.Status, r.Detail = st, detail
		_ = os.Remove(b.abs(r.C))
	}
	env := []string{"GOFLAGS=-mod=mod", "GOPROXY=off"}
	emitPasses := 0

	for pass := 0; ; pass++ {
		if live() == 0 {
			return res, ""
		}
		if pass > len(b.cases)+5 {
			return res, "compile/build loop did not converge"
		}
		// ---- translate
		_ = os.RemoveAll(b.out())
		t0 := time.Now()
		cr := lib.RunProc(lib.ProcSpec{Argv: []string{e.Origami(), "compile", b.src(), "-o", b.out(), "--pkg", "main", "--entry=" + b.src()}, Dir: b.dir, Timeout: 5 * time.Minute, Env: env})
		b.compileWall += time.Since(t0)
		b.compilePasses++
		if cr.TimedOut || cr.Exit != 0 {
			all := cr.Stdout + "\n" + cr.Stderr
			progressed := false
			if crash, _ := lib.GoCrash(cr); !crash && !cr.TimedOut {
				for _, m := range reParseFail.FindAllStringSubmatch(all, -1) {
					if r := byPath[filepath.Clean(m[1])]; r != nil && r.Status == stNotRun {
						drop(r, stParseRej, strip(m[2]))
						progressed = true
					}
				}
				if !progressed {
					if m := reEmitFail.FindStringSubmatch(all); m != nil {
						if r := byPath[filepath.Clean(m[1])]; r != nil && r.Status == stNotRun {
							drop(r, stEmitRej, strings.TrimSpace(m[2])+" :: "+strings.TrimSpace(m[3]))
							progressed = true
							// the translator stops at the first compile error: after the second one,
							// find all remaining rejects at once (every file alone, in parallel)
							if emitPasses++; emitPasses == 2 {
								b.classifySingly(res, drop)
							}
						}
					}
				}
			}
			if !progressed {
				// a crash of the translator, or a failure that names no file: classify every
				// remaining file on its own
				if !b.classifySingly(res, drop) {
					return res, "origami compile fails on the batch but on no single file: " + head(all, 400)
				}
			}
			continue
		}
		// ---- build
		_ = os.WriteFile(filepath.Join(b.out(), "go.mod"), []byte(goMod(e.Repo)), 0o644)
		_ = os.WriteFile(filepath.Join(b.out(), "go.sum"), gosum, 0o644)
		_ = os.WriteFile(filepath.Join(b.out(), "main.go"), []byte(mainGo), 0o644)
		_ = os.Remove(b.app())
		t0 = time.Now()
		br := lib.RunProc(lib.ProcSpec{Argv: []string{"go", "build", "-gcflags=-e", "-o", b.app(), "."}, Dir: b.out(), Timeout: 30 * time.Minute, Env: env})
		b.buildWall += time.Since(t0)
		b.buildPasses++
		if br.TimedOut {
			return res, "go build of the generated package: watchdog fired"
		}
		if br.Exit != 0 {
			bad := map[string]string{}
			for _, m := range reGoErr.FindAllStringSubmatch(br.Stderr+"\n"+br.Stdout, -1) {
				if _, ok := bad[m[1]]; !ok && strings.HasPrefix(m[1], "ast_") {
					bad[m[1]] = m[4]
				}
			}
			progressed := false
			for gf, msg := range bad {
				gb, err := os.ReadFile(filepath.Join(b.out(), gf))
				if err != nil {
					continue
				}
				m := reFilePath.FindSubmatch(gb)
				if m == nil {
					continue
				}
				var p string
				if _, err := fmt.Sscanf(string(m[1]), "%q", &p); err != nil {
					continue
				}
				if r := byPath[filepath.Clean(p)]; r != nil && r.Status == stNotRun {
					drop(r, stGoBuild, msg)
					progressed = true
				}
			}
			if !progressed {
				return res, "go build of the generated package fails outside the generated AST files: " + head(br.Stderr, 600)
			}
			continue
		}
		break
	}
	b.scanGenerated()

	// ---- run compiled and interpreted
	var todo []*result
	for _, r := range res {
		if r.Status == stNotRun && !r.C.NoRun {
			todo = append(todo, r)
		}
	}
	lib.ParallelMap(len(todo), 0, func(i int) {
		r := todo[i]
		p := b.abs(r.C)
		wd := filepath.Dir(p)
		interp := func() outcome { return b.exec([]string{e.Origami(), p}, wd) }
		comp := func() outcome { return b.exec([]string{b.app(), p}, wd) }
		r.Status = stRan
		r.Interp = interp()
		if r.Interp.TimedOut {
			return // undecidable (watchdog): no point in waiting for the other side as well
		}
		r.Comp = comp()
		if r.Comp.TimedOut {
			return
		}
		// The interpreter itself is not deterministic everywhere (Go map order reaches the
		// output of some builtins; C20's business). Every case is interpreted twice, and a
		// disagreement is only reported when five more runs of each side all reproduce it.
		if !sameOutcome(interp(), r.Interp) {
			r.Unstable = true
			return
		}
		if k, _ := compare(r); k != "" {
			for n := 0; n < 5; n++ {
				if !sameOutcome(interp(), r.Interp) || !sameOutcome(comp(), r.Comp) {
					r.Unstable = true
					return
				}
			}
		}
	})
	return res, ""
}

// classifySingly translates every remaining file alone and drops those the translator
// rejects or dies on. Returns whether anything was dropped.
func (b *batch) classifySingly(res []*result, drop func(r *result, st, detail string)) bool {
	var todo []*result
	for _, r := range res {
		if r.Status == stNotRun {
			todo = append(todo, r)
		}
	}
	type verdict struct{ st, detail string }
	vs := make([]verdict, len(todo))
	lib.ParallelMap(len(todo), 0, func(i int) {
		r := todo[i]
		d := filepath.Join(b.dir, fmt.Sprintf("single%d", i))
		sd := filepath.Join(d, "src", filepath.Dir(r.C.Rel))
		_ = os.MkdirAll(sd, 0o755)
		f := filepath.Join(d, "src", r.C.Rel)
		_ = os.WriteFile(f, []byte(r.C.Src), 0o644)
		cr := lib.RunProc(lib.ProcSpec{Argv: []string{b.e.Origami(), "compile", filepath.Join(d, "src"), "-o", filepath.Join(d, "out"), "--pkg", "main", "--entry=" + filepath.Join(d, "src")}, Dir: d, Timeout: 2 * time.Minute})
		_ = os.RemoveAll(d)
		if cr.TimedOut {
			// the parser does not return on this file (C01's business): not accepted
			vs[i] = verdict{stParseRej, "watchdog: the translator did not finish on this file alone"}
			return
		}
		if cr.Exit == 0 {
			return
		}
		all := cr.Stdout + "\n" + cr.Stderr
		if crash, what := lib.GoCrash(cr); crash {
			vs[i] = verdict{stCompileDie, "panic@" + lib.PanicSite(cr.Stderr) + " " + what}
		} else if m := reParseFail.FindStringSubmatch(all); m != nil {
			vs[i] = verdict{stParseRej, strip(m[2])}
		} else if m := reEmitFail.FindStringSubmatch(all); m != nil {
			vs[i] = verdict{stEmitRej, strings.TrimSpace(m[2]) + " :: " + strings.TrimSpace(m[3])}
		} else {
			vs[i] = verdict{stCompileDie, "exit " + fmt.Sprint(cr.Exit) + ": " + head(all, 300)}
		}
	})
	any := false
	for i, v := range vs {
		if v.st != "" {
			drop(todo[i], v.st, v.detail)
			any = true
		}
	}
	return any
}

func (b *batch) scanGenerated() {
	b.nodeTypes = map[string]int{}
	ents, _ := os.ReadDir(b.out())
	for _, ent := range ents {
		if !strings.HasPrefix(ent.Name(), "ast_") {
			continue
		}
		gb, err := os.ReadFile(filepath.Join(b.out(), ent.Name()))
		if err != nil {
			continue
		}
		b.goBytes += int64(len(gb))
		for _, m := range reNodeLit.FindAllSubmatch(gb, -1) {
			n := string(m[1])
			if n == "" {
				n = string(m[2])
			}
			b.nodeTypes[n]++
		}
	}
}

var (
	reStackLine = regexp.MustCompile(`(?m)^(Stack trace:|#\d+ .*|\s+thrown at .*)\n?`)
	rePos       = regexp.MustCompile(`(\.(?:php|zy)):\d+(?::\d+)?`)
	reOnLine    = regexp.MustCompile(`on line \d+`)
	reStamp     = regexp.MustCompile(`\d{4}-\d\d-\d\d \d\d:\d\d:\d\d`)
	rePtr       = regexp.MustCompile(`0x[0-9a-f]{6,}`)
)

// dropGoStacks removes the Go stack that TryStatement appends to the message of a recovered Go
// panic ("...panic(<v>)\nstack: goroutine 1 [running]:\n<frames>"): the frames below the
// script differ between the CLI and a generated binary (LoadAndRun vs RunCompiledFile).
func dropGoStacks(s string) string {
	if !strings.Contains(s, "stack: goroutine ") {
		return s
	}
	lines := strings.Split(s, "\n")
	out := lines[:0:0]
	for i := 0; i < len(lines); i++ {
		if !strings.HasPrefix(lines[i], "stack: goroutine ") {
			out = append(out, lines[i])
			continue
		}
		out = append(out, "stack: <go stack>")
		j := i + 1
		for j < len(lines) {
			l := lines[j]
			if strings.HasPrefix(l, "\t") || (j+1 < len(lines) && strings.HasPrefix(lines[j+1], "\t")) || strings.HasPrefix(l, "goroutine ") {
				j++
				continue
			}
			break
		}
		i = j - 1
	}
	return strings.Join(out, "\n")
}

// normalise removes what the translator does not carry (source positions, stack lines)
// and what no two runs share (wall-clock stamps of the corpus logger, Go addresses).
func normalise(s string) string {
	s = dropGoStacks(s)
	s = reStackLine.ReplaceAllString(s, "")
	s = rePos.ReplaceAllString(s, "$1:POS")
	s = reOnLine.ReplaceAllString(s, "on line N")
	s = reStamp.ReplaceAllString(s, "STAMP")
	s = rePtr.ReplaceAllString(s, "0xPTR")
	return s
}

func (b *batch) exec(argv []string, wd string) outcome {
	r := lib.RunProc(lib.ProcSpec{Argv: argv, Dir: wd, Timeout: 40 * time.Second, Stdin: []byte{}})
	o := outcome{Exit: r.Exit, TimedOut: r.TimedOut, RawStderr: r.Stderr}
	if r.Err != nil {
		o.TimedOut = true // cannot start: undecidable, treated like the watchdog
		return o
	}
	if crash, _ := lib.GoCrash(r); crash {
		o.Crash = "go-crash@" + lib.PanicSite(r.Stderr)
		if strings.Contains(r.Stderr, "goroutine stack exceeds") {
			// runaway recursion: the frame that hits the limit depends on the stack layout
			o.Crash = crashStackOverflow
		}
		if r.Signal != "" {
			o.Crash += " signal " + r.Signal
		}
		o.Stdout = normalise(r.Stdout)
		return o
	}
	o.Stdout = normalise(r.Stdout)
	o.Stderr = normalise(r.Stderr)
	return o
}

func strip(s string) string {
	// parser diagnostics print a Go struct with pointers: keep the trailing message only
	s = rePtr.ReplaceAllString(s, "0xPTR")
	return head(s, 300)
}

func head(s string, n int) string {
	if len(s) > n {
		return s[:n] + "…"
	}
	return s
}

const crashStackOverflow = "go-crash:stack-overflow"

func sameOutcome(a, b outcome) bool {
	if a.Crash == crashStackOverflow && b.Crash == crashStackOverflow {
		return true
	}
	return a.Stdout == b.Stdout && a.Stderr == b.Stderr && a.Exit == b.Exit && a.Crash == b.Crash && a.TimedOut == b.TimedOut
}

// compare returns "" when both sides agree, else the kind of disagreement and a detail.
func compare(r *result) (kind, detail string) {
	c, i := r.Comp, r.Interp
	if c.Crash == crashStackOverflow && i.Crash == crashStackOverflow {
		// runaway recursion on both sides: how much was printed before the Go stack limit was hit
		// depends on the frame sizes of the two binaries; only the common part is comparable
		n := len(c.Stdout)
		if len(i.Stdout) < n {
			n = len(i.Stdout)
		}
		n -= 256 // the tail may be cut inside a token that normalise() rewrites
		if n > 0 && c.Stdout[:n] != i.Stdout[:n] {
			return "stdout", firstDiff(i.Stdout[:n], c.Stdout[:n])
		}
		return "", ""
	}
	switch {
	case c.Crash != i.Crash:
		return "crash", fmt.Sprintf("compiled: %s; interpreted: %s; compiled stderr: %s", orNone(c.Crash), orNone(i.Crash), head(c.RawStderr, 300))
	case c.Stdout != i.Stdout:
		return "stdout", firstDiff(i.Stdout, c.Stdout)
	case c.Exit != i.Exit:
		return "exit", fmt.Sprintf("exit status: interpreted %d, compiled %d; compiled stderr: %s", i.Exit, c.Exit, head(c.Stderr, 300))
	case c.Stderr != i.Stderr:
		return "stderr", firstDiff(i.Stderr, c.Stderr)
	}
	return "", ""
}

func orNone(s string) string {
	if s == "" {
		return "no crash"
	}
	return s
}

func firstDiff(interp, comp string) string {
	il, cl := strings.Split(interp, "\n"), strings.Split(comp, "\n")
	for k := 0; k < len(il) || k < len(cl); k++ {
		a, c := "<end>", "<end>"
		if k < len(il) {
			a = il[k]
		}
		if k < len(cl) {
			c = cl[k]
		}
		if a != c {
			return fmt.Sprintf("line %d: interpreted %q, compiled %q", k+1, head(a, 200), head(c, 200))
		}
	}
	return "outputs differ"
}

// runBatches runs the batches with bounded parallelism (each batch builds a Go binary).
func runBatches(bs []*batch, par int, regTmpl, mainGo string) (all [][]*result, incon []string) {
	all = make([][]*result, len(bs))
	inc := make([]string, len(bs))
	var wg sync.WaitGroup
	sem := make(chan struct{}, par)
	for i := range bs {
		wg.Add(1)
		go func(i int) {
			defer wg.Done()
			sem <- struct{}{}
			defer func() { <-sem }()
			all[i], inc[i] = bs[i].run(regTmpl, mainGo)
		}(i)
	}
	wg.Wait()
	for i, s := range inc {
		if s != "" {
			incon = append(incon, bs[i].name+": "+s)
		}
	}
	return all, incon
}

func sortedKeys(m map[string]int) []string {
	ks := make([]string, 0, len(m))
	for k := range m {
		ks = append(ks, k)
	}
	sort.Strings(ks)
	return ks
}
