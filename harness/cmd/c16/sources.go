package main

import (
	"fmt"
	"os"
	"path/filepath"
	"regexp"
	"sort"
	"strings"

	"verif/gen"
	"verif/lib"
)

// randomCases: seeded programs of the shared typed generator (verif/gen: control flow,
// expressions, functions, exceptions) and of the class/closure generator in clsgen.go.
func randomCases(e *lib.Env, off func(string) bool) []*pcase {
	var out []*pcase
	nGen := e.Pick(130, 2000)
	nCls := e.Pick(100, 2000)
	r := e.Rand("gen")
	for i := 0; i < nGen; i++ {
		exc := r.Intn(2) == 0
		cfg := gen.Config{MaxDepth: 2 + r.Intn(4), Budget: 15 + r.Intn(45), Exceptions: exc, ThrowBias: r.Intn(8), Disabled: off}
		p := gen.Generate(r, cfg)
		src := gen.Source(p)
		// classes only in namespaced files (property quantifier); class-free programs in both forms
		ns := len(p.Classes) > 0 || r.Intn(2) == 0
		if ns {
			src = strings.Replace(src, "<?php\n", fmt.Sprintf("<?php\nnamespace G%d;\n", i), 1)
		}
		var fs []string
		for f := range p.Features {
			fs = append(fs, "gen."+f)
		}
		sort.Strings(fs)
		fs = append(fs, syntacticFeatures(src)...)
		out = append(out, &pcase{Name: fmt.Sprintf("gen/%d", i), Family: "gen", Rel: fmt.Sprintf("gen/g%05d.php", i), Src: src, Features: fs})
	}
	r3 := e.Rand("lit")
	for i := 0; i < e.Pick(60, 800); i++ {
		src := genLiteralProgram(r3, i)
		out = append(out, &pcase{Name: fmt.Sprintf("lit/%d", i), Family: "lit", Rel: fmt.Sprintf("lit/l%05d.php", i), Src: src, Features: append([]string{"literal"}, syntacticFeatures(src)...)})
	}
	r4 := e.Rand("nsr")
	for i := 0; i < e.Pick(50, 600); i++ {
		src := genNameResolutionProgram(r4, i)
		out = append(out, &pcase{Name: fmt.Sprintf("nsr/%d", i), Family: "nsr", Rel: fmt.Sprintf("nsr/n%05d.php", i), Src: src, Features: append([]string{"name-resolution"}, syntacticFeatures(src)...)})
	}
	r2 := e.Rand("cls")
	for i := 0; i < nCls; i++ {
		src, fs := genClassProgram(r2, i, off)
		fs = append(fs, syntacticFeatures(src)...)
		out = append(out, &pcase{Name: fmt.Sprintf("cls/%d", i), Family: "cls", Rel: fmt.Sprintf("cls/c%05d.php", i), Src: src, Features: fs})
	}
	return out
}

// ---------------------------------------------------------------------------------
// corpus

// builtins whose result depends on time, randomness, the process, the network or that
// change the file system: files using them are outside the compared domain
var reCorpusDeny = regexp.MustCompile(`(?i)\b(spawn|sleep|usleep|time|microtime|hrtime|date|gmdate|mktime|strtotime|date_default_timezone_set|rand|mt_rand|random_int|random_bytes|uniqid|shuffle|array_rand|str_shuffle|lcg_value|getenv|putenv|getmypid|gethostname|php_uname|memory_get_usage|memory_get_peak_usage|gc_collect_cycles|spl_object_id|spl_object_hash|fopen|fwrite|fputs|file_put_contents|unlink|mkdir|rmdir|rename|copy|touch|tempnam|tmpfile|sys_get_temp_dir|chmod|curl_init|fsockopen|stream_socket_client|stream_socket_server|socket_create|proc_open|exec|shell_exec|system|passthru|popen|pcntl_fork|pcntl_signal|posix_kill|readline|fgets|fscanf|stream_get_contents|session_start|setcookie|header|http_response_code|set_time_limit|register_shutdown_function|password_hash|crypt|DateTime|DateTimeImmutable|Channel|WaitGroup|Mutex)\s*\(|\$_(SERVER|ENV|COOKIE|SESSION|FILES|REQUEST|GET|POST)\b|\$argv\b|\$argc\b|\bSTDIN\b|\bnew\s+\\?(Net\\|Http\\|Server|Database|DB|PDO|Redis)|\bphp://`)

var (
	reNamespaceDecl = regexp.MustCompile(`(?m)^\s*namespace\s+[A-Za-z_\\][\w\\]*\s*[;{]`)
	reClassDecl     = regexp.MustCompile(`(?m)^\s*(?:abstract\s+|final\s+|readonly\s+)*(class|interface|trait|enum)\s+[A-Za-z_]\w*`)
)

// syntacticFeatures computes, from the source text alone, the feature tags that open
// findings may quarantine. One detector for every family (catalogue units, generated
// programs, corpus files), so that a listed defect switches off exactly the sources that
// contain its construct.
func syntacticFeatures(src string) []string {
	var fs []string
	add := func(f string, re *regexp.Regexp) {
		if re.MatchString(src) {
			fs = append(fs, f)
		}
	}
	decl := reClassDecl.MatchString(src)
	if decl {
		fs = append(fs, "class")
		if !reNamespaceDecl.MatchString(src) {
			fs = append(fs, "toplevel-class")
		}
		if reStaticMember.MatchString(src) {
			fs = append(fs, "static-member")
		}
		if classWithoutOwnConstructor(src) {
			fs = append(fs, "inherited-ctor")
		}
	}
	add("interface", reFInterface)
	add("abstract-method", reFAbstractMethod)
	add("enum", reFEnum)
	add("trait", reFTrait)
	add("closure-use-ref", reFUseRef)
	add("anon-class", reFAnonClass)
	add("generator", reFYield)
	add("include", reFInclude)
	add("float-negzero", reFNegZero)
	add("varvar", reFVarVar)
	add("list-destructuring", reFListDestr)
	add("var-class-const", reFVarClassConst)
	add("dynamic-static", reFDynStatic)
	add("multi-return", reFMultiReturn)
	add("switch", reFSwitch)
	add("closure-return-type", reFClosureRet)
	return fs
}

var (
	reStaticMember    = regexp.MustCompile(`(?m)^\s*(?:(?:public|protected|private|final)\s+)*const\s+\w+\s*=|\bstatic\s+(?:\??[\w\\|]+\s+)?\$\w+`)
	reFInterface      = regexp.MustCompile(`(?m)^\s*interface\s+\w+`)
	reFAbstractMethod = regexp.MustCompile(`\babstract\s+(?:public\s+|protected\s+|static\s+)*function\b`)
	reFEnum           = regexp.MustCompile(`(?m)^\s*enum\s+\w+`)
	reFTrait          = regexp.MustCompile(`(?m)^\s*trait\s+\w+`)
	reFUseRef         = regexp.MustCompile(`\buse\s*\([^)]*&\s*\$`)
	reFAnonClass      = regexp.MustCompile(`\bnew\s+class\b`)
	reFYield          = regexp.MustCompile(`\byield\b`)
	reFInclude        = regexp.MustCompile(`\b(?:include|require)(?:_once)?\b`)
	reFNegZero        = regexp.MustCompile(`-\s*0\.0*\b|-\s*0e`)
	reFVarVar         = regexp.MustCompile(`\$\$\w|\$\{`)
	reFListDestr      = regexp.MustCompile(`(?:^|[;{}(\n])\s*\[[^\[\]=;]*\$\w+[^=;]*\]\s*=[^=>]|\bas\s*\[|\blist\s*\(`)
	reFVarClassConst  = regexp.MustCompile(`\$\w+(?:->\w+)*::class\b`)
	reFDynStatic      = regexp.MustCompile(`\$\w+(?:->\w+)*::\$?[A-Za-z_]`)
	reFMultiReturn    = regexp.MustCompile(`\)\s*:\s*\??[\w\\]+\s*,\s*\??[\w\\]+`)
	reFSwitch         = regexp.MustCompile(`\bswitch\s*\(`)
	reFClosureRet     = regexp.MustCompile(`\bfunction\s*\([^)]*\)\s*(?:use\s*\([^)]*\)\s*)?:\s*\??[\w\\|]+|\bfn\s*\([^)]*\)\s*:\s*\??[\w\\|]+`)
	reClassHead       = regexp.MustCompile(`\bclass\s+\w+\s+extends\s+[\w\\]+[^{;]*\{`)
)

// classWithoutOwnConstructor: some class of the source extends another class and does not
// declare __construct itself (it runs an inherited constructor).
func classWithoutOwnConstructor(src string) bool {
	for _, loc := range reClassHead.FindAllStringIndex(src, -1) {
		depth, end := 1, -1
		for i := loc[1]; i < len(src); i++ {
			if src[i] == '{' {
				depth++
			} else if src[i] == '}' {
				depth--
				if depth == 0 {
					end = i
					break
				}
			}
		}
		if end < 0 {
			end = len(src)
		}
		if !strings.Contains(src[loc[1]:end], "__construct") {
			return true
		}
	}
	return false
}

// corpusCases copies the repository's script corpus (tests/, examples/) below the batch
// source directory, keeping the tree (files include their neighbours), and makes every
// admitted .php file an entry. Files behind the deny-list are still copied and translated
// (NoRun) because other files may include them.
func corpusCases(e *lib.Env) []*pcase {
	var out []*pcase
	for _, top := range []string{"tests", "examples"} {
		root := filepath.Join(e.Repo, top)
		var files []string
		_ = filepath.Walk(root, func(p string, info os.FileInfo, err error) error {
			if err != nil || info.IsDir() {
				return nil
			}
			if strings.HasSuffix(p, ".php") {
				files = append(files, p)
			} else if info.Size() < 1<<20 && !strings.Contains(p, "/.zy/") {
				// data and template files the scripts read or include
				if b, err := os.ReadFile(p); err == nil {
					rel, _ := filepath.Rel(e.Repo, p)
					out = append(out, &pcase{Name: "corpus-data/" + rel, Family: "corpus", Rel: filepath.Join("corpus", rel), Src: string(b), NoRun: true})
				}
			}
			return nil
		})
		sort.Strings(files)
		for _, p := range files {
			b, err := os.ReadFile(p)
			if err != nil {
				continue
			}
			rel, _ := filepath.Rel(e.Repo, p)
			src := string(b)
			c := &pcase{Name: "corpus/" + rel, Family: "corpus", Rel: filepath.Join("corpus", rel), Src: src, Features: syntacticFeatures(src)}
			if reCorpusDeny.MatchString(src) || strings.HasSuffix(rel, "run_tests.php") || len(src) > 200_000 {
				c.NoRun = true
				c.Features = nil
			}
			out = append(out, c)
		}
	}
	// A batch makes every file an entry of its own: a file that relies on a class declared in
	// another corpus file (autoloaded by the interpreter from the source tree) is a
	// multi-file program, which the batch binary does not model. Decided from the sources only.
	declared := map[*pcase]map[string]bool{}
	owners := map[string]int{}
	for _, c := range out {
		if !strings.HasSuffix(c.Rel, ".php") {
			continue
		}
		d := map[string]bool{}
		for _, m := range reDeclName.FindAllStringSubmatch(c.Src, -1) {
			if !d[m[1]] {
				d[m[1]] = true
				owners[m[1]]++
			}
		}
		declared[c] = d
	}
	// All files of a batch are parsed by one VM, which keeps one class per name: two corpus
	// files that declare the same class cannot share a batch. They are left out (not written).
	fq := map[string]int{}
	// (by short name: the parser also resolves an unqualified name to a global class that some
	// other file of the batch happened to declare)
	fqOf := func(c *pcase) []string {
		var names []string
		for n := range declared[c] {
			names = append(names, strings.ToLower(n))
		}
		return names
	}
	for _, c := range out {
		for _, n := range fqOf(c) {
			fq[n]++
		}
	}
	kept := out[:0]
	for _, c := range out {
		dup := false
		for _, n := range fqOf(c) {
			if fq[n] > 1 {
				dup = true
			}
		}
		if dup {
			corpusDuplicateDecl++
			continue
		}
		kept = append(kept, c)
	}
	out = kept
	for _, c := range out {
		if c.NoRun || declared[c] == nil {
			continue
		}
		for _, m := range reClassRef.FindAllStringSubmatch(c.Src, -1) {
			n := m[1]
			if n == "" {
				n = m[2]
			}
			if owners[n] > 0 && !declared[c][n] {
				c.NoRun = true
				c.Features = []string{"needs-class-of-other-file"}
				break
			}
		}
	}
	return out
}

var corpusDuplicateDecl int

var (
	reDeclName = regexp.MustCompile(`(?m)^\s*(?:abstract\s+|final\s+|readonly\s+)*(?:class|interface|trait|enum)\s+([A-Za-z_]\w*)`)
	reClassRef = regexp.MustCompile(`(?:\bnew|\bextends|\bimplements|\binstanceof|\blike|\buse|,|\bcatch\s*\()\s*\\?(?:\w+\\)*([A-Za-z_]\w*)|\\?(?:\w+\\)*\b([A-Za-z_]\w*)::`)
)
