package main

import (
	"fmt"
	"os"
	"path/filepath"
	"regexp"
	"sort"
	"strings"

	"verif/gen"
	"verif/lib"
)

// randomCases: seeded programs of the shared typed generator (verif/gen: control flow,
// expressions, functions, exceptions) and of the class/closure generator in clsgen.go.
func randomCases(e *lib.Env, off func(string) bool) []*pcase {
	var out []*pcase
	nGen := e.Pick(160, 6000)
	nCls := e.Pick(120, 4000)
	r := e.Rand("gen")
	for i := 0; i < nGen; i++ {
		exc := r.Intn(2) == 0
		cfg := gen.Config{MaxDepth: 2 + r.Intn(4), Budget: 15 + r.Intn(45), Exceptions: exc, ThrowBias: r.Intn(8), Disabled: off}
		p := gen.Generate(r, cfg)
		src := gen.Source(p)
		// classes only in namespaced files (property quantifier); class-free programs in both forms
		ns := len(p.Classes) > 0 || r.Intn(2) == 0
		if ns {
			src = strings.Replace(src, "<?php\n", fmt.Sprintf("<?php\nnamespace G%d;\n", i), 1)
		}
		var fs []string
		for f := range p.Features {
			fs = append(fs, "gen."+f)
		}
		sort.Strings(fs)
		if exc {
			fs = append(fs, "exceptions")
		}
		if len(p.Classes) > 0 {
			fs = append(fs, "class")
			for _, c := range p.Classes {
				if c.Interface {
					fs = append(fs, "interface")
					break
				}
			}
		}
		out = append(out, &pcase{Name: fmt.Sprintf("gen/%d", i), Family: "gen", Rel: fmt.Sprintf("gen/g%05d.php", i), Src: src, Features: fs})
	}
	r2 := e.Rand("cls")
	for i := 0; i < nCls; i++ {
		src, fs := genClassProgram(r2, i, off)
		out = append(out, &pcase{Name: fmt.Sprintf("cls/%d", i), Family: "cls", Rel: fmt.Sprintf("cls/c%05d.php", i), Src: src, Features: fs})
	}
	return out
}

// ---------------------------------------------------------------------------------
// corpus

// builtins whose result depends on time, randomness, the process, the network or that
// change the file system: files using them are outside the compared domain
var reCorpusDeny = regexp.MustCompile(`(?i)\b(spawn|sleep|usleep|time|microtime|hrtime|date|gmdate|mktime|strtotime|date_default_timezone_set|rand|mt_rand|random_int|random_bytes|uniqid|shuffle|array_rand|str_shuffle|lcg_value|getenv|putenv|getmypid|gethostname|php_uname|memory_get_usage|memory_get_peak_usage|gc_collect_cycles|spl_object_id|spl_object_hash|fopen|fwrite|fputs|file_put_contents|unlink|mkdir|rmdir|rename|copy|touch|tempnam|tmpfile|sys_get_temp_dir|chmod|curl_init|fsockopen|stream_socket_client|stream_socket_server|socket_create|proc_open|exec|shell_exec|system|passthru|popen|pcntl_fork|pcntl_signal|posix_kill|readline|fgets|fscanf|stream_get_contents|session_start|setcookie|header|http_response_code|set_time_limit|register_shutdown_function|password_hash|crypt|DateTime|DateTimeImmutable|Channel|WaitGroup|Mutex)\s*\(|\$_(SERVER|ENV|COOKIE|SESSION|FILES|REQUEST|GET|POST)\b|\$argv\b|\$argc\b|\bSTDIN\b|\bnew\s+\\?(Net\\|Http\\|Server|Database|DB|PDO|Redis)|\bphp://`)

var (
	reNamespaceDecl = regexp.MustCompile(`(?m)^\s*namespace\s+[A-Za-z_\\][\w\\]*\s*[;{]`)
	reClassDecl     = regexp.MustCompile(`(?m)^\s*(?:abstract\s+|final\s+|readonly\s+)*(class|interface|trait|enum)\s+[A-Za-z_]\w*`)
)

// corpusFeatures computes syntactic feature tags of a corpus file (for quarantine).
func corpusFeatures(src string) []string {
	var fs []string
	has := func(re string) bool { return regexp.MustCompile(re).MatchString(src) }
	decl := reClassDecl.MatchString(src)
	if decl {
		fs = append(fs, "class")
		if !reNamespaceDecl.MatchString(src) {
			fs = append(fs, "toplevel-class")
		}
	}
	if has(`(?m)^\s*interface\s+\w+`) {
		fs = append(fs, "interface")
	}
	if has(`(?m)^\s*(final\s+)?abstract\s+class\s`) {
		fs = append(fs, "abstract-class")
	}
	if has(`\babstract\s+(public\s+|protected\s+|static\s+)*function\b`) {
		fs = append(fs, "abstract")
	}
	if has(`(?m)^\s*enum\s+\w+`) {
		fs = append(fs, "enum")
	}
	if has(`(?m)^\s*trait\s+\w+`) {
		fs = append(fs, "trait")
	}
	if decl && has(`(?m)^\s*(public\s+|protected\s+|private\s+|final\s+)*const\s+\w+\s*=`) {
		fs = append(fs, "class-const")
	}
	if has(`\bstatic\s+(\??[\w\\|]+\s+)?\$\w+`) && decl {
		fs = append(fs, "static-prop")
	}
	if has(`\buse\s*\([^)]*&\s*\$`) {
		fs = append(fs, "closure-use-ref")
	}
	if has(`\bfunction\s*\(|\bfn\s*\(`) {
		fs = append(fs, "closure")
	}
	if has(`\bnew\s+class\b`) {
		fs = append(fs, "anon-class")
	}
	if has(`\byield\b`) {
		fs = append(fs, "generator")
	}
	if has(`\bextends\s+\\?\w*(Exception|Error)\b`) {
		fs = append(fs, "exception-subclass")
	}
	if has(`\b(include|require)(_once)?\b`) {
		fs = append(fs, "include")
	}
	if has(`-0\.0\b`) {
		fs = append(fs, "float-negzero")
	}
	return fs
}

// corpusCases copies the repository's script corpus (tests/, examples/) below the batch
// source directory, keeping the tree (files include their neighbours), and makes every
// admitted .php file an entry. Files behind the deny-list are still copied and translated
// (NoRun) because other files may include them.
func corpusCases(e *lib.Env) []*pcase {
	var out []*pcase
	for _, top := range []string{"tests", "examples"} {
		root := filepath.Join(e.Repo, top)
		var files []string
		_ = filepath.Walk(root, func(p string, info os.FileInfo, err error) error {
			if err != nil || info.IsDir() {
				return nil
			}
			if strings.HasSuffix(p, ".php") {
				files = append(files, p)
			} else if info.Size() < 1<<20 && !strings.Contains(p, "/.zy/") {
				// data and template files the scripts read or include
				if b, err := os.ReadFile(p); err == nil {
					rel, _ := filepath.Rel(e.Repo, p)
					out = append(out, &pcase{Name: "corpus-data/" + rel, Family: "corpus", Rel: filepath.Join("corpus", rel), Src: string(b), NoRun: true})
				}
			}
			return nil
		})
		sort.Strings(files)
		for _, p := range files {
			b, err := os.ReadFile(p)
			if err != nil {
				continue
			}
			rel, _ := filepath.Rel(e.Repo, p)
			src := string(b)
			c := &pcase{Name: "corpus/" + rel, Family: "corpus", Rel: filepath.Join("corpus", rel), Src: src, Features: corpusFeatures(src)}
			if reCorpusDeny.MatchString(src) || strings.HasSuffix(rel, "run_tests.php") || len(src) > 200_000 {
				c.NoRun = true
				c.Features = nil
			}
			out = append(out, c)
		}
	}
	// A batch makes every file an entry of its own: a file that relies on a class declared in
	// another corpus file (autoloaded by the interpreter from the source tree) is a
	// multi-file program, which the batch binary does not model. Decided from the sources only.
	declared := map[*pcase]map[string]bool{}
	owners := map[string]int{}
	for _, c := range out {
		if !strings.HasSuffix(c.Rel, ".php") {
			continue
		}
		d := map[string]bool{}
		for _, m := range reDeclName.FindAllStringSubmatch(c.Src, -1) {
			if !d[m[1]] {
				d[m[1]] = true
				owners[m[1]]++
			}
		}
		declared[c] = d
	}
	for _, c := range out {
		if c.NoRun || declared[c] == nil {
			continue
		}
		for _, m := range reClassRef.FindAllStringSubmatch(c.Src, -1) {
			n := m[1]
			if n == "" {
				n = m[2]
			}
			if owners[n] > 0 && !declared[c][n] {
				c.NoRun = true
				c.Features = []string{"needs-class-of-other-file"}
				break
			}
		}
	}
	return out
}

var (
	reDeclName = regexp.MustCompile(`(?m)^\s*(?:abstract\s+|final\s+|readonly\s+)*(?:class|interface|trait|enum)\s+([A-Za-z_]\w*)`)
	reClassRef = regexp.MustCompile(`(?:\bnew|\bextends|\bimplements|\binstanceof|\buse|,)\s+\\?(?:\w+\\)*([A-Za-z_]\w*)|\\?(?:\w+\\)*\b([A-Za-z_]\w*)::`)
)
