package main

import (
	"fmt"
	"strings"
)

// By-reference family and "Later node" family.
//
// Compiled code never contains the nodes the parser builds for something it could resolve while
// parsing (CallExpression bound to a built-in, CallStaticProperty / CallStaticMethod on a class
// that is already declared, NewExpression with a resolved class): the translator writes the
// run-time-resolving twins (NewCallTodo -> CallLater, CallStaticPropertyLater,
// CallStaticMethodLater, NewExpression by name). Every position in which the interpreter
// dispatches on the concrete node type is therefore a compiled-only path for the twin. The units
// below put each twin into every operand position the direct node supports, and pass every kind
// of lvalue to every kind of by-reference binding, each time writing through and printing both
// sides. Each step is wrapped in try/catch so that one failing position does not hide the next;
// only compiled = interpreted is asserted.

func step(sb *strings.Builder, label, code string) {
	fmt.Fprintf(sb, "try { echo \"%s:\"; %s echo \"\\n\"; } catch (\\Throwable $e) { echo \"ERR(\", em($e), \")\\n\"; }\n", label, code)
}

// emHelper: the message of a throwable up to ", fn:" — what follows there is a rendering of the
// callee node, which is the subject of the unit later.error.messages alone.
const emHelper = `function em($e) { $m = $e->getMessage(); $p = strpos($m, ", fn:"); if ($p === false) { return $m; } return substr($m, 0, $p); }
`

// stepFull prints the whole message.
func stepFull(sb *strings.Builder, label, code string) {
	fmt.Fprintf(sb, "try { echo \"%s:\"; %s echo \"\\n\"; } catch (\\Throwable $e) { echo \"ERR(\", $e->getMessage(), \")\\n\"; }\n", label, code)
}

func stepsFull(pairs ...string) string {
	var sb strings.Builder
	for i := 0; i+1 < len(pairs); i += 2 {
		stepFull(&sb, pairs[i], pairs[i+1])
	}
	return sb.String()
}

// byrefDecls: classes used by the by-reference units. Store is declared before every use, so the
// interpreter's parser builds the direct static nodes.
const byrefDecls = emHelper + `class Store { public static $n = 3; public static $list = [7, 2, 9]; public static $map = ['k' => [1, 2], 'j' => 5]; public static $obj = null; }
class Inner { public $p = 4; public $arr = [1, 2]; }
class Holder { public $p = 1; public $list = [5, 6]; public $in; function __construct() { $this->in = new Inner(); } }
`

// callee kinds: name -> (declaration, call template with %s = argument)
type byrefCallee struct {
	name, decl, callInt, callArr string
}

var byrefCallees = []byrefCallee{
	{"function", `function addTen(&$x) { $x = $x + 10; return $x; }
function pushOne(array &$a) { $a[] = 1; return count($a); }
`, `addTen(%s)`, `pushOne(%s)`},
	{"closure", `$addTen = function (&$x) { $x = $x + 10; return $x; };
$pushOne = function (array &$a) { $a[] = 1; return count($a); };
`, `$addTen(%s)`, `$pushOne(%s)`},
	{"arrowless.closure.in.array", `$ops = ['add' => function (&$x) { $x = $x + 10; return $x; }, 'push' => function (array &$a) { $a[] = 1; return count($a); }];
`, `$ops['add'](%s)`, `$ops['push'](%s)`},
	{"method", `class Ops { function addTen(&$x) { $x = $x + 10; return $x; } function pushOne(array &$a) { $a[] = 1; return count($a); } }
$ops = new Ops();
`, `$ops->addTen(%s)`, `$ops->pushOne(%s)`},
	{"static.method", `class Ops { static function addTen(&$x) { $x = $x + 10; return $x; } static function pushOne(array &$a) { $a[] = 1; return count($a); } }
`, `Ops::addTen(%s)`, `Ops::pushOne(%s)`},
	{"constructor", `class Ops { public $r; function __construct(&$x, $arr = false) { if ($arr) { $x[] = 1; $this->r = count($x); } else { $x = $x + 10; $this->r = $x; } } }
`, `(new Ops(%s))->r`, `(new Ops(%s, true))->r`},
	{"second.position", `function addTen($by, &$x) { $x = $x + $by; return $x; }
function pushOne($v, array &$a) { $a[] = $v; return count($a); }
`, `addTen(10, %s)`, `pushOne(1, %s)`},
	{"static.method.second.position", `class Ops { static function addTen($by, &$x, $unused = null) { $x = $x + $by; return $x; } static function pushOne($v, array &$a) { $a[] = $v; return count($a); } }
`, `Ops::addTen(10, %s)`, `Ops::pushOne(1, %s)`},
}

// lvalues usable at top level of the program
var byrefLvalsInt = []struct{ tag, lv string }{
	{"local", `$loc`},
	{"property", `$h->p`},
	{"property.of.property", `$h->in->p`},
	{"array.element", `$arr[1]`},
	{"nested.element", `$nest['k'][0]`},
	{"keyed.element", `$nest['j']`},
	{"static.property", `Store::$n`},
	{"static.property.element", `Store::$list[0]`},
	{"static.property.nested", `Store::$map['k'][1]`},
	{"static.object.property", `Store::$obj->p`},
}

var byrefLvalsArr = []struct{ tag, lv string }{
	{"local", `$arr`},
	{"property", `$h->list`},
	{"property.of.property", `$h->in->arr`},
	{"nested.element", `$nest['k']`},
	{"static.property", `Store::$list`},
	{"static.property.element", `Store::$map['k']`},
	{"static.object.property", `Store::$obj->arr`},
}

const byrefSetup = `$loc = 1; $arr = [1, 2, 3]; $nest = ['k' => [1, 2], 'j' => 5]; $h = new Holder(); Store::$obj = new Inner();
`

func byrefCalleeUnit(c byrefCallee) unit {
	var sb strings.Builder
	sb.WriteString(byrefDecls)
	sb.WriteString(c.decl)
	sb.WriteString(byrefSetup)
	for _, l := range byrefLvalsInt {
		step(&sb, "int."+l.tag, fmt.Sprintf(`echo %s, "|", json_encode(%s);`, fmt.Sprintf(c.callInt, l.lv), l.lv))
	}
	for _, l := range byrefLvalsArr {
		step(&sb, "arr."+l.tag, fmt.Sprintf(`echo %s, "|", json_encode(%s);`, fmt.Sprintf(c.callArr, l.lv), l.lv))
	}
	sb.WriteString(`echo json_encode([$loc, $arr, $nest, $h->p, $h->list, $h->in->p, $h->in->arr, Store::$n, Store::$list, Store::$map, Store::$obj->p, Store::$obj->arr]), "\n";` + "\n")
	return unit{name: "byref.arg." + c.name, classy: true, feats: "by-reference", src: sb.String()}
}

// byrefInsideClassUnit: call sites inside methods: self::/static::/$this lvalues, static locals, globals
func byrefInsideClassUnit(c byrefCallee) unit {
	var sb strings.Builder
	sb.WriteString(byrefDecls)
	decl := c.decl
	// closures declared at top level are not visible in the method: declare them inside
	local := ""
	if strings.HasPrefix(decl, "$") {
		local, decl = decl, ""
	}
	sb.WriteString(decl)
	sb.WriteString(`$glob = 100;
function viaGlobal() { global $glob; ` + local + `static $st = 50; $out = ""; `)
	for _, lv := range []string{"$glob", "$st"} {
		fmt.Fprintf(&sb, `try { $out .= %s . "|"; } catch (\Throwable $e) { $out .= "ERR(" . em($e) . ")|"; } `, fmt.Sprintf(c.callInt, lv))
	}
	sb.WriteString(`return $out . $glob . "|" . $st; }
echo "fn:", viaGlobal(), "\n", "fn-again:", viaGlobal(), "\n", "glob:", $glob, "\n";
class Site extends Store {
  public $mine = 20; public $items = [1]; public static $own = 30; public static $ownList = [4];
  function run() { ` + local + `$out = "";
`)
	for _, lv := range []string{"$this->mine", "self::$own", "static::$own", "self::$n", "parent::$n", "Store::$n", "Site::$own", "$this->items[0]"} {
		fmt.Fprintf(&sb, `    try { $out .= "%s=" . %s . ";"; } catch (\Throwable $e) { $out .= "%s=ERR(" . em($e) . ");"; }`+"\n", strings.ReplaceAll(lv, "$", ""), fmt.Sprintf(c.callInt, lv), strings.ReplaceAll(lv, "$", ""))
	}
	for _, lv := range []string{"$this->items", "self::$ownList", "static::$ownList", "self::$list", "Store::$list"} {
		fmt.Fprintf(&sb, `    try { $out .= "%s=" . %s . ";"; } catch (\Throwable $e) { $out .= "%s=ERR(" . em($e) . ");"; }`+"\n", strings.ReplaceAll(lv, "$", ""), fmt.Sprintf(c.callArr, lv), strings.ReplaceAll(lv, "$", ""))
	}
	sb.WriteString(`    return $out . json_encode([$this->mine, $this->items, self::$own, self::$ownList, Store::$n, Store::$list]);
  }
  static function srun() { ` + local + `$out = "";
`)
	for _, lv := range []string{"self::$own", "static::$own", "Store::$n"} {
		fmt.Fprintf(&sb, `    try { $out .= "%s=" . %s . ";"; } catch (\Throwable $e) { $out .= "%s=ERR(" . em($e) . ");"; }`+"\n", strings.ReplaceAll(lv, "$", ""), fmt.Sprintf(c.callInt, lv), strings.ReplaceAll(lv, "$", ""))
	}
	sb.WriteString(`    return $out . json_encode([self::$own, Store::$n]);
  }
}
echo "method:", (new Site)->run(), "\n", "static:", Site::srun(), "\n";
`)
	return unit{name: "byref.inside." + c.name, classy: true, feats: "by-reference", src: sb.String()}
}

func byrefUnits() []unit {
	var out []unit
	for _, c := range byrefCallees {
		out = append(out, byrefCalleeUnit(c))
	}
	for _, c := range byrefCallees {
		if c.name == "method" || strings.Contains(c.name, "in.array") {
			continue
		}
		out = append(out, byrefInsideClassUnit(c))
	}
	out = append(out, byrefFixedUnits...)
	for i := range out {
		out[i].classy = true
		if out[i].feats == "" {
			out[i].feats = "by-reference"
		}
	}
	return out
}

func steps(pairs ...string) string {
	var sb strings.Builder
	for i := 0; i+1 < len(pairs); i += 2 {
		step(&sb, pairs[i], pairs[i+1])
	}
	return sb.String()
}

var byrefFixedUnits = []unit{
	{name: "byref.named.and.builtin", src: byrefDecls + `function addTen(&$x, $by = 10) { $x = $x + $by; return $x; }
class Ops { static function addTen(&$x, $by = 10) { $x = $x + $by; return $x; } function inst(&$x, $by = 10) { $x = $x + $by; return $x; } }
` + byrefSetup + steps(
		"named.fn.local", `echo addTen(x: $loc), "|", $loc;`,
		"named.fn.static", `echo addTen(x: Store::$n, by: 2), "|", Store::$n;`,
		"named.static.static", `echo Ops::addTen(by: 3, x: Store::$n), "|", Store::$n;`,
		"named.method.static", `echo (new Ops)->inst(x: Store::$n), "|", Store::$n;`,
		"named.method.prop", `echo (new Ops)->inst(x: $h->p), "|", $h->p;`,
		"sort.static", `sort(Store::$list); echo json_encode(Store::$list);`,
		"sort.prop", `$h->list = [3, 1, 2]; sort($h->list); echo json_encode($h->list);`,
		"sort.nested", `$nest['k'] = [9, 8]; sort($nest['k']); echo json_encode($nest);`,
		"push.static", `echo array_push(Store::$list, 11), "|", json_encode(Store::$list);`,
		"push.prop", `echo array_push($h->list, 11), "|", json_encode($h->list);`,
		"pop.static", `echo array_pop(Store::$list), "|", json_encode(Store::$list);`,
		"shift.static.nested", `echo array_shift(Store::$map['k']), "|", json_encode(Store::$map);`,
		"unshift.prop.of.prop", `echo array_unshift($h->in->arr, 0), "|", json_encode($h->in->arr);`,
		"preg.match.local", `echo preg_match('/(\d+)/', "ab12", $m), "|", json_encode($m);`,
		"preg.match.static", `echo preg_match('/(\d+)/', "ab34", Store::$obj->arr), "|", json_encode(Store::$obj->arr);`,
		"usort.static", `usort(Store::$list, function ($a, $b) { return $b <=> $a; }); echo json_encode(Store::$list);`,
		"callable.string", `echo call_user_func_array('sort', [&$arr]) ? "T" : "F", "|", json_encode($arr);`,
	)},
	{name: "byref.return", src: byrefDecls + `function &firstOf(array &$a) { return $a[0]; }
function &counter() { static $c = 0; $c++; return $c; }
class Reg { private $items = ['a' => 1]; public static $shared = ['s' => 1]; function &item($k) { return $this->items[$k]; } static function &shared() { return self::$shared; } function dump() { return json_encode($this->items); } }
` + byrefSetup + steps(
		"ref.return.fn", `$r = &firstOf($arr); $r = 99; echo json_encode($arr);`,
		"ref.return.fn.static.arg", `$q = &firstOf(Store::$list); $q = 77; echo json_encode(Store::$list);`,
		"ref.return.static.local", `$c = &counter(); $c = $c + 100; echo counter();`,
		"ref.return.method", `$g = new Reg(); $i = &$g->item('a'); $i = 5; echo $g->dump();`,
		"ref.return.static.method", `$s = &Reg::shared(); $s['t'] = 2; echo json_encode(Reg::$shared);`,
		"value.of.ref.return", `$v = firstOf($arr); $v = 1; echo json_encode($arr);`,
		"ref.return.builtin", `try { $z = &strtoupper("x"); echo $z; } catch (\Throwable $e2) { echo "ERR2(", $e2->getMessage(), ")"; }`,
	)},
	{name: "byref.assign", src: byrefDecls + byrefSetup + steps(
		"local", `$b = &$loc; $b = 5; echo $loc, "|"; $loc = 6; echo $b;`,
		"element", `$r = &$arr[1]; $r = 20; echo json_encode($arr);`,
		"nested", `$n = &$nest['k'][1]; $n = 21; echo json_encode($nest);`,
		"new.element", `$ne = &$nest['new']['x']; $ne = 1; echo json_encode($nest);`,
		"property", `$p = &$h->p; $p = 22; echo $h->p;`,
		"property.of.property", `$pp = &$h->in->p; $pp = 23; echo $h->in->p;`,
		"property.array", `$pl = &$h->list; $pl[] = 24; echo json_encode($h->list);`,
		"static.property", `$s = &Store::$n; $s = 25; echo Store::$n;`,
		"static.property.element", `$se = &Store::$list[1]; $se = 26; echo json_encode(Store::$list);`,
		"static.property.array", `$sl = &Store::$list; $sl[] = 27; echo json_encode(Store::$list);`,
		"static.object.property", `$so = &Store::$obj->p; $so = 28; echo Store::$obj->p;`,
		"array.of.refs", `$x1 = 1; $x2 = 2; $refs = [&$x1, &$x2]; $refs[0] = 10; $refs[1]++; echo $x1, "|", $x2;`,
		"keyed.array.of.refs", `$y1 = 1; $kr = ['a' => &$y1, 'b' => &Store::$n]; $kr['a'] = 11; $kr['b'] = 12; echo $y1, "|", Store::$n;`,
		"unset.ref", `$u = 1; $ur = &$u; unset($ur); $ur = 9; echo $u;`,
		"copy.of.array.with.ref", `$orig = [1, 2]; $ro = &$orig[0]; $copy = $orig; $copy[0] = 50; echo json_encode($orig);`,
	) + `function viaGlobalRef() { global $loc; $g = &$loc; $g = 70; static $st = 1; $sr = &$st; $sr++; return $st; }
echo viaGlobalRef(), viaGlobalRef(), "|", $loc, "\n";
class Site extends Store { public $mine = 1; public static $own = 2; function run() { $out = "";
  try { $b = &self::$own; $b = 32; $out .= "self-ok;"; } catch (\Throwable $e) { $out .= "self=ERR(" . em($e) . ");"; }
  try { $c = &static::$own; $c++; $out .= "static-ok;"; } catch (\Throwable $e) { $out .= "static=ERR(" . em($e) . ");"; }
  try { $f = &Store::$list; $f[] = 35; $out .= "named-ok;"; } catch (\Throwable $e) { $out .= "named=ERR(" . em($e) . ");"; }
  return $out . json_encode([$this->mine, self::$own, Store::$n, Store::$list]); } }
echo (new Site)->run(), "\n";
`},
	{name: "byref.assign.this.property", src: `class Site { public $mine = 1; public $list = [1]; function run() { $a = &$this->mine; $a = 31; $l = &$this->list; $l[] = 2; return json_encode([$this->mine, $this->list]); } }
echo "before\n";
echo (new Site)->run(), "\n";
`},
	{name: "byref.closure.use", src: byrefDecls + byrefSetup + steps(
		"local", `$f = function ($v) use (&$loc) { $loc += $v; return $loc; }; echo $f(1), $f(2), "|", $loc;`,
		"array", `$g = function ($v) use (&$arr) { $arr[] = $v; return count($arr); }; echo $g(4), "|", json_encode($arr);`,
		"two", `$t = 0; $log = []; $k = function ($v) use (&$t, &$log, $loc) { $t += $v; $log[] = $t + $loc; }; $k(1); $k(2); echo $t, "|", json_encode($log);`,
		"nested", `$cnt = 0; $outer = function () use (&$cnt) { $inner = function () use (&$cnt) { $cnt++; }; $inner(); $inner(); return $cnt; }; echo $outer(), "|", $cnt;`,
		"changed.after", `$late = 1; $h2 = function () use (&$late) { return $late; }; $late = 2; echo $h2();`,
		"byref.param.and.use", `$acc = 0; $both = function (&$x) use (&$acc) { $x++; $acc += $x; }; $z = 5; $both($z); $both($z); echo $z, "|", $acc;`,
		"use.ref.to.static", `$both2 = function (&$x) { $x .= "!"; return $x; }; Store::$n = "s"; echo $both2(Store::$n), "|", Store::$n;`,
		"recursive", `$fact = function ($n) use (&$fact) { return $n <= 1 ? 1 : $n * $fact($n - 1); }; echo $fact(5);`,
		"as.callback", `$sum = 0; array_map(function ($v) use (&$sum) { $sum += $v; }, [1, 2, 3]); echo $sum;`,
	) + `class Cl { public $v = 1; function mk() { $n = 0; return function () use (&$n) { $n++; $this->v += $n; return $n . ":" . $this->v; }; } }
$m = (new Cl)->mk(); echo $m(), "|", $m(), "\n";
function factory() { $c = 0; return [function () use (&$c) { return ++$c; }, function () use (&$c) { return $c * 10; }]; }
[$inc, $get] = factory(); $inc(); $inc(); echo $get(), "\n";
`},
	{name: "byref.foreach", src: byrefDecls + byrefSetup + steps(
		"local", `foreach ($arr as &$v) { $v = $v * 2; } unset($v); echo json_encode($arr);`,
		"with.key", `$m = ['a' => 1, 'b' => 2]; foreach ($m as $k => &$v2) { $v2 = $k . $v2; } unset($v2); echo json_encode($m);`,
		"property", `foreach ($h->list as &$pv) { $pv++; } unset($pv); echo json_encode($h->list);`,
		"property.of.property", `foreach ($h->in->arr as &$ppv) { $ppv += 10; } unset($ppv); echo json_encode($h->in->arr);`,
		"static.property", `foreach (Store::$list as &$sv) { $sv = $sv + 100; } unset($sv); echo json_encode(Store::$list);`,
		"static.nested", `foreach (Store::$map['k'] as &$nv) { $nv = -$nv; } unset($nv); echo json_encode(Store::$map);`,
		"nested.element", `foreach ($nest['k'] as &$ne) { $ne = $ne * 3; } unset($ne); echo json_encode($nest);`,
		"nested.loops", `$grid = [[1, 2], [3, 4]]; foreach ($grid as &$row) { foreach ($row as &$cell) { $cell = $cell * 10; } unset($cell); } unset($row); echo json_encode($grid);`,
		"byvalue.control", `foreach ($arr as $cv) { $cv = 0; } echo json_encode($arr);`,
		"stale.reference", `$sa = [1, 2, 3]; foreach ($sa as &$sr) {} foreach ($sa as $sr) {} echo json_encode($sa);`,
		"append.inside", `$ai = [1, 2]; foreach ($ai as &$av) { if ($av == 1) { $ai[] = 3; } $av = $av * 2; } unset($av); echo json_encode($ai);`,
	) + `class It extends Store { public $rows = [1, 2]; public static $srows = [3, 4]; function run() { foreach ($this->rows as &$r) { $r = $r + 1; } unset($r); foreach (self::$srows as &$s) { $s = $s + 1; } unset($s); foreach (static::$srows as $k => &$t) { $t = $t * 2; } unset($t); foreach (Store::$list as &$p) { $p = 0; } unset($p); return json_encode([$this->rows, self::$srows, Store::$list]); } }
echo (new It)->run(), "\n";
`},
}

// ---------------------------------------------------------------------------------
// Later nodes as operands

const laterDecls = emHelper + `class Other { const K = 5; const ARR = [1, 2, 3]; const NAME = "other"; public static $n = 10; public static $s = "str"; public static $f = 1.5; public static $list = [3, 1, 2]; public static $map = ['a' => ['b' => 1]]; public static $obj = null; public static $fn = null; public static $nul = null;
  static function make($v = 1) { $o = new Other(); $o->v = $v; return $o; } static function num() { return 4; } static function arr() { return [10, 20, ['x' => 30]]; } static function str() { return "made"; } static function none() { return null; } static function &refList() { return self::$list; } static function sum(...$xs) { $t = 0; foreach ($xs as $x) { $t += $x; } return $t; } static function named($a, $b = 2, $c = 3) { return "$a-$b-$c"; }
  public $v = 0; public $items = [1, 2]; function get() { return $this->v; } function self2() { return $this; } function __toString() { return "Other#" . $this->v; } }
class Sub extends Other { const K = 6; public static $n = 20; static function make($v = 1) { $o = new Sub(); $o->v = $v + 100; return $o; } }
Other::$obj = new Other(); Other::$obj->v = 7; Other::$fn = function ($x) { return $x * 2; };
`

var laterUnits = []unit{
	{name: "later.static.property.read.positions", src: laterDecls + steps(
		"plain", `echo Other::$n, "|", Other::$s, "|", Other::$f, "|", json_encode(Other::$list), "|", Sub::$n;`,
		"arith", `echo Other::$n + 1, "|", 1 + Other::$n, "|", Other::$n - Other::$n, "|", Other::$n * Other::$f, "|", Other::$n / 4, "|", Other::$n % 3, "|", Other::$n ** 2, "|", -Other::$n;`,
		"compare", `echo Other::$n == 10 ? "T" : "F", Other::$n === 10 ? "T" : "F", Other::$n != Sub::$n ? "T" : "F", Other::$n !== "10" ? "T" : "F", Other::$n < Sub::$n ? "T" : "F", Other::$n >= 10 ? "T" : "F", Other::$n <=> Sub::$n;`,
		"logic", `echo (Other::$n && Other::$nul) ? "T" : "F", (Other::$nul || Other::$n) ? "T" : "F", !Other::$nul ? "T" : "F", Other::$n & 6, Other::$n | 1, Other::$n ^ 3, Other::$n << 1, Other::$n >> 1, ~Other::$n;`,
		"concat", `echo Other::$s . "x" . Other::$n . Other::$s, "|", "pre" . Other::$f;`,
		"ternary", `echo Other::$n ? "yes" : "no", "|", Other::$nul ? "yes" : "no", "|", Other::$n > 5 ? Other::$s : Other::$f, "|", Other::$nul ?: "elvis", "|", Other::$n ?: "elvis";`,
		"coalesce", `echo Other::$nul ?? "dflt", "|", Other::$n ?? "dflt", "|", Other::$map['a']['zz'] ?? "deep", "|", Other::$map['a']['b'] ?? "deep";`,
		"index", `echo Other::$list[0], Other::$list[2], "|", Other::$map['a']['b'], "|", Other::$s[1], "|", Other::$list[Other::$n - 9];`,
		"as.index", `$a = [10 => "ten", "str" => "es"]; echo $a[Other::$n], "|", $a[Other::$s];`,
		"object", `echo Other::$obj->v, "|", Other::$obj->get(), "|", Other::$obj->self2()->v, "|", Other::$obj->items[1], "|", Other::$obj, "|", Other::$obj instanceof Other ? "T" : "F", "|", get_class(Other::$obj);`,
		"callable", `echo (Other::$fn)(4), "|", call_user_func(Other::$fn, 5), "|", implode(",", array_map(Other::$fn, [1, 2]));`,
		"argument", `echo strlen(Other::$s), "|", count(Other::$list), "|", max(Other::$n, Sub::$n), "|", implode(",", Other::$list), "|", Other::sum(Other::$n, Sub::$n), "|", Other::named(Other::$n, c: Other::$s);`,
		"spread", `echo Other::sum(...Other::$list), "|", json_encode([...Other::$list, 9]), "|", max(...Other::$list);`,
		"array.literal", `echo json_encode([Other::$n, Other::$s, [Other::$f]]), json_encode(['k' => Other::$s, Other::$n => "at-key", Other::$s => Other::$n]);`,
		"foreach.source", `foreach (Other::$list as $k => $v) { echo $k, "=", $v, ","; } foreach (Other::$map as $k => $v) { echo $k, json_encode($v); }`,
		"conditions", `if (Other::$n) { echo "if"; } while (Other::$nul) { echo "never"; } for ($i = 0; $i < Other::$n - 8; $i++) { echo $i; } do { echo "do"; } while (Other::$nul);`,
		"match.switch", `echo match(Other::$n) { 10 => "ten", default => "?" }, match(true) { Other::$n > 5 => "gt", default => "le" }; switch (Other::$s) { case "str": echo "case-str"; break; default: echo "dflt"; } switch (10) { case Other::$n: echo "label-hit"; break; default: echo "label-miss"; }`,
		"isset.empty", `echo isset(Other::$n) ? "T" : "F", isset(Other::$nul) ? "T" : "F", isset(Other::$list[1]) ? "T" : "F", isset(Other::$list[9]) ? "T" : "F", isset(Other::$map['a']['b']) ? "T" : "F", isset(Other::$obj->v) ? "T" : "F", empty(Other::$nul) ? "T" : "F", empty(Other::$list) ? "T" : "F";`,
		"cast.clone", `echo (string)Other::$n . "s", "|", (int)Other::$f, "|", (bool)Other::$nul ? "T" : "F", "|", count((array)Other::$s); $c = clone Other::$obj; $c->v = 99; echo "|", Other::$obj->v;`,
		"return.closure", `$g = function () { return Other::$n; }; $a2 = fn() => Other::$n + Sub::$n; function rr() { return Other::$list; } echo $g(), "|", $a2(), "|", json_encode(rr());`,
		"interp.var", `$n = Other::$n; echo "v=$n {$n}";`,
		"default.param", `function dp($x = Other::K, $y = Other::ARR) { return $x . json_encode($y); } echo dp();`,
	)},
	{name: "later.static.property.write.positions", src: laterDecls + steps(
		"assign", `Other::$n = 11; echo Other::$n; $r = (Other::$n = 12); echo "|", $r, "|", Other::$n;`,
		"compound", `Other::$n += 5; echo Other::$n, "|"; Other::$n -= 2; echo Other::$n, "|"; Other::$n *= 2; echo Other::$n, "|"; Other::$n /= 3; echo Other::$n, "|"; Other::$n %= 4; echo Other::$n, "|"; Other::$n **= 3; echo Other::$n;`,
		"compound.bits", `Other::$n = 12; Other::$n &= 10; echo Other::$n, "|"; Other::$n |= 1; echo Other::$n, "|"; Other::$n ^= 3; echo Other::$n, "|"; Other::$n <<= 2; echo Other::$n, "|"; Other::$n >>= 1; echo Other::$n;`,
		"concat.assign", `Other::$s .= "+x"; echo Other::$s; Other::$s .= Other::$s; echo "|", Other::$s;`,
		"coalesce.assign", `Other::$nul ??= "set"; echo Other::$nul; Other::$nul ??= "again"; echo "|", Other::$nul;`,
		"incdec", `Other::$n = 5; Other::$n++; echo Other::$n, "|"; ++Other::$n; echo Other::$n, "|"; Other::$n--; --Other::$n; echo Other::$n, "|"; $a = Other::$n++; $b = ++Other::$n; echo $a, $b, Other::$n;`,
		"append", `Other::$list[] = 4; echo json_encode(Other::$list); Other::$list[] = Other::$n; echo "|", count(Other::$list);`,
		"element", `Other::$list[0] = 30; Other::$list[1] += 5; Other::$list[2]++; Other::$list[7] = "gap"; echo json_encode(Other::$list);`,
		"nested", `Other::$map['a']['b'] = 2; Other::$map['a']['c'][] = 3; Other::$map['new']['x'] = 4; Other::$map['a']['b'] .= "s"; echo json_encode(Other::$map);`,
		"unset", `unset(Other::$list[0]); unset(Other::$map['a']['b']); echo json_encode(Other::$list), json_encode(Other::$map);`,
		"object.member", `Other::$obj->v = 70; Other::$obj->v += 1; Other::$obj->items[] = 3; Other::$obj->dyn = "d"; echo Other::$obj->v, json_encode(Other::$obj->items), Other::$obj->dyn;`,
		"destructure", `[Other::$n, Other::$s] = [1, "ds"]; echo Other::$n, Other::$s;`,
		"swap", `$t = Other::$n; Other::$n = Sub::$n; Sub::$n = $t; echo Other::$n, "|", Sub::$n;`,
		"chain", `Other::$n = Sub::$n = 3; echo Other::$n, Sub::$n; $q = Other::$f = 2.5; echo "|", $q;`,
		"from.closure", `$w = function ($v) { Other::$n = $v; Other::$list[] = $v; }; $w(8); echo Other::$n, json_encode(Other::$list);`,
		"typed.object", `Other::$obj = new Sub(); echo get_class(Other::$obj); Other::$obj = null; echo "|", Other::$obj ?? "null";`,
	)},
	{name: "later.class.constant.positions", src: laterDecls + steps(
		"plain", `echo Other::K, "|", Sub::K, "|", Other::NAME, "|", json_encode(Other::ARR), "|", Other::class, "|", Sub::class;`,
		"arith", `echo Other::K + 1, "|", Other::K * Sub::K, "|", -Other::K, "|", Other::K . Other::NAME, "|", Other::K <=> Sub::K, "|", Other::K == 5 ? "T" : "F";`,
		"index", `echo Other::ARR[1], "|", Other::NAME[0], "|", Other::ARR[Other::K - 3]; $m = [5 => "five", "other" => "o"]; echo "|", $m[Other::K], $m[Other::NAME];`,
		"array.literal", `echo json_encode([Other::K => Other::NAME, 'v' => Other::ARR, Other::NAME => Sub::K]);`,
		"argument", `echo count(Other::ARR), "|", strlen(Other::NAME), "|", Other::sum(Other::K, Sub::K), "|", Other::sum(...Other::ARR), "|", Other::named(b: Other::K, a: Sub::K);`,
		"match.switch", `echo match(5) { Other::K => "hit", default => "miss" }, match(Other::K) { 5 => "five", default => "?" }; switch (6) { case Other::K: echo "other"; break; case Sub::K: echo "sub"; break; } `,
		"foreach", `foreach (Other::ARR as $v) { echo $v; }`,
		"isset.coalesce", `echo Other::ARR[9] ?? "none", "|", isset(Other::ARR[1]) ? "T" : "F";`,
		"static.in.default", `class UsesConst { public $p = Other::K; public $q = [Other::NAME => Other::ARR]; const MINE = Other::K + 1; static $s = Sub::K; function f($x = Other::NAME) { return $x; } } $u = new UsesConst(); echo $u->p, json_encode($u->q), UsesConst::MINE, UsesConst::$s, $u->f();`,
		"dynamic", `$c = get_class(new Sub()); echo $c::K, "|", $c::$n, "|", $c::num(); $o = new Sub(); echo "|", $o::K, $o::NAME;`,
		"undefined", `echo Other::NOPE;`,
	)},
	{name: "later.static.method.positions", src: laterDecls + steps(
		"statement", `Other::num(); echo "ok";`,
		"expr", `echo Other::num() + 1, "|", Other::num() * Other::num(), "|", Other::str() . "!", "|", -Other::num(), "|", Other::num() <=> 4, "|", Other::none() ?? "null", "|", Other::num() ? "T" : "F", "|", !Other::none() ? "T" : "F";`,
		"chain", `echo Other::make(3)->v, "|", Other::make(3)->get(), "|", Other::make(2)->self2()->get(), "|", Other::make()->items[1], "|", Other::make(5), "|", Sub::make(1)->v, "|", get_class(Sub::make());`,
		"index", `echo Other::arr()[0], "|", Other::arr()[2]['x'], "|", Other::str()[1], "|", count(Other::arr());`,
		"argument", `echo strlen(Other::str()), "|", max(Other::num(), 9), "|", Other::sum(Other::num(), Other::num()), "|", Other::named(Other::num(), c: Other::str()), "|", implode(",", array_map(fn($x) => $x + Other::num(), [1]));`,
		"spread.named", `echo Other::sum(...Other::arr()[2]), "|", Other::sum(...[1, 2], ...[3]), "|", Other::named(c: 9, a: 1), "|", Other::named(...['a' => 7, 'b' => 8]);`,
		"array.literal", `echo json_encode([Other::num() => Other::str(), 'o' => Other::make(2)->v]), json_encode([Other::arr(), Other::num()]);`,
		"conditions", `if (Other::num() > 3) { echo "gt"; } foreach (Other::arr() as $k => $v) { echo $k; } echo match(Other::num()) { 4 => "four", default => "?" }; switch (Other::str()) { case "made": echo "sw"; }`,
		"instanceof.clone", `echo Other::make() instanceof Other ? "T" : "F", Sub::make() instanceof Other ? "T" : "F"; $c = clone Other::make(4); echo $c->v;`,
		"assign.targets", `$x = Other::num(); $arr = []; $arr[Other::str()] = Other::num(); $arr[] = Other::make(1)->v; [$p, $q] = Other::arr(); echo $x, json_encode($arr), $p, $q;`,
		"reference.return", `$r = &Other::refList(); $r[] = 99; echo json_encode(Other::$list);`,
		"callable.forms", `echo call_user_func([Other::class, 'num']), "|", call_user_func('`+"@NS@"+`Other::num'), "|", call_user_func_array([Sub::class, 'named'], [1, 2]), "|", implode(",", array_map([Other::class, 'str'], [1]));`,
		"first.class", `$f = Other::num(...); echo $f(); $g = Other::named(...); echo "|", $g(1);`,
		"variable.method", `$m = "num"; echo Other::$m(); $cls = "`+"@NS@"+`Sub"; echo "|", $cls::make(2)->v, "|", $cls::K;`,
		"undefined", `echo Other::nothing();`,
	) + `class Late extends Other { static function create() { return static::make(9)->v . "|" . self::num() . "|" . parent::str() . "|" . static::class; } }
class Later2 extends Late { static function make($v = 1) { $o = new Later2(); $o->v = -$v; return $o; } }
echo Late::create(), "|", Later2::create(), "\n";
`},
	{name: "later.function.call.positions", src: emHelper + `function userFn($x) { return $x + 1; }
function &refFn(array &$a) { return $a[0]; }
function arrFn() { return [1, [2, 3], 'k' => 'v']; }
function objFn() { $o = new \stdClass(); $o->p = 5; $o->list = [1]; return $o; }
function cloFn() { return function ($x) { return $x * 3; }; }
function nullFn() { return null; }
` + steps(
		"builtin.expr", `echo strlen("abc") + 1, "|", 1 + strlen("ab"), "|", strtoupper("a") . strtolower("B"), "|", -strlen("abcd"), "|", strlen("a") <=> strlen("bb"), "|", max(1, 2) * min(3, 4), "|", !strlen("") ? "T" : "F", "|", strlen("x") ? "T" : "F", "|", strlen("") ?: "elvis", "|", trim("") ?? "nc";`,
		"builtin.index", `echo explode(",", "a,b,c")[1], "|", str_split("xyz")[2], "|", array_keys(['k' => 1])[0], "|", strtoupper("abc")[0], "|", array_values([5, 6])[strlen("a")];`,
		"builtin.nested", `echo strlen(strtoupper(trim("  ab  "))), "|", implode(",", array_map('strtoupper', explode(" ", "a b"))), "|", count(array_filter([1, 0, 2])), "|", max(strlen("a"), strlen("bbb"), count([1, 2]));`,
		"builtin.named.spread", `echo str_repeat(times: 2, string: "ab"), "|", max(...[1, 5, 3]), "|", implode(separator: "-", array: [1, 2]), "|", substr("substring", ...[3, 3]);`,
		"builtin.array.literal", `echo json_encode([strlen("a") => strtoupper("k"), 'n' => count([1, 2])]), json_encode([trim(" t "), [strlen("ab")]]);`,
		"builtin.conditions", `if (strlen("a")) { echo "if"; } while (strlen("")) { echo "never"; } for ($i = 0; $i < strlen("ab"); $i++) { echo $i; } foreach (explode(",", "x,y") as $p) { echo $p; } echo match(strlen("abc")) { 3 => "three", default => "?" }; switch (strtoupper("a")) { case "A": echo "sw"; }`,
		"builtin.byref", `$a = [3, 1, 2]; sort($a); echo json_encode($a), "|", array_pop($a), "|", array_push($a, strlen("four")), json_encode($a); $m = []; echo preg_match('/b+/', "abbc", $m), json_encode($m);`,
		"builtin.ref.of.call", `$r = &strtoupper("x"); echo $r;`,
		"builtin.result.by.ref", `echo array_pop(explode(",", "a,b"));`,
		"builtin.member.of.result", `echo strtoupper("x")->prop;`,
		"builtin.method.of.result", `echo strlen("x")->method();`,
		"user.expr", `echo userFn(1) + userFn(2), "|", userFn(userFn(1)), "|", arrFn()[1][0], arrFn()['k'], "|", objFn()->p, objFn()->list[0], "|", cloFn()(2), "|", nullFn() ?? "null", "|", nullFn()?->p ?? "ns";`,
		"user.ref.return", `$arr = [1, 2]; $r2 = &refFn($arr); $r2 = 50; echo json_encode($arr);`,
		"user.member.of.null", `echo nullFn()->prop;`,
		"variable.function", `$fn = "userFn"; echo $fn(1); $b = "strtoupper"; echo $b("v");`,
		"callable.strings", `echo call_user_func("strtoupper", "c"), call_user_func_array("max", [1, 9]), implode(",", array_map("`+"@NS@"+`userFn", [1, 2])), is_callable("strlen") ? "T" : "F", function_exists("`+"@NS@"+`userFn") ? "T" : "F";`,
		"first.class", `$sl = strlen(...); echo $sl("abcd"); $uf = userFn(...); echo $uf(1);`,
		"undefined", `echo no_such_fn_at_all(1);`,
	)},
	{name: "later.new.positions", src: laterDecls + `class Pt { public $x; public $y; function __construct($x = 0, $y = 0) { $this->x = $x; $this->y = $y; } function sum() { return $this->x + $this->y; } function with($x) { $c = clone $this; $c->x = $x; return $c; } static function origin() { return new static(); } function __invoke($k) { return $this->x * $k; } }
class Pt3 extends Pt { public $z = 9; }
` + steps(
		"member", `echo (new Pt(1, 2))->sum(), "|", (new Pt(3))->x, "|", (new Pt)->with(5)->x, "|", (new Pt3(1))->z, "|", (new Pt(2))(3);`,
		"argument", `function take(Pt $p, $k = 1) { return $p->sum() * $k; } echo take(new Pt(1, 1)), "|", take(new Pt3(2, 2), 2), "|", take(k: 3, p: new Pt(1)), "|", json_encode([new Pt(1, 2)]), "|", count([new Pt(), new Pt3()]);`,
		"nested.args", `echo (new Pt((new Pt(2, 3))->sum(), strlen("ab")))->sum(), "|", (new Pt(...[4, 5]))->sum(), "|", (new Pt(y: 7))->y, "|", (new Pt(Other::$n, Other::K))->sum(), "|", (new Pt(Other::num()))->x;`,
		"instanceof", `echo (new Pt()) instanceof Pt ? "T" : "F", (new Pt3()) instanceof Pt ? "T" : "F", (new Pt()) instanceof Pt3 ? "T" : "F";`,
		"assign.targets", `$a = []; $a[] = new Pt(1); $a['k'] = new Pt3(); Other::$obj = new Pt(8, 1); $o = new \stdClass(); $o->pt = new Pt(2); echo $a[0]->x, get_class($a['k']), Other::$obj->sum(), $o->pt->x;`,
		"default.and.static", `function mk($p = null) { $p = $p ?? new Pt(6); return $p->x; } echo mk(), mk(new Pt(1)), "|", get_class(Pt::origin()), get_class(Pt3::origin());`,
		"dynamic", `$cls = "`+"@NS@"+`Pt3"; $o2 = new $cls(1, 2); echo get_class($o2), $o2->sum(); $short = "Pt"; try { $o3 = new $short(); echo get_class($o3); } catch (\Throwable $e3) { echo "ERR3(", $e3->getMessage(), ")"; }`,
		"conditions", `if (new Pt()) { echo "truthy"; } echo match(true) { (new Pt(1))->x == 1 => "m", default => "d" }; foreach ([new Pt(1), new Pt(2)] as $p) { echo $p->x; }`,
		"throw.new", `try { throw new \InvalidArgumentException("ia", 3); } catch (\InvalidArgumentException $ex) { echo get_class($ex), $ex->getMessage(), $ex->getCode(); }`,
		"unknown", `$u = new NoSuchClassHere(1);`,
		"abstract.interface", `abstract class Abs { } try { $q = new Abs(); echo "made"; } catch (\Throwable $e4) { echo "ERR4"; }`,
	)},
	{name: "later.error.messages", witness: "later-nodes-in-diagnostics", src: laterDecls + `function userFn($x) { return $x + 1; }
class Ops { static function bump(&$x) { $x++; return $x; } }
` + stepsFull(
		"call.of.builtin.result", `echo trim("a")("x");`,
		"call.of.user.function.result", `echo userFn(1)();`,
		"member.of.builtin.result", `echo count([1])->prop;`,
		"byref.static.method.element", `$arr = [1, 2]; echo Ops::bump($arr[0]);`,
		"byref.static.method.literal", `echo Ops::bump(5);`,
		"member.of.static.scalar", `echo Other::$n->prop;`,
		"method.of.static.scalar", `echo Other::$n->method();`,
		"call.of.static.scalar", `echo (Other::$n)(1);`,
		"member.of.const", `echo Other::K->prop;`,
		"member.of.static.method.result", `echo Other::num()->prop;`,
		"method.of.static.method.result", `echo Other::none()->method();`,
		"call.of.static.method.result", `echo Other::num()(1);`,
		"typed.param.static", `function needInt(int $x) { return $x; } echo needInt(Other::$s);`,
		"typed.param.call", `function needArr(array $x) { return count($x); } echo needArr(Other::str());`,
		"typed.param.builtin", `function needInt2(int $x) { return $x; } echo needInt2(strtoupper("a"));`,
		"typed.param.new", `function needStr(string $x) { return $x; } echo needStr(new Other());`,
		"typed.return", `function retInt(): int { return Other::$s; } echo retInt();`,
		"typed.property", `class Ty { public int $i = 0; } $t = new Ty(); $t->i = Other::$s; echo $t->i;`,
		"undefined.static", `echo Other::$missing;`,
		"undefined.class.static", `echo Nope::$missing;`,
		"undefined.class.method", `echo Nope::method();`,
		"undefined.class.const", `echo Nope::K;`,
		"division", `echo 1 % (Other::$n - 10);`,
	)},
	{name: "later.uncaught.static.byref", src: laterDecls + `class Ops { static function bump(&$x) { $x++; return $x; } }
echo "before\n";
echo Ops::bump(Other::$n), "|", Other::$n, "\n";
$f = function (&$v) { $v = $v * 2; return $v; };
echo $f(Other::$n), "|", Other::$n, "\n";
echo "after\n";
`},
}

func laterNodeUnits() []unit {
	out := make([]unit, 0, len(laterUnits))
	for _, u := range laterUnits {
		u.classy = u.name != "later.function.call.positions"
		u.feats = "later-node"
		out = append(out, u)
	}
	return out
}
