package main

// The operator table of property C04, transcribed from the property statement (NOT from
// origami's parser and not from docs/operators.md, which disagrees with the statement):
//
//	tightest first: ** (right-assoc, above unary minus); ! ~ - and casts; * / %; + -; << >>;
//	< <= > >= <=>; == != === !==; &; ^; |; &&; ||; ??; ?: ; assignment (right-assoc, lowest);
//	string '.' looser than arithmetic and tighter than ??.
//
// Everything the statement does not order is parenthesised explicitly in BOTH printings and
// therefore never decides anything (see needParens).

type Ty uint8

const (
	TI Ty = 1 << iota // int (arithmetic / bitwise operand)
	TB                // bool (logical operand)
	TS                // string ('.' operand)
)

func (t Ty) String() string {
	switch t {
	case TI:
		return "I"
	case TB:
		return "B"
	case TS:
		return "S"
	}
	return "?"
}

type Kind int

const (
	KBin  Kind = iota // a OP b
	KPre              // OP a (prefix: - ! ~ casts)
	KTern             // c ? a : b
	KAsg              // $var OP a   (the target is a variable, never an expression)
)

const (
	lvAsg = 1 + iota
	lvTern
	lvCoal
	lvLor
	lvLand
	lvBor
	lvBxor
	lvBand
	lvEq
	lvCmp
	lvShift
	lvAdd
	lvMul
	lvUn
	lvPow
	lvConcat = 100 // placed by rel(): below lvAdd.., above lvCoal.., unordered against the rest
)

// Sig is one typing of an operator: allowed type mask per expression child, result type.
type Sig struct {
	Args []Ty
	Res  Ty
}

type Op struct {
	Name  string
	Sym   string
	Kind  Kind
	Level int
	Sigs  []Sig
	Tags  []string // generator feature tags (quarantine)
}

func (o *Op) NKids() int {
	switch o.Kind {
	case KBin:
		return 2
	case KTern:
		return 3
	}
	return 1
}

// PosName names expression-child position i of the operator.
func (o *Op) PosName(i int) string {
	switch o.Kind {
	case KBin:
		return [...]string{"L", "R"}[i]
	case KTern:
		return [...]string{"C", "T", "E"}[i]
	case KPre:
		return "O"
	}
	return "R" // assignment right-hand side
}

var (
	sII_I = Sig{[]Ty{TI, TI}, TI}
	sII_B = Sig{[]Ty{TI, TI}, TB}
	sBB_B = Sig{[]Ty{TB, TB}, TB}
	// Loose typings. With strictly separated kinds (ints for bitwise, bools for logical) the
	// level pairs equality→bitwise (`$a & $b == $c`) and bitwise→logical (`$t && $a | $b`)
	// could never be printed without parentheses, so two thirds of the table's lower half
	// would go unexercised. Both are ordinary expressions of a dynamically typed language
	// (truthiness of an int, a bool used as a bit operand); the self-differential oracle needs
	// no reference semantics for them.
	sLogic = Sig{[]Ty{TB | TI, TB | TI}, TB}
	sBits  = Sig{[]Ty{TI | TB, TI | TB}, TI}
)

func bin(name, sym string, lv int, sigs ...Sig) *Op {
	return &Op{Name: name, Sym: sym, Kind: KBin, Level: lv, Sigs: sigs}
}

var ops = []*Op{
	bin("pow", "**", lvPow, sII_I),
	{Name: "neg", Sym: "-", Kind: KPre, Level: lvUn, Sigs: []Sig{{[]Ty{TI}, TI}}},
	{Name: "not", Sym: "!", Kind: KPre, Level: lvUn, Sigs: []Sig{{[]Ty{TB | TI}, TB}}},
	{Name: "bnot", Sym: "~", Kind: KPre, Level: lvUn, Sigs: []Sig{{[]Ty{TI}, TI}}},
	{Name: "cast-int", Sym: "(int)", Kind: KPre, Level: lvUn, Sigs: []Sig{{[]Ty{TS | TI | TB}, TI}}, Tags: []string{"cast"}},
	{Name: "cast-str", Sym: "(string)", Kind: KPre, Level: lvUn, Sigs: []Sig{{[]Ty{TI | TS}, TS}}, Tags: []string{"cast"}},
	{Name: "cast-bool", Sym: "(bool)", Kind: KPre, Level: lvUn, Sigs: []Sig{{[]Ty{TI | TS}, TB}}, Tags: []string{"cast"}},
	bin("mul", "*", lvMul, sII_I),
	bin("div", "/", lvMul, sII_I),
	bin("mod", "%", lvMul, sII_I),
	bin("add", "+", lvAdd, sII_I),
	bin("sub", "-", lvAdd, sII_I),
	bin("shl", "<<", lvShift, sII_I),
	bin("shr", ">>", lvShift, sII_I),
	bin("lt", "<", lvCmp, sII_B),
	bin("le", "<=", lvCmp, sII_B),
	bin("gt", ">", lvCmp, sII_B),
	bin("ge", ">=", lvCmp, sII_B),
	bin("cmp", "<=>", lvCmp, sII_I),
	bin("eq", "==", lvEq, sII_B, sBB_B),
	bin("ne", "!=", lvEq, sII_B, sBB_B),
	bin("id", "===", lvEq, sII_B, sBB_B),
	bin("nid", "!==", lvEq, sII_B, sBB_B),
	bin("band", "&", lvBand, sBits),
	bin("bxor", "^", lvBxor, sBits),
	bin("bor", "|", lvBor, sBits),
	bin("land", "&&", lvLand, sLogic),
	bin("lor", "||", lvLor, sLogic),
	bin("coal", "??", lvCoal, Sig{[]Ty{TI, TI}, TI}, Sig{[]Ty{TB, TB}, TB}, Sig{[]Ty{TS, TS}, TS}),
	bin("concat", ".", lvConcat, Sig{[]Ty{TS | TI, TS | TI}, TS}),
	{Name: "tern", Sym: "?:", Kind: KTern, Level: lvTern, Sigs: []Sig{
		{[]Ty{TB | TI, TI, TI}, TI}, {[]Ty{TB | TI, TB, TB}, TB}, {[]Ty{TB | TI, TS, TS}, TS}}},
	{Name: "asg", Sym: "=", Kind: KAsg, Level: lvAsg, Sigs: []Sig{{[]Ty{TI}, TI}, {[]Ty{TB}, TB}, {[]Ty{TS}, TS}}},
	{Name: "addasg", Sym: "+=", Kind: KAsg, Level: lvAsg, Sigs: []Sig{{[]Ty{TI}, TI}}},
	{Name: "catasg", Sym: ".=", Kind: KAsg, Level: lvAsg, Sigs: []Sig{{[]Ty{TS | TI}, TS}}},
	{Name: "powasg", Sym: "**=", Kind: KAsg, Level: lvAsg, Sigs: []Sig{{[]Ty{TI}, TI}}},
	{Name: "subasg", Sym: "-=", Kind: KAsg, Level: lvAsg, Sigs: []Sig{{[]Ty{TI}, TI}}},
	{Name: "mulasg", Sym: "*=", Kind: KAsg, Level: lvAsg, Sigs: []Sig{{[]Ty{TI}, TI}}},
	{Name: "divasg", Sym: "/=", Kind: KAsg, Level: lvAsg, Sigs: []Sig{{[]Ty{TI}, TI}}},
	{Name: "modasg", Sym: "%=", Kind: KAsg, Level: lvAsg, Sigs: []Sig{{[]Ty{TI}, TI}}},
	{Name: "shlasg", Sym: "<<=", Kind: KAsg, Level: lvAsg, Sigs: []Sig{{[]Ty{TI}, TI}}},
	{Name: "shrasg", Sym: ">>=", Kind: KAsg, Level: lvAsg, Sigs: []Sig{{[]Ty{TI}, TI}}},
	{Name: "andasg", Sym: "&=", Kind: KAsg, Level: lvAsg, Sigs: []Sig{{[]Ty{TI}, TI}}},
	{Name: "orasg", Sym: "|=", Kind: KAsg, Level: lvAsg, Sigs: []Sig{{[]Ty{TI}, TI}}},
	{Name: "xorasg", Sym: "^=", Kind: KAsg, Level: lvAsg, Sigs: []Sig{{[]Ty{TI}, TI}}},
	// ??= assigns to the nullable int variable $n
	{Name: "coalasg", Sym: "??=", Kind: KAsg, Level: lvAsg, Sigs: []Sig{{[]Ty{TI}, TI}}},
}

func opByName(n string) *Op {
	for _, o := range ops {
		if o.Name == n {
			return o
		}
	}
	return nil
}

// rel: relation of the child operator to the parent operator according to the statement's
// table: +1 child binds tighter, -1 child binds looser, 0 same level, 2 not ordered.
func rel(p, c *Op) int {
	pc, cc := p.Level == lvConcat, c.Level == lvConcat
	switch {
	case pc && cc:
		return 0
	case pc || cc:
		o := c
		if cc {
			o = p
		}
		r := 2
		if o.Level >= lvAdd { // arithmetic (and everything above it) is tighter than '.'
			r = +1
		} else if o.Level <= lvCoal { // '.' is tighter than ?? (hence than ?: and assignment)
			r = -1
		}
		if r == 2 {
			return 2
		}
		// r is "other relative to concat"; turn it into "child relative to parent"
		if cc {
			return -r
		}
		return r
	}
	switch {
	case c.Level > p.Level:
		return +1
	case c.Level < p.Level:
		return -1
	}
	return 0
}

// needParens decides the minimal printing of `child` at position pos of `parent`.
// explicit=true means the parentheses are there because the statement does not order the
// two operators (or the level is non-associative), i.e. they are not "redundant" and are
// kept in every printing.
func needParens(parent *Op, pos int, child *Op) (paren, explicit bool) {
	switch rel(parent, child) {
	case 2:
		return true, true
	case +1:
		return false, false
	case -1:
		return true, false
	}
	switch parent.Level {
	case lvPow: // right-associative
		return pos == 0, false
	case lvAsg: // right-associative; the only expression child is the right-hand side
		return false, false
	case lvUn: // prefix operators nest without ambiguity
		return false, false
	case lvCmp, lvEq, lvTern: // non-associative / not ordered by the table
		return true, true
	case lvCoal, lvConcat:
		// The statement fixes no associativity for ?? and '.'; both are semantically
		// associative on the generated operands, so either grouping is acceptable and the
		// bare chain is demanded to equal the tree's value whichever way it is grouped.
		return false, false
	}
	// arithmetic, shift, bitwise, logical: left-associative
	return pos == 1, false
}
