package main

import (
	"math/rand"
	"sort"
)

// Case is one tree in one printing style, evaluated under several valuations.
type Case struct {
	Key   string // violation key (cell of the enumerated space, or tree skeleton)
	Class string // pair | triple | random | witness
	Style string
	Ctx   string // "" ($r = E;), "arg" ($r = c04id(E);), "arr" ($k = [E, 0]; $r = $k[0];)
	Tree  *Node
	Vals  []Valuation
	XSeed int64 // seed of the Extra printing (0 = no Extra printing)
	Leafy bool  // third printing: minimal plus every literal operand parenthesised

	// filled by the executor
	MinText, FullText, ExtraText string
	Bare                         int
	Out                          map[byte][]string // 'M','F','X' → outcome per valuation
	Dropped                      string            // watchdog etc.: not decided
}

// statement contexts in which the expression is evaluated
var contexts = []string{"", "arg", "arr"}

// variable pools
var (
	poolI = []string{"a", "b", "c", "d", "e"}
	poolB = []string{"t", "f", "g"}
	poolS = []string{"s", "u", "v"}
	// nullable variables (null in some valuations), used where ?? needs them
	nullable = map[Ty]string{TI: "n", TB: "q", TS: "w"}
	// assignment targets per type
	target = map[Ty]string{TI: "x", TB: "p", TS: "y"}
)

func targetFor(o *Op, ty Ty) string {
	if o.Name == "coalasg" {
		return "n"
	}
	return target[ty]
}

// allVars is the parameter list of every generated function, in order.
var allVars = []string{"a", "b", "c", "d", "e", "t", "f", "g", "s", "u", "v", "n", "q", "w", "x", "p", "y"}

type Valuation map[string]string // variable → source text of its value

func firstTy(mask Ty, pref ...Ty) Ty {
	for _, t := range pref {
		if mask&t != 0 {
			return t
		}
	}
	for _, t := range []Ty{TI, TB, TS} {
		if mask&t != 0 {
			return t
		}
	}
	panic("empty mask")
}

// leafTyFor picks the leaf type for an argument mask of operator o (the most telling one).
func leafTyFor(o *Op, mask Ty) Ty {
	switch o.Name {
	case "cast-int":
		return firstTy(mask, TS)
	case "cast-str", "cast-bool":
		return firstTy(mask, TI)
	case "concat", "catasg":
		return firstTy(mask, TS)
	case "land", "lor", "not", "tern":
		return firstTy(mask, TB)
	}
	return firstTy(mask)
}

// mk builds an operator node with leaves everywhere; sub[i] (may be nil) replaces kid i.
func mk(o *Op, sig int, sub map[int]*Node) *Node {
	s := o.Sigs[sig]
	n := &Node{Op: o, Sig: sig, Ty: s.Res}
	for i, m := range s.Args {
		if k := sub[i]; k != nil {
			n.Kids = append(n.Kids, k)
		} else {
			n.Kids = append(n.Kids, leaf(leafTyFor(o, m), ""))
		}
	}
	if o.Kind == KAsg {
		n.Target = targetFor(o, s.Res)
	}
	return n
}

// nameLeaves gives every leaf a variable (cycling through the pool of its type, left to
// right) and makes the operand that sits immediately left of a `??` a nullable variable.
func nameLeaves(root *Node, lit bool, class string) {
	idx := map[Ty]int{}
	var rec func(n *Node)
	rec = func(n *Node) {
		if n.Op == nil {
			var pool []string
			switch n.Ty {
			case TI:
				pool = poolI
			case TB:
				pool = poolB
			default:
				pool = poolS
			}
			n.Var = pool[idx[n.Ty]%len(pool)]
			idx[n.Ty]++
			n.Lit = lit
			if lit && class != "" && n.Ty == TI {
				n.LitText = litClasses[class][n.Var]
			}
			return
		}
		for _, k := range n.Kids {
			rec(k)
		}
	}
	rec(root)
	root.walk(func(n *Node) {
		if n.Op != nil && n.Op.Name == "coal" {
			l := n.Kids[0]
			for l.Op != nil {
				l = l.Kids[len(l.Kids)-1]
			}
			if v, ok := nullable[l.Ty]; ok {
				l.Var = v
				l.Lit = false
				l.LitText = ""
			}
		}
	})
}

func setSp(root *Node, sp int) {
	root.walk(func(n *Node) {
		if n.Op != nil && (n.Op.Name == "add" || n.Op.Name == "sub") {
			n.Sp = sp
		}
	})
}

func hasAddSub(root *Node) bool {
	r := false
	root.walk(func(n *Node) {
		if n.Op != nil && (n.Op.Name == "add" || n.Op.Name == "sub") {
			r = true
		}
	})
	return r
}

type styleSpec struct {
	name    string
	lit     bool
	sp      int
	bare    bool
	class   string // numeric literal class ("" = plain decimal ints)
	negDet  bool   // unary minus detached
	bareAsg bool   // assignments in last-operand position printed without parentheses
}

// hasBareAsgSite: the BareAsg flag changes the minimal printing of the tree.
func hasBareAsgSite(root *Node) bool {
	with, _ := render(styled(root, styleSpec{name: "var-ba", bareAsg: true}), Min, nil)
	without, _ := render(styled(root, styleSpec{name: "var"}), Min, nil)
	return with != without
}

func hasOp(root *Node, name string) bool {
	r := false
	root.walk(func(n *Node) {
		if n.Op != nil && n.Op.Name == name {
			r = true
		}
	})
	return r
}

// classStyles: the numeric-literal-class styles of a tree (only the plain statement context
// uses them). all=false (triples) keeps one spacing per class.
func classStyles(t *Node, all bool) []styleSpec {
	var st []styleSpec
	addsub := hasAddSub(t)
	neg := hasOp(t, "neg")
	names := litClassNames
	if !all {
		names = []string{"num"}
	}
	for _, cl := range names {
		st = append(st, styleSpec{name: cl, lit: true, class: cl})
		if addsub {
			st = append(st, styleSpec{name: cl + "-sp1", lit: true, sp: 1, class: cl})
			if all {
				st = append(st, styleSpec{name: cl + "-sp2", lit: true, sp: 2, class: cl})
			}
		}
		if neg && all {
			st = append(st, styleSpec{name: cl + "-nd", lit: true, class: cl, negDet: true})
		}
	}
	if neg && all {
		st = append(st, styleSpec{name: "lit-nd", lit: true, negDet: true})
	}
	return st
}

func stylesFor(t *Node, thoroughSp bool) []styleSpec {
	st := []styleSpec{{name: "var"}, {name: "lit", lit: true}}
	if hasBareAsgSite(t) {
		st = append(st, styleSpec{name: "var-ba", bareAsg: true})
		if thoroughSp {
			st = append(st, styleSpec{name: "lit-ba", lit: true, bareAsg: true})
		}
	}
	if hasAddSub(t) {
		st = append(st, styleSpec{name: "lit-sp1", lit: true, sp: 1})
		if thoroughSp {
			st = append(st, styleSpec{name: "var-sp1", sp: 1}, styleSpec{name: "lit-sp2", lit: true, sp: 2}, styleSpec{name: "var-sp2", sp: 2})
		}
	}
	return st
}

func styled(t *Node, s styleSpec) *Node {
	c := t.clone()
	nameLeaves(c, s.lit, s.class)
	setSp(c, s.sp)
	if s.bareAsg {
		c.walk(func(n *Node) {
			if n.Op != nil && n.Op.Kind == KAsg {
				n.BareAsg = true
			}
		})
	}
	if s.negDet {
		c.walk(func(n *Node) {
			if n.Op != nil && n.Op.Name == "neg" {
				n.NegDet = true
			}
		})
	}
	return c
}

// compatible child signatures of c for argument mask m
func sigsFor(c *Op, m Ty) []int {
	var r []int
	for i, s := range c.Sigs {
		if s.Res&m != 0 {
			r = append(r, i)
		}
	}
	return r
}

// genPairs enumerates every well-typed (parent, position, child) in every style.
func genPairs(vals []Valuation) []*Case {
	var cs []*Case
	for _, p := range ops {
		for ps, psig := range p.Sigs {
			for i, m := range psig.Args {
				for _, c := range ops {
					for _, cs2 := range sigsFor(c, m) {
						t := mk(p, ps, map[int]*Node{i: mk(c, cs2, nil)})
						base := "pair/" + c.Name + "@" + p.PosName(i) + "/" + p.Name + "/"
						for _, ctx := range contexts {
							sfx := ""
							if ctx != "" {
								sfx = "@" + ctx
							}
							for _, st := range stylesFor(t, true) {
								cs = append(cs, &Case{Key: base + st.name + sfx, Class: "pair", Style: st.name, Ctx: ctx, Tree: styled(t, st), Vals: vals, Leafy: st.lit})
							}
							if ctx == "" {
								// numeric literal classes: skipped when the tree has no numeric operand
								// (its text would equal the `lit` style's)
								plain, _ := render(styled(t, styleSpec{name: "lit", lit: true}), Min, nil)
								for _, st := range classStyles(t, true) {
									tt := styled(t, st)
									if txt, _ := render(tt, Min, nil); txt == plain {
										continue
									}
									cs = append(cs, &Case{Key: base + st.name, Class: "pair", Style: st.name, Tree: tt, Vals: vals, Leafy: true})
								}
							}
							if p.Name == "pow" && i == 1 && c.Kind == KPre {
								for _, st := range []styleSpec{{name: "bare-var", bare: true}, {name: "bare-lit", lit: true, bare: true}} {
									tt := styled(t, st)
									tt.BareRhs = true
									cs = append(cs, &Case{Key: base + st.name + sfx, Class: "pair", Style: st.name, Ctx: ctx, Tree: tt, Vals: vals})
								}
							}
						}
					}
				}
			}
		}
	}
	return cs
}

// genTriples enumerates every well-typed chain and fork of three operators.
func genTriples(vals []Valuation, keep func(key string) bool) []*Case {
	var cs []*Case
	add := func(key string, t *Node) {
		if !keep(key) {
			return
		}
		for _, st := range stylesFor(t, false) {
			cs = append(cs, &Case{Key: key + "/" + st.name, Class: "triple", Style: st.name, Tree: styled(t, st), Vals: vals})
		}
		plain, _ := render(styled(t, styleSpec{name: "lit", lit: true}), Min, nil)
		for _, st := range classStyles(t, false) {
			tt := styled(t, st)
			if txt, _ := render(tt, Min, nil); txt == plain {
				continue
			}
			cs = append(cs, &Case{Key: key + "/" + st.name, Class: "triple", Style: st.name, Tree: tt, Vals: vals})
		}
	}
	for _, p := range ops {
		for ps, psig := range p.Sigs {
			for i, m := range psig.Args {
				for _, c1 := range ops {
					for _, s1 := range sigsFor(c1, m) {
						// chains
						for j, m2 := range c1.Sigs[s1].Args {
							for _, c2 := range ops {
								for _, s2 := range sigsFor(c2, m2) {
									t := mk(p, ps, map[int]*Node{i: mk(c1, s1, map[int]*Node{j: mk(c2, s2, nil)})})
									add(chainKey(p, i, c1, j, c2), t)
								}
							}
						}
						// forks
						for j := i + 1; j < len(psig.Args); j++ {
							for _, c2 := range ops {
								for _, s2 := range sigsFor(c2, psig.Args[j]) {
									t := mk(p, ps, map[int]*Node{i: mk(c1, s1, nil), j: mk(c2, s2, nil)})
									add(forkKey(p, i, c1, j, c2), t)
								}
							}
						}
					}
				}
			}
		}
	}
	return cs
}

// ---------------------------------------------------------------------------------------
// random trees

type randGen struct {
	rng     *rand.Rand
	allowed func(parent *Op, pos int, child *Op) bool
	opOK    func(o *Op) bool
}

func (g *randGen) gen(ty Ty, depth int, parent *Op, pos int) *Node {
	if depth == 0 || g.rng.Intn(100) < 22 {
		return g.leaf(ty)
	}
	type cand struct {
		o *Op
		s int
	}
	var cands []cand
	for _, o := range ops {
		if g.opOK != nil && !g.opOK(o) {
			continue
		}
		if parent != nil && !g.allowed(parent, pos, o) {
			continue
		}
		for s, sg := range o.Sigs {
			if sg.Res == ty {
				cands = append(cands, cand{o, s})
			}
		}
	}
	if len(cands) == 0 {
		return g.leaf(ty)
	}
	c := cands[g.rng.Intn(len(cands))]
	n := &Node{Op: c.o, Sig: c.s, Ty: ty}
	for i, m := range c.o.Sigs[c.s].Args {
		var tys []Ty
		for _, t := range []Ty{TI, TB, TS} {
			if m&t != 0 {
				tys = append(tys, t)
			}
		}
		kt := tys[g.rng.Intn(len(tys))]
		n.Kids = append(n.Kids, g.gen(kt, depth-1, c.o, i))
	}
	if c.o.Kind == KAsg {
		n.Target = targetFor(c.o, ty)
	}
	if c.o.Name == "add" || c.o.Name == "sub" {
		n.Sp = []int{0, 0, 1, 2}[g.rng.Intn(4)]
	}
	if c.o.Name == "neg" {
		n.NegDet = g.rng.Intn(4) == 0
	}
	if c.o.Kind == KAsg {
		n.BareAsg = g.rng.Intn(3) == 0
	}
	return n
}

func (g *randGen) leaf(ty Ty) *Node {
	var pool []string
	switch ty {
	case TI:
		pool = poolI
	case TB:
		pool = poolB
	default:
		pool = poolS
	}
	n := leaf(ty, pool[g.rng.Intn(len(pool))])
	n.Lit = g.rng.Intn(2) == 0
	if n.Lit && ty == TI && g.rng.Intn(2) == 0 {
		n.LitText = numLitPool[g.rng.Intn(len(numLitPool))]
	}
	return n
}

// fixNullable makes the operand immediately left of every ?? a nullable variable.
func fixNullable(root *Node) {
	root.walk(func(n *Node) {
		if n.Op != nil && n.Op.Name == "coal" {
			l := n.Kids[0]
			for l.Op != nil {
				l = l.Kids[len(l.Kids)-1]
			}
			if v, ok := nullable[l.Ty]; ok {
				l.Var = v
				l.Lit = false
				l.LitText = ""
			}
		}
	})
}

// ---------------------------------------------------------------------------------------
// valuations

func intText(v int) string {
	// negative arguments are written as (0 - k) so that the harness itself never depends on
	// how a signed literal is tokenised
	if v < 0 {
		return "(0 - " + itoa(-v) + ")"
	}
	return itoa(v)
}

func itoa(v int) string {
	if v == 0 {
		return "0"
	}
	neg := v < 0
	if neg {
		v = -v
	}
	var b []byte
	for v > 0 {
		b = append([]byte{byte('0' + v%10)}, b...)
		v /= 10
	}
	if neg {
		b = append([]byte{'-'}, b...)
	}
	return string(b)
}

func boolText(b bool) string {
	if b {
		return "true"
	}
	return "false"
}

// fixedValuations: six valuations; the three booleans cover six of the eight combinations,
// the nullable variables are null in half of them.
func fixedValuations() []Valuation {
	ints := [][5]int{{7, -3, 2, 5, -4}, {-2, 6, 3, -1, 8}, {4, 9, -5, 2, 3}, {-6, -2, 7, 3, 1}, {3, 1, 4, -8, 2}, {9, 5, -1, 6, -7}}
	bools := [][3]bool{{true, false, true}, {false, true, false}, {false, false, true}, {true, true, false}, {false, true, true}, {true, false, false}}
	strs := [][3]string{{"10", "x", "3"}, {"4", "ab", "12"}, {"7", "", "0"}, {"25", "q", "8"}, {"1", "zz", "40"}, {"6", "m", "2"}}
	var vs []Valuation
	for i := 0; i < 6; i++ {
		v := Valuation{}
		for j, n := range poolI {
			v[n] = intText(ints[i][j])
		}
		for j, n := range poolB {
			v[n] = boolText(bools[i][j])
		}
		for j, n := range poolS {
			v[n] = "'" + strs[i][j] + "'"
		}
		if i%2 == 0 {
			v["n"], v["q"], v["w"] = "null", "null", "null"
		} else {
			v["n"], v["q"], v["w"] = intText(11+i), boolText(i%4 == 1), "'k"+itoa(i)+"'"
		}
		v["x"], v["p"], v["y"] = intText(1+i), boolText(i%3 == 0), "'y"+itoa(i)+"'"
		vs = append(vs, v)
	}
	return vs
}

func randomValuation(r *rand.Rand) Valuation {
	v := Valuation{}
	ri := func() int {
		k := 1 + r.Intn(9)
		if r.Intn(3) == 0 {
			k = -k
		}
		return k
	}
	for _, n := range poolI {
		v[n] = intText(ri())
	}
	for _, n := range poolB {
		v[n] = boolText(r.Intn(2) == 0)
	}
	words := []string{"10", "x", "3", "ab", "7", "", "42", "q"}
	for _, n := range poolS {
		v[n] = "'" + words[r.Intn(len(words))] + "'"
	}
	if r.Intn(2) == 0 {
		v["n"], v["q"], v["w"] = "null", "null", "null"
	} else {
		v["n"], v["q"], v["w"] = intText(ri()), boolText(r.Intn(2) == 0), "'"+words[r.Intn(len(words))]+"'"
	}
	v["x"], v["p"], v["y"] = intText(ri()), boolText(r.Intn(2) == 0), "'"+words[r.Intn(len(words))]+"'"
	return v
}

func sortedKeys(m map[string]int) []string {
	ks := make([]string, 0, len(m))
	for k := range m {
		ks = append(ks, k)
	}
	sort.Strings(ks)
	return ks
}
