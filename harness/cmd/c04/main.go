// Command c04 checks property C04: the value of an expression equals the value of the same
// expression with every sub-expression parenthesised according to the operator table of the
// property statement; adding or removing redundant parentheses never changes a result.
//
// Self-differential monitor: every generated tree is printed with minimal parentheses (per
// the statement's table, which lives in ops.go), fully parenthesised, and (random trees)
// with seeded redundant parentheses; all printings are executed by the real CLI and their
// observable outcomes (type, value, final values of assigned variables, or class of the
// escaping Throwable, or the way the process died) are compared.
package main

import (
	"fmt"
	"os"
	"path/filepath"
	"sort"
	"strings"
	"sync/atomic"
	"time"

	"verif/lib"
)

type int64Counter struct{ v atomic.Int64 }

func (c *int64Counter) add(n int64) { c.v.Add(n) }
func (c *int64Counter) get() int64  { return c.v.Load() }

type stats struct {
	cases, evaluations, compared int
	failing                      int
	dropped                      int
}

func main() {
	e := lib.Init("C04", "exploration")
	if len(os.Args) > 1 && os.Args[1] == "dump" {
		dump(e)
		return
	}
	e.RunScriptWitnesses()
	regressionWitnesses(e)
	// features switched off by the known findings whose witness still fails
	loadQuarantine(e)

	vals := fixedValuations()
	vr := e.Rand("valuations")
	vals = append(vals, randomValuation(vr), randomValuation(vr))

	// violation records a disagreement and remembers which known finding (if any) lists it
	knownKeys := map[string][]string{}
	violation := func(key, what string, replay []byte) {
		for _, fd := range e.Findings() {
			if (fd.Key != "" && fd.Key == key) || (fd.KeyPrefix != "" && strings.HasPrefix(key, fd.KeyPrefix)) {
				if len(knownKeys[fd.ID]) < 400 {
					knownKeys[fd.ID] = append(knownKeys[fd.ID], key)
				}
				break
			}
		}
		e.Violation(key, what, "php", replay)
	}

	var nontrivial lib.DistinctCounter
	var samples []any
	totalEval := 0
	var totalProcs int64
	levelPairs := map[string]int{} // "<parent level>/<pos>/<child level>" bare edges exercised

	// account evaluates cases, reports disagreements through report, and keeps the books
	account := func(cases []*Case, batch int, report func(c *Case, diff string)) stats {
		var st stats
		totalProcs += evalAll(e, cases, batch)
		type disagreement struct {
			c     *Case
			diff  string
			again *Case
		}
		var dis []*disagreement
		for _, c := range cases {
			st.cases++
			if c.Dropped != "" || c.Out == nil {
				st.dropped++
				e.Inconclusive(c.Key + ": " + c.Dropped)
				continue
			}
			diff, compared, valued := verdict(c)
			st.evaluations += len(c.Vals) * len(halves(c))
			st.compared += compared
			if c.Bare > 0 && valued {
				nontrivial.Add(lib.Hash(c.MinText, c.Style))
				noteLevels(c.Tree, levelPairs)
			}
			if diff != "" {
				again := *c
				again.Out, again.Dropped = nil, ""
				dis = append(dis, &disagreement{c, diff, &again})
			}
		}
		// a disagreement must reproduce when the case is run again, alone, each printing in its
		// own process: the property is deterministic, the environment is not
		lib.ParallelMap(len(dis), 0, func(i int) { evalSingle(e, i, dis[i].again) })
		for _, d := range dis {
			totalProcs += int64(len(halves(d.c)))
			d2, _, _ := verdict(d.again)
			if d.again.Dropped != "" || d.again.Out == nil || d2 == "" {
				st.dropped++
				e.Inconclusive(d.c.Key + ": disagreement did not reproduce (" + d.diff + ")")
				continue
			}
			st.failing++
			report(d.c, d.diff)
		}
		totalEval += st.evaluations
		return st
	}

	// ---- phase 1: every operator pair, every style -------------------------------------
	failingEdges := map[string]bool{}
	failingEdgeKeys := map[string]int{}
	pairs := genPairs(vals)
	stPairs := account(pairs, 24, func(c *Case, diff string) {
		key := c.Key
		if f := quarantinedFeature(c); f != "" {
			// explained by a known finding: its feature is switched off in the later phases
			key = f + ":" + key
		} else {
			// unexplained: later phases avoid trees that contain this parent/child edge
			var ed []string
			c.Tree.edges(&ed)
			for _, x := range ed {
				failingEdges[x] = true
			}
		}
		failingEdgeKeys[key]++
		violation(key, diff, replayScript(c))
	})
	for i := 0; i < len(pairs) && len(samples) < 4; i += len(pairs)/4 + 1 {
		samples = append(samples, sampleOf(pairs[i]))
	}

	// ---- phase 2: every operator triple (quick: a seeded sample) -----------------------
	pct := e.Pick(3, 100)
	skippedByPair, notSampled := 0, 0
	skippedByQuarantine := map[string]int{}
	triples := genTriples(vals, func(key string) bool {
		if pct < 100 {
			h := lib.Hash(fmt.Sprint(e.Seed), key)
			var x uint32
			fmt.Sscanf(h[:8], "%x", &x)
			if int(x%100) >= pct {
				notSampled++
				return false
			}
		}
		return true
	})
	kept := triples[:0]
	for _, c := range triples {
		var ed []string
		c.Tree.edges(&ed)
		bad := false
		for _, x := range ed {
			if failingEdges[x] {
				bad = true
			}
		}
		prepare(c)
		if bad {
			skippedByPair++
		} else if f := quarantinedFeature(c); f != "" {
			skippedByQuarantine[f]++
		} else {
			kept = append(kept, c)
		}
	}
	triples = kept
	failingPatterns := map[string]bool{}
	stTriples := account(triples, 40, func(c *Case, diff string) {
		var ps []string
		c.Tree.patterns3(&ps)
		for _, x := range ps {
			failingPatterns[x] = true
		}
		violation(c.Key, diff, replayScript(c))
	})
	for i := 0; i < len(triples) && len(samples) < 8; i += len(triples)/4 + 1 {
		samples = append(samples, sampleOf(triples[i]))
	}

	// ---- phase 3: seeded random trees up to depth 5 -------------------------------------
	nRand := e.Pick(2000, 100000)
	rg := &randGen{rng: e.Rand("trees"),
		allowed: func(p *Op, pos int, c *Op) bool { return !failingEdges[c.Name+"@"+p.PosName(pos)+"/"+p.Name] },
		opOK:    func(o *Op) bool { return true }}
	var rnd []*Case
	regenerated := 0
	depthHist := map[int]int{}
	for len(rnd) < nRand {
		ty := []Ty{TI, TI, TB, TS}[rg.rng.Intn(4)]
		t := rg.gen(ty, 5, nil, 0)
		fixNullable(t)
		rv := []Valuation{randomValuation(rg.rng), randomValuation(rg.rng), randomValuation(rg.rng)}
		xs := rg.rng.Int63() | 1
		if t.nOps() < 2 {
			regenerated++
			continue
		}
		var ps []string
		t.patterns3(&ps)
		bad := false
		for _, x := range ps {
			if failingPatterns[x] {
				bad = true
			}
		}
		if bad {
			regenerated++
			continue
		}
		sanitize(t)
		c := &Case{Key: "tree/" + t.skeleton(), Class: "random", Style: "mix", Ctx: contexts[rg.rng.Intn(len(contexts))], Tree: t, Vals: rv, XSeed: xs}
		prepare(c)
		if quarantinedFeature(c) != "" {
			regenerated++
			continue
		}
		depthHist[t.depth()]++
		rnd = append(rnd, c)
	}
	var shrinkProcs int
	stRand := account(rnd, 40, func(c *Case, diff string) {
		small, sdiff, n := shrink(e, c)
		shrinkProcs += n
		if small != nil {
			violation("tree/"+small.Tree.skeleton(), sdiff+" [shrunk from `"+c.MinText+"`]", replayScript(small))
		} else {
			violation(c.Key, diff, replayScript(c))
		}
	})
	for i := 0; i < len(rnd) && len(samples) < 12; i += len(rnd)/4 + 1 {
		samples = append(samples, sampleOf(rnd[i]))
	}

	// ---- evidence ---------------------------------------------------------------------------
	e.Extra("pairs", map[string]any{"cases": stPairs.cases, "disagreeing": stPairs.failing, "dropped": stPairs.dropped,
		"disagreeing_cells": sortedKeys(failingEdgeKeys)})
	e.Extra("triples", map[string]any{"cases": stTriples.cases, "disagreeing": stTriples.failing, "dropped": stTriples.dropped,
		"sample_percent": pct, "not_sampled_cells": notSampled,
		"skipped_contains_disagreeing_pair": skippedByPair, "skipped_quarantined": skippedByQuarantine})
	e.Extra("known_finding_cells", knownKeys)
	e.Extra("features_switched_off", append([]string{}, quar.list()...))
	e.Extra("random_trees", map[string]any{"cases": stRand.cases, "disagreeing": stRand.failing, "dropped": stRand.dropped,
		"regenerated": regenerated, "depth_histogram": intKeyed(depthHist), "printings_per_tree": 3, "valuations_per_tree": 3})
	e.Extra("pairs_exhaustive", true)
	e.Extra("triples_exhaustive", pct == 100 && skippedByPair == 0 && len(skippedByQuarantine) == 0)
	e.Extra("valuation_comparisons", stPairs.compared+stTriples.compared+stRand.compared)
	e.Extra("processes_started", totalProcs)
	e.Extra("level_pairs_exercised_bare", len(levelPairs))
	e.Assume("the operator table is the one in the property statement (ops.go), not docs/operators.md",
		"expressions are evaluated inside a function with fresh parameters, as right-hand side of `$r = <expr>;`, as call argument `c04id(<expr>)` or as array element `[<expr>, 0]`",
		"combinations the statement does not order ('.' against shift/comparison/equality/bitwise/logical, ?: directly inside ?:, chains of two comparison or two equality operators) are parenthesised in every printing",
		"?? and '.' chains are printed bare in either grouping: both groupings have the same value")
	e.Finish(lib.Coverage{
		Evaluations:        totalEval,
		DistinctNontrivial: nontrivial.N(),
		Rule:               "distinct (minimal printing, style) whose minimal printing leaves at least one operator-operator edge unparenthesised that the full printing parenthesises, and whose fully parenthesised printing produced a value (not a Throwable / death) under at least one valuation",
		Samples:            samples,
		Exhaustive:         false, // pairs (and, in the thorough tier, triples) are exhaustive; random trees are not
	})
}

// regressionWitnesses re-runs every findings/C04/<slug>.php that has a <slug>.expected and is
// no longer (or not yet) attached to a finding line: the witnesses of repaired defects stay
// in the always-run list, and a mismatch is a violation again.
func regressionWitnesses(e *lib.Env) {
	dir := filepath.Join(e.Verif, "findings", "C04")
	files, _ := filepath.Glob(filepath.Join(dir, "*.php"))
	sort.Strings(files)
	attached := map[string]bool{}
	for _, fd := range e.Findings() {
		if fd.Witness != "" {
			attached[filepath.Base(fd.Witness)] = true
		}
	}
	n := 0
	for _, f := range files {
		want, err := os.ReadFile(strings.TrimSuffix(f, ".php") + ".expected")
		if err != nil || attached[filepath.Base(f)] {
			continue
		}
		n++
		r := lib.RunProc(lib.ProcSpec{Argv: []string{e.Origami(), f}, Dir: e.Scratch, Timeout: 120 * time.Second})
		if r.TimedOut {
			e.Inconclusive("regression witness " + filepath.Base(f) + ": watchdog")
			continue
		}
		if r.Stdout != string(want) {
			src, _ := os.ReadFile(f)
			e.Violation("witness/"+strings.TrimSuffix(filepath.Base(f), ".php"),
				fmt.Sprintf("regression witness %s prints %q, the property prescribes %q", filepath.Base(f), r.Stdout, string(want)), "php", src)
		}
	}
	e.Extra("regression_witnesses_run", n)
}

func intKeyed(m map[int]int) map[string]int {
	r := map[string]int{}
	for k, v := range m {
		r[fmt.Sprint(k)] = v
	}
	return r
}

func noteLevels(t *Node, into map[string]int) {
	t.walk(func(n *Node) {
		if n.Op == nil {
			return
		}
		for i, k := range n.Kids {
			if k.Op == nil {
				continue
			}
			if p, _ := needParens(n.Op, i, k.Op); !p {
				into[fmt.Sprintf("%d/%s/%d", n.Op.Level, n.Op.PosName(i), k.Op.Level)]++
			}
		}
	})
}

func sampleOf(c *Case) any {
	m := map[string]any{"key": c.Key, "minimal": c.MinText, "full": c.FullText, "context": c.Ctx}
	if c.ExtraText != "" {
		m["extra"] = c.ExtraText
	}
	if c.Out != nil && len(c.Out['F']) > 0 {
		m["outcome_v0"] = c.Out['F'][0]
	}
	return m
}

// shrink reduces a disagreeing random tree: repeatedly replace one operator node by a leaf
// or by one of its same-typed children while the disagreement persists.
func shrink(e *lib.Env, c *Case) (*Case, string, int) {
	cur := c
	curDiff := ""
	procs := 0
	for iter := 0; iter < 80; iter++ {
		var cands []*Case
		var paths [][]int
		var collect func(n *Node, path []int)
		collect = func(n *Node, path []int) {
			if n.Op == nil {
				return
			}
			paths = append(paths, append([]int(nil), path...))
			for i, k := range n.Kids {
				collect(k, append(path, i))
			}
		}
		collect(cur.Tree, nil)
		for _, p := range paths {
			node := at(cur.Tree, p)
			var reps []*Node
			for _, k := range node.Kids {
				if k.Ty == node.Ty {
					reps = append(reps, k.clone())
				}
			}
			var pool []string
			switch node.Ty {
			case TI:
				pool = poolI
			case TB:
				pool = poolB
			default:
				pool = poolS
			}
			reps = append(reps, leaf(node.Ty, pool[len(p)%len(pool)]))
			for _, r := range reps {
				t := replaceAt(cur.Tree, p, r)
				if t.nOps() < 2 && cur.Tree.nOps() >= 2 && t.nOps() < 1 {
					continue
				}
				fixNullable(t)
				sanitize(t)
				cd := &Case{Key: "tree/" + t.skeleton(), Class: "shrink", Style: "mix", Ctx: cur.Ctx, Tree: t, Vals: cur.Vals, XSeed: cur.XSeed}
				prepare(cd)
				if quarantinedFeature(cd) != "" {
					continue
				}
				cands = append(cands, cd)
			}
		}
		sort.SliceStable(cands, func(i, j int) bool { return cands[i].Tree.nOps() < cands[j].Tree.nOps() })
		procs += int(evalAll(e, cands, 20))
		var next *Case
		for _, cd := range cands {
			if cd.Dropped != "" || cd.Out == nil {
				continue
			}
			if d, _, _ := verdict(cd); d != "" {
				next, curDiff = cd, d
				break
			}
		}
		if next == nil {
			break
		}
		cur = next
	}
	if cur == c {
		return nil, "", procs
	}
	return cur, curDiff, procs
}

func at(n *Node, path []int) *Node {
	for _, i := range path {
		n = n.Kids[i]
	}
	return n
}

func replaceAt(root *Node, path []int, r *Node) *Node {
	if len(path) == 0 {
		return r
	}
	c := root.clone()
	n := c
	for _, i := range path[:len(path)-1] {
		n = n.Kids[i]
	}
	n.Kids[path[len(path)-1]] = r
	return c
}

// dump prints generated cases (development aid: `c04 dump [pairs|triples|random] [substr]`).
func dump(e *lib.Env) {
	which, sub := "pairs", ""
	if len(os.Args) > 2 {
		which = os.Args[2]
	}
	if len(os.Args) > 3 {
		sub = os.Args[3]
	}
	vals := fixedValuations()
	var cs []*Case
	switch which {
	case "pairs":
		cs = genPairs(vals)
	case "triples":
		cs = genTriples(vals, func(string) bool { return true })
	default:
		rg := &randGen{rng: e.Rand("trees"), allowed: func(*Op, int, *Op) bool { return true }}
		for i := 0; i < 50; i++ {
			t := rg.gen(TI, 5, nil, 0)
			fixNullable(t)
			cs = append(cs, &Case{Key: "tree/" + t.skeleton(), Tree: t, XSeed: int64(i + 1)})
		}
	}
	n := 0
	for _, c := range cs {
		if sub != "" && !strings.Contains(c.Key, sub) {
			continue
		}
		prepare(c)
		fmt.Printf("%s\n   M: %s\n   F: %s\n", c.Key, c.MinText, c.FullText)
		if c.ExtraText != "" {
			fmt.Printf("   X: %s\n", c.ExtraText)
		}
		n++
	}
	fmt.Println(len(cs), "cases generated,", n, "shown")
	os.RemoveAll(e.Scratch)
}
