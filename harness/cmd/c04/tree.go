package main

import (
	"math/rand"
	"strings"
)

// Node is an expression tree owned by the check (never origami's AST).
type Node struct {
	Op   *Op // nil for a leaf
	Sig  int
	Kids []*Node
	Ty   Ty
	// leaf
	Var string // variable name without '$'
	Lit bool   // print the literal value instead of the variable
	// LitText, when set on a literal leaf, is the exact source text of the literal (numeric
	// literal classes: float, scientific, hex/octal/binary, '_' separators)
	LitText string
	// NegDet: unary minus written detached from its operand (`- 2.5` instead of `-2.5`), so
	// that the lexer cannot glue the sign into a signed-number token
	NegDet bool
	// assignment target (KAsg)
	Target string
	// spacing of a binary + / - : 0 "a - b", 1 "a -b", 2 "a-b"
	Sp int
	// BareAsg (on an assignment node): printed without parentheses although it is the LAST
	// operand of a tighter operator (`1 + $x >>= 2`, `$t ? 1 : $x = 2`, `!$p = true`): the
	// left side of an assignment must be a variable, so there is exactly one way to read it
	BareAsg bool
	// prefix operator printed bare as right operand of ** although the table ranks it lower
	// (syntactically unambiguous: `2 ** -$a`)
	BareRhs bool
}

func leaf(ty Ty, v string) *Node { return &Node{Ty: ty, Var: v} }

func (n *Node) clone() *Node {
	c := *n
	c.Kids = make([]*Node, len(n.Kids))
	for i, k := range n.Kids {
		c.Kids[i] = k.clone()
	}
	return &c
}

func (n *Node) nOps() int {
	if n.Op == nil {
		return 0
	}
	s := 1
	for _, k := range n.Kids {
		s += k.nOps()
	}
	return s
}

func (n *Node) depth() int {
	if n.Op == nil {
		return 0
	}
	d := 0
	for _, k := range n.Kids {
		if x := k.depth(); x > d {
			d = x
		}
	}
	return d + 1
}

func (n *Node) walk(f func(*Node)) {
	f(n)
	for _, k := range n.Kids {
		k.walk(f)
	}
}

// skeleton is the operator structure of a tree (stable across seeds and leaf choices).
func (n *Node) skeleton() string {
	if n.Op == nil {
		return "_"
	}
	var sb strings.Builder
	sb.WriteString(n.Op.Name)
	sb.WriteByte('(')
	for i, k := range n.Kids {
		if i > 0 {
			sb.WriteByte(',')
		}
		sb.WriteString(k.skeleton())
	}
	sb.WriteByte(')')
	return sb.String()
}

// edges lists every operator→operator edge as "<child>@<pos>/<parent>".
func (n *Node) edges(out *[]string) {
	if n.Op == nil {
		return
	}
	for i, k := range n.Kids {
		if k.Op != nil {
			*out = append(*out, k.Op.Name+"@"+n.Op.PosName(i)+"/"+n.Op.Name)
			k.edges(out)
		}
	}
}

// patterns3 lists every connected 3-operator pattern (chains and forks) of the tree in
// the same notation as the triple keys, without the style suffix.
func (n *Node) patterns3(out *[]string) {
	if n.Op == nil {
		return
	}
	for i, k := range n.Kids {
		if k.Op == nil {
			continue
		}
		for j, g := range k.Kids {
			if g.Op != nil {
				*out = append(*out, chainKey(n.Op, i, k.Op, j, g.Op))
			}
		}
		for j := i + 1; j < len(n.Kids); j++ {
			if n.Kids[j].Op != nil {
				*out = append(*out, forkKey(n.Op, i, k.Op, j, n.Kids[j].Op))
			}
		}
		k.patterns3(out)
	}
}

func chainKey(p *Op, i int, c1 *Op, j int, c2 *Op) string {
	return "chain/" + c2.Name + "@" + c1.PosName(j) + "/" + c1.Name + "@" + p.PosName(i) + "/" + p.Name
}

func forkKey(p *Op, i int, c1 *Op, j int, c2 *Op) string {
	return "fork/" + c1.Name + "@" + p.PosName(i) + "+" + c2.Name + "@" + p.PosName(j) + "/" + p.Name
}

// ---------------------------------------------------------------------------------------
// printing

type Mode int

const (
	Min   Mode = iota // minimal parentheses per the table
	Full              // every operator sub-expression parenthesised
	Extra             // minimal plus seeded redundant parentheses (also around leaves)
	Leafy             // minimal plus parentheses around every literal operand: `-(2.5) ** (2)`
)

// Numeric literal classes: source text per int-typed variable slot. Every class keeps the
// second operand ($b) an even number so that `-<lit> ** <lit>` tells (-x)**y from -(x**y).
// Not generated: `.5` (origami has no leading-dot literals: both printings are rejected),
// `0o17` and `0x1_F` (not decoded at all: 0 in every printing).
var litClasses = map[string]map[string]string{
	"flt":   {"a": "7.5", "b": "2.", "c": "3.25", "d": "1.5", "e": "10.0"},
	"zflt":  {"a": "0.5", "b": "2.0", "c": "0.125", "d": "0.75", "e": "00.5"},
	"sci":   {"a": "1e1", "b": "2e0", "c": "1.5E-2", "d": "5E+0", "e": "25e-1"},
	"radix": {"a": "0x1F", "b": "0b10", "c": "03", "d": "0X0a", "e": "017"},
	"sep":   {"a": "1_0", "b": "2", "c": "1_2.5", "d": "1_000", "e": "0x1f"},
	// one operand of every class (the triple cells use only this mixed style)
	"num": {"a": "2.5", "b": "2e0", "c": "0x3", "d": "1_0", "e": "0.5"},
}

var litClassNames = []string{"flt", "zflt", "sci", "radix", "sep"}

// numeric literal pool of the random trees (all classes)
var numLitPool = []string{"7", "2", "3", "5", "4", "7.5", "2.", "3.25", "1.5", "0.5", "2.0", "0.125",
	"1e1", "2e0", "1.5E-2", "5E+0", "25e-1", "0x1F", "0b10", "03", "0X0a", "017", "1_0", "1_2.5", "1_000"}

// literal values used when a leaf is printed as a literal (non-negative: a negative
// literal is the unary minus operator applied to a literal and is generated as such)
var litValue = map[string]string{
	"a": "7", "b": "2", "c": "3", "d": "5", "e": "4",
	"t": "true", "f": "false", "g": "true",
	"s": "'10'", "u": "'x'", "v": "'3'",
}

type printer struct {
	mode Mode
	rng  *rand.Rand // Extra only
	bare int        // operator→operator edges printed without parentheses
	// noParenLitUnderNeg: quarantine of feature "neg-paren-literal" (Extra printing never
	// turns `-7` into `-(7)`)
	noParenLitUnderNeg bool
}

func (p *printer) leafText(n *Node) string {
	if n.Lit {
		if n.LitText != "" {
			return n.LitText
		}
		if v, ok := litValue[n.Var]; ok {
			return v
		}
	}
	return "$" + n.Var
}

// expr prints the node without surrounding parentheses.
// expr prints n; tail says that nothing follows n's text before the enclosing delimiter
// (`;`, `,`, `)`, `]`, `:`), which is what makes an unparenthesised assignment unambiguous.
func (p *printer) expr(n *Node, tail bool) string {
	if n.Op == nil {
		return p.leafText(n)
	}
	switch n.Op.Kind {
	case KBin:
		l := p.child(n, 0, tail)
		r := p.child(n, 1, tail)
		sym := n.Op.Sym
		if (n.Op.Name == "add" || n.Op.Name == "sub") && n.Sp > 0 {
			sep := ""
			if r[0] == '-' || r[0] == '+' { // never glue "--" / "++" / "+-"
				sep = " "
			}
			if n.Sp == 1 {
				return l + " " + sym + sep + r
			}
			return l + sym + sep + r
		}
		return l + " " + sym + " " + r
	case KPre:
		o := p.child(n, 0, tail)
		if n.Op.Sym == "-" && (o[0] == '-' || n.NegDet) {
			return "- " + o
		}
		return n.Op.Sym + o
	case KTern:
		return p.child(n, 0, tail) + " ? " + p.child(n, 1, tail) + " : " + p.child(n, 2, tail)
	case KAsg:
		return "$" + n.Target + " " + n.Op.Sym + " " + p.child(n, 0, tail)
	}
	panic("kind")
}

func (p *printer) child(parent *Node, pos int, parentTail bool) string {
	k := parent.Kids[pos]
	if k.Op == nil {
		s := p.leafText(k)
		if p.mode == Leafy {
			if k.Lit {
				return "(" + s + ")"
			}
			return s
		}
		if p.mode == Extra && p.rng.Intn(4) == 0 {
			if p.noParenLitUnderNeg && k.Lit && parent.Op.Name == "neg" {
				return s
			}
			return "(" + s + ")"
		}
		return s
	}
	// would the kid, printed without parentheses, run up to the enclosing delimiter?
	openTail := (pos == len(parent.Kids)-1 && parentTail) || (parent.Op.Kind == KTern && pos == 1)
	paren, _ := needParens(parent.Op, pos, k.Op)
	if paren && parent.BareRhs && parent.Op.Name == "pow" && pos == 1 && k.Op.Kind == KPre {
		paren = false
	}
	if paren && openTail && k.Op.Kind == KAsg && k.BareAsg {
		paren = false
	}
	wrap := ""
	switch p.mode {
	case Full:
		wrap = "("
	case Extra:
		if !paren {
			switch p.rng.Intn(4) {
			case 0:
				wrap = "("
			case 1:
				wrap = "(("
			}
		} else if p.rng.Intn(4) == 0 {
			wrap = "(("
		} else {
			wrap = "("
		}
	default:
		if paren {
			wrap = "("
		}
	}
	switch wrap {
	case "(":
		return "(" + p.expr(k, true) + ")"
	case "((":
		return "((" + p.expr(k, true) + "))"
	}
	p.bare++
	return p.expr(k, openTail)
}

// render prints the whole tree in the given mode; bare is the number of operator→operator
// edges left without parentheses (only meaningful for Min).
func render(n *Node, mode Mode, rng *rand.Rand) (text string, bare int) {
	p := &printer{mode: mode, rng: rng, noParenLitUnderNeg: quar.parenLitNeg}
	s := p.expr(n, true)
	if mode == Full && n.Op != nil {
		s = "(" + s + ")"
	}
	return s, p.bare
}
