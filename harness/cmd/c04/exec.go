package main

import (
	"fmt"
	"math/rand"
	"regexp"
	"strconv"
	"strings"
	"time"

	"verif/lib"
)

const (
	notRun = "NOT-RUN"
)

var lineRe = regexp.MustCompile(`^R (\d+) ([MFX]) (\d+) (.*)$`)

// prepare renders the printings of a case.
func prepare(c *Case) {
	c.MinText, c.Bare = render(c.Tree, Min, nil)
	c.FullText, _ = render(c.Tree, Full, nil)
	if c.XSeed != 0 {
		c.ExtraText, _ = render(c.Tree, Extra, rand.New(rand.NewSource(c.XSeed)))
	} else if c.Leafy {
		c.ExtraText, _ = render(c.Tree, Leafy, nil)
		if c.ExtraText == c.MinText { // no literal operand: nothing to add
			c.ExtraText = ""
		}
	}
}

func halves(c *Case) []byte {
	if c.XSeed != 0 || (c.Leafy && c.ExtraText != "") {
		return []byte{'M', 'F', 'X'}
	}
	return []byte{'M', 'F'}
}

func textOf(c *Case, h byte) string {
	switch h {
	case 'M':
		return c.MinText
	case 'F':
		return c.FullText
	}
	return c.ExtraText
}

// funcSrc is one half of one case: a function with fresh locals (its parameters) that
// evaluates the expression as the right-hand side of a plain statement `$r = <expr>;` and
// reports type, value and the final values of the assignable variables, or the class of
// the Throwable that escaped.
func funcSrc(name, expr, ctx string) string {
	var sb strings.Builder
	sb.WriteString("function " + name + "(")
	for i, v := range allVars {
		if i > 0 {
			sb.WriteString(", ")
		}
		sb.WriteString("$" + v)
	}
	sb.WriteString(") {\n  try {\n")
	switch ctx {
	case "arg": // function-argument context
		sb.WriteString("    $r = c04id(" + expr + ");\n")
	case "arr": // array-element context
		sb.WriteString("    $k = [" + expr + ", 0];\n    $r = $k[0];\n")
	default: // right-hand side of a plain assignment statement
		sb.WriteString("    $r = " + expr + ";\n")
	}
	sb.WriteString("    return gettype($r) . \":\" . json_encode($r) . \"|\" . json_encode([$x, $p, $y, $n]);\n")
	sb.WriteString("  } catch (Throwable $e) {\n    return \"THROW:\" . get_class($e) . \"|\" . json_encode([$x, $p, $y, $n]);\n  }\n}\n")
	return sb.String()
}

func callArgs(v Valuation) string {
	var a []string
	for _, n := range allVars {
		a = append(a, v[n])
	}
	return strings.Join(a, ", ")
}

// scriptFor builds one script for the given (case index, half) list.
type item struct {
	idx  int
	c    *Case
	half byte
}

func scriptFor(items []item) string {
	var sb strings.Builder
	sb.WriteString("<?php\nfunction c04id($v) { return $v; }\n")
	for _, it := range items {
		sb.WriteString(funcSrc(fmt.Sprintf("h%c%d", it.half+32, it.idx), textOf(it.c, it.half), it.c.Ctx))
	}
	sb.WriteString("echo \"BEGIN\\n\";\n")
	for _, it := range items {
		for vi, v := range it.c.Vals {
			sb.WriteString(fmt.Sprintf("$o = h%c%d(%s);\necho \"R %d %c %d \", $o, \"\\n\";\n", it.half+32, it.idx, callArgs(v), it.idx, it.half, vi))
		}
	}
	sb.WriteString("echo \"END\\n\";\n")
	return sb.String()
}

type runOut struct {
	lines   map[string]string // "idx half val" → outcome
	began   bool
	ended   bool
	res     lib.ProcResult
	timeout bool
}

func runItems(e *lib.Env, items []item) runOut {
	src := scriptFor(items)
	r := e.RunScript(src, 180*time.Second)
	o := runOut{lines: map[string]string{}, res: r, timeout: r.TimedOut}
	out := r.Stdout
	// only complete lines count
	if i := strings.LastIndexByte(out, '\n'); i >= 0 {
		out = out[:i]
	} else {
		out = ""
	}
	for _, ln := range strings.Split(out, "\n") {
		switch {
		case ln == "BEGIN":
			o.began = true
		case ln == "END":
			o.ended = true
		default:
			if m := lineRe.FindStringSubmatch(ln); m != nil {
				o.lines[m[1]+" "+m[2]+" "+m[3]] = m[4]
			}
		}
	}
	return o
}

// deathKind classifies a process that did not print all of its lines. Positions and
// messages are deliberately not part of the outcome (they differ between printings).
func deathKind(o runOut) string {
	if crash, _ := lib.GoCrash(o.res); crash {
		return "DEAD:go-panic@" + lib.PanicSite(o.res.Stderr)
	}
	if !o.began {
		return "DEAD:rejected-before-execution"
	}
	if o.res.Exit != 0 {
		return "DEAD:fatal-exit-" + strconv.Itoa(o.res.Exit)
	}
	return "DEAD:stopped-silently"
}

// collect fills c.Out[half] from a run; returns false when lines are missing.
func collect(o runOut, it item) ([]string, bool) {
	res := make([]string, len(it.c.Vals))
	ok := true
	for vi := range it.c.Vals {
		v, found := o.lines[fmt.Sprintf("%d %c %d", it.idx, it.half, vi)]
		if !found {
			ok = false
			res[vi] = ""
			continue
		}
		res[vi] = v
	}
	return res, ok
}

// evalSingle runs every half of one case in its own process.
func evalSingle(e *lib.Env, idx int, c *Case) {
	c.Out = map[byte][]string{}
	for _, h := range halves(c) {
		it := item{idx, c, h}
		o := runItems(e, []item{it})
		if o.timeout {
			c.Dropped = "watchdog (180 s) on a single case"
			return
		}
		if o.res.Err != nil {
			c.Dropped = "could not start the CLI: " + o.res.Err.Error()
			return
		}
		if o.res.Signal != "" {
			// Go reports its own crashes (nil dereference, stack overflow, fatal error) with a
			// trace and exit status 2; a death by signal comes from outside (OOM killer, …)
			c.Dropped = "CLI killed by signal " + o.res.Signal
			return
		}
		res, ok := collect(o, it)
		if !ok {
			dk := deathKind(o)
			dead := false
			for vi := range res {
				if res[vi] == "" {
					if !dead {
						res[vi] = dk
						dead = true
					} else {
						res[vi] = notRun
					}
				} else if dead {
					res[vi] = notRun
				}
			}
		}
		c.Out[h] = res
	}
}

// evalBatch evaluates cases[lo:hi] (indices are global). A batch that does not produce all
// of its lines is narrowed down: the first incomplete case of a script that started is run
// alone, a script that was rejected as a whole is bisected.
func evalBatch(e *lib.Env, cases []*Case, idxs []int, procs *int64Counter) {
	if len(idxs) == 0 {
		return
	}
	if len(idxs) == 1 {
		procs.add(int64(len(halves(cases[idxs[0]]))))
		evalSingle(e, idxs[0], cases[idxs[0]])
		return
	}
	var items []item
	for _, i := range idxs {
		for _, h := range halves(cases[i]) {
			items = append(items, item{i, cases[i], h})
		}
	}
	procs.add(1)
	o := runItems(e, items)
	var incomplete []int
	for _, i := range idxs {
		c := cases[i]
		out := map[byte][]string{}
		ok := true
		for _, h := range halves(c) {
			res, full := collect(o, item{i, c, h})
			if !full {
				ok = false
				break
			}
			out[h] = res
		}
		if ok {
			c.Out = out
		} else {
			incomplete = append(incomplete, i)
		}
	}
	if len(incomplete) == 0 {
		return
	}
	if len(incomplete) == len(idxs) {
		mid := len(idxs) / 2
		evalBatch(e, cases, idxs[:mid], procs)
		evalBatch(e, cases, idxs[mid:], procs)
		return
	}
	evalBatch(e, cases, incomplete[:1], procs)
	evalBatch(e, cases, incomplete[1:], procs)
}

// evalAll evaluates all cases, batchSize per script, in parallel.
func evalAll(e *lib.Env, cases []*Case, batchSize int) int64 {
	for _, c := range cases {
		prepare(c)
	}
	nb := (len(cases) + batchSize - 1) / batchSize
	var procs int64Counter
	lib.ParallelMap(nb, 0, func(b int) {
		lo, hi := b*batchSize, (b+1)*batchSize
		if hi > len(cases) {
			hi = len(cases)
		}
		idxs := make([]int, 0, hi-lo)
		for i := lo; i < hi; i++ {
			idxs = append(idxs, i)
		}
		evalBatch(e, cases, idxs, &procs)
	})
	return procs.get()
}

// verdict compares the printings of one evaluated case. It returns "" when they agree on
// every valuation that both reached.
func verdict(c *Case) (diff string, compared int, valued bool) {
	ref := c.Out['F']
	for _, h := range halves(c) {
		if h == 'F' {
			continue
		}
		got := c.Out[h]
		for vi := range c.Vals {
			if vi >= len(ref) || vi >= len(got) {
				break
			}
			if ref[vi] == notRun || got[vi] == notRun {
				break
			}
			compared++
			if !strings.HasPrefix(ref[vi], "THROW:") && !strings.HasPrefix(ref[vi], "DEAD:") {
				valued = true
			}
			if ref[vi] != got[vi] && diff == "" {
				which := "minimal"
				txt := c.MinText
				if h == 'X' {
					which, txt = "redundantly parenthesised", c.ExtraText
				}
				diff = fmt.Sprintf("%s printing `%s` gives %s but the fully parenthesised `%s` gives %s (valuation %d: %s)",
					which, txt, got[vi], c.FullText, ref[vi], vi, valText(c, vi))
			}
		}
	}
	return
}

func valText(c *Case, vi int) string {
	var parts []string
	used := map[string]bool{}
	c.Tree.walk(func(n *Node) {
		if n.Op == nil && !n.Lit {
			used[n.Var] = true
		}
		if n.Op != nil && n.Target != "" {
			used[n.Target] = true
		}
	})
	for _, v := range allVars {
		if used[v] {
			parts = append(parts, "$"+v+"="+c.Vals[vi][v])
		}
	}
	return strings.Join(parts, " ")
}

// replayScript is a stand-alone script showing the disagreement.
func replayScript(c *Case) []byte {
	var its []item
	for _, h := range halves(c) {
		its = append(its, item{0, c, h})
	}
	hdr := "// C04 replay: lines `R 0 M <v> …` (minimal printing) and `R 0 F <v> …` (fully parenthesised)\n" +
		"// must be pairwise equal for every valuation v.\n" +
		"// key: " + c.Key + "\n// minimal: " + c.MinText + "\n// full:    " + c.FullText + "\n"
	if c.ExtraText != "" {
		hdr += "// extra:   " + c.ExtraText + "\n"
	}
	s := scriptFor(its)
	return []byte(strings.Replace(s, "<?php\n", "<?php\n"+hdr, 1))
}
