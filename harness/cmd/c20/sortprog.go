package main

// Sort programs: every sort-family function with every flag on keyed arrays that contain TIES
// under the comparator (numerically equal values 5 / "5" / "05" / 5.0, non-numeric keys that
// all compare equal under SORT_NUMERIC, keys "1" / "01" / "1.0", case variants, comparator
// callbacks that declare many elements equal). Which of two tied elements comes first is not
// fixed by the statement — but it must be the same in every run (monitor 1, K runs). Containers
// are built both as array literals (an ObjectValue inside origami: key lists come from a Go
// map) and by assignment (ArrayValue). Keys: nondet:sort:<function>.<flag>.

import (
	"fmt"
	"math/rand"
	"strings"
)

var sortFlags = []struct{ name, expr string }{
	{"default", ""},
	{"regular", ", SORT_REGULAR"},
	{"numeric", ", SORT_NUMERIC"},
	{"string", ", SORT_STRING"},
	{"locale", ", SORT_LOCALE_STRING"},
	{"natural", ", SORT_NATURAL"},
	{"string-case", ", SORT_STRING | SORT_FLAG_CASE"},
	{"natural-case", ", SORT_NATURAL | SORT_FLAG_CASE"},
	{"n1", ", 1"}, {"n2", ", 2"}, {"n5", ", 5"}, {"n6", ", 6"}, {"n10", ", 10"}, {"n14", ", 14"},
}

var sortFlagFuncs = []string{"sort", "rsort", "asort", "arsort", "ksort", "krsort"}

var sortCallbacks = []struct{ name, code string }{
	{"len", `function($a, $b) { return strlen((string)$a) <=> strlen((string)$b); }`},
	{"mod3", `function($a, $b) { return ((int)$a % 3) <=> ((int)$b % 3); }`},
	{"zero", `function($a, $b) { return 0; }`},
	{"numeric", `function($a, $b) { return (float)$a <=> (float)$b; }`},
}

func genSortProgram(r *rand.Rand) string {
	var sb strings.Builder
	sb.WriteString("<?php\n")
	keyPool := []string{"a", "b", "A", "B", "10", "9", "01", "1", "1.0", "x1", "x10", "x9", "X1", "k", "kk", "zz", "m", "", "0", "00", " 1"}
	valPool := []string{"5", "'5'", "'05'", "5.0", "'5.0'", "3", "'3'", "'a'", "'A'", "'b'", "'b10'", "'b9'", "'B9'", "0", "'0'", "''", "'x'", "'X'", "1", "true", "null", "'1e1'", "10"}
	nc := 2 + r.Intn(2)
	for c := 0; c < nc; c++ {
		n := 5 + r.Intn(8)
		perm := r.Perm(len(keyPool))
		var keys []string
		for _, i := range perm[:n] {
			keys = append(keys, keyPool[i])
		}
		v := fmt.Sprintf("$c%d", c)
		literal := r.Intn(2) == 0
		var parts []string
		for _, k := range keys {
			parts = append(parts, fmt.Sprintf("'%s' => %s", k, valPool[r.Intn(len(valPool))]))
		}
		if literal {
			sb.WriteString(v + " = [" + strings.Join(parts, ", ") + "];\n")
		} else {
			sb.WriteString(v + " = [];\n")
			for _, p := range parts {
				kv := strings.SplitN(p, " => ", 2)
				sb.WriteString(fmt.Sprintf("%s[%s] = %s;\n", v, kv[0], kv[1]))
			}
		}
		show := `foreach ($t as $k => $x) { echo var_export($k, true), "=>", var_export($x, true), ";"; }`
		for _, fn := range sortFlagFuncs {
			for _, fl := range sortFlags {
				sb.WriteString(label(fmt.Sprintf("%s.%s.c%d", fn, fl.name, c), fmt.Sprintf("$t = %s; %s($t%s); %s", v, fn, fl.expr, show)))
			}
		}
		for _, fn := range []string{"usort", "uasort", "uksort"} {
			for _, cb := range sortCallbacks {
				sb.WriteString(label(fmt.Sprintf("%s.%s.c%d", fn, cb.name, c), fmt.Sprintf("$t = %s; %s($t, %s); %s", v, fn, cb.code, show)))
			}
		}
		for _, fn := range []string{"natsort", "natcasesort", "array_multisort"} {
			sb.WriteString(label(fmt.Sprintf("%s.default.c%d", fn, c), fmt.Sprintf("$t = %s; %s($t); %s", v, fn, show)))
		}
		sb.WriteString(label(fmt.Sprintf("array_multisort.desc-numeric.c%d", c), fmt.Sprintf("$t = %s; array_multisort($t, SORT_DESC, SORT_NUMERIC); %s", v, show)))
		sb.WriteString(label(fmt.Sprintf("array_unique.numeric.c%d", c), fmt.Sprintf("$t = array_unique(%s, SORT_NUMERIC); %s", v, show)))
		sb.WriteString(label(fmt.Sprintf("array_unique.string.c%d", c), fmt.Sprintf("$t = array_unique(%s, SORT_STRING); %s", v, show)))
		sb.WriteString(label(fmt.Sprintf("array_flip.default.c%d", c), fmt.Sprintf("$t = array_flip(array_filter(%s, function($x) { return is_int($x) || is_string($x); })); %s", v, show)))
		sb.WriteString(label(fmt.Sprintf("array_search.default.c%d", c), fmt.Sprintf("echo var_export(array_search(5, %s), true), ',', var_export(array_search('a', %s), true);", v, v)))
		sb.WriteString(label(fmt.Sprintf("array_keys.search.c%d", c), fmt.Sprintf("echo json_encode(array_keys(%s, 5));", v)))
		sb.WriteString(label(fmt.Sprintf("max-min.default.c%d", c), fmt.Sprintf("echo var_export(max(%s), true), ',', var_export(min(%s), true);", v, v)))
	}
	return sb.String()
}
