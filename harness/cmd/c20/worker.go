package main

// In-process worker ("vworker freshvm" of DESIGN.md §4 C20). The c20 binary re-executes
// itself as
//
//	c20 worker [-string] <fileB>            B alone on a fresh parser+VM
//	c20 worker [-string] <fileA> <fileB>    A on VM1, then B on a new parser+VM2, same process
//
// Without -string each program goes through (*VM).LoadAndRun(file); with -string through
// Parser.ParseString + Program.GetValue on vm.CreateContext (the second entry point embedders use).
//
// Each program is run exactly the way cmd.RunScriptFile runs a script (NewParser, NewVM, the
// CLI's library loaders minus websocket/annotation, LoadAndRun, ShowControl of a returned
// control, RunShutdownCallbacks); only the uncaught handler differs: the CLI's handler prints
// the diagnostic and calls os.Exit(1), ours prints the same diagnostic and lets the program
// end (node.Program returns right after the handler), because a host that runs several
// programs in one process cannot exit. Output is NOT intercepted inside the process (the
// scripts write to the real fd 1/2, which the driver reads through pipes), so the capture
// path is the same for "B alone" and "A, then B" and the only difference is the history.
// A marker line is written to both streams between the two programs.

import (
	"fmt"
	"os"
	"runtime/debug"

	"github.com/php-any/origami/data"
	"verif/ori"
)

const workerMarker = "\n@@C20-NEXT-PROGRAM@@\n"

func workerRunOne(path string, viaString bool) {
	defer func() {
		if r := recover(); r != nil {
			// a Go panic inside the interpreter: report it on stderr (part of the compared
			// diagnostics) and go on with the next program
			fmt.Fprintf(os.Stderr, "\n@@C20-GO-PANIC@@ %v\n%s\n", r, debug.Stack())
		}
	}()
	vm, p := ori.NewVM()
	uncaught := false
	vm.SetThrowControl(func(acl data.Control) {
		uncaught = true
		p.ShowControl(acl)
	})
	var ctl data.Control
	if viaString {
		// the other entry point of an embedder: parse a source string, run the program on a
		// context of the VM (what HTTP handlers, eval hosts and the other checks' harness do)
		src, err := os.ReadFile(path)
		if err != nil {
			fmt.Fprintf(os.Stderr, "cannot read %s: %v\n", path, err)
			os.Exit(3)
		}
		prog, acl := p.ParseString(string(src), path)
		if acl != nil {
			ctl = acl
		} else {
			ctx := vm.CreateContext(p.GetVariables())
			_, ctl = prog.GetValue(ctx)
			if data.FlushAllBuffersFn != nil {
				data.FlushAllBuffersFn()
			}
		}
	} else {
		_, ctl = vm.LoadAndRun(path)
	}
	if ctl != nil {
		p.ShowControl(ctl)
	}
	vm.RunShutdownCallbacks()
	if uncaught || ctl != nil {
		fmt.Fprintf(os.Stderr, "\n@@C20-STATUS@@ failed\n")
	} else {
		fmt.Fprintf(os.Stderr, "\n@@C20-STATUS@@ ok\n")
	}
}

func workerMain(args []string) {
	viaString := false
	if len(args) > 0 && args[0] == "-string" {
		viaString = true
		args = args[1:]
	}
	if len(args) < 1 || len(args) > 2 {
		fmt.Fprintln(os.Stderr, "usage: c20 worker [-string] [fileA] fileB")
		os.Exit(3)
	}
	if len(args) == 2 {
		workerRunOne(args[0], viaString)
	}
	// the marker is written in both modes so that B's section is cut the same way
	os.Stdout.WriteString(workerMarker)
	os.Stderr.WriteString(workerMarker)
	workerRunOne(args[len(args)-1], viaString)
	os.Exit(0)
}
