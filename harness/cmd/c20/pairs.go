package main

// Monitor 3: program B on a fresh parser+VM, alone vs. after program A ran on another fresh
// VM of the same process. Both orders of every seeded pair are run.

import (
	"fmt"
	"os"
	"path/filepath"
	"sort"
	"strings"
	"sync"
	"time"

	"verif/lib"
)

type pairProg struct {
	name   string
	class  string
	path   string
	src    string
	state  *stateProg
	labels bool
	mask   bool // corpus: mask the wall-clock stamp of Log:: lines

	once     sync.Once
	base     *observation // nil: baseline could not be taken
	baseNote string
	stable   map[string]bool
}

// observation of B's part of a worker run
type observation struct {
	order []string          // observation ids in program order
	val   map[string]string // id -> text
	lost  bool              // B printed no label at all
}

func splitLabelsOrdered(out string) ([]string, map[string]string, string) {
	m := map[string]string{}
	var order []string
	var restSB strings.Builder
	rest := out
	for {
		i := strings.Index(rest, "\n@B|")
		if i < 0 {
			restSB.WriteString(rest)
			return order, m, restSB.String()
		}
		restSB.WriteString(rest[:i])
		rest = rest[i+4:]
		nl := strings.IndexByte(rest, '\n')
		if nl < 0 {
			return order, m, restSB.String()
		}
		id := rest[:nl]
		rest = rest[nl+1:]
		end := "\n@E|" + id + "\n"
		j := strings.Index(rest, end)
		if j < 0 {
			if id == "tail" { // the tail label is deliberately open-ended
				m[id] = rest
			} else {
				m[id] = rest + "\x00@UNTERMINATED"
			}
			order = append(order, id)
			return order, m, restSB.String()
		}
		m[id] = rest[:j]
		order = append(order, id)
		rest = rest[j+len(end)-1:]
	}
}

func observe(p *pairProg, stdout, stderr string) *observation {
	o := &observation{val: map[string]string{}}
	if p.mask {
		stdout = stampRe.ReplaceAllString(stdout, "<STAMP>")
		stderr = stampRe.ReplaceAllString(stderr, "<STAMP>")
	}
	if p.labels {
		ord, m, rest := splitLabelsOrdered(stdout)
		o.order = append(o.order, ord...)
		for k, v := range m {
			o.val[k] = v
		}
		o.order = append(o.order, "@stdout.rest")
		o.val["@stdout.rest"] = rest
		o.lost = len(ord) == 0
	} else {
		o.order = append(o.order, "@stdout")
		o.val["@stdout"] = stdout
	}
	o.order = append(o.order, "@stderr")
	o.val["@stderr"] = stderr
	return o
}

// runWorker runs `c20 worker [a] b` and returns B's sections.
func runWorker(a, b string) (stdout, stderr string, note string) {
	return runWorkerMode("file", a, b)
}

// runWorkerMode: mode "file" runs both programs through (*VM).LoadAndRun, mode "string"
// through Parser.ParseString + Program.GetValue (the two entry points an embedder has). The
// exit status of the worker process (decided by B: exit(n), os.Exit in the interpreter) is
// appended to B's stderr section, so that it is part of every comparison.
func runWorkerMode(mode, a, b string) (stdout, stderr string, note string) {
	argv := []string{os.Args[0], "worker"}
	if mode == "string" {
		argv = append(argv, "-string")
	}
	if a != "" {
		argv = append(argv, a)
	}
	argv = append(argv, b)
	// the working directory is a function of B alone (its name can reach diagnostics); the
	// workload writes no files, so concurrent runs may share it
	cwd := filepath.Join(env.Scratch, "cwd", "w-"+lib.Hash(b))
	if err := os.MkdirAll(cwd, 0o755); err != nil {
		return "", "", "cannot create cwd"
	}
	r := lib.RunProc(lib.ProcSpec{Argv: argv, Dir: cwd, Timeout: 180 * time.Second, MaxOut: 64 << 20})
	countEval(1)
	if r.Err != nil {
		return "", "", "cannot start worker: " + r.Err.Error()
	}
	if r.TimedOut {
		return "", "", "watchdog fired"
	}
	if len(r.Stdout) >= 64<<20 || len(r.Stderr) >= 64<<20 {
		return "", "", "output exceeds the capture limit"
	}
	i := strings.Index(r.Stdout, workerMarker)
	j := strings.Index(r.Stderr, workerMarker)
	if i < 0 || j < 0 {
		return "", "", "first program ended the process"
	}
	status := fmt.Sprintf("\n@@C20-PROCESS-EXIT@@ %d %s\n", r.Exit, r.Signal)
	return r.Stdout[i+len(workerMarker):], r.Stderr[j+len(workerMarker):] + status, ""
}

func (p *pairProg) baseline() {
	p.once.Do(func() {
		so1, se1, n1 := runWorker("", p.path)
		so2, se2, n2 := runWorker("", p.path)
		if n1 != "" || n2 != "" {
			p.baseNote = "baseline: " + n1 + n2
			return
		}
		o1, o2 := observe(p, so1, se1), observe(p, so2, se2)
		p.base = o1
		p.stable = map[string]bool{}
		for _, id := range o1.order {
			if v, ok := o2.val[id]; ok && v == o1.val[id] {
				p.stable[id] = true
			}
		}
	})
}

var (
	causeMu sync.Mutex
	causes  = map[string]bool{}
)

func knownCause(culprit, id string) bool {
	causeMu.Lock()
	defer causeMu.Unlock()
	return causes[culprit+"\x00"+id]
}

type pairStatsT struct {
	mu       sync.Mutex
	extra    map[string]any
	samples  []any
	distinct lib.DistinctCounter
}

func runPairs(e *lib.Env, mods []stateMod, cal *calibration, statePs []*stateProg, stateDet []*detProg, progs []*detProg) *pairStatsT {
	ps := &pairStatsT{extra: map[string]any{}}
	var statePool, otherPool []*pairProg
	// only programs whose K CLI runs were byte-identical take part: a program that is
	// nondeterministic on its own cannot be compared with itself
	unstablePrograms := 0
	for i, sp := range statePs {
		if !stateDet[i].stable {
			unstablePrograms++
			continue
		}
		statePool = append(statePool, &pairProg{name: stateDet[i].name, class: "state", path: stateDet[i].path, src: sp.src, state: sp, labels: true})
	}
	for _, p := range progs {
		if p.class == "order" || p.class == "gen" {
			if !p.stable {
				unstablePrograms++
				continue
			}
			otherPool = append(otherPool, &pairProg{name: p.name, class: p.class, path: p.path, src: p.src, labels: p.class == "order"})
		}
	}
	ps.extra["programs_excluded_because_their_own_runs_differ"] = unstablePrograms
	// every stable program also runs after itself (same program twice on two fresh VMs)
	var selfPool []*pairProg
	selfPool = append(selfPool, statePool...)
	selfPool = append(selfPool, otherPool...)
	for _, p := range progs {
		switch p.class {
		case "lookup", "identity", "diag", "corpus":
			if !p.stable {
				continue
			}
			src := p.src
			if src == "" {
				src = p.name
			}
			selfPool = append(selfPool, &pairProg{name: p.name, class: p.class, path: p.path, src: src, labels: p.labels, mask: p.mask})
		}
	}
	type pair struct{ a, b *pairProg }
	var pairs []pair
	r := e.Rand("pairs")
	nState := e.Pick(150, 4000)
	nOther := e.Pick(50, 1000)
	seen := map[[2]int]bool{}
	for len(pairs) < nState && len(statePool) >= 2 {
		i, j := r.Intn(len(statePool)), r.Intn(len(statePool))
		if i == j || seen[[2]int{i, j}] || seen[[2]int{j, i}] {
			if len(seen) >= len(statePool)*(len(statePool)-1)/2 {
				break
			}
			continue
		}
		seen[[2]int{i, j}] = true
		pairs = append(pairs, pair{statePool[i], statePool[j]})
	}
	nStatePairs := len(pairs)
	for k := 0; k < nOther && len(otherPool) >= 2; k++ {
		i, j := r.Intn(len(otherPool)), r.Intn(len(otherPool))
		if i == j {
			continue
		}
		pairs = append(pairs, pair{otherPool[i], otherPool[j]})
	}

	modByName := map[string]stateMod{}
	for _, m := range mods {
		modByName[m.name] = m
	}
	counts := map[string]int{}
	bump := func(k string) {
		ps.mu.Lock()
		counts[k]++
		ps.mu.Unlock()
	}
	leaksByKey := map[string]int{}
	var endedBy []string

	checkOrdered := func(a, b *pairProg) {
		b.baseline()
		if b.base == nil {
			bump("baseline_unavailable")
			e.Inconclusive("pair " + a.name + ";" + b.name + ": " + b.baseNote)
			return
		}
		so, se, note := runWorker(a.path, b.path)
		if note == "first program ended the process" {
			bump("first_program_ended_process")
			ps.mu.Lock()
			if len(endedBy) < 8 {
				endedBy = append(endedBy, a.name)
			}
			ps.mu.Unlock()
			return
		}
		if note != "" {
			bump("inconclusive")
			e.Inconclusive("pair " + a.name + ";" + b.name + ": " + note)
			return
		}
		bump("ordered_pairs_run")
		got := observe(b, so, se)
		nStable := 0
		var diffs []string
		for _, id := range b.base.order {
			if !b.stable[id] {
				continue
			}
			nStable++
			if got.val[id] != b.base.val[id] {
				diffs = append(diffs, id)
			}
		}
		if nStable == len(b.base.order) && (a.state == nil || len(a.state.touched) > 0) {
			ps.distinct.Add(lib.Hash(a.src, b.src))
		}
		if nStable < len(b.base.order) {
			bump("ordered_pairs_with_unstable_baseline_observations")
		}
		ps.mu.Lock()
		if len(ps.samples) < 1 && a.state != nil && len(a.state.touched) > 2 && len(diffs) == 0 {
			ps.samples = append(ps.samples, map[string]any{"case": "worker " + a.name + " " + b.name, "A_touched": a.state.touched,
				"B_observations_equal_to_alone": nStable, "B_source": clip(b.src, 1200)})
		}
		ps.mu.Unlock()
		if len(diffs) == 0 {
			bump("ordered_pairs_equal")
			return
		}
		// confirm: the difference must reproduce, and a third alone run must still agree with
		// the baseline (the baseline was stable twice already)
		so2, se2, note2 := runWorker(a.path, b.path)
		so0, se0, note0 := runWorker("", b.path)
		if note2 != "" || note0 != "" {
			bump("inconclusive")
			e.Inconclusive("pair " + a.name + ";" + b.name + ": confirmation run: " + note2 + note0)
			return
		}
		got2 := observe(b, so2, se2)
		base3 := observe(b, so0, se0)
		var confirmed []string
		for _, id := range diffs {
			if got2.val[id] != b.base.val[id] && base3.val[id] == b.base.val[id] {
				confirmed = append(confirmed, id)
			}
		}
		if len(confirmed) == 0 {
			bump("difference_not_reproduced")
			e.Inconclusive("pair " + a.name + ";" + b.name + ": a difference in " + strings.Join(diffs, ",") + " did not reproduce")
			return
		}
		bump("ordered_pairs_differing")
		lostAll := b.labels && got.lost && got2.lost && !b.base.lost
		report := func(culprit, id string, gotv string, srcA string) {
			// key by the observing module (probe.X and post.X are the same observation taken
			// before and after B's own touches); the text names the exact label
			obsName := strings.TrimPrefix(strings.TrimPrefix(strings.TrimPrefix(id, "probe."), "post."), "touchout.")
			if lostAll {
				obsName = "output-lost"
			}
			var key string
			if a.state != nil && b.state != nil {
				key = "leak:" + culprit + "->" + obsName
			} else {
				key = "leak:pair:" + b.class + ":" + obsChannel(b, id) + ":" + lib.Hash(a.src, b.src)
				if b.class == "order" {
					// labelled observation of an order program: the sink names the failing thing
					key = "leak:pair:order:" + obsChannel(b, id)
				}
				if a == b {
					key = "leak:self:" + a.class + ":" + lib.Hash(a.src)
					if a.class == "corpus" {
						key = "leak:self:corpus:" + a.name
					}
				}
			}
			ps.mu.Lock()
			leaksByKey[key]++
			ps.mu.Unlock()
			what := fmt.Sprintf("program %s on a fresh VM behaves differently after %s ran on another fresh VM of the same process (cause in the first program: %s): observation %s is %q alone but %q afterwards",
				b.name, a.name, culprit, id, clip(b.base.val[id], 300), clip(gotv, 300))
			var sb strings.Builder
			sb.WriteString("C20 fresh-VM pair. Re-run: write the two programs to files A.php and B.php and run `.build/c20 worker B.php` and `.build/c20 worker A.php B.php`;\ncompare what follows the @@C20-NEXT-PROGRAM@@ marker.\n\n" + what + "\n\n")
			sb.WriteString("==== program A (" + a.name + ") ====\n" + srcA + "\n==== program B (" + b.name + ") ====\n" + b.src + "\n")
			sb.WriteString("==== B alone: stdout section ====\n" + clip(joinObs(b.base), 6000) + "\n==== B after A: stdout section ====\n" + clip(so, 6000) + "\n==== B after A: stderr section ====\n" + clip(se, 3000) + "\n")
			e.Violation(key, what, "txt", []byte(sb.String()))
		}
		if a.state == nil || b.state == nil {
			report(a.class, confirmed[0], got.val[confirmed[0]], a.src)
			return
		}
		// attribution. First the program without any touch (same declarations, same probes):
		// what differs already then is caused by running *any* program before B. Then every
		// single touch of A on its own: a touch is the cause of the observations that differ
		// with it but not without it.
		// Causes established by earlier pairs are remembered (cause module -> observation id):
		// when every differing observation of this pair is explained by a remembered cause that
		// A contains, the attribution runs are skipped (they would reproduce known keys).
		explainedAll := true
		for _, id := range confirmed {
			obsID := id
			if lostAll {
				obsID = "output-lost"
			}
			ok := knownCause("any-program", obsID)
			for _, t := range a.state.touched {
				if knownCause(t, obsID) {
					ok = true
				}
			}
			if !ok {
				explainedAll = false
			}
			if lostAll {
				break
			}
		}
		if explainedAll {
			bump("ordered_pairs_differing_explained_by_established_causes")
			return
		}
		attributed := map[string]bool{} // "@"+observation id
		runVariant := func(culprit string, touched map[string]touchSpec) (*observation, string, bool) {
			sp := buildStateProgram(mods, a.state.id, touched, cal.modOK)
			path := writeProg("attr", a.name+"__"+culprit+"__before_"+b.name, sp.src)
			so3, se3, note3 := runWorker(path, b.path)
			if note3 != "" {
				return nil, "", false
			}
			return observe(b, so3, se3), sp.src, true
		}
		differs := func(o *observation, id string) bool {
			if lostAll {
				return b.labels && o.lost && !b.base.lost
			}
			return o.val[id] != b.base.val[id]
		}
		reportAs := func(culprit, id, gotv, srcA string) { report(culprit, id, gotv, srcA) }
		remember := func(culprit, id string) {
			if lostAll {
				id = "output-lost"
			}
			causeMu.Lock()
			causes[culprit+"\x00"+id] = true
			causeMu.Unlock()
		}
		o0, src0, ok0 := runVariant("no-touch", map[string]touchSpec{})
		if ok0 {
			first := true
			for _, id := range confirmed {
				if differs(o0, id) {
					attributed["@"+id] = true
					remember("any-program", id)
					if first || !lostAll {
						reportAs("any-program", id, o0.val[id], src0)
					}
					first = false
					if lostAll {
						break
					}
				}
			}
		}
		for _, t := range a.state.touched {
			ot, srct, okt := runVariant(t, map[string]touchSpec{t: a.state.spec[t]})
			if !okt {
				continue
			}
			reported := false
			for _, id := range confirmed {
				if differs(ot, id) && !(ok0 && differs(o0, id)) {
					attributed["@"+id] = true
					remember(t, id)
					if !reported {
						reported = true
						reportAs(t, id, ot.val[id], srct)
					}
				}
			}
		}
		for _, id := range confirmed {
			if !attributed["@"+id] {
				report("combination", id, got.val[id], a.src)
				break
			}
		}
	}

	lib.ParallelMap(len(pairs), 0, func(i int) {
		checkOrdered(pairs[i].a, pairs[i].b)
		checkOrdered(pairs[i].b, pairs[i].a)
	})

	// Fixed battery (not seeded): every module whose state is a stack, a list or a counter,
	// touched K = 1..4 times / levels in each shape V = 0..2, as the ONLY touch of a first
	// program, followed by an observer program that touches nothing (the first stable state
	// program serves when the dedicated observer is unstable). Guarantees that e.g. "2, 3, 4
	// buffers left open" is exercised whatever the seed.
	var observer *pairProg
	for _, p := range statePool {
		if p.name == "stateOBS" {
			observer = p
		}
	}
	nBattery := 0
	if observer != nil {
		var battery []*pairProg
		for _, m := range mods {
			if !cal.modOK(m.name) || m.name == "uncaught" || m.name == "same_names" {
				continue
			}
			for k := 1; k <= 4; k++ {
				for v := 0; v <= 2; v++ {
					if (k > 1 || v > 0) && !cal.modMulti(m.name) {
						continue
					}
					id := fmt.Sprintf("BAT_%s_%d_%d", m.name, k, v)
					sp := buildStateProgram(mods, id, map[string]touchSpec{m.name: {K: k, V: v}}, cal.modOK)
					battery = append(battery, &pairProg{name: "state" + id, class: "state", path: writeProg("battery", "state"+id, sp.src), src: sp.src, state: sp, labels: true})
				}
			}
		}
		nBattery = len(battery)
		lib.ParallelMap(len(battery), 0, func(i int) { checkOrdered(battery[i], observer) })
	}
	ps.extra["battery_first_programs_single_module_K1to4_V0to2"] = nBattery

	lib.ParallelMap(len(selfPool), 0, func(i int) { checkOrdered(selfPool[i], selfPool[i]) })
	ps.extra["programs_run_after_themselves"] = len(selfPool)
	ps.extra["first_programs_that_ended_the_process"] = endedBy
	ps.extra["seeded_pairs_state"] = nStatePairs
	ps.extra["seeded_pairs_order_and_gen"] = len(pairs) - nStatePairs
	ps.extra["counts"] = counts
	ks := make([]string, 0, len(leaksByKey))
	for k := range leaksByKey {
		ks = append(ks, k)
	}
	sort.Strings(ks)
	lk := map[string]int{}
	for _, k := range ks {
		lk[k] = leaksByKey[k]
	}
	ps.extra["leak_observations_by_key"] = lk
	return ps
}

// obsChannel names an observation of a non-state program: the sink for order programs
// (label without the block index), the label or stream otherwise.
func obsChannel(b *pairProg, id string) string {
	if b.class == "order" {
		if i := strings.IndexByte(id, '.'); i > 0 && !strings.HasPrefix(id, "@") {
			return id[i+1:]
		}
	}
	return id
}

func joinObs(o *observation) string {
	var sb strings.Builder
	for _, id := range o.order {
		if strings.HasPrefix(id, "@") {
			continue
		}
		sb.WriteString("@" + id + ": " + o.val[id] + "\n")
	}
	return sb.String()
}
