package main

// Diagnostic programs: errors whose message enumerates a set (the abstract / interface methods
// a class fails to implement). "Diagnostics" are part of the compared output, so the order of
// such a list must not vary between runs. Labels name the channel: nondet:diag:<label>.

import (
	"fmt"
	"math/rand"
	"strings"
)

// labelMsg is label() with the diagnostic itself as the observation
func labelMsg(id string, code string) string {
	return fmt.Sprintf("echo \"\\n@B|%s\\n\"; try { %s } catch (\\Throwable $e) { echo get_class($e), \": \", $e->getMessage(); } echo \"\\n@E|%s\\n\";\n", id, code, id)
}

func genDiagProgram(r *rand.Rand, uncaught bool) string {
	var sb strings.Builder
	sb.WriteString("<?php\n")
	names := func(prefix string, n int) []string {
		var out []string
		for _, i := range r.Perm(n) {
			out = append(out, fmt.Sprintf("%s%c%d", prefix, 'a'+r.Intn(26), i))
		}
		return out
	}
	// 1. abstract methods left unimplemented
	am := names("ab", 3+r.Intn(4))
	sb.WriteString("abstract class C20Abs {\n")
	for _, m := range am {
		sb.WriteString("  abstract function " + m + "();\n")
	}
	sb.WriteString("}\n")
	sb.WriteString(labelMsg("abstract-missing", "class C20AbsImpl extends C20Abs { function "+am[0]+"() {} } $t = new C20AbsImpl(); echo 'created';"))
	// 2. interface methods left unimplemented
	im := names("im", 3+r.Intn(4))
	sb.WriteString("interface C20Ifc {\n")
	for _, m := range im {
		sb.WriteString("  function " + m + "();\n")
	}
	sb.WriteString("}\n")
	sb.WriteString(labelMsg("interface-missing", "class C20IfcImpl implements C20Ifc { function "+im[0]+"() {} } $t = new C20IfcImpl(); echo 'created';"))
	// 3. two interfaces, nothing implemented
	jm := names("jm", 2+r.Intn(3))
	sb.WriteString("interface C20IfcB {\n")
	for _, m := range jm {
		sb.WriteString("  function " + m + "();\n")
	}
	sb.WriteString("}\n")
	sb.WriteString(labelMsg("two-interfaces-missing", "class C20IfcImpl2 implements C20Ifc, C20IfcB { } $t = new C20IfcImpl2(); echo 'created';"))
	if uncaught {
		// the same kind of error, uncaught: the diagnostic goes to stderr and decides the exit status
		sb.WriteString("echo \"\\n@B|tail\\n\";\n")
		sb.WriteString("class C20AbsImpl3 extends C20Abs { }\n$t = new C20AbsImpl3();\necho 'created';\n")
	}
	return sb.String()
}
