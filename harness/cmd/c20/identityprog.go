package main

// Identity programs: object handles as printed by var_dump (#n), spl_object_id and
// spl_object_hash. PHP numbers objects in creation order, so a sequential program prints the
// same handles in every run; an implementation that derives them from heap addresses does
// not (addresses differ between processes and are reused after garbage collection, whose
// timing is not a function of the program). Labels name the channel: nondet:identity:<label>.

import (
	"fmt"
	"math/rand"
	"strings"
)

func genIdentityProgram(r *rand.Rand, churn bool) string {
	var sb strings.Builder
	sb.WriteString("<?php\nclass C20Id { public $n = 0; }\n")
	n := 2 + r.Intn(5)
	for i := 0; i < n; i++ {
		if r.Intn(2) == 0 {
			fmt.Fprintf(&sb, "$o%d = new C20Id(); $o%d->n = %d;\n", i, i, i)
		} else {
			fmt.Fprintf(&sb, "$o%d = new stdClass();\n", i)
		}
	}
	perm := r.Perm(n)
	var ids, hashes, dumps []string
	for _, i := range perm {
		ids = append(ids, fmt.Sprintf("spl_object_id($o%d)", i))
		hashes = append(hashes, fmt.Sprintf("spl_object_hash($o%d)", i))
		dumps = append(dumps, fmt.Sprintf("var_dump($o%d);", i))
	}
	sb.WriteString(label("var_dump.handle", strings.Join(dumps, " ")))
	sb.WriteString(label("spl_object_id", `echo `+strings.Join(ids, `, " ", `)+`;`))
	sb.WriteString(label("spl_object_hash", `echo `+strings.Join(hashes, `, " ", `)+`;`))
	sb.WriteString(label("spl_object_id.same", fmt.Sprintf(`echo spl_object_id($o0) === spl_object_id($o0) ? "same" : "differs", ",", spl_object_id($o0) === spl_object_id($o1) ? "shared" : "distinct";`)))
	if churn {
		// many short-lived objects: the handle of each must not depend on when memory is reused
		m := 5000 + r.Intn(5000) // enough allocation for several GC cycles; ~0.5 MB of output
		sb.WriteString(label("var_dump.handle.churn", fmt.Sprintf(`for ($i = 0; $i < %d; $i++) { $t = new C20Id(); $t->n = $i; var_dump($t); }`, m)))
	}
	return sb.String()
}
