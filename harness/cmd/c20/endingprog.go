package main

// Ending programs: second programs (B) that END in each kind of diagnostic — uncaught
// exception, PHP-style fatal (abstract instantiation, unimplemented interface method), runtime
// fatal (undefined function, undefined class, type error), parse error, exit(n), normal end —
// each with and without output of their own before the end; and first programs (A) that do /
// do not emit output, end normally or in a diagnostic. The whole matrix A x B is run through
// both embedder entry points (worker modes "file" = LoadAndRun, "string" = ParseString +
// GetValue); B's stdout section, stderr section (diagnostic text, worker status line) and the
// process exit status must equal those of B run alone in the same mode. The B programs also
// take part in the K-run determinism monitor (class "ending").
//
// Keys: leak:ending:<mode>:<after-output|after-silent>-><B kind>[+echo|+var_dump]:<stream>.
// The A side is keyed by whether A emitted user output (the process-wide state a diagnostic
// can depend on), the exact A kinds are in the message.

import (
	"fmt"
	"sort"
	"strings"
	"sync"

	"verif/lib"
)

type endingProg struct {
	kind    string // e.g. fatal-abstract-new+echo
	src     string
	emits   bool // (A side) the program emits user output through the default writer
	path    string
	inDet   bool
	detProg *detProg
}

var endingBKinds = []struct {
	name, decl, end string
	noPrior         bool // the end happens before anything can run (parse error)
}{
	{"normal-end", "", "$c20_done = 1;", false},
	{"uncaught-exception", "", `throw new RuntimeException("boom in B");`, false},
	{"uncaught-user-exception", "class C20EndE extends Exception {}\n", `throw new C20EndE("user boom in B");`, false},
	{"fatal-abstract-new", "abstract class C20EndShape { abstract public function area(); }\n", `$s = new C20EndShape();`, false},
	{"fatal-unimplemented", "interface C20EndI { function ia(); function ib(); }\n", "class C20EndK implements C20EndI { function ia() {} }\n$k = new C20EndK();", false},
	{"fatal-undefined-function", "", `c20_end_undefined_function();`, false},
	{"fatal-undefined-class", "", `$n = new C20EndNoSuchClass();`, false},
	{"fatal-type-error", "function c20_end_typed(int $x) { return $x; }\n", `c20_end_typed("abc");`, false},
	{"fatal-undefined-method", "class C20EndM { }\n", `$m = new C20EndM(); $m->nope();`, false},
	{"exit-code", "", `exit(3);`, false},
	{"exit-zero", "", `exit(0);`, false},
	{"parse-error-paren", "", "$a = (1 + ;", true},
	{"parse-error-class", "", "class { }", true},
}

var endingPriors = []struct{ name, code string }{
	{"", ""},
	{"+echo", `echo "B output before the end\n";` + "\n"},
	{"+var_dump", `var_dump(20);` + "\n"},
}

func endingBPrograms() []*endingProg {
	var out []*endingProg
	for _, k := range endingBKinds {
		for _, pr := range endingPriors {
			if k.noPrior && pr.name != "" {
				continue
			}
			src := "<?php\n" + k.decl + pr.code + k.end + "\necho \"B ran past its end\\n\";\n"
			out = append(out, &endingProg{kind: k.name + pr.name, src: src})
		}
	}
	return out
}

func endingAPrograms() []*endingProg {
	return []*endingProg{
		{kind: "silent", src: "<?php\n$x = 1 + 1;\n"},
		{kind: "captured-only", src: "<?php\nob_start(); echo \"captured\"; $t = ob_get_clean();\n"},
		{kind: "silent-uncaught", src: "<?php\nthrow new RuntimeException(\"boom in A\");\n"},
		{kind: "silent-fatal", src: "<?php\nabstract class C20EndShape { abstract public function area(); }\n$s = new C20EndShape();\n"},
		{kind: "silent-parse-error", src: "<?php\n$a = (1 + ;\n"},
		{kind: "echo", emits: true, src: "<?php\necho \"report ready\\n\";\n"},
		{kind: "print-many", emits: true, src: "<?php\nfor ($i = 0; $i < 5; $i++) { echo \"line \", $i, \"\\n\"; }\n"},
		{kind: "var_dump", emits: true, src: "<?php\nvar_dump([1, 2]);\n"},
		{kind: "echo-then-uncaught", emits: true, src: "<?php\necho \"A says hello\\n\";\nthrow new RuntimeException(\"boom in A\");\n"},
		{kind: "echo-then-fatal", emits: true, src: "<?php\necho \"A says hello\\n\";\nabstract class C20EndShape { abstract public function area(); }\n$s = new C20EndShape();\n"},
		{kind: "echo-then-undefined-function", emits: true, src: "<?php\necho \"A says hello\\n\";\nc20_end_undefined_function();\n"},
	}
}

// runEndingPairs runs the matrix and reports differences.
func runEndingPairs(e *lib.Env, bs []*endingProg) (map[string]any, []any, *lib.DistinctCounter) {
	as := endingAPrograms()
	for _, a := range as {
		a.path = writeProg("endingA", "A_"+a.kind, a.src)
	}
	type base struct {
		once       sync.Once
		out, err   string
		ok, stable bool
	}
	modes := []string{"file", "string"}
	bases := map[string]*base{}
	for _, b := range bs {
		for _, m := range modes {
			bases[m+"\x00"+b.kind] = &base{}
		}
	}
	type job struct {
		mode string
		a, b *endingProg
	}
	var jobs []job
	for _, m := range modes {
		for _, b := range bs {
			if !b.detProg.stable {
				continue // its own CLI runs differ: cannot be compared with itself
			}
			for _, a := range as {
				jobs = append(jobs, job{m, a, b})
			}
		}
	}
	var mu sync.Mutex
	counts := map[string]int{}
	var samples []any
	var distinct lib.DistinctCounter
	byKey := map[string][]string{}
	lib.ParallelMap(len(jobs), 0, func(i int) {
		j := jobs[i]
		bb := bases[j.mode+"\x00"+j.b.kind]
		bb.once.Do(func() {
			o1, e1, n1 := runWorkerMode(j.mode, "", j.b.path)
			o2, e2, n2 := runWorkerMode(j.mode, "", j.b.path)
			bb.ok = n1 == "" && n2 == ""
			bb.stable = bb.ok && o1 == o2 && e1 == e2
			bb.out, bb.err = o1, e1
		})
		bump := func(k string) { mu.Lock(); counts[k]++; mu.Unlock() }
		if !bb.ok {
			bump("baseline_unavailable")
			return
		}
		if !bb.stable {
			bump("baseline_unstable")
			return
		}
		so, se, note := runWorkerMode(j.mode, j.a.path, j.b.path)
		if note == "first program ended the process" {
			bump("first_program_ended_process")
			return
		}
		if note != "" {
			bump("inconclusive")
			e.Inconclusive("ending pair " + j.a.kind + ";" + j.b.kind + ": " + note)
			return
		}
		bump("ordered_pairs_run")
		distinct.Add(lib.Hash(j.mode, j.a.src, j.b.src))
		if so == bb.out && se == bb.err {
			bump("ordered_pairs_equal")
			mu.Lock()
			if len(samples) < 1 && j.a.emits && strings.HasPrefix(j.b.kind, "fatal-abstract-new") {
				samples = append(samples, map[string]any{"case": "worker(" + j.mode + ") A=" + j.a.kind + " B=" + j.b.kind, "A": j.a.src, "B": j.b.src,
					"B_stdout": clip(so, 300), "B_stderr_and_status": clip(se, 600)})
			}
			mu.Unlock()
			return
		}
		// confirm: reproduce, and a third baseline must still agree
		so2, se2, n2 := runWorkerMode(j.mode, j.a.path, j.b.path)
		o3, e3, n3 := runWorkerMode(j.mode, "", j.b.path)
		if n2 != "" || n3 != "" || o3 != bb.out || e3 != bb.err || (so2 == bb.out && se2 == bb.err) {
			bump("difference_not_reproduced")
			e.Inconclusive("ending pair " + j.a.kind + ";" + j.b.kind + " (" + j.mode + "): a difference did not reproduce")
			return
		}
		bump("ordered_pairs_differing")
		stream, alone, after := "stderr", bb.err, se
		if so != bb.out {
			stream, alone, after = "stdout", bb.out, so
		}
		group := "after-silent"
		if j.a.emits {
			group = "after-output"
		}
		key := "leak:ending:" + j.mode + ":" + group + "->" + j.b.kind + ":" + stream
		mu.Lock()
		byKey[key] = append(byKey[key], j.a.kind)
		first := len(byKey[key]) == 1
		mu.Unlock()
		if !first {
			return
		}
		entry := "(*VM).LoadAndRun(file)"
		if j.mode == "string" {
			entry = "Parser.ParseString + Program.GetValue"
		}
		what := fmt.Sprintf("program B (%s) run through %s on a fresh parser+VM behaves differently after program A (%s) ran on another fresh VM of the same process: %s section is %q alone but %q afterwards",
			j.b.kind, entry, j.a.kind, stream, clip(alone, 400), clip(after, 400))
		var sb strings.Builder
		sb.WriteString("C20 fresh-VM pair, ending programs. Re-run: write the programs to A.php and B.php and compare what follows the\n@@C20-NEXT-PROGRAM@@ marker of `.build/c20 worker" + map[string]string{"file": "", "string": " -string"}[j.mode] + " B.php` and `.build/c20 worker" + map[string]string{"file": "", "string": " -string"}[j.mode] + " A.php B.php` (stdout, stderr, exit status).\n\n" + what + "\n\n")
		sb.WriteString("==== program A (" + j.a.kind + ") ====\n" + j.a.src + "\n==== program B (" + j.b.kind + ") ====\n" + j.b.src + "\n")
		sb.WriteString("==== B alone: stdout ====\n" + bb.out + "\n==== B alone: stderr + status ====\n" + bb.err + "\n==== B after A: stdout ====\n" + so + "\n==== B after A: stderr + status ====\n" + se + "\n")
		e.Violation(key, what, "txt", []byte(sb.String()))
	})
	extra := map[string]any{"A_programs": len(as), "B_programs": len(bs), "entry_points": modes, "counts": counts}
	ks := make([]string, 0, len(byKey))
	for k := range byKey {
		ks = append(ks, k)
	}
	sort.Strings(ks)
	diff := map[string]any{}
	for _, k := range ks {
		sort.Strings(byKey[k])
		diff[k] = byKey[k]
	}
	extra["differences_by_key_with_first_programs"] = diff
	return extra, samples, &distinct
}
