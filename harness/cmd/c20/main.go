// C20 — sequential programs are deterministic and leave nothing behind for the next VM.
//
// Three monitors (DESIGN.md §4 C20):
//  1. determinism: every program is run K = 21 times by the real CLI in fresh processes
//     (same file, same arguments, same environment); stdout, stderr and exit status must be
//     byte-identical. Programs: insertion-order programs (orderprog.go), programs of the typed
//     generator verif/gen (C02/C05's), state programs (stateprog.go) and the allow-listed
//     corpus files of <repo>/tests.
//  2. insertion order: the order programs' sinks are decoded and compared with the model
//     (orderprog.go) in each of the K runs.
//  3. fresh VM after another program: `c20 worker A B` (worker.go) runs A on VM1 and B on a new
//     parser+VM2 in one process; B's stdout/stderr section must equal `c20 worker B`.
package main

import (
	"fmt"
	"os"
	"path/filepath"
	"regexp"
	"sort"
	"strings"
	"sync"
	"time"

	"verif/diffprog"
	"verif/gen"
	"verif/lib"
)

const K = 21 // a 2-way order dependence survives K runs with probability 2^-20 < 1e-6

type detProg struct {
	name   string // stable case name
	class  string // order | gen | state | corpus
	path   string // file that is run
	src    string
	mask   bool // corpus: mask the wall-clock stamp of Log:: lines
	order  *orderProg
	genp   *gen.Program
	labels bool
	stable bool // all K runs were byte-identical (set by the determinism monitor)
}

type runOut struct {
	stdout, stderr string
	exit           int
	sig            string
}

func (r runOut) key() string { return lib.Hash(r.stdout, r.stderr, fmt.Sprint(r.exit), r.sig) }

var stampRe = regexp.MustCompile(`\d{4}-\d\d-\d\d \d\d:\d\d:\d\d`)

var (
	crashMu sync.Mutex
	crashes int
	shrinks int
	env     *lib.Env
	evalsMu sync.Mutex
	evals   int
)

func countEval(n int) {
	evalsMu.Lock()
	evals += n
	evalsMu.Unlock()
}

// runCLI runs the CLI on path in a fresh, empty working directory.
func runCLI(path string, mask bool) (runOut, string) {
	// the same (fresh, empty) working directory for every run of one program: its name can
	// reach diagnostics (relative include paths), so it must not vary between the K runs
	cwd := filepath.Join(env.Scratch, "cwd", "r-"+lib.Hash(path))
	_ = os.RemoveAll(cwd)
	if err := os.MkdirAll(cwd, 0o755); err != nil {
		return runOut{}, "cannot create cwd: " + err.Error()
	}
	defer os.RemoveAll(cwd)
	r := lib.RunProc(lib.ProcSpec{Argv: []string{env.Origami(), path}, Dir: cwd, Timeout: 120 * time.Second, MaxOut: 32 << 20})
	countEval(1)
	if r.Err != nil {
		return runOut{}, "cannot start: " + r.Err.Error()
	}
	if r.TimedOut {
		return runOut{}, "watchdog fired"
	}
	if len(r.Stdout) >= 32<<20 || len(r.Stderr) >= 32<<20 {
		return runOut{}, "output exceeds the capture limit"
	}
	o := runOut{stdout: r.Stdout, stderr: r.Stderr, exit: r.Exit, sig: r.Signal}
	if crash, _ := lib.GoCrash(r); crash {
		// a Go runtime crash dump (goroutine ids, addresses) is not a diagnostic of the
		// interpreter; crashes are C01/C02/C03's findings. Compare the crash site only.
		o.stderr = "GO-CRASH at " + lib.PanicSite(r.Stderr)
		crashMu.Lock()
		crashes++
		crashMu.Unlock()
	}
	if mask {
		o.stdout = stampRe.ReplaceAllString(o.stdout, "<STAMP>")
		o.stderr = stampRe.ReplaceAllString(o.stderr, "<STAMP>")
	}
	return o, ""
}

func writeProg(dir, name, src string) string {
	d := filepath.Join(env.Scratch, dir)
	_ = os.MkdirAll(d, 0o755)
	p := filepath.Join(d, name+".php")
	if err := os.WriteFile(p, []byte(src), 0o644); err != nil {
		fmt.Fprintln(os.Stderr, "cannot write program:", err)
		os.Exit(2)
	}
	return p
}

func main() {
	if len(os.Args) > 1 && os.Args[1] == "worker" {
		workerMain(os.Args[2:])
		return
	}
	e := lib.Init("C20", "exploration")
	env = e
	_ = os.MkdirAll(filepath.Join(e.Scratch, "cwd"), 0o755)
	e.RunScriptWitnesses()
	e.Extra("regression_inputs_of_repaired_defects", e.RunRegressionScripts())

	cal := calibrate()

	// ------------------------------------------------------------------ program list
	var progs []*detProg
	nOrder := e.Pick(120, 1000)
	nGen := e.Pick(100, 1300)
	nState := e.Pick(60, 400)
	nCorpus := e.Pick(60, 1<<30)

	ro := e.Rand("order")
	for i := 0; i < nOrder; i++ {
		op := genOrderProgram(ro, 2+ro.Intn(3), cal.sinkOK, nil)
		name := fmt.Sprintf("order%04d", i)
		progs = append(progs, &detProg{name: name, class: "order", src: op.src, order: op, labels: true,
			path: writeProg("order", name, op.src)})
	}
	rg := e.Rand("gen")
	genSkipped := 0
	for i := 0; i < nGen; i++ {
		cfg := gen.Config{MaxDepth: 2 + rg.Intn(4), Budget: 15 + rg.Intn(50), Disabled: e.Quarantined}
		if i%2 == 1 {
			cfg.Exceptions = true
			cfg.ThrowBias = rg.Intn(8)
		}
		gp := gen.Generate(rg, cfg)
		// programs the reference interpreter gives up on (unbounded recursion, step budget) are
		// outside C02/C05's domain and outside ours: they end in a Go stack overflow
		if exp, bug := diffprog.Expected(gp); bug != "" || exp.Abort != "" {
			genSkipped++
			if genSkipped < 20*nGen {
				i--
			}
			continue
		}
		src := gen.Source(gp)
		name := fmt.Sprintf("gen%04d", i)
		progs = append(progs, &detProg{name: name, class: "gen", src: src, genp: gp, path: writeProg("gen", name, src)})
	}
	nLookup := e.Pick(20, 150)
	rl := e.Rand("lookup")
	for i := 0; i < nLookup; i++ {
		src := genLookupProgram(rl)
		name := fmt.Sprintf("lookup%04d", i)
		progs = append(progs, &detProg{name: name, class: "lookup", src: src, labels: true, path: writeProg("lookup", name, src)})
	}
	nSort := e.Pick(25, 200)
	rsrt := e.Rand("sort")
	for i := 0; i < nSort; i++ {
		src := genSortProgram(rsrt)
		name := fmt.Sprintf("sort%04d", i)
		progs = append(progs, &detProg{name: name, class: "sort", src: src, labels: true, path: writeProg("sort", name, src)})
	}
	nIdent := e.Pick(8, 60)
	ri := e.Rand("identity")
	for i := 0; i < nIdent; i++ {
		src := genIdentityProgram(ri, i%4 == 0)
		name := fmt.Sprintf("identity%04d", i)
		progs = append(progs, &detProg{name: name, class: "identity", src: src, labels: true, path: writeProg("identity", name, src)})
	}
	nDiag := e.Pick(10, 80)
	rd := e.Rand("diag")
	for i := 0; i < nDiag; i++ {
		src := genDiagProgram(rd, i%2 == 1)
		name := fmt.Sprintf("diag%04d", i)
		progs = append(progs, &detProg{name: name, class: "diag", src: src, labels: true, path: writeProg("diag", name, src)})
	}
	endingBs := endingBPrograms()
	for _, b := range endingBs {
		name := "ending_" + strings.ReplaceAll(b.kind, "+", "_with_")
		b.path = writeProg("ending", name, b.src)
		b.detProg = &detProg{name: "ending:" + b.kind, class: "ending", src: b.src, path: b.path}
		progs = append(progs, b.detProg)
	}
	incPaths := writeIncFiles("state")
	mods := stateModules(incPaths)
	rs := e.Rand("state")
	var statePs []*stateProg
	var stateDet []*detProg
	for i := 0; i < nState; i++ {
		id := fmt.Sprintf("S%03d", i)
		sp := buildStateProgram(mods, id, randomTouchSet(rs, mods, cal.modMulti), cal.modOK)
		statePs = append(statePs, sp)
		dp := &detProg{name: "state" + id, class: "state", src: sp.src, labels: true, path: writeProg("state", "state"+id, sp.src)}
		stateDet = append(stateDet, dp)
		progs = append(progs, dp)
	}
	{
		// the observer of the fixed battery: probes and posts, no touch
		sp := buildStateProgram(mods, "OBS", map[string]touchSpec{}, cal.modOK)
		statePs = append(statePs, sp)
		dp := &detProg{name: "stateOBS", class: "state", src: sp.src, labels: true, path: writeProg("state", "stateOBS", sp.src)}
		stateDet = append(stateDet, dp)
		progs = append(progs, dp)
	}
	corpus, corpusNote := loadCorpus(e)
	rc := e.Rand("corpus")
	rc.Shuffle(len(corpus), func(i, j int) { corpus[i], corpus[j] = corpus[j], corpus[i] })
	// the file in which map iteration was first seen reaching output is always included
	sort.SliceStable(corpus, func(i, j int) bool { return corpus[i].pinned && !corpus[j].pinned })
	if len(corpus) > nCorpus {
		corpus = corpus[:nCorpus]
	}
	for _, c := range corpus {
		progs = append(progs, &detProg{name: c.rel, class: "corpus", path: filepath.Join(e.Repo, c.rel), mask: c.mask})
	}

	// ------------------------------------------------------------------ monitor 1 + 2
	det := newDetStats()
	lib.ParallelMap(len(progs), 0, func(i int) { checkDeterminism(progs[i], det) })

	// ------------------------------------------------------------------ monitor 3
	ps := runPairs(e, mods, cal, statePs, stateDet, progs)
	endExtra, endSamples, endDistinct := runEndingPairs(e, endingBs)

	// ------------------------------------------------------------------ evidence
	e.Extra("runs_per_program", K)
	e.Extra("runs_ending_in_go_crash_compared_by_site_only", crashes)
	e.Extra("generated_programs_outside_reference_domain_skipped", genSkipped)
	e.Extra("programs_by_class", det.byClass)
	e.Extra("programs_with_identical_runs", det.identical)
	e.Extra("programs_nondeterministic", det.nondet)
	e.Extra("order_sink_instances_by_status", det.orderStatus)
	e.Extra("order_checked_ok_by_sink", det.okBySink)
	e.Extra("order_checked_ok_by_container", det.okByKind)
	e.Extra("order_outside_domain_by_sink", det.outsideBySink)
	e.Extra("sinks_dropped_by_calibration", cal.droppedSinks)
	e.Extra("state_modules_dropped_by_calibration", cal.droppedMods)
	e.Extra("state_modules_touched_once_only_after_calibration", cal.simpleMods)
	e.Extra("corpus", corpusNote)
	e.Extra("pairs", ps.extra)
	e.Extra("ending_pairs", endExtra)
	e.Assume(
		"the adversary is Go's map-iteration randomisation (and anything else that differs between fresh processes); K=21 identical runs leave a 2-way dependence undetected with probability 2^-20",
		"insertion order is demanded only of sinks that enumerate the container itself; a sink whose output is not a permutation of the container's keys/values is outside the compared domain (counted, not judged)",
		"the order of a derived class's inherited properties relative to its own, and the place of a declared property that was unset and assigned again, are left open by the statement (determinism only)",
		"corpus files are compared modulo the wall-clock stamp printed by Log:: (masked by a fixed regular expression)",
		"fresh-VM clause: programs are run exactly as cmd.RunScriptFile runs them except that the uncaught handler returns instead of os.Exit(1); process state that PHP itself shares through the OS (environment, cwd, umask, locale) is not touched by the workload",
	)
	samples := det.samples
	samples = append(samples, ps.samples...)
	samples = append(samples, endSamples...)
	e.Finish(lib.Coverage{
		Evaluations:        evals,
		DistinctNontrivial: det.distinct.N() + ps.distinct.N() + endDistinct.N(),
		Rule: "evaluations = process executions (CLI runs + worker runs). distinct = source hash of a program all of whose K runs completed and printed something " +
			"(order programs additionally: >= 1 sink instance decoded and judged) + hash of an (A,B) pair in which A touched >= 1 state module or declares names B declares too, and B's alone baseline was stable",
		Samples:    samples,
		Exhaustive: false,
	})
}

// ---------------------------------------------------------------------------------
// determinism + order

type detStats struct {
	mu            sync.Mutex
	byClass       map[string]int
	identical     int
	nondet        int
	orderStatus   map[string]int
	okBySink      map[string]int
	okByKind      map[string]int
	outsideBySink map[string]int
	distinct      lib.DistinctCounter
	samples       []any
	sampled       map[string]bool
}

func newDetStats() *detStats {
	return &detStats{byClass: map[string]int{}, orderStatus: map[string]int{}, okBySink: map[string]int{},
		okByKind: map[string]int{}, outsideBySink: map[string]int{}, sampled: map[string]bool{}}
}

func runK(p *detProg, k int) ([]runOut, string) {
	outs := make([]runOut, 0, k)
	for i := 0; i < k; i++ {
		o, inc := runCLI(p.path, p.mask)
		if inc != "" {
			return nil, inc
		}
		outs = append(outs, o)
	}
	return outs, ""
}

func allSame(outs []runOut) bool {
	for _, o := range outs[1:] {
		if o != outs[0] {
			return false
		}
	}
	return true
}

func checkDeterminism(p *detProg, st *detStats) {
	outs, inc := runK(p, K)
	if inc != "" {
		env.Inconclusive(p.name + ": " + inc)
		return
	}
	same := allSame(outs)
	p.stable = same
	st.mu.Lock()
	st.byClass[p.class]++
	if same {
		st.identical++
	} else {
		st.nondet++
	}
	st.mu.Unlock()

	judged := 0
	unstableStore := map[int]bool{}    // block idx whose canary differs between runs
	unstableLabel := map[string]bool{} // labels whose payload differs between runs (reported as nondet:)
	if !same {
		reportNondet(p, outs, unstableStore, unstableLabel)
	}
	if p.order != nil {
		// monitor 2, in every run (a run is cheap to judge and the order may differ per run)
		reported := map[string]bool{}
		for ri, o := range outs {
			if ri > 0 && o == outs[0] {
				continue
			}
			for _, v := range judgeOrder(p.order, o.stdout) {
				st.mu.Lock()
				st.orderStatus[v.status]++
				switch v.status {
				case "ok":
					st.okBySink[v.sink]++
					st.okByKind[v.kind]++
					judged++
				case "outside":
					st.outsideBySink[v.sink]++
				}
				st.mu.Unlock()
				if v.status != "violation" {
					continue
				}
				judged++
				var bi int
				fmt.Sscanf(v.label, "%d.", &bi)
				if (v.sink == "store" && unstableStore[bi]) || unstableLabel[v.label] {
					continue // already reported as nondet:store:<kind> / nondet:<sink>:<family>
				}
				key := "order:" + v.sink + ":" + family(v.kind)
				if v.sink == "store" {
					key = "order:store:" + v.kind
				}
				if reported[key] {
					continue
				}
				reported[key] = true
				what := fmt.Sprintf("%s: container kind %s, sink %s enumerates %v, insertion order is %v (label %s, run %d of %d)",
					p.name, v.kind, v.sink, v.got, v.want, v.label, ri+1, K)
				env.Violation(key, what, "php", []byte(p.src+"\n/* ---- verif C20 order oracle ----\n"+what+"\n*/\n"))
			}
		}
	}
	nontrivial := len(outs[0].stdout) > 0 && (p.order == nil || judged > 0)
	if nontrivial {
		h := p.src
		if h == "" {
			h = p.name
		}
		st.distinct.Add(lib.Hash(h))
	}
	st.mu.Lock()
	if nontrivial && !st.sampled[p.class] {
		st.sampled[p.class] = true
		s := map[string]any{"case": p.name, "class": p.class, "runs": K, "identical": same, "exit": outs[0].exit}
		if p.src != "" {
			s["source"] = clip(p.src, 1500)
		}
		s["stdout_head"] = clip(outs[0].stdout, 400)
		st.samples = append(st.samples, s)
	}
	st.mu.Unlock()
}

// family of a container kind: "array" or "object" (violation keys name the sink and the
// family, the store's own keys name the exact container kind)
func family(kind string) string {
	if isArrayKind(kind) {
		return "array"
	}
	return "object"
}

func clip(s string, n int) string {
	if len(s) > n {
		return s[:n] + "…"
	}
	return s
}

// reportNondet attributes a difference between runs.
func reportNondet(p *detProg, outs []runOut, unstableStore map[int]bool, unstableLabel map[string]bool) {
	distinct := map[string]int{}
	var reps []runOut
	for _, o := range outs {
		k := o.key()
		if distinct[k] == 0 {
			reps = append(reps, o)
		}
		distinct[k]++
	}
	a, b := reps[0], reps[1]
	describe := func(what string) string {
		return fmt.Sprintf("%s: %d runs of the same program in fresh processes gave %d different results; %s", p.name, K, len(reps), what)
	}
	replay := func(what string) []byte {
		var sb strings.Builder
		if p.src != "" {
			sb.WriteString(p.src)
		} else {
			sb.WriteString("<?php /* corpus file " + p.path + " */\n")
		}
		sb.WriteString("\n/* ---- verif C20 determinism ----\n" + what + "\n")
		for i, r := range reps {
			if i >= 3 {
				break
			}
			fmt.Fprintf(&sb, "---- result variant %d (exit %d):\n%s\n---- stderr:\n%s\n", i+1, r.exit,
				strings.ReplaceAll(clip(r.stdout, 6000), "*/", "* /"), strings.ReplaceAll(clip(r.stderr, 2000), "*/", "* /"))
		}
		sb.WriteString("*/\n")
		return []byte(sb.String())
	}
	if p.labels {
		// which labelled payloads differ between any two runs?
		per := make([]map[string]string, len(reps))
		for i, r := range reps {
			per[i] = splitLabels(r.stdout)
		}
		diff := map[string]bool{}
		for id := range per[0] {
			for _, m := range per[1:] {
				if m[id] != per[0][id] {
					diff[id] = true
				}
			}
		}
		for _, m := range per[1:] {
			for id := range m {
				if _, ok := per[0][id]; !ok {
					diff[id] = true
				}
			}
		}
		if len(diff) > 0 {
			ids := make([]string, 0, len(diff))
			for id := range diff {
				ids = append(ids, id)
			}
			sort.Strings(ids)
			for _, id := range ids {
				unstableLabel[id] = true
			}
			if p.order != nil {
				reported := false
				for _, b := range p.order.blocks {
					pre := fmt.Sprintf("%d.", b.idx)
					// group the result variants by what the store itself enumerated (all canaries
					// of the block); sinks are compared only between runs that saw the same store
					groups := map[string][]int{}
					var sigs []string
					for i, m := range per {
						var sb strings.Builder
						var cids []string
						for id := range m {
							if strings.HasPrefix(id, pre+"canary") {
								cids = append(cids, id)
							}
						}
						sort.Strings(cids)
						for _, id := range cids {
							sb.WriteString(id + "=" + m[id] + "\x00")
						}
						sig := sb.String()
						if _, ok := groups[sig]; !ok {
							sigs = append(sigs, sig)
						}
						groups[sig] = append(groups[sig], i)
					}
					if len(groups) > 1 {
						unstableStore[b.idx] = true
						reported = true
						i0, i1 := groups[sigs[0]][0], groups[sigs[1]][0]
						cl := pre + "canary"
						w := describe(fmt.Sprintf("the container itself (kind %s, block %d) is enumerated by plain foreach in different orders: %q vs %q", b.kind, b.idx,
							clip(per[i0][cl], 300), clip(per[i1][cl], 300)))
						env.Violation("nondet:store:"+b.kind, w, "php", replay(w))
					}
					for _, sn := range b.sinks {
						id := pre + sn
						for _, sig := range sigs {
							g := groups[sig]
							for _, i := range g[1:] {
								if per[i][id] != per[g[0]][id] && !unstableLabel[id+"#r"] {
									unstableLabel[id+"#r"] = true
									reported = true
									w := describe(fmt.Sprintf("sink %s on a container of kind %s (label %s) prints different results for the same store order: %q vs %q", sn, b.kind, id,
										clip(per[g[0]][id], 300), clip(per[i][id], 300)))
									env.Violation("nondet:"+sn+":"+family(b.kind), w, "php", replay(w))
								}
							}
						}
					}
				}
				if reported {
					return
				}
			}
			// state and lookup programs: one key per observation channel (the label without the
			// group suffix .g<n> of lookup programs)
			done := map[string]bool{}
			for _, id := range ids {
				ch := id
				if i := strings.LastIndex(ch, ".g"); i > 0 && p.class == "lookup" {
					ch = ch[:i]
				}
				if i := strings.LastIndex(ch, ".c"); i > 0 && p.class == "sort" {
					ch = ch[:i] // function.flag, without the container index
				}
				key := "nondet:" + p.class + ":" + ch
				if done[key] {
					continue
				}
				done[key] = true
				w := describe(fmt.Sprintf("unstable observation %s: %q vs %q", id, clip(per[0][id], 300), clip(otherPayload(per, id), 300)))
				env.Violation(key, w, "php", replay(w))
			}
			return
		}
	}
	what := ""
	switch {
	case a.exit != b.exit || a.sig != b.sig:
		what = fmt.Sprintf("exit status %d%s vs %d%s", a.exit, a.sig, b.exit, b.sig)
	case a.stdout != b.stdout:
		what = "stdout differs: " + firstDiffLine(a.stdout, b.stdout)
	default:
		what = "stderr differs: " + firstDiffLine(a.stderr, b.stderr)
	}
	switch p.class {
	case "corpus":
		w := describe(what)
		env.Violation("nondet:corpus:"+p.name, w, "php", replay(w))
	case "gen":
		q := p.genp
		crashMu.Lock()
		shrinks++
		doShrink := shrinks <= 3 // minimising costs up to 40 x K runs: only for the first few
		crashMu.Unlock()
		if doShrink {
			q = gen.Shrink(p.genp, func(g *gen.Program) bool {
				path := writeProg("shrink", p.name, gen.Source(g))
				o, inc := runK(&detProg{path: path}, K)
				return inc == "" && !allSame(o)
			}, 40)
		}
		src := gen.Source(q)
		w := describe(what)
		env.Violation("nondet:gen:"+lib.Hash(src), w, "php", []byte(src+"\n/* ---- verif C20 determinism (minimised generated program) ----\n"+w+"\n*/\n"))
	default:
		where := "stderr"
		if a.exit != b.exit || a.sig != b.sig {
			where = "exit-status"
		} else if a.stdout != b.stdout {
			where = "stdout-outside-labels"
		}
		w := describe(what)
		key := "nondet:" + p.class + ":" + where
		if p.class == "ending" {
			key = "nondet:" + p.name + ":" + where
		}
		env.Violation(key, w, "php", replay(w))
	}
}

func otherPayload(per []map[string]string, id string) string {
	for _, m := range per[1:] {
		if m[id] != per[0][id] {
			return m[id]
		}
	}
	return ""
}

func firstDiffLine(a, b string) string {
	al, bl := strings.Split(a, "\n"), strings.Split(b, "\n")
	for i := 0; i < len(al) || i < len(bl); i++ {
		x, y := "<end>", "<end>"
		if i < len(al) {
			x = al[i]
		}
		if i < len(bl) {
			y = bl[i]
		}
		if x != y {
			return fmt.Sprintf("line %d: %q vs %q", i+1, clip(x, 200), clip(y, 200))
		}
	}
	return "(no differing line?)"
}
