package main

// Calibration: which sinks and which state modules can be executed at all by the tree under
// test. Every (container kind, sink) and every state module is run once, alone, in its own
// process on a fixed tiny program (independent of VERIF_SEED). A sink that raises, kills the
// program or does not finish is left out of the generated programs and listed in the
// evidence: its breakage is not a determinism or order defect, and leaving it in would
// truncate the output of every program that uses it. Calibration never produces a verdict.

import (
	"fmt"
	"math/rand"
	"sort"
	"strings"
	"sync"
	"time"

	"verif/lib"
)

type calibration struct {
	sink         map[string]bool // kind + "/" + sink -> usable
	mod          map[string]bool
	modSimple    map[string]bool // usable only when touched once (K=1, V=0)
	droppedSinks []string
	droppedMods  []string
	simpleMods   []string // touched once only: a repeated / nested touch does not run to completion
}

func (c *calibration) sinkOK(kind, sink string) bool { return c.sink[kind+"/"+sink] }
func (c *calibration) modOK(name string) bool        { return c.mod[name] }
func (c *calibration) modMulti(name string) bool     { return c.mod[name] && !c.modSimple[name] }

func calibrate() *calibration {
	c := &calibration{sink: map[string]bool{}, mod: map[string]bool{}, modSimple: map[string]bool{}}
	type job struct {
		kind, sink, mod string
		path            string
		spec            touchSpec
	}
	var jobs []job
	for _, kind := range containerKinds {
		fam := "o"
		if isArrayKind(kind) {
			fam = "a"
		}
		for i := range sinks {
			s := &sinks[i]
			if !strings.Contains(s.kinds, fam) {
				continue
			}
			k, sn := kind, s.name
			op := genOrderProgram(rand.New(rand.NewSource(20)), 1,
				func(_, sink string) bool { return sink == sn },
				func(kk string) bool { return kk == k })
			jobs = append(jobs, job{kind: k, sink: sn, path: writeProg("cal", "sink_"+k+"_"+strings.ReplaceAll(sn, ".", "_"), op.src)})
		}
	}
	incPaths := writeIncFiles("cal")
	mods := stateModules(incPaths)
	for _, m := range mods {
		// once, and the two most involved shapes of a repeated / nested touch
		for _, spec := range []touchSpec{{1, 0}, {4, 1}, {3, 2}} {
			sp := buildStateProgram(mods, "CAL", map[string]touchSpec{m.name: spec}, func(string) bool { return true })
			jobs = append(jobs, job{mod: m.name, spec: spec, path: writeProg("cal", fmt.Sprintf("mod_%s_%d_%d", m.name, spec.K, spec.V), sp.src)})
		}
	}
	isTail := map[string]bool{}
	for _, m := range mods {
		isTail[m.name] = m.tail
	}
	var mu sync.Mutex
	lib.ParallelMap(len(jobs), 0, func(i int) {
		j := jobs[i]
		r := lib.RunProc(lib.ProcSpec{Argv: []string{env.Origami(), j.path}, Dir: env.Scratch, Timeout: 60 * time.Second})
		countEval(1)
		crash, _ := lib.GoCrash(r)
		ok := r.Err == nil && !r.TimedOut && !crash
		labels := splitLabels(r.Stdout)
		bad := func(id string) bool {
			pl, have := labels[id]
			return !have || strings.Contains(pl, "@ERR") || strings.Contains(pl, "@UNTERMINATED")
		}
		mu.Lock()
		defer mu.Unlock()
		if j.sink != "" {
			if ok && (bad("0."+j.sink) || bad("0.canary")) {
				ok = false
			}
			c.sink[j.kind+"/"+j.sink] = ok
			if !ok {
				c.droppedSinks = append(c.droppedSinks, j.kind+"/"+j.sink)
			}
			return
		}
		if ok && !isTail[j.mod] {
			if !strings.Contains(r.Stdout, "end of CAL") {
				ok = false
			}
			for id, pl := range labels {
				if strings.HasSuffix(id, "."+j.mod) && (strings.Contains(pl, "@ERR") || strings.Contains(pl, "@UNTERMINATED")) {
					ok = false
				}
			}
		}
		if j.spec.K == 1 {
			c.mod[j.mod] = ok
			if !ok {
				c.droppedMods = append(c.droppedMods, j.mod)
			}
		} else if !ok && !c.modSimple[j.mod] {
			c.modSimple[j.mod] = true
			c.simpleMods = append(c.simpleMods, j.mod)
		}
	})
	sort.Strings(c.droppedSinks)
	sort.Strings(c.droppedMods)
	sort.Strings(c.simpleMods)
	return c
}
