package main

// State programs (monitor 3 of DESIGN.md §4 C20: "A, then B" on fresh VMs in one process).
//
// Every state program has the same shape and declares the SAME names (class C20Same,
// C20Static, interface C20SameI, functions c20_same / c20_counter) with bodies that carry
// the program's own id:
//
//   declarations
//   probe section : one labelled line per module, reading process-visible state BEFORE the
//                   program touched anything (on a fresh VM these must not depend on history)
//   touch section : the modules selected for this program change that state
//   post section  : the same observations again (now showing the program's own changes)
//   tail          : optionally leaves an output buffer open / ends in an uncaught exception
//
// A module is identified by name; violation keys are leak:<touch module>-><label of the
// observation that changed>.

import (
	"fmt"
	"math/rand"
	"sort"
	"strings"
)

// touchSpec: how often / how deeply a module's state is touched. Process-wide state that is a
// stack, a list or a counter (output buffers, handlers, autoloaders, shutdown functions, ini
// keys, constants, included files, static counters) is touched K times / K levels deep; V selects
// a shape (partial closes / restores / unregisters in between).
type touchSpec struct{ K, V int }

type stateMod struct {
	name  string
	probe string                                // PHP statements printing the observable (no label); "" = none
	touch func(id string, t touchSpec) string // PHP statements changing the state
	post  string                                // observation after the touches ("" = same as probe)
	tail  bool                                  // the touch must come last (it swallows or ends the output)
}

// rep renders f(1..k) joined by spaces
func rep(k int, f func(j int) string) string {
	var parts []string
	for j := 1; j <= k; j++ {
		parts = append(parts, f(j))
	}
	return strings.Join(parts, " ")
}

// sfx: "" for the first instance, "2".."4" for the others (names of the K-fold touches)
func sfx(j int) string {
	if j <= 1 {
		return ""
	}
	return fmt.Sprint(j)
}

const allSfx = `['', '2', '3', '4']`

func sg(name string) stateMod { // superglobal module
	return stateMod{
		name: "superglobal" + name,
		probe: fmt.Sprintf(`$n = 0; foreach (%s as $x) { if (isset($%s['c20' . $x])) { $n++; } } echo isset($%s['c20']) ? $%s['c20'] : 'unset', ",", $n;`,
			allSfx, name, name, name),
		touch: func(id string, t touchSpec) string {
			return rep(t.K, func(j int) string { return fmt.Sprintf(`$%s['c20%s'] = 'by-%s';`, name, sfx(j), id) })
		},
	}
}

func stateModules(incPaths []string) []stateMod {
	mods := []stateMod{
		{name: "same_names",
			probe: `$t = new C20Same(); echo $t->id(), ",", C20Same::sid(), ",", C20Same::ID, ",", c20_same(), ",", C20SameI::IID, ",", $t->tag, ",", get_class($t);`,
			touch: func(id string, t touchSpec) string {
				return rep(t.K, func(j int) string {
					return fmt.Sprintf(`$c20_same_obj%d = new C20Same(); $c20_same_obj%d->tag = 'changed%d';`, j, j, j)
				})
			}},
		{name: "static_prop",
			probe: `echo C20Static::$n, ",", count(C20Static::$log);`,
			touch: func(id string, t touchSpec) string {
				return rep(t.K, func(j int) string {
					return `C20Static::bump(); C20Static::$n += 10; C20Static::$log[] = '` + id + `';`
				})
			}},
		{name: "static_local",
			probe: `echo c20_counter();`,
			touch: func(id string, t touchSpec) string { return rep(t.K, func(int) string { return `c20_counter(); c20_counter();` }) }},
		{name: "define",
			probe: `foreach (` + allSfx + ` as $x) { echo defined('C20_DEF' . $x) ? 'defined' : 'undefined', ","; }`,
			touch: func(id string, t touchSpec) string {
				return rep(t.K, func(j int) string { return fmt.Sprintf(`define('C20_DEF%s', 'by-%s-%d');`, sfx(j), id, j) })
			},
			post: `echo defined('C20_DEF') ? C20_DEF : 'undefined', ",", defined('C20_DEF2') ? C20_DEF2 : 'undefined', ",", defined('C20_DEF3') ? C20_DEF3 : 'undefined', ",", defined('C20_DEF4') ? C20_DEF4 : 'undefined';`},
		{name: "conditional_decl",
			probe: `foreach (` + allSfx + ` as $x) { echo class_exists('C20Opt' . $x) ? 'class' : 'noclass', ",", function_exists('c20_opt' . $x) ? 'func' : 'nofunc', ";"; }`,
			touch: func(id string, t touchSpec) string {
				return rep(t.K, func(j int) string {
					x := sfx(j)
					return `if (!class_exists('C20Opt` + x + `')) { class C20Opt` + x + ` { function id() { return '` + id + `'; } } } if (!function_exists('c20_opt` + x + `')) { function c20_opt` + x + `() { return '` + id + `'; } }`
				})
			},
			post: `echo class_exists('C20Opt') ? (new C20Opt())->id() : 'noclass', ",", function_exists('c20_opt') ? c20_opt() : 'nofunc', ",", class_exists('C20Opt3') ? 'class3' : 'noclass3';`},
		{name: "class_alias",
			probe: `foreach (` + allSfx + ` as $x) { echo class_exists('C20Alias' . $x) ? 'alias' : 'noalias', ","; }`,
			touch: func(id string, t touchSpec) string {
				return rep(t.K, func(j int) string { return `class_alias('C20Same', 'C20Alias` + sfx(j) + `');` })
			},
			post: `echo class_exists('C20Alias') ? (new C20Alias())->id() : 'noalias', ",", class_exists('C20Alias2') ? (new C20Alias2())->id() : 'noalias2';`},
		{name: "error_handler",
			probe: `try { trigger_error("c20-probe-warning", E_USER_WARNING); echo "returned"; } catch (\Throwable $e) { echo "thrown:", $e->getMessage(); }`,
			touch: func(id string, t touchSpec) string {
				s := rep(t.K, func(j int) string {
					return fmt.Sprintf(`set_error_handler(function($no, $str) { echo "[error-handler %d of %s: ", $str, "]"; return true; });`, j, id)
				})
				if t.V == 1 {
					s += ` if (function_exists('restore_error_handler')) { restore_error_handler(); }`
				}
				return s
			}},
		{name: "global_var",
			probe: `echo isset($c20plain) ? $c20plain : 'unset', ",", isset($GLOBALS['c20g']) ? $GLOBALS['c20g'] : 'unset', ",", isset($GLOBALS['c20g3']) ? $GLOBALS['c20g3'] : 'unset';`,
			touch: func(id string, t touchSpec) string {
				return rep(t.K, func(j int) string {
					return fmt.Sprintf(`$c20plain%s = 'by-%s'; $GLOBALS['c20g%s'] = 'by-%s';`, sfx(j), id, sfx(j), id)
				})
			}},
		sg("_GET"), sg("_POST"), sg("_COOKIE"), sg("_REQUEST"), sg("_SERVER"), sg("_ENV"), sg("_FILES"), sg("_SESSION"),
		{name: "ini_precision",
			probe: `echo ini_get('precision'), "|", 1 / 3;`,
			touch: func(id string, t touchSpec) string {
				// several writes of the same key, the last one wins
				return rep(t.K, func(j int) string { return fmt.Sprintf(`ini_set('precision', '%d');`, 4+t.K-j+1) })
			}},
		{name: "ini_custom",
			probe: `foreach (` + allSfx + ` as $x) { echo var_export(ini_get('c20.custom' . $x), true), "|"; } echo var_export(ini_get('display_errors'), true), "|", var_export(ini_get('memory_limit'), true);`,
			touch: func(id string, t touchSpec) string {
				return rep(t.K, func(j int) string { return fmt.Sprintf(`ini_set('c20.custom%s', 'by-%s-%d');`, sfx(j), id, j) }) +
					` ini_set('display_errors', '0'); ini_set('memory_limit', '77M');`
			}},
		{name: "error_reporting",
			probe: `echo error_reporting();`,
			touch: func(id string, t touchSpec) string {
				return rep(t.K, func(j int) string { return fmt.Sprintf(`error_reporting(%d);`, (t.K-j)*7) })
			}},
		{name: "timezone",
			probe: `echo date_default_timezone_get();`,
			touch: func(id string, t touchSpec) string {
				zones := []string{"Asia/Tokyo", "Europe/Paris", "America/Lima", "Asia/Tokyo"}
				return rep(t.K, func(j int) string { return `date_default_timezone_set('` + zones[(j+t.V)%4] + `');` })
			}},
		{name: "include_once",
			probe: `foreach (` + allSfx + ` as $x) { echo function_exists('c20_inc' . $x) ? 'have' : 'none', ","; }`,
			touch: func(id string, t touchSpec) string {
				stmt := []string{"include_once", "require_once", "include"}[t.V%3]
				return rep(t.K, func(j int) string { return stmt + ` '` + incPaths[j-1] + `';` })
			},
			post: `echo function_exists('c20_inc') ? c20_inc() : 'none', ",", function_exists('c20_inc2') ? c20_inc2() : 'none', ",", function_exists('c20_inc3') ? c20_inc3() : 'none', ",", function_exists('c20_inc4') ? c20_inc4() : 'none';`},
		{name: "include_value",
			// files that RETURN an object / an array, included twice: the value handed out by the
			// second include must be the program's own, whatever an earlier program did with its copy
			probe: `$p1 = require '` + incPaths[4] + `'; $p2 = require '` + incPaths[4] + `'; $q1 = include '` + incPaths[8] + `'; $q2 = include_once '` + incPaths[8] + `'; ` +
				`echo is_object($p1) ? $p1->n . $p1->who : 'noobj', ",", is_object($p2) ? $p2->n . $p2->who : 'noobj', ",", is_array($q1) ? $q1['n'] . $q1['who'] : var_export($q1, true), ",", is_array($q2) ? $q2['n'] . $q2['who'] : var_export($q2, true);`,
			touch: func(id string, t touchSpec) string {
				stmt := []string{"require", "include", "require_once"}[t.V%3]
				return rep(t.K, func(j int) string {
					return fmt.Sprintf(`$c20_rv = %s '%s'; if (is_object($c20_rv)) { $c20_rv->n += 40; $c20_rv->who = 'changed-by-%s'; } $c20_av = %s '%s'; if (is_array($c20_av)) { $c20_av['n'] = 99; }`,
						stmt, incPaths[4+j-1], id, stmt, incPaths[8+j-1])
				})
			},
			post: rep(4, func(j int) string {
				return fmt.Sprintf(`$x = require '%s'; $y = include '%s'; $z = include '%s'; echo is_object($y) ? $y->n . $y->who : 'noobj', "/", is_array($z) ? $z['n'] . $z['who'] : var_export($z, true), ";";`,
					incPaths[4+j-1], incPaths[4+j-1], incPaths[8+j-1])
			})},
		{name: "object_ids",
			probe: `$t = new stdClass(); var_dump($t); echo spl_object_id($t) > 0 ? 'id' : 'noid';`,
			touch: func(id string, t touchSpec) string {
				return `$c20_keep = [` + rep(t.K, func(int) string { return `new C20Same(), new stdClass(),` }) + `]; echo "\n@B|touchout.object_ids\n"; var_dump($c20_keep); echo "\n@E|touchout.object_ids\n";`
			}},
		{name: "autoload",
			probe: `echo count(spl_autoload_functions()), ",", class_exists('C20Missing') ? 'y' : 'n';`,
			touch: func(id string, t touchSpec) string {
				s := rep(t.K, func(j int) string {
					return fmt.Sprintf(`$c20_al%d = function($c) { echo "[autoloader %d of %s: ", $c, "]"; }; spl_autoload_register($c20_al%d);`, j, j, id, j)
				})
				if t.V == 1 {
					s += ` spl_autoload_unregister($c20_al1);`
				}
				return s
			}},
		{name: "shutdown",
			probe: ``,
			touch: func(id string, t touchSpec) string {
				return rep(t.K, func(j int) string {
					return fmt.Sprintf(`register_shutdown_function(function() { echo "[shutdown %d of %s]\n"; });`, j, id)
				})
			}},
		{name: "http_headers",
			probe: `echo var_export(http_response_code(), true), ",", headers_sent() ? 'sent' : 'notsent';`,
			touch: func(id string, t touchSpec) string {
				return `http_response_code(404); ` + rep(t.K, func(j int) string {
					return fmt.Sprintf(`header('X-C20-%d: %s'); header_register_callback(function() { echo "[header-callback %d of %s]"; });`, j, id, j, id)
				})
			}},
		{name: "ob_nested",
			probe: `echo ob_get_level(), ",", strlen(ob_get_contents());`,
			touch: func(id string, t touchSpec) string {
				// K levels opened first, then written and closed innermost-first (all closed again)
				s := rep(t.K, func(int) string { return `ob_start();` })
				s += ` echo "captured-by-` + id + `";`
				s += " " + rep(t.K, func(j int) string {
					if (j+t.V)%2 == 0 {
						return `ob_end_clean();`
					}
					return fmt.Sprintf(`$c20_ob%d = ob_get_clean();`, j)
				})
				return s
			}},
		// tails
		{name: "ob_left_open", tail: true,
			touch: func(id string, t touchSpec) string {
				// K+V levels opened, V of them closed again, K buffers are left open at the end
				s := rep(t.K+t.V, func(int) string { return `ob_start();` })
				if t.V > 0 {
					s += " " + rep(t.V, func(j int) string {
						if j%2 == 0 {
							return `ob_end_clean();`
						}
						return `$c20_t = ob_get_clean();`
					})
				}
				return s + fmt.Sprintf(` echo "[left in buffer level %d by %s]\n";`, t.K, id)
			}},
		{name: "exception_handler", tail: true,
			touch: func(id string, t touchSpec) string {
				s := rep(t.K, func(j int) string {
					return fmt.Sprintf(`set_exception_handler(function($e) { echo "[exception-handler %d of %s: ", $e->getMessage(), "]\n"; });`, j, id)
				})
				if t.V == 1 && t.K > 1 {
					s += ` restore_exception_handler();`
				}
				return s
			}},
		{name: "uncaught", tail: true,
			touch: func(id string, t touchSpec) string { return `throw new Exception("uncaught-in-` + id + `");` }},
	}
	return mods
}

// writeIncFiles writes the 12 helper files of the include modules and returns their paths:
// [0..3] define a function, [4..7] return an object, [8..11] return an array.
func writeIncFiles(dir string) []string {
	var out []string
	for j := 1; j <= 4; j++ {
		out = append(out, writeProg(dir, "c20_inc"+sfx(j), incFileSource(j)))
	}
	for j := 1; j <= 4; j++ {
		out = append(out, writeProg(dir, "c20_ret"+sfx(j), "<?php\n$c20_o = new stdClass();\n$c20_o->n = 1;\n$c20_o->who = 'file"+sfx(j)+"';\nreturn $c20_o;\n"))
	}
	for j := 1; j <= 4; j++ {
		out = append(out, writeProg(dir, "c20_arr"+sfx(j), "<?php\nreturn ['n' => 1, 'who' => 'file"+sfx(j)+"'];\n"))
	}
	return out
}

// incFileSource is the j-th helper file of the include module
func incFileSource(j int) string {
	return "<?php\nfunction c20_inc" + sfx(j) + "() { return 'included" + sfx(j) + "'; }\n"
}

type stateProg struct {
	id      string
	touched []string
	spec    map[string]touchSpec
	src     string
}

func stateDecls(id string) string {
	return `interface C20SameI { const IID = '` + id + `'; }
class C20Same implements C20SameI {
  const ID = '` + id + `';
  public $tag = '` + id + `';
  function id() { return '` + id + `'; }
  static function sid() { return '` + id + `'; }
}
class C20Static {
  public static $n = 0;
  public static $log = [];
  static function bump() { self::$n++; return self::$n; }
}
function c20_same() { return '` + id + `'; }
function c20_counter() { static $k = 0; $k++; return $k; }
`
}

// buildStateProgram renders the program for a given id and set of touched modules.
// usable(name) filters modules (calibration: a module whose observation cannot even be
// executed on a fresh process is left out).
func buildStateProgram(mods []stateMod, id string, touched map[string]touchSpec, usable func(string) bool) *stateProg {
	var sb strings.Builder
	sb.WriteString("<?php\n")
	sb.WriteString(stateDecls(id))
	p := &stateProg{id: id, spec: touched}
	for _, m := range mods {
		if m.probe == "" || !usable(m.name) {
			continue
		}
		sb.WriteString(label("probe."+m.name, m.probe))
	}
	for _, m := range mods {
		t, on := touched[m.name]
		if m.tail || !on || !usable(m.name) {
			continue
		}
		sb.WriteString(m.touch(id, t) + "\n")
		p.touched = append(p.touched, m.name)
	}
	for _, m := range mods {
		if m.tail || !usable(m.name) {
			continue
		}
		obs := m.post
		if obs == "" {
			obs = m.probe
		}
		if obs == "" {
			continue
		}
		sb.WriteString(label("post."+m.name, obs))
	}
	sb.WriteString("echo \"\\n@B|tail\\n\";\n")
	for _, m := range mods {
		t, on := touched[m.name]
		if !m.tail || !on || !usable(m.name) {
			continue
		}
		sb.WriteString(m.touch(id, t) + "\n")
		p.touched = append(p.touched, m.name)
	}
	sb.WriteString("echo \"end of " + id + "\\n\";\n")
	sort.Strings(p.touched)
	p.src = sb.String()
	return p
}

// randomTouchSet: multi(name) tells whether the module may be touched more than once
// (calibration); K is 1..4 (40/30/20/10 %), V 0..2.
func randomTouchSet(r *rand.Rand, mods []stateMod, multi func(string) bool) map[string]touchSpec {
	t := map[string]touchSpec{}
	pr := []int{15, 35, 60}[r.Intn(3)]
	for _, m := range mods {
		p := pr
		if m.tail {
			p = 25
		}
		x := r.Intn(100)
		k := []int{1, 1, 1, 1, 2, 2, 2, 3, 3, 4}[r.Intn(10)]
		v := r.Intn(3)
		if x < p {
			if multi != nil && !multi(m.name) {
				k, v = 1, 0
			}
			t[m.name] = touchSpec{K: k, V: v}
		}
	}
	return t
}
