package main

// State programs (monitor 3 of DESIGN.md §4 C20: "A, then B" on fresh VMs in one process).
//
// Every state program has the same shape and declares the SAME names (class C20Same,
// C20Static, interface C20SameI, functions c20_same / c20_counter) with bodies that carry
// the program's own id:
//
//   declarations
//   probe section : one labelled line per module, reading process-visible state BEFORE the
//                   program touched anything (on a fresh VM these must not depend on history)
//   touch section : the modules selected for this program change that state
//   post section  : the same observations again (now showing the program's own changes)
//   tail          : optionally leaves an output buffer open / ends in an uncaught exception
//
// A module is identified by name; violation keys are leak:<touch module>-><label of the
// observation that changed>.

import (
	"fmt"
	"math/rand"
	"sort"
	"strings"
)

type stateMod struct {
	name  string
	probe string                 // PHP statements printing the observable (no label); "" = none
	touch func(id string) string // PHP statements changing the state
	post  string                 // observation after the touches ("" = same as probe)
	tail  bool                   // the touch must come last (it swallows or ends the output)
}

func sg(name string) stateMod { // superglobal module
	return stateMod{
		name:  "superglobal" + name,
		probe: fmt.Sprintf(`echo isset($%s['c20']) ? $%s['c20'] : 'unset';`, name, name),
		touch: func(id string) string { return fmt.Sprintf(`$%s['c20'] = 'by-%s';`, name, id) },
	}
}

func stateModules(incPath string) []stateMod {
	mods := []stateMod{
		{name: "same_names",
			probe: `$t = new C20Same(); echo $t->id(), ",", C20Same::sid(), ",", C20Same::ID, ",", c20_same(), ",", C20SameI::IID, ",", $t->tag, ",", get_class($t);`,
			touch: func(id string) string { return `$c20_same_obj = new C20Same(); $c20_same_obj->tag = 'changed';` }},
		{name: "static_prop",
			probe: `echo C20Static::$n, ",", count(C20Static::$log);`,
			touch: func(id string) string {
				return `C20Static::bump(); C20Static::bump(); C20Static::$n += 10; C20Static::$log[] = '` + id + `';`
			}},
		{name: "static_local",
			probe: `echo c20_counter();`,
			touch: func(id string) string { return `c20_counter(); c20_counter(); c20_counter();` }},
		{name: "define",
			probe: `echo defined('C20_DEF') ? 'defined' : 'undefined';`,
			touch: func(id string) string { return `define('C20_DEF', 'by-` + id + `');` },
			post:  `echo defined('C20_DEF') ? C20_DEF : 'undefined';`},
		{name: "conditional_decl",
			probe: `echo class_exists('C20Opt') ? 'class' : 'noclass', ",", function_exists('c20_opt') ? 'func' : 'nofunc';`,
			touch: func(id string) string {
				return `if (!class_exists('C20Opt')) { class C20Opt { function id() { return '` + id + `'; } } } if (!function_exists('c20_opt')) { function c20_opt() { return '` + id + `'; } }`
			},
			post: `echo class_exists('C20Opt') ? (new C20Opt())->id() : 'noclass', ",", function_exists('c20_opt') ? c20_opt() : 'nofunc';`},
		{name: "class_alias",
			probe: `echo class_exists('C20Alias') ? 'alias' : 'noalias';`,
			touch: func(id string) string { return `class_alias('C20Same', 'C20Alias');` },
			post:  `echo class_exists('C20Alias') ? (new C20Alias())->id() : 'noalias';`},
		{name: "error_handler",
			probe: `try { trigger_error("c20-probe-warning", E_USER_WARNING); echo "returned"; } catch (\Throwable $e) { echo "thrown:", $e->getMessage(); }`,
			touch: func(id string) string {
				return `set_error_handler(function($no, $str) { echo "[error-handler of ` + id + `: ", $str, "]"; return true; });`
			}},
		{name: "global_var",
			probe: `echo isset($c20plain) ? $c20plain : 'unset', ",", isset($GLOBALS['c20g']) ? $GLOBALS['c20g'] : 'unset';`,
			touch: func(id string) string { return `$c20plain = 'by-` + id + `'; $GLOBALS['c20g'] = 'by-` + id + `';` }},
		sg("_GET"), sg("_POST"), sg("_COOKIE"), sg("_REQUEST"), sg("_SERVER"), sg("_ENV"), sg("_FILES"), sg("_SESSION"),
		{name: "ini_precision",
			probe: `echo ini_get('precision'), "|", 1 / 3;`,
			touch: func(id string) string { return `ini_set('precision', '5');` }},
		{name: "ini_custom",
			probe: `echo var_export(ini_get('c20.custom'), true), "|", var_export(ini_get('display_errors'), true), "|", var_export(ini_get('memory_limit'), true);`,
			touch: func(id string) string {
				return `ini_set('c20.custom', 'by-` + id + `'); ini_set('display_errors', '0'); ini_set('memory_limit', '77M');`
			}},
		{name: "error_reporting",
			probe: `echo error_reporting();`,
			touch: func(id string) string { return `error_reporting(0);` }},
		{name: "timezone",
			probe: `echo date_default_timezone_get();`,
			touch: func(id string) string { return `date_default_timezone_set('Asia/Tokyo');` }},
		{name: "include_once",
			probe: `echo function_exists('c20_inc') ? 'have' : 'none';`,
			touch: func(id string) string { return `include_once '` + incPath + `';` },
			post:  `echo function_exists('c20_inc') ? c20_inc() : 'none';`},
		{name: "object_ids",
			probe: `$t = new stdClass(); var_dump($t); echo spl_object_id($t) > 0 ? 'id' : 'noid';`,
			touch: func(id string) string {
				return `$c20_keep = [new C20Same(), new C20Same(), new stdClass()]; echo "\n@B|touchout.object_ids\n"; var_dump($c20_keep); echo "\n@E|touchout.object_ids\n";`
			}},
		{name: "autoload",
			probe: `echo count(spl_autoload_functions()), ",", class_exists('C20Missing') ? 'y' : 'n';`,
			touch: func(id string) string {
				return `spl_autoload_register(function($c) { echo "[autoloader of ` + id + `: ", $c, "]"; });`
			}},
		{name: "shutdown",
			probe: ``,
			touch: func(id string) string {
				return `register_shutdown_function(function() { echo "[shutdown of ` + id + `]\n"; });`
			}},
		{name: "http_headers",
			probe: `echo var_export(http_response_code(), true), ",", headers_sent() ? 'sent' : 'notsent';`,
			touch: func(id string) string {
				return `header('X-C20: ` + id + `'); http_response_code(404); header_register_callback(function() { echo "[header-callback of ` + id + `]"; });`
			}},
		{name: "ob_nested",
			probe: `echo ob_get_level(), ",", strlen(ob_get_contents());`,
			touch: func(id string) string {
				return `ob_start(); echo "captured-by-` + id + `"; $c20_ob = ob_get_clean();`
			}},
		// tails
		{name: "ob_left_open", tail: true,
			touch: func(id string) string { return `ob_start(); echo "[left in the buffer by ` + id + `]\n";` }},
		{name: "exception_handler", tail: true,
			touch: func(id string) string {
				return `set_exception_handler(function($e) { echo "[exception-handler of ` + id + `: ", $e->getMessage(), "]\n"; });`
			}},
		{name: "uncaught", tail: true,
			touch: func(id string) string { return `throw new Exception("uncaught-in-` + id + `");` }},
	}
	return mods
}

const incFileSource = `<?php
function c20_inc() { return 'included'; }
`

type stateProg struct {
	id      string
	touched []string
	src     string
}

func stateDecls(id string) string {
	return `interface C20SameI { const IID = '` + id + `'; }
class C20Same implements C20SameI {
  const ID = '` + id + `';
  public $tag = '` + id + `';
  function id() { return '` + id + `'; }
  static function sid() { return '` + id + `'; }
}
class C20Static {
  public static $n = 0;
  public static $log = [];
  static function bump() { self::$n++; return self::$n; }
}
function c20_same() { return '` + id + `'; }
function c20_counter() { static $k = 0; $k++; return $k; }
`
}

// buildStateProgram renders the program for a given id and set of touched modules.
// usable(name) filters modules (calibration: a module whose observation cannot even be
// executed on a fresh process is left out).
func buildStateProgram(mods []stateMod, id string, touched map[string]bool, usable func(string) bool) *stateProg {
	var sb strings.Builder
	sb.WriteString("<?php\n")
	sb.WriteString(stateDecls(id))
	p := &stateProg{id: id}
	for _, m := range mods {
		if m.probe == "" || !usable(m.name) {
			continue
		}
		sb.WriteString(label("probe."+m.name, m.probe))
	}
	for _, m := range mods {
		if m.tail || !touched[m.name] || !usable(m.name) {
			continue
		}
		sb.WriteString(m.touch(id) + "\n")
		p.touched = append(p.touched, m.name)
	}
	for _, m := range mods {
		if m.tail || !usable(m.name) {
			continue
		}
		obs := m.post
		if obs == "" {
			obs = m.probe
		}
		if obs == "" {
			continue
		}
		sb.WriteString(label("post."+m.name, obs))
	}
	sb.WriteString("echo \"\\n@B|tail\\n\";\n")
	for _, m := range mods {
		if !m.tail || !touched[m.name] || !usable(m.name) {
			continue
		}
		sb.WriteString(m.touch(id) + "\n")
		p.touched = append(p.touched, m.name)
	}
	sb.WriteString("echo \"end of " + id + "\\n\";\n")
	sort.Strings(p.touched)
	p.src = sb.String()
	return p
}

func randomTouchSet(r *rand.Rand, mods []stateMod) map[string]bool {
	t := map[string]bool{}
	pr := []int{15, 35, 60}[r.Intn(3)]
	for _, m := range mods {
		p := pr
		if m.tail {
			p = 20
		}
		if r.Intn(100) < p {
			t[m.name] = true
		}
	}
	return t
}
