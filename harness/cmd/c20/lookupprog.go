package main

// Lookup programs: names that differ only in letter case. origami resolves class names by an
// exact match first and a case-insensitive scan second (runtime/vm.go findClassCaseInsensitive);
// whichever class the scan answers, it must be the same in every run. Each label names the
// lookup channel, so violation keys are nondet:lookup:<channel>.

import (
	"fmt"
	"math/rand"
	"strings"
)

func caseVariant(r *rand.Rand, base string) string {
	b := []byte(strings.ToLower(base))
	for i := range b {
		if b[i] >= 'a' && b[i] <= 'z' && r.Intn(2) == 0 {
			b[i] -= 32
		}
	}
	return string(b)
}

func genLookupProgram(r *rand.Rand) string {
	var sb strings.Builder
	sb.WriteString("<?php\n")
	ng := 1 + r.Intn(3)
	for g := 0; g < ng; g++ {
		base := fmt.Sprintf("ccase%c%c%c", 'a'+r.Intn(26), 'a'+r.Intn(26), 'a'+r.Intn(26))
		seen := map[string]bool{}
		var declared []string
		n := 2 + r.Intn(3)
		for len(declared) < n {
			v := caseVariant(r, base)
			if seen[v] {
				continue
			}
			seen[v] = true
			declared = append(declared, v)
		}
		var other string
		for {
			other = caseVariant(r, base)
			if !seen[other] {
				break
			}
		}
		for _, d := range declared {
			fmt.Fprintf(&sb, "class %s {\n  const ID = '%s';\n  public $tag = '%s';\n  function who() { return '%s'; }\n  static function sid() { return '%s'; }\n}\n", d, d, d, d, d)
		}
		lab := func(ch, code string) { sb.WriteString(label(fmt.Sprintf("%s.g%d", ch, g), code)) }
		// exact spellings: first check of the lookup, must name the class itself
		lab("new.exact", fmt.Sprintf("$t = new %s(); echo $t->who();", declared[len(declared)-1]))
		// a spelling that was not declared: only the case-insensitive scan can answer
		lab("new.othercase", fmt.Sprintf("$t = new %s(); echo $t->who(), ',', get_class($t), ',', $t->tag;", other))
		lab("static.othercase", fmt.Sprintf("echo %s::sid();", other))
		lab("const.othercase", fmt.Sprintf("echo %s::ID;", other))
		lab("class_exists.othercase", fmt.Sprintf("echo class_exists('%s') ? 'yes' : 'no';", other))
		lab("instanceof.othercase", fmt.Sprintf("$t = new %s(); echo ($t instanceof %s) ? 'yes' : 'no';", declared[0], other))
		lab("dynamic.othercase", fmt.Sprintf("$n = '%s'; $t = new $n(); echo $t->who();", other))
		lab("reflection.othercase", fmt.Sprintf("$t = new ReflectionClass('%s'); echo $t->getName();", other))
		fmt.Fprintf(&sb, "class Ext%d%s extends %s {}\n", g, base, other)
		lab("extends.othercase", fmt.Sprintf("$t = new Ext%d%s(); echo $t->who(), ',', json_encode(class_parents($t));", g, base))
	}
	return sb.String()
}
