package main

// Corpus files (repository's own tests/) admitted to the determinism monitor through the
// committed allow-list corpus_allow.txt: files that use no time/random/environment/network/
// spawn/file-writing builtins. "mask" after the path: the file prints through Log::, whose
// lines carry a wall-clock stamp that is masked before comparison.

import (
	"bufio"
	"os"
	"path/filepath"
	"strings"

	"verif/lib"
)

type corpusFile struct {
	rel    string
	mask   bool
	pinned bool
}

func loadCorpus(e *lib.Env) ([]corpusFile, map[string]any) {
	note := map[string]any{}
	f, err := os.Open(filepath.Join(e.Verif, "harness", "cmd", "c20", "corpus_allow.txt"))
	if err != nil {
		note["error"] = err.Error()
		return nil, note
	}
	defer f.Close()
	var out []corpusFile
	missing := 0
	sc := bufio.NewScanner(f)
	for sc.Scan() {
		line := strings.TrimSpace(sc.Text())
		if line == "" || strings.HasPrefix(line, "#") {
			continue
		}
		fs := strings.Fields(line)
		c := corpusFile{rel: fs[0]}
		for _, o := range fs[1:] {
			switch o {
			case "mask":
				c.mask = true
			case "pinned":
				c.pinned = true
			}
		}
		if _, err := os.Stat(filepath.Join(e.Repo, c.rel)); err != nil {
			missing++
			continue
		}
		out = append(out, c)
	}
	note["allow_listed"] = len(out)
	note["allow_listed_but_missing_in_tree"] = missing
	return out, note
}
