package main

// Insertion-order programs (monitor 2 of DESIGN.md §4 C20).
//
// A program consists of blocks. A block builds ONE container (keyed array, list, stdClass
// object, instance of a user class with declared defaults, instance with promoted
// constructor properties, instance of a derived class) by a seeded sequence of insert /
// overwrite / unset / re-insert operations and then sends the container through every
// enumeration sink. Keys are tokens of the shape k<aa><n>x, every stored value is a distinct
// 4-digit integer, so the key sequence a sink produced can be read back from its output
// whatever the sink's own formatting is.
//
// Oracle per sink instance (only for sinks that *enumerate* the container):
//   - decoded sequence == model sequence                       -> ok
//   - a permutation of the model sequence, but another order   -> ORDER violation
//   - anything else (keys missing, sink prints nothing, error) -> outside the compared
//     domain (that is some other property's business), counted in the evidence
// The model sequence is "insertion order": a new key goes to the end, overwriting keeps the
// place, a key that was removed and inserted again goes to the end. Whether an unset really
// removed the entry is read from a canary enumeration printed right after the unset (an
// unset that does not remove is not an enumeration-order defect).
// Every program is additionally run K times by the determinism monitor.

import (
	"fmt"
	"math/rand"
	"regexp"
	"sort"
	"strings"
)

type sinkSpec struct {
	name   string
	oracle string // "order": full sequence; "first"/"last": one end; "declared": declared keys only; "": determinism only
	code   func(v string) string
	kinds  string // container families the sink applies to: "a" arrays, "o" objects
}

func feKV(expr string) string {
	return fmt.Sprintf(`foreach (%s as $k => $v) { echo $k, "=", $v, ";"; }`, expr)
}

var sinks = []sinkSpec{
	{"foreach", "order", func(v string) string { return feKV(v) }, "ao"},
	{"foreach.v", "order", func(v string) string { return fmt.Sprintf(`foreach (%s as $v) { echo $v, ";"; }`, v) }, "ao"},
	{"json_encode", "order", func(v string) string { return "echo json_encode(" + v + ");" }, "ao"},
	{"var_dump", "order", func(v string) string { return "var_dump(" + v + ");" }, "ao"},
	{"var_export", "order", func(v string) string { return "var_export(" + v + ");" }, "ao"},
	{"serialize", "order", func(v string) string { return "echo serialize(" + v + ");" }, "ao"},
	{"dump", "order", func(v string) string { return "dump(" + v + ");" }, "ao"},
	{"http_build_query", "order", func(v string) string { return "echo http_build_query(" + v + ");" }, "ao"},
	{"array_keys", "order", func(v string) string { return `echo implode(",", array_keys(` + v + `));` }, "a"},
	{"array_values", "order", func(v string) string { return `echo implode(",", array_values(` + v + `));` }, "a"},
	{"implode", "order", func(v string) string { return `echo implode(",", ` + v + `);` }, "a"},
	{"array_walk", "order", func(v string) string {
		return `$t = ` + v + `; array_walk($t, function($v, $k) { echo $k, "=", $v, ";"; });`
	}, "a"},
	{"ArrayIterator", "order", func(v string) string { return feKV("new ArrayIterator(" + v + ")") }, "a"},
	{"iterator_to_array", "order", func(v string) string {
		return "echo json_encode(iterator_to_array(new ArrayIterator(" + v + ")));"
	}, "a"},
	{"cast.object", "order", func(v string) string { return "$t = (object)" + v + "; " + feKV("$t") }, "a"},
	{"copy", "order", func(v string) string { return "$t = " + v + "; " + feKV("$t") }, "a"},
	{"array_key_first", "first", func(v string) string { return "echo array_key_first(" + v + ");" }, "a"},
	{"end", "last", func(v string) string { return "$t = " + v + "; echo end($t);" }, "a"},
	{"array_pop", "last", func(v string) string { return "$t = " + v + "; echo array_pop($t);" }, "a"},
	{"array_shift", "first", func(v string) string { return "$t = " + v + "; echo array_shift($t);" }, "a"},
	// derived arrays: the statement does not fix their order -> determinism only
	{"array_map", "", func(v string) string {
		return "echo json_encode(array_map(function($x) { return $x; }, " + v + "));"
	}, "a"},
	{"array_filter", "", func(v string) string {
		return "echo json_encode(array_filter(" + v + ", function($x) { return $x > 0; }));"
	}, "a"},
	{"array_reverse", "", func(v string) string { return "echo json_encode(array_reverse(" + v + "));" }, "a"},
	{"array_merge", "", func(v string) string {
		return "echo json_encode(array_merge(" + v + ", ['kyy0x' => 7, 'kzz0x' => 8]));"
	}, "a"},
	{"array_merge_recursive", "", func(v string) string {
		return "echo json_encode(array_merge_recursive(" + v + ", ['kyy0x' => 7, 'kzz0x' => 8]));"
	}, "a"},
	{"array_replace", "", func(v string) string {
		return "echo json_encode(array_replace(" + v + ", ['kyy0x' => 7, 'kzz0x' => 8]));"
	}, "a"},
	{"array_replace_recursive", "", func(v string) string {
		return "echo json_encode(array_replace_recursive(" + v + ", ['kyy0x' => 7, 'kzz0x' => 8]));"
	}, "a"},
	{"array_flip", "", func(v string) string { return "echo json_encode(array_flip(" + v + "));" }, "a"},
	{"array_unique", "", func(v string) string { return "echo json_encode(array_unique(" + v + "));" }, "a"},
	{"array_slice", "", func(v string) string { return "echo json_encode(array_slice(" + v + ", 1));" }, "a"},
	{"array_intersect_key", "", func(v string) string {
		return "echo json_encode(array_intersect_key(" + v + ", " + v + "));"
	}, "a"},
	{"array_diff", "", func(v string) string { return "echo json_encode(array_diff(" + v + ", [7]));" }, "a"},
	{"array_combine", "", func(v string) string {
		return "echo json_encode(array_combine(array_keys(" + v + "), array_values(" + v + ")));"
	}, "a"},
	{"array_fill_keys", "", func(v string) string {
		return "echo json_encode(array_fill_keys(array_keys(" + v + "), 7));"
	}, "a"},
	{"ksort", "", func(v string) string { return "$t = " + v + "; ksort($t); echo json_encode($t);" }, "a"},
	{"krsort", "", func(v string) string { return "$t = " + v + "; krsort($t); echo json_encode($t);" }, "a"},
	{"sort", "", func(v string) string { return "$t = " + v + "; sort($t); echo json_encode($t);" }, "a"},
	{"strtr", "", func(v string) string {
		return `echo strtr("kaa0x kbb0x kcc0x", array_combine(array_keys(` + v + `), array_keys(` + v + `)));`
	}, "a"},
	{"extract", "", func(v string) string { return "echo extract(" + v + ");" }, "a"},
	{"json.roundtrip", "", func(v string) string {
		return "echo json_encode(json_decode(json_encode(" + v + "), true));"
	}, "ao"},
	{"json.roundtrip.object", "", func(v string) string {
		return "echo json_encode(json_decode(json_encode(" + v + ")));"
	}, "ao"},
	{"serialize.roundtrip", "", func(v string) string {
		return feKV("unserialize(serialize(" + v + "))")
	}, "ao"},
	// objects
	{"echo", "order", func(v string) string { return "echo " + v + ";" }, "o"},
	{"cast.array", "order", func(v string) string { return "$t = (array)" + v + "; " + feKV("$t") }, "o"},
	{"clone", "order", func(v string) string { return "$t = clone " + v + "; " + feKV("$t") }, "o"},
	{"cast.array.keys", "order", func(v string) string {
		return `echo implode(",", array_keys((array)` + v + `));`
	}, "o"},
	{"reflection.getProperties", "declared", func(v string) string {
		return "$t = new ReflectionClass(" + v + "); echo json_encode($t->getProperties());"
	}, "o"},
	{"reflection.getMethods", "", func(v string) string {
		return "$t = new ReflectionClass(" + v + "); echo json_encode($t->getMethods());"
	}, "o"},
	{"class_implements", "", func(v string) string { return "echo json_encode(class_implements(" + v + "));" }, "o"},
	{"class_parents", "", func(v string) string { return "echo json_encode(class_parents(" + v + "));" }, "o"},
}

var sinkByName = func() map[string]*sinkSpec {
	m := map[string]*sinkSpec{}
	for i := range sinks {
		m[sinks[i].name] = &sinks[i]
	}
	return m
}()

// container kinds
var containerKinds = []string{"arr", "arrlit", "list", "intkeys", "std", "cls", "ctor", "inh"}

func isArrayKind(k string) bool {
	return k == "arr" || k == "arrlit" || k == "list" || k == "intkeys"
}

type opRec struct {
	op     string // set | unset
	key    string
	val    int
	canary string // label of the canary enumeration printed after an unset
}

type blockSpec struct {
	idx      int
	kind     string
	declared []string // declared keys (cls/ctor/inh), in declaration order — for inh: child's own
	ops      []opRec  // operations after construction, in program order
	initial  []string // keys present right after construction, in model order ("" for inh: unknown)
	valKey   map[int]string
	sinks    []string
}

type orderProg struct {
	src    string
	blocks []*blockSpec
}

var keyTokenRe = regexp.MustCompile(`k[a-z]{2}[0-9]{1,2}x`)
var locLineRe = regexp.MustCompile(`(?m)^\S*\.(php|zy):\d+:\s*$`)

func label(id string, code string) string {
	// a sink that raises is confined to its own label
	return fmt.Sprintf("echo \"\\n@B|%s\\n\"; try { %s } catch (\\Throwable $e) { echo \"@ERR\"; } echo \"\\n@E|%s\\n\";\n", id, code, id)
}

type orderGen struct {
	r      *rand.Rand
	nextV  int
	keyN   int
	sb     strings.Builder
	sinkOK func(kind, sink string) bool
}

func (g *orderGen) newKey() string {
	g.keyN++
	return fmt.Sprintf("k%c%c%dx", 'a'+g.r.Intn(26), 'a'+g.r.Intn(26), g.keyN%100)
}

func (g *orderGen) newVal(b *blockSpec, key string) int {
	g.nextV++
	v := 1000 + g.nextV
	b.valKey[v] = key
	return v
}

// genOrderProgram builds one program with nb blocks.
func genOrderProgram(r *rand.Rand, nb int, sinkOK func(kind, sink string) bool, kindOK func(kind string) bool) *orderProg {
	g := &orderGen{r: r, sinkOK: sinkOK}
	p := &orderProg{}
	g.sb.WriteString("<?php\n")
	for bi := 0; bi < nb; bi++ {
		var allowed []string
		for _, k := range containerKinds {
			if kindOK == nil || kindOK(k) {
				allowed = append(allowed, k)
			}
		}
		kind := allowed[r.Intn(len(allowed))]
		b := g.block(bi, kind)
		p.blocks = append(p.blocks, b)
	}
	p.src = g.sb.String()
	return p
}

func (g *orderGen) block(bi int, kind string) *blockSpec {
	b := &blockSpec{idx: bi, kind: kind, valKey: map[int]string{}}
	r := g.r
	v := fmt.Sprintf("$c%d", bi)
	w := func(s string) { g.sb.WriteString(s) }
	// live keys known to the generator (syntactic view, used only to choose operations)
	var live []string
	setStmt := func(key string, val int) string {
		switch {
		case kind == "list" && key == "":
			return fmt.Sprintf("%s[] = %d;\n", v, val)
		case kind == "intkeys" || kind == "list":
			return fmt.Sprintf("%s[%s] = %d;\n", v, key, val)
		case isArrayKind(kind):
			return fmt.Sprintf("%s['%s'] = %d;\n", v, key, val)
		default:
			return fmt.Sprintf("%s->%s = %d;\n", v, key, val)
		}
	}
	unsetStmt := func(key string) string {
		if isArrayKind(kind) {
			if kind == "intkeys" || kind == "list" {
				return fmt.Sprintf("unset(%s[%s]);\n", v, key)
			}
			return fmt.Sprintf("unset(%s['%s']);\n", v, key)
		}
		return fmt.Sprintf("unset(%s->%s);\n", v, key)
	}

	// ---- construction
	switch kind {
	case "arr", "intkeys":
		w(v + " = [];\n")
	case "list":
		w(v + " = [];\n")
	case "arrlit":
		n := 2 + r.Intn(5)
		var parts []string
		for i := 0; i < n; i++ {
			k := g.newKey()
			val := g.newVal(b, k)
			parts = append(parts, fmt.Sprintf("'%s' => %d", k, val))
			b.initial = append(b.initial, k)
			live = append(live, k)
		}
		w(v + " = [" + strings.Join(parts, ", ") + "];\n")
	case "std":
		w(v + " = new stdClass();\n")
	case "cls", "inh":
		cn := fmt.Sprintf("C20K%d", bi)
		n := 2 + r.Intn(6)
		var decl []string
		vis := []string{"public", "public", "public", "protected", "private"}
		var own []string
		for i := 0; i < n; i++ {
			k := g.newKey()
			val := g.newVal(b, k)
			modifier := "public"
			if kind == "cls" && r.Intn(3) == 0 {
				modifier = vis[r.Intn(len(vis))]
			}
			decl = append(decl, fmt.Sprintf("  %s $%s = %d;\n", modifier, k, val))
			own = append(own, k)
		}
		// methods in seeded order: their listing must be deterministic too
		var meths []string
		for _, i := range r.Perm(4 + r.Intn(4)) {
			meths = append(meths, fmt.Sprintf("  function m%c%d() { return %d; }\n", 'a'+i, bi, i))
		}
		if r.Intn(2) == 0 {
			meths = append(meths, fmt.Sprintf("  static function s%d() { return 1; }\n", bi))
		}
		ifs := ""
		ni := r.Intn(4)
		var inames []string
		for i := 0; i < ni; i++ {
			iname := fmt.Sprintf("C20I%d_%c", bi, 'a'+i)
			w("interface " + iname + " {}\n")
			inames = append(inames, iname)
		}
		r.Shuffle(len(inames), func(i, j int) { inames[i], inames[j] = inames[j], inames[i] })
		if len(inames) > 0 {
			ifs = " implements " + strings.Join(inames, ", ")
		}
		if kind == "inh" {
			// parent with its own defaults; which of parent/child comes first is left open by the
			// statement, so blocks of this kind have no order oracle (determinism only)
			pn := cn + "P"
			np := 1 + r.Intn(4)
			w("class " + pn + "G {\n  public $kgg0x = 7;\n}\n")
			w("class " + pn + " extends " + pn + "G {\n")
			for i := 0; i < np; i++ {
				k := g.newKey()
				val := g.newVal(b, k)
				w(fmt.Sprintf("  public $%s = %d;\n", k, val))
			}
			w(fmt.Sprintf("  function pm%d() { return 1; }\n}\n", bi))
			w("class " + cn + " extends " + pn + ifs + " {\n" + strings.Join(decl, "") + strings.Join(meths, "") + "}\n")
			b.initial = nil
		} else {
			w("class " + cn + ifs + " {\n" + strings.Join(decl, "") + strings.Join(meths, "") + "}\n")
			b.initial = append(b.initial, own...)
		}
		b.declared = own
		live = append(live, own...)
		w(v + " = new " + cn + "();\n")
	case "ctor":
		cn := fmt.Sprintf("C20K%d", bi)
		n := 2 + r.Intn(5)
		var params, args []string
		for i := 0; i < n; i++ {
			k := g.newKey()
			dv := g.newVal(b, k)
			modifier := []string{"public", "public", "protected", "private"}[r.Intn(4)]
			params = append(params, fmt.Sprintf("    %s $%s = %d", modifier, k, dv))
			b.initial = append(b.initial, k)
			b.declared = append(b.declared, k)
			live = append(live, k)
			// pass an explicit argument for a prefix of the parameters
			if len(args) == i && r.Intn(3) != 0 {
				args = append(args, fmt.Sprint(g.newVal(b, k)))
			}
		}
		w("class " + cn + " {\n  public function __construct(\n" + strings.Join(params, ",\n") + "\n  ) {}\n}\n")
		w(v + " = new " + cn + "(" + strings.Join(args, ", ") + ");\n")
	}

	// ---- operations
	nops := 3 + r.Intn(8)
	if kind == "inh" || kind == "ctor" || kind == "cls" {
		nops = r.Intn(6)
	}
	var removed []string
	canaryN := 0
	for i := 0; i < nops; i++ {
		choice := r.Intn(10)
		switch {
		case choice < 5 || len(live) == 0: // new key
			var k string
			switch kind {
			case "list":
				k = ""
			case "intkeys":
				k = ""
				for k == "" {
					c := fmt.Sprint(10 + r.Intn(90))
					dup := false
					for _, l := range append(append([]string{}, live...), removed...) {
						if l == c {
							dup = true
						}
					}
					if !dup {
						k = c
					}
				}
			default:
				k = g.newKey()
			}
			mk := k
			if kind == "list" {
				mk = fmt.Sprintf("#%d", len(live)+len(removed)) // model name of the appended slot
			}
			val := g.newVal(b, mk)
			w(setStmt(k, val))
			b.ops = append(b.ops, opRec{op: "set", key: mk, val: val})
			live = append(live, mk)
		case choice < 7: // overwrite
			k := live[r.Intn(len(live))]
			val := g.newVal(b, k)
			w(setStmt(strings.TrimPrefix(k, "#"), val))
			b.ops = append(b.ops, opRec{op: "set", key: k, val: val})
		case choice < 9: // unset (+ canary)
			// candidates: dynamic keys only. Re-adding a *declared* property after unset keeps its
			// declared slot in PHP, so "goes to the end" would demand more than the statement says;
			// removing from a list may renumber (outside C20).
			var cand []int
			for j, k := range live {
				decl := false
				for _, d := range b.declared {
					if d == k {
						decl = true
					}
				}
				if !decl && kind != "list" {
					cand = append(cand, j)
				}
			}
			if len(cand) == 0 {
				continue
			}
			j := cand[r.Intn(len(cand))]
			k := live[j]
			live = append(live[:j], live[j+1:]...)
			removed = append(removed, k)
			w(unsetStmt(k))
			canaryN++
			lab := fmt.Sprintf("%d.canary.u%d", bi, canaryN)
			w(label(lab, sinkByName["foreach"].code(v)))
			b.ops = append(b.ops, opRec{op: "unset", key: k, canary: lab})
		default: // re-insert a removed key
			if len(removed) == 0 {
				continue
			}
			j := r.Intn(len(removed))
			k := removed[j]
			removed = append(removed[:j], removed[j+1:]...)
			val := g.newVal(b, k)
			w(setStmt(k, val))
			b.ops = append(b.ops, opRec{op: "set", key: k, val: val})
			live = append(live, k)
		}
	}

	// ---- sinks: the canary first (plain foreach), then all others in seeded order
	fam := "o"
	if isArrayKind(kind) {
		fam = "a"
	}
	w(label(fmt.Sprintf("%d.canary", bi), sinkByName["foreach"].code(v)))
	order := r.Perm(len(sinks))
	for _, si := range order {
		s := &sinks[si]
		if !strings.Contains(s.kinds, fam) {
			continue
		}
		if g.sinkOK != nil && !g.sinkOK(kind, s.name) {
			continue
		}
		b.sinks = append(b.sinks, s.name)
		w(label(fmt.Sprintf("%d.%s", bi, s.name), s.code(v)))
	}
	return b
}

// ---------------------------------------------------------------------------------
// decoding

// splitLabels cuts the program output into labelled payloads.
func splitLabels(out string) map[string]string {
	m := map[string]string{}
	rest := out
	for {
		i := strings.Index(rest, "\n@B|")
		if i < 0 {
			return m
		}
		rest = rest[i+4:]
		nl := strings.IndexByte(rest, '\n')
		if nl < 0 {
			return m
		}
		id := rest[:nl]
		rest = rest[nl+1:]
		end := "\n@E|" + id + "\n"
		j := strings.Index(rest, end)
		if j < 0 {
			// the program died inside this label
			m[id] = rest + "\x00@UNTERMINATED"
			return m
		}
		m[id] = rest[:j]
		rest = rest[j+len(end)-1:] // keep the trailing newline as the lead of the next marker
	}
}

// decodeSeq reads the key sequence out of a sink payload: key tokens if there are any,
// otherwise the 4-digit value tokens mapped back to their keys. Consecutive repetitions of a
// key are collapsed (a sink may print "key=value").
func decodeSeq(payload string, valKey map[int]string) []string {
	payload = locLineRe.ReplaceAllString(payload, "")
	var seq []string
	push := func(k string) {
		if len(seq) == 0 || seq[len(seq)-1] != k {
			seq = append(seq, k)
		}
	}
	if ks := keyTokenRe.FindAllString(payload, -1); len(ks) > 0 {
		for _, k := range ks {
			push(k)
		}
		return seq
	}
	// maximal digit runs of length 4 that are issued values
	n := len(payload)
	for i := 0; i < n; {
		if payload[i] < '0' || payload[i] > '9' {
			i++
			continue
		}
		j := i
		for j < n && payload[j] >= '0' && payload[j] <= '9' {
			j++
		}
		if j-i == 4 {
			v := 0
			fmt.Sscanf(payload[i:j], "%d", &v)
			if k, ok := valKey[v]; ok {
				push(k)
			}
		}
		i = j
	}
	return seq
}

// modelSeq replays the block's operations; removed(canaryLabel, key) tells whether the unset
// really removed the key (read from the canary).
func modelSeq(b *blockSpec, labels map[string]string) (seq []string, ok bool) {
	if b.kind == "inh" {
		return nil, false
	}
	seq = append(seq, b.initial...)
	idx := func(k string) int {
		for i, s := range seq {
			if s == k {
				return i
			}
		}
		return -1
	}
	for _, op := range b.ops {
		switch op.op {
		case "set":
			if idx(op.key) < 0 {
				seq = append(seq, op.key)
			}
		case "unset":
			pl, have := labels[op.canary]
			if !have {
				return nil, false
			}
			got := decodeSeq(pl, b.valKey)
			still := false
			for _, k := range got {
				if k == op.key {
					still = true
				}
			}
			if !still {
				if i := idx(op.key); i >= 0 {
					seq = append(seq[:i], seq[i+1:]...)
				}
			}
		}
	}
	return seq, true
}

func sameSeq(a, b []string) bool {
	if len(a) != len(b) {
		return false
	}
	for i := range a {
		if a[i] != b[i] {
			return false
		}
	}
	return true
}

func permutationOf(a, b []string) bool {
	if len(a) != len(b) {
		return false
	}
	x := append([]string{}, a...)
	y := append([]string{}, b...)
	sort.Strings(x)
	sort.Strings(y)
	return sameSeq(x, y)
}

// for lists the model names slots "#i"; values map to those names
type orderVerdict struct {
	label, kind, sink string
	status            string // ok | violation | outside
	want, got         []string
}

// judgeOrder applies the order oracle to one run's output. The container's own enumeration
// (plain foreach, the "canary") is compared with the model; the other sinks are judged only in
// runs in which the store itself is in order (for containers without a model — derived
// classes — against the canary of the same run), so that a wrong or unstable store order is
// reported once, as the store's.
func judgeOrder(p *orderProg, out string) []orderVerdict {
	labels := splitLabels(out)
	var res []orderVerdict
	bad := func(pl string, have bool) bool {
		return !have || strings.Contains(pl, "@ERR") || strings.Contains(pl, "@UNTERMINATED")
	}
	for _, b := range p.blocks {
		want, haveModel := modelSeq(b, labels)
		clab := fmt.Sprintf("%d.canary", b.idx)
		cpl, chave := labels[clab]
		var ref []string
		if !bad(cpl, chave) {
			ref = decodeSeq(cpl, b.valKey)
		}
		if haveModel {
			v := orderVerdict{label: clab, kind: b.kind, sink: "store", want: want, got: ref, status: "outside"}
			if sameSeq(ref, want) {
				v.status = "ok"
			} else if permutationOf(ref, want) {
				v.status = "violation"
			}
			res = append(res, v)
			if v.status == "violation" {
				// the store itself is out of order in this run: that is reported once, as the
				// store's; a sink cannot be judged fairly against either sequence (one that lists
				// declared properties in declaration order would be blamed for being right)
				continue
			}
			if !sameSeq(ref, want) {
				ref = want // the canary itself is unusable: fall back to the model
			}
		}
		if len(ref) == 0 || !haveModel {
			// no model (derived classes: the place of inherited properties is left open): the
			// block takes part in the determinism monitor only
			continue
		}
		for _, sn := range b.sinks {
			s := sinkByName[sn]
			if s.oracle == "" {
				continue
			}
			lab := fmt.Sprintf("%d.%s", b.idx, sn)
			pl, have := labels[lab]
			if bad(pl, have) {
				res = append(res, orderVerdict{label: lab, kind: b.kind, sink: sn, status: "outside"})
				continue
			}
			got := decodeSeq(pl, b.valKey)
			v := orderVerdict{label: lab, kind: b.kind, sink: sn, want: ref, got: got, status: "outside"}
			switch s.oracle {
			case "order":
				if sameSeq(got, ref) {
					v.status = "ok"
				} else if permutationOf(got, ref) {
					v.status = "violation"
				}
			case "first", "last":
				if len(got) != 1 {
					break
				}
				e := ref[0]
				if s.oracle == "last" {
					e = ref[len(ref)-1]
				}
				v.want = []string{e}
				in := false
				for _, k := range ref {
					if k == got[0] {
						in = true
					}
				}
				if got[0] == e {
					v.status = "ok"
				} else if in {
					v.status = "violation"
				}
			case "declared":
				if b.kind == "inh" || len(b.declared) == 0 {
					break
				}
				v.want = b.declared
				if sameSeq(got, b.declared) {
					v.status = "ok"
				} else if permutationOf(got, b.declared) {
					v.status = "violation"
				}
			}
			res = append(res, v)
		}
	}
	return res
}
