package main

// The value model shared by all codec sections: a plain Go tree that is independent of
// origami's data package, generators over the property's boundary pools, a shrinker and a
// shape signature used to build seed-independent violation keys.

import (
	"fmt"
	"math"
	"math/rand"
	"sort"
	"strconv"
	"strings"
	"unicode/utf8"
)

type Kind int

const (
	KNull Kind = iota
	KBool
	KInt
	KFloat
	KStr
	KList
	KMap
)

type KV struct {
	K  string // int keys are kept in canonical decimal form
	V  *V
	SK bool // (serialize raw trees only) the key was written as a string token even though it looks like an integer
}

// V is one value. A KMap keeps insertion order.
type V struct {
	K   Kind
	B   bool
	I   int64
	F   float64
	S   string
	L   []*V
	M   []KV
	Obj bool   // (decoded values only) came back as an object rather than a keyed array
	Big bool   // (reference reader only) an integer literal beyond int64, read as float
	Lit string // (reference reader only) the number literal as written
}

func vNull() *V           { return &V{K: KNull} }
func vBool(b bool) *V     { return &V{K: KBool, B: b} }
func vInt(i int64) *V     { return &V{K: KInt, I: i} }
func vFloat(f float64) *V { return &V{K: KFloat, F: f} }
func vStr(s string) *V    { return &V{K: KStr, S: s} }
func vList(l ...*V) *V    { return &V{K: KList, L: l} }
func vMap(kv ...KV) *V    { return &V{K: KMap, M: kv} }

func (v *V) clone() *V {
	c := *v
	if v.L != nil {
		c.L = make([]*V, len(v.L))
		for i, e := range v.L {
			c.L[i] = e.clone()
		}
	}
	if v.M != nil {
		c.M = make([]KV, len(v.M))
		for i, e := range v.M {
			c.M[i] = KV{K: e.K, V: e.V.clone(), SK: e.SK}
		}
	}
	return &c
}

// String renders a value for messages and replay files (Go-ish, bytes escaped).
func (v *V) String() string {
	if v == nil {
		return "<nil>"
	}
	switch v.K {
	case KNull:
		return "null"
	case KBool:
		return strconv.FormatBool(v.B)
	case KInt:
		return "int(" + strconv.FormatInt(v.I, 10) + ")"
	case KFloat:
		return "float(" + strconv.FormatFloat(v.F, 'g', -1, 64) + ")"
	case KStr:
		return strconv.QuoteToASCII(v.S)
	case KList:
		p := make([]string, len(v.L))
		for i, e := range v.L {
			p[i] = e.String()
		}
		return "[" + strings.Join(p, ", ") + "]"
	case KMap:
		p := make([]string, len(v.M))
		for i, e := range v.M {
			p[i] = strconv.QuoteToASCII(e.K) + " => " + e.V.String()
		}
		o := "{"
		if v.Obj {
			o = "obj{"
		}
		return o + strings.Join(p, ", ") + "}"
	}
	return "?"
}

// numEq: the JSON / PHP-array number comparison. Int and float compare numerically and
// exactly (no tolerance); the int/float *type* of integral floats is left open by the
// statement (JSON has one number type) and is not compared.
func numEq(a, b *V) bool {
	switch {
	case a.K == KInt && b.K == KInt:
		return a.I == b.I
	case a.K == KFloat && b.K == KFloat:
		return a.F == b.F || (math.IsNaN(a.F) && math.IsNaN(b.F))
	case a.K == KInt && b.K == KFloat:
		return intLitEqFloat(a, b.F)
	case a.K == KFloat && b.K == KInt:
		return intLitEqFloat(b, a.F)
	}
	return false
}

// intLitEqFloat: an integer literal read back by a reader that knows it wants a float.
func intLitEqFloat(i *V, f float64) bool {
	if i.Lit != "" {
		if x, err := strconv.ParseFloat(i.Lit, 64); err == nil {
			return x == f
		}
	}
	return intEqFloat(i.I, f)
}

func intEqFloat(i int64, f float64) bool {
	if f != math.Trunc(f) || math.IsInf(f, 0) || math.IsNaN(f) {
		return false
	}
	if f >= 9223372036854775808.0 || f < -9223372036854775808.0 {
		return false
	}
	return int64(f) == i && float64(i) == f
}

type eqOpts struct {
	ordered      bool // map key order matters
	listIsMap    bool // PHP-array view: a list equals a map with keys 0..n-1
	strictNumTyp bool // int vs float kinds must match
}

func isNum(v *V) bool { return v.K == KInt || v.K == KFloat }

func pairs(v *V) []KV {
	if v.K == KMap {
		return v.M
	}
	kv := make([]KV, len(v.L))
	for i, e := range v.L {
		kv[i] = KV{K: strconv.Itoa(i), V: e}
	}
	return kv
}

func equal(a, b *V, o eqOpts) bool {
	if isNum(a) && isNum(b) {
		if o.strictNumTyp && a.K != b.K {
			return false
		}
		return numEq(a, b)
	}
	if o.listIsMap && (a.K == KList || a.K == KMap) && (b.K == KList || b.K == KMap) {
		return pairsEqual(pairs(a), pairs(b), o)
	}
	if (a.K == KList || a.K == KMap) && (b.K == KList || b.K == KMap) && len(a.L)+len(a.M)+len(b.L)+len(b.M) == 0 {
		return true // PHP cannot tell an empty list from an empty map
	}
	if a.K != b.K {
		return false
	}
	switch a.K {
	case KNull:
		return true
	case KBool:
		return a.B == b.B
	case KStr:
		return a.S == b.S
	case KList:
		if len(a.L) != len(b.L) {
			return false
		}
		for i := range a.L {
			if !equal(a.L[i], b.L[i], o) {
				return false
			}
		}
		return true
	case KMap:
		return pairsEqual(a.M, b.M, o)
	}
	return false
}

func pairsEqual(a, b []KV, o eqOpts) bool {
	if len(a) != len(b) {
		return false
	}
	if o.ordered {
		for i := range a {
			if a[i].K != b[i].K || !equal(a[i].V, b[i].V, o) {
				return false
			}
		}
		return true
	}
	bm := map[string]*V{}
	for _, e := range b {
		bm[e.K] = e.V
	}
	if len(bm) != len(b) {
		return false
	}
	for _, e := range a {
		x, ok := bm[e.K]
		if !ok || !equal(e.V, x, o) {
			return false
		}
	}
	return true
}

// ---------------------------------------------------------------------------------
// pools

var intPool = []int64{0, 1, -1, 2, -2, 7, 42, 127, 128, 255, 256, 65535, 65536, 1 << 31, -(1 << 31), (1 << 31) - 1, 1 << 32,
	1 << 53, -(1 << 53), (1 << 53) + 1, -(1 << 53) - 1, (1 << 53) - 1, 9007199254740993, 1 << 62,
	math.MaxInt64, math.MinInt64, math.MaxInt64 - 1, math.MinInt64 + 1, 1000000000000000000, 123456789012345678}

var floatPool = []float64{0.0, math.Copysign(0, -1), 1.5, -1.5, 0.1, 0.5, -2.5, 1e-7, -1e-7, 1e21, -1e21, 1e20, 1.0, -1.0, 3.0,
	9007199254740992.0, 9007199254740994.0, 1e15, 123456.789, 1e100, 1.7976931348623157e308, 5e-324, 2.2250738585072014e-308,
	0.30000000000000004, 1e22, 1e-5, 100.0, 3.141592653589793}

// interesting text fragments (valid UTF-8)
var utf8Frags = []string{"", "a", "abc", "hello world", "\"", "\\", "/", "'", "\"\\", "\\\"", "a\"b", "a\\b", "\n", "\r\n", "\t", "\x00", "\x01", "\x1f", "\x7f",
	"\u00e9", "\u00fc", "\u00df", "\u6f22\u5b57", "\u65e5\u672c\u8a9e", "\U0001f600", "\u2028", "\u2029", "\ufffd", "\u00a0", "\ufeff", "\U0001d11e", "<>&", "</script>", "&amp;", "a=b&c=d", "a+b c", "100%", "%41", "%zz",
	";", ":", "{", "}", "\";", "s:1:\"a\";", "i:1;", "N;", "a:0:{}", "null", "true", "0", "-1", "1.5", "1e5", "[", "]", "[1,2]", "{\"a\":1}", " ", "  x  ", "~", "-_.", "*",
	"\u0080", "\u07ff", "\u0800", "\uffff", "\U00010000", "\U0010ffff", "e\u0301", "\u0645\u0631\u062d\u0628\u0627", "\u00dcn\u00efc\u00f6d\u00e9"}

// fragments that are not valid UTF-8
var rawFrags = []string{"\xff", "\xfe", "\x80", "\xc0\xaf", "\xe3\x80", "\xed\xa0\x80", "\xf4\x90\x80\x80", "\xc3", "a\xffb", "\x00\xff\x00"}

func pickStr(r *rand.Rand, utf8only bool) string {
	switch n := r.Intn(20); {
	case n < 4:
		return utf8Frags[r.Intn(len(utf8Frags))]
	case n < 6:
		b := byte(r.Intn(256))
		if utf8only {
			return string(rune(b)) // U+0000..U+00FF as UTF-8
		}
		return string([]byte{b})
	case n < 10:
		// concatenation of fragments
		var sb strings.Builder
		for k := 1 + r.Intn(4); k > 0; k-- {
			if !utf8only && r.Intn(5) == 0 {
				sb.WriteString(rawFrags[r.Intn(len(rawFrags))])
			} else {
				sb.WriteString(utf8Frags[r.Intn(len(utf8Frags))])
			}
		}
		return sb.String()
	case n < 13:
		// ascii word
		l := r.Intn(12)
		b := make([]byte, l)
		for i := range b {
			const alpha = "abcdefghijklmnopqrstuvwxyzABCDEFXYZ0123456789 _-"
			b[i] = alpha[r.Intn(len(alpha))]
		}
		return string(b)
	case n < 16:
		// random runes
		l := 1 + r.Intn(8)
		var sb strings.Builder
		for i := 0; i < l; i++ {
			var c rune
			switch r.Intn(4) {
			case 0:
				c = rune(r.Intn(0x80))
			case 1:
				c = rune(0x80 + r.Intn(0x780))
			case 2:
				c = rune(0x800 + r.Intn(0xf800))
				if c >= 0xd800 && c <= 0xdfff {
					c = 0x4e00
				}
			default:
				c = rune(0x10000 + r.Intn(0x100000))
			}
			sb.WriteRune(c)
		}
		return sb.String()
	case n < 18:
		l := r.Intn(10)
		b := make([]byte, l)
		for i := range b {
			b[i] = byte(r.Intn(256))
		}
		if utf8only {
			return strings.ToValidUTF8(string(b), "?")
		}
		return string(b)
	default:
		// long
		l := 50 + r.Intn(300)
		var sb strings.Builder
		for sb.Len() < l {
			sb.WriteString(utf8Frags[r.Intn(len(utf8Frags))])
		}
		return sb.String()
	}
}

func pickInt(r *rand.Rand) int64 {
	switch r.Intn(4) {
	case 0:
		return int64(r.Intn(201) - 100)
	case 1:
		return int64(r.Uint64())
	default:
		return intPool[r.Intn(len(intPool))]
	}
}

func pickFloat(r *rand.Rand) float64 {
	switch r.Intn(4) {
	case 0:
		return float64(r.Intn(2001)-1000) / 8
	case 1:
		f := math.Float64frombits(r.Uint64())
		if math.IsNaN(f) || math.IsInf(f, 0) {
			return 2.75
		}
		return f
	default:
		return floatPool[r.Intn(len(floatPool))]
	}
}

type genOpts struct {
	utf8only bool // strings are valid UTF-8 (JSON domain)
	floats   bool
	intKeys  bool // allow sparse int-keyed maps
	maxDepth int
}

var keyFrags = []string{"a", "b", "k", "key", "name", "id", "x y", "\u00e9", "\u6f22", "A", "a.b", "a-b", "k\"q", "k\\", "k;", "k:", "\U0001f600", "_", "value", "number", "0a", "a0", "-", "1.5", "-0", "01", "+1", "1e3", " 1"}

func genKey(r *rand.Rand, o genOpts) string {
	if r.Intn(6) == 0 {
		s := pickStr(r, o.utf8only)
		if s != "" && !intLike(s) {
			return s
		}
	}
	return keyFrags[r.Intn(len(keyFrags))]
}

// intLike: the string is the canonical decimal form of a PHP integer key.
func intLike(s string) bool {
	if s == "" || len(s) > 20 {
		return false
	}
	n, err := strconv.ParseInt(s, 10, 64)
	return err == nil && strconv.FormatInt(n, 10) == s
}

func genScalar(r *rand.Rand, o genOpts) *V {
	for {
		switch r.Intn(10) {
		case 0:
			return vNull()
		case 1:
			return vBool(r.Intn(2) == 0)
		case 2, 3, 4:
			return vInt(pickInt(r))
		case 5, 6:
			if !o.floats {
				continue
			}
			return vFloat(pickFloat(r))
		default:
			return vStr(pickStr(r, o.utf8only))
		}
	}
}

func genValue(r *rand.Rand, o genOpts, depth int) *V {
	if depth >= o.maxDepth || r.Intn(3) == 0 {
		return genScalar(r, o)
	}
	n := r.Intn(5)
	if r.Intn(8) == 0 {
		n = 0
	}
	switch r.Intn(5) {
	case 0, 1:
		v := vList()
		v.L = []*V{}
		for i := 0; i < n; i++ {
			v.L = append(v.L, genValue(r, o, depth+1))
		}
		return v
	case 2, 3:
		if n == 0 {
			n = 1
		}
		v := vMap()
		seen := map[string]bool{}
		for i := 0; i < n; i++ {
			k := genKey(r, o)
			if seen[k] {
				continue
			}
			seen[k] = true
			v.M = append(v.M, KV{K: k, V: genValue(r, o, depth+1)})
		}
		return v
	default:
		if !o.intKeys {
			return genValue(r, o, depth)
		}
		if n == 0 {
			n = 1
		}
		v := vMap()
		seen := map[string]bool{}
		base := []int64{3, 10, -5, 100, 1 << 40, 1}[r.Intn(6)]
		for i := 0; i < n; i++ {
			k := strconv.FormatInt(base+int64(r.Intn(7))*int64(1+r.Intn(3)), 10)
			if seen[k] {
				continue
			}
			seen[k] = true
			v.M = append(v.M, KV{K: k, V: genValue(r, o, depth+1)})
		}
		return v
	}
}

func depthOf(v *V) int {
	d := 0
	switch v.K {
	case KList:
		for _, e := range v.L {
			if x := depthOf(e); x > d {
				d = x
			}
		}
		return d + 1
	case KMap:
		for _, e := range v.M {
			if x := depthOf(e.V); x > d {
				d = x
			}
		}
		return d + 1
	}
	return 0
}

func sizeOf(v *V) int {
	n := 1
	for _, e := range v.L {
		n += sizeOf(e)
	}
	for _, e := range v.M {
		n += sizeOf(e.V)
	}
	return n
}

// ---------------------------------------------------------------------------------
// shrinking and shape signatures

// shrinkCandidates lists strictly "smaller" variants of v.
func shrinkCandidates(v *V) []*V {
	var out []*V
	switch v.K {
	case KList:
		for _, e := range v.L {
			out = append(out, e.clone()) // hoist
		}
		for i := range v.L {
			c := v.clone()
			c.L = append(c.L[:i], c.L[i+1:]...)
			out = append(out, c)
		}
		for i := range v.L {
			for _, s := range shrinkCandidates(v.L[i]) {
				c := v.clone()
				c.L[i] = s
				out = append(out, c)
			}
		}
	case KMap:
		for _, e := range v.M {
			out = append(out, e.V.clone())
		}
		for i := range v.M {
			c := v.clone()
			c.M = append(c.M[:i], c.M[i+1:]...)
			if len(c.M) > 0 || true {
				out = append(out, c)
			}
		}
		for i := range v.M {
			if v.M[i].K != "k" && !intLike(v.M[i].K) {
				dup := false
				for _, e := range v.M {
					if e.K == "k" {
						dup = true
					}
				}
				if !dup {
					c := v.clone()
					c.M[i].K = "k"
					out = append(out, c)
				}
			}
			for _, s := range shrinkCandidates(v.M[i].V) {
				c := v.clone()
				c.M[i].V = s
				out = append(out, c)
			}
		}
	case KStr:
		if v.S != "" {
			out = append(out, vStr(""))
			if len(v.S) > 1 {
				out = append(out, vStr(v.S[:len(v.S)/2]), vStr(v.S[len(v.S)/2:]))
				// single runes / bytes
				seen := map[string]bool{}
				for i := 0; i < len(v.S); {
					_, w := utf8.DecodeRuneInString(v.S[i:])
					s := v.S[i : i+w]
					if !seen[s] && len(seen) < 12 {
						seen[s] = true
						out = append(out, vStr(s))
					}
					i += w
				}
			}
			if v.S != "a" {
				out = append(out, vStr("a"))
			}
		}
	case KInt:
		for _, c := range []int64{0, 1, -1} {
			if v.I != c && abs64(c) < abs64(v.I) {
				out = append(out, vInt(c))
			}
		}
	case KFloat:
		for _, c := range []float64{0.5, 1.5} {
			if v.F != c && v.F != 0.5 {
				out = append(out, vFloat(c))
			}
		}
	}
	return out
}

func abs64(i int64) uint64 {
	if i < 0 {
		return uint64(-i)
	}
	return uint64(i)
}

// shrink greedily minimises v while fails(v) stays true. Bounded work.
func shrink(v *V, fails func(*V) bool) *V {
	cur := v
	budget := 3000
	for {
		progress := false
		for _, c := range shrinkCandidates(cur) {
			if budget <= 0 {
				return cur
			}
			budget--
			if weight(c) < weight(cur) && fails(c) {
				cur = c
				progress = true
				break
			}
		}
		if !progress {
			return cur
		}
	}
}

// weight orders values for the shrinker (smaller is simpler).
func weight(v *V) int {
	switch v.K {
	case KNull, KBool:
		return 1
	case KInt:
		if v.I == 0 {
			return 1
		}
		if v.I == 1 || v.I == -1 {
			return 2
		}
		return 3
	case KFloat:
		if v.F == 0.5 {
			return 2
		}
		if v.F == 1.5 {
			return 3
		}
		return 4
	case KStr:
		w := 2 + 2*len(v.S)
		if v.S == "a" {
			w = 3
		}
		return w
	case KList:
		w := 4
		for _, e := range v.L {
			w += 2 + weight(e)
		}
		return w
	case KMap:
		w := 4
		for _, e := range v.M {
			w += 3 + weight(e.V)
			if e.K != "k" {
				w += 1 + len(e.K)
			}
		}
		return w
	}
	return 1
}

// sig is the shape signature of a (shrunk) value: kinds, and the exact content of short
// strings / boundary numbers, so that the key names the failing cell.
func sig(v *V) string {
	switch v.K {
	case KNull:
		return "null"
	case KBool:
		return "bool"
	case KInt:
		switch {
		case v.I >= -1 && v.I <= 1:
			return "int(" + strconv.FormatInt(v.I, 10) + ")"
		case v.I == math.MinInt64:
			return "int(min)"
		case abs64(v.I) > 1<<53:
			return "int(>2^53)"
		default:
			return "int"
		}
	case KFloat:
		switch {
		case v.F == 0 && math.Signbit(v.F):
			return "float(-0)"
		case v.F == math.Trunc(v.F):
			return "float(integral)"
		default:
			return "float"
		}
	case KStr:
		if len(v.S) <= 4 {
			return "str(" + hexs(v.S) + ")"
		}
		return "str#long"
	case KList:
		p := make([]string, len(v.L))
		for i, e := range v.L {
			p[i] = sig(e)
		}
		return "list[" + strings.Join(p, ",") + "]"
	case KMap:
		p := make([]string, len(v.M))
		for i, e := range v.M {
			k := "k"
			if e.K != "k" {
				if intLike(e.K) {
					k = "int"
					if e.SK {
						k = "int-as-string"
					}
				} else if len(e.K) <= 4 {
					k = hexs(e.K)
				} else {
					k = "long"
				}
			}
			p[i] = k + ":" + sig(e.V)
		}
		return "map{" + strings.Join(p, ",") + "}"
	}
	return "?"
}

func hexs(s string) string {
	if s == "" {
		return ""
	}
	printable := true
	for i := 0; i < len(s); i++ {
		if s[i] <= 0x20 || s[i] >= 0x7f || s[i] == '=' || s[i] == ':' {
			printable = false
		}
	}
	if printable {
		return "'" + s + "'"
	}
	return fmt.Sprintf("%x", s)
}

func sortedKeys[T any](m map[string]T) []string {
	k := make([]string, 0, len(m))
	for s := range m {
		k = append(k, s)
	}
	sort.Strings(k)
	return k
}
