package main

// Section "pwire": std/protowire.ParseRawFields and the script-level Protowire::parse /
// encode* helpers against an independent recursive parser written on protowire.Consume*
// that implements the documented option semantics.

import (
	"bytes"
	"fmt"
	"math/rand"
	"reflect"
	"regexp"
	"runtime/debug"
	"sort"
	"strconv"
	"strings"

	"github.com/php-any/origami/data"
	opw "github.com/php-any/origami/std/protowire"
	pw "google.golang.org/protobuf/encoding/protowire"
)

// ---------------------------------------------------------------------------------
// reference parser

type refOpts struct {
	Msg      map[int32]bool
	Packed   map[int32]bool
	ElemType map[int32]int32
	MaxDepth int
}

func (o refOpts) toOrigami() *opw.ParseOptions {
	c := &opw.ParseOptions{MaxDepth: o.MaxDepth}
	if o.Msg != nil {
		c.MessageFields = map[int32]bool{}
		for k, v := range o.Msg {
			c.MessageFields[k] = v
		}
	}
	if o.Packed != nil {
		c.PackedFields = map[int32]bool{}
		for k, v := range o.Packed {
			c.PackedFields[k] = v
		}
	}
	if o.ElemType != nil {
		c.PackedElementType = map[int32]int32{}
		for k, v := range o.ElemType {
			c.PackedElementType[k] = v
		}
	}
	return c
}

func (o refOpts) String() string {
	f := func(m map[int32]bool) string {
		var k []int
		for n, v := range m {
			if v {
				k = append(k, int(n))
			}
		}
		sort.Ints(k)
		return fmt.Sprint(k)
	}
	var et []string
	for n, v := range o.ElemType {
		et = append(et, fmt.Sprintf("%d:%d", n, v))
	}
	sort.Strings(et)
	return fmt.Sprintf("message_fields=%s packed_fields=%s packed_element_type=%v max_depth=%d", f(o.Msg), f(o.Packed), et, o.MaxDepth)
}

type refParser struct {
	o        refOpts
	limit    int            // effective MaxDepth; <0 = unlimited (second pass)
	maxLevel int            // deepest body level entered
	kindsAt  map[int]string // level -> kinds of the bodies entered at that level ("message", "group")
}

func (p *refParser) enter(level int, kind string) bool {
	if p.limit >= 0 && level >= p.limit {
		return false
	}
	if level > p.maxLevel {
		p.maxLevel = level
	}
	if p.kindsAt != nil && !strings.Contains(p.kindsAt[level], kind) {
		p.kindsAt[level] += kind + "+"
	}
	return true
}

// body parses the fields of a message body (group < 0) or of a group body (up to the
// matching end-group tag). It returns the fields and the unconsumed rest.
func (p *refParser) body(b []byte, level int, group pw.Number, kind string) ([]opw.Field, []byte, string) {
	if !p.enter(level, kind) {
		return nil, nil, "max-depth"
	}
	var fields []opw.Field
	for len(b) > 0 {
		num, wt, n := pw.ConsumeTag(b)
		if n < 0 {
			return nil, nil, "bad-tag"
		}
		b = b[n:]
		f := opw.Field{Number: int32(num), WireType: int32(wt)}
		switch wt {
		case pw.VarintType:
			v, n := pw.ConsumeVarint(b)
			if n < 0 {
				return nil, nil, "bad-varint"
			}
			f.Value, b = v, b[n:]
		case pw.Fixed64Type:
			v, n := pw.ConsumeFixed64(b)
			if n < 0 {
				return nil, nil, "bad-fixed64"
			}
			f.Value, b = v, b[n:]
		case pw.Fixed32Type:
			v, n := pw.ConsumeFixed32(b)
			if n < 0 {
				return nil, nil, "bad-fixed32"
			}
			f.Value, b = v, b[n:]
		case pw.BytesType:
			payload, n := pw.ConsumeBytes(b)
			if n < 0 {
				return nil, nil, "bad-length"
			}
			b = b[n:]
			switch {
			case p.o.Packed[int32(num)]:
				et, ok := p.o.ElemType[int32(num)]
				if !ok {
					return nil, nil, "packed-element-type-missing"
				}
				vals, e := refUnpack(payload, et)
				if e != "" {
					return nil, nil, e
				}
				f.Value = vals
			case p.o.Msg[int32(num)]:
				inner, rest, e := p.body(payload, level+1, -1, "message")
				if e != "" {
					return nil, nil, e
				}
				if len(rest) != 0 {
					return nil, nil, "message-rest"
				}
				f.Value = inner
			default:
				f.Value = payload
			}
		case pw.StartGroupType:
			inner, rest, e := p.body(b, level+1, num, "group")
			if e != "" {
				return nil, nil, e
			}
			f.Value, b = inner, rest
		case pw.EndGroupType:
			if group < 0 {
				return nil, nil, "stray-end-group"
			}
			if num != group {
				return nil, nil, "mismatched-end-group"
			}
			return fields, b, ""
		default:
			return nil, nil, "bad-wire-type"
		}
		fields = append(fields, f)
	}
	if group >= 0 {
		return nil, nil, "unterminated-group"
	}
	return fields, b, ""
}

func refUnpack(b []byte, et int32) (any, string) {
	switch et {
	case 0:
		var vals []uint64
		for len(b) > 0 {
			v, n := pw.ConsumeVarint(b)
			if n < 0 {
				return nil, "bad-packed-varint"
			}
			vals, b = append(vals, v), b[n:]
		}
		return vals, ""
	case 5:
		var vals []uint32
		for len(b) > 0 {
			v, n := pw.ConsumeFixed32(b)
			if n < 0 {
				return nil, "bad-packed-fixed32"
			}
			vals, b = append(vals, v), b[n:]
		}
		return vals, ""
	case 1:
		var vals []uint64
		for len(b) > 0 {
			v, n := pw.ConsumeFixed64(b)
			if n < 0 {
				return nil, "bad-packed-fixed64"
			}
			vals, b = append(vals, v), b[n:]
		}
		return vals, ""
	}
	return nil, "bad-packed-element-type"
}

// refParse: the reference verdict for (data, options). For a nesting-limit rejection the
// category says how far beyond the limit the document goes and what kind of body sits at
// the limit, so that an off-by-one in one recursion is told from a missing limit.
func refParse(b []byte, o refOpts) ([]opw.Field, string) {
	lim := o.MaxDepth
	if lim <= 0 {
		lim = 64
	}
	p := &refParser{o: o, limit: lim}
	fields, rest, e := p.body(b, 0, -1, "message")
	if e == "" && len(rest) != 0 {
		e = "rest"
	}
	if e != "max-depth" {
		return fields, e
	}
	q := &refParser{o: o, limit: -1, kindsAt: map[int]string{}}
	_, rest, e2 := q.body(b, 0, -1, "message")
	if e2 != "" {
		return nil, e2 // ill-formed whatever the limit
	}
	if len(rest) != 0 {
		return nil, "rest"
	}
	return nil, fmt.Sprintf("max-depth:excess=%d:bodies-at-limit=%s", q.maxLevel-(lim-1), strings.TrimSuffix(q.kindsAt[lim], "+"))
}

// ---------------------------------------------------------------------------------
// tree generator / encoder

const (
	numMsgLo, numMsgHi = 10, 14
	numGrpLo, numGrpHi = 30, 33
)

var scalarNums = []pw.Number{1, 2, 3, 4, 5, 15, 16, 127, 128, 2047, 2048, 65535, 536870911}
var packedNums = map[pw.Number]int32{20: 0, 21: 5, 22: 1}

var stdOpts = refOpts{
	Msg:      map[int32]bool{10: true, 11: true, 12: true, 13: true, 14: true},
	Packed:   map[int32]bool{20: true, 21: true, 22: true},
	ElemType: map[int32]int32{20: 0, 21: 5, 22: 1},
}

var varintPool = []uint64{0, 1, 127, 128, 300, 16383, 16384, 1<<32 - 1, 1 << 32, 1<<53 + 1, 1<<63 - 1, 1 << 63, 1<<64 - 1}

func genVarint(r *rand.Rand) uint64 {
	if r.Intn(3) == 0 {
		return r.Uint64() >> uint(r.Intn(64))
	}
	return varintPool[r.Intn(len(varintPool))]
}

// genBody appends the encoding of a random message body with nesting at most `room`
// further levels; it returns the number of levels actually used below this body.
func genBody(r *rand.Rand, b []byte, room int, nf int) ([]byte, int) {
	used := 0
	for i := 0; i < nf; i++ {
		k := r.Intn(12)
		if room <= 0 && k >= 8 && k <= 10 {
			k = r.Intn(8)
		}
		switch k {
		case 0, 1, 2:
			b = pw.AppendTag(b, scalarNums[r.Intn(len(scalarNums))], pw.VarintType)
			b = pw.AppendVarint(b, genVarint(r))
		case 3:
			b = pw.AppendTag(b, scalarNums[r.Intn(len(scalarNums))], pw.Fixed32Type)
			b = pw.AppendFixed32(b, uint32(genVarint(r)))
		case 4:
			b = pw.AppendTag(b, scalarNums[r.Intn(len(scalarNums))], pw.Fixed64Type)
			b = pw.AppendFixed64(b, genVarint(r))
		case 5, 6:
			b = pw.AppendTag(b, scalarNums[r.Intn(len(scalarNums))], pw.BytesType)
			b = pw.AppendBytes(b, []byte(pickStr(r, false)))
		case 7, 11:
			nums := []pw.Number{20, 21, 22}
			num := nums[r.Intn(3)]
			var pl []byte
			for j := r.Intn(5); j > 0; j-- {
				switch packedNums[num] {
				case 0:
					pl = pw.AppendVarint(pl, genVarint(r))
				case 5:
					pl = pw.AppendFixed32(pl, uint32(genVarint(r)))
				default:
					pl = pw.AppendFixed64(pl, genVarint(r))
				}
			}
			b = pw.AppendTag(b, num, pw.BytesType)
			b = pw.AppendBytes(b, pl)
		case 8, 9:
			num := pw.Number(numMsgLo + r.Intn(numMsgHi-numMsgLo+1))
			inner, u := genBody(r, nil, room-1, r.Intn(4))
			b = pw.AppendTag(b, num, pw.BytesType)
			b = pw.AppendBytes(b, inner)
			if u+1 > used {
				used = u + 1
			}
		case 10:
			num := pw.Number(numGrpLo + r.Intn(numGrpHi-numGrpLo+1))
			b = pw.AppendTag(b, num, pw.StartGroupType)
			var u int
			b, u = genBody(r, b, room-1, r.Intn(4))
			b = pw.AppendTag(b, num, pw.EndGroupType)
			if u+1 > used {
				used = u + 1
			}
		}
	}
	return b, used
}

// chain builds a nesting chain: kinds[i] is 'm' or 'g' for the i-th container from the
// outside; leaf is the innermost body.
func chain(kinds string, leaf []byte) []byte {
	b := leaf
	for i := len(kinds) - 1; i >= 0; i-- {
		if kinds[i] == 'm' {
			b = pw.AppendBytes(pw.AppendTag(nil, 10, pw.BytesType), b)
		} else {
			x := pw.AppendTag(nil, 30, pw.StartGroupType)
			x = append(x, b...)
			b = pw.AppendTag(x, 30, pw.EndGroupType)
		}
	}
	return b
}

// ---------------------------------------------------------------------------------

type pwSec struct {
	w *Worker
	b *Bridge
}

var digitsRe = regexp.MustCompile(`[0-9]+`)

func errClass(err error) string {
	s := digitsRe.ReplaceAllString(err.Error(), "N")
	s = strings.NewReplacer(" ", "-", ":", "", "(", "", ")", "").Replace(s)
	if len(s) > 120 {
		s = s[:120]
	}
	return s
}

func optsToValue(o refOpts, rp repr) data.Value {
	m := vMap()
	bm := func(x map[int32]bool) *V {
		out := vMap()
		var ks []int
		for k := range x {
			ks = append(ks, int(k))
		}
		sort.Ints(ks)
		for _, k := range ks {
			out.M = append(out.M, KV{K: strconv.Itoa(k), V: vBool(x[int32(k)])})
		}
		return out
	}
	if o.Msg != nil {
		m.M = append(m.M, KV{K: "message_fields", V: bm(o.Msg)})
	}
	if o.Packed != nil {
		m.M = append(m.M, KV{K: "packed_fields", V: bm(o.Packed)})
	}
	if o.ElemType != nil {
		out := vMap()
		var ks []int
		for k := range o.ElemType {
			ks = append(ks, int(k))
		}
		sort.Ints(ks)
		for _, k := range ks {
			out.M = append(out.M, KV{K: strconv.Itoa(k), V: vInt(int64(o.ElemType[int32(k)]))})
		}
		m.M = append(m.M, KV{K: "packed_element_type", V: out})
	}
	if o.MaxDepth != 0 {
		m.M = append(m.M, KV{K: "max_depth", V: vInt(int64(o.MaxDepth))})
	}
	if len(m.M) == 0 {
		return data.NewArrayValue(nil)
	}
	return toData(m, rp)
}

// fieldsToModel converts a reference field tree to the value the documentation promises
// from Protowire::parse: a list of [number, wire_type, value] records.
func fieldsToModel(fs []opw.Field) *V {
	out := vList()
	out.L = []*V{}
	for _, f := range fs {
		var val *V
		switch x := f.Value.(type) {
		case uint64:
			val = vInt(int64(x))
		case uint32:
			val = vInt(int64(x))
		case []byte:
			val = vStr(string(x))
		case []opw.Field:
			val = fieldsToModel(x)
		case []uint64:
			val = vList()
			val.L = []*V{}
			for _, n := range x {
				val.L = append(val.L, vInt(int64(n)))
			}
		case []uint32:
			val = vList()
			val.L = []*V{}
			for _, n := range x {
				val.L = append(val.L, vInt(int64(n)))
			}
		default:
			val = vNull()
		}
		out.L = append(out.L, vMap(KV{K: "number", V: vInt(int64(f.Number))}, KV{K: "wire_type", V: vInt(int64(f.WireType))}, KV{K: "value", V: val}))
	}
	return out
}

func normFields(fs []opw.Field) []opw.Field {
	// nil and empty slices are the same tree
	out := make([]opw.Field, len(fs))
	for i, f := range fs {
		out[i] = f
		switch x := f.Value.(type) {
		case []opw.Field:
			out[i].Value = normFields(x)
		case []byte:
			out[i].Value = append([]byte{}, x...)
		case []uint64:
			out[i].Value = append([]uint64{}, x...)
		case []uint32:
			out[i].Value = append([]uint32{}, x...)
		}
	}
	return out
}

// check runs one (data, options) pair through the Go API and (optionally) the script API.
func (s *pwSec) check(b []byte, o refOpts, script bool) {
	w := s.w
	want, cat := refParse(b, o)
	replay := func() []byte { return []byte(fmt.Sprintf("options: %s\ndata(hex): %x\n", o, b)) }

	var got []opw.Field
	var err error
	var pan any
	var stack string
	func() {
		defer func() {
			if r := recover(); r != nil {
				pan = r
				stack = string(debug.Stack())
			}
		}()
		got, err = opw.ParseRawFields(b, o.toOrigami())
	}()
	switch {
	case pan != nil:
		w.Violation("ParseRawFields:"+panicKey(CallResult{PanicStack: stack}), fmt.Sprintf("ParseRawFields(%x, %s) panics: %v", b, o, pan), "txt", replay())
	case cat == "" && err != nil:
		w.Violation("ParseRawFields:rejects-wellformed:"+errClass(err), fmt.Sprintf("ParseRawFields(%x, %s) fails with %q although the input is well-formed under these options", b, o, err), "txt", replay())
	case cat != "" && err == nil:
		w.Violation("ParseRawFields:accepts-illformed:"+cat, fmt.Sprintf("ParseRawFields(%x, %s) reports success (%d top-level fields) although the reference parser rejects the input: %s", b, o, len(got), cat), "txt", replay())
	case cat == "" && !reflect.DeepEqual(normFields(want), normFields(got)):
		w.Violation("ParseRawFields:wrong-tree:"+treeDiff(want, got), fmt.Sprintf("ParseRawFields(%x, %s) = %v, the reference parser reads %v", b, o, got, want), "txt", replay())
	}
	if cat == "" {
		w.Nontrivial("ok", o.String(), string(b))
	} else {
		w.Nontrivial("bad", o.String(), string(b))
	}
	if !script {
		return
	}
	w.Count("evaluations", 1)
	rp := reprLiteral
	if len(b)%2 == 1 {
		rp = reprSlots
	}
	r := s.b.Call("Protowire::parse(verif_in(0), verif_in(1))", sv(string(b)), optsToValue(o, rp))
	switch {
	case r.Panic != nil:
		w.Violation("Protowire.parse:"+panicKey(r), fmt.Sprintf("Protowire::parse(%x, [%s]) panics in Go: %v", b, o, r.Panic), "txt", replay())
	case r.Other != "":
		w.Violation("Protowire.parse:no-result", fmt.Sprintf("Protowire::parse(%x, [%s]): %s", b, o, r.Other), "txt", replay())
	case cat == "" && r.Thrown:
		w.Violation("Protowire.parse:rejects-wellformed:"+errClass(fmt.Errorf("%s", r.ThrownMsg)), fmt.Sprintf("Protowire::parse(%x, [%s]) throws %q although the input is well-formed under these options", b, o, r.ThrownMsg), "txt", replay())
	case cat != "" && !r.Thrown:
		w.Violation("Protowire.parse:accepts-illformed:"+cat, fmt.Sprintf("Protowire::parse(%x, [%s]) returns %s although the reference parser rejects the input: %s", b, o, describe(r), cat), "txt", replay())
	case cat == "":
		gv, bad := fromData(r.Val)
		if bad != "" || !equal(fieldsToModel(want), gv, eqOpts{ordered: false, strictNumTyp: true}) {
			w.Violation("Protowire.parse:wrong-tree", fmt.Sprintf("Protowire::parse(%x, [%s]) = %s %s, the reference parser reads %s", b, o, describe(r), bad, fieldsToModel(want)), "txt", replay())
		}
	}
}

func treeDiff(a, b []opw.Field) string {
	if len(a) != len(b) {
		return "field-count"
	}
	for i := range a {
		switch {
		case a[i].Number != b[i].Number:
			return "number"
		case a[i].WireType != b[i].WireType:
			return "wire-type"
		case reflect.TypeOf(a[i].Value) != reflect.TypeOf(b[i].Value):
			return fmt.Sprintf("value-type-%T-vs-%T", a[i].Value, b[i].Value)
		}
		if x, ok := a[i].Value.([]opw.Field); ok {
			if d := treeDiff(x, b[i].Value.([]opw.Field)); d != "" {
				return "nested-" + d
			}
			continue
		}
		if !reflect.DeepEqual(normFields(a[i:i+1]), normFields(b[i:i+1])) {
			return "value"
		}
	}
	return ""
}

// overlong re-encodes v as a varint padded to n bytes (n <= 10 is accepted by protowire,
// n = 11 overflows).
func overlong(v uint64, n int) []byte {
	var b []byte
	for i := 0; i < n-1; i++ {
		b = append(b, byte(v&0x7f)|0x80)
		v >>= 7
	}
	return append(b, byte(v&0x7f))
}

func mutatePW(r *rand.Rand, enc []byte, k int) [][]byte {
	var out [][]byte
	ins := func(b []byte, p int, x []byte) []byte {
		return append(b[:p:p], append(append([]byte{}, x...), b[p:]...)...)
	}
	for i := 0; i < k; i++ {
		b := append([]byte{}, enc...)
		p := 0
		if len(b) > 0 {
			p = r.Intn(len(b) + 1)
		}
		switch r.Intn(10) {
		case 0: // stray end-group of a random number
			b = ins(b, p, pw.AppendTag(nil, pw.Number(1+r.Intn(40)), pw.EndGroupType))
		case 1: // unmatched start-group
			b = ins(b, p, pw.AppendTag(nil, pw.Number(1+r.Intn(40)), pw.StartGroupType))
		case 2: // overlong varint field
			x := pw.AppendTag(nil, 1, pw.VarintType)
			x = append(x, overlong(uint64(r.Intn(300)), 2+r.Intn(10))...)
			b = ins(b, p, x)
		case 3: // length overrun
			x := pw.AppendTag(nil, pw.Number(1+r.Intn(25)), pw.BytesType)
			x = pw.AppendVarint(x, uint64(len(b)-p+1+r.Intn(5)))
			b = ins(b, p, x)
		case 4: // flip a byte
			if len(b) > 0 {
				b[r.Intn(len(b))] ^= byte(1 << uint(r.Intn(8)))
			}
		case 5: // delete a byte
			if len(b) > 0 {
				q := r.Intn(len(b))
				b = append(b[:q:q], b[q+1:]...)
			}
		case 6: // wire types 6 and 7, field number 0
			b = ins(b, p, [][]byte{{0x0e}, {0x0f}, {0x00}, {0x06, 0x01}, {0x80}, {0xff, 0xff, 0xff, 0xff, 0xff, 0xff, 0xff, 0xff, 0xff, 0x7f}}[r.Intn(6)])
		case 7: // mismatched end-group: change the number of an existing end tag
			for q := len(b) - 1; q >= 0; q-- {
				if b[q]&7 == 4 && b[q] < 0x80 && r.Intn(3) == 0 {
					b[q] += 8
					break
				}
			}
		case 8: // random byte insert
			b = ins(b, p, []byte{byte(r.Intn(256))})
		default: // truncated fixed-width / huge length
			b = ins(b, p, [][]byte{{0x0d, 1, 2}, {0x09, 1, 2, 3}, {0x0a, 0xff, 0xff, 0xff, 0xff, 0x0f}, {0x0a, 0x80, 0x80, 0x80, 0x80, 0x80, 0x80, 0x80, 0x80, 0x80, 0x01}}[r.Intn(4)])
		}
		if len(b) <= 4096 {
			out = append(out, b)
		}
	}
	return out
}

func runPwire(w *Worker) {
	s := &pwSec{w: w, b: NewBridge("")}
	small := []refOpts{
		{},
		{Msg: map[int32]bool{1: true, 2: true, 3: true}},
		{Packed: map[int32]bool{1: true, 2: true, 3: true}, ElemType: map[int32]int32{1: 0, 2: 5, 3: 1}},
		{Packed: map[int32]bool{1: true}},
		{Msg: map[int32]bool{1: true}, MaxDepth: 1},
		{Msg: map[int32]bool{1: true, 2: false}, Packed: map[int32]bool{3: false, 4: true}, ElemType: map[int32]int32{4: 0}, MaxDepth: 2},
	}

	// enumerated: single bytes and byte pairs under six option sets
	if w.Shard == 0 {
		for c := 0; c < 256; c++ {
			if !w.Begin([]byte{byte(c)}) {
				continue
			}
			for _, o := range small {
				s.check([]byte{byte(c)}, o, true)
			}
			w.Count("evaluations", len(small)-1)
		}
		if w.Begin(nil) {
			for _, o := range small {
				s.check(nil, o, true)
			}
		}
	}
	for i := 0; i < 65536; i++ {
		if !w.Mine(i) {
			continue
		}
		in := []byte{byte(i >> 8), byte(i)}
		if !w.Begin(in) {
			continue
		}
		for k, o := range small {
			s.check(in, o, k < 2 && i%8 == 0)
		}
		w.Count("evaluations", len(small)-1)
	}

	// nested chains x MaxDepth 1..70 x leaf kinds (enumerated completely)
	leaves := [][]byte{
		pw.AppendVarint(pw.AppendTag(nil, 1, pw.VarintType), 7),
		pw.AppendBytes(pw.AppendTag(nil, 20, pw.BytesType), []byte{1, 2, 0xac, 2}),
		pw.AppendBytes(pw.AppendTag(nil, 21, pw.BytesType), []byte{1, 0, 0, 0, 2, 0, 0, 0}),
		pw.AppendBytes(pw.AppendTag(nil, 22, pw.BytesType), []byte{1, 0, 0, 0, 0, 0, 0, 0}),
		nil,
	}
	idx := 0
	for d := 0; d <= 70; d++ {
		var shapes []string
		shapes = append(shapes, strings.Repeat("m", d), strings.Repeat("g", d))
		if d >= 2 {
			shapes = append(shapes, strings.Repeat("mg", d)[:d], strings.Repeat("gm", d)[:d], strings.Repeat("m", d-1)+"g", strings.Repeat("g", d-1)+"m")
		}
		for _, sh := range shapes {
			for md := 0; md <= 70; md++ {
				idx++
				if !w.Mine(idx) {
					continue
				}
				for li, leaf := range leaves {
					// the full depth matrix with the varint leaf; other leaves near the limit only
					if li > 0 && (md < d-1 || md > d+2) {
						continue
					}
					o := stdOpts
					o.MaxDepth = md
					enc := chain(sh, leaf)
					if !w.Begin(enc) {
						continue
					}
					s.check(enc, o, (d+md)%3 == 0)
				}
			}
		}
	}

	// generated trees, parsed under matching and mismatching options, plus mutations
	r := w.Rand("trees")
	n := w.Pick(3000, 100000) / w.N
	for i := 0; i < n; i++ {
		room := []int{0, 1, 2, 3, 5, 8}[r.Intn(6)]
		enc, used := genBody(r, nil, room, 1+r.Intn(6))
		if r.Intn(12) == 0 {
			// a deep spine (up to 70) with a random body at the bottom
			d := 1 + r.Intn(70)
			kinds := make([]byte, d)
			for k := range kinds {
				kinds[k] = "mg"[r.Intn(2)]
			}
			enc = chain(string(kinds), enc)
			used += d
		}
		if len(enc) > 4096 || !w.Begin(enc) {
			continue
		}
		o := stdOpts
		switch r.Intn(5) {
		case 0:
			o.MaxDepth = 0
		case 1:
			o.MaxDepth = used + 1 // exactly enough
		case 2:
			o.MaxDepth = used // one too few (when used > 0)
		default:
			o.MaxDepth = 1 + r.Intn(70)
		}
		s.check(enc, o, true)
		// option variations: no hints; packed hints without element types; other element types
		s.check(enc, refOpts{MaxDepth: o.MaxDepth}, i%4 == 0)
		s.check(enc, refOpts{Msg: stdOpts.Msg, Packed: stdOpts.Packed, MaxDepth: o.MaxDepth}, false)
		s.check(enc, refOpts{Msg: stdOpts.Msg, Packed: stdOpts.Packed, ElemType: map[int32]int32{20: 5, 21: 1, 22: 0}, MaxDepth: o.MaxDepth}, false)
		w.Count("evaluations", 3)
		if len(enc) <= 300 {
			for p := 0; p < len(enc); p++ {
				s.check(enc[:p], o, false)
				w.Count("evaluations", 1)
			}
		}
		for k, m := range mutatePW(r, enc, 30) {
			s.check(m, o, k%5 == 0)
			w.Count("evaluations", 1)
		}
		if i < 2 {
			w.Sample(fmt.Sprintf("%x under %s", enc, o))
		}
	}

	// encode helpers against protowire.Append*
	if w.Shard == 0 {
		s.encodeHelpers()
	}
}

func (s *pwSec) encodeHelpers() {
	w := s.w
	iv := func(i int64) data.Value { return data.NewIntValue(int(i)) }
	cmp := func(fn string, want []byte, args ...data.Value) {
		if !w.Begin(want) {
			return
		}
		var idx []string
		for i := range args {
			idx = append(idx, fmt.Sprintf("verif_in(%d)", i))
		}
		r := s.b.Call("Protowire::"+fn+"("+strings.Join(idx, ", ")+")", args...)
		var as []string
		for _, a := range args {
			as = append(as, a.AsString())
		}
		if r.Panic != nil {
			w.Violation("Protowire."+fn+":"+panicKey(r), fmt.Sprintf("Protowire::%s(%s) panics in Go: %v", fn, strings.Join(as, ", "), r.Panic), "txt", []byte(strings.Join(as, ",")))
			return
		}
		got, ok := asStr(r)
		if !ok || !bytes.Equal([]byte(got), want) {
			w.Violation("Protowire."+fn+":differs-from-protowire.Append", fmt.Sprintf("Protowire::%s(%s) = %x (%s), protowire gives %x", fn, strings.Join(as, ", "), got, describe(r), want), "txt", []byte(strings.Join(as, ",")))
			return
		}
		w.Nontrivial(fn, got)
	}
	for _, i := range intPool {
		cmp("encodeVarint", pw.AppendVarint(nil, uint64(i)), iv(i))
		cmp("encodeFixed64", pw.AppendFixed64(nil, uint64(i)), iv(i))
		if i >= -(1<<31) && i < 1<<32 {
			cmp("encodeFixed32", pw.AppendFixed32(nil, uint32(i)), iv(i))
		}
	}
	for _, num := range []int64{1, 2, 15, 16, 127, 128, 2047, 2048, 19000, 65535, 1 << 20, 536870911} {
		for wt := int64(0); wt <= 5; wt++ {
			cmp("encodeTag", pw.AppendTag(nil, pw.Number(num), pw.Type(wt)), iv(num), iv(wt))
		}
	}
	for c := 0; c < 256; c++ {
		b := []byte{byte(c)}
		cmp("encodeBytes", pw.AppendBytes(nil, b), sv(string(b)))
	}
	for _, l := range []int{0, 1, 127, 128, 300, 4096} {
		b := bytes.Repeat([]byte{0xab}, l)
		cmp("encodeBytes", pw.AppendBytes(nil, b), sv(string(b)))
	}
}
