// C14 — encoders are faithful and decoders total (JSON, serialize, base64, URL, hex,
// hashes, protobuf wire).
//
// The driver (no arguments) re-executes this binary as `worker <section> <shard> <n>`
// children. A worker calls the codec functions in-process through the real script call
// path (bridge.go) and compares with independent references (Go encoding/json,
// encoding/base64, net/url, encoding/hex, crypto/*, protowire.Consume*, a hand-written
// PHP-serialize reader/writer). Go panics are recovered per case; a worker that dies anyway
// (fatal error, out of memory) is attributed to the case recorded in its progress file and
// restarted after it.
package main

import (
	"bufio"
	"encoding/binary"
	"encoding/json"
	"fmt"
	"hash/fnv"
	"math/rand"
	"os"
	"path/filepath"
	"sort"
	"strconv"
	"strings"
	"sync"
	"syscall"
	"time"

	"verif/lib"
)

type sectionDef struct {
	name   string
	shards func(quick bool) int
	run    func(w *Worker)
}

var sections = []sectionDef{
	{"text", func(q bool) int { return pick(q, 4, 16) }, runText},
	{"json", func(q bool) int { return pick(q, 8, 32) }, runJSON},
	{"phpser", func(q bool) int { return pick(q, 8, 32) }, runPhpSer},
	{"pwire", func(q bool) int { return pick(q, 8, 32) }, runPwire},
	{"pwobj", func(q bool) int { return pick(q, 2, 8) }, runPwObj},
	{"built", func(q bool) int { return pick(q, 2, 8) }, runBuilt},
}

func pick(q bool, a, b int) int {
	if q {
		return a
	}
	return b
}

// ---------------------------------------------------------------------------------
// worker side

type record struct {
	T      string         `json:"t"` // v = violation, done = final counters
	Key    string         `json:"key,omitempty"`
	What   string         `json:"what,omitempty"`
	Ext    string         `json:"ext,omitempty"`
	Replay []byte         `json:"replay,omitempty"`
	Counts map[string]int `json:"counts,omitempty"`
	Sample []string       `json:"sample,omitempty"`
}

type Worker struct {
	Section  string
	Shard, N int
	Seed     int64
	Quick    bool
	quar     map[string]bool
	skip     map[int64]bool
	ordinal  int64
	out      *bufio.Writer
	outF     *os.File
	prog     *os.File
	counts   map[string]int
	distinct map[uint64]struct{}
	samples  []string
	seenKeys map[string]int
}

func (w *Worker) Pick(q, t int) int { return pick(w.Quick, q, t) }

func (w *Worker) Rand(stream string) *rand.Rand {
	h := fnv.New64a()
	fmt.Fprintf(h, "%d/C14/%s/%s/%d", w.Seed, w.Section, stream, w.Shard)
	return rand.New(rand.NewSource(int64(h.Sum64())))
}

// Mine reports whether enumerated item i belongs to this shard.
func (w *Worker) Mine(i int) bool { return i%w.N == w.Shard }

func (w *Worker) Quarantined(f string) bool { return w.quar[f] }

// Begin starts a case: it records the case ordinal and its input in the progress file
// (one pwrite) and reports false when the case must be skipped because it killed an
// earlier incarnation of this worker.
func (w *Worker) Begin(input []byte) bool {
	w.ordinal++
	if len(input) > 8192 {
		input = input[:8192]
	}
	buf := make([]byte, 12+len(input))
	binary.LittleEndian.PutUint64(buf, uint64(w.ordinal))
	binary.LittleEndian.PutUint32(buf[8:], uint32(len(input)))
	copy(buf[12:], input)
	_, _ = w.prog.WriteAt(buf, 0)
	if w.skip[w.ordinal] {
		return false
	}
	w.counts["evaluations"]++
	return true
}

func (w *Worker) Count(name string, n int) { w.counts[name] += n }

// Nontrivial records a case that satisfied the non-triviality rule.
func (w *Worker) Nontrivial(parts ...string) {
	h := fnv.New64a()
	for _, p := range parts {
		h.Write([]byte(p))
		h.Write([]byte{0})
	}
	w.distinct[h.Sum64()] = struct{}{}
}

func (w *Worker) Sample(s string) {
	if len(w.samples) < 3 {
		if len(s) > 300 {
			s = s[:300] + "…"
		}
		w.samples = append(w.samples, s)
	}
}

func (w *Worker) Violation(key, what, ext string, replay []byte) {
	w.seenKeys[key]++
	if w.seenKeys[key] > 1 {
		return
	}
	b, _ := json.Marshal(record{T: "v", Key: key, What: what, Ext: ext, Replay: replay})
	w.out.Write(b)
	w.out.WriteByte('\n')
	w.out.Flush()
}

// SeenKey lets a section avoid shrinking the same failure again and again.
func (w *Worker) SeenKey(key string) bool { return w.seenKeys[key] > 0 }

func workerMain(args []string) {
	if len(args) < 3 {
		fmt.Fprintln(os.Stderr, "usage: worker <section> <shard> <n>")
		os.Exit(3)
	}
	// a runaway allocation must kill this worker, not the machine
	lim := syscall.Rlimit{Cur: 8 << 30, Max: 8 << 30}
	_ = syscall.Setrlimit(syscall.RLIMIT_AS, &lim)

	w := &Worker{Section: args[0], counts: map[string]int{}, distinct: map[uint64]struct{}{}, seenKeys: map[string]int{},
		quar: map[string]bool{}, skip: map[int64]bool{}}
	w.Shard, _ = strconv.Atoi(args[1])
	w.N, _ = strconv.Atoi(args[2])
	w.Seed, _ = strconv.ParseInt(os.Getenv("VERIF_SEED"), 10, 64)
	if w.Seed == 0 && os.Getenv("VERIF_SEED") == "" {
		w.Seed = 1
	}
	w.Quick = os.Getenv("VERIF_TIER") != "thorough"
	for _, f := range strings.Split(os.Getenv("C14_QUAR"), ",") {
		if f != "" {
			w.quar[f] = true
		}
	}
	for _, s := range strings.Split(os.Getenv("C14_SKIP"), ",") {
		if n, err := strconv.ParseInt(s, 10, 64); err == nil {
			w.skip[n] = true
		}
	}
	var err error
	w.outF, err = os.OpenFile(os.Getenv("C14_OUT"), os.O_CREATE|os.O_WRONLY|os.O_APPEND, 0o644)
	if err != nil {
		fmt.Fprintln(os.Stderr, "worker: cannot open output:", err)
		os.Exit(3)
	}
	w.out = bufio.NewWriter(w.outF)
	w.prog, err = os.OpenFile(os.Getenv("C14_PROGRESS"), os.O_CREATE|os.O_RDWR|os.O_TRUNC, 0o644)
	if err != nil {
		fmt.Fprintln(os.Stderr, "worker: cannot open progress file:", err)
		os.Exit(3)
	}
	var def *sectionDef
	for i := range sections {
		if sections[i].name == w.Section {
			def = &sections[i]
		}
	}
	if def == nil {
		fmt.Fprintln(os.Stderr, "worker: unknown section", w.Section)
		os.Exit(3)
	}
	def.run(w)
	w.counts["distinct"] = len(w.distinct)
	b, _ := json.Marshal(record{T: "done", Counts: w.counts, Sample: w.samples})
	w.out.Write(b)
	w.out.WriteByte('\n')
	w.out.Flush()
	w.outF.Close()
	os.Exit(0)
}

// ---------------------------------------------------------------------------------
// driver side

type shardJob struct {
	sec   string
	shard int
	n     int
}

func main() {
	if len(os.Args) > 1 && os.Args[1] == "worker" {
		workerMain(os.Args[2:])
		return
	}
	e := lib.Init("C14", "exploration")
	e.RunScriptWitnesses()
	e.Assume(
		"references are trusted: Go encoding/json, encoding/base64, net/url, encoding/hex, crypto/*, protowire.Consume*/Append*",
		"JSON domain: valid UTF-8 strings, finite numbers within int64 / float64; the int-vs-float type of integral floats is not compared",
		"serialize domain: N, b, i, d, s, a (objects and references are outside the compared domain)",
		"protobuf nesting limit: a message or group body at nesting level L (top level = 0) is accepted iff L < MaxDepth",
	)
	self, err := os.Executable()
	if err != nil {
		e.Inconclusive("cannot find own executable: " + err.Error())
		e.Finish(lib.Coverage{})
	}
	var quar []string
	for _, f := range allFeatures {
		if e.Quarantined(f) {
			quar = append(quar, f)
		}
	}

	var jobs []shardJob
	only := os.Getenv("C14_ONLY") // development aid: run one section
	for _, s := range sections {
		if only != "" && only != s.name {
			continue
		}
		n := s.shards(e.Quick())
		for i := 0; i < n; i++ {
			jobs = append(jobs, shardJob{s.name, i, n})
		}
	}
	var mu sync.Mutex
	total := map[string]int{}
	perSection := map[string]map[string]int{}
	var samples []any
	deaths := 0

	lib.ParallelMap(len(jobs), 0, func(j int) {
		job := jobs[j]
		base := filepath.Join(e.Scratch, fmt.Sprintf("%s-%d", job.sec, job.shard))
		outPath, progPath := base+".out", base+".progress"
		var skip []string
		done := false
		for attempt := 0; attempt < 12 && !done; attempt++ {
			_ = os.Remove(outPath + ".cur")
			r := lib.RunProc(lib.ProcSpec{
				Argv:    []string{self, "worker", job.sec, strconv.Itoa(job.shard), strconv.Itoa(job.n)},
				Dir:     e.Scratch,
				Timeout: time.Duration(e.Pick(20, 90)) * time.Minute,
				Env: []string{"C14_OUT=" + outPath + ".cur", "C14_PROGRESS=" + progPath, "C14_SKIP=" + strings.Join(skip, ","),
					"C14_QUAR=" + strings.Join(quar, ","), "VERIF_SEED=" + strconv.FormatInt(e.Seed, 10), "VERIF_TIER=" + e.Tier,
					"GOMAXPROCS=2"},
			})
			recs := readRecords(outPath + ".cur")
			finished := false
			for _, rec := range recs {
				switch rec.T {
				case "v":
					e.Violation(rec.Key, rec.What, rec.Ext, rec.Replay)
				case "done":
					finished = true
					mu.Lock()
					if perSection[job.sec] == nil {
						perSection[job.sec] = map[string]int{}
					}
					for k, v := range rec.Counts {
						total[k] += v
						perSection[job.sec][k] += v
					}
					if len(samples) < 12 {
						for _, s := range rec.Sample {
							samples = append(samples, job.sec+": "+s)
						}
					}
					mu.Unlock()
				}
			}
			if finished {
				done = true
				break
			}
			if r.TimedOut {
				e.Inconclusive(fmt.Sprintf("worker %s/%d: watchdog fired", job.sec, job.shard))
				return
			}
			// the worker died: attribute to the case in the progress file
			ord, input := readProgress(progPath)
			mu.Lock()
			deaths++
			mu.Unlock()
			if ord == 0 {
				e.Inconclusive(fmt.Sprintf("worker %s/%d died before its first case (exit %d): %s", job.sec, job.shard, r.Exit, tail(r.Stderr, 300)))
				return
			}
			site := normSite(lib.PanicSite(firstGoroutine(r.Stderr)))
			if site == "unknown" {
				// the trace never enters origami: a defect of this harness, not a verdict
				e.Inconclusive(fmt.Sprintf("worker %s/%d died outside origami: %s", job.sec, job.shard, head(r.Stderr, 300)))
				return
			}
			what := fmt.Sprintf("the in-process worker of section %s died (exit %d %s) while handling the input below; first lines of the trace: %s",
				job.sec, r.Exit, r.Signal, head(r.Stderr, 400))
			e.Violation("fatal@"+job.sec+":"+site, what, "bin", input)
			skip = append(skip, strconv.FormatInt(ord, 10))
		}
		if !done {
			e.Inconclusive(fmt.Sprintf("worker %s/%d kept dying; shard abandoned", job.sec, job.shard))
		}
	})

	// end-to-end script round trips through the CLI binary
	if only == "" || only == "script" {
		n, d, smp := runScripts(e)
		total["evaluations"] += n
		total["distinct"] += d
		perSection["script"] = map[string]int{"evaluations": n, "distinct": d}
		for _, s := range smp {
			if len(samples) < 12 {
				samples = append(samples, "script: "+s)
			}
		}
	}

	secNames := make([]string, 0, len(perSection))
	for s := range perSection {
		secNames = append(secNames, s)
	}
	sort.Strings(secNames)
	for _, s := range secNames {
		e.Extra("section_"+s, perSection[s])
	}
	e.Extra("worker_deaths", deaths)
	e.Extra("quarantined_generator_features", quar)
	e.Finish(lib.Coverage{
		Evaluations:        total["evaluations"],
		DistinctNontrivial: total["distinct"],
		Rule: "a case counts when a codec function was actually called on it and returned a value or a catchable error that an oracle then judged " +
			"(encoder output read back by the reference / decoder result compared with the reference's accept-reject decision and value); " +
			"distinct = distinct (section, input) hashes per worker shard, summed (shards enumerate disjoint residue classes and draw from disjoint PRNG streams)",
		Samples:    samples,
		Exhaustive: false,
	})
}

func readRecords(path string) []record {
	f, err := os.Open(path)
	if err != nil {
		return nil
	}
	defer f.Close()
	var out []record
	sc := bufio.NewScanner(f)
	sc.Buffer(make([]byte, 1<<20), 64<<20)
	for sc.Scan() {
		var r record
		if json.Unmarshal(sc.Bytes(), &r) == nil {
			out = append(out, r)
		}
	}
	return out
}

func readProgress(path string) (int64, []byte) {
	b, err := os.ReadFile(path)
	if err != nil || len(b) < 12 {
		return 0, nil
	}
	ord := int64(binary.LittleEndian.Uint64(b))
	n := int(binary.LittleEndian.Uint32(b[8:]))
	if 12+n > len(b) {
		n = len(b) - 12
	}
	return ord, b[12 : 12+n]
}

func head(s string, n int) string {
	if len(s) > n {
		s = s[:n]
	}
	return strings.ReplaceAll(s, "\n", " | ")
}

func tail(s string, n int) string {
	if len(s) > n {
		s = s[len(s)-n:]
	}
	return strings.ReplaceAll(s, "\n", " | ")
}

// firstGoroutine cuts a crash report down to the goroutine that crashed.
func firstGoroutine(st string) string {
	i := strings.Index(st, "goroutine ")
	if i < 0 {
		return st
	}
	if j := strings.Index(st[i:], "\n\n"); j >= 0 {
		return st[:i+j]
	}
	return st
}
