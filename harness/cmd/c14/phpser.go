package main

// Section "phpser": serialize / unserialize against a hand-written reader and writer of
// the PHP serialize format (types N, b, i, d, s, a).

import (
	"fmt"
	"math"
	"strconv"
	"strings"

	"github.com/php-any/origami/data"
)

// ---------------------------------------------------------------------------------
// reference reader

type serStatus int

const (
	serOK serStatus = iota
	serIll
	serOutOfDomain
)

type serReader struct {
	b    []byte
	pos  int
	cat  string // first error category
	ood  bool
	nStr int  // string tokens read (keys and values)
	raw  bool // keep repeated keys and the token type of keys (parse tree rather than value)
}

func (p *serReader) fail(cat string) bool {
	if p.cat == "" {
		p.cat = cat
	}
	return false
}

func (p *serReader) lit(s string) bool {
	if p.pos+len(s) <= len(p.b) && string(p.b[p.pos:p.pos+len(s)]) == s {
		p.pos += len(s)
		return true
	}
	return false
}

func (p *serReader) digits() (string, bool) {
	st := p.pos
	for p.pos < len(p.b) && p.b[p.pos] >= '0' && p.b[p.pos] <= '9' {
		p.pos++
	}
	return string(p.b[st:p.pos]), p.pos > st
}

func (p *serReader) value(depth int) (*V, bool) {
	if p.pos >= len(p.b) {
		return nil, p.fail("truncated")
	}
	if depth > 5000 {
		p.ood = true
		return nil, false
	}
	c := p.b[p.pos]
	switch c {
	case 'N':
		if !p.lit("N;") {
			return nil, p.fail("null-syntax")
		}
		return vNull(), true
	case 'b':
		if p.lit("b:0;") {
			return vBool(false), true
		}
		if p.lit("b:1;") {
			return vBool(true), true
		}
		return nil, p.fail("bool-syntax")
	case 'i':
		if !p.lit("i:") {
			return nil, p.fail("int-syntax")
		}
		st := p.pos
		if p.pos < len(p.b) && (p.b[p.pos] == '+' || p.b[p.pos] == '-') {
			p.pos++
		}
		if _, ok := p.digits(); !ok {
			return nil, p.fail("int-syntax")
		}
		txt := string(p.b[st:p.pos])
		if !p.lit(";") {
			return nil, p.fail("int-syntax")
		}
		n, err := strconv.ParseInt(txt, 10, 64)
		if err != nil {
			p.ood = true // out of the int64 range: PHP's own result is platform dependent
			return nil, false
		}
		return vInt(n), true
	case 'd':
		if !p.lit("d:") {
			return nil, p.fail("float-syntax")
		}
		st := p.pos
		for p.pos < len(p.b) && p.b[p.pos] != ';' {
			p.pos++
		}
		txt := string(p.b[st:p.pos])
		if !p.lit(";") {
			return nil, p.fail("float-syntax")
		}
		if txt == "NAN" || txt == "INF" || txt == "-INF" {
			p.ood = true
			return nil, false
		}
		if !phpFloatSyntax(txt) {
			return nil, p.fail("float-syntax")
		}
		f, err := strconv.ParseFloat(txt, 64)
		if err != nil || math.IsInf(f, 0) {
			p.ood = true
			return nil, false
		}
		return vFloat(f), true
	case 's':
		s, ok := p.str()
		if !ok {
			return nil, false
		}
		return vStr(s), true
	case 'a':
		if !p.lit("a:") {
			return nil, p.fail("array-count-syntax")
		}
		ds, ok := p.digits()
		if !ok {
			return nil, p.fail("array-count-syntax")
		}
		if !p.lit(":{") {
			return nil, p.fail("array-open")
		}
		n, err := strconv.ParseUint(ds, 10, 64)
		if err != nil {
			return nil, p.fail("array-count-overrun")
		}
		if n > uint64(len(p.b)) {
			return nil, p.fail("array-count-overrun")
		}
		out := vMap()
		idx := map[string]int{}
		for i := uint64(0); i < n; i++ {
			if p.pos >= len(p.b) {
				return nil, p.fail("truncated")
			}
			var key string
			strKey := false
			switch p.b[p.pos] {
			case 'i':
				k, ok := p.value(depth + 1)
				if !ok {
					return nil, false
				}
				key = strconv.FormatInt(k.I, 10)
			case 's':
				k, ok := p.str()
				if !ok {
					return nil, false
				}
				key = k
				strKey = true
			case '}':
				return nil, p.fail("array-count-overrun")
			case 'N', 'b', 'd', 'a':
				return nil, p.fail("array-key-type") // a value of a type that cannot be a key
			default:
				return nil, p.fail("array-key-garbage")
			}
			v, ok := p.value(depth + 1)
			if !ok {
				return nil, false
			}
			if p.raw {
				out.M = append(out.M, KV{K: key, V: v, SK: strKey})
			} else if j, dup := idx[key]; dup {
				out.M[j].V = v
			} else {
				idx[key] = len(out.M)
				out.M = append(out.M, KV{K: key, V: v})
			}
		}
		if !p.lit("}") {
			if p.pos >= len(p.b) {
				return nil, p.fail("truncated")
			}
			return nil, p.fail("array-close")
		}
		return out, true
	case 'O', 'C', 'R', 'r', 'E', 'S':
		p.ood = true
		return nil, false
	}
	return nil, p.fail("unknown-type-byte")
}

func (p *serReader) str() (string, bool) {
	if !p.lit("s:") {
		return "", p.fail("string-length-syntax")
	}
	ds, ok := p.digits()
	if !ok {
		return "", p.fail("string-length-syntax")
	}
	if !p.lit(":\"") {
		return "", p.fail("string-open")
	}
	n, err := strconv.ParseUint(ds, 10, 64)
	if err != nil || n > uint64(len(p.b)-p.pos) {
		return "", p.fail("string-length-mismatch")
	}
	s := string(p.b[p.pos : p.pos+int(n)])
	p.pos += int(n)
	if !p.lit("\";") {
		return "", p.fail("string-length-mismatch")
	}
	p.nStr++
	return s, true
}

// phpFloatSyntax: iv | nv | (iv|nv)[eE]iv of PHP's var_unserializer.
func phpFloatSyntax(s string) bool {
	mant, exp, hasExp := s, "", false
	if i := strings.IndexAny(s, "eE"); i >= 0 {
		mant, exp, hasExp = s[:i], s[i+1:], true
	}
	isIv := func(x string) bool {
		if x != "" && (x[0] == '+' || x[0] == '-') {
			x = x[1:]
		}
		if x == "" {
			return false
		}
		for i := 0; i < len(x); i++ {
			if x[i] < '0' || x[i] > '9' {
				return false
			}
		}
		return true
	}
	isNv := func(x string) bool {
		if x != "" && (x[0] == '+' || x[0] == '-') {
			x = x[1:]
		}
		i := strings.IndexByte(x, '.')
		if i < 0 {
			return false
		}
		a, b := x[:i], x[i+1:]
		if a == "" && b == "" {
			return false
		}
		for _, part := range []string{a, b} {
			for k := 0; k < len(part); k++ {
				if part[k] < '0' || part[k] > '9' {
					return false
				}
			}
		}
		return true
	}
	if hasExp && !isIv(exp) {
		return false
	}
	return isIv(mant) || isNv(mant)
}

// refUnser reads one complete document.
func refUnser(b []byte) (*V, serStatus, string) {
	p := &serReader{b: b}
	v, ok := p.value(0)
	if p.ood {
		return nil, serOutOfDomain, ""
	}
	if !ok {
		cat := p.cat
		t := strings.TrimSpace(string(b))
		if t != string(b) {
			if _, st, _ := refUnser([]byte(t)); st == serOK {
				cat = "surrounding-whitespace"
			}
		}
		return nil, serIll, cat
	}
	if p.pos != len(b) {
		rest := string(b[p.pos:])
		if strings.TrimSpace(rest) == "" {
			return nil, serIll, "surrounding-whitespace"
		}
		return nil, serIll, "trailing-bytes"
	}
	return v, serOK, ""
}

// canonArr normalises a value read back from origami to the PHP array view used by the
// reference reader: every list/map becomes a map with canonical keys.
func canonArr(v *V) *V {
	switch v.K {
	case KList, KMap:
		out := vMap()
		for _, e := range pairs(v) {
			out.M = append(out.M, KV{K: e.K, V: canonArr(e.V)})
		}
		return out
	}
	return v
}

// ---------------------------------------------------------------------------------
// reference writer

type sstyle struct {
	plusInt   bool // i:+5;
	expFloat  bool // d:1.5E+0;
	padCounts bool // a:02:{ … (leading zeros in counts/lengths)
}

func (s sstyle) tag() string {
	var p []string
	if s.plusInt {
		p = append(p, "plus-sign")
	}
	if s.expFloat {
		p = append(p, "exponent-floats")
	}
	if s.padCounts {
		p = append(p, "zero-padded-counts")
	}
	if len(p) == 0 {
		return "plain"
	}
	return strings.Join(p, "+")
}

func writeSer(sb *strings.Builder, v *V, st sstyle) {
	cnt := func(n int) string {
		if st.padCounts {
			return "0" + strconv.Itoa(n)
		}
		return strconv.Itoa(n)
	}
	wstr := func(s string) {
		sb.WriteString("s:" + cnt(len(s)) + ":\"")
		sb.WriteString(s)
		sb.WriteString("\";")
	}
	switch v.K {
	case KNull:
		sb.WriteString("N;")
	case KBool:
		if v.B {
			sb.WriteString("b:1;")
		} else {
			sb.WriteString("b:0;")
		}
	case KInt:
		if st.plusInt && v.I >= 0 {
			sb.WriteString("i:+" + strconv.FormatInt(v.I, 10) + ";")
		} else {
			sb.WriteString("i:" + strconv.FormatInt(v.I, 10) + ";")
		}
	case KFloat:
		if st.expFloat {
			sb.WriteString("d:" + strconv.FormatFloat(v.F, 'E', -1, 64) + ";")
		} else {
			s := strconv.FormatFloat(v.F, 'f', -1, 64)
			if len(s) > 40 {
				s = strconv.FormatFloat(v.F, 'E', -1, 64)
			}
			sb.WriteString("d:" + s + ";")
		}
	case KStr:
		wstr(v.S)
	case KList, KMap:
		ps := pairs(v)
		sb.WriteString("a:" + cnt(len(ps)) + ":{")
		for _, e := range ps {
			if intLike(e.K) && !e.SK {
				sb.WriteString("i:" + e.K + ";")
			} else {
				wstr(e.K)
			}
			writeSer(sb, e.V, st)
		}
		sb.WriteString("}")
	}
}

func serText(v *V, st sstyle) string {
	var sb strings.Builder
	writeSer(&sb, v, st)
	return sb.String()
}

// ---------------------------------------------------------------------------------

type serSec struct {
	w *Worker
	b *Bridge
}

type serOutcome int

const (
	soOK serOutcome = iota
	soCrash
	soNoResult
	soRejected
	soWrong
	soOdd
)

func (o serOutcome) String() string {
	return [...]string{"ok", "crash", "throws", "rejects-wellformed", "wrong-value", "odd-result"}[o]
}

var serEq = eqOpts{ordered: true, listIsMap: true}

// judgeUnser: unserialize(text) for a well-formed in-domain text with value want.
func (s *serSec) judgeUnser(text string, want *V) (serOutcome, CallResult) {
	r := s.b.Call("unserialize(verif_in(0))", sv(text))
	switch {
	case r.Panic != nil:
		return soCrash, r
	case !r.HasVal:
		return soNoResult, r
	}
	got, bad := fromData(r.Val)
	if bad != "" {
		return soOdd, r
	}
	if got.K == KBool && !got.B && !(want.K == KBool && !want.B) {
		return soRejected, r
	}
	if !equal(canonArr(want), canonArr(got), serEq) {
		return soWrong, r
	}
	return soOK, r
}

// features of a value that matter to the known defects of the reader
func countStrings(v *V) int {
	n := 0
	if v.K == KStr {
		n++
	}
	for _, e := range v.L {
		n += countStrings(e)
	}
	for _, e := range v.M {
		if !intLike(e.K) {
			n++
		}
		n += countStrings(e.V)
	}
	return n
}

// dedupe turns a parse tree (repeated keys kept) into the value it denotes: the last
// occurrence of a key wins and keeps the first position.
func dedupe(v *V) *V {
	switch v.K {
	case KList:
		out := vList()
		out.L = []*V{}
		for _, e := range v.L {
			out.L = append(out.L, dedupe(e))
		}
		return out
	case KMap:
		out := vMap()
		idx := map[string]int{}
		for _, e := range v.M {
			d := dedupe(e.V)
			if j, dup := idx[e.K]; dup {
				out.M[j].V = d
			} else {
				idx[e.K] = len(out.M)
				out.M = append(out.M, KV{K: e.K, V: d})
			}
		}
		return out
	}
	return v
}

func rawTree(text string) *V {
	p := &serReader{b: []byte(text), raw: true}
	v, ok := p.value(0)
	if !ok || p.ood || p.pos != len(p.b) {
		return nil
	}
	return v
}

func countStrTokens(text string) int {
	p := &serReader{b: []byte(text)}
	p.value(0)
	return p.nStr
}

// reportUnser turns a failed unserialize of a well-formed document into a keyed violation.
// The document's parse tree (repeated keys and key token types kept) is shrunk while its
// plain re-rendering keeps failing the same way, so that the key names a minimal cause even
// when several defects are present in one document.
func (s *serSec) reportUnser(text string, want *V, st sstyle, oc serOutcome, r CallResult) {
	w := s.w
	pre := "unserialize:"
	if oc == soCrash {
		w.Violation(pre+panicKey(r), fmt.Sprintf("unserialize(%q) panics in Go: %v", text, r.Panic), "ser", []byte(text))
		return
	}
	fails := func(t *V) bool {
		o2, _ := s.judgeUnser(serText(t, sstyle{}), dedupe(t))
		return o2 == oc
	}
	tree := rawTree(text)
	if tree == nil {
		tree = want
	}
	if fails(tree) {
		min := shrink(tree, fails)
		mt := serText(min, sstyle{})
		if countStrTokens(mt) >= 2 {
			w.Violation(pre+oc.String()+":multiple-strings", fmt.Sprintf("unserialize(%q) = %s; the document's value is %s. Minimal failing document %q: a string token that is followed by another double quote later in the document is not read correctly", text, describe(r), want, mt), "ser", []byte(text))
			return
		}
		w.Violation(pre+oc.String()+":"+sig(min), fmt.Sprintf("unserialize(%q) = %s; the document's value is %s (minimal failing document %q)", text, describe(r), want, mt), "ser", []byte(text))
		return
	}
	w.Violation(pre+oc.String()+":text-form:"+st.tag(), fmt.Sprintf("unserialize(%q) = %s; the document's value is %s and its plain rendering is read correctly", text, describe(r), want), "ser", []byte(text))
}

// classifyAccept refines the reference reader's rejection category of an input that
// unserialize accepted, separating the independent causes (see NOTES.md).
func classifyAccept(in, cat string) string {
	trimmed := strings.TrimSpace(in)
	topStr := strings.HasPrefix(trimmed, "s:")
	switch {
	case cat == "surrounding-whitespace":
		if topStr && strings.HasPrefix(in, "s:") {
			// accepted by TrimSpace and, independently, by the top-level string fallback
			return "top-level-string-trailing-whitespace"
		}
		return cat
	case cat == "array-key-type":
		return cat
	case strings.Contains(in, "s:") && strings.Contains(in, "\""):
		// a string token is present: its extent is what the reader gets wrong
		if topStr {
			return "string-scan:top-level-string:" + cat
		}
		return "string-scan:nested:" + cat
	}
	return cat
}

type serEncOutcome int

const (
	seOK serEncOutcome = iota
	seCrash
	seFalse
	seNoString
	seIll
	seWrong
)

func (o serEncOutcome) String() string {
	return [...]string{"ok", "crash", "returns-false", "non-string-result", "ill-formed-output", "reads-back-differently"}[o]
}

func (s *serSec) judgeSer(v *V, rp repr) (serEncOutcome, CallResult, string) {
	r := s.b.Call("serialize(verif_in(0))", toData(v, rp))
	if r.Panic != nil {
		return seCrash, r, ""
	}
	if r.HasVal {
		if bv, ok := r.Val.(*data.BoolValue); ok && !bv.Value {
			return seFalse, r, ""
		}
	}
	out, ok := asStr(r)
	if !ok {
		return seNoString, r, ""
	}
	got, st, _ := refUnser([]byte(out))
	if st != serOK {
		return seIll, r, out
	}
	if !equal(canonArr(v), got, serEq) {
		return seWrong, r, out
	}
	return seOK, r, out
}

func (s *serSec) encodeCase(v *V) {
	w := s.w
	for _, rp := range []repr{reprLiteral, reprSlots} {
		if rp == reprSlots && !hasMap(v) {
			continue
		}
		oc, r, out := s.judgeSer(v, rp)
		pre := "serialize:" + reprName(rp) + ":"
		if oc == seOK {
			w.Nontrivial("ser", reprName(rp), out)
			// round trip through the script decoder
			if o2, r2 := s.judgeUnser(out, v); o2 != soOK {
				s.reportUnser(out, v, sstyle{}, o2, r2)
			}
			continue
		}
		if oc == seCrash {
			w.Violation(pre+panicKey(r), fmt.Sprintf("serialize(%s) panics in Go: %v", v, r.Panic), "txt", []byte(v.String()))
			continue
		}
		if rp == reprSlots {
			if o1, _, _ := s.judgeSer(v, reprLiteral); o1 == oc {
				continue // same failure as the literal form of the same value, already reported there
			}
			if got, st, _ := refUnser([]byte(out)); st == serOK && equal(canonArr(dropKeys(v)), got, serEq) {
				w.Violation(pre+"keys-dropped", fmt.Sprintf("serialize of the keyed array %s (the form that $a['k']=v and json_decode(…, true) build) = %q: the keys are replaced by 0..n-1", v, out), "txt", []byte(v.String()))
				continue
			}
		}
		min := shrink(v, func(c *V) bool {
			if rp == reprSlots && !hasMap(c) {
				return false
			}
			o2, _, _ := s.judgeSer(c, rp)
			return o2 == oc
		})
		_, rmin, _ := s.judgeSer(min, rp)
		w.Violation(pre+oc.String()+":"+sig(min), fmt.Sprintf("serialize(%s) = %s; minimal failing value %s gives %s", v, describe(r), min, describe(rmin)), "txt", []byte(v.String()))
	}
}

func (s *serSec) decodeCase(v *V, st sstyle) {
	text := serText(v, st)
	if want, status, _ := refUnser([]byte(text)); status != serOK || !equal(canonArr(v), want, serEq) {
		s.w.Count("harness_selfcheck_failed", 1)
		return
	}
	if oc, r := s.judgeUnser(text, v); oc != soOK {
		s.reportUnser(text, v, st, oc, r)
	} else {
		s.w.Nontrivial("unser", text)
	}
}

// rawCase: arbitrary bytes into unserialize.
func (s *serSec) rawCase(in string) {
	w := s.w
	want, status, cat := refUnser([]byte(in))
	r := s.b.Call("unserialize(verif_in(0))", sv(in))
	pre := "unserialize:"
	if r.Panic != nil {
		w.Violation(pre+panicKey(r), fmt.Sprintf("unserialize(%q) panics in Go: %v", in, r.Panic), "ser", []byte(in))
		return
	}
	w.Nontrivial("raw", in)
	if !r.HasVal {
		if status == serOK && !(want.K == KBool && !want.B) {
			w.Violation(pre+"throws-on-wellformed", fmt.Sprintf("unserialize(%q): %s", in, describe(r)), "ser", []byte(in))
		}
		return
	}
	got, bad := fromData(r.Val)
	if bad != "" {
		w.Violation(pre+"odd-result", fmt.Sprintf("unserialize(%q) returns %s", in, bad), "ser", []byte(in))
		return
	}
	rejected := got.K == KBool && !got.B
	switch status {
	case serIll:
		if !rejected {
			cat = classifyAccept(in, cat)
			w.Violation(pre+"accepts-illformed:"+cat, fmt.Sprintf("unserialize(%q) = %s although the input is not a well-formed serialize document (%s)", in, got, cat), "ser", []byte(in))
		}
	case serOK:
		if want.K == KBool && !want.B {
			return
		}
		oc := soOK
		if rejected {
			oc = soRejected
		} else if !equal(canonArr(want), canonArr(got), serEq) {
			oc = soWrong
		}
		if oc != soOK {
			s.reportUnser(in, want, sstyle{}, oc, r)
		}
	}
}

var serInserts = []string{";", ":", "\"", "{", "}", "N;", "i:0;", "i:1", "s:0:\"\";", "s:1:\"", "a:1:{", "b:2;", "b:1", "d:0.5;", "d:.;", "d:1e;", "i:-;", "i:+1;", "i:01;", "i: 1;", " ", "\n", "\x00", "\xff", "0", "9", "-",
	"O:8:\"stdClass\":0:{}", "R:1;", "i:99999999999999999999;", "s:-1:\"", "a:-1:{", "a:0:{};", "a:0:{}", "S:1:\"a\";", "n;", "B:1;", "I:1;"}

func mutateSer(r interface{ Intn(int) int }, text string, k int) []string {
	out := []string{}
	for i := 0; i < k; i++ {
		b := []byte(text)
		switch r.Intn(8) {
		case 0, 1:
			p := r.Intn(len(b) + 1)
			ins := serInserts[r.Intn(len(serInserts))]
			b = append(b[:p:p], append([]byte(ins), b[p:]...)...)
		case 2:
			if len(b) > 0 {
				p := r.Intn(len(b))
				b = append(b[:p:p], b[p+1:]...)
			}
		case 3:
			if len(b) > 0 {
				b[r.Intn(len(b))] = byte(r.Intn(256))
			}
		case 4:
			if len(b) > 0 {
				b[r.Intn(len(b))] = `;:"{}0123456789-+.Nibsda `[r.Intn(25)]
			}
		case 5: // change a digit (lengths and counts)
			var ds []int
			for p, c := range b {
				if c >= '0' && c <= '9' {
					ds = append(ds, p)
				}
			}
			if len(ds) > 0 {
				p := ds[r.Intn(len(ds))]
				b[p] = byte('0' + r.Intn(10))
			}
		case 6:
			if len(b) > 1 {
				p := r.Intn(len(b) - 1)
				b[p], b[p+1] = b[p+1], b[p]
			}
		default:
			ins := serInserts[r.Intn(len(serInserts))]
			if r.Intn(2) == 0 {
				b = append([]byte(ins), b...)
			} else {
				b = append(b, ins...)
			}
		}
		out = append(out, string(b))
	}
	return out
}

var serEdgeTexts = []string{"N;", "b:0;", "b:1;", "b:2;", "i:0;", "i:-0;", "i:+5;", "i:05;", "i:9223372036854775807;", "i:-9223372036854775808;", "i:9223372036854775808;",
	"d:0.5;", "d:1;", "d:-0;", "d:1.0E+25;", "d:1e3;", "d:.5;", "d:5.;", "d:.;", "d:1.5", "d:INF;", "d:NAN;", "s:0:\"\";", "s:1:\"a\";", "s:5:\"a\";", "s:0:\"a\";", "s:1:\"\"\";", "s:3:\"\";\";", "s:1:\"a\"", "s:1:a;", "s:+1:\"a\";",
	"a:0:{}", "a:0:{};", "a:1:{i:0;i:1;}", "a:1:{i:0;i:1;};", "a:2:{i:0;i:1;}", "a:1:{i:0;i:1;i:1;i:2;}", "a:2:{i:0;s:1:\"a\";i:1;s:1:\"b\";}", "a:1:{s:1:\"k\";s:1:\"v\";}", "a:1:{i:5;i:1;}",
	"a:2:{i:1;i:1;i:0;i:2;}", "a:2:{i:0;i:1;i:0;i:2;}", "a:1:{N;i:1;}", "a:1:{b:1;i:1;}", "a:1:{d:0.5;i:1;}", "a:1:{a:0:{}i:1;}", "a:1:{i:0;a:1:{i:0;a:1:{i:0;a:1:{i:0;N;}}}}",
	" i:5;", "i:5; ", "\ni:5;\n", "i:5;junk", "i:5;i:6;", "", " ", ";", "a", "a:", "a:1", "a:1:", "a:1:{", "a:1:{i:0;", "a:1:{i:0;N;", "s:", "s:1", "s:1:", "s:1:\"", "s:1:\"a", "s:1:\"a\"",
	"a:999999999:{", "a:99999999999999:{", "a:99999999999999999999:{", "a:9223372036854775807:{", "a:2147483648:{i:0;N;}", "s:99999999999999999999:\"a\";", "O:8:\"stdClass\":0:{}", "R:1;", "r:1;", "E:1:\"A\";", "C:1:\"A\":0:{}",
	"s:15:\"__origami_a:[1]\";", "s:19:\"__origami_o:{\"a\":1}\";"}

func runPhpSer(w *Worker) {
	s := &serSec{w: w, b: NewBridge("")}
	styles := []sstyle{{}, {plusInt: true}, {expFloat: true}, {padCounts: true}}

	if w.Shard == 0 {
		for c := 0; c < 256; c++ {
			in := string([]byte{byte(c)})
			if w.Begin([]byte(in)) {
				s.rawCase(in)
			}
		}
		for _, t := range serEdgeTexts {
			if w.Begin([]byte(t)) {
				s.rawCase(t)
			}
		}
		var scal []*V
		for _, i := range intPool {
			scal = append(scal, vInt(i))
		}
		for _, f := range floatPool {
			scal = append(scal, vFloat(f))
		}
		for _, x := range utf8Frags {
			scal = append(scal, vStr(x))
		}
		for _, x := range rawFrags {
			scal = append(scal, vStr(x))
		}
		for c := 0; c < 256; c++ {
			scal = append(scal, vStr(string([]byte{byte(c)})))
		}
		scal = append(scal, vNull(), vBool(true), vBool(false))
		for _, v := range scal {
			if w.Begin([]byte(v.String())) {
				s.encodeCase(v)
				for _, st := range styles {
					s.decodeCase(v, st)
				}
				s.encodeCase(vList(v))
				s.encodeCase(vMap(KV{K: "k", V: v}))
				s.decodeCase(vList(v), sstyle{})
				s.decodeCase(vMap(KV{K: "k", V: v}), sstyle{})
			}
		}
	}
	for i := 0; i < 65536; i++ {
		if !w.Mine(i) {
			continue
		}
		in := string([]byte{byte(i >> 8), byte(i)})
		if w.Begin([]byte(in)) {
			s.rawCase(in)
		}
	}

	r := w.Rand("values")
	o := genOpts{utf8only: false, floats: true, intKeys: true, maxDepth: 4}
	n := w.Pick(3000, 100000) / w.N
	for i := 0; i < n; i++ {
		v := genValue(r, o, 0)
		if i%5 == 0 {
			v = vList(genValue(r, o, 1), genValue(r, o, 1))
			if i%10 == 0 {
				v = vMap(KV{K: genKey(r, o), V: genValue(r, o, 1)}, KV{K: "zz", V: genValue(r, o, 1)})
			}
		}
		st := styles[r.Intn(len(styles))]
		text := serText(v, st)
		if !w.Begin([]byte(text)) {
			continue
		}
		s.encodeCase(v)
		s.decodeCase(v, st)
		if len(text) > 4096 {
			continue
		}
		for p := 0; p < len(text); p++ {
			s.rawCase(text[:p])
			w.Count("evaluations", 1)
		}
		for _, m := range mutateSer(r, text, 40) {
			if len(m) > 4096 {
				continue
			}
			s.rawCase(m)
			w.Count("evaluations", 1)
		}
		if i < 2 {
			w.Sample(text)
		}
	}
	// nesting up to the 4 KiB bound
	if w.Shard == 0 {
		for _, d := range []int{10, 100, 400} {
			t := strings.Repeat("a:1:{i:0;", d) + "N;" + strings.Repeat("}", d)
			if len(t) <= 4096 && w.Begin([]byte(t)) {
				s.rawCase(t)
			}
			t2 := strings.Repeat("a:1:{i:0;", d)
			if len(t2) <= 4096 && w.Begin([]byte(t2)) {
				s.rawCase(t2)
			}
		}
	}
}
