package main

// Section "json": json_encode against Go's encoding/json as the reading reference,
// json_decode (assoc=true and object mode) against an order-preserving reader built on
// encoding/json's tokenizer; acceptance compared with json.Valid on grammar-aware mutations.

import (
	"bytes"
	"encoding/json"
	"errors"
	"fmt"
	"io"
	"math"
	"regexp"
	"strconv"
	"strings"
	"unicode/utf8"

	"github.com/php-any/origami/data"
)

// ---------------------------------------------------------------------------------
// reference reader

var errOutOfDomain = errors.New("out of the compared domain")

// refJSON decides well-formedness with json.Valid and reads the value in document order.
// inDomain=false: well-formed, but the statement does not fix the result (invalid UTF-8,
// lone surrogate escapes, numbers outside int64/float64).
func refJSON(b []byte) (v *V, valid bool, inDomain bool) {
	if !json.Valid(b) {
		return nil, false, true
	}
	if !utf8.Valid(b) || hasLoneSurrogateEscape(b) {
		return nil, true, false
	}
	dec := json.NewDecoder(bytes.NewReader(b))
	dec.UseNumber()
	v, err := readTok(dec, 0)
	if err != nil {
		return nil, true, false
	}
	if _, err := dec.Token(); err != io.EOF {
		return nil, true, false
	}
	return v, true, !hasBig(v)
}

func hasBig(v *V) bool {
	if v.Big {
		return true
	}
	for _, e := range v.L {
		if hasBig(e) {
			return true
		}
	}
	for _, e := range v.M {
		if hasBig(e.V) {
			return true
		}
	}
	return false
}

func hasBigIntegralFloat(v *V) bool {
	if v.K == KFloat && v.F == math.Trunc(v.F) && math.Abs(v.F) >= 1<<53 {
		return true
	}
	for _, e := range v.L {
		if hasBigIntegralFloat(e) {
			return true
		}
	}
	for _, e := range v.M {
		if hasBigIntegralFloat(e.V) {
			return true
		}
	}
	return false
}

func replaceBigIntegralFloats(v *V) *V {
	c := v.clone()
	var walk func(x *V)
	walk = func(x *V) {
		if x.K == KFloat && x.F == math.Trunc(x.F) && math.Abs(x.F) >= 1<<53 {
			x.F = 1.5
		}
		for _, e := range x.L {
			walk(e)
		}
		for _, e := range x.M {
			walk(e.V)
		}
	}
	walk(c)
	return c
}

func hasEmptyKey(v *V) bool {
	for _, e := range v.L {
		if hasEmptyKey(e) {
			return true
		}
	}
	for _, e := range v.M {
		if e.K == "" || hasEmptyKey(e.V) {
			return true
		}
	}
	return false
}

func renameEmptyKeys(v *V) *V {
	c := v.clone()
	var walk func(x *V)
	walk = func(x *V) {
		for _, e := range x.L {
			walk(e)
		}
		for i := range x.M {
			if x.M[i].K == "" {
				x.M[i].K = "renamed-empty-key"
			}
			walk(x.M[i].V)
		}
	}
	walk(c)
	return c
}

func readTok(dec *json.Decoder, depth int) (*V, error) {
	if depth > 2000 {
		return nil, errOutOfDomain
	}
	t, err := dec.Token()
	if err != nil {
		return nil, err
	}
	switch x := t.(type) {
	case nil:
		return vNull(), nil
	case bool:
		return vBool(x), nil
	case string:
		return vStr(x), nil
	case json.Number:
		s := string(x)
		if !strings.ContainsAny(s, ".eE") {
			i, err := strconv.ParseInt(s, 10, 64)
			if err != nil {
				f, err := strconv.ParseFloat(s, 64)
				if err != nil || math.IsInf(f, 0) {
					return nil, errOutOfDomain
				}
				return &V{K: KFloat, F: f, Big: true}, nil
			}
			return &V{K: KInt, I: i, Lit: s}, nil
		}
		f, err := strconv.ParseFloat(s, 64)
		if err != nil || math.IsInf(f, 0) {
			return nil, errOutOfDomain
		}
		return vFloat(f), nil
	case json.Delim:
		switch x {
		case '[':
			out := vList()
			out.L = []*V{}
			for dec.More() {
				e, err := readTok(dec, depth+1)
				if err != nil {
					return nil, err
				}
				out.L = append(out.L, e)
			}
			if _, err := dec.Token(); err != nil {
				return nil, err
			}
			return out, nil
		case '{':
			out := vMap()
			idx := map[string]int{}
			for dec.More() {
				kt, err := dec.Token()
				if err != nil {
					return nil, err
				}
				k, ok := kt.(string)
				if !ok {
					return nil, errOutOfDomain
				}
				e, err := readTok(dec, depth+1)
				if err != nil {
					return nil, err
				}
				if i, dup := idx[k]; dup {
					out.M[i].V = e // last one wins, first position kept (PHP and Go agree on the value)
				} else {
					idx[k] = len(out.M)
					out.M = append(out.M, KV{K: k, V: e})
				}
			}
			if _, err := dec.Token(); err != nil {
				return nil, err
			}
			return out, nil
		}
	}
	return nil, errOutOfDomain
}

func hasDupKeys(b []byte) bool {
	dec := json.NewDecoder(bytes.NewReader(b))
	dec.UseNumber()
	var walk func() bool
	walk = func() bool {
		t, err := dec.Token()
		if err != nil {
			return false
		}
		if d, ok := t.(json.Delim); ok {
			switch d {
			case '[':
				for dec.More() {
					if walk() {
						return true
					}
				}
				dec.Token()
			case '{':
				seen := map[string]bool{}
				for dec.More() {
					kt, _ := dec.Token()
					k, _ := kt.(string)
					if seen[k] {
						return true
					}
					seen[k] = true
					if walk() {
						return true
					}
				}
				dec.Token()
			}
		}
		return false
	}
	return walk()
}

func hasLoneSurrogateEscape(b []byte) bool {
	in := false
	for i := 0; i < len(b); i++ {
		c := b[i]
		if !in {
			if c == '"' {
				in = true
			}
			continue
		}
		switch c {
		case '"':
			in = false
		case '\\':
			if i+1 >= len(b) {
				return false
			}
			if b[i+1] != 'u' {
				i++
				continue
			}
			if i+6 > len(b) {
				return false
			}
			n, err := strconv.ParseUint(string(b[i+2:i+6]), 16, 32)
			if err != nil {
				return false
			}
			i += 5
			if n >= 0xdc00 && n <= 0xdfff {
				return true
			}
			if n >= 0xd800 && n <= 0xdbff {
				if i+7 <= len(b) && b[i+1] == '\\' && b[i+2] == 'u' {
					m, err := strconv.ParseUint(string(b[i+3:i+7]), 16, 32)
					if err == nil && m >= 0xdc00 && m <= 0xdfff {
						i += 6
						continue
					}
				}
				return true
			}
		}
	}
	return false
}

// ---------------------------------------------------------------------------------
// reference writer with style variations (so that the decoder is not only fed the
// encoder's own dialect)

type jstyle struct {
	ws       int  // 0 none, 1 spaces, 2 newlines/tabs
	uniEsc   bool // non-ASCII as \uXXXX (surrogate pairs above the BMP)
	slashEsc bool // "/" as "\/"
	ctlLong  bool // control characters as \u00XX instead of \n, \t, …
	expFloat bool // floats in exponent notation
}

func (s jstyle) tag() string {
	var p []string
	if s.ws > 0 {
		p = append(p, "ws"+strconv.Itoa(s.ws))
	}
	if s.uniEsc {
		p = append(p, "uni-escapes")
	}
	if s.slashEsc {
		p = append(p, "escaped-slash")
	}
	if s.ctlLong {
		p = append(p, "u00-escapes")
	}
	if s.expFloat {
		p = append(p, "exponent-floats")
	}
	if len(p) == 0 {
		return "plain"
	}
	return strings.Join(p, "+")
}

func writeJSON(sb *strings.Builder, v *V, st jstyle) {
	sp := func() {
		switch st.ws {
		case 1:
			sb.WriteByte(' ')
		case 2:
			sb.WriteString("\n\t")
		}
	}
	switch v.K {
	case KNull:
		sb.WriteString("null")
	case KBool:
		sb.WriteString(strconv.FormatBool(v.B))
	case KInt:
		sb.WriteString(strconv.FormatInt(v.I, 10))
	case KFloat:
		if st.expFloat {
			s := strconv.FormatFloat(v.F, 'e', -1, 64)
			sb.WriteString(strings.Replace(s, "e+", "E+", 1))
		} else {
			s := strconv.FormatFloat(v.F, 'f', -1, 64)
			if len(s) > 40 {
				s = strconv.FormatFloat(v.F, 'e', -1, 64)
			} else if !strings.Contains(s, ".") {
				s += ".0"
			}
			sb.WriteString(s)
		}
	case KStr:
		writeJSONString(sb, v.S, st)
	case KList:
		sb.WriteByte('[')
		for i, e := range v.L {
			if i > 0 {
				sb.WriteByte(',')
			}
			sp()
			writeJSON(sb, e, st)
		}
		if len(v.L) > 0 {
			sp()
		}
		sb.WriteByte(']')
	case KMap:
		sb.WriteByte('{')
		for i, e := range v.M {
			if i > 0 {
				sb.WriteByte(',')
			}
			sp()
			writeJSONString(sb, e.K, st)
			if st.ws > 0 {
				sb.WriteByte(' ')
			}
			sb.WriteByte(':')
			if st.ws > 0 {
				sb.WriteByte(' ')
			}
			writeJSON(sb, e.V, st)
		}
		if len(v.M) > 0 {
			sp()
		}
		sb.WriteByte('}')
	}
}

func writeJSONString(sb *strings.Builder, s string, st jstyle) {
	sb.WriteByte('"')
	for _, r := range s {
		switch {
		case r == '"':
			sb.WriteString(`\"`)
		case r == '\\':
			sb.WriteString(`\\`)
		case r == '/' && st.slashEsc:
			sb.WriteString(`\/`)
		case r < 0x20:
			short := map[rune]string{'\b': `\b`, '\f': `\f`, '\n': `\n`, '\r': `\r`, '\t': `\t`}
			if e, ok := short[r]; ok && !st.ctlLong {
				sb.WriteString(e)
			} else {
				fmt.Fprintf(sb, `\u%04x`, r)
			}
		case r >= 0x80 && st.uniEsc:
			if r >= 0x10000 {
				r -= 0x10000
				fmt.Fprintf(sb, `\ud%03x\ud%03x`, 0x800+(r>>10), 0xc00+(r&0x3ff))
			} else {
				fmt.Fprintf(sb, `\u%04X`, r)
			}
		default:
			sb.WriteRune(r)
		}
	}
	sb.WriteByte('"')
}

func jsonText(v *V, st jstyle) string {
	var sb strings.Builder
	if st.ws == 2 {
		sb.WriteString(" \n")
	}
	writeJSON(&sb, v, st)
	if st.ws > 0 {
		sb.WriteString("\n")
	}
	return sb.String()
}

// ---------------------------------------------------------------------------------

type jsonSec struct {
	w *Worker
	b *Bridge
}

var jsonErrClean = regexp.MustCompile(`'[^']*'|"[^"]*"|[0-9]+`)

func jsonErrCategory(b []byte) string {
	var x any
	err := json.Unmarshal(b, &x)
	if err == nil {
		return "none"
	}
	s := jsonErrClean.ReplaceAllString(err.Error(), "")
	s = strings.Join(strings.Fields(s), "-")
	return s
}

// assocEq: the comparison of a decoded value with the reference value. Maps compare
// unordered here (order is judged separately); an empty map and an empty list are the same
// PHP array in assoc mode.
func assocEq(want, got *V, assoc bool) bool {
	if assoc && (want.K == KMap || want.K == KList) && (got.K == KMap || got.K == KList) && len(want.M)+len(want.L) == 0 && len(got.M)+len(got.L) == 0 {
		return true
	}
	if isNum(want) && isNum(got) {
		return numEq(want, got)
	}
	if assoc && want.K == KMap && got.K == KList && !got.Obj {
		// assoc=true turns objects into PHP arrays: {"0":"a","1":"b"} and the list ["a","b"]
		// are the same array, an implementation may return either form
		got = &V{K: KMap, M: pairs(got)}
	}
	if want.K != got.K {
		return false
	}
	switch want.K {
	case KList:
		if len(want.L) != len(got.L) {
			return false
		}
		for i := range want.L {
			if !assocEq(want.L[i], got.L[i], assoc) {
				return false
			}
		}
		return true
	case KMap:
		if got.Obj == assoc { // assoc=true must give arrays, object mode must give objects
			return false
		}
		if len(want.M) != len(got.M) {
			return false
		}
		gm := map[string]*V{}
		for _, e := range got.M {
			gm[e.K] = e.V
		}
		for _, e := range want.M {
			x, ok := gm[e.K]
			if !ok || !assocEq(e.V, x, assoc) {
				return false
			}
		}
		return true
	}
	return equal(want, got, eqOpts{})
}

// sameOrder assumes assocEq held.
func sameOrder(want, got *V) bool {
	switch want.K {
	case KList:
		if got.K != KList {
			return true
		}
		for i := range want.L {
			if !sameOrder(want.L[i], got.L[i]) {
				return false
			}
		}
	case KMap:
		if got.K != KMap || len(got.M) != len(want.M) {
			return true
		}
		for i := range want.M {
			if want.M[i].K != got.M[i].K || !sameOrder(want.M[i].V, got.M[i].V) {
				return false
			}
		}
	}
	return true
}

type decOutcome int

const (
	decOK decOutcome = iota
	decCrash
	decRejected   // returned null (or false) for a well-formed, non-null document
	decWrong      // returned a different value
	decOrder      // right value, keys in a different order
	decNoResult   // threw / no value
	decOddResult  // value outside the model
	decAcceptsBad // returned non-null for an ill-formed document
)

func (o decOutcome) String() string {
	return [...]string{"ok", "crash", "rejects-wellformed", "wrong-value", "key-order", "throws", "odd-result", "accepts-illformed"}[o]
}

func (j *jsonSec) decode(text string, assoc bool) CallResult {
	if assoc {
		return j.b.Call("json_decode(verif_in(0), true)", sv(text))
	}
	return j.b.Call("json_decode(verif_in(0))", sv(text))
}

// judgeDecode runs json_decode on a well-formed in-domain text whose value is want.
func (j *jsonSec) judgeDecode(text string, want *V, assoc bool) (decOutcome, CallResult) {
	r := j.decode(text, assoc)
	switch {
	case r.Panic != nil:
		return decCrash, r
	case !r.HasVal:
		return decNoResult, r
	}
	got, w := fromData(r.Val)
	if w != "" {
		return decOddResult, r
	}
	if got.K == KNull && want.K != KNull {
		return decRejected, r
	}
	if !assocEq(want, got, assoc) {
		return decWrong, r
	}
	if !sameOrder(want, got) {
		return decOrder, r
	}
	return decOK, r
}

func modeName(assoc bool) string {
	if assoc {
		return "assoc=true"
	}
	return "assoc=false"
}

// reportDecode turns a failed decode of (value want, style st) into a keyed violation.
func (j *jsonSec) reportDecode(text string, want *V, st jstyle, assoc bool, oc decOutcome, r CallResult) {
	w := j.w
	pre := "json_decode:" + modeName(assoc) + ":"
	if oc == decCrash {
		w.Violation(pre+panicKey(r), fmt.Sprintf("json_decode(%q) panics in Go: %v", text, r.Panic), "json", []byte(text))
		return
	}
	if oc == decOrder {
		w.Violation(pre+"object-key-order", fmt.Sprintf("json_decode(%q, %v) returns the members in a different order than the document (%s); the order changes from call to call", text, assoc, describe(r)), "json", []byte(text))
		return
	}
	if !assoc && want.K != KMap && oc == decRejected {
		w.Violation(pre+"non-object-top-level-rejected:"+kindName(want), fmt.Sprintf("json_decode(%q) returns null although the document is well-formed JSON (top-level %s)", text, kindName(want)), "json", []byte(text))
		return
	}
	// does the plain rendering of the same value fail the same way? then the value is the
	// cause and the key names its minimal shape; otherwise the text form is.
	fails := func(v *V) bool {
		o2, _ := j.judgeDecode(jsonText(v, jstyle{}), v, assoc)
		return o2 == oc
	}
	wrap := func(v *V) *V { return v }
	if !assoc && want.K == KMap {
		// keep an object at the top while shrinking in object mode
		fails = func(v *V) bool {
			if v.K != KMap {
				return false
			}
			o2, _ := j.judgeDecode(jsonText(v, jstyle{}), v, assoc)
			return o2 == oc
		}
	}
	if fails(want) {
		min := shrink(want, fails)
		if hasEmptyKey(min) {
			if rn := renameEmptyKeys(min); !fails(rn) {
				w.Violation(pre+oc.String()+":empty-member-name", fmt.Sprintf("json_decode(%q, %v) = %s; the document's value is %s: a member with the empty name \"\" loses its name (minimal: %s)", text, assoc, describe(r), want, min), "json", []byte(text))
				return
			}
		}
		w.Violation(pre+oc.String()+":"+sig(wrap(min)), fmt.Sprintf("json_decode(%q, %v) = %s; the document's value is %s (minimal failing value: %s)", text, assoc, describe(r), want, min), "json", []byte(text))
		return
	}
	w.Violation(pre+oc.String()+":text-form:"+st.tag(), fmt.Sprintf("json_decode(%q, %v) = %s; the document's value is %s and its plain rendering decodes correctly", text, assoc, describe(r), want), "json", []byte(text))
}

func kindName(v *V) string {
	return [...]string{"null", "bool", "int", "float", "string", "array", "object"}[v.K]
}

// encodeCheck: json_encode(v) must be read back by encoding/json as v.
type encOutcome int

const (
	encOK encOutcome = iota
	encCrash
	encNoString
	encInvalid
	encWrong
	encOrder
)

func (o encOutcome) String() string {
	return [...]string{"ok", "crash", "non-string-result", "invalid-json", "reads-back-differently", "member-order"}[o]
}

func (j *jsonSec) judgeEncode(v *V, rp repr) (encOutcome, CallResult, string) {
	r := j.b.Call("json_encode(verif_in(0))", toData(v, rp))
	if r.Panic != nil {
		return encCrash, r, ""
	}
	s, ok := asStr(r)
	if !ok {
		return encNoString, r, ""
	}
	got, valid, dom := refJSON([]byte(s))
	if !valid || (!dom && (got == nil || !hasBig(got))) {
		return encInvalid, r, s
	}
	if !equal(v, got, eqOpts{ordered: false}) {
		return encWrong, r, s
	}
	if !equal(v, got, eqOpts{ordered: true}) {
		return encOrder, r, s
	}
	return encOK, r, s
}

// dropKeys turns every map into the list of its values.
func dropKeys(v *V) *V {
	c := &V{K: v.K, B: v.B, I: v.I, F: v.F, S: v.S}
	switch v.K {
	case KList:
		c.L = []*V{}
		for _, e := range v.L {
			c.L = append(c.L, dropKeys(e))
		}
	case KMap:
		c.K = KList
		c.L = []*V{}
		for _, e := range v.M {
			c.L = append(c.L, dropKeys(e.V))
		}
	}
	return c
}

func reprName(rp repr) string {
	if rp == reprSlots {
		return "keyed-array-slots"
	}
	return "literal"
}

func hasMap(v *V) bool {
	if v.K == KMap {
		return true
	}
	for _, e := range v.L {
		if hasMap(e) {
			return true
		}
	}
	return false
}

func (j *jsonSec) encodeCase(v *V) {
	w := j.w
	for _, rp := range []repr{reprLiteral, reprSlots} {
		if rp == reprSlots && !hasMap(v) {
			continue
		}
		oc, r, s := j.judgeEncode(v, rp)
		if oc == encOK {
			w.Nontrivial("enc", reprName(rp), s)
			// and the encoder's own output decodes back (assoc=true keeps arrays, so it can be
			// compared; object mode is compared when the top level is an object)
			if v.K != KNull {
				big := hasBigIntegralFloat(v)
				for _, assoc := range []bool{true, false} {
					if !assoc && v.K != KMap {
						continue
					}
					o2, r2 := j.judgeDecode(s, v, assoc)
					if o2 == decOK {
						continue
					}
					if big && (o2 == decRejected || o2 == decWrong) && func() bool {
						// attributable to the integral floats only if the value without them round-trips
						c := replaceBigIntegralFloats(v)
						oc3, _, s3 := j.judgeEncode(c, rp)
						if oc3 != encOK {
							return false
						}
						o3, _ := j.judgeDecode(s3, c, assoc)
						return o3 == decOK || o3 == decOrder
					}() {
						w.Violation("json_roundtrip:integral-float-beyond-2^53:"+modeName(assoc)+":"+o2.String(),
							fmt.Sprintf("json_decode(json_encode(%s) = %q, %v) = %s: the encoder writes an integral float of magnitude >= 2^53 as a bare (zero-padded) integer literal, which the decoder does not read back as the same number", v, s, assoc, describe(r2)), "json", []byte(s))
						continue
					}
					j.reportDecode(s, v, jstyle{}, assoc, o2, r2)
				}
			}
			continue
		}
		pre := "json_encode:" + reprName(rp) + ":"
		if oc == encCrash {
			w.Violation(pre+panicKey(r), fmt.Sprintf("json_encode(%s) panics in Go: %v", v, r.Panic), "txt", []byte(v.String()))
			continue
		}
		if rp == reprSlots {
			if o1, _, _ := j.judgeEncode(v, reprLiteral); o1 == oc {
				continue // same failure as the literal form of the same value, already reported there
			}
		}
		if got, valid, _ := refJSON([]byte(s)); rp == reprSlots && valid && got != nil && equal(dropKeys(v), got, eqOpts{ordered: true}) {
			w.Violation(pre+"keys-dropped", fmt.Sprintf("json_encode of the keyed array %s (the form that $a['k']=v and json_decode(…, true) build) = %s: the keys are dropped", v, s), "txt", []byte(v.String()))
			continue
		}
		min := shrink(v, func(c *V) bool {
			if rp == reprSlots && !hasMap(c) {
				return false
			}
			o2, _, _ := j.judgeEncode(c, rp)
			return o2 == oc
		})
		_, _, smin := j.judgeEncode(min, rp)
		w.Violation(pre+oc.String()+":"+sig(min), fmt.Sprintf("json_encode(%s) = %s, which encoding/json does not read back as the same value; minimal failing value %s encodes as %q", v, describe(r), min, smin), "txt", []byte(v.String()))
	}
}

func (j *jsonSec) decodeCase(v *V, st jstyle) {
	text := jsonText(v, st)
	if want, valid, dom := refJSON([]byte(text)); !valid || !dom || !equal(v, want, eqOpts{ordered: true, strictNumTyp: false}) {
		// the reference writer and reader disagree: a harness bug, never a verdict
		j.w.Count("harness_selfcheck_failed", 1)
		return
	}
	if v.K != KNull {
		if oc, r := j.judgeDecode(text, v, true); oc != decOK {
			j.reportDecode(text, v, st, true, oc, r)
		} else {
			j.w.Nontrivial("dec1", text)
		}
		if oc, r := j.judgeDecode(text, v, false); oc != decOK {
			j.reportDecode(text, v, st, false, oc, r)
		}
	}
	// object mode below the top level
	wrapped := vMap(KV{K: "v", V: v})
	wt := jsonText(wrapped, st)
	if oc, r := j.judgeDecode(wt, wrapped, false); oc != decOK {
		j.reportDecode(wt, wrapped, st, false, oc, r)
	} else {
		j.w.Nontrivial("dec0", wt)
	}
}

// rawCase: arbitrary bytes. Totality always; acceptance compared with json.Valid.
func (j *jsonSec) rawCase(in string) {
	w := j.w
	want, valid, dom := refJSON([]byte(in))
	for _, assoc := range []bool{true, false} {
		r := j.decode(in, assoc)
		pre := "json_decode:" + modeName(assoc) + ":"
		if r.Panic != nil {
			w.Violation(pre+panicKey(r), fmt.Sprintf("json_decode(%q) panics in Go: %v", in, r.Panic), "json", []byte(in))
			continue
		}
		if !r.HasVal {
			// a catchable error is a legitimate way to reject
			if valid && dom && want.K != KNull {
				w.Violation(pre+"throws-on-wellformed", fmt.Sprintf("json_decode(%q): %s", in, describe(r)), "json", []byte(in))
			}
			continue
		}
		got, bad := fromData(r.Val)
		if bad != "" {
			w.Violation(pre+"odd-result", fmt.Sprintf("json_decode(%q, %v) returns %s", in, assoc, bad), "json", []byte(in))
			continue
		}
		if !valid {
			if got.K != KNull {
				w.Violation(pre+"accepts-illformed:"+jsonErrCategory([]byte(in)), fmt.Sprintf("json_decode(%q, %v) = %s although the input is not well-formed JSON (encoding/json: %s)", in, assoc, got, jsonErrCategory([]byte(in))), "json", []byte(in))
			}
			continue
		}
		if !dom {
			continue
		}
		if want.K == KNull {
			continue
		}
		if hasDupKeys([]byte(in)) {
			continue // which position a repeated member takes is not fixed by the statement
		}
		oc := decOK
		switch {
		case got.K == KNull:
			oc = decRejected
		case !assocEq(want, got, assoc):
			oc = decWrong
		case !sameOrder(want, got):
			oc = decOrder
		}
		if oc != decOK {
			j.reportDecode(in, want, jstyle{ws: 9}, assoc, oc, r)
		}
	}
	if valid {
		w.Nontrivial("raw-valid", in)
	} else {
		w.Nontrivial("raw-invalid", in)
	}
}

var jsonInserts = []string{`\`, `\x`, `\u12`, `\u`, `\ud800`, `"`, `'`, `,`, `,,`, `:`, `[`, `]`, `{`, `}`, `0`, `01`, `+1`, `.5`, `1.`, `1e`, `-`, `NaN`, `Infinity`,
	`null`, `nul`, `true`, `True`, `//c`, `/*c*/`, "\xef\xbb\xbf", "\x00", "\x01", "\n", "\xff", "\t", " ", `1e999`, `99999999999999999999`, `-0`, `1E5`, `0x10`, `undefined`}

func mutateJSON(r interface{ Intn(int) int }, text string, k int) []string {
	out := []string{}
	for i := 0; i < k; i++ {
		b := []byte(text)
		switch r.Intn(7) {
		case 0, 1:
			p := r.Intn(len(b) + 1)
			ins := jsonInserts[r.Intn(len(jsonInserts))]
			b = append(b[:p:p], append([]byte(ins), b[p:]...)...)
		case 2:
			if len(b) > 0 {
				p := r.Intn(len(b))
				b = append(b[:p:p], b[p+1:]...)
			}
		case 3:
			if len(b) > 0 {
				b[r.Intn(len(b))] = byte(r.Intn(256))
			}
		case 4:
			if len(b) > 0 {
				b[r.Intn(len(b))] = `"\,:[]{}0-e. tn`[r.Intn(15)]
			}
		case 5:
			if len(b) > 1 {
				p := r.Intn(len(b) - 1)
				b[p], b[p+1] = b[p+1], b[p]
			}
		default:
			ins := jsonInserts[r.Intn(len(jsonInserts))]
			if r.Intn(2) == 0 {
				b = append([]byte(ins), b...)
			} else {
				b = append(b, ins...)
			}
		}
		out = append(out, string(b))
	}
	return out
}

var jsonEdgeTexts = []string{`{}`, `[]`, `[[]]`, `[{}]`, `{"a":{}}`, `{"a":[]}`, `""`, `0`, `-0`, `-0.0`, `1.0`, `1e2`, `1E-2`, `9007199254740993`, `-9007199254740993`,
	`9223372036854775807`, `-9223372036854775808`, `{"a":9007199254740993}`, `[9223372036854775807]`, `{"":1}`, `{"":{"":[]}}`, `{"0":"a","1":"b"}`, `{"1":"a","0":"b"}`,
	`{"a":1,"a":2}`, `{"a":1,"b":2,"a":3}`, `[1,[2,[3,[4,[5]]]]]`, `{"a":{"b":{"c":{"d":{"e":1}}}}}`, ` [ 1 , 2 ] `, "\t{\n\"a\"\r:\n1}\n", `"\u00e9"`, `"\ud83d\ude00"`, `"\/"`, `"\b\f\n\r\t"`,
	`"\u0000"`, `"\u2028\u2029"`, `null`, `true`, `false`, `[null]`, `{"a":null}`, `[true,false,null]`, `1e308`, `5e-324`, `0.1`, `123456789012345678`, `[1.5,"1.5"]`, `{"length":1}`, `{"v":{"length":0}}`,
	`[0.30000000000000004]`, `1e21`, `1e-7`, `{"a b":1,"c\"d":2}`, `{"é":"漢字"}`}

func runJSON(w *Worker) {
	j := &jsonSec{w: w, b: NewBridge("")}
	styles := []jstyle{{}, {ws: 1}, {ws: 2}, {uniEsc: true}, {slashEsc: true}, {ctlLong: true}, {expFloat: true}, {ws: 1, uniEsc: true, slashEsc: true, ctlLong: true, expFloat: true}}

	// enumerated: single bytes, byte pairs, edge documents
	if w.Shard == 0 {
		for c := 0; c < 256; c++ {
			s := string([]byte{byte(c)})
			if w.Begin([]byte(s)) {
				j.rawCase(s)
			}
		}
		for _, t := range jsonEdgeTexts {
			if w.Begin([]byte(t)) {
				j.rawCase(t)
			}
		}
		// scalar pools, one by one
		var scal []*V
		for _, i := range intPool {
			scal = append(scal, vInt(i))
		}
		for _, f := range floatPool {
			scal = append(scal, vFloat(f))
		}
		for _, s := range utf8Frags {
			scal = append(scal, vStr(s))
		}
		for c := 0; c < 256; c++ {
			scal = append(scal, vStr(string(rune(c))))
		}
		scal = append(scal, vNull(), vBool(true), vBool(false))
		for _, v := range scal {
			if w.Begin([]byte(v.String())) {
				j.encodeCase(v)
				for _, st := range styles {
					j.decodeCase(v, st)
				}
				j.encodeCase(vList(v))
				j.encodeCase(vMap(KV{K: "k", V: v}))
			}
		}
	}
	for i := 0; i < 65536; i++ {
		if !w.Mine(i) {
			continue
		}
		s := string([]byte{byte(i >> 8), byte(i)})
		if w.Begin([]byte(s)) {
			j.rawCase(s)
		}
	}

	// generated values
	r := w.Rand("values")
	o := genOpts{utf8only: true, floats: true, intKeys: true, maxDepth: 4}
	n := w.Pick(3000, 100000) / w.N
	mutPer := 40
	for i := 0; i < n; i++ {
		v := genValue(r, o, 0)
		if i%5 == 0 { // make sure containers are well represented
			v = vList(genValue(r, o, 1), genValue(r, o, 1))
			if i%10 == 0 {
				v = vMap(KV{K: genKey(r, o), V: genValue(r, o, 1)}, KV{K: "zz", V: genValue(r, o, 1)})
			}
		}
		st := styles[r.Intn(len(styles))]
		if !w.Begin([]byte(jsonText(v, st))) {
			continue
		}
		j.encodeCase(v)
		j.decodeCase(v, st)
		text := jsonText(v, st)
		if len(text) > 4096 {
			continue
		}
		// truncation at every offset
		for p := 0; p < len(text); p++ {
			j.rawCase(text[:p])
			w.Count("evaluations", 1)
		}
		for _, m := range mutateJSON(r, text, mutPer) {
			if len(m) > 4096 {
				continue
			}
			j.rawCase(m)
			w.Count("evaluations", 1)
		}
		if i < 2 {
			w.Sample(text)
		}
	}
	// nesting: deep documents up to the 4 KiB bound
	if w.Shard == 0 {
		for _, d := range []int{10, 100, 1000, 2047} {
			for _, t := range []string{strings.Repeat("[", d) + strings.Repeat("]", d), strings.Repeat(`{"a":`, d/3) + "1" + strings.Repeat("}", d/3), strings.Repeat("[", d)} {
				if len(t) <= 4096 && w.Begin([]byte(t)) {
					j.rawCase(t)
				}
			}
		}
	}
}

var _ = data.NewNullValue
