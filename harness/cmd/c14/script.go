package main

// Section "script": end-to-end runs through the CLI binary. Straight-line scripts print the
// encodings of literal values and the result of `===` round trips on scalars; the printed
// encodings are read by the same references as in the in-process sections. Only printable
// ASCII goes through the lexer here (arbitrary bytes are covered in-process).

import (
	"crypto/md5"
	"encoding/base64"
	"encoding/hex"
	"fmt"
	"math"
	"net/url"
	"strconv"
	"strings"
	"sync"
	"time"

	"verif/lib"
)

var allFeatures = []string{"script.json-bigint", "script.serialize-float"}

// '@', '{', '}', '`', '$', '\\' and the single quote are left out: '@{…}' is interpolated even inside
// single-quoted literals (a lexer matter, outside this property)
const asciiSafe = "abcdefghijklmnopqrstuvwxyzABCDEFGHIJKLMNOPQRSTUVWXYZ0123456789 !#%&()*+,-./:;<=>?[]^_|~\""

func phpStr(s string) string { return "'" + s + "'" } // s is drawn from asciiSafe: no quote, backslash or dollar

func phpLit(v *V) string {
	switch v.K {
	case KNull:
		return "null"
	case KBool:
		return strconv.FormatBool(v.B)
	case KInt:
		if v.I == math.MinInt64 {
			return "(-9223372036854775807 - 1)"
		}
		return strconv.FormatInt(v.I, 10)
	case KFloat:
		return strconv.FormatFloat(v.F, 'f', -1, 64)
	case KStr:
		return phpStr(v.S)
	case KList:
		p := make([]string, len(v.L))
		for i, e := range v.L {
			p[i] = phpLit(e)
		}
		return "[" + strings.Join(p, ", ") + "]"
	case KMap:
		p := make([]string, len(v.M))
		for i, e := range v.M {
			p[i] = phpStr(e.K) + " => " + phpLit(e.V)
		}
		return "[" + strings.Join(p, ", ") + "]"
	}
	return "null"
}

type scriptCase struct {
	v      *V     // container or scalar printed through json_encode / serialize
	s      string // string through the text codecs
	scalar *V     // scalar for the JSON === round trip
	sscal  *V     // scalar for the serialize === round trip
	lines  []string
}

func runScripts(e *lib.Env) (int, int, []string) {
	r := e.Rand("script")
	nScripts := e.Pick(40, 400)
	per := 25
	noBig := e.Quarantined("script.json-bigint")
	noSerFloat := e.Quarantined("script.serialize-float")

	asciiStr := func() string {
		l := r.Intn(14)
		b := make([]byte, l)
		for i := range b {
			b[i] = asciiSafe[r.Intn(len(asciiSafe))]
		}
		return string(b)
	}
	var genV func(d int) *V
	genScal := func(floats bool) *V {
		for {
			switch r.Intn(8) {
			case 0:
				return vNull()
			case 1:
				return vBool(r.Intn(2) == 0)
			case 2, 3:
				return vInt(pickInt(r))
			case 4:
				if !floats {
					continue
				}
				f := []float64{1.5, -2.5, 0.1, 0.5, 1e-7, 123456.789, 0.30000000000000004, 3.141592653589793, -0.75}[r.Intn(9)]
				return vFloat(f)
			default:
				return vStr(asciiStr())
			}
		}
	}
	genV = func(d int) *V {
		if d >= 3 || r.Intn(3) == 0 {
			return genScal(true)
		}
		n := 1 + r.Intn(3)
		if r.Intn(2) == 0 {
			v := vList()
			v.L = []*V{}
			for i := 0; i < n; i++ {
				v.L = append(v.L, genV(d+1))
			}
			return v
		}
		v := vMap()
		seen := map[string]bool{}
		for i := 0; i < n; i++ {
			k := []string{"a", "b", "key", "x y", "k-1", "Z", "name", "id"}[r.Intn(8)]
			if seen[k] {
				continue
			}
			seen[k] = true
			v.M = append(v.M, KV{K: k, V: genV(d + 1)})
		}
		return v
	}

	type job struct {
		src   string
		cases []*scriptCase
	}
	var jobs []job
	for s := 0; s < nScripts; s++ {
		var sb strings.Builder
		sb.WriteString("<?php\n")
		var cases []*scriptCase
		for c := 0; c < per; c++ {
			sc := &scriptCase{v: genV(0), s: asciiStr(), scalar: genScal(true), sscal: genScal(!noSerFloat)}
			if noBig && sc.scalar.K == KInt && abs64(sc.scalar.I) > 1<<53 {
				sc.scalar = vInt(sc.scalar.I >> 12)
			}
			cases = append(cases, sc)
			fmt.Fprintf(&sb, "$v = %s;\n$s = %s;\n$x = %s;\n$y = %s;\n", phpLit(sc.v), phpStr(sc.s), phpLit(sc.scalar), phpLit(sc.sscal))
			fmt.Fprintf(&sb, "echo \"J \", json_encode($v), \"\\n\";\n")
			fmt.Fprintf(&sb, "echo \"S \", serialize($v), \"\\n\";\n")
			fmt.Fprintf(&sb, "echo \"T \", base64_encode($s), \" \", urlencode($s), \" \", rawurlencode($s), \" \", bin2hex($s), \" \", md5($s), \"\\n\";\n")
			fmt.Fprintf(&sb, "echo \"R \", (json_decode(json_encode($x), true) === $x ? \"1\" : \"0\"), (unserialize(serialize($y)) === $y ? \"1\" : \"0\"), "+
				"(base64_decode(base64_encode($s)) === $s ? \"1\" : \"0\"), (urldecode(urlencode($s)) === $s ? \"1\" : \"0\"), (rawurldecode(rawurlencode($s)) === $s ? \"1\" : \"0\"), \"\\n\";\n")
		}
		jobs = append(jobs, job{sb.String(), cases})
	}

	var mu sync.Mutex
	evals, distinct := 0, 0
	var samples []string
	lib.ParallelMap(len(jobs), 0, func(i int) {
		j := jobs[i]
		res := e.RunScript(j.src, 120*time.Second)
		if res.TimedOut {
			e.Inconclusive("script section: watchdog fired")
			return
		}
		if crashed, why := lib.GoCrash(res); crashed {
			e.Violation("script:crash:"+normSite(lib.PanicSite(res.Stderr)), "a codec round-trip script crashes the interpreter: "+why, "php", []byte(j.src))
			return
		}
		lines := strings.Split(res.Stdout, "\n")
		if len(lines) < 4*len(j.cases) {
			e.Violation("script:truncated-output", fmt.Sprintf("a straight-line codec script printed %d lines instead of %d (exit %d, stderr %s)", len(lines), 4*len(j.cases), res.Exit, head(res.Stderr, 300)), "php", []byte(j.src))
			return
		}
		n, d := 0, 0
		for ci, sc := range j.cases {
			l := lines[4*ci : 4*ci+4]
			ok := true
			bad := func(key, what string) {
				ok = false
				e.Violation(key, what+fmt.Sprintf(" (case %d of the script: $v = %s; $s = %s; $x = %s; $y = %s)", ci, phpLit(sc.v), phpStr(sc.s), phpLit(sc.scalar), phpLit(sc.sscal)), "php", []byte(j.src))
			}
			n++
			// J
			if !strings.HasPrefix(l[0], "J ") {
				bad("script:json_encode:no-output", "json_encode line missing: "+l[0])
			} else if got, valid, _ := refJSON([]byte(l[0][2:])); !valid || got == nil || !equal(sc.v, got, eqOpts{ordered: true}) {
				bad("script:json_encode:reads-back-differently:"+sig(sc.v), fmt.Sprintf("json_encode printed %q, which encoding/json does not read back as the value", l[0][2:]))
			}
			// S
			hasFloat := containsFloat(sc.v)
			if !(hasFloat && noSerFloat) {
				if !strings.HasPrefix(l[1], "S ") {
					bad("script:serialize:no-output", "serialize line missing: "+l[1])
				} else if got, st, _ := refUnser([]byte(l[1][2:])); st != serOK || !equal(canonArr(sc.v), got, serEq) {
					cls := "reads-back-differently"
					if l[1] == "S " {
						cls = "returns-false"
					}
					f := ""
					if hasFloat {
						f = ":with-float"
					}
					bad("script:serialize:"+cls+f, fmt.Sprintf("serialize printed %q, which the reference reader does not read back as the value", l[1][2:]))
				}
			}
			// T
			parts := strings.Split(strings.TrimPrefix(l[2], "T "), " ")
			if len(parts) != 5 {
				bad("script:text:fields", "text codec line malformed: "+l[2])
			} else {
				if b, err := base64.StdEncoding.DecodeString(parts[0]); err != nil || string(b) != sc.s {
					bad("script:base64_encode", "base64_encode printed "+parts[0])
				}
				if u, err := url.QueryUnescape(parts[1]); err != nil || u != sc.s {
					bad("script:urlencode", "urlencode printed "+parts[1])
				}
				if u, err := url.PathUnescape(parts[2]); err != nil || u != sc.s {
					bad("script:rawurlencode", "rawurlencode printed "+parts[2])
				}
				if h, err := hex.DecodeString(parts[3]); err != nil || string(h) != sc.s {
					bad("script:bin2hex", "bin2hex printed "+parts[3])
				}
				if m := md5.Sum([]byte(sc.s)); parts[4] != hex.EncodeToString(m[:]) {
					bad("script:md5", "md5 printed "+parts[4])
				}
			}
			// R
			want := []byte("11111")
			x := sc.scalar
			if !strings.HasPrefix(l[3], "R ") || len(l[3]) != 7 {
				bad("script:roundtrip:no-output", "round-trip line malformed: "+l[3])
			} else {
				names := []string{"json_decode(json_encode(x),true)", "unserialize(serialize(y))", "base64_decode(base64_encode(s))", "urldecode(urlencode(s))", "rawurldecode(rawurlencode(s))"}
				for k := 0; k < 5; k++ {
					if l[3][2+k] != want[k] {
						arg := "s"
						cell := ""
						if k == 0 {
							arg = "x"
							cell = ":" + sig(x)
						} else if k == 1 {
							arg = "y"
							cell = ":" + sig(sc.sscal)
						}
						bad("script:roundtrip:"+names[k]+cell, fmt.Sprintf("%s === %s is false", names[k], arg))
					}
				}
			}
			if ok {
				d++
			}
		}
		mu.Lock()
		evals += n
		distinct += d
		if len(samples) < 2 {
			samples = append(samples, head(j.src[6:], 250))
		}
		mu.Unlock()
	})
	return evals, distinct, samples
}

func containsFloat(v *V) bool {
	if v.K == KFloat {
		return true
	}
	for _, e := range v.L {
		if containsFloat(e) {
			return true
		}
	}
	for _, e := range v.M {
		if containsFloat(e.V) {
			return true
		}
	}
	return false
}
