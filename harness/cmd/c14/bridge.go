package main

// In-process bridge to origami. Codec functions are called through the real script call
// path: a tiny program `verif_out(<expr over verif_in(i)>)` is parsed once per expression
// and re-executed per case; arguments and results travel as data.Value through two Go
// functions registered with vm.AddFunc, so arbitrary bytes need no other codec (and no
// lexer) to get in or out. Only exported identifiers of origami are used.

import (
	"fmt"
	"os"
	"runtime/debug"
	"strconv"
	"strings"

	"github.com/php-any/origami/data"
	"github.com/php-any/origami/node"
	"github.com/php-any/origami/parser"
	"github.com/php-any/origami/runtime"
	"verif/lib"
	"verif/ori"
)

type goFn struct {
	name string
	call func(ctx data.Context) (data.GetValue, data.Control)
}

func (f *goFn) Call(ctx data.Context) (data.GetValue, data.Control) { return f.call(ctx) }
func (f *goFn) GetName() string                                     { return f.name }
func (f *goFn) GetParams() []data.GetValue {
	return []data.GetValue{node.NewParameter(nil, "v", 0, nil, nil)}
}
func (f *goFn) GetVariables() []data.Variable {
	return []data.Variable{node.NewVariable(nil, "v", 0, nil)}
}

type compiled struct {
	prog data.GetValue
	ctx  data.Context
}

type Bridge struct {
	vm         *runtime.VM
	p          *parser.Parser
	args       []data.Value
	out        data.Value
	outSet     bool
	errMsg     string
	errSet     bool
	uncaught   data.Control
	progs      map[string]*compiled
	prelude    string // class / function declarations, executed once when the bridge is built
	BadPrelude string
}

type CallResult struct {
	Val        data.Value
	HasVal     bool
	Thrown     bool
	ThrownMsg  string
	Panic      any
	PanicStack string
	Other      string // something else went wrong (parse error of the harness program, …)
}

func NewBridge(prelude string) *Bridge {
	vm, p := ori.NewVM()
	b := &Bridge{vm: vm, p: p, progs: map[string]*compiled{}, prelude: prelude}
	vm.AddFunc(&goFn{"verif_in", func(ctx data.Context) (data.GetValue, data.Control) {
		v, _ := ctx.GetIndexValue(0)
		iv, ok := v.(*data.IntValue)
		if !ok || iv.Value < 0 || iv.Value >= len(b.args) {
			return data.NewNullValue(), nil
		}
		return b.args[iv.Value], nil
	}})
	vm.AddFunc(&goFn{"verif_out", func(ctx data.Context) (data.GetValue, data.Control) {
		v, _ := ctx.GetIndexValue(0)
		b.out, b.outSet = v, true
		return data.NewNullValue(), nil
	}})
	vm.AddFunc(&goFn{"verif_err", func(ctx data.Context) (data.GetValue, data.Control) {
		v, _ := ctx.GetIndexValue(0)
		b.errSet = true
		if v != nil {
			b.errMsg = v.AsString()
		}
		return data.NewNullValue(), nil
	}})
	vm.SetThrowControl(func(acl data.Control) { b.uncaught = acl })
	data.WriteOutput = func(string) {}
	if prelude != "" {
		func() {
			defer func() {
				if r := recover(); r != nil {
					b.BadPrelude = fmt.Sprintf("prelude panicked: %v", r)
				}
			}()
			prog, acl := p.ParseString("<?php\n"+prelude, "/verif-inproc/c14_prelude.php")
			if acl != nil {
				b.BadPrelude = "prelude rejected: " + acl.AsString()
				return
			}
			if _, ctl := prog.GetValue(vm.CreateContext(p.GetVariables())); ctl != nil {
				b.BadPrelude = "prelude failed: " + ctl.AsString()
			}
		}()
	}
	return b
}

func (b *Bridge) compile(expr string) (*compiled, string) {
	if c, ok := b.progs[expr]; ok {
		return c, ""
	}
	// no try/catch here: origami's try statement converts Go panics into catchable errors,
	// which would hide the panic site; thrown errors come back as the control value instead
	src := "<?php\nverif_out(" + expr + ");\n"
	prog, acl := b.p.ParseString(src, "/verif-inproc/c14_"+strconv.Itoa(len(b.progs))+".php")
	if acl != nil {
		return nil, "harness program rejected: " + acl.AsString()
	}
	c := &compiled{prog: prog, ctx: b.vm.CreateContext(b.p.GetVariables())}
	b.progs[expr] = c
	return c, ""
}

// Call evaluates expr (which refers to its arguments as verif_in(0), verif_in(1), …).
func (b *Bridge) Call(expr string, args ...data.Value) (res CallResult) {
	c, bad := b.compile(expr)
	if bad != "" {
		res.Other = bad
		return
	}
	b.args = args
	b.out, b.outSet, b.errMsg, b.errSet, b.uncaught = nil, false, "", false, nil
	defer func() {
		if r := recover(); r != nil {
			res.Panic = r
			res.PanicStack = string(debug.Stack())
		}
	}()
	_, ctl := c.prog.GetValue(c.ctx)
	switch {
	case b.outSet:
		res.Val, res.HasVal = b.out, true
	case b.errSet:
		res.Thrown, res.ThrownMsg = true, b.errMsg
	case ctl != nil:
		res.Thrown, res.ThrownMsg = true, ctl.AsString()
	case b.uncaught != nil:
		res.Thrown, res.ThrownMsg = true, b.uncaught.AsString()
	default:
		res.Other = "the call produced neither a value nor an error"
	}
	return
}

func panicKey(res CallResult) string {
	return "panic@" + normSite(lib.PanicSite(stripHarnessFrames(res.PanicStack)))
}

// normSite makes a panic site independent of where the checked tree lives (lib.PanicSite
// only knows /repo and module-cache paths; a scratch worktree has another prefix).
func normSite(site string) string {
	if repo := os.Getenv("VERIF_REPO"); repo != "" && strings.HasPrefix(site, repo+"/") {
		return site[len(repo)+1:]
	}
	return site
}

// stripHarnessFrames drops the frames of debug.Stack / the deferred recover, so that
// lib.PanicSite starts at the panicking frame.
func stripHarnessFrames(st string) string {
	if i := strings.Index(st, "\npanic("); i >= 0 {
		return st[i+1:]
	}
	return st
}

// ---------------------------------------------------------------------------------
// model <-> data.Value

type repr int

const (
	reprLiteral repr = iota // maps as the literal ["k"=>v] builds them (ObjectValue)
	reprSlots               // maps as $a=[]; $a["k"]=v / json_decode(…, true) builds them (keyed ArrayValue)
)

func toData(v *V, rp repr) data.Value {
	switch v.K {
	case KNull:
		return data.NewNullValue()
	case KBool:
		return data.NewBoolValue(v.B)
	case KInt:
		return data.NewIntValue(int(v.I))
	case KFloat:
		return data.NewFloatValue(v.F)
	case KStr:
		return data.NewStringValue(v.S)
	case KList:
		l := make([]data.Value, len(v.L))
		for i, e := range v.L {
			l[i] = toData(e, rp)
		}
		return data.NewArrayValue(l)
	case KMap:
		if rp == reprSlots {
			a := &data.ArrayValue{}
			for _, e := range v.M {
				a.List = append(a.List, data.NewNamedZVal(e.K, toData(e.V, rp)))
			}
			return a
		}
		o := data.NewObjectValue()
		for _, e := range v.M {
			o.SetProperty(e.K, toData(e.V, rp))
		}
		return o
	}
	return data.NewNullValue()
}

// fromData converts a result back to the model. ok=false when the value contains something
// outside the model (a function value, a nil, …); what names it.
func fromData(d data.Value) (v *V, what string) {
	switch x := d.(type) {
	case nil:
		return nil, "nil value"
	case *data.NullValue:
		return vNull(), ""
	case *data.BoolValue:
		return vBool(x.Value), ""
	case *data.IntValue:
		return vInt(int64(x.Value)), ""
	case *data.FloatValue:
		return vFloat(x.Value), ""
	case *data.StringValue:
		return vStr(x.Value), ""
	case *data.ArrayValue:
		named := false
		for _, z := range x.List {
			if z == nil {
				return nil, "nil array slot"
			}
			if z.Name != "" {
				named = true
			}
		}
		if !named {
			out := vList()
			out.L = []*V{}
			for _, z := range x.List {
				e, w := fromData(z.Value)
				if w != "" {
					return nil, w
				}
				out.L = append(out.L, e)
			}
			return out, ""
		}
		out := vMap()
		for i, z := range x.List {
			e, w := fromData(z.Value)
			if w != "" {
				return nil, w
			}
			k := z.Name
			if k == "" {
				k = strconv.Itoa(i)
			}
			out.M = append(out.M, KV{K: k, V: e})
		}
		return out, ""
	case *data.ObjectValue:
		out := vMap()
		out.Obj = true
		bad := ""
		x.RangeProperties(func(k string, val data.Value) bool {
			e, w := fromData(val)
			if w != "" {
				bad = w
				return false
			}
			out.M = append(out.M, KV{K: k, V: e})
			return true
		})
		if bad != "" {
			return nil, bad
		}
		return out, ""
	case *data.ClassValue:
		if x.ObjectValue == nil {
			return nil, "class value without property store"
		}
		return fromData(x.ObjectValue)
	case *data.AnyValue:
		return nil, fmt.Sprintf("AnyValue(%v)", x.Value)
	}
	return nil, fmt.Sprintf("unexpected %T", d)
}
