package main

// Section "built": encoder inputs that are *built incrementally by script code* — mixed
// arrays (positional then keyed, keyed then positional), holes after unset, numeric-string
// keys, appends after keyed slots, keyed literals that are appended to — at top level and
// nested inside lists, keyed literals and other built arrays.
//
// The array is built in-process by a prelude function that applies an op list with the
// interpreter's own `$x[] = v`, `$x[k] = v`, `unset($x[k])`. The ground truth for "which
// keys does this value have" is the interpreter's own view of it: the slot names / positions
// of the resulting data.Value (fromData), cross-checked against `foreach ($x as $k => $v)`
// in the script. How the ops *should* have shaped the array (PHP's next-index rule, numeric
// string normalisation) is array semantics, not this property: a built value whose own view
// is inconsistent (the same key twice, foreach disagreeing with the slots) is counted and
// skipped. Every encoder must then be faithful to that value: json_encode read back by
// encoding/json, serialize read back by the reference reader, both round-tripped through
// the script decoders, and Protowire::parse must honour option arrays built the same way.

import (
	"fmt"
	"math/rand"
	"strconv"
	"strings"

	"github.com/php-any/origami/data"
	pw "google.golang.org/protobuf/encoding/protowire"
)

const builtPrelude = `
function verif_build($x, $ops) {
    foreach ($ops as $op) {
        $t = $op[0];
        if ($t === 'push') { $x[] = $op[2]; }
        elseif ($t === 'set') { $x[$op[1]] = $op[2]; }
        elseif ($t === 'unset') { unset($x[$op[1]]); }
    }
    return $x;
}
function verif_keys($x) { $r = []; foreach ($x as $k => $v) { $r[] = $k; } return $r; }
`

type bop struct {
	t string     // push | set | unset
	k data.Value // key for set / unset
	v int        // index into the case's value list (push / set)
}

type builtShape struct {
	name  string
	start func(v []data.Value) data.Value
	ops   []bop
	nvals int
}

func bint(i int) data.Value    { return data.NewIntValue(i) }
func bstr(s string) data.Value { return data.NewStringValue(s) }

func startList(n int) func(v []data.Value) data.Value {
	return func(v []data.Value) data.Value { return data.NewArrayValue(append([]data.Value{}, v[:n]...)) }
}

func startLiteralMap(v []data.Value) data.Value {
	o := data.NewObjectValue()
	o.SetProperty("k", v[0])
	return o
}

// the enumerated construction shapes; values v0.. are filled in per case
var builtShapes = []builtShape{
	{"positional-then-keyed", startList(1), []bop{{"set", bstr("k"), 1}}, 2},
	{"positional2-then-keyed", startList(2), []bop{{"set", bstr("key"), 2}}, 3},
	{"positional-then-two-keyed", startList(1), []bop{{"set", bstr("a"), 1}, {"set", bstr("b"), 2}}, 3},
	{"keyed-then-positional", startList(0), []bop{{"set", bstr("k"), 0}, {"push", nil, 1}}, 2},
	{"keyed-then-positional2", startList(0), []bop{{"set", bstr("k"), 0}, {"push", nil, 1}, {"push", nil, 2}}, 3},
	{"pushed-then-keyed", startList(0), []bop{{"push", nil, 0}, {"push", nil, 1}, {"set", bstr("k"), 2}}, 3},
	{"keyed-between-positional", startList(1), []bop{{"set", bstr("k"), 1}, {"push", nil, 2}}, 3},
	{"hole-middle", startList(3), []bop{{"unset", bint(1), 0}}, 3},
	{"hole-first", startList(2), []bop{{"unset", bint(0), 0}}, 2},
	{"hole-last", startList(3), []bop{{"unset", bint(2), 0}}, 3},
	{"hole-then-append", startList(3), []bop{{"unset", bint(1), 0}, {"push", nil, 3}}, 4},
	{"hole-last-then-append", startList(3), []bop{{"unset", bint(2), 0}, {"push", nil, 3}}, 4},
	{"emptied-by-unset", startList(1), []bop{{"unset", bint(0), 0}}, 1},
	{"numeric-string-key-then-keyed", startList(0), []bop{{"set", bstr("5"), 0}, {"set", bstr("k"), 1}}, 2},
	{"numeric-string-keys-sequential", startList(0), []bop{{"set", bstr("0"), 0}, {"set", bstr("1"), 1}}, 2},
	{"numeric-string-key-after-positional", startList(2), []bop{{"set", bstr("7"), 2}}, 3},
	{"numeric-string-key-on-existing-position", startList(2), []bop{{"set", bstr("1"), 2}}, 3},
	{"negative-and-leading-zero-string-keys", startList(1), []bop{{"set", bstr("-3"), 1}, {"set", bstr("01"), 2}}, 3},
	{"int-key-sparse-then-append", startList(0), []bop{{"set", bint(3), 0}, {"push", nil, 1}}, 2},
	{"positional-then-sparse-int-then-append", startList(1), []bop{{"set", bint(5), 1}, {"push", nil, 2}}, 3},
	{"int-keys-out-of-order", startList(0), []bop{{"set", bint(2), 0}, {"set", bint(1), 1}, {"set", bint(0), 2}}, 3},
	{"keyed-then-key-unset", startList(1), []bop{{"set", bstr("k"), 1}, {"unset", bstr("k"), 0}}, 2},
	{"keyed-overwritten", startList(1), []bop{{"set", bstr("k"), 1}, {"set", bstr("k"), 2}}, 3},
	{"all-keyed-incremental", startList(0), []bop{{"set", bstr("a"), 0}, {"set", bstr("b"), 1}, {"set", bstr("c"), 2}}, 3},
	{"list-pushed-incremental", startList(0), []bop{{"push", nil, 0}, {"push", nil, 1}, {"push", nil, 2}}, 3},
	{"list-set-sequential", startList(0), []bop{{"set", bint(0), 0}, {"set", bint(1), 1}}, 2},
	{"keyed-first-then-int-keys", startList(0), []bop{{"set", bstr("k"), 0}, {"set", bint(0), 1}, {"set", bint(1), 2}}, 3},
	{"keyed-literal-then-append", startLiteralMap, []bop{{"push", nil, 1}}, 2},
	{"keyed-literal-then-int-key", startLiteralMap, []bop{{"set", bint(0), 1}}, 2},
	{"keyed-literal-then-keyed", startLiteralMap, []bop{{"set", bstr("z"), 1}, {"unset", bstr("k"), 0}}, 2},
}

type builtSec struct {
	w   *Worker
	b   *Bridge
	j   *jsonSec
	s   *serSec
	pws *pwSec
}

// build applies a shape to values through the prelude; it returns the built value and its
// model, or ok=false when the value's own view of its keys is inconsistent (skipped).
func (t *builtSec) build(sh builtShape, vals []data.Value) (data.Value, *V, string) {
	ops := make([]data.Value, len(sh.ops))
	for i, o := range sh.ops {
		k := o.k
		if k == nil {
			k = data.NewNullValue()
		}
		var v data.Value = data.NewNullValue()
		if o.t != "unset" {
			v = vals[o.v]
		}
		ops[i] = data.NewArrayValue([]data.Value{bstr(o.t), k, v})
	}
	r := t.b.Call("verif_build(verif_in(0), verif_in(1))", sh.start(vals), data.NewArrayValue(ops))
	if r.Panic != nil {
		return nil, nil, "panic"
	}
	if !r.HasVal {
		return nil, nil, "threw"
	}
	m, bad := fromData(r.Val)
	if bad != "" {
		return nil, nil, "odd"
	}
	if hasDupKeyModel(m) {
		return nil, nil, "dup"
	}
	// the script's own view of the keys
	rk := t.b.Call("verif_keys(verif_in(0))", r.Val)
	if kv, bad := fromData(rk.Val); rk.HasVal && bad == "" && kv.K == KList {
		var want []string
		for _, e := range pairs(m) {
			want = append(want, e.K)
		}
		var got []string
		for _, e := range kv.L {
			switch e.K {
			case KInt:
				got = append(got, strconv.FormatInt(e.I, 10))
			case KStr:
				got = append(got, e.S)
			default:
				got = append(got, "?")
			}
		}
		if strings.Join(want, "\x00") != strings.Join(got, "\x00") {
			return nil, nil, "view"
		}
	} else {
		return nil, nil, "view"
	}
	return r.Val, m, ""
}

func hasDupKeyModel(v *V) bool {
	if v.K == KMap {
		seen := map[string]bool{}
		for _, e := range v.M {
			if seen[e.K] {
				return true
			}
			seen[e.K] = true
		}
	}
	for _, e := range v.L {
		if hasDupKeyModel(e) {
			return true
		}
	}
	for _, e := range v.M {
		if hasDupKeyModel(e.V) {
			return true
		}
	}
	return false
}

var builtEq = eqOpts{ordered: true, listIsMap: true}

// check runs every covered encoder on value d whose model is m. where = the nesting
// context, shape = the construction shape (both enumerated: the key is seed independent).
func (t *builtSec) check(shape, where string, d data.Value, m *V) {
	w := t.w
	desc := fmt.Sprintf("array built as %s (%s), whose own keys/values are %s", shape, where, m)
	cell := shape + ":" + where

	// json_encode
	r := t.b.Call("json_encode(verif_in(0))", d)
	w.Count("evaluations", 1)
	switch s, ok := asStr(r); {
	case r.Panic != nil:
		w.Violation("json_encode:built-array:"+cell+":"+panicKey(r), "json_encode of the "+desc+" panics in Go: "+fmt.Sprint(r.Panic), "txt", []byte(desc))
	case !ok:
		w.Violation("json_encode:built-array:"+cell+":non-string-result", "json_encode of the "+desc+" = "+describe(r), "txt", []byte(desc))
	default:
		got, valid, _ := refJSON([]byte(s))
		switch {
		case !valid || got == nil:
			w.Violation("json_encode:built-array:"+cell+":invalid-json", fmt.Sprintf("json_encode of the %s = %q, which is not well-formed JSON", desc, s), "txt", []byte(desc))
		case !equal(m, got, builtEq):
			cls := "reads-back-differently"
			if equal(dropKeys(m), got, builtEq) {
				cls = "keys-dropped"
			}
			w.Violation("json_encode:built-array:"+cell+":"+cls, fmt.Sprintf("json_encode of the %s = %s, which encoding/json reads back as %s: the key set is not preserved", desc, s, got), "txt", []byte(desc+"\n"+s))
		default:
			w.Nontrivial("json", cell, s)
			if m.K != KNull {
				if oc, r2 := t.j.judgeDecode(s, m, true); oc != decOK && oc != decOrder {
					t.j.reportDecode(s, m, jstyle{}, true, oc, r2)
				}
			}
		}
	}

	// serialize
	r = t.b.Call("serialize(verif_in(0))", d)
	w.Count("evaluations", 1)
	switch out, ok := asStr(r); {
	case r.Panic != nil:
		w.Violation("serialize:built-array:"+cell+":"+panicKey(r), "serialize of the "+desc+" panics in Go: "+fmt.Sprint(r.Panic), "txt", []byte(desc))
	case !ok:
		w.Violation("serialize:built-array:"+cell+":non-string-result", "serialize of the "+desc+" = "+describe(r), "txt", []byte(desc))
	default:
		got, st, cat := refUnser([]byte(out))
		switch {
		case st != serOK:
			w.Violation("serialize:built-array:"+cell+":ill-formed-output", fmt.Sprintf("serialize of the %s = %q, which is not a well-formed document (%s)", desc, out, cat), "txt", []byte(desc))
		case !equal(canonArr(m), got, serEq):
			cls := "reads-back-differently"
			if equal(canonArr(dropKeys(m)), got, serEq) {
				cls = "keys-dropped"
			}
			w.Violation("serialize:built-array:"+cell+":"+cls, fmt.Sprintf("serialize of the %s = %q, which reads back as %s: the key set is not preserved", desc, out, got), "txt", []byte(desc+"\n"+out))
		default:
			w.Nontrivial("ser", cell, out)
			if oc, r2 := t.s.judgeUnser(out, m); oc != soOK {
				t.s.reportUnser(out, m, sstyle{}, oc, r2)
			}
		}
	}
}

func builtScalar(r *rand.Rand) data.Value {
	switch r.Intn(9) {
	case 0:
		return data.NewNullValue()
	case 1:
		return data.NewBoolValue(r.Intn(2) == 0)
	case 2, 3:
		return data.NewIntValue(r.Intn(2001) - 1000)
	case 4:
		return data.NewFloatValue([]float64{1.5, -2.5, 0.1, 0.5}[r.Intn(4)])
	case 5:
		return data.NewStringValue(utf8Frags[r.Intn(len(utf8Frags))])
	default:
		return data.NewStringValue([]string{"x", "y", "z", "p", "q", "hello", "", "k", "0", "1"}[r.Intn(10)])
	}
}

func runBuilt(w *Worker) {
	b := NewBridge(builtPrelude)
	t := &builtSec{w: w, b: b, j: &jsonSec{w: w, b: b}, s: &serSec{w: w, b: b}, pws: &pwSec{w: w, b: b}}
	if b.BadPrelude != "" {
		w.Violation("built:prelude", "the array-building prelude is not accepted: "+b.BadPrelude, "php", []byte("<?php\n"+builtPrelude))
		return
	}
	r := w.Rand("built")
	rounds := w.Pick(12, 300)
	idx := 0
	for round := 0; round < rounds; round++ {
		for si, sh := range builtShapes {
			idx++
			if !w.Mine(idx) {
				continue
			}
			vals := make([]data.Value, sh.nvals)
			for i := range vals {
				vals[i] = builtScalar(r)
			}
			extra := make([]data.Value, 8)
			for i := range extra {
				extra[i] = builtScalar(r)
			}
			other := builtShapes[r.Intn(len(builtShapes))]
			if !w.Begin([]byte(sh.name + "/" + strconv.Itoa(round))) {
				continue
			}
			d, m, skip := t.build(sh, vals)
			if skip != "" {
				w.Count("built_skipped_"+skip, 1)
				if skip == "panic" {
					w.Violation("built:build-panic:"+sh.name, "building the array "+sh.name+" panics in Go", "txt", []byte(sh.name))
				}
				continue
			}
			// top level
			t.check(sh.name, "top-level", d, m)
			// nested in a plain list, in a keyed literal and in a keyed-slot array
			t.check(sh.name, "in-list", data.NewArrayValue([]data.Value{extra[0], d}), vList(mustModel(extra[0]), m))
			lit := data.NewObjectValue()
			lit.SetProperty("n", extra[1])
			lit.SetProperty("m", d)
			t.check(sh.name, "in-keyed-literal", lit, vMap(KV{K: "n", V: mustModel(extra[1])}, KV{K: "m", V: m}))
			slots := &data.ArrayValue{List: []*data.ZVal{data.NewNamedZVal("n", extra[2]), data.NewNamedZVal("m", d)}}
			t.check(sh.name, "in-keyed-slots", slots, vMap(KV{K: "n", V: mustModel(extra[2])}, KV{K: "m", V: m}))
			// nested as an element of another built array (depth 2), in each value position
			ov := make([]data.Value, other.nvals)
			for i := range ov {
				ov[i] = extra[3+i%5]
			}
			pos := (round + si) % other.nvals
			ov[pos] = d
			if d2, m2, skip2 := t.build(other, ov); skip2 == "" {
				t.check(sh.name, "in-built-array", d2, m2)
			} else {
				w.Count("built_skipped_"+skip2, 1)
			}
			if round == 0 && si < 2 {
				w.Sample(fmt.Sprintf("%s -> %s", sh.name, m))
			}
		}
	}
	if w.Shard == 0 {
		t.protowireOptions()
	}
}

func mustModel(d data.Value) *V {
	m, _ := fromData(d)
	if m == nil {
		return vNull()
	}
	return m
}

// protowireOptions: Protowire::parse must honour option arrays (documented as
// array<int,bool> / array<int,int>) whatever way they were built: keyed literal, int key set
// on an empty array, numeric-string key, sequential int keys, pushes, a list literal.
func (t *builtSec) protowireOptions() {
	w := t.w
	build := func(start data.Value, ops ...[3]data.Value) (data.Value, string) {
		var l []data.Value
		for _, o := range ops {
			l = append(l, data.NewArrayValue([]data.Value{o[0], o[1], o[2]}))
		}
		r := t.b.Call("verif_build(verif_in(0), verif_in(1))", start, data.NewArrayValue(l))
		if !r.HasVal {
			return nil, describe(r)
		}
		return r.Val, ""
	}
	null := data.NewNullValue()
	empty := func() data.Value { return data.NewArrayValue(nil) }
	op := func(t string, k, v data.Value) [3]data.Value { return [3]data.Value{bstr(t), k, v} }
	type variant struct {
		name string
		num  int // the field number the array speaks about
		mk   func(val, filler data.Value) (data.Value, string)
	}
	variants := []variant{
		{"int-key-set", 5, func(v, f data.Value) (data.Value, string) { return build(empty(), op("set", bint(5), v)) }},
		{"numeric-string-key-set", 5, func(v, f data.Value) (data.Value, string) { return build(empty(), op("set", bstr("5"), v)) }},
		{"sequential-int-keys-0-1", 1, func(v, f data.Value) (data.Value, string) {
			return build(empty(), op("set", bint(0), f), op("set", bint(1), v))
		}},
		{"pushed", 1, func(v, f data.Value) (data.Value, string) {
			return build(empty(), op("push", null, f), op("push", null, v))
		}},
		{"list-literal", 1, func(v, f data.Value) (data.Value, string) { return data.NewArrayValue([]data.Value{f, v}), "" }},
		{"list-literal-3", 2, func(v, f data.Value) (data.Value, string) { return data.NewArrayValue([]data.Value{f, f, v}), "" }},
		{"keyed-then-int-key", 5, func(v, f data.Value) (data.Value, string) {
			return build(empty(), op("set", bstr("x"), f), op("set", bint(5), v))
		}},
		{"positional-then-sparse-int-key", 5, func(v, f data.Value) (data.Value, string) {
			return build(data.NewArrayValue([]data.Value{f}), op("set", bint(5), v))
		}},
		{"keyed-literal", 5, func(v, f data.Value) (data.Value, string) {
			o := data.NewObjectValue()
			o.SetProperty("5", v)
			return o, ""
		}},
	}
	inner := pw.AppendVarint(pw.AppendTag(nil, 1, pw.VarintType), 7)
	for _, va := range variants {
		for _, option := range []string{"message_fields", "packed"} {
			if !w.Begin([]byte("pwopts/" + va.name + "/" + option)) {
				continue
			}
			boolArr, bad := va.mk(data.NewBoolValue(true), data.NewBoolValue(false))
			intArr, bad2 := va.mk(data.NewIntValue(5), data.NewIntValue(0))
			if bad != "" || bad2 != "" {
				w.Count("built_skipped_threw", 1)
				continue
			}
			// the array's own view must say: key <num> => true / 5
			m, _ := fromData(boolArr)
			ok := false
			if m != nil && !hasDupKeyModel(m) {
				for _, e := range pairs(m) {
					if e.K == strconv.Itoa(va.num) && e.V.K == KBool && e.V.B {
						ok = true
					}
				}
			}
			if !ok {
				w.Count("built_skipped_view", 1)
				continue
			}
			slotKind := "named"
			if av, isArr := boolArr.(*data.ArrayValue); isArr && va.num < len(av.List) && av.List[va.num] != nil && av.List[va.num].Name == "" {
				slotKind = "positional"
			}
			var enc []byte
			var want *V
			fields := map[string]data.Value{}
			if option == "message_fields" {
				enc = pw.AppendBytes(pw.AppendTag(nil, pw.Number(va.num), pw.BytesType), inner)
				want = vList(vMap(KV{K: "number", V: vInt(int64(va.num))}, KV{K: "wire_type", V: vInt(2)},
					KV{K: "value", V: vList(vMap(KV{K: "number", V: vInt(1)}, KV{K: "wire_type", V: vInt(0)}, KV{K: "value", V: vInt(7)}))}))
				fields["message_fields"] = boolArr
			} else {
				enc = pw.AppendBytes(pw.AppendTag(nil, pw.Number(va.num), pw.BytesType), []byte{1, 0, 0, 0, 2, 0, 0, 0})
				want = vList(vMap(KV{K: "number", V: vInt(int64(va.num))}, KV{K: "wire_type", V: vInt(2)}, KV{K: "value", V: vList(vInt(1), vInt(2))}))
				fields["packed_fields"] = boolArr
				fields["packed_element_type"] = intArr
			}
			for _, outer := range []string{"keyed-literal", "keyed-slots"} {
				var opts data.Value
				if outer == "keyed-literal" {
					o := data.NewObjectValue()
					for _, k := range sortedKeys(fields) {
						o.SetProperty(k, fields[k])
					}
					opts = o
				} else {
					a := &data.ArrayValue{}
					for _, k := range sortedKeys(fields) {
						a.List = append(a.List, data.NewNamedZVal(k, fields[k]))
					}
					opts = a
				}
				r := t.b.Call("Protowire::parse(verif_in(0), verif_in(1))", sv(string(enc)), opts)
				w.Count("evaluations", 1)
				key := "Protowire.parse:built-options:" + slotKind + "-key-ignored:" + option + ":" + va.name + ":" + outer
				if r.Panic != nil {
					w.Violation("Protowire.parse:built-options:"+panicKey(r), fmt.Sprintf("Protowire::parse with %s %s panics: %v", option, m, r.Panic), "txt", []byte(va.name))
					continue
				}
				gv, badv := fromData(r.Val)
				if !r.HasVal || badv != "" || !equal(want, gv, eqOpts{ordered: false, strictNumTyp: true}) {
					w.Violation(key, fmt.Sprintf("Protowire::parse(%x, [%s => …]) = %s: the option array for field %d (own keys/values %s, built as %s) is not honoured; expected %s",
						enc, option, describe(r), va.num, m, va.name, want), "txt", []byte(va.name+" "+option))
					continue
				}
				w.Nontrivial("pwopts", va.name, option, outer)
			}
		}
	}
}
